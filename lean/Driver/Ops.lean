import Driver.Codec

open Lean

namespace DictIO.Ops
open DictIO.Codec

def decOp (j : Json) : Except String Op := do
  let name ← (← j.getObjVal? "o").getStr?
  let key : Except String Key := do decKey (← j.getObjVal? "k")
  let val : Except String Val := do decVal (← j.getObjVal? "v")
  let arg : Except String Arg := do decArg (← j.getObjVal? "a")
  let ents : Except String Entries := do decEntries (← j.getObjVal? "e")
  match name with
  | "setitem" => pure (.setitem (← key) (← val))
  | "delitem" => pure (.delitem (← key))
  | "update" => pure (.update (← arg))
  | "ior" => pure (.ior (← arg))
  | "or" => pure (.or (← arg))
  | "ror" => pure (.ror (← ents))
  | "pop" => pure (.pop (← key))
  | "popd" => pure (.popDefault (← key))
  | "setdefault" => pure (.setdefault (← key) (← val))
  | "clear" => pure .clear
  | "copy" => pure .copy
  | "construct" => pure (.construct (← ents))
  | "merge" => pure (.merge (← arg))
  | _ => throw s!"unknown op {name}"

def encOut : Out → Json
  | .unit => Json.str "unit"
  | .keyError => Json.str "KeyError"
  | .noVal => Json.str "noval"
  | .val v => Json.mkObj [("val", encVal v)]

def encErr : PathErr → Json
  | .keyError => Json.str "KeyError"
  | .indexError => Json.str "IndexError"
  | .recursionError => Json.str "RecursionError"

/-- `str(value)` of a scalar leaf, for the substring instantiation of `find_global_key` -/
def pyStr : Scalar → Str
  | .int z => (toString z).toList
  | .float l => l
  | .bool true => "True".toList
  | .bool false => "False".toList
  | .none => "None".toList
  | .str s => s

def decComps (j : Json) : Except String Comps := do
  (← j.getArr?).toList.mapM decStr

def encComps (p : Comps) : Json := Json.arr (p.map str).toArray

def decCounter (j : Json) : Except String Counter :=
  match j.getObjVal? "start" with
  | .ok (Json.num n) => pure (if n.mantissa < 0 then none else some n.mantissa.toNat)
  | _ => pure none

def encCounter : Counter → Json
  | none => Json.num (Lean.JsonNumber.fromInt (-1))
  | some n => Json.num n

partial def decElem (j : Json) : Except String XElem := do
  let tag ← decStr (← j.getObjVal? "tag")
  let attrs ← (← (← j.getObjVal? "attrs").getArr?).toList.mapM fun a => do
    let p ← a.getArr?
    if p.size != 2 then throw "bad attr"
    pure ((← decStr p[0]!), (← decStr p[1]!))
  let text ← match j.getObjVal? "text" with
    | .ok Json.null => pure none
    | .ok v => do pure (some (← decStr v))
    | .error _ => pure none
  let kids ← (← (← j.getObjVal? "children").getArr?).toList.mapM decElem
  pure (.mk tag attrs text kids)

partial def encElem : XElem → Json
  | .mk tag attrs text kids => Json.mkObj [("tag", str tag), ("attrs", Json.arr (attrs.map fun a => Json.arr #[str a.1, str a.2]).toArray),
      ("text", match text with | some t => str t | none => Json.null), ("children", Json.arr (kids.map encElem).toArray)]

def decFlavor (j : Json) : Except String Flavor := do
  match j.getObjVal? "fl" with
  | .ok v => match ← v.getStr? with
    | "native" => pure .native
    | "foam" => pure .foam
    | "base" => pure .base
    | x => throw s!"bad flavor {x}"
  | .error _ => pure .native

def handle (j : Json) : Except String Json := do
  let op ← (← j.getObjVal? "op").getStr?
  match op with
  | "ping" => pure (Json.str "pong")
  | "sdops" =>
    -- run an operation sequence on an SD and, in lock-step, on a builtin dict
    let s0 ← decSD (← j.getObjVal? "init")
    let ops ← (← (← j.getObjVal? "ops").getArr?).toList.mapM decOp
    let (_, _, outs) := ops.foldl (fun (acc : SD × Entries × List Json) o =>
      let (s, d, outs) := acc
      let (s', out) := step s o
      let (d', dout) := dstep d o
      (s', d', outs ++ [Json.mkObj [("sd", encSD s'), ("out", encOut out), ("dict", encEntries d'), ("dout", encOut dout)]])) (s0, s0.data, [])
    pure (Json.arr outs.toArray)
  | "order" => pure (encVal (orderV (← decVal (← j.getObjVal? "v"))))
  | "sdorder" => pure (encSD (← decSD (← j.getObjVal? "sd")).order)
  | "get" =>
    match getPath (← decVal (← j.getObjVal? "v")) (← decPath (← j.getObjVal? "p")) with
    | some v => pure (Json.mkObj [("val", encVal v)])
    | none => pure (Json.str "none")
  | "set" =>
    match setPath (← decVal (← j.getObjVal? "v")) (← decPath (← j.getObjVal? "p")) (← decVal (← j.getObjVal? "x")) with
    | .ok v => pure (Json.mkObj [("val", encVal v)])
    | .error e => pure (encErr e)
  | "exists" => pure (Json.bool (pathExists (← decEntries (← j.getObjVal? "e")) (← decPath (← j.getObjVal? "p"))))
  | "find" =>
    let q ← decStr (← j.getObjVal? "q")
    match findKey (fun x => isInfix q (pyStr x)) (← decVal (← j.getObjVal? "v")) with
    | some p => pure (encPath p)
    | none => pure (Json.str "none")
  | "reduce" => pure (encSD ((← decSD (← j.getObjVal? "sd")).reduceScope (← decPath (← j.getObjVal? "p"))))
  | "parse_value" => pure (encScalar (parseValue (← decStr (← j.getObjVal? "s"))))
  | "parse_key" =>
    pure (encScalar (parseKey (← decStr (← j.getObjVal? "s"))))
  | "remove_quotes" => pure (str (removeQuotes (← decStr (← j.getObjVal? "s"))))
  | "format_value" =>
    let fl ← decFlavor j
    match ← decVal (← j.getObjVal? "v") with
    | .leaf x => pure (str (formatScalar fl x))
    | _ => throw "format_value: scalar expected"
  | "relpath" =>
    pure (encComps (relPath (← decComps (← j.getObjVal? "from")) (← decComps (← j.getObjVal? "to"))))
  | "joinnorm" =>
    pure (encComps (joinNorm (← decComps (← j.getObjVal? "from")) (← decComps (← j.getObjVal? "rel"))))
  | "commonroot" =>
    let ps ← (← (← j.getObjVal? "paths").getArr?).toList.mapM decComps
    pure (encComps (commonRoot ps))
  | "targetname" =>
    let optStr (k : String) : Except String (Option Str) :=
      match j.getObjVal? k with
      | .ok Json.null => pure none
      | .ok v => do pure (some (← decStr v))
      | .error _ => pure none
    let scope ← (← (← j.getObjVal? "scope").getArr?).toList.mapM decStr
    pure (str (targetName (← decStr (← j.getObjVal? "name")) (← optStr "prefix") scope (← optStr "output")))
  | "includeline" =>
    match includeLine (← decStr (← j.getObjVal? "name")) with
    | some l => pure (str l)
    | none => pure (Json.str "unsupported")
  | "parseinclude" =>
    match parseIncludeLine (← decStr (← j.getObjVal? "line")) with
    | some l => pure (Json.mkObj [("name", str l)])
    | none => pure (Json.str "none")
  | "alloc" =>
    let c : Counter := match j.getObjVal? "start" with
      | .ok (Json.num n) => if n.mantissa < 0 then none else some n.mantissa.toNat
      | _ => none
    pure (Json.arr ((alloc Gen.counterLimit (← (← j.getObjVal? "n").getNat?) c).map fun (i : Nat) => Json.num i).toArray)
  | "fmt_plain" =>
    pure (str (fmtPlain (← decFlavor j) (← decEntries (← j.getObjVal? "e"))))
  | "fmt_sd" =>
    match fmtSD (← decFlavor j) (← decSD (← j.getObjVal? "sd")) with
    | some t => pure (str t)
    | none => pure (Json.mkObj [("perr", Json.str "unsupported")])
  | "parse_native" =>
    let comments := match j.getObjVal? "comments" with | .ok (Json.bool b) => b | _ => true
    let dir ← match j.getObjVal? "dir" with | .ok v => decStr v | .error _ => pure []
    let c ← decCounter j
    match parseNative comments dir c (← decStr (← j.getObjVal? "text")) with
    | .ok (sd, c') => pure (Json.mkObj [("sd", encSD sd), ("counter", encCounter c')])
    | .error e => pure (Json.mkObj [("perr", Json.str (match e with | .unsupported => "unsupported" | .malformed => "malformed" | .tooDeep => "tooDeep"))])
  | "tokenize" =>
    pure (Json.arr ((levels 0 (tokenize (← decStr (← j.getObjVal? "text")))).map fun t => Json.arr #[Json.num (Lean.JsonNumber.fromInt t.1), str t.2]).toArray)
  | "read" =>
    let fsj ← (← j.getObjVal? "fs").getArr?
    let fs ← fsj.toList.mapM fun e => do
      let a ← e.getArr?
      if a.size != 2 then throw "bad fs entry"
      let p ← decComps a[0]!
      let body ← match a[1]!.getObjVal? "native" with
        | .ok t => do pure (FileBody.native (← decStr t))
        | .error _ => do pure (FileBody.json (← decEntries (← a[1]!.getObjVal? "json")))
      pure (p, body)
    let p ← decComps (← j.getObjVal? "path")
    let flag (k : String) (d : Bool) : Bool := match j.getObjVal? k with | .ok (Json.bool b) => b | _ => d
    let scope ← match j.getObjVal? "scope" with | .ok v => decPath v | .error _ => pure []
    let o : ReadOpts := { includes := flag "includes" true, order := flag "order" false, comments := flag "comments" true, scope := scope }
    match readFile evalInt fs o (← decCounter j) p with
    | .ok (.ok sd c) => pure (Json.mkObj [("sd", encSD sd), ("counter", encCounter c)])
    | .ok .exit1 => pure (Json.str "exit1")
    | .error e => pure (Json.mkObj [("perr", Json.str (match e with | .unsupported => "unsupported" | .malformed => "malformed" | .tooDeep => "tooDeep"))])
  | "write_step" =>
    let existing ← match j.getObjVal? "existing" with
      | .ok Json.null => pure none
      | .ok v => do pure (some (← decStr v))
      | .error _ => pure none
    let order := match j.getObjVal? "order" with | .ok (Json.bool b) => b | _ => false
    let fl ← decFlavor j
    let mode ← decStr (← j.getObjVal? "mode")
    let es ← decEntries (← j.getObjVal? "e")
    let c ← decCounter j
    match writeStep evalInt fl ["R".toList, "t".toList] existing mode order es c with
    | .ok (t, c) => pure (Json.mkObj [("text", str t), ("counter", encCounter c)])
    | .error e => pure (Json.mkObj [("perr", Json.str (match e with | .unsupported => "unsupported" | .malformed => "malformed" | .tooDeep => "tooDeep"))])
  | "effects" =>
    let encEff (e : Effect) : Json := match e with
      | .read p => Json.arr #[Json.str "read", encComps p]
      | .mkdirs p => Json.arr #[Json.str "mkdirs", encComps p]
      | .write p => Json.arr #[Json.str "write", encComps p]
    let flag (k : String) : Bool := match j.getObjVal? k with | .ok (Json.bool b) => b | _ => false
    let kind ← (← j.getObjVal? "kind").getStr?
    match kind with
    | "write" =>
      pure (Json.arr ((writeEffects (← decComps (← j.getObjVal? "target")) (flag "exists") (← decStr (← j.getObjVal? "mode")) (flag "ok")).map encEff).toArray)
    | "read" =>
      let fsr ← (← (← j.getObjVal? "files").getArr?).toList.mapM decComps
      pure (Json.arr ((readEffects fsr).map encEff).toArray)
    | "parse" =>
      let src ← decComps (← j.getObjVal? "source")
      let inc ← (← (← j.getObjVal? "included").getArr?).toList.mapM decComps
      pure (Json.arr ((parseEffects src inc (← decStr (← j.getObjVal? "name")) (flag "exists") (← decStr (← j.getObjVal? "mode")) (flag "ok")).map encEff).toArray)
    | _ => throw "bad effects kind"
  | "validate_scope" =>
    match validateScope (some (← decStr (← j.getObjVal? "s"))) with
    | some xs => pure (Json.arr (xs.map encScalar).toArray)
    | none => pure (Json.str "none")
  | "xml_to_dict" =>
    let (es, c) := xmlToDict (← decCounter j) (← decElem (← j.getObjVal? "elem"))
    pure (Json.mkObj [("data", encEntries es), ("counter", encCounter c)])
  | "dict_to_xml" =>
    pure (encElem (dictToXml (← decStr (← j.getObjVal? "tag")) (.dict (← decEntries (← j.getObjVal? "e")))))
  | "evalint" =>
    match evalInt (← decStr (← j.getObjVal? "s")) with
    | .value v => pure (encVal v)
    | _ => pure (Json.str "unsupported")
  | _ => throw s!"unknown op {op}"

end DictIO.Ops
