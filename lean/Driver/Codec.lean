/-
  JSON line-protocol codec between the Python harness and the Lean model.
  Values carry explicit type tags so that int-vs-str keys, bool-vs-int and key order survive:
    {"i":"12"} {"f":"1e-05"} {"b":true} {"n":null} {"s":"…"} {"d":[[key,val],…]} {"l":[…]}
-/
import Lean.Data.Json
import DictIO.ModelAll

open Lean

namespace DictIO.Codec

def str (s : Str) : Json := Json.str (String.ofList s)

def encKey : Key → Json
  | .int z => Json.mkObj [("i", Json.str (toString z))]
  | .str s => Json.mkObj [("s", str s)]

def encScalar : Scalar → Json
  | .int z => Json.mkObj [("i", Json.str (toString z))]
  | .float l => Json.mkObj [("f", str l)]
  | .bool b => Json.mkObj [("b", Json.bool b)]
  | .none => Json.mkObj [("n", Json.null)]
  | .str s => Json.mkObj [("s", str s)]

partial def encVal : Val → Json
  | .leaf x => encScalar x
  | .dict es => Json.mkObj [("d", Json.arr (es.map fun (k, v) => Json.arr #[encKey k, encVal v]).toArray)]
  | .list xs => Json.mkObj [("l", Json.arr (xs.map encVal).toArray)]

def encEntries (es : Entries) : Json := Json.arr (es.map fun (k, v) => Json.arr #[encKey k, encVal v]).toArray

def decStr (j : Json) : Except String Str := do
  let s ← j.getStr?
  pure s.toList

def decKey (j : Json) : Except String Key := do
  match j.getObjVal? "i" with
  | .ok v => do
    let s ← v.getStr?
    match s.toInt? with
    | some z => pure (.int z)
    | none => throw s!"bad int {s}"
  | .error _ => do
    let v ← j.getObjVal? "s"
    pure (.str (← decStr v))

partial def decVal (j : Json) : Except String Val := do
  if let .ok v := j.getObjVal? "i" then
    let s ← v.getStr?
    match s.toInt? with
    | some z => return .leaf (.int z)
    | none => throw s!"bad int {s}"
  if let .ok v := j.getObjVal? "f" then return .leaf (.float (← decStr v))
  if let .ok v := j.getObjVal? "b" then return .leaf (.bool (← v.getBool?))
  if let .ok _ := j.getObjVal? "n" then return .leaf .none
  if let .ok v := j.getObjVal? "s" then return .leaf (.str (← decStr v))
  if let .ok v := j.getObjVal? "d" then
    let arr ← v.getArr?
    let es ← arr.toList.mapM fun e => do
      let p ← e.getArr?
      if p.size != 2 then throw "bad pair"
      pure ((← decKey p[0]!), (← decVal p[1]!))
    return .dict es
  if let .ok v := j.getObjVal? "l" then
    let arr ← v.getArr?
    return .list (← arr.toList.mapM decVal)
  throw s!"bad value {j.compress}"

def decEntries (j : Json) : Except String Entries := do
  match ← decVal (Json.mkObj [("d", j)]) with
  | .dict es => pure es
  | _ => throw "bad entries"

def decPath (j : Json) : Except String (List Key) := do
  (← j.getArr?).toList.mapM decKey

def encPath (p : List Key) : Json := Json.arr (p.map encKey).toArray

def decTbl {α} (f : Json → Except String α) (j : Json) : Except String (Tbl α) := do
  (← j.getArr?).toList.mapM fun e => do
    let p ← e.getArr?
    if p.size != 2 then throw "bad table pair"
    pure ((← p[0]!.getNat?), (← f p[1]!))

def encTbl {α} (f : α → Json) (t : Tbl α) : Json :=
  Json.arr (t.map fun (i, a) => Json.arr #[Json.num i, f a]).toArray

def decExpr (j : Json) : Except String ExprEntry := do
  let a ← j.getArr?
  if a.size != 2 then throw "bad expr entry"
  pure { expression := (← decStr a[0]!), name := (← decStr a[1]!) }

def encExpr (e : ExprEntry) : Json := Json.arr #[str e.expression, str e.name]

def decIncl (j : Json) : Except String InclEntry := do
  let a ← j.getArr?
  if a.size != 3 then throw "bad include entry"
  pure { directive := (← decStr a[0]!), file := (← decStr a[1]!), path := (← decStr a[2]!) }

def encIncl (e : InclEntry) : Json := Json.arr #[str e.directive, str e.file, str e.path]

def decSD (j : Json) : Except String SD := do
  let data ← decEntries (← j.getObjVal? "data")
  let opt {α} (k : String) (f : Json → Except String (Tbl α)) : Except String (Tbl α) :=
    match j.getObjVal? k with
    | .ok v => f v
    | .error _ => pure []
  pure { data := data, exprs := (← opt "exprs" (decTbl decExpr)), lineC := (← opt "lineC" (decTbl decStr)),
         blockC := (← opt "blockC" (decTbl decStr)), incl := (← opt "incl" (decTbl decIncl)) }

def encSD (s : SD) : Json :=
  Json.mkObj [("data", encEntries s.data), ("exprs", encTbl encExpr s.exprs), ("lineC", encTbl str s.lineC),
              ("blockC", encTbl str s.blockC), ("incl", encTbl encIncl s.incl)]

def decArg (j : Json) : Except String Arg := do
  match j.getObjVal? "sd" with
  | .ok v => pure (.sd (← decSD v))
  | .error _ => pure (.plain (← decEntries (← j.getObjVal? "plain")))

end DictIO.Codec
