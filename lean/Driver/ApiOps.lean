/-
  Driver op `api_run`: a whole history of API calls against the world model of `DictIO/Model/Api.lean`.
  Request : {"op":"api_run","fs":[[comps,{"native":text}|{"json":entries}],…],"counter":…,"ops":[…]}
  Reply   : {"outs":[…],"fs":[[comps,{"native":text}],…],"counter":…}
-/
import Driver.Ops
import DictIO.Model.Api

open Lean

namespace DictIO.ApiOps
open DictIO.Codec DictIO.Ops

def decFS (j : Json) : Except String FS := do
  let fsj ← j.getArr?
  fsj.toList.mapM fun e => do
    let a ← e.getArr?
    if a.size != 2 then throw "bad fs entry"
    let p ← decComps a[0]!
    let body ← match a[1]!.getObjVal? "native" with
      | .ok t => do pure (FileBody.native (← decStr t))
      | .error _ => do pure (FileBody.json (← decEntries (← a[1]!.getObjVal? "json")))
    pure (p, body)

def encFS (fs : FS) : Json :=
  Json.arr (fs.map fun e => Json.arr #[encComps e.1, match e.2 with
    | .native t => Json.mkObj [("native", str t)]
    | .json es => Json.mkObj [("json", encEntries es)]]).toArray

def decReadOpts (j : Json) : Except String ReadOpts := do
  let flag (k : String) (d : Bool) : Bool := match j.getObjVal? k with | .ok (Json.bool b) => b | _ => d
  let scope ← match j.getObjVal? "scope" with | .ok v => decPath v | .error _ => pure []
  pure { includes := flag "includes" true, order := flag "order" false, comments := flag "comments" true, scope := scope }

def decApiOp (j : Json) : Except String ApiOp := do
  let k ← (← j.getObjVal? "k").getStr?
  let flag (k : String) (d : Bool) : Bool := match j.getObjVal? k with | .ok (Json.bool b) => b | _ => d
  match k with
  | "read" => pure (.read (← decComps (← j.getObjVal? "p")) (← decReadOpts j))
  | "load" => pure (.load (← decComps (← j.getObjVal? "p")))
  | "reset" => pure .reset
  | "write" => pure (.write (← decArg (← j.getObjVal? "a")) (← decComps (← j.getObjVal? "t")) (← decStr (← j.getObjVal? "mode")) (flag "order" false))
  | "dump" => pure (.dump (← decSD (← j.getObjVal? "sd")) (← decComps (← j.getObjVal? "t")))
  | "parse" =>
    let output ← match j.getObjVal? "output" with
      | .ok Json.null => pure none
      | .ok v => do pure (some (← decStr v))
      | .error _ => pure none
    pure (.parse (← decComps (← j.getObjVal? "p")) (← decReadOpts j) (← decStr (← j.getObjVal? "mode")) output)
  | x => throw s!"bad api op {x}"

def encOut : ApiOut → Json
  | .data s => Json.mkObj [("data", encSD s)]
  | .done => Json.str "done"
  | .exit1 => Json.str "exit1"
  | .notFound => Json.str "notFound"
  | .gaveUp e => Json.mkObj [("perr", Json.str (match e with | .unsupported => "unsupported" | .malformed => "malformed" | .tooDeep => "tooDeep"))]

def handle (j : Json) : Except String Json := do
  let fs ← decFS (← j.getObjVal? "fs")
  let c ← decCounter j
  let ops ← (← (← j.getObjVal? "ops").getArr?).toList.mapM decApiOp
  let (w, outs) := apiRun evalInt { fs := fs, c := c } ops
  pure (Json.mkObj [("outs", Json.arr (outs.map encOut).toArray), ("fs", encFS w.fs), ("counter", encCounter w.c)])

end DictIO.ApiOps
