import DictIO.Model.Value
import DictIO.Model.Chars
import DictIO.Model.Dict
import DictIO.Model.Order
import DictIO.Model.KeyPath
