import DictIO.Model.Value
import DictIO.Model.Chars
import DictIO.Model.Dict
import DictIO.Model.Order
import DictIO.Model.KeyPath
import DictIO.Lemmas.Order
import DictIO.Lemmas.Assoc
import DictIO.Props.C15
