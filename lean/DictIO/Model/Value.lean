/-
  Shared value types of the dictIO model.

  A Python `dict` is an insertion-ordered association list (`List (Key × Val)`); key
  uniqueness is a separate invariant (`Val.WF`), not a subtype.  Strings are `List Char`
  (code points; Python `str` comparison is code-point lexicographic, so is `List.lt` on
  `Char`).  Floats are never computed with: a float leaf carries its lexeme.
-/
namespace DictIO

abbrev Str := List Char

inductive Key where
  | int (z : Int)
  | str (s : Str)
  deriving DecidableEq, Repr, Inhabited

inductive Scalar where
  | int (z : Int)
  | float (lex : Str)
  | bool (b : Bool)
  | none
  | str (s : Str)
  deriving DecidableEq, Repr, Inhabited

inductive Val where
  | leaf (x : Scalar)
  | dict (es : List (Key × Val))
  | list (xs : List Val)
  deriving Repr, Inhabited


/-! ### decidable equality of `Val` (nested inductive: written by hand) -/

mutual
  def Val.beq : Val → Val → Bool
    | .leaf x, .leaf y => decide (x = y)
    | .dict es, .dict fs => beqEs es fs
    | .list xs, .list ys => beqXs xs ys
    | _, _ => false
  def beqEs : List (Key × Val) → List (Key × Val) → Bool
    | [], [] => true
    | (k, v) :: es, (k', v') :: fs => decide (k = k') && Val.beq v v' && beqEs es fs
    | _, _ => false
  def beqXs : List Val → List Val → Bool
    | [], [] => true
    | v :: xs, v' :: ys => Val.beq v v' && beqXs xs ys
    | _, _ => false
end

mutual
  theorem Val.beq_iff : ∀ a b : Val, Val.beq a b = true ↔ a = b
    | .leaf x, .leaf y => by simp [Val.beq]
    | .dict es, .dict fs => by simp [Val.beq, beqEs_iff es fs]
    | .list xs, .list ys => by simp [Val.beq, beqXs_iff xs ys]
    | .leaf _, .dict _ => by simp [Val.beq]
    | .leaf _, .list _ => by simp [Val.beq]
    | .dict _, .leaf _ => by simp [Val.beq]
    | .dict _, .list _ => by simp [Val.beq]
    | .list _, .leaf _ => by simp [Val.beq]
    | .list _, .dict _ => by simp [Val.beq]
  theorem beqEs_iff : ∀ a b : List (Key × Val), beqEs a b = true ↔ a = b
    | [], [] => by simp [beqEs]
    | [], _ :: _ => by simp [beqEs]
    | _ :: _, [] => by simp [beqEs]
    | (k, v) :: es, (k', v') :: fs => by simp [beqEs, Val.beq_iff v v', beqEs_iff es fs, and_assoc]
  theorem beqXs_iff : ∀ a b : List Val, beqXs a b = true ↔ a = b
    | [], [] => by simp [beqXs]
    | [], _ :: _ => by simp [beqXs]
    | _ :: _, [] => by simp [beqXs]
    | v :: xs, v' :: ys => by simp [beqXs, Val.beq_iff v v', beqXs_iff xs ys]
end

instance : DecidableEq Val := fun a b => decidable_of_iff _ (Val.beq_iff a b)

abbrev Entries := List (Key × Val)

namespace Val
def isDict : Val → Bool | .dict _ => true | _ => false
def isList : Val → Bool | .list _ => true | _ => false
def isLeaf : Val → Bool | .leaf _ => true | _ => false
end Val

/-! ### association-list primitives (builtin `dict` semantics) -/

/-- `d.get(k)` -/
def lookup (k : Key) : Entries → Option Val
  | [] => none
  | (k', v) :: es => if k' = k then some v else lookup k es

/-- `k in d` -/
def hasKey (k : Key) (es : Entries) : Bool := (lookup k es).isSome

/-- `d[k] = v` : replace in place, or append at the end -/
def setKey (k : Key) (v : Val) : Entries → Entries
  | [] => [(k, v)]
  | (k', v') :: es => if k' = k then (k, v) :: es else (k', v') :: setKey k v es

/-- `del d[k]` (no-op when absent; callers check presence where Python would raise) -/
def delKey (k : Key) : Entries → Entries
  | [] => []
  | (k', v') :: es => if k' = k then es else (k', v') :: delKey k es

abbrev keys (es : Entries) : List Key := es.map (·.1)

end DictIO
