/-
  Shared value types of the dictIO model.

  A Python `dict` is an insertion-ordered association list (`List (Key × Val)`); key
  uniqueness is a separate invariant (`Val.WF`), not a subtype.  Strings are `List Char`
  (code points; Python `str` comparison is code-point lexicographic, so is `List.lt` on
  `Char`).  Floats are never computed with: a float leaf carries its lexeme.
-/
namespace DictIO

abbrev Str := List Char

inductive Key where
  | int (z : Int)
  | str (s : Str)
  deriving DecidableEq, Repr, Inhabited

inductive Scalar where
  | int (z : Int)
  | float (lex : Str)
  | bool (b : Bool)
  | none
  | str (s : Str)
  deriving DecidableEq, Repr, Inhabited

inductive Val where
  | leaf (x : Scalar)
  | dict (es : List (Key × Val))
  | list (xs : List Val)
  deriving Repr, Inhabited

abbrev Entries := List (Key × Val)

namespace Val
def isDict : Val → Bool | .dict _ => true | _ => false
def isList : Val → Bool | .list _ => true | _ => false
def isLeaf : Val → Bool | .leaf _ => true | _ => false
end Val

/-! ### association-list primitives (builtin `dict` semantics) -/

/-- `d.get(k)` -/
def lookup (k : Key) : Entries → Option Val
  | [] => none
  | (k', v) :: es => if k' = k then some v else lookup k es

/-- `k in d` -/
def hasKey (k : Key) (es : Entries) : Bool := (lookup k es).isSome

/-- `d[k] = v` : replace in place, or append at the end -/
def setKey (k : Key) (v : Val) : Entries → Entries
  | [] => [(k, v)]
  | (k', v') :: es => if k' = k then (k, v) :: es else (k', v') :: setKey k v es

/-- `del d[k]` (no-op when absent; callers check presence where Python would raise) -/
def delKey (k : Key) : Entries → Entries
  | [] => []
  | (k', v') :: es => if k' = k then es else (k', v') :: delKey k es

def keys (es : Entries) : List Key := es.map (·.1)

end DictIO
