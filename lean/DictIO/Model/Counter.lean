/-
  Model of `utils/counter.py:BorgCounter`: a process-global counter that starts at -1, is
  incremented before use and wraps to 0 after the generated limit (999999); placeholder ids
  are drawn from it.  Also the placeholder-id canonicalisation (rank of first appearance).
-/
import DictIO.Model.Scalar

namespace DictIO

/-- counter state: `none` = freshly reset (-1), `some n` = last value handed out -/
abbrev Counter := Option Nat

/-- `BorgCounter.__call__` -/
def Counter.next (limit : Nat) : Counter → Nat × Counter
  | none => (0, some 0)
  | some n => if n + 1 > limit then (0, some 0) else (n + 1, some (n + 1))

/-- the next `k` ids handed out from state `c` -/
def alloc (limit : Nat) : Nat → Counter → List Nat
  | 0, _ => []
  | k + 1, c => let (i, c') := Counter.next limit c; i :: alloc limit k c'

/-- replace every id by its rank of first appearance -/
def rankCanon (ids : List Nat) : List Nat :=
  let firsts := ids.eraseDups
  ids.map fun i => firsts.idxOf i

/-- `f"{kw}{i:06d}"` -/
def padSix (i : Nat) : Str :=
  let d := natDigits i
  List.replicate (6 - d.length) '0' ++ d

end DictIO
