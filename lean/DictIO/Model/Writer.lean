/-
  Model of `DictWriter.write` (dict_writer.py) for the native / Foam formats, of `DictParser.parse`, and of
  the order in which their file-system effects happen.
-/
import DictIO.Model.Reader
import DictIO.Model.Written

namespace DictIO

/-- one write to a target whose current content is `existing` (`none` = the file does not exist):
    `_retype_values`, append-merge, ordering, serialisation.  Returns the new content. -/
def writeStep (ev : Str → EvalResult) (fl : Flavor) (target : Comps) (existing : Option Str) (mode : Str) (order : Bool)
    (d : Entries) (c : Counter) : Except ParseErr (Str × Counter) :=
  let d := normEs d
  match existing with
  | some text =>
    if mode == ['a'] then
      match readFile ev [(target, .native text)] { order := order } c target with
      | .error e => .error e
      | .ok .exit1 => .error .unsupported
      | .ok (.ok sd c') =>
        let sd := sd.merge (.plain d)
        let sd := if order then sd.order else sd
        match fmtSD fl sd with
        | some t => .ok (t, c')
        | none => .error .unsupported
    else .ok (fmtPlain fl (if order then orderD d else d), c)
  | none => .ok (fmtPlain fl (if order then orderD d else d), c)

/-- file-system effects of the API operations, in the order they happen -/
inductive Effect where
  | read (p : Comps)
  | mkdirs (p : Comps)
  | write (p : Comps)
  deriving DecidableEq, Repr

/-- `DictWriter.write(d, target, mode)`: (optional read of the target), then serialise, then create the parent
    directories, then open the target for writing.  `serialiseOk = false` models a formatter that raises. -/
def writeEffects (target : Comps) (existsBefore : Bool) (mode : Str) (serialiseOk : Bool) : List Effect :=
  (if mode == ['a'] && existsBefore then [Effect.read target] else []) ++
  (if serialiseOk then [Effect.mkdirs target.dropLast, Effect.write target] else [])

/-- `DictReader.read`: the file and the files it includes are read; nothing else -/
def readEffects (filesRead : List Comps) : List Effect := filesRead.map Effect.read

/-- `DictParser.parse(source, …)`: read, derive the target name, write -/
def parseEffects (source : Comps) (included : List Comps) (targetName : Str) (targetExists : Bool) (mode : Str)
    (serialiseOk : Bool) : List Effect :=
  readEffects (source :: included) ++ writeEffects (source.dropLast ++ [targetName]) targetExists mode serialiseOk

end DictIO
