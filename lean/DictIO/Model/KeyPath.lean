/-
  Model of `utils/dict.py`: `find_global_key`, `set_global_key`, `global_key_exists`,
  and of `SDict.reduce_scope` (repaired, fix D22: walks the keys, key text is data).
-/
import DictIO.Model.Order

namespace DictIO

inductive PathErr where
  | keyError | indexError | recursionError
  deriving DecidableEq, Repr, Inhabited

/-- Python list indexing with an int (negative indices count from the end) -/
def pyIndex (n : Nat) (z : Int) : Option Nat :=
  if 0 ≤ z then (if z.toNat < n then some z.toNat else none)
  else (if (-z).toNat ≤ n then some (n - (-z).toNat) else none)

/-- `node[key]` for a dict or list node -/
def child (v : Val) (k : Key) : Except PathErr Val :=
  match v, k with
  | .dict es, k => match lookup k es with
    | some c => .ok c
    | none => .error .keyError
  | .list xs, .int z => match pyIndex xs.length z with
    | some i => match xs[i]? with
      | some c => .ok c
      | none => .error .indexError
    | none => .error .indexError
  | .list _, .str _ => .error .keyError
  | .leaf _, _ => .error .keyError

/-- dereference a key path (the reading the property talks about) -/
def getPath : Val → List Key → Option Val
  | v, [] => some v
  | v, k :: p => match child v k with
    | .ok c => getPath c p
    | .error _ => none

/-- `node[key] = value` for the final step of `set_global_key` -/
def assign (v : Val) (k : Key) (x : Val) : Except PathErr Val :=
  match v, k with
  | .dict es, k => .ok (.dict (setKey k x es))
  | .list xs, .int z => match pyIndex xs.length z with
    | some i => .ok (.list (xs.set i x))
    | none => .error .indexError
  | .list _, .str _ => .error .keyError
  | .leaf _, _ => .error .keyError

/-- put a changed child back (functional counterpart of in-place mutation) -/
def putChild (v : Val) (k : Key) (c : Val) : Val :=
  match v, k with
  | .dict es, k => .dict (setKey k c es)
  | .list xs, .int z => match pyIndex xs.length z with
    | some i => .list (xs.set i c)
    | none => v
  | v, _ => v

/-- `set_global_key`: `ii` counts the descents made so far (the code raises at the tenth) -/
def setPathAux (ii : Nat) (v : Val) : List Key → Val → Except PathErr Val
  | [], _ => .ok v
  | [k], x => assign v k x
  | k :: k' :: p, x =>
    match child v k with
    | .error e => .error e
    | .ok c =>
      if c.isLeaf then .error .keyError
      else if ii + 1 = 10 then .error .recursionError
      else match setPathAux (ii + 1) c (k' :: p) x with
        | .error e => .error e
        | .ok c' => .ok (putChild v k c')

def setPath (v : Val) (p : List Key) (x : Val) : Except PathErr Val := setPathAux 0 v p x

/-- `global_key_exists` -/
def pathExists : Entries → List Key → Bool
  | _, [] => true
  | es, k :: p => match lookup k es with
    | some (.dict sub) => pathExists sub p
    | _ => false

mutual
  /-- sort the entries of every dict, at every depth (also inside lists) -/
  def deepSortV : Val → Val
    | .leaf x => .leaf x
    | .dict es => .dict (sortByKey (deepSortEs es))
    | .list xs => .list (deepSortXs xs)
  def deepSortEs : Entries → Entries
    | [] => []
    | (k, v) :: es => (k, deepSortV v) :: deepSortEs es
  def deepSortXs : List Val → List Val
    | [] => []
    | v :: xs => deepSortV v :: deepSortXs xs
end

mutual
  /-- depth-first search for the first scalar leaf satisfying `m`, entries in the given order -/
  def findRawV (m : Scalar → Bool) : Val → Option (List Key)
    | .leaf _ => none
    | .dict es => findRawEs m es
    | .list xs => findRawXs m 0 xs
  def findRawEs (m : Scalar → Bool) : Entries → Option (List Key)
    | [] => none
    | (k, .leaf x) :: es => if m x then some [k] else findRawEs m es
    | (k, .dict d) :: es => match findRawEs m d with
      | some p => some (k :: p)
      | none => findRawEs m es
    | (k, .list l) :: es => match findRawXs m 0 l with
      | some p => some (k :: p)
      | none => findRawEs m es
  def findRawXs (m : Scalar → Bool) : Nat → List Val → Option (List Key)
    | _, [] => none
    | i, .leaf x :: xs => if m x then some [.int i] else findRawXs m (i + 1) xs
    | i, .dict d :: xs => match findRawEs m d with
      | some p => some (.int i :: p)
      | none => findRawXs m (i + 1) xs
    | i, .list l :: xs => match findRawXs m 0 l with
      | some p => some (.int i :: p)
      | none => findRawXs m (i + 1) xs
end

/-- `find_global_key` with the regex test abstracted to a predicate on scalar leaves:
    dict entries are visited in sorted key order (ints first), list elements by index.
    (Python returns `None` also when the search *succeeds* with an empty path, which cannot
    happen: a found path has at least one key.) -/
def findKey (m : Scalar → Bool) (v : Val) : Option (List Key) := findRawV m (deepSortV v)

/-- the sub-dict a scope path leads to, if every step is a dict -/
def scopeOf : Entries → List Key → Option Entries
  | es, [] => some es
  | es, k :: p => match lookup k es with
    | some (.dict sub) => scopeOf sub p
    | _ => none

/-- `SDict.reduce_scope` (data part; `update` of the reduced dict, tables kept, then `_clean`) -/
def SD.reduceScope (s : SD) (scope : List Key) : SD :=
  match scope with
  | [] => s
  | _ => match scopeOf s.data scope with
    | some sub => ({ s with data := updateD [] sub }).clean
    | none => s

end DictIO
