/-
  Model of the dict ↔ element-tree mapping of `XmlParser._parse_nodes` and `XmlFormatter.populate_into_element`
  over an abstract element tree.  XML text ↔ tree (lxml in, ElementTree + minidom out), namespace registration and
  the prefix-stripping regex are not modelled (correspondence only).
-/
import DictIO.Model.NativeParse

namespace DictIO

/-- an XML element: local tag name, attributes (local names), text, child elements -/
inductive XElem where
  | mk (tag : Str) (attrs : List (Str × Str)) (text : Option Str) (children : List XElem)
  deriving Repr, Inhabited

def XElem.tag : XElem → Str | .mk t _ _ _ => t
def XElem.attrs : XElem → List (Str × Str) | .mk _ a _ _ => a
def XElem.text : XElem → Option Str | .mk _ _ t _ => t
def XElem.children : XElem → List XElem | .mk _ _ _ c => c

/-- `parse_values` on a leaf (the base `Parser.parse_value`, which also strips one pair of quotes) -/
def xmlType (s : Str) : Scalar := parseValue s

/-- the node text as `_parse_nodes` normalises it: lines stripped, joined by `\n`, stripped -/
def xmlText (t : Str) : Str :=
  strip (['\n'].intercalate ((splitLinesKeep t).map strip))

def isBlankText : Option Str → Bool
  | none => true
  | some t => t.all fun c => isWs c

/-- numbered key `%06d_tag` -/
def numberedKey (i : Nat) (tag : Str) : Str := padSix i ++ ['_'] ++ tag

/-- the counter after `n` draws -/
def advance (n : Nat) (c : Counter) : Counter := (List.range n).foldl (fun acc _ => (Counter.next Gen.counterLimit acc).2) c

/-- `_parse_nodes` over the children of an element: `ids` are the numbers drawn for these children (all children of a
    level are numbered first, then visited in order; a child with children numbers *its* children when it is visited) -/
def xmlEach (c : Counter) : List Nat → List XElem → Entries × Counter
  | i :: ids, (.mk tag attrs text kids) :: rest =>
    let (body, c1) : Entries × Counter :=
      if !kids.isEmpty then xmlEach (advance kids.length c) (alloc Gen.counterLimit kids.length c) kids
      else if isBlankText text then ([], c)
      else ([(.str "_content".toList, .leaf (xmlType (xmlText (text.getD []))))], c)
    let attrs' := attrs.filter fun a => !a.2.isEmpty
    let body := if attrs'.isEmpty then body
      else setKey (.str "_attributes".toList) (.dict (attrs'.map fun a => (Key.str a.1, Val.leaf (xmlType a.2)))) body
    let (restEs, c2) := xmlEach c1 ids rest
    ((Key.str (numberedKey i tag), Val.dict body) :: restEs, c2)
  | _, _ => ([], c)

/-- `_parse_nodes(root)` -/
def xmlToDict (c : Counter) (root : XElem) : Entries × Counter :=
  xmlEach (advance root.children.length c) (alloc Gen.counterLimit root.children.length c) root.children

/-- keys `populate_into_element` skips: `^(_.*[Oo]pts|INCLUDE)`, `BLOCKCOMMENT[0-9]+`, `LINECOMMENT[0-9]+` -/
def isOptsKey (k : Str) : Bool :=
  (match k with | '_' :: r => isInfix "Opts".toList r || isInfix "opts".toList r | _ => false) ||
  "INCLUDE".toList.isPrefixOf k ||
  (let digitAfter (kw : Str) := kw.isPrefixOf k && (match k.drop kw.length with | ch :: _ => '0' ≤ ch ∧ ch ≤ '9' | [] => false)
   digitAfter "BLOCKCOMMENT".toList || digitAfter "LINECOMMENT".toList)

/-- `re.sub(r"^\d{1,6}_", "", key)` -/
def stripNumbering (k : Str) : Str :=
  let ds := k.takeWhile fun ch => '0' ≤ ch ∧ ch ≤ '9'
  match k.drop ds.length with
  | '_' :: r => if 1 ≤ ds.length ∧ ds.length ≤ 6 then r else k
  | _ => k

/-- `str(x)` of a scalar as the base formatter / `str()` writes element text -/
def xmlStr : Scalar → Str := pyStrScalarX
where pyStrScalarX : Scalar → Str
  | .int z => intRepr z
  | .float l => l
  | .bool true => "True".toList
  | .bool false => "False".toList
  | .none => "None".toList
  | .str s => s

mutual
  /-- `populate_into_element(element, value)`: the element tree written for a dict -/
  def dictToXml (tag : Str) : Val → XElem
    | .leaf .none => .mk tag [] (some []) []
    | .leaf x => .mk tag [] (some (xmlStr x)) []
    | .list xs => .mk tag [] (some ([' '].intercalate (xs.map fun v => match v with | .leaf x => xmlStr x | _ => "?".toList))) []
    | .dict es =>
      let text := match lookup (.str "_content".toList) es with
        | some (.leaf x) => some (xmlStr x)
        | _ => none
      let attrs := match lookup (.str "_attributes".toList) es with
        | some (.dict as) => as.filterMap fun a => match a.1, a.2 with
          | .str k, .leaf x => let s := xmlStr x
            if s.isEmpty then none else some (k, if s == "True".toList then "true".toList else if s == "False".toList then "false".toList else s)
          | _, _ => none
        | _ => []
      .mk tag attrs text (dictChildren es)
  def dictChildren : Entries → List XElem
    | [] => []
    | (.str k, v) :: es =>
      if "_content".toList.isPrefixOf k || "_attrib".toList.isPrefixOf k || isOptsKey k then dictChildren es
      else dictToXml (stripNumbering k) v :: dictChildren es
    | (.int z, v) :: es => dictToXml (stripNumbering (intRepr z)) v :: dictChildren es
end

end DictIO
