/-
  How the native / Foam writer writes a value (as a source document in the sense of `Grammar.lean`), the
  documented element-type normalisation `norm`, and the value domain `DomC01` of the round-trip properties.
-/
import DictIO.Model.Grammar

namespace DictIO

/-- the scalar as the writer spells it: bare or quoted -/
def writtenLit (fl : Flavor) (x : Scalar) : Lit :=
  let t := formatScalar fl x
  match x with
  | .str s => if t == s then .bare s else (match t with | q :: r => .quoted q r.dropLast | [] => .bare [])
  | _ => .bare t

mutual
  def srcOfV (fl : Flavor) : Val → Src
    | .leaf x => .lit (writtenLit fl x)
    | .dict es => .dict (srcOfEs fl es)
    | .list xs => .list (srcOfXs fl xs)
  def srcOfEs (fl : Flavor) : Entries → SrcEntries
    | [] => []
    | (k, v) :: es => (keyStr k, srcOfV fl v) :: srcOfEs fl es
  def srcOfXs (fl : Flavor) : List Val → List Src
    | [] => []
    | v :: xs => srcOfV fl v :: srcOfXs fl xs
end

/-- documented element-type normalisation of one leaf: a string that spells a number, boolean or none comes
    back typed; every other value comes back as it is -/
def normScalar : Scalar → Scalar
  | .str s => (match parseValue s with | .str _ => .str s | x => x)
  | x => x

mutual
  def normV : Val → Val
    | .leaf x => .leaf (normScalar x)
    | .dict es => .dict (normEs es)
    | .list xs => .list (normXs xs)
  def normEs : Entries → Entries
    | [] => []
    | (k, v) :: es => (k, normV v) :: normEs es
  def normXs : List Val → List Val
    | [] => []
    | v :: xs => normV v :: normXs xs
end

/-- ASCII digit string -/
def isAsciiDigits (s : Str) : Bool := !s.isEmpty && s.all fun c => '0' ≤ c ∧ c ≤ '9'

/-- Python's `repr(float)` for finite values: `-?d+.d+`, `-?d+(.d+)?e[+-]dd+` -/
def isPyFloatRepr (l : Str) : Bool :=
  let l := match l with | '-' :: r => r | r => r
  let ip := l.takeWhile fun c => '0' ≤ c ∧ c ≤ '9'
  let r := l.dropWhile fun c => '0' ≤ c ∧ c ≤ '9'
  let expOK (e : Str) : Bool := match e with
    | 'e' :: s :: ds => (s == '+' || s == '-') && isAsciiDigits ds && ds.length ≥ 2
    | _ => false
  !ip.isEmpty &&
  (match r with
   | '.' :: r' =>
     let fp := r'.takeWhile fun c => '0' ≤ c ∧ c ≤ '9'
     let r'' := r'.dropWhile fun c => '0' ≤ c ∧ c ≤ '9'
     !fp.isEmpty && (r''.isEmpty || expOK r'')
   | _ => expOK r)

/-- key of the value domain: an int, or a single bare word that reads back as the same string -/
def isDomKey : Key → Bool
  | .int _ => true
  | .str s => isSrcWord s && parseKey s == .str s && !s.any isComplexChar

/-- string leaf of the value domain (for the theorem; the harness domain is a little larger, e.g. URLs):
    single line, no `$`, no comment marker, no reserved word, not both quote kinds, no more than what one pair of
    quotes can carry -/
def isDomStr (fl : Flavor) (s : Str) : Bool :=
  s.all (fun c => !isLineBreak c && c != '$') &&
  !isInfix ['/', '/'] s && !isInfix ['/', '*'] s && !isInfix kwLit s && !isInfix kwExpr s &&
  !isInfix "COMMENT".toList s && !isInfix "INCLUDE".toList s &&
  !(s.contains '\'' && s.contains '"') &&
  (match fl with | .foam => !s.contains '"' | _ => true) &&
  -- written bare it must be a source word (a word with a leading `#` that is not written in quotes could start an
  -- include directive; one that starts with `#include` is written in quotes)
  (s.isEmpty || s.any isQuote || s.any isComplexChar || isSrcWord s || startsInclude s)

def isDomScalar (fl : Flavor) : Scalar → Bool
  | .str s => isDomStr fl s
  | .float l => isPyFloatRepr l
  | _ => true

mutual
  /-- `DomC01`: `depth` = key-path length so far -/
  def domV (fl : Flavor) (depth : Nat) : Val → Bool
    | .leaf x => isDomScalar fl x && depth ≤ 10
    | .dict es => domEs fl (depth + 1) es && (keys es).Nodup
    | .list xs => domXs fl (depth + 1) xs
  def domEs (fl : Flavor) (depth : Nat) : Entries → Bool
    | [] => true
    | (k, v) :: es => isDomKey k && domV fl depth v && domEs fl depth es
  def domXs (fl : Flavor) (depth : Nat) : List Val → Bool
    | [] => true
    | v :: xs => domV fl depth v && domXs fl depth xs
end

/-- the supported value domain of C01 / C10 for a whole dict -/
def DomC01 (fl : Flavor) (es : Entries) : Bool := domEs fl 1 es && decide (keys es).Nodup

end DictIO
