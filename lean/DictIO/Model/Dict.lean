/-
  Model of `SDict` (src/dictIO/dict.py): the mapping operations inherited from / layered over
  builtin `dict`, `update`, `|`, `|=`, reversed `|`, `merge` (`_recursive_merge`, `_post_merge`)
  and `_clean` / `_clean_data`.

  Python mutation becomes a returned value.  `SD` carries the data and the four id-keyed side
  tables.  The "circular reference" test of `_recursive_merge` is the *repaired* one
  (fix D15): an existing entry is a placeholder the merge may overwrite only if its value
  refers to its own key (`$key` not followed by a word character) or if it is a
  comment/include placeholder entry.
-/
import DictIO.Model.Value
import DictIO.Model.Chars

namespace DictIO

/-! ### side tables: Python `dict[int, α]`, insertion ordered -/

abbrev Tbl (α : Type) := List (Nat × α)

def Tbl.get? {α} (i : Nat) : Tbl α → Option α
  | [] => none
  | (j, a) :: t => if j = i then some a else Tbl.get? i t

/-- `tbl[i] = a` -/
def Tbl.set {α} (i : Nat) (a : α) : Tbl α → Tbl α
  | [] => [(i, a)]
  | (j, b) :: t => if j = i then (i, a) :: t else (j, b) :: Tbl.set i a t

def Tbl.del {α} (i : Nat) : Tbl α → Tbl α
  | [] => []
  | (j, b) :: t => if j = i then t else (j, b) :: Tbl.del i t

/-- `tbl.update(other)` -/
def Tbl.update {α} (t o : Tbl α) : Tbl α := o.foldl (fun acc e => Tbl.set e.1 e.2 acc) t

/-- `_recursive_merge(tbl, other)` on a flat table: existing ids keep their value -/
def Tbl.merge {α} (t o : Tbl α) : Tbl α :=
  o.foldl (fun acc e => if (Tbl.get? e.1 acc).isSome then acc else acc ++ [e]) t

structure ExprEntry where
  expression : Str
  name : Str
  deriving DecidableEq, Repr, Inhabited

structure InclEntry where
  directive : Str
  file : Str
  path : Str
  deriving DecidableEq, Repr, Inhabited

structure SD where
  data : Entries := []
  exprs : Tbl ExprEntry := []
  lineC : Tbl Str := []
  blockC : Tbl Str := []
  incl : Tbl InclEntry := []
  deriving Repr, Inhabited

/-! ### placeholder words -/

def kwBlock : Str := "BLOCKCOMMENT".toList
def kwLine : Str := "LINECOMMENT".toList
def kwIncl : Str := "INCLUDE".toList
def kwExpr : Str := "EXPRESSION".toList
def kwLit : Str := "STRINGLITERAL".toList

/-- `re.search(kw + r"\d{6}", s)` -/
def containsPh (kw : Str) (s : Str) : Bool :=
  (tails s).any fun t => kw.isPrefixOf t && (digitRun 6 (t.drop kw.length)).isSome

/-- `int(re.findall(r"\d{6}", s)[0])` : value of the first run of six digits -/
def firstSixDigits : Str → Option Nat
  | [] => none
  | c :: cs => match digitRun 6 (c :: cs) with
    | some n => some n
    | none => firstSixDigits cs

/-- `re.fullmatch(kw + r"\d{6}", s)` -/
def isExactPh (kw : Str) (s : Str) : Bool :=
  kw.isPrefixOf s && (s.length == kw.length + 6) && (digitRun 6 (s.drop kw.length)).isSome

/-! ### the self-reference test (`_insert_expression`, `_value_contains_circular_reference`) -/

/-- `_insert_expression(value, s_dict)` for a string value -/
def insertExpression (exprs : Tbl ExprEntry) (s : Str) : Str :=
  if containsPh kwExpr s then
    match firstSixDigits s with
    | some i => match exprs.get? i with
      | some e => e.expression
      | none => s
    | none => s
  else s

/-- `re.search(rf"\${re.escape(key)}(?!\w)", value)` -/
def refersTo (key : Str) (value : Str) : Bool :=
  (tails value).any fun t =>
    match t with
    | '$' :: r => key.isPrefixOf r &&
        (match r.drop key.length with
         | [] => true
         | c :: _ => !isWordChar c)
    | _ => false

/-- `_value_contains_circular_reference(key, _insert_expression(value))` -/
def selfRef (exprs : Tbl ExprEntry) (k : Key) (v : Val) : Bool :=
  match k, v with
  | .str ks, .leaf (.str vs) =>
    let vs' := insertExpression exprs vs
    (vs' == ks && (isExactPh kwBlock ks || isExactPh kwIncl ks || isExactPh kwLine ks))
      || refersTo ks vs'
  | _, _ => false

/-! ### merge -/

/-- `_recursive_merge(target, other, overwrite=False)`; `top` is the
    `isinstance(target_dict, SDict)` test (true for the outermost call on an `SDict`). -/
def mergeD (top : Bool) (exprs : Tbl ExprEntry) : Entries → Entries → Entries
  | t, [] => t
  | t, (k, v) :: o =>
    let t' : Entries :=
      match lookup k t, v with
      | some (.dict td), .dict od => setKey k (.dict (mergeD false exprs td od)) t
      | some tv, _ => if top && selfRef exprs k tv then setKey k v t else t
      | none, _ => t ++ [(k, v)]
    mergeD top exprs t' o
termination_by _ o => sizeOf o

/-! ### `_clean` -/


/-- classification of `_clean_data`: block comment first, else include, else line comment -/
def cleanLevel (s : SD) (level : Entries) : SD × Entries :=
  -- the three `elif` branches are exclusive: a key is classified by the first pattern it matches
  let isB (k : Key) := match k with | .str x => containsPh kwBlock x | _ => false
  let isI (k : Key) := match k with | .str x => !containsPh kwBlock x && containsPh kwIncl x | _ => false
  let isL (k : Key) := match k with
    | .str x => !containsPh kwBlock x && !containsPh kwIncl x && containsPh kwLine x | _ => false
  let step {α} [BEq α] (sel : Key → Bool) (lvl : Entries) (tbl : Tbl α) : Entries × Tbl α :=
    let cand := (keys lvl).filter sel
    let r := cand.foldl (fun (acc : Entries × Tbl α × List α) k =>
      let (d, t, seen) := acc
      match k with
      | .str x =>
        (match firstSixDigits x with
        | none => acc
        | some i => match t.get? i with
          | none => acc
          | some txt =>
            if seen.contains txt then (delKey k d, t.del i, seen) else (d, t, seen ++ [txt]))
      | _ => acc) (lvl, tbl, [])
    (r.1, r.2.1)
  let (l1, b) := step isB level s.blockC
  let (l2, i) := step isI l1 s.incl
  let (l3, l) := step isL l2 s.lineC
  ({ s with blockC := b, incl := i, lineC := l }, l3)

/-- `_clean`: `_clean_data` on this level, then on every dict-valued entry (not inside lists) -/
def cleanRec : Nat → SD → Entries → SD × Entries
  | 0, s, lvl => (s, lvl)
  | fuel + 1, s, lvl =>
    let (s1, lvl1) := cleanLevel s lvl
    lvl1.foldl (fun (acc : SD × Entries) e =>
      match e.2 with
      | .dict sub =>
        let (s2, sub') := cleanRec fuel acc.1 sub
        (s2, setKey e.1 (.dict sub') acc.2)
      | _ => acc) (s1, lvl1)

def depthV : Val → Nat
  | .leaf _ => 0
  | .dict es => 1 + depthEs es
  | .list xs => 1 + depthVs xs
where
  depthEs : Entries → Nat
    | [] => 0
    | (_, v) :: es => max (depthV v) (depthEs es)
  depthVs : List Val → Nat
    | [] => 0
    | v :: vs => max (depthV v) (depthVs vs)

def SD.clean (s : SD) : SD :=
  let (s', d) := cleanRec (depthV (.dict s.data) + 1) s s.data
  { s' with data := d }

/-! ### operations -/

/-- builtin `dict.update(pairs)` -/
def updateD (t : Entries) (o : Entries) : Entries := o.foldl (fun acc e => setKey e.1 e.2 acc) t

/-- argument of update-like operations: a plain mapping / pair list, or an `SDict` -/
inductive Arg where
  | plain (es : Entries)
  | sd (s : SD)
  deriving Repr, Inhabited

def Arg.data : Arg → Entries
  | .plain es => es
  | .sd s => s.data

/-- `_post_update` -/
def SD.postUpdate (s : SD) : Arg → SD
  | .plain _ => s
  | .sd m => { s with exprs := s.exprs.update m.exprs, lineC := s.lineC.update m.lineC,
                      blockC := s.blockC.update m.blockC, incl := s.incl.update m.incl }

/-- `_post_merge` -/
def SD.postMerge (s : SD) : Arg → SD
  | .plain _ => s
  | .sd m => { s with exprs := s.exprs.merge m.exprs, lineC := s.lineC.merge m.lineC,
                      blockC := s.blockC.merge m.blockC, incl := s.incl.merge m.incl }

def SD.update (s : SD) (a : Arg) : SD :=
  (({ s with data := updateD s.data a.data }).postUpdate a).clean

def SD.merge (s : SD) (a : Arg) : SD :=
  (({ s with data := mergeD true s.exprs s.data a.data }).postMerge a).clean

/-- `self | other` : a *new* SDict built from the merged data; only `other`'s tables follow -/
def SD.or (s : SD) (a : Arg) : SD :=
  (({ data := updateD s.data a.data } : SD).postUpdate a).clean

/-- `other | self` (`__ror__`), `other` a builtin dict -/
def SD.ror (s : SD) (o : Entries) : SD :=
  (({ data := updateD o s.data } : SD).postUpdate (.sd s)).clean

inductive Op where
  | setitem (k : Key) (v : Val)
  | delitem (k : Key)
  | update (a : Arg)
  | ior (a : Arg)
  | or (a : Arg)            -- s = s | a
  | ror (o : Entries)       -- s = o | s
  | pop (k : Key)
  | popDefault (k : Key)
  | setdefault (k : Key) (v : Val)
  | clear
  | copy                    -- s = s.copy()
  | construct (o : Entries) -- s = SDict(o)
  | merge (a : Arg)
  deriving Repr, Inhabited

inductive Out where
  | unit
  | keyError
  | val (v : Val)
  | noVal
  deriving Repr, Inhabited

def step (s : SD) : Op → SD × Out
  | .setitem k v => ({ s with data := setKey k v s.data }, .unit)
  | .delitem k => if hasKey k s.data then ({ s with data := delKey k s.data }, .unit) else (s, .keyError)
  | .update a => (s.update a, .unit)
  | .ior a => (s.update a, .unit)
  | .or a => (s.or a, .unit)
  | .ror o => (s.ror o, .unit)
  | .pop k => match lookup k s.data with
    | some v => ({ s with data := delKey k s.data }, .val v)
    | none => (s, .keyError)
  | .popDefault k => match lookup k s.data with
    | some v => ({ s with data := delKey k s.data }, .val v)
    | none => (s, .noVal)
  | .setdefault k v => match lookup k s.data with
    | some v' => (s, .val v')
    | none => ({ s with data := setKey k v s.data }, .val v)
  | .clear => ({ s with data := [] }, .unit)
  | .copy => (({ s with data := updateD [] s.data }).clean, .unit)   -- `__copy__` re-inserts the items with `update`, which runs `_clean`
  | .construct o => ({ data := updateD [] o }, .unit)
  | .merge a => (s.merge a, .unit)

/-- the same operation on a builtin `dict` (the specification) -/
def dstep (d : Entries) : Op → Entries × Out
  | .setitem k v => (setKey k v d, .unit)
  | .delitem k => if hasKey k d then (delKey k d, .unit) else (d, .keyError)
  | .update a => (updateD d a.data, .unit)
  | .ior a => (updateD d a.data, .unit)
  | .or a => (updateD d a.data, .unit)
  | .ror o => (updateD o d, .unit)
  | .pop k => match lookup k d with
    | some v => (delKey k d, .val v)
    | none => (d, .keyError)
  | .popDefault k => match lookup k d with
    | some v => (delKey k d, .val v)
    | none => (d, .noVal)
  | .setdefault k v => match lookup k d with
    | some v' => (d, .val v')
    | none => (setKey k v d, .val v)
  | .clear => ([], .unit)
  | .copy => (updateD [] d, .unit)
  | .construct o => (updateD [] o, .unit)
  | .merge a => (mergeD false [] d a.data, .unit)

end DictIO
