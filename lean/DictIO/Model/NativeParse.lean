/-
  Model of `NativeParser.parse_string` (parser.py), stage by stage, on the *repaired* code
  (fixes D4 positional literal extraction, D7, D8, D9, D29):

    splitlines → line comments → include directives → join → block comments → newline removal →
    (blank-padding of block-comment placeholders) → string literals → expressions → delimiter
    separation → tokens → hierarchy → dict/list scanner → literal re-insertion → `_clean`.

  Regular expressions are replaced by hand-written scanners (DESIGN 4.3).  Where the real code would
  index out of range (malformed input) the model returns `.error .malformed`; where the input leaves
  the fidelity domain (a backslash directly before a quote outside a literal) `.error .unsupported`.
-/
import DictIO.Model.NativeFormat
import DictIO.Model.KeyPath

namespace DictIO

inductive ParseErr where
  | unsupported       -- outside the fidelity domain of the model
  | malformed         -- the real code raises IndexError / walks off the token list
  | tooDeep           -- set_global_key's RecursionError (leaf path longer than 10)
  deriving DecidableEq, Repr, Inhabited

/-! ### generic text helpers -/

/-- Python `str.replace(pat, rep)` for non-empty `pat` (fuel = length of the text) -/
def replaceAllFuel (pat rep : Str) : Nat → Str → Str
  | 0, s => s
  | _ + 1, [] => []
  | fuel + 1, c :: r =>
    if pat.isPrefixOf (c :: r) && !pat.isEmpty then rep ++ replaceAllFuel pat rep fuel ((c :: r).drop pat.length)
    else c :: replaceAllFuel pat rep fuel r

def replaceAll (pat rep s : Str) : Str := replaceAllFuel pat rep (s.length + 1) s

def isLineBreak (c : Char) : Bool := Gen.lineBreaks.contains c.toNat

/-- `str.splitlines(keepends=True)` -/
def splitLinesKeep : Str → List Str
  | [] => []
  | '\r' :: '\n' :: r => ['\r', '\n'] :: splitLinesKeep r
  | c :: r =>
    if isLineBreak c then [c] :: splitLinesKeep r
    else match splitLinesKeep r with
      | [] => [[c]]
      | l :: ls =>
        -- `l` continues the current line unless the rest started a fresh line, which cannot happen here:
        -- a fresh line only starts after a break, and `c` is not a break
        (c :: l) :: ls

/- note: `splitLinesKeep` glues `c` onto the first line of the rest, which is right because the rest's first
   line begins directly after `c`. -/

/-! ### stage 1: line comments -/

/-- position-independent search for the first `//` not preceded by `:`; returns (before, comment-to-end-of-line)
    where the comment stops before a trailing `\n` -/
def findLineComment (prev : Option Char) : Str → Option (Str × Str)
  | '/' :: '/' :: r =>
    if prev == some ':' then
      -- the regex moves on one character: the next candidate starts at the second slash
      (findLineComment (some '/') ('/' :: r)).map fun (b, c) => ('/' :: b, c)
    else some ([], '/' :: '/' :: r)
  | c :: r => (findLineComment (some c) r).map fun (b, cm) => (c :: b, cm)
  | [] => none

/-- `.*$`: everything up to, not including, a final `\n` -/
def dropFinalNl (s : Str) : Str × Str :=
  match s.getLast? with
  | some '\n' => (s.dropLast, ['\n'])
  | _ => (s, [])

structure LexSt where
  counter : Counter
  lineC : Tbl Str := []
  incl : Tbl InclEntry := []
  blockC : Tbl Str := []
  lits : Tbl Str := []
  exprs : Tbl ExprEntry := []
  deriving Inhabited

def LexSt.fresh (st : LexSt) : Nat × LexSt :=
  let (i, c) := Counter.next Gen.counterLimit st.counter
  (i, { st with counter := c })

/-- `_extract_line_comments` on one line -/
def lexLineComment (comments : Bool) (st : LexSt) (line : Str) : LexSt × Str :=
  match findLineComment none line with
  | none => (st, line)
  | some (before, tail) =>
    let (cm, nl) := dropFinalNl tail
    -- `.` does not match `\n`: the comment ends at the first `\n`; inside a `splitlines` line a `\n` can only be last
    let (i, st) := st.fresh
    let ph := if comments then kwLine ++ padSix i else []
    -- the matched comment itself is replaced (`line[:m.start()] + placeholder + line[m.end():]`)
    ({ st with lineC := st.lineC.set i cm }, before ++ ph ++ nl)

/-- `_extract_includes` on one line; `dir` is the directory of the file being parsed (for the path entry) -/
def lexInclude (dir : Str) (st : LexSt) (line : Str) : LexSt × Str :=
  match parseIncludeLine line with
  | none => (st, line)
  | some name =>
    let (i, st) := st.fresh
    let directive := (dropFinalNl line).1
    ({ st with incl := st.incl.set i { directive := directive, file := name, path := if name.head? == some '/' then name else dir ++ ['/'] ++ name } },
      kwIncl ++ padSix i ++ ['\n'])

/-! ### stage 2: block comments (positional, non-greedy `/* … */`) -/

/-- text up to and including the first `*/`, and the rest -/
def takeToCommentEnd : Str → Option (Str × Str)
  | '*' :: '/' :: r => some (['*', '/'], r)
  | c :: r => (takeToCommentEnd r).map fun (a, b) => (c :: a, b)
  | [] => none

def lexBlockCommentsFuel (comments : Bool) : Nat → Nat → Tbl Str → Str → Tbl Str × Str
  | 0, _, tbl, s => (tbl, s)
  | _ + 1, _, tbl, [] => (tbl, [])
  | fuel + 1, n, tbl, '/' :: '*' :: r =>
    match takeToCommentEnd r with
    | some (body, rest) =>
      let (tbl', t) := lexBlockCommentsFuel comments fuel (n + 1) (tbl ++ [(n, '/' :: '*' :: body)]) rest
      -- fix D9: the placeholder is blank-padded (done by a separate `re.sub` right after newline removal)
      (tbl', (if comments then [' '] ++ kwBlock ++ padSix n ++ [' '] else []) ++ t)
    | none => let (tbl', t) := lexBlockCommentsFuel comments fuel n tbl ('*' :: r); (tbl', '/' :: t)
  | fuel + 1, n, tbl, c :: r => let (tbl', t) := lexBlockCommentsFuel comments fuel n tbl r; (tbl', c :: t)

/-! ### stage 3: string literals (repaired single pass) -/

/-- split at the first occurrence of `q` -/
def splitAtChar (q : Char) : Str → Option (Str × Str)
  | [] => none
  | c :: r => if c == q then some ([], r) else (splitAtChar q r).map fun (a, b) => (c :: a, b)

def lexLiteralsFuel : Nat → LexSt → Option Char → Str → Except ParseErr (LexSt × Str)
  | 0, st, _, s => .ok (st, s)
  | _ + 1, st, _, [] => .ok (st, [])
  | fuel + 1, st, prev, c :: r =>
    if isQuote c then
      if prev == some '\\' then .error .unsupported
      else match splitAtChar c r with
        | none => do
          let (st', t) ← lexLiteralsFuel fuel st (some c) r
          pure (st', c :: t)
        | some (body, rest) =>
          if c == '"' && body.contains '$' then do
            -- an expression, not a literal: kept verbatim for the next stage
            let (st', t) ← lexLiteralsFuel fuel st (some '"') rest
            pure (st', c :: body ++ [c] ++ t)
          else do
            let (i, st) := st.fresh
            let st := { st with lits := st.lits.set i body }
            let (st', t) ← lexLiteralsFuel fuel st (some c) rest
            pure (st', kwLit ++ padSix i ++ t)
    else do
      let (st', t) ← lexLiteralsFuel fuel st (some c) r
      pure (st', c :: t)

/-! ### stage 4: expressions and references -/

/-- `"[^"]*\$.*?"` anchored at a `"`: the body up to the closing quote must contain `$` before any further `"` -/
def matchExprAt : Str → Option (Str × Str)
  | '"' :: r =>
    match splitAtChar '"' r with
    | some (body, rest) => if body.contains '$' then some ('"' :: body ++ ['"'], rest) else none
    | none => none
  | _ => none

/-- `re.findall(r'"[^"]*\$.*?"', s)` -/
def findExprsFuel : Nat → Str → List Str
  | 0, _ => []
  | _ + 1, [] => []
  | fuel + 1, c :: r =>
    match matchExprAt (c :: r) with
    | some (e, rest) => e :: findExprsFuel fuel rest
    | none => findExprsFuel fuel r

def isRefChar (c : Char) : Bool := isWordChar c || c == '[' || c == ']'

/-- first match of `\$\w[\w\[\]]*`: (before, reference, after) -/
def findRef : Str → Option (Str × Str × Str)
  | '$' :: c :: r =>
    if isWordChar c then
      let tail := r.takeWhile isRefChar
      some ([], '$' :: c :: tail, r.dropWhile isRefChar)
    else (findRef (c :: r)).map fun (b, x, a) => ('$' :: b, x, a)
  | c :: r => (findRef r).map fun (b, x, a) => (c :: b, x, a)
  | [] => none

def lexRefsFuel : Nat → LexSt → Str → LexSt × Str
  | 0, st, s => (st, s)
  | fuel + 1, st, s =>
    match findRef s with
    | none => (st, s)
    | some (b, x, a) =>
      let (i, st) := st.fresh
      let ph := kwExpr ++ padSix i
      lexRefsFuel fuel { st with exprs := st.exprs.set i { expression := x, name := ph } } (b ++ ph ++ a)

def lexExpressions (st : LexSt) (s : Str) : LexSt × Str :=
  let found := findExprsFuel (s.length + 1) s
  let (st, s) := found.foldl (fun (acc : LexSt × Str) e =>
      let (st, s) := acc
      let (i, st) := st.fresh
      let ph := kwExpr ++ padSix i
      ({ st with exprs := st.exprs.set i { expression := e.filter (· != '"'), name := ph } }, replaceAll e ph s)) (st, s)
  lexRefsFuel (s.length + 1) st s

/-! ### stage 5: tokens -/

/-- `_separate_delimiters` + `re.split(r"\s", …)`, minus the empty tokens (the scanner ignores them) -/
def tokenize (s : Str) : List Str :=
  let sep := s.flatMap fun c => if Gen.delimiters.contains c then [' ', c, ' '] else [c]
  let rec go (cur : Str) : Str → List Str
    | [] => if cur.isEmpty then [] else [cur.reverse]
    | c :: r => if isWs c then (if cur.isEmpty then go [] r else cur.reverse :: go [] r) else go (c :: cur) r
  go [] sep

abbrev Tok := Int × Str

/-- `_determine_token_hierarchy` -/
def levels : Int → List Str → List Tok
  | _, [] => []
  | lvl, t :: ts =>
    match t with
    | [c] =>
      if Gen.openingBrackets.contains c then (lvl, t) :: levels (lvl + 1) ts
      else if Gen.closingBrackets.contains c then (lvl - 1, t) :: levels (lvl - 1) ts
      else (lvl, t) :: levels lvl ts
    | _ => (lvl, t) :: levels lvl ts

def isCommentTok (t : Str) : Bool := isInfix "COMMENT".toList t
def isIncludeTok (t : Str) : Bool := isInfix "INCLUDE".toList t

def companion (c : Char) : Option Char :=
  Gen.brackets.foldl (fun acc p => if c == p.1 then some p.2 else if c == p.2 then some p.1 else acc) none

/-- forward scan from an opening bracket: tokens strictly inside, and the tokens after the closing
    bracket, which is the first token equal to `closing` on `lvl` -/
def splitGroup (closing : Str) (lvl : Int) : List Tok → Option (List Tok × List Tok)
  | [] => none
  | t :: ts =>
    if t.2 == closing && t.1 == lvl then some ([], ts)
    else (splitGroup closing lvl ts).map fun (a, b) => (t :: a, b)

theorem splitGroup_len {closing : Str} {lvl : Int} : ∀ {ts inside after : List Tok},
    splitGroup closing lvl ts = some (inside, after) → inside.length + after.length < ts.length
  | [], _, _, h => by simp [splitGroup] at h
  | t :: ts, inside, after, h => by
    simp only [splitGroup] at h
    split at h
    · simp at h; obtain ⟨rfl, rfl⟩ := h; simp
    · simp only [Option.map_eq_some_iff] at h
      obtain ⟨⟨a, b⟩, h1, h2⟩ := h
      simp at h2; obtain ⟨rfl, rfl⟩ := h2
      have := splitGroup_len h1
      simp; omega

/-- the key of a nested structure: the nearest earlier token that is not a comment token -/
def keyBefore : List Tok → Option Str
  | [] => none
  | t :: ts => if isCommentTok t.2 then keyBefore ts else some t.2

/-- backward scan from a `;`: tokens of the same level up to `;`, `}`, a comment or include token -/
def kvBefore (lvl : Int) : List Tok → List Str
  | [] => []
  | t :: ts =>
    if t.1 == lvl && t.2 != [';'] && t.2 != ['}'] && !isCommentTok t.2 && !isIncludeTok t.2 then t.2 :: kvBefore lvl ts
    else []

/-- a parsed scalar as key: only int and str keys are inside the model's value domain -/
def keyOfScalar : Scalar → Option Key
  | .int z => some (.int z)
  | .str s => some (.str s)
  | _ => none

mutual
  /-- `_parse_tokenized_dict`; `prev` = the tokens already passed, nearest first; `top` = outermost call
      (its token list ends with an empty token after a final delimiter, so the look-ahead after `)` never fails there) -/
  def parseDictToks (top : Bool) (prev : List Tok) (ts : List Tok) (acc : Entries) : Except ParseErr Entries :=
    match ts with
    | [] => .ok acc
    | t :: rest =>
      match t.2 with
      | [c] =>
        if Gen.openingBrackets.contains c then
          match keyBefore prev, companion c with
          | some ktxt, some cl =>
            match h : splitGroup [cl] t.1 rest with
            | none => .error .malformed
            | some (inside, after) =>
              have := splitGroup_len h
              match keyOfScalar (parseKey ktxt) with
              | none => .error .unsupported
              | some k =>
                -- the syntax check after `)` looks one token ahead: `tokens[i + j + 1]`
                if c == '(' && after.isEmpty && !top then .error .malformed
                else
                  let prev' : List Tok := (t.1, [cl]) :: (inside.reverse ++ t :: prev)
                  if c == '(' then
                    (if inside.isEmpty then parseDictToks top prev' after (setKey k (.list []) acc)
                     else match parseListToks (t.1 + 1) inside [] with
                       | .error e => .error e
                       | .ok xs => parseDictToks top prev' after (setKey k (.list xs) acc))
                  else if c == '{' then
                    match parseDictToks false [] inside [] with
                    | .error e => .error e
                    | .ok d => parseDictToks top prev' after (setKey k (.dict d) acc)
                  else parseDictToks top prev' after acc
          | _, _ => .error .malformed
        else if c == ';' then
          match prev with
          | p :: _ =>
            if p.2 == [')'] then parseDictToks top (t :: prev) rest acc
            else
              match kvBefore t.1 prev with
              | [v, ktxt] =>
                (match keyOfScalar (parseKey ktxt) with
                 | none => .error .unsupported
                 | some k => parseDictToks top (t :: prev) rest (setKey k (.leaf (parseValue v)) acc))
              | _ => parseDictToks top (t :: prev) rest acc
          | [] => parseDictToks top (t :: prev) rest acc   -- `tokens[-1]` wraps around: nothing sensible precedes
        else if isCommentTok t.2 || isIncludeTok t.2 then
          parseDictToks top (t :: prev) rest (setKey (.str t.2) (.leaf (.str t.2)) acc)
        else parseDictToks top (t :: prev) rest acc
      | _ =>
        if isCommentTok t.2 || isIncludeTok t.2 then
          parseDictToks top (t :: prev) rest (setKey (.str t.2) (.leaf (.str t.2)) acc)
        else parseDictToks top (t :: prev) rest acc
  termination_by ts.length
  decreasing_by all_goals simp_wf; all_goals omega

  /-- `_parse_tokenized_list` on the tokens strictly inside the parentheses; `lvl` = level of the items -/
  def parseListToks (lvl : Int) (ts : List Tok) (acc : List Val) : Except ParseErr (List Val) :=
    match ts with
    | [] => .ok acc
    | t :: rest =>
      match t.2 with
      | [c] =>
        if Gen.openingBrackets.contains c then
          match companion c with
          | some cl =>
            match h : splitGroup [cl] t.1 rest with
            | none => .error .malformed
            | some (inside, after) =>
              have := splitGroup_len h
              if c == '(' then
                (if inside.isEmpty then parseListToks lvl after (acc ++ [.list []])
                 else match parseListToks (t.1 + 1) inside [] with
                   | .error e => .error e
                   | .ok xs => parseListToks lvl after (acc ++ [.list xs]))
              else if c == '{' then
                match parseDictToks false [] inside [] with
                | .error e => .error e
                | .ok d => parseListToks lvl after (acc ++ [.dict d])
              else parseListToks lvl after acc
          | none => .error .malformed
        else if c == '(' || c == ')' || c == ';' then parseListToks lvl rest acc
        else parseListToks lvl rest (acc ++ [.leaf (parseValue t.2)])
      | _ => parseListToks lvl rest (acc ++ [.leaf (parseValue t.2)])
  termination_by ts.length
  decreasing_by all_goals simp_wf; all_goals omega
end

/-! ### literal re-insertion and the whole reader -/

mutual
  /-- replace every string leaf that contains `ph` by `v`; `depth` = length of the leaf's key path -/
  def substLeafV (ph : Str) (v : Scalar) (depth : Nat) : Val → Except ParseErr Val
    | .leaf (.str s) => if isInfix ph s then (if depth > 10 then .error .tooDeep else .ok (.leaf v)) else .ok (.leaf (.str s))
    | .leaf x => .ok (.leaf x)
    | .dict es => (substLeafEs ph v (depth + 1) es).map .dict
    | .list xs => (substLeafXs ph v (depth + 1) xs).map .list
  def substLeafEs (ph : Str) (v : Scalar) (depth : Nat) : Entries → Except ParseErr Entries
    | [] => .ok []
    | (k, x) :: es => do
      let x' ← substLeafV ph v depth x
      let es' ← substLeafEs ph v depth es
      pure ((k, x') :: es')
  def substLeafXs (ph : Str) (v : Scalar) (depth : Nat) : List Val → Except ParseErr (List Val)
    | [] => .ok []
    | x :: xs => do
      let x' ← substLeafV ph v depth x
      let xs' ← substLeafXs ph v depth xs
      pure (x' :: xs')
end

/-- `_insert_string_literals` (repaired, fix D7: a literal that stays a string keeps its text) -/
def insertLiterals (lits : Tbl Str) (es : Entries) : Except ParseErr Entries :=
  lits.foldl (fun acc e => match acc with
    | .error x => .error x
    | .ok es =>
      let v := match parseValue e.2 with
        | .str _ => Scalar.str e.2
        | x => x
      substLeafEs (kwLit ++ padSix e.1) v 1 es) (.ok es)

/-- `NativeParser._clean`: the two documentation keys -/
def dropDocKeys (es : Entries) : Entries :=
  delKey (.str "_includes".toList) (delKey (.str "_variables".toList) es)

/-- `NativeParser.parse_string(text, SDict(), comments=…)`: result and the counter afterwards -/
def parseNative (comments : Bool) (dir : Str) (c : Counter) (text : Str) : Except ParseErr (SD × Counter) := do
  let lines := splitLinesKeep text
  let st : LexSt := { counter := c }
  -- line comments over all lines first, then include directives over all lines (two loops in the code)
  let (st, lines) := lines.foldl (fun (acc : LexSt × List Str) l =>
      let (st, l') := lexLineComment comments acc.1 l; (st, acc.2 ++ [l'])) (st, [])
  let (st, lines) := lines.foldl (fun (acc : LexSt × List Str) l =>
      let (st, l') := lexInclude dir acc.1 l; (st, acc.2 ++ [l'])) (st, [])
  let block := lines.flatten
  let (btbl, block) := lexBlockCommentsFuel comments (block.length + 1) 0 [] block
  let st := { st with blockC := btbl }
  let block := strip (block.map fun ch => if ch == '\n' then ' ' else ch)
  let (st, block) ← lexLiteralsFuel (block.length + 1) st none block
  let (st, block) := lexExpressions st block
  let toks := levels 0 (tokenize block)
  let es ← parseDictToks true [] toks []
  let es ← insertLiterals st.lits es
  let sd : SD := { data := es, exprs := st.exprs, lineC := st.lineC, blockC := st.blockC, incl := st.incl }
  let sd := sd.clean
  pure ({ sd with data := dropDocKeys sd.data }, st.counter)

end DictIO
