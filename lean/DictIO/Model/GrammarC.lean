/-
  Source documents *with comments*: line comments (`// …` up to the end of the line) and block comments
  (`/* … */`) at statement boundaries of any dict level.  (Comments inside lists are not statement boundaries:
  the reader turns them into list elements, as its documentation says; lists here are comment-free.)

  `ctoks` lists the source tokens; `spreadC` lays them out; `labelC` says what the reader's comment stages must
  produce: every line comment replaced by the word `LINECOMMENT%06d` with ids drawn from the counter in document
  order, every block comment by `BLOCKCOMMENT%06d` with ids 0,1,2,… local to the text, and both tables; `denC` is
  what the document means (comment entries `placeholder ↦ placeholder` at their level, then `_clean`).
-/
import DictIO.Model.Grammar

namespace DictIO

mutual
  inductive CSrc where
    | lit (l : Lit)
    | dict (items : List CItem)
    | list (xs : List Src)
  inductive CItem where
    | entry (k : Str) (v : CSrc)
    | lineC (text : Str)      -- the text after `//` (without the line end)
    | blockC (text : Str)     -- the text between `/*` and `*/`
end

/-- a source token of a commented document -/
inductive CTok where
  | tok (t : STok)
  | lineC (text : Str)
  | blockC (text : Str)
  deriving Repr, Inhabited

def CTok.text : CTok → Str
  | .tok t => t.text
  | .lineC x => '/' :: '/' :: x
  | .blockC x => '/' :: '*' :: x ++ ['*', '/']

mutual
  def ctoksV : CSrc → List CTok
    | .lit l => [.tok l.tok]
    | .dict items => .tok (.word ['{']) :: ctoksItems items ++ [.tok (.word ['}'])]
    | .list xs => .tok (.word ['(']) :: (srcToksXs xs).map .tok ++ [.tok (.word [')'])]
  def ctoksItems : List CItem → List CTok
    | [] => []
    | .entry k (.lit l) :: r => .tok (.word k) :: .tok l.tok :: .tok (.word [';']) :: ctoksItems r
    | .entry k (.dict items) :: r =>
        .tok (.word k) :: .tok (.word ['{']) :: ctoksItems items ++ [.tok (.word ['}'])] ++ ctoksItems r
    | .entry k (.list xs) :: r =>
        .tok (.word k) :: .tok (.word ['(']) :: (srcToksXs xs).map .tok ++ [.tok (.word [')']), .tok (.word [';'])] ++ ctoksItems r
    | .lineC x :: r => .lineC x :: ctoksItems r
    | .blockC x :: r => .blockC x :: ctoksItems r
end

/-- lay the tokens out: `gaps[i]` in front of token `i`, `tail` at the end -/
def spreadC (ts : List CTok) (gaps : List Str) (tail : Str) : Str := spread (ts.map CTok.text) gaps tail

/-- text of a line comment: one line, no `/*` (the block stage runs on the joined text afterwards and would see it…
    no: the line comment is already gone by then; but keep the texts simple), no line-break character -/
def isLineCText (x : Str) : Bool := x.all fun c => !isLineBreak c

/-- text of a block comment: no `*/` inside, no `//` at all (the line-comment stage runs first and would cut it: finding
    D27), no line whose first non-blank character is `#` (it would be taken for an include directive) -/
def isBlockCText (x : Str) : Bool :=
  !isInfix ['*', '/'] x && !isInfix ['/', '/'] x && !(x.getLast? == some '*') && !(x.head? == some '/') &&
  (splitLinesKeep x).all fun l => (dropWs l).head? != some '#'

/-- admissible layout: white-space gaps; adjacent non-delimiter tokens separated; a comment is preceded and followed
    by white space (a line comment is followed by a gap that starts with a line feed, or is last with any tail) -/
def GapsOKC : List CTok → List Str → Str → Bool
  | [], _, _ => true
  | [t], g :: _, tail =>
    g.all isWs && tail.all isWs &&
    (match t with | .lineC _ => !g.isEmpty && (tail.isEmpty || tail.head? == some '\n') | .blockC _ => !g.isEmpty | _ => true)
  | [_], [], _ => false
  | t :: u :: ts, g :: g' :: gs, tail =>
    g.all isWs &&
    (match t with
     | .lineC _ => !g.isEmpty && g'.head? == some '\n'
     | .blockC _ => !g.isEmpty && !g'.isEmpty
     | .tok a => (match u with
        | .tok b => isDelimSTok a || isDelimSTok b || !g'.isEmpty
        | _ => !g'.isEmpty)) &&
    GapsOKC (u :: ts) (g' :: gs) tail
  | _ :: _ :: _, _, _ => false

/-! ### what the comment stages must produce -/

structure CLabelSt where
  counter : Counter
  lineC : Tbl Str := []
  blockC : Tbl Str := []

def linePh (i : Nat) : Str := kwLine ++ padSix i
def blockPh (i : Nat) : Str := kwBlock ++ padSix i

/-- pass 1 (line comments, ids from the counter) and pass 2 (block comments, ids 0,1,2,…) over the token list:
    the resulting token list has placeholder *words* where the comments were -/
def labelCToks (st : CLabelSt) : List CTok → CLabelSt × List STok
  | [] => (st, [])
  | .tok t :: r => let (st', ts) := labelCToks st r; (st', t :: ts)
  | .lineC x :: r =>
    let (i, c) := Counter.next Gen.counterLimit st.counter
    let (st', ts) := labelCToks { st with counter := c, lineC := st.lineC.set i ('/' :: '/' :: x) } r
    (st', .word (linePh i) :: ts)
  | .blockC x :: r =>
    let n := st.blockC.length
    let (st', ts) := labelCToks { st with blockC := st.blockC ++ [(n, '/' :: '*' :: x ++ ['*', '/'])] } r
    (st', .word (blockPh n) :: ts)

/- note: in the real pipeline all line comments are numbered before any block comment is seen; since line comments draw
   from the counter and block comments count locally, interleaving the two passes as above gives the same ids. -/

mutual
  /-- the document with every comment replaced by a placeholder *entry* (`ph ↦ ph`), as a token tree (`Val` encoding of
      Grammar.lean) over `Src`-level values: comments become entries whose key and value are the placeholder word -/
  def labelCV (st : CLabelSt) : CSrc → CLabelSt × Src
    | .lit l => (st, .lit l)
    | .dict items => let (st', es) := labelCItems st items; (st', .dict es)
    | .list xs => (st, .list xs)
  def labelCItems (st : CLabelSt) : List CItem → CLabelSt × SrcEntries
    | [] => (st, [])
    | .entry k v :: r =>
      let (st1, v') := labelCV st v
      let (st2, r') := labelCItems st1 r
      (st2, (k, v') :: r')
    | .lineC x :: r =>
      let (i, c) := Counter.next Gen.counterLimit st.counter
      let (st', r') := labelCItems { st with counter := c, lineC := st.lineC.set i ('/' :: '/' :: x) } r
      (st', (linePh i, .lit (.bare (linePh i))) :: r')
    | .blockC x :: r =>
      let n := st.blockC.length
      let (st', r') := labelCItems { st with blockC := st.blockC ++ [(n, '/' :: '*' :: x ++ ['*', '/'])] } r
      (st', (blockPh n, .lit (.bare (blockPh n))) :: r')
end

mutual
  /-- denotation of a labelled document: like `denSrcEs`, but an entry whose key is a placeholder word is the comment
      entry `ph ↦ ph` -/
  def denPV : Src → Val
    | .lit l => .leaf l.den
    | .dict es => .dict (denPEs es [])
    | .list xs => .list (denSrcXs xs)
  def denPEs : SrcEntries → Entries → Entries
    | [], acc => acc
    | (k, v) :: es, acc =>
      if isPhTok k then denPEs es (setKey (.str k) (.leaf (.str k)) acc)
      else match keyOfScalar (parseKey k) with
        | some key => denPEs es (setKey key (denPV v) acc)
        | none => denPEs es acc
end

/-- what a commented document means: data with comment entries at their levels, and the two tables -/
def denC (c : Counter) (items : List CItem) : SD :=
  let (st, es) := labelCItems { counter := c } items
  ({ data := denPEs es [], lineC := st.lineC, blockC := st.blockC } : SD).clean

mutual
  /-- well-formed commented document; `depth` as in `SrcWFV` -/
  def CSrcWFV (depth : Nat) : CSrc → Bool
    | .lit l => l.ok && depth ≤ 10
    | .dict items => CSrcWFItems (depth + 1) items
    | .list xs => SrcWFXs (depth + 1) xs
  def CSrcWFItems (depth : Nat) : List CItem → Bool
    | [] => true
    | .entry k v :: r => isSrcWord k && (keyOfScalar (parseKey k)).isSome && CSrcWFV depth v && CSrcWFItems depth r
    | .lineC x :: r => isLineCText x && CSrcWFItems depth r
    | .blockC x :: r => isBlockCText x && CSrcWFItems depth r
end

end DictIO

namespace DictIO

mutual
  /-- the document with its comments dropped -/
  def plainV : CSrc → Src
    | .lit l => .lit l
    | .dict items => .dict (plainItems items)
    | .list xs => .list xs
  def plainItems : List CItem → SrcEntries
    | [] => []
    | .entry k v :: r => (k, plainV v) :: plainItems r
    | .lineC _ :: r => plainItems r
    | .blockC _ :: r => plainItems r
end

/-- what a commented document means when it is read with comments switched off: the data of the comment-free
    document; the comment tables are still filled (the reader records the texts and merely leaves no placeholder) -/
def denCoff (c : Counter) (items : List CItem) : SD :=
  let (st, _) := labelCItems { counter := c } items
  ({ data := denSrcEs (plainItems items) [], lineC := st.lineC, blockC := st.blockC } : SD).clean

/-- stages 1–3 of `parseNative`: line comments, include directives, block comments -/
def commentStages (comments : Bool) (dir : Str) (c : Counter) (text : Str) : LexSt × Str :=
  let lines := splitLinesKeep text
  let st : LexSt := { counter := c }
  let (st, lines) := lines.foldl (fun (acc : LexSt × List Str) l =>
      let (st, l') := lexLineComment comments acc.1 l; (st, acc.2 ++ [l'])) (st, [])
  let (st, lines) := lines.foldl (fun (acc : LexSt × List Str) l =>
      let (st, l') := lexInclude dir acc.1 l; (st, acc.2 ++ [l'])) (st, [])
  let block := lines.flatten
  let (btbl, block) := lexBlockCommentsFuel comments (block.length + 1) 0 [] block
  ({ st with blockC := btbl }, block)

/-- the remaining stages of `parseNative`, from the lexer state the comment stages left -/
def parseRest (st : LexSt) (block : Str) : Except ParseErr (SD × Counter) := do
  let block := strip (block.map fun ch => if ch == '\n' then ' ' else ch)
  let (st, block) ← lexLiteralsFuel (block.length + 1) st none block
  let (st, block) := lexExpressions st block
  let toks := levels 0 (tokenize block)
  let es ← parseDictToks true [] toks []
  let es ← insertLiterals st.lits es
  let sd : SD := { data := es, exprs := st.exprs, lineC := st.lineC, blockC := st.blockC, incl := st.incl }
  let sd := sd.clean
  pure ({ sd with data := dropDocKeys sd.data }, st.counter)

theorem parseNative_stages (comments : Bool) (dir : Str) (c : Counter) (text : Str) :
    parseNative comments dir c text = parseRest (commentStages comments dir c text).1 (commentStages comments dir c text).2 := rfl

end DictIO

namespace DictIO

mutual
  /-- token stream of a *labelled* document: an entry whose key is a placeholder word is a comment entry and is written
      as that single word; everything else as in `srcToksEs` -/
  def srcToksPV : Src → List STok
    | .lit l => [l.tok]
    | .dict es => .word ['{'] :: srcToksPEs es ++ [.word ['}']]
    | .list xs => .word ['('] :: srcToksXs xs ++ [.word [')']]
  def srcToksPEs : SrcEntries → List STok
    | [] => []
    | (k, .lit l) :: es => (if isPhTok k then [STok.word k] else [.word k, l.tok, .word [';']]) ++ srcToksPEs es
    | (k, .dict d) :: es => .word k :: .word ['{'] :: srcToksPEs d ++ [.word ['}']] ++ srcToksPEs es
    | (k, .list l) :: es => .word k :: .word ['('] :: srcToksXs l ++ [.word [')'], .word [';']] ++ srcToksPEs es
end

mutual
  /-- well-formed labelled document: like `SrcWFEs`, but placeholder entries (`ph ↦ bare ph`, `ph` a comment placeholder
      word) are allowed at every dict level -/
  def SrcPWFV (depth : Nat) : Src → Bool
    | .lit l => l.ok && depth ≤ 10
    | .dict es => SrcPWFEs (depth + 1) es
    | .list xs => SrcWFXs (depth + 1) xs
  def SrcPWFEs (depth : Nat) : SrcEntries → Bool
    | [] => true
    | (k, v) :: es =>
      (if isPhTok k then isWordTok k && (match v with | .lit (.bare w) => w == k | _ => false) &&
          k.all (fun c => !isQuote c && c != '$' && c != '\\') && !isInfix kwLit k && !isInfix kwExpr k
       else isSrcWord k && (keyOfScalar (parseKey k)).isSome && SrcPWFV depth v) && SrcPWFEs depth es
end

end DictIO
