/-
  Model of `NativeFormatter` / `FoamFormatter` (formatter.py): `to_string`, `format_dict` (byte-exact
  layout), `insert_block_comments`, `insert_includes`, `insert_line_comments`,
  `make_default_block_comment`, `remove_trailing_spaces`, Foam's `remove_underscore_keys_recursive`.
-/
import DictIO.Model.Dict
import DictIO.Model.Scalar
import DictIO.Model.Path
import DictIO.Model.Counter

namespace DictIO

def spaces (n : Nat) : Str := List.replicate n ' '

/-- `str(key)` -/
def keyStr : Key → Str
  | .int z => intRepr z
  | .str s => s

/-- `format_key(key)` = `format_value(key)` -/
def formatKey (fl : Flavor) : Key → Str
  | .int z => intRepr z
  | .str s => formatString fl s

/-- `format_dict(x, level=level, end=end)` for a string argument: `indent + x + end` -/
def fline (level : Nat) (x : Str) (nl : Bool := true) : Str :=
  spaces (4 * level) ++ x ++ (if nl then ['\n'] else [])

mutual
  /-- `format_dict(list, level, ancestry)`; `inList` = "ancestry is a sequence" (closes with `)` not `);`) -/
  def fmtList (fl : Flavor) (level : Nat) (inList : Bool) (xs : List Val) : Str :=
    fline level ['('] ++ fmtItems fl level xs.length 0 true xs ++ fline level (if inList then [')'] else [')', ';'])

  /-- the item loop: `idx` = index of the head of `xs`, `n` = `len(arg)` -/
  def fmtItems (fl : Flavor) (level n idx : Nat) (first : Bool) : List Val → Str
    | [] => []
    | .list ys :: rest => fmtList fl (level + 1) true ys ++ fmtItems fl level n (idx + 1) first rest
    | .dict es :: rest =>
        fline (level + 1) [] ++ fline (level + 1) ['{'] ++ fmtEntries fl (level + 2) es ++ fline (level + 1) ['}'] ++
          fmtItems fl level n (idx + 1) true rest
    | .leaf x :: rest =>
        let value := formatScalar fl x
        let itemLevel := if first then level + 1 else 1
        let last := (idx + 1) % 10 == 0 || idx + 1 == n
        if last then fline itemLevel value ++ fmtItems fl level n (idx + 1) true rest
        else fline itemLevel (value ++ spaces (14 - value.length)) false ++ fmtItems fl level n (idx + 1) false rest

  /-- `format_dict(mapping, level)` -/
  def fmtEntries (fl : Flavor) (level : Nat) : Entries → Str
    | [] => []
    | (k, .dict es) :: rest =>
        fline level (keyStr k) ++ fline level ['{'] ++ fmtEntries fl (level + 1) es ++ fline level ['}'] ++ fmtEntries fl level rest
    | (k, .list xs) :: rest =>
        fline level (keyStr k) ++ fmtList fl level false xs ++ fmtEntries fl level rest
    | (k, .leaf x) :: rest =>
        let skey := formatKey fl k
        fline level (skey ++ spaces (max 8 (30 - skey.length - 4 * level)) ++ formatScalar fl x ++ [';']) ++ fmtEntries fl level rest
end

/-! ### `remove_trailing_spaces` -/

/-- split at `\n`, keeping the pieces (`"a\n"` ↦ `["a", ""]`) -/
def splitNl : Str → List Str
  | [] => [[]]
  | '\n' :: r => [] :: splitNl r
  | c :: r => match splitNl r with
    | l :: ls => (c :: l) :: ls
    | [] => [[c]]

/-- universal-newline translation of `io.StringIO(newline=None)`: `\r\n` and `\r` become `\n` -/
def universalNl : Str → Str
  | [] => []
  | '\r' :: '\n' :: r => '\n' :: universalNl r
  | '\r' :: r => '\n' :: universalNl r
  | c :: r => c :: universalNl r

def rstripWs (s : Str) : Str := (s.reverse.dropWhile isWs).reverse

def removeTrailingSpaces (s : Str) : Str :=
  ['\n'].intercalate ((splitNl (universalNl s)).map rstripWs)

/-! ### header and placeholder insertion -/

/-- `re.search(r"\s[Cc]\+{2}\s", s)` -/
def containsCpp : Str → Bool
  | a :: b :: '+' :: '+' :: e :: r =>
      (isWs a && (b == 'C' || b == 'c') && isWs e) || containsCpp (b :: '+' :: '+' :: e :: r)
  | _ :: r => containsCpp r
  | [] => false

def nativeHeader : Str := Gen.nativeHeader.toList
def foamHeader : Str := Gen.foamHeader.toList

/-- `make_default_block_comment(block_comment)` -/
def makeDefaultBlockComment (fl : Flavor) (bc : Str) : Str :=
  match fl with
  | .foam =>
    let bc := if containsCpp bc then bc else foamHeader ++ bc
    if isInfix "OpenFOAM".toList bc then bc else foamHeader
  | _ => if containsCpp bc then bc else nativeHeader ++ bc

/-- does `s` start with `ph \s+ ph ;` ?  returns the rest -/
def matchPhEntry (ph : Str) (s : Str) : Option Str :=
  if ph.isPrefixOf s then
    let r := s.drop ph.length
    let r' := r.dropWhile isWs
    if r'.length < r.length && ph.isPrefixOf r' then
      match r'.drop ph.length with
      | ';' :: rest => some rest
      | _ => none
    else none
  else none

/-- `re.sub(ph + r"\s+" + ph + ";", lambda _: repl, s)` (all occurrences, left to right); also says whether any was found.
    Fuel = length of the text (every step consumes at least one character). -/
def substPhEntryFuel (ph repl : Str) : Nat → Str → Str × Bool
  | 0, s => (s, false)
  | _ + 1, [] => ([], false)
  | fuel + 1, c :: r =>
    match matchPhEntry ph (c :: r) with
    | some rest => let (t, _) := substPhEntryFuel ph repl fuel rest; (repl ++ t, true)
    | none => let (t, f) := substPhEntryFuel ph repl fuel r; (c :: t, f)

/-- all occurrences of the placeholder entry replaced; flag = found at least one -/
def substPh (kw : Str) (id : Nat) (repl : Str) (s : Str) : Str × Bool :=
  substPhEntryFuel (kw ++ padSix id) repl (s.length + 1) s

/-- `insert_block_comments` -/
def insertBlockComments (fl : Flavor) (tbl : Tbl Str) (s : Str) : Str :=
  let r := tbl.foldl (fun (acc : Str × Str × Bool) e =>
      let (s, sofar, first) := acc
      let bc := if first then makeDefaultBlockComment fl e.2 else e.2
      let bc := if isInfix bc sofar then [] else bc
      let (s', found) := substPh kwBlock e.1 bc s
      if found then (s', sofar ++ bc, false) else (s, sofar, false)) (s, [], true)
  if r.2.1.isEmpty then makeDefaultBlockComment fl [] ++ r.1 else r.1

/-- `#include` + `format_value(name.replace("\\", "\\\\"))`, expanded as `re.sub` template -/
def includeLineFl (fl : Flavor) (name : Str) : Option Str :=
  templateExpand ("#include ".toList ++ formatString fl (doubleBackslashes name))

/-- `insert_includes`: the directive text is an `re.sub` template; `none` = the real code interprets an escape or raises -/
def insertIncludes (fl : Flavor) (tbl : Tbl InclEntry) (s : Str) : Option Str :=
  tbl.foldl (fun acc e => match acc with
    | none => none
    | some s => match includeLineFl fl e.2.file with
      | some line => some (substPh kwIncl e.1 line s).1
      | none => none) (some s)

/-- `insert_line_comments` (repaired, fix D16: literal text) -/
def insertLineComments (tbl : Tbl Str) (s : Str) : Str :=
  tbl.foldl (fun s e => (substPh kwLine e.1 e.2 s).1) s

/-! ### `to_string` -/

/-- top-level reordering: block-comment placeholder keys first, include keys next, the rest in order -/
def hoistPlaceholders (es : Entries) : Entries :=
  let isB (e : Key × Val) := match e.1 with | .str k => containsPh kwBlock k | _ => false
  let isI (e : Key × Val) := match e.1 with | .str k => containsPh kwIncl k | _ => false
  es.filter isB ++ es.filter (fun e => !isB e && isI e) ++ es.filter (fun e => !isB e && !isI e)

-- `remove_underscore_keys_recursive` (repaired, fix D19: descends into lists)
mutual
  def dropUnderscoreV (fl : Flavor) : Val → Val
    | .leaf x => .leaf x
    | .dict es => .dict (dropUnderscoreEs fl es)
    | .list xs => .list (dropUnderscoreXs fl xs)
  def dropUnderscoreEs (fl : Flavor) : Entries → Entries
    | [] => []
    | (k, v) :: es =>
      if (formatKey fl k).head? == some '_' then dropUnderscoreEs fl es
      else (k, dropUnderscoreV fl v) :: dropUnderscoreEs fl es
  def dropUnderscoreXs (fl : Flavor) : List Val → List Val
    | [] => []
    | v :: xs => dropUnderscoreV fl v :: dropUnderscoreXs fl xs
end

/-- `to_string` on a plain `dict` (no header, no insertion) -/
def fmtPlain (fl : Flavor) (es : Entries) : Str :=
  let es := match fl with | .foam => dropUnderscoreEs fl es | _ => es
  removeTrailingSpaces (fmtEntries fl 0 (hoistPlaceholders es))

/-- `to_string` on an `SDict`; `none` = an include name makes the `re.sub` template misbehave -/
def fmtSD (fl : Flavor) (s : SD) : Option Str :=
  let es := match fl with | .foam => dropUnderscoreEs fl s.data | _ => s.data
  let t := fmtEntries fl 0 (hoistPlaceholders es)
  let t := insertBlockComments fl s.blockC t
  match insertIncludes fl s.incl t with
  | none => none
  | some t => some (removeTrailingSpaces (insertLineComments s.lineC t))

end DictIO
