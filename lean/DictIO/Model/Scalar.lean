/-
  Model of scalar typing and scalar formatting:
    `Parser.parse_value`, `Parser.parse_key`, `Parser.remove_quotes_from_string`   (parser.py)
    `Formatter.format_value`, `format_string` class decision, Native/Foam spellings (formatter.py)
  The regular expressions are replaced by hand-written recognisers (DESIGN 4.3); `$` of Python's
  `re` (no MULTILINE) matches at the very end or just before a final line feed, `^` only at the start.
  The float regex is the repaired one (fix D1); `remove_quotes_from_string` the repaired one (D6).
-/
import DictIO.Model.Chars

namespace DictIO

/-- `$` of Python `re`: at the end of the string, or just before a trailing newline -/
def atDollar (r : Str) : Bool := r == [] || r == ['\n']

def isQuote (c : Char) : Bool := c == '\'' || c == '"'

/-- `re.sub(r"(^['\"]{1}|['\"]{1}$)", "", s)` -/
def dropEndQuote : Str → Str
  | [] => []
  | [c] => if isQuote c then [] else [c]
  | [c, '\n'] => if isQuote c then ['\n'] else [c, '\n']
  | c :: cs => c :: dropEndQuote cs

def removeQuotes (s : Str) : Str :=
  match s with
  | [] => []
  | c :: cs => if isQuote c then dropEndQuote cs else dropEndQuote (c :: cs)

/-- `[+-]?` -/
def dropSign : Str → Str
  | '+' :: r => r
  | '-' :: r => r
  | r => r

/-- `\d*` : (matched digits, rest) -/
def spanDigits : Str → Str × Str
  | [] => ([], [])
  | c :: cs => if isDigit c then let (d, r) := spanDigits cs; (c :: d, r) else ([], c :: cs)

/-- `^[+-]?\d+$` -/
def isIntLit (s : Str) : Bool :=
  let (d, r) := spanDigits (dropSign s)
  !d.isEmpty && atDollar r

/-- what remains after `(\d+(\.\d*)?|\.\d+)`, if that matches a prefix -/
def dropMantissa (s : Str) : Option Str :=
  let (d, r) := spanDigits s
  if !d.isEmpty then
    match r with
    | '.' :: r' => some (spanDigits r').2
    | _ => some r
  else
    match r with
    | '.' :: r' => let (d', r'') := spanDigits r'; if !d'.isEmpty then some r'' else none
    | _ => none

/-- `^[+-]?(\d+(\.\d*)?|\.\d+)$` -/
def isFloatLit (s : Str) : Bool :=
  match dropMantissa (dropSign s) with
  | some r => atDollar r
  | none => false

/-- `^[+-]?(\d+(\.\d*)?|\.\d+)([eE][-+]?\d+)?$` -/
def isFloatExpLit (s : Str) : Bool :=
  match dropMantissa (dropSign s) with
  | some r =>
    atDollar r ||
    (match r with
     | c :: r' => (c == 'e' || c == 'E') &&
        (let (d, r'') := spanDigits (dropSign r'); !d.isEmpty && atDollar r'')
     | [] => false)
  | none => false

/-- positional value of a digit string (as `int()` reads it; any Unicode decimal digit) -/
def digitsVal (ds : Str) : Nat := ds.foldl (fun acc c => acc * 10 + (digitVal c).getD 0) 0

/-- `int(s)` for `s` matching `isIntLit` -/
def intOfLit (s : Str) : Int :=
  let v : Int := digitsVal (spanDigits (dropSign s)).1
  match s with
  | '-' :: _ => -v
  | _ => v

/-- `s.strip().lower()` restricted to what matters for the six words: ASCII lower-casing.
    (No non-ASCII character lower-cases into a letter of the six words: `Lemmas/Scalar`, from the generated table.) -/
def wordForm (s : Str) : Str := (strip s).map asciiLower

def boolNoneWord (s : Str) : Option Scalar :=
  let w := wordForm s
  if w == "true".toList then some (.bool true)
  else if w == "false".toList then some (.bool false)
  else if w == "on".toList then some (.bool true)
  else if w == "off".toList then some (.bool false)
  else if w == "none".toList then some .none
  else if w == "null".toList then some .none
  else none

/-- `Parser.parse_value` on a string -/
def parseValue (s : Str) : Scalar :=
  if (removeQuotes s).isEmpty then .str []
  else if s == ['-'] || s == ['_'] || s == ['.'] then .str s
  else if isIntLit s then .int (intOfLit s)
  else if isFloatLit s then .float s
  else if isFloatExpLit s then .float s
  else match boolNoneWord s with
    | some v => v
    | none => .str (removeQuotes s)

/-- `Parser.parse_value` on an already typed value: identity by type dispatch -/
def parseScalar : Scalar → Scalar
  | .str s => parseValue s
  | v => v

/-- `Parser.parse_key`: `parse_value`, then a check against `TKey`, which is `Hashable` -- every scalar
    passes, so a key may come back as int, float, bool, None or str -/
def parseKey (s : Str) : Scalar := parseValue s

/-! ### formatting -/

/-- decimal digits of a natural number, most significant first (`str(n)`) -/
def natDigits (n : Nat) : Str :=
  if h : n < 10 then [Char.ofNat (48 + n)]
  else natDigits (n / 10) ++ [Char.ofNat (48 + n % 10)]
termination_by n
decreasing_by omega

/-- `str(z)` -/
def intRepr : Int → Str
  | .ofNat n => natDigits n
  | .negSucc n => '-' :: natDigits (n + 1)

inductive Flavor | native | foam | base
  deriving DecidableEq, Repr, Inhabited

/-- `^\$\w[\w\[\]]*$` -/
def isReferenceString : Str → Bool
  | '$' :: c :: r =>
    isWordChar c &&
      (let rest := r.dropWhile fun x => isWordChar x || x == '[' || x == ']'
       atDollar rest)
  | _ => false

/-- the characters that force quoting: `[\s:/\\;,{}()<>\[\]]` (repaired class, fix D3) -/
def isComplexChar (c : Char) : Bool :=
  isWs c || c == ':' || c == '/' || c == '\\' || c == ';' || c == ',' || c == '{' || c == '}' ||
  c == '(' || c == ')' || c == '<' || c == '>' || c == '[' || c == ']'

def sq (s : Str) : Str := '\'' :: s ++ ['\'']
def dq (s : Str) : Str := '"' :: s ++ ['"']

/-- `re.sub('"', '\\"', s)` -/
def escapeDq : Str → Str
  | [] => []
  | '"' :: r => '\\' :: '"' :: escapeDq r
  | c :: r => c :: escapeDq r

/-- `^#(include|$)`: a word that starts like an include directive, or a lone `#` (which the next list item could complete
    to `# include`), is written in quotes -/
def startsInclude (s : Str) : Bool := "#include".toList.isPrefixOf s || s == ['#']

/-- `Formatter.format_string` with the Native / Foam overrides -/
def formatString (fl : Flavor) (s : Str) : Str :=
  if s.contains '$' then
    if isReferenceString s then s
    else match fl with | .base => s | _ => dq s
  else if s.isEmpty then
    match fl with | .native => sq s | .foam => dq s | .base => s
  else if s.any isQuote then
    match fl with
    | .native => if s.contains '"' then sq s else dq s
    | .foam => if s.contains '"' then dq (escapeDq s) else dq s
    | .base => sq s
  else if s.any isComplexChar || startsInclude s then
    match fl with | .native => sq s | .foam => dq s | .base => s
  else s

/-- `format_value` on a scalar (`float` leaves carry Python's `str(float)` as lexeme) -/
def formatScalar (fl : Flavor) : Scalar → Str
  | .str s => formatString fl s
  | .bool b => match fl with
    | .base => (if b then "True" else "False").toList
    | _ => (if b then "true" else "false").toList
  | .int z => intRepr z
  | .float l => l
  | .none => match fl with
    | .base => "None".toList
    | _ => "NULL".toList

end DictIO
