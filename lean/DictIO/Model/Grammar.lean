/-
  The documented grammar side (docs: fileFormat.sDict):   key value;   key { … }   key ( … );
  as *token trees* and their denotation, independent of the reader's scanner.

  A token tree is a `Val` whose leaves are `.leaf (.str tok)` (the scalar as written: a bare word or a
  placeholder standing for a quoted literal) and whose keys are `.str tok`.  An entry whose key and value
  are the same placeholder word (`…COMMENT…`, `…INCLUDE…`) stands for a comment / include line.
  `toksEs` lists the tokens in document order; `denEs` is the tree the documentation says they mean.
  `spread` lays tokens out with arbitrary white space: the layout the reader must be insensitive to.
-/
import DictIO.Model.NativeParse

namespace DictIO

def isPhTok (t : Str) : Bool := isCommentTok t || isIncludeTok t

mutual
  def toksV : Val → List Str
    | .leaf (.str w) => [w]
    | .leaf _ => []
    | .dict es => ['{'] :: toksEs es ++ [['}']]
    | .list xs => ['('] :: toksXs xs ++ [[')']]
  def toksEs : Entries → List Str
    | [] => []
    | (.str k, .leaf (.str w)) :: es => (if isPhTok k then [k] else [k, w, [';']]) ++ toksEs es
    | (.str k, .dict d) :: es => k :: ['{'] :: toksEs d ++ [['}']] ++ toksEs es
    | (.str k, .list l) :: es => k :: ['('] :: toksXs l ++ [[')'], [';']] ++ toksEs es
    | _ :: es => toksEs es
  def toksXs : List Val → List Str
    | [] => []
    | v :: xs => toksV v ++ toksXs xs
end

mutual
  /-- denotation of a written scalar / nested structure -/
  def denV : Val → Val
    | .leaf (.str w) => .leaf (parseValue w)
    | .leaf x => .leaf x
    | .dict es => .dict (denEs es [])
    | .list xs => .list (denXs xs)
  /-- denotation of the entries of one dict level, left to right (`d[key] = value`) -/
  def denEs : Entries → Entries → Entries
    | [], acc => acc
    | (.str k, .leaf (.str w)) :: es, acc =>
      if isPhTok k then denEs es (setKey (.str k) (.leaf (.str k)) acc)
      else match keyOfScalar (parseKey k) with
        | some key => denEs es (setKey key (.leaf (parseValue w)) acc)
        | none => denEs es acc
    | (.str k, v) :: es, acc =>
      match keyOfScalar (parseKey k) with
      | some key => denEs es (setKey key (denV v) acc)
      | none => denEs es acc
    | _ :: es, acc => denEs es acc
  def denXs : List Val → List Val
    | [] => []
    | v :: xs => denV v :: denXs xs
end

/-- a word token: what may stand as key or scalar between delimiters -/
def isWordTok (t : Str) : Bool :=
  !t.isEmpty && t.all (fun c => !isWs c && !Gen.delimiters.contains c) &&
  !(match t with | [c] => Gen.openingBrackets.contains c || Gen.closingBrackets.contains c | _ => false)

mutual
  /-- well-formed token tree: keys and scalars are word tokens, keys are not placeholder words (except in
      comment/include entries), every key types as an int or str key -/
  def TokWFV : Val → Bool
    | .leaf (.str w) => isWordTok w && !isPhTok w
    | .leaf _ => false
    | .dict es => TokWFEs es
    | .list xs => TokWFXs xs
  def TokWFEs : Entries → Bool
    | [] => true
    | (.str k, .leaf (.str w)) :: es =>
      (if isPhTok k then isWordTok k && w == k
       else isWordTok k && (keyOfScalar (parseKey k)).isSome && isWordTok w && !isPhTok w) && TokWFEs es
    | (.str k, v) :: es => isWordTok k && !isPhTok k && (keyOfScalar (parseKey k)).isSome && TokWFV v && TokWFEs es
    | _ :: _ => false
  def TokWFXs : List Val → Bool
    | [] => true
    | v :: xs => TokWFV v && TokWFXs xs
end

/-- lay a token list out: `gaps[i]` is put in front of token `i`, `tail` at the end -/
def spread : List Str → List Str → Str → Str
  | [], _, tail => tail
  | t :: ts, g :: gs, tail => g ++ t ++ spread ts gs tail
  | t :: ts, [], tail => t ++ spread ts [] tail

def isDelimTok (t : Str) : Bool := match t with | [c] => Gen.delimiters.contains c | _ => false

/-- a layout is admissible when every gap is white space and two adjacent non-delimiter tokens are
    separated by at least one white-space character -/
def GapsOK : List Str → List Str → Bool
  | [], _ => true
  | [_], g :: _ => g.all isWs
  | [_], [] => true
  | t :: u :: ts, g :: g' :: gs =>
    g.all isWs && (isDelimTok t || isDelimTok u || !g'.isEmpty) && GapsOK (u :: ts) (g' :: gs)
  | _ :: _ :: _, _ => false

end DictIO
