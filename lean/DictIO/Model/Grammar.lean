/-
  The documented grammar side (docs: fileFormat.sDict):   key value;   key { … }   key ( … );
  as *token trees* and their denotation, independent of the reader's scanner.

  A token tree is a `Val` whose leaves are `.leaf (.str tok)` (the scalar as written: a bare word or a
  placeholder standing for a quoted literal) and whose keys are `.str tok`.  An entry whose key and value
  are the same placeholder word (`…COMMENT…`, `…INCLUDE…`) stands for a comment / include line.
  `toksEs` lists the tokens in document order; `denEs` is the tree the documentation says they mean.
  `spread` lays tokens out with arbitrary white space: the layout the reader must be insensitive to.
-/
import DictIO.Model.NativeParse

namespace DictIO

def isPhTok (t : Str) : Bool := isCommentTok t || isIncludeTok t

mutual
  def toksV : Val → List Str
    | .leaf (.str w) => [w]
    | .leaf _ => []
    | .dict es => ['{'] :: toksEs es ++ [['}']]
    | .list xs => ['('] :: toksXs xs ++ [[')']]
  def toksEs : Entries → List Str
    | [] => []
    | (.str k, .leaf (.str w)) :: es => (if isPhTok k then [k] else [k, w, [';']]) ++ toksEs es
    | (.str k, .dict d) :: es => k :: ['{'] :: toksEs d ++ [['}']] ++ toksEs es
    | (.str k, .list l) :: es => k :: ['('] :: toksXs l ++ [[')'], [';']] ++ toksEs es
    | _ :: es => toksEs es
  def toksXs : List Val → List Str
    | [] => []
    | v :: xs => toksV v ++ toksXs xs
end

mutual
  /-- denotation of a written scalar / nested structure -/
  def denV : Val → Val
    | .leaf (.str w) => .leaf (parseValue w)
    | .leaf x => .leaf x
    | .dict es => .dict (denEs es [])
    | .list xs => .list (denXs xs)
  /-- denotation of the entries of one dict level, left to right (`d[key] = value`) -/
  def denEs : Entries → Entries → Entries
    | [], acc => acc
    | (.str k, .leaf (.str w)) :: es, acc =>
      if isPhTok k then denEs es (setKey (.str k) (.leaf (.str k)) acc)
      else match keyOfScalar (parseKey k) with
        | some key => denEs es (setKey key (.leaf (parseValue w)) acc)
        | none => denEs es acc
    | (.str k, v) :: es, acc =>
      match keyOfScalar (parseKey k) with
      | some key => denEs es (setKey key (denV v) acc)
      | none => denEs es acc
    | _ :: es, acc => denEs es acc
  def denXs : List Val → List Val
    | [] => []
    | v :: xs => denV v :: denXs xs
end

/-- a word token: what may stand as key or scalar between delimiters -/
def isWordTok (t : Str) : Bool :=
  !t.isEmpty && t.all (fun c => !isWs c && !Gen.delimiters.contains c) &&
  !(match t with | [c] => Gen.openingBrackets.contains c || Gen.closingBrackets.contains c | _ => false)

mutual
  /-- well-formed token tree: keys and scalars are word tokens, keys are not placeholder words (except in
      comment/include entries), every key types as an int or str key -/
  def TokWFV : Val → Bool
    | .leaf (.str w) => isWordTok w && !isPhTok w
    | .leaf _ => false
    | .dict es => TokWFEs es
    | .list xs => TokWFXs xs
  def TokWFEs : Entries → Bool
    | [] => true
    | (.str k, .leaf (.str w)) :: es =>
      (if isPhTok k then isWordTok k && w == k
       else isWordTok k && (keyOfScalar (parseKey k)).isSome && isWordTok w && !isPhTok w) && TokWFEs es
    | (.str k, v) :: es => isWordTok k && !isPhTok k && (keyOfScalar (parseKey k)).isSome && TokWFV v && TokWFEs es
    | _ :: _ => false
  def TokWFXs : List Val → Bool
    | [] => true
    | v :: xs => TokWFV v && TokWFXs xs
end

/-- lay a token list out: `gaps[i]` is put in front of token `i`, `tail` at the end -/
def spread : List Str → List Str → Str → Str
  | [], _, tail => tail
  | t :: ts, g :: gs, tail => g ++ t ++ spread ts gs tail
  | t :: ts, [], tail => t ++ spread ts [] tail

def isDelimTok (t : Str) : Bool := match t with | [c] => Gen.delimiters.contains c | _ => false

/-- a layout is admissible when every gap is white space and two adjacent non-delimiter tokens are
    separated by at least one white-space character -/
def GapsOK : List Str → List Str → Bool
  | [], _ => true
  | [_], g :: _ => g.all isWs
  | [_], [] => true
  | t :: u :: ts, g :: g' :: gs =>
    g.all isWs && (isDelimTok t || isDelimTok u || !g'.isEmpty) && GapsOK (u :: ts) (g' :: gs)
  | _ :: _ :: _, _ => false

end DictIO

/-! ## Source documents with quoted strings

  `Src` is a document as the grammar describes it: scalars are written bare or in quotes.  `srcToks` lists
  its source tokens; `spreadS` lays them out with arbitrary white space; `denSrc` is what the document means.
  `labelEs` replaces every quoted string by a placeholder word (ids drawn left to right from the counter), which
  is what the reader's literal-extraction stage must produce: a token tree in the sense above plus a table. -/

namespace DictIO

inductive Lit where
  | bare (w : Str)
  | quoted (q : Char) (body : Str)
  deriving DecidableEq, Repr, Inhabited

inductive Src where
  | lit (l : Lit)
  | dict (es : List (Str × Src))
  | list (xs : List Src)
  deriving Repr, Inhabited

abbrev SrcEntries := List (Str × Src)

/-- a source token: a word (also the delimiters) or a quoted string -/
inductive STok where
  | word (w : Str)
  | quoted (q : Char) (body : Str)
  deriving DecidableEq, Repr, Inhabited

def Lit.tok : Lit → STok
  | .bare w => .word w
  | .quoted q b => .quoted q b

def STok.text : STok → Str
  | .word w => w
  | .quoted q b => q :: b ++ [q]

mutual
  def srcToksV : Src → List STok
    | .lit l => [l.tok]
    | .dict es => .word ['{'] :: srcToksEs es ++ [.word ['}']]
    | .list xs => .word ['('] :: srcToksXs xs ++ [.word [')']]
  def srcToksEs : SrcEntries → List STok
    | [] => []
    | (k, .lit l) :: es => .word k :: l.tok :: .word [';'] :: srcToksEs es
    | (k, .dict d) :: es => .word k :: .word ['{'] :: srcToksEs d ++ [.word ['}']] ++ srcToksEs es
    | (k, .list l) :: es => .word k :: .word ['('] :: srcToksXs l ++ [.word [')'], .word [';']] ++ srcToksEs es
  def srcToksXs : List Src → List STok
    | [] => []
    | v :: xs => srcToksV v ++ srcToksXs xs
end

/-- lay source tokens out: `gaps[i]` in front of token `i`, `tail` at the end -/
def spreadS (ts : List STok) (gaps : List Str) (tail : Str) : Str := spread (ts.map STok.text) gaps tail

/-- what a written scalar means: a bare word is typed by the table; a quoted string is typed when its content
    spells a number, boolean or none, and is its content otherwise -/
def Lit.den : Lit → Scalar
  | .bare w => parseValue w
  | .quoted _ b => match parseValue b with
    | .str _ => .str b
    | x => x

mutual
  def denSrcV : Src → Val
    | .lit l => .leaf l.den
    | .dict es => .dict (denSrcEs es [])
    | .list xs => .list (denSrcXs xs)
  def denSrcEs : SrcEntries → Entries → Entries
    | [], acc => acc
    | (k, v) :: es, acc =>
      match keyOfScalar (parseKey k) with
      | some key => denSrcEs es (setKey key (denSrcV v) acc)
      | none => denSrcEs es acc
  def denSrcXs : List Src → List Val
    | [] => []
    | v :: xs => denSrcV v :: denSrcXs xs
end

/-- placeholder word of literal number `i` -/
def litPh (i : Nat) : Str := kwLit ++ padSix i

/-- state of the labelling: the counter and the literal table built so far -/
structure LabelSt where
  counter : Counter
  lits : Tbl Str := []

def LabelSt.fresh (st : LabelSt) (body : Str) : Nat × LabelSt :=
  let (i, c) := Counter.next Gen.counterLimit st.counter
  (i, { counter := c, lits := st.lits.set i body })

mutual
  /-- replace quoted strings by placeholder words, in document order; result is a token tree (a `Val`) -/
  def labelV (st : LabelSt) : Src → LabelSt × Val
    | .lit (.bare w) => (st, .leaf (.str w))
    | .lit (.quoted _ b) => let (i, st') := st.fresh b; (st', .leaf (.str (litPh i)))
    | .dict es => let (st', es') := labelEs st es; (st', .dict es')
    | .list xs => let (st', xs') := labelXs st xs; (st', .list xs')
  def labelEs (st : LabelSt) : SrcEntries → LabelSt × Entries
    | [] => (st, [])
    | (k, v) :: es =>
      let (st1, v') := labelV st v
      let (st2, es') := labelEs st1 es
      (st2, (.str k, v') :: es')
  def labelXs (st : LabelSt) : List Src → LabelSt × List Val
    | [] => (st, [])
    | v :: xs =>
      let (st1, v') := labelV st v
      let (st2, xs') := labelXs st1 xs
      (st2, v' :: xs')
end

/-- the source tokens with every quoted string replaced by its placeholder word (same ids as `labelEs`) -/
def labelToks (st : LabelSt) : List STok → LabelSt × List Str
  | [] => (st, [])
  | .word w :: ts => let (st', r) := labelToks st ts; (st', w :: r)
  | .quoted _ b :: ts => let (i, st1) := st.fresh b; let (st2, r) := labelToks st1 ts; (st2, litPh i :: r)

/-- a bare word of a source document: a word token that is no placeholder look-alike, has no quote, no `$`,
    no backslash, and no comment marker -/
def isSrcWord (w : Str) : Bool :=
  isWordTok w && !isPhTok w && !isInfix kwLit w && !isInfix kwExpr w &&
  w.all (fun c => !isQuote c && c != '$' && c != '\\') && !isInfix ['/', '/'] w && !isInfix ['/', '*'] w &&
  !(w.head? == some '#')

/-- a quoted string of a source document: single line, does not contain its own quote character, is no
    expression (`"…$…"`), and contains no comment marker or reserved word -/
def isSrcQuoted (q : Char) (b : Str) : Bool :=
  isQuote q && !b.contains q && b.all (fun c => !isLineBreak c && c != '$') &&
  !isInfix ['/', '/'] b && !isInfix ['/', '*'] b && !isInfix kwLit b && !isInfix kwExpr b &&
  !isInfix "COMMENT".toList b && !isInfix "INCLUDE".toList b

def Lit.ok : Lit → Bool
  | .bare w => isSrcWord w
  | .quoted q b => isSrcQuoted q b

mutual
  /-- well-formed source document; `depth` = length of the key path so far (leaf paths must stay ≤ 10) -/
  def SrcWFV (depth : Nat) : Src → Bool
    | .lit l => l.ok && depth ≤ 10
    | .dict es => SrcWFEs (depth + 1) es
    | .list xs => SrcWFXs (depth + 1) xs
  def SrcWFEs (depth : Nat) : SrcEntries → Bool
    | [] => true
    | (k, v) :: es => isSrcWord k && (keyOfScalar (parseKey k)).isSome && SrcWFV depth v && SrcWFEs depth es
  def SrcWFXs (depth : Nat) : List Src → Bool
    | [] => true
    | v :: xs => SrcWFV depth v && SrcWFXs depth xs
end

/-- admissible layout of source tokens: gaps are white space without line-break surprises inside tokens, and two
    adjacent tokens that are not delimiters are separated by at least one white-space character -/
def isDelimSTok : STok → Bool
  | .word w => isDelimTok w
  | .quoted _ _ => false

def GapsOKS : List STok → List Str → Bool
  | [], _ => true
  | [_], g :: _ => g.all isWs
  | [_], [] => true
  | t :: u :: ts, g :: g' :: gs =>
    g.all isWs && (isDelimSTok t || isDelimSTok u || !g'.isEmpty) && GapsOKS (u :: ts) (g' :: gs)
  | _ :: _ :: _, _ => false

/-- the stages of `parseNative` after the comment/include stages, on one text block: newline removal, literal
    extraction, expression extraction, tokenizing, scanning, literal re-insertion -/
def parseBlock (c : Counter) (block : Str) : Except ParseErr (Entries × Counter) := do
  let block := strip (block.map fun ch => if ch == '\n' then ' ' else ch)
  let (st, block) ← lexLiteralsFuel (block.length + 1) { counter := c } none block
  let (st, block) := lexExpressions st block
  let es ← parseDictToks true [] (levels 0 (tokenize block)) []
  let es ← insertLiterals st.lits es
  pure (es, st.counter)

end DictIO
