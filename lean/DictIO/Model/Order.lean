/-
  Model of `utils/dict.py:order_keys` and `SDict.order_keys`.
  Python: `dict(sorted(arg.items(), key=lambda x: (isinstance(x[0], str), x[0])))`, then
  recursively for every value that is a mapping (lists and what they contain are untouched).
-/
import DictIO.Model.Dict

namespace DictIO

/-- Python `str` comparison `a <= b`: lexicographic by code point -/
def strLe : Str → Str → Bool
  | [], _ => true
  | _ :: _, [] => false
  | a :: as, b :: bs => if a.toNat < b.toNat then true else if a.toNat = b.toNat then strLe as bs else false

/-- the sort key `(isinstance(k, str), k)` compared with `<=` -/
def Key.le : Key → Key → Bool
  | .int a, .int b => decide (a ≤ b)
  | .int _, .str _ => true
  | .str _, .int _ => false
  | .str a, .str b => strLe a b

/-- insertion into a list sorted by key (stable: goes after equal keys) -/
def insertBy {κ β} (le : κ → κ → Bool) (e : κ × β) : List (κ × β) → List (κ × β)
  | [] => [e]
  | f :: fs => if le f.1 e.1 then f :: insertBy le e fs else e :: f :: fs

/-- stable insertion sort by key; extensionally `sorted(items, key=...)` -/
def sortBy {κ β} (le : κ → κ → Bool) : List (κ × β) → List (κ × β)
  | [] => []
  | e :: es => insertBy le e (sortBy le es)

abbrev sortByKey {β} (l : List (Key × β)) : List (Key × β) := sortBy Key.le l

mutual
  def orderV : Val → Val
    | .dict es => .dict (sortByKey (orderEs es))
    | v => v
  def orderEs : Entries → Entries
    | [] => []
    | (k, v) :: es => (k, orderV v) :: orderEs es
end

/-- `order_keys(d)` -/
def orderD (es : Entries) : Entries := sortByKey (orderEs es)

/-- `order_keys` on an int-keyed side table -/
def Tbl.order {α} (t : Tbl α) : Tbl α := sortBy (fun a b => decide (a ≤ b)) t

/-- `SDict.order_keys()` -/
def SD.order (s : SD) : SD :=
  { data := orderD s.data, exprs := s.exprs.order, lineC := s.lineC.order,
    blockC := s.blockC.order, incl := s.incl.order }

end DictIO
