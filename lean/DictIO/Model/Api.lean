/-
  The public API as a state machine over an abstract file system ("world" = files + placeholder counter):
    `DictReader.read`, `DictWriter.write` (builtin-dict and SDict sources, both modes, `order`),
    `SDict.dump` (= write in append mode), `DictParser.parse` (read, derive `parsed.<name>`, write),
    `SDict.load` (read, then the counter is reset), `BorgCounter.reset`.
  One step returns the new world and what the caller observes.  Everything below `apiStep` is the model that the
  other files prove things about (`readFile`, `writeStep`'s building blocks, `targetName`, `fmtSD`, `fmtPlain`);
  this file only composes them the way `dict_writer.py` / `dict_parser.py` / `dict.py` do.

  Fidelity: native and Foam targets (JSON / XML targets make the model give up with `.unsupported`); an error of the
  model leaves the world as it was (the real counter may have advanced; the harness stops comparing a history there).
-/
import DictIO.Model.Writer

namespace DictIO

/-- `Formatter.get_formatter(target_file)` for the two text flavours the model writes -/
def flavorOfPath (p : Comps) : Option Flavor :=
  if isJsonPath p || isXmlPath p then none
  else match p.getLast? with
    | some n => if suffixOf n == ".foam".toList then some .foam else some .native
    | none => some .native

/-- replace or add one file -/
def FS.set (fs : FS) (p : Comps) (b : FileBody) : FS :=
  if fs.any (fun e => e.1 == p) then fs.map (fun e => if e.1 == p then (p, b) else e) else fs ++ [(p, b)]

/-- `_retype_values` on the source of a write -/
def Arg.retype : Arg → Arg
  | .plain d => .plain (normEs d)
  | .sd s => .sd { s with data := normEs s.data }

/-- what `formatter.to_string(source_dict)` gives for a builtin dict (no tables, no header) and for an SDict -/
def fmtArg (fl : Flavor) : Arg → Option Str
  | .plain d => some (fmtPlain fl d)
  | .sd s => fmtSD fl s

def Arg.order : Arg → Arg
  | .plain d => .plain (orderD d)
  | .sd s => .sd s.order

/-- `DictWriter.write(source, target, mode, order)` against the whole file system: the text written and the counter.
    `target` is the path as spelled; the existing target is re-read with `DictReader.read(target, order=order)`,
    i.e. with its own includes resolved against `fs`. -/
def writeText (ev : Str → EvalResult) (fs : FS) (target : Comps) (mode : Str) (order : Bool) (a : Arg) (c : Counter) :
    Except ParseErr (Str × Counter) :=
  match flavorOfPath target with
  | none => .error .unsupported
  | some fl =>
    let a := a.retype
    let fresh : Except ParseErr (Str × Counter) :=
      match fmtArg fl (if order then a.order else a) with
      | some t => .ok (t, c)
      | none => .error .unsupported
    match fs.get (resolveSpelled target) with
    | some _ =>
      if mode == ['a'] then
        match readFile ev fs { order := order } c target with
        | .error e => .error e
        | .ok .exit1 => .error .unsupported
        | .ok (.ok sd c') =>
          let sd := sd.merge a
          let sd := if order then sd.order else sd
          match fmtSD fl sd with
          | some t => .ok (t, c')
          | none => .error .unsupported
      else fresh
    | none => fresh

structure World where
  fs : FS := []
  c : Counter := none

inductive ApiOp where
  | read (p : Comps) (o : ReadOpts)
  | write (a : Arg) (target : Comps) (mode : Str) (order : Bool)
  | dump (s : SD) (target : Comps)                                   -- `SDict.dump(target)`: write, default mode 'a'
  | parse (src : Comps) (o : ReadOpts) (mode : Str) (output : Option Str)
  | load (p : Comps)                                                 -- `SDict().load(p)`: read, reset the counter, update
  | reset                                                            -- `BorgCounter.reset()`

inductive ApiOut where
  | data (s : SD)               -- value returned by `read` / `parse`
  | done                        -- `write` / `dump` / `reset` return None
  | exit1                       -- `sys.exit(1)`: the requested scope does not exist
  | notFound                    -- `FileNotFoundError`
  | gaveUp (e : ParseErr)       -- the model does not follow the code here
  deriving Inhabited

/-- `str(key)` of a scope entry, as `create_target_file_name` spells it -/
def keyText : Key → Str
  | .int z => intRepr z
  | .str s => s

/-- the file `DictParser.parse(src, scope=…, output=…)` writes: same folder, derived name -/
def parseTarget (src : Comps) (scope : List Key) (output : Option Str) : Comps :=
  match src.getLast? with
  | some name => src.dropLast ++ [targetName name (some "parsed".toList) (scope.map keyText) output]
  | none => src

def writeTo (ev : Str → EvalResult) (w : World) (target : Comps) (mode : Str) (order : Bool) (a : Arg) : World × ApiOut :=
  match writeText ev w.fs target mode order a w.c with
  | .error e => (w, .gaveUp e)
  | .ok (t, c') => ({ fs := w.fs.set (resolveSpelled target) (.native t), c := c' }, .done)

def apiStep (ev : Str → EvalResult) (w : World) : ApiOp → World × ApiOut
  | .read p o =>
    match w.fs.get (resolveSpelled p) with
    | none => (w, .notFound)
    | some _ =>
      match readFile ev w.fs o w.c p with
      | .error e => (w, .gaveUp e)
      | .ok .exit1 => (w, .exit1)
      | .ok (.ok sd c') => ({ w with c := c' }, .data sd)
  | .write a target mode order => writeTo ev w target mode order a
  | .dump s target => writeTo ev w target ['a'] false (.sd s)
  | .parse src o mode output =>
    match w.fs.get (resolveSpelled src) with
    | none => (w, .notFound)
    | some _ =>
      match readFile ev w.fs o w.c src with
      | .error e => (w, .gaveUp e)
      | .ok .exit1 => (w, .exit1)
      | .ok (.ok sd c') =>
        -- `DictWriter.write` re-types the string leaves of the dict it is given IN PLACE (`_retype_values`), and `parse`
        -- returns that same object: the caller sees the re-typed dict (only a JSON source can still hold such strings)
        match writeTo ev { w with c := c' } (parseTarget src o.scope output) mode o.order (.sd sd) with
        | (w', .done) => (w', .data { sd with data := normEs sd.data })
        | (_, out) => (w, out)
  | .load p =>
    match w.fs.get (resolveSpelled p) with
    | none => (w, .notFound)
    | some _ =>
      match readFile ev w.fs {} w.c p with
      | .error e => (w, .gaveUp e)
      | .ok .exit1 => (w, .exit1)
      | .ok (.ok sd _) => ({ w with c := none }, .data (({} : SD).update (.sd sd)))
  | .reset => ({ w with c := none }, .done)

/-- a history of API calls: final world and everything the caller saw -/
def apiRun (ev : Str → EvalResult) : World → List ApiOp → World × List ApiOut
  | w, [] => (w, [])
  | w, op :: ops =>
    let (w', out) := apiStep ev w op
    let (w'', outs) := apiRun ev w' ops
    (w'', out :: outs)

/-- the file an operation may create or replace (`none`: the operation writes nothing) -/
def ApiOp.target : ApiOp → Option Comps
  | .read _ _ => none
  | .write _ t _ _ => some (resolveSpelled t)
  | .dump _ t => some (resolveSpelled t)
  | .parse src o _ output => some (resolveSpelled (parseTarget src o.scope output))
  | .load _ => none
  | .reset => none

end DictIO
