/-
  Character classes of Python's `re` / `str` as used by dictIO, over the tables generated
  from the running interpreter (`Generated/Unicode.lean`), and small string helpers.
-/
import DictIO.Model.Value
import DictIO.Generated.Unicode
import DictIO.Generated.Tables

namespace DictIO

def inRanges (rs : List (Nat × Nat)) (n : Nat) : Bool := rs.any fun r => r.1 ≤ n && n ≤ r.2

/-- `re` `\s`, `str.isspace`, the characters removed by `str.strip()` -/
def isWs (c : Char) : Bool := inRanges Gen.wsRanges c.toNat

/-- `re` `\d` -/
def isDigit (c : Char) : Bool := inRanges Gen.digitBlocks c.toNat

/-- value of a `\d` character (as `int()` reads it) -/
def digitVal (c : Char) : Option Nat :=
  (Gen.digitBlocks.find? fun r => r.1 ≤ c.toNat && c.toNat ≤ r.2).map fun r => c.toNat - r.1

/-- `re` `\w` -/
def isWordChar (c : Char) : Bool := inRanges Gen.wordRanges c.toNat

/-- all suffixes of a list, longest first (including `[]`) -/
def tails {α} : List α → List (List α)
  | [] => [[]]
  | a :: as => (a :: as) :: tails as

/-- if the text starts with `n` digits, their positional value -/
def digitRun : Nat → Str → Option Nat
  | 0, _ => some 0
  | n + 1, s => go (n + 1) s 0
where
  go : Nat → Str → Nat → Option Nat
    | 0, _, acc => some acc
    | _ + 1, [], _ => none
    | n + 1, c :: cs, acc => match digitVal c with
      | some d => go n cs (acc * 10 + d)
      | none => none

/-- `str.strip()` -/
def strip (s : Str) : Str := ((s.dropWhile isWs).reverse.dropWhile isWs).reverse

/-- substring test -/
def isInfix (p s : Str) : Bool := (tails s).any fun t => p.isPrefixOf t

/-- ASCII lower-casing of A–Z (see `Scalar` for the non-ASCII characters that lower into ASCII) -/
def asciiLower (c : Char) : Char := if 'A' ≤ c ∧ c ≤ 'Z' then Char.ofNat (c.toNat + 32) else c

end DictIO
