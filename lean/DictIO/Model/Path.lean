/-
  Model of `utils/path.py` (`relative_path`, `highest_common_root_folder`) on normalised absolute
  POSIX paths given as component lists, of `create_target_file_name` (dict_writer.py) on file names,
  and of the include directive as it is written (`NativeFormatter.insert_includes`) and read back
  (`NativeParser._extract_includes`).
  `Path.resolve()` (symlinks, `..`) is outside the model: inputs are already-resolved component lists.
-/
import DictIO.Model.Scalar

namespace DictIO

/-- a path below the root `/`: its components (no `.`/`..`/empty components: see `NormComps`) -/
abbrev Comps := List Str

def isDots (c : Str) : Bool := c == ['.'] || c == ['.', '.']

/-- components of a normalised path -/
def NormComps (p : Comps) : Prop := ∀ c ∈ p, c ≠ [] ∧ isDots c = false ∧ '/' ∉ c

def commonPrefix : Comps → Comps → Comps
  | a :: as, b :: bs => if a = b then a :: commonPrefix as bs else []
  | _, _ => []

/-- `relative_path(from, to)`: `to.relative_to(from)` when `from` is a prefix, else `os.path.relpath` -/
def relPath (frm to : Comps) : Comps :=
  if frm.isPrefixOf to then to.drop frm.length
  else
    let c := (commonPrefix frm to).length
    List.replicate (frm.length - c) ['.', '.'] ++ to.drop c

/-- `os.path.normpath(from / rel)` on component lists (`..` pops, `.` is dropped) -/
def joinNorm (frm : Comps) (rel : Comps) : Comps :=
  (rel.foldl (fun acc c => if c == ['.', '.'] then acc.dropLast else if c == ['.'] then acc else acc ++ [c]) frm)

/-- index of the last `'.'` in a name, if any -/
def rfindDot (s : Str) : Option Nat :=
  let n := s.length
  match (s.reverse.findIdx? (· == '.')) with
  | some i => some (n - 1 - i)
  | none => none

/-- pathlib's `PurePath.suffix` of a final component -/
def suffixOf (name : Str) : Str :=
  match rfindDot name with
  | some i => if 0 < i ∧ i < name.length - 1 then name.drop i else []
  | none => []

/-- pathlib's `PurePath.stem` -/
def stemOf (name : Str) : Str :=
  match rfindDot name with
  | some i => if 0 < i ∧ i < name.length - 1 then name.take i else name
  | none => name

/-- the "has a suffix ⇒ is a file" heuristic of `highest_common_root_folder` -/
def folderOf (p : Comps) : Comps :=
  match p.getLast? with
  | some last => if suffixOf last ≠ [] then p.dropLast else p
  | none => p

def commonPrefixAll : List Comps → Comps
  | [] => []
  | [p] => p
  | p :: ps => commonPrefix p (commonPrefixAll ps)

/-- `highest_common_root_folder` (paths already resolved; the root `/` is always common) -/
def commonRoot (paths : List Comps) : Comps := commonPrefixAll (paths.map folderOf)

/-! ### `create_target_file_name` -/

def removeSuffixDot (s : Str) : Str :=
  match s.getLast? with
  | some '.' => s.dropLast
  | _ => s

def stripPrefix (p s : Str) : Str := if p.isPrefixOf s then s.drop p.length else s

/-- the file-name part of `create_target_file_name(source, prefix, scope, output)`;
    `scope` is given as the list of `str(key)` texts -/
def targetName (name : Str) (pfx : Option Str) (scope : List Str) (output : Option Str) : Str :=
  let stem := stemOf name
  let suf := suffixOf name
  let special := stem == "parsed".toList || (match pfx with | some p => stem == p | none => false)
  let fileName := if special then stem ++ suf else stem
  let ending := if special then [] else suf
  let fileName := if scope.isEmpty then fileName else fileName ++ ('_' :: ['_'].intercalate scope)
  let fileName := match pfx with
    | some p => if p.isEmpty then fileName else
        let p' := removeSuffixDot p ++ ['.']
        p' ++ stripPrefix p' fileName
    | none => fileName
  let ending := match output with
    | some o => if o.isEmpty then ending else
        let o' := if o == "cpp".toList || o == "foam".toList || o == "json".toList || o == "xml".toList then o else "cpp".toList
        if o' == "cpp".toList then [] else '.' :: o'
    | none => ending
  fileName ++ ending

/-! ### include directives -/

/-- `name.replace("\\", "\\\\")` -/
def doubleBackslashes : Str → Str
  | [] => []
  | '\\' :: r => '\\' :: '\\' :: doubleBackslashes r
  | c :: r => c :: doubleBackslashes r

/-- expansion of an `re.sub` replacement template in which every backslash is doubled: `\\` ↦ `\`;
    `none` when another escape occurs (the real `re` would interpret it or raise) -/
def templateExpand : Str → Option Str
  | [] => some []
  | '\\' :: '\\' :: r => (templateExpand r).map ('\\' :: ·)
  | '\\' :: _ => none
  | c :: r => (templateExpand r).map (c :: ·)

/-- the text `insert_includes` puts into the file for an include of `name` -/
def includeLine (name : Str) : Option Str :=
  templateExpand ("#include ".toList ++ formatString .native (doubleBackslashes name))

def dropWs (s : Str) : Str := s.dropWhile isWs

/-- `re.search(r"^\s*#\s*include", line)` then
    `re.sub(r"(^\s*#\s*include\s*|\s*$)", "", line)` and `remove_quotes_from_string` -/
def parseIncludeLine (line : Str) : Option Str :=
  match dropWs line with
  | '#' :: r =>
    let r := dropWs r
    if "include".toList.isPrefixOf r then
      let rest := dropWs (r.drop 7)
      some (removeQuotes ((rest.reverse.dropWhile isWs).reverse))
    else none
  | _ => none

end DictIO
