/-
  Model of `DictReader.read` (dict_reader.py) above the parsers:
    `Parser.parse_file` dispatch, `JsonParser` post-processing (`_extract_includes`, `_extract_expressions`),
    `_merge_includes` (repaired, fix D14: the guard is the chain of resolved paths of the files being merged),
    `SDict.variables`, `_resolve_reference` (repaired, fix D12), `_eval_expressions` (repaired, fixes D10/D11),
    scope reduction, ordering, removal of include keys.
  The file system is an association list from normalised absolute paths (component lists) to file bodies.
  Python's `eval` is a parameter; the executable instance evaluates the integer language `+ - * ( )`.
-/
import DictIO.Model.NativeParse

namespace DictIO

inductive FileBody where
  | native (text : Str)
  | json (es : Entries)        -- what `json.loads` returns (JSON text ↔ value is `json`'s job)
  deriving Inhabited

abbrev FS := List (Comps × FileBody)

def FS.get (fs : FS) (p : Comps) : Option FileBody :=
  (fs.find? fun e => e.1 == p).map (·.2)

/-- split a path string at `/` -/
def splitSlash (s : Str) : Comps :=
  (s.splitOn '/').filter fun c => !c.isEmpty

/-- `Path.joinpath(dir, name)` as pathlib spells it: `.` components and empty components are dropped, `..` is kept -/
def spellJoin (dir : Comps) (name : Str) : Comps :=
  let cs := (splitSlash name).filter fun c => c != ['.']
  if name.head? == some '/' then cs else dir ++ cs

/-- `Path.resolve()` of a spelled path (no symlinks): lexical normalisation -/
def resolveSpelled (p : Comps) : Comps := joinNorm [] p

def pathStr (p : Comps) : Str := p.flatMap fun c => '/' :: c

/-! ### JSON front end -/

/-- `re.search(r"^\s*#\s*include", key)` -/
def isIncludeKey (k : Str) : Bool :=
  match dropWs k with
  | '#' :: r => "include".toList.isPrefixOf (dropWs r)
  | _ => false

/-- `str(value)` of a scalar, as the JSON parser takes the include file name -/
def pyStrScalar : Scalar → Str
  | .int z => intRepr z
  | .float l => l
  | .bool true => "True".toList
  | .bool false => "False".toList
  | .none => "None".toList
  | .str s => s

/-- all matches of `\$\w[\w\[\]]*` -/
def findRefsFuel : Nat → Str → List Str
  | 0, _ => []
  | fuel + 1, s => match findRef s with
    | none => []
    | some (_, x, a) => x :: findRefsFuel fuel a

def findRefs (s : Str) : List Str := findRefsFuel (s.length + 1) s

/-- `^\s*(\$\w[\w\[\]]*){1}\s*$` on a single-line string -/
def singleRef (s : Str) : Option Str :=
  match findRef (strip s) with
  | some ([], x, []) => some x
  | _ => none

structure JsonSt where
  counter : Counter
  exprs : Tbl ExprEntry := []

/-- `_extract_expression` on one string leaf -/
def jsonExtractExpr (st : JsonSt) (s : Str) : JsonSt × Str :=
  if (findRefs s).isEmpty then (st, s)
  else
    let e := match singleRef s with | some r => r | none => strip s
    let (i, c) := Counter.next Gen.counterLimit st.counter
    let ph := kwExpr ++ padSix i
    ({ counter := c, exprs := st.exprs.set i { expression := e, name := ph } }, replaceAll e ph s)

mutual
  /-- `_extract_expressions` : leaves that stay strings under `parse_value` are searched for references -/
  def jsonExprV (st : JsonSt) : Val → JsonSt × Val
    | .leaf (.str s) =>
      (match parseValue s with
       | .str _ => let (st', s') := jsonExtractExpr st s; (st', .leaf (.str s'))
       | _ => (st, .leaf (.str s)))
    | .leaf x => (st, .leaf x)
    | .dict es => let (st', es') := jsonExprEs st es; (st', .dict es')
    | .list xs => let (st', xs') := jsonExprXs st xs; (st', .list xs')
  def jsonExprEs (st : JsonSt) : Entries → JsonSt × Entries
    | [] => (st, [])
    | (k, v) :: es =>
      let (st1, v') := jsonExprV st v
      let (st2, es') := jsonExprEs st1 es
      (st2, (k, v') :: es')
  def jsonExprXs (st : JsonSt) : List Val → JsonSt × List Val
    | [] => (st, [])
    | v :: xs =>
      let (st1, v') := jsonExprV st v
      let (st2, xs') := jsonExprXs st1 xs
      (st2, v' :: xs')
end

/-- `JsonParser.parse_string` after `json.loads` -/
def parseJson (dir : Comps) (c : Counter) (es : Entries) : SD × Counter :=
  -- `_extract_includes`: include keys become hoisted placeholder entries
  let r := es.foldl (fun (acc : Counter × Tbl InclEntry × Entries × Entries) e =>
      let (c, tbl, phs, rest) := acc
      match e.1, e.2 with
      | .str k, .leaf x =>
        if isIncludeKey k then
          let name := removeQuotes (pyStrScalar x)
          let (i, c') := Counter.next Gen.counterLimit c
          let ph := kwIncl ++ padSix i
          (c', tbl.set i { directive := "#include '".toList ++ doubleBackslashes name ++ ['\''], file := name,
                           path := pathStr (spellJoin dir name) },
           setKey (.str ph) (.leaf (.str ph)) phs, rest)
        else (c, tbl, phs, rest ++ [e])
      | _, _ => (c, tbl, phs, rest ++ [e])) (c, [], [], [])
  let (c, incl, phs, rest) := r
  -- `data_temp = deepcopy(s_dict); s_dict.clear(); s_dict.update(placeholders); s_dict.update(data_temp)`:
  -- both updates run `_clean`, the second one also copies the (un-cleaned) tables of the deep copy back
  let dataTemp : SD := { data := rest, incl := incl }
  let s : SD := (({ data := [], incl := incl } : SD).update (.plain phs)).update (.sd dataTemp)
  let (st, data) := jsonExprEs { counter := c } s.data
  (({ s with data := data, exprs := st.exprs }), st.counter)

/-! ### `parse_file` -/

def isJsonPath (p : Comps) : Bool :=
  match p.getLast? with
  | some n => suffixOf n == ".json".toList
  | none => false

def isXmlPath (p : Comps) : Bool :=
  match p.getLast? with
  | some n => suffixOf n == ".xml".toList || suffixOf n == ".ssd".toList
  | none => false

/-- `parse_file(path)`: `p` is the path as spelled (it may contain `..`); the file system is keyed by resolved paths -/
def parseFile (fs : FS) (comments : Bool) (c : Counter) (p : Comps) : Except ParseErr (SD × Counter) :=
  if isXmlPath p then .error .unsupported
  else match fs.get (resolveSpelled p) with
    | none => .error .malformed                -- FileNotFoundError; callers test existence first
    | some (.native text) =>
      if isJsonPath p then .error .unsupported
      else match parseNative comments (pathStr p.dropLast) c text with
        | .error e => .error e
        | .ok (sd, c') =>
          -- the path entry of an include is `joinpath(dir, name)` in pathlib's spelling
          .ok ({ sd with incl := sd.incl.map fun e => (e.1, { e.2 with path := pathStr (spellJoin p.dropLast e.2.file) }) }, c')
    | some (.json es) => if isJsonPath p then .ok (parseJson p.dropLast c es) else .error .unsupported

/-! ### `_merge_includes` -/

/-- the recursion of `_merge_includes_recursive`; `fuel` bounds the include depth (files on the chain are distinct) -/
def mergeIncludesRec (fs : FS) (comments : Bool) : Nat → List Comps → SD → Comps → Counter → Except ParseErr (SD × Counter)
  | 0, _, parent, _, c => .ok (parent, c)
  | fuel + 1, ancestors, parent, dir, c => do
    let step (acc : SD × Counter) (e : Nat × InclEntry) : Except ParseErr (SD × Counter) := do
      let (temp, c) := acc
      let spelled := spellJoin dir e.2.file
      let target := resolveSpelled spelled
      if ancestors.contains target then pure (temp, c)            -- recursive include: this edge is cut
      else match fs.get target with
        | none => pure (temp, c)                                  -- included dict not found
        | some _ => do
          let (included, c) ← parseFile fs comments c spelled
          if included.incl.isEmpty then pure (temp.merge (.sd included), c)
          else do
            let (nested, c) ← mergeIncludesRec fs comments fuel (ancestors ++ [target]) included spelled.dropLast c
            -- `temp.merge(nested)`; `temp.merge(included)` follows with the same (already merged) object: a no-op
            pure ((temp.merge (.sd nested)).merge (.sd nested), c)
    let (temp, c) ← parent.incl.foldlM step (({} : SD), c)
    pure (parent.merge (.sd temp), c)

def mergeIncludes (fs : FS) (comments : Bool) (parent : SD) (dir : Comps) (c : Counter) : Except ParseErr (SD × Counter) := do
  let (p, c) ← mergeIncludesRec fs comments (fs.length + 1) [] parent dir c
  pure (p.merge (.sd p), c)

/-! ### variables, references, expressions -/

/-- `str(value)` as Python prints it is needed only for scalars here; containers make the model give up -/
def pyStrVal : Val → Option Str
  | .leaf x => some (pyStrScalar x)
  | _ => none

mutual
  def hasDictV : Val → Bool
    | .dict _ => true
    | .list l => hasDictXs l
    | .leaf _ => false
  /-- `list_contains_dict` -/
  def hasDictXs : List Val → Bool
    | [] => false
    | v :: xs => hasDictV v || hasDictXs xs
end

def listContainsDict (l : List Val) : Bool := hasDictXs l

def setVar (k : Str) (v : Val) : List (Str × Val) → List (Str × Val)
  | [] => [(k, v)]
  | (k', v') :: r => if k' == k then (k, v) :: r else (k', v') :: setVar k v r

/-- the assignment `variables[key] = …` for one entry (after its nested variables were collected) -/
def assignVar (exprs : Tbl ExprEntry) (k : Key) (v : Val) (acc : List (Str × Val)) : List (Str × Val) :=
  match k with
  | .str ks =>
    (match v with
     | .leaf (.str s) =>
       let s' := insertExpression exprs s
       if selfRef [] (.str ks) (.leaf (.str s')) then acc else setVar ks (.leaf (.str s')) acc
     | _ => setVar ks v acc)
  | _ => acc

mutual
  /-- `SDict.variables`: flat table, nested dicts first, later assignment wins (keeps first position) -/
  def varsEs (exprs : Tbl ExprEntry) : Entries → List (Str × Val) → List (Str × Val)
    | [], acc => acc
    | (k, .dict d) :: es, acc => varsEs exprs es (assignVar exprs k (.dict d) (varsEs exprs d acc))
    | (k, .list l) :: es, acc =>
      varsEs exprs es (assignVar exprs k (.list l) (if listContainsDict l then varsXs exprs l acc else acc))
    | (k, .leaf x) :: es, acc => varsEs exprs es (assignVar exprs k (.leaf x) acc)
  def varsXs (exprs : Tbl ExprEntry) : List Val → List (Str × Val) → List (Str × Val)
    | [], acc => acc
    | .dict d :: xs, acc => varsXs exprs xs (varsEs exprs d acc)
    | .list l :: xs, acc => varsXs exprs xs (varsXs exprs l acc)
    | .leaf _ :: xs, acc => varsXs exprs xs acc
end

def getVar (k : Str) (vars : List (Str × Val)) : Option Val := (vars.find? fun e => e.1 == k).map (·.2)

/-- `[i][j]…` with integer literals: the index path; `none` if the suffix has another form (fuel = length) -/
def parseIndexingFuel : Nat → Str → Option (List Int)
  | 0, _ => none
  | _ + 1, [] => some []
  | fuel + 1, '[' :: r =>
    let body := r.takeWhile (· != ']')
    match r.dropWhile (· != ']') with
    | ']' :: rest =>
      if isIntLit body && !body.contains '\n' then (parseIndexingFuel fuel rest).map (intOfLit body :: ·) else none
    | _ => none
  | _ + 1, _ => none

def parseIndexing (s : Str) : Option (List Int) := parseIndexingFuel (s.length + 1) s

def indexVal : Val → List Int → Option Val
  | v, [] => some v
  | .list xs, z :: r => match pyIndex xs.length z with
    | some i => match xs[i]? with
      | some x => indexVal x r
      | none => none
    | none => none
  | _, _ => none

/-- does `str(value)` contain `$` ?  (for containers: any string leaf) -/
def valHasDollar : Val → Bool
  | .leaf (.str s) => s.contains '$'
  | .leaf _ => false
  | .dict _ => false   -- refined below via `anyStrLeaf`
  | .list _ => false

mutual
  def anyStrLeafV (p : Str → Bool) : Val → Bool
    | .leaf (.str s) => p s
    | .leaf _ => false
    | .dict es => anyStrLeafEs p es
    | .list xs => anyStrLeafXs p xs
  def anyStrLeafEs (p : Str → Bool) : Entries → Bool
    | [] => false
    | (k, v) :: es => (match k with | .str s => p s | _ => false) || anyStrLeafV p v || anyStrLeafEs p es
  def anyStrLeafXs (p : Str → Bool) : List Val → Bool
    | [] => false
    | v :: xs => anyStrLeafV p v || anyStrLeafXs p xs
end

inductive Resolved where
  | none                 -- Python `None`: not (yet) resolvable
  | val (v : Val)
  | unsupported
  deriving Inhabited

/-- `_resolve_reference(reference, variables, _visited)`; fuel = number of variables + 1 -/
def resolveRef (vars : List (Str × Val)) : Nat → List Str → Str → Resolved
  | 0, _, _ => .none
  | fuel + 1, visited, reference =>
    -- indexing = `\[.+\]$` : from the first `[` to the end when the text ends with `]`
    let afterDollar := match reference with | '$' :: r => r | r => r
    let name := afterDollar.takeWhile (· != '[')
    let idxTxt := afterDollar.dropWhile (· != '[')
    -- `re.sub(r"(^\$|\[.+$)", "", reference)`: a lone trailing `[` is not removed; such names are not generated
    let indexing : Option Str :=
      if idxTxt.length ≥ 3 && idxTxt.getLast? == some ']' then some idxTxt else (if idxTxt.isEmpty then some [] else none)
    match indexing with
    | none => .unsupported
    | some idx =>
      if visited.contains name then .none
      else match getVar name vars with
        | none => .none
        | some v0 =>
          -- follow plain `$…` string values
          let rec follow (fuel : Nat) (visited : List Str) (v : Val) (lastName : Str) : Resolved × Str :=
            match fuel with
            | 0 => (.none, lastName)
            | fuel + 1 =>
              match v with
              | .leaf (.str s) =>
                if s.contains '$' then
                  (match resolveRef vars fuel visited s with
                   | .val v' =>
                     let nm := ((match s with | '$' :: r => r | r => r).takeWhile (· != '['))
                     follow fuel visited v' nm
                   | .none => (.none, lastName)
                   | .unsupported => (.unsupported, lastName))
                else (.val v, lastName)
              | .leaf _ => (.val v, lastName)
              | other => if anyStrLeafV (·.contains '$') other then (.unsupported, lastName) else (.val other, lastName)
          let (r, _) := follow fuel (visited ++ [name]) v0 name
          match r with
          | .val v =>
            if idx.isEmpty then .val v
            else (match parseIndexing idx with
              | some path => (match indexVal v path with     -- `eval(f"value{indexing}")`: the resolved value is indexed
                | some x => .val x
                | none => .val v)              -- exception suppressed: the value stays what it was
              | none => .unsupported)
          | other => other

inductive EvalResult where
  | value (v : Val)
  | nameError
  | syntaxError
  | unsupported
  deriving Inhabited

/-! #### the integer expression language (the executable instance of `eval`) -/

inductive ETok where
  | num (n : Nat) | plus | minus | times | lp | rp
  deriving DecidableEq, Repr

def etokenizeFuel : Nat → Str → Option (List ETok)
  | 0, _ => none
  | _ + 1, [] => some []
  | fuel + 1, c :: r =>
    if c == ' ' then etokenizeFuel fuel r
    else if c == '+' then (etokenizeFuel fuel r).map (.plus :: ·)
    else if c == '-' then (etokenizeFuel fuel r).map (.minus :: ·)
    else if c == '*' then (match r with | '*' :: _ => none | _ => (etokenizeFuel fuel r).map (.times :: ·))
    else if c == '(' then (etokenizeFuel fuel r).map (.lp :: ·)
    else if c == ')' then (etokenizeFuel fuel r).map (.rp :: ·)
    else if '0' ≤ c ∧ c ≤ '9' then
      let ds := (c :: r).takeWhile fun x => '0' ≤ x ∧ x ≤ '9'
      let rest := (c :: r).dropWhile fun x => '0' ≤ x ∧ x ≤ '9'
      -- Python rejects leading zeros in decimal literals other than 0 itself, and `1.5`, `1e3`, `1_0` are other literals
      if (ds.length > 1 && ds.head? == some '0') then none
      else match rest with
        | x :: _ => if x == '.' || x == 'e' || x == 'E' || x == '_' || x == 'j' || x == 'x' || x == 'o' || x == 'b' then none
                    else (etokenizeFuel fuel rest).map (.num (digitsVal ds) :: ·)
        | [] => some [.num (digitsVal ds)]
    else none

def etokenize (s : Str) : Option (List ETok) := etokenizeFuel (s.length + 1) s

/- recursive descent with fuel:  expr := term (('+'|'-') term)* ; term := unary ('*' unary)* ; unary := ('+'|'-')* atom -/
mutual
  def pExpr : Nat → List ETok → Option (Int × List ETok)
    | 0, _ => none
    | f + 1, ts => match pTerm f ts with
      | some (v, r) => pExprRest f v r
      | none => none
  def pExprRest : Nat → Int → List ETok → Option (Int × List ETok)
    | 0, _, _ => none
    | f + 1, acc, .plus :: r => (match pTerm f r with | some (v, r') => pExprRest f (acc + v) r' | none => none)
    | f + 1, acc, .minus :: r => (match pTerm f r with | some (v, r') => pExprRest f (acc - v) r' | none => none)
    | _ + 1, acc, r => some (acc, r)
  def pTerm : Nat → List ETok → Option (Int × List ETok)
    | 0, _ => none
    | f + 1, ts => match pUnary f ts with
      | some (v, r) => pTermRest f v r
      | none => none
  def pTermRest : Nat → Int → List ETok → Option (Int × List ETok)
    | 0, _, _ => none
    | f + 1, acc, .times :: r => (match pUnary f r with | some (v, r') => pTermRest f (acc * v) r' | none => none)
    | _ + 1, acc, r => some (acc, r)
  def pUnary : Nat → List ETok → Option (Int × List ETok)
    | 0, _ => none
    | f + 1, .minus :: r => (pUnary f r).map fun (v, r') => (-v, r')
    | f + 1, .plus :: r => pUnary f r
    | _ + 1, .num n :: r => some ((n : Int), r)
    | f + 1, .lp :: r => (match pExpr f r with
      | some (v, .rp :: r') => some (v, r')
      | _ => none)
    | _ + 1, _ => none
end

/-- `eval(text)` for the integer language; everything else is outside the model -/
def evalInt (s : Str) : EvalResult :=
  match etokenize s with
  | none => .unsupported
  | some [] => .unsupported
  | some ts => match pExpr (4 * ts.length + 4) ts with
    | some (v, []) => .value (.leaf (.int v))
    | _ => .unsupported

/-- `re.sub(re.escape(ref) + r"(?!\w)", lambda _: repl, s)` -/
def substRefFuel (ref repl : Str) : Nat → Str → Str
  | 0, s => s
  | _ + 1, [] => []
  | fuel + 1, c :: r =>
    if ref.isPrefixOf (c :: r) && !ref.isEmpty &&
        (match (c :: r).drop ref.length with | [] => true | x :: _ => !isWordChar x) then
      repl ++ substRefFuel ref repl fuel ((c :: r).drop ref.length)
    else c :: substRefFuel ref repl fuel r

structure ExprSt where
  data : Entries
  exprs : Tbl ExprEntry

/-- value usable for substitution: not `None`-unresolved and `str(value)` free of `EXPRESSION` and `$` -/
def usable (v : Val) : Bool :=
  !anyStrLeafV (fun s => isInfix kwExpr s || s.contains '$') v

mutual
  /-- replace every string leaf that contains `ph` by the value `v` (any value: a referenced list or dict too) -/
  def substValV (ph : Str) (v : Val) (depth : Nat) : Val → Except ParseErr Val
    | .leaf (.str s) => if isInfix ph s then (if depth > 10 then .error .tooDeep else .ok v) else .ok (.leaf (.str s))
    | .leaf x => .ok (.leaf x)
    | .dict es => (substValEs ph v (depth + 1) es).map .dict
    | .list xs => (substValXs ph v (depth + 1) xs).map .list
  def substValEs (ph : Str) (v : Val) (depth : Nat) : Entries → Except ParseErr Entries
    | [] => .ok []
    | (k, x) :: es => do
      let x' ← substValV ph v depth x
      let es' ← substValEs ph v depth es
      pure ((k, x') :: es')
  def substValXs (ph : Str) (v : Val) (depth : Nat) : List Val → Except ParseErr (List Val)
    | [] => .ok []
    | x :: xs => do
      let x' ← substValV ph v depth x
      let xs' ← substValXs ph v depth xs
      pure (x' :: xs')
end

/-- one pass of the `for key, item in expressions` loop -/
def evalPass (ev : Str → EvalResult) (resolved : List (Str × Val)) (st : ExprSt) : Except ParseErr ExprSt :=
  st.exprs.foldlM (fun (st : ExprSt) e => do
    let refs := findRefs e.2.expression
    -- a plain reference takes the referenced value as it is (repaired, fix D34)
    let plain : Option Val := match refs with
      | [r] => if strip e.2.expression == r then (resolved.find? fun p => p.1 == r).map (·.2) else none
      | _ => none
    if let some v := plain then
      let d ← substValEs e.2.name v 1 st.data
      return { data := d, exprs := st.exprs.del e.1 }
    -- substitute every resolved reference by `str(value)`
    let expr ← refs.foldlM (fun (x : Str) r =>
      match resolved.find? (fun p => p.1 == r) with
      | some (_, v) => match pyStrVal v with
        | some t => Except.ok (substRefFuel r t (x.length + 1) x)
        | none => Except.error ParseErr.unsupported          -- `str(list)`/`str(dict)`: outside the model
      | none => Except.ok x) e.2.expression
    if expr.contains '$' then
      pure { st with exprs := st.exprs.set e.1 { e.2 with expression := expr } }
    else match ev expr with
      | .unsupported => Except.error .unsupported
      | .syntaxError => pure { st with exprs := st.exprs.set e.1 { e.2 with expression := expr } }
      | .nameError => do
        let d ← substLeafEs e.2.name (.str expr) 1 st.data
        pure { data := d, exprs := st.exprs.del e.1 }
      | .value (.leaf x) => do
        let d ← substLeafEs e.2.name x 1 st.data
        pure { data := d, exprs := st.exprs.del e.1 }
      | .value _ => Except.error .unsupported) st

/-- references of all pending expressions with their resolution -/
def resolveAll (exprs : Tbl ExprEntry) (data : Entries) : Except ParseErr (List (Str × Val) × Nat) := do
  let refs := (exprs.flatMap fun e => findRefs e.2.expression).eraseDups
  let vars := varsEs exprs data []
  let rs ← refs.mapM fun r => match resolveRef vars (vars.length + 1) [] r with
    | .unsupported => Except.error ParseErr.unsupported
    | .none => Except.ok (r, (none : Option Val))
    | .val v => Except.ok (r, some v)
  let resolved := rs.filterMap fun (r, v) => match v with
    | some v => if usable v then some (r, v) else none
    | none => none
  pure (resolved, rs.length - resolved.length)

/-- `_eval_expressions`; `fuel` bounds the number of passes (each continuing pass resolves a reference) -/
def evalExpressions (ev : Str → EvalResult) (s : SD) : Except ParseErr SD := do
  let (resolved, notRes) ← resolveAll s.exprs s.data
  let rec loop (fuel : Nat) (st : ExprSt) (resolved : List (Str × Val)) (notRes : Nat) : Except ParseErr ExprSt :=
    match fuel with
    | 0 => pure st
    | fuel + 1 => do
      let st ← evalPass ev resolved st
      let (resolved', notRes') ← resolveAll st.exprs st.data
      if notRes' < notRes then loop fuel st resolved' notRes' else pure st
  let st ← loop (s.exprs.length + 2) { data := s.data, exprs := s.exprs } resolved notRes
  -- what is left: the placeholder is replaced by the expression text as it stands
  let d ← st.exprs.foldlM (fun d e => substLeafEs e.2.name (.str e.2.expression) 1 d) st.data
  pure { s with data := d, exprs := [] }

/-! ### `DictReader.read` -/

/-- `_remove_include_keys` (top level) -/
def removeIncludeKeys (es : Entries) : Entries :=
  es.filter fun e => match e.1 with
    | .str k => !(containsPhDigits kwIncl k)
    | _ => true
where
  /-- `re.search("INCLUDE[0-9;]+", key)` -/
  containsPhDigits (kw : Str) (k : Str) : Bool :=
    (tails k).any fun t => kw.isPrefixOf t && (match t.drop kw.length with
      | c :: _ => ('0' ≤ c ∧ c ≤ '9') || c == ';'
      | [] => false)

structure ReadOpts where
  includes : Bool := true
  order : Bool := false
  comments : Bool := true
  scope : List Key := []

inductive ReadOut where
  | ok (s : SD) (c : Counter)
  | exit1                       -- `sys.exit(1)`: scope does not exist
  deriving Inhabited

def readFile (ev : Str → EvalResult) (fs : FS) (o : ReadOpts) (c : Counter) (p : Comps) : Except ParseErr ReadOut := do
  let (sd, c) ← parseFile fs o.comments c p
  let (sd, c) ← if o.includes then mergeIncludes fs o.comments sd p.dropLast c else pure (sd, c)
  let sd ← evalExpressions ev sd
  if !o.scope.isEmpty && !pathExists sd.data o.scope then pure .exit1
  else
    let sd := if o.scope.isEmpty then sd else sd.reduceScope o.scope
    let sd := if o.order then sd.order else sd
    let sd := if o.includes then sd else { sd with data := removeIncludeKeys sd.data }
    pure (.ok sd c)

end DictIO
