/-
  Model of `cli/dict_parser.py`: `_validate_scope`, on top of the generated option table and the
  generated flag → API mapping (`Generated/Cli.lean`).  argparse itself (argv → Namespace) is not modelled.
-/
import DictIO.Model.Scalar
import DictIO.Generated.Cli

namespace DictIO

/-- `str.strip(" []")` -/
def stripScopeChars (s : Str) : Str :=
  let p (c : Char) : Bool := c == ' ' || c == '[' || c == ']'
  ((s.dropWhile p).reverse.dropWhile p).reverse

/-- `str.split(",")` -/
def splitComma : Str → List Str
  | [] => [[]]
  | ',' :: r => [] :: splitComma r
  | c :: r => match splitComma r with
    | l :: ls => (c :: l) :: ls
    | [] => [[c]]

/-- `_validate_scope(scope)` for the string / None values argparse can deliver:
    a text starting (after blanks) with `[` is a list of keys, typed one by one; any other text is one key, kept as text -/
def validateScope : Option Str → Option (List Scalar)
  | none => none
  | some s =>
    match s.dropWhile isWs with
    | '[' :: _ => some ((splitComma (stripScopeChars s)).map fun k => parseValue (strip k))
    | _ => some [.str s]

end DictIO
