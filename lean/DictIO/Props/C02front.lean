/-
  C02, front end of the native reader: on a text without comment markers (`//`, `/*`) and without include
  directive lines the first stages of `parseNative` (splitlines, line comments, include directives, join, block
  comments) are the identity, so the reader is `parseBlock` (Grammar) followed by `_clean` and the removal of the
  two documentation keys.

    1. `splitLines_flatten`, `splitLines_infix`, `splitLines_mem_sub`
    2. `findLineComment_none`, `lexLineComment_id`
    3. `parseIncludeLine_none`, `lexInclude_id`
    4. `lexBlockComments_id`
    5. `NoMarkup`, `front_gen` (no further hypothesis; keeps the expression table), `front_id` (with `'$' ∉ t`),
       `front_id_needs_no_dollar` (the hypothesis cannot be dropped)
    6. `clean_plain`, `dropDocKeys_id`, `front_plain`
    7. `exFrontText_noMarkup`, `exFrontText_block`, `exFrontText_native`
-/
import DictIO.Model.Grammar
import DictIO.Props.C07

namespace DictIO.C02
open DictIO

/-! ## helper lemmas

  (in the sub-namespace `DictIO.C02.Front`, so that they cannot collide with the helpers of the sibling files of
  namespace `DictIO.C02`) -/

namespace Front

theorem mem_tails_iff {α} {t : List α} : ∀ {s : List α}, t ∈ tails s ↔ ∃ a, s = a ++ t
  | [] => by simp [tails, eq_comm]
  | x :: s => by
    simp only [tails, List.mem_cons, mem_tails_iff (s := s)]
    constructor
    · rintro (rfl | ⟨a, rfl⟩)
      · exact ⟨[], rfl⟩
      · exact ⟨x :: a, rfl⟩
    · rintro ⟨a, h⟩
      cases a with
      | nil => left; exact h.symm
      | cons y a => right; simp at h; exact ⟨a, h.2⟩

theorem isInfix_iff {p s : Str} : isInfix p s = true ↔ ∃ a b, s = a ++ p ++ b := by
  simp only [isInfix, List.any_eq_true, mem_tails_iff, List.isPrefixOf_iff_prefix]
  constructor
  · rintro ⟨t, ⟨a, rfl⟩, b, rfl⟩
    exact ⟨a, b, by simp⟩
  · rintro ⟨a, b, rfl⟩
    exact ⟨p ++ b, ⟨a, by simp⟩, b, rfl⟩

theorem isInfix_cons (p : Str) (c : Char) (r : Str) :
    isInfix p (c :: r) = (p.isPrefixOf (c :: r) || isInfix p r) := by
  simp [isInfix, tails]

theorem isInfix_trans {p l s : Str} (h1 : isInfix p l = true) (h2 : isInfix l s = true) : isInfix p s = true := by
  rw [isInfix_iff] at *
  obtain ⟨a, b, rfl⟩ := h1
  obtain ⟨a', b', rfl⟩ := h2
  exact ⟨a' ++ a, b ++ b', by simp⟩

theorem isInfix_false_of_infix {p l s : Str} (h : isInfix p s = false) (h2 : isInfix l s = true) : isInfix p l = false := by
  cases h1 : isInfix p l with
  | false => rfl
  | true => rw [isInfix_trans h1 h2] at h; cases h

theorem isInfix_mem {l s : Str} (h : isInfix l s = true) : ∀ c ∈ l, c ∈ s := by
  rw [isInfix_iff] at h
  obtain ⟨a, b, rfl⟩ := h
  intro c hc; simp [hc]

theorem foldl_id_lines {σ : Type} (f : σ → Str → σ × Str) (st : σ) :
    ∀ (L acc : List Str), (∀ l ∈ L, f st l = (st, l)) →
      L.foldl (fun (a : σ × List Str) l => let (st, l') := f a.1 l; (st, a.2 ++ [l'])) (st, acc) = (st, acc ++ L)
  | [], acc, _ => by simp
  | l :: L, acc, h => by
    simp only [List.foldl_cons, h l (by simp)]
    rw [foldl_id_lines f st L (acc ++ [l]) (fun l' hl' => h l' (by simp [hl']))]
    simp

theorem delKey_of_lookup_none (k : Key) : ∀ es : Entries, lookup k es = none → delKey k es = es
  | [], _ => rfl
  | (k', v) :: es, h => by
    simp only [lookup] at h
    split at h
    · cases h
    · rename_i hne
      simp [delKey, hne, delKey_of_lookup_none k es h]

/-- two lexer states agree on all tables except the literal table (and the counter) -/
def SameT (a b : LexSt) : Prop := a.lineC = b.lineC ∧ a.incl = b.incl ∧ a.blockC = b.blockC ∧ a.exprs = b.exprs

theorem SameT.rfl' (a : LexSt) : SameT a a := ⟨rfl, rfl, rfl, rfl⟩

theorem SameT.trans {a b c : LexSt} (h1 : SameT a b) (h2 : SameT b c) : SameT a c :=
  ⟨h1.1.trans h2.1, h1.2.1.trans h2.2.1, h1.2.2.1.trans h2.2.2.1, h1.2.2.2.trans h2.2.2.2⟩

theorem splitAtChar_mem {q : Char} : ∀ {r a b : Str}, splitAtChar q r = some (a, b) → ∀ x, x ∈ a ∨ x ∈ b → x ∈ r
  | [], _, _, h => by simp [splitAtChar] at h
  | c :: r, a, b, h => by
    simp only [splitAtChar] at h
    split at h
    · simp at h; obtain ⟨rfl, rfl⟩ := h
      intro x hx; simp at hx; simp [hx]
    · simp only [Option.map_eq_some_iff] at h
      obtain ⟨⟨a', b'⟩, h1, h2⟩ := h
      simp at h2; obtain ⟨rfl, rfl⟩ := h2
      intro x hx
      have := splitAtChar_mem h1 x
      simp at hx ⊢
      rcases hx with (rfl | hx) | hx
      · left; rfl
      · right; exact this (Or.inl hx)
      · right; exact this (Or.inr hx)

theorem digit_ne_dollar : ∀ n, n < 10 → Char.ofNat (48 + n) ≠ '$' := by decide

theorem natDigits_no_dollar (n : Nat) : '$' ∉ natDigits n := by
  induction n using natDigits.induct with
  | case1 n h => rw [natDigits]; simp [h]; exact (digit_ne_dollar n h).symm
  | case2 n h ih =>
    rw [natDigits]; simp [h, ih]
    exact (digit_ne_dollar (n % 10) (Nat.mod_lt _ (by omega))).symm

theorem padSix_no_dollar (n : Nat) : '$' ∉ padSix n := by
  simp [padSix, natDigits_no_dollar]

theorem kwLit_no_dollar : '$' ∉ kwLit := by decide

theorem lexLiterals_inv : ∀ (fuel : Nat) (st : LexSt) (prev : Option Char) (s : Str) (st' : LexSt) (out : Str),
    lexLiteralsFuel fuel st prev s = .ok (st', out) → SameT st' st ∧ ('$' ∉ s → '$' ∉ out)
  | 0, st, prev, s, st', out, h => by
    simp [lexLiteralsFuel] at h; obtain ⟨rfl, rfl⟩ := h; exact ⟨SameT.rfl' _, id⟩
  | fuel + 1, st, prev, [], st', out, h => by
    simp [lexLiteralsFuel] at h; obtain ⟨rfl, rfl⟩ := h; exact ⟨SameT.rfl' _, id⟩
  | fuel + 1, st, prev, c :: r, st', out, h => by
    simp only [lexLiteralsFuel, bind, Except.bind, pure, Except.pure] at h
    split at h
    · split at h
      · cases h
      · split at h
        · cases hr : lexLiteralsFuel fuel st (some c) r with
          | error e => simp [hr] at h
          | ok v =>
            simp only [hr, Except.ok.injEq, Prod.mk.injEq] at h; obtain ⟨rfl, rfl⟩ := h
            have ih := lexLiterals_inv fuel st (some c) r v.1 v.2 hr
            refine ⟨ih.1, fun hd => ?_⟩
            simp only [List.mem_cons, not_or] at hd ⊢
            exact ⟨hd.1, ih.2 hd.2⟩
        · rename_i body rest hsp
          have hm := splitAtChar_mem hsp
          split at h
          · cases hr : lexLiteralsFuel fuel st (some '"') rest with
            | error e => simp [hr] at h
            | ok v =>
              simp only [hr, Except.ok.injEq, Prod.mk.injEq] at h; obtain ⟨rfl, rfl⟩ := h
              have ih := lexLiterals_inv fuel st (some '"') rest v.1 v.2 hr
              refine ⟨ih.1, fun hd => ?_⟩
              simp only [List.mem_cons, not_or] at hd
              have hb : '$' ∉ body := fun hx => hd.2 (hm _ (Or.inl hx))
              have hr' : '$' ∉ rest := fun hx => hd.2 (hm _ (Or.inr hx))
              simp [hd.1, hb, ih.2 hr']
          · cases hr : lexLiteralsFuel fuel
                { counter := st.fresh.snd.counter, lineC := st.fresh.snd.lineC, incl := st.fresh.snd.incl,
                  blockC := st.fresh.snd.blockC, lits := Tbl.set st.fresh.fst body st.fresh.snd.lits,
                  exprs := st.fresh.snd.exprs } (some c) rest with
            | error e => simp [hr] at h
            | ok v =>
              simp only [hr, Except.ok.injEq, Prod.mk.injEq] at h; obtain ⟨rfl, rfl⟩ := h
              have ih := lexLiterals_inv fuel _ (some c) rest v.1 v.2 hr
              refine ⟨ih.1.trans ⟨rfl, rfl, rfl, rfl⟩, fun hd => ?_⟩
              simp only [List.mem_cons, not_or] at hd
              have hr' : '$' ∉ rest := fun hx => hd.2 (hm _ (Or.inr hx))
              simp [kwLit_no_dollar, padSix_no_dollar, ih.2 hr']
    · cases hr : lexLiteralsFuel fuel st (some c) r with
      | error e => simp [hr] at h
      | ok v =>
        simp only [hr, Except.ok.injEq, Prod.mk.injEq] at h; obtain ⟨rfl, rfl⟩ := h
        have ih := lexLiterals_inv fuel st (some c) r v.1 v.2 hr
        refine ⟨ih.1, fun hd => ?_⟩
        simp only [List.mem_cons, not_or] at hd ⊢
        exact ⟨hd.1, ih.2 hd.2⟩

/-- two lexer states agree on the comment and include tables -/
def SameC (a b : LexSt) : Prop := a.lineC = b.lineC ∧ a.incl = b.incl ∧ a.blockC = b.blockC

theorem SameC.trans {a b c : LexSt} (h1 : SameC a b) (h2 : SameC b c) : SameC a c :=
  ⟨h1.1.trans h2.1, h1.2.1.trans h2.2.1, h1.2.2.trans h2.2.2⟩

theorem lexRefs_tables : ∀ (fuel : Nat) (st : LexSt) (s : Str), SameC (lexRefsFuel fuel st s).1 st
  | 0, st, s => ⟨rfl, rfl, rfl⟩
  | fuel + 1, st, s => by
    unfold lexRefsFuel
    split
    · exact ⟨rfl, rfl, rfl⟩
    · exact (lexRefs_tables fuel _ _).trans ⟨rfl, rfl, rfl⟩

theorem lexExprFold_tables (found : List Str) : ∀ (st : LexSt) (s : Str),
    SameC (found.foldl (fun (acc : LexSt × Str) e =>
      let (st, s) := acc
      let (i, st) := st.fresh
      let ph := kwExpr ++ padSix i
      ({ st with exprs := st.exprs.set i { expression := e.filter (· != '"'), name := ph } }, replaceAll e ph s)) (st, s)).1 st := by
  induction found with
  | nil => intro st s; exact ⟨rfl, rfl, rfl⟩
  | cons e found ih =>
    intro st s
    simp only [List.foldl_cons]
    exact (ih _ _).trans ⟨rfl, rfl, rfl⟩

theorem lexExpressions_tables (st : LexSt) (s : Str) : SameC (lexExpressions st s).1 st := by
  unfold lexExpressions
  exact (lexRefs_tables _ _ _).trans (lexExprFold_tables _ st s)

theorem findExprs_none : ∀ (fuel : Nat) (s : Str), '$' ∉ s → findExprsFuel fuel s = []
  | 0, _, _ => rfl
  | fuel + 1, [], _ => rfl
  | fuel + 1, c :: r, h => by
    have hr : '$' ∉ r := fun hx => h (List.mem_cons_of_mem _ hx)
    have hm : matchExprAt (c :: r) = none := by
      unfold matchExprAt
      split
      · rename_i r' heq
        simp only [List.cons.injEq] at heq
        obtain ⟨_, rfl⟩ := heq
        split
        · rename_i body rest hsp
          have : '$' ∉ body := fun hx => hr (splitAtChar_mem hsp _ (Or.inl hx))
          simp [this]
        · rfl
      · rfl
    simp only [findExprsFuel, hm]
    exact findExprs_none fuel r hr

theorem findRef_none : ∀ (s : Str), '$' ∉ s → findRef s = none := by
  intro s h
  fun_induction findRef s with
  | case1 => simp at h
  | case2 => simp at h
  | case3 c r hne ih =>
    have hr : '$' ∉ r := fun hx => h (List.mem_cons_of_mem _ hx)
    simp [ih hr]
  | case4 => rfl

theorem lexExpressions_no_dollar (st : LexSt) (s : Str) (h : '$' ∉ s) : lexExpressions st s = (st, s) := by
  simp [lexExpressions, findExprs_none _ s h, lexRefsFuel, findRef_none s h]

theorem strip_mem (s : Str) : ∀ c ∈ strip s, c ∈ s := by
  intro c hc
  simp only [strip, List.mem_reverse] at hc
  have := (List.dropWhile_sublist _).subset hc
  simp only [List.mem_reverse] at this
  exact (List.dropWhile_sublist _).subset this

theorem ok_of_toOption {ε α} {x : Except ε α} {v : α} (h : x.toOption = some v) : x = .ok v := by
  cases x <;> simp [Except.toOption] at h; exact congrArg _ h

end Front
open Front

/-! ## 1. `splitlines(keepends=True)` -/

/-- splitting with the line ends kept and joining again is the identity -/
theorem splitLines_flatten (s : Str) : (splitLinesKeep s).flatten = s := by
  fun_induction splitLinesKeep s with
  | case1 => rfl
  | case2 r ih => simp [ih]
  | case3 c r hne hb ih => simp [ih]
  | case4 c r hne hb hnil ih =>
    rw [hnil] at ih; simp at ih; simp [← ih]
  | case5 c r hne hb l ls hcons ih =>
    rw [hcons] at ih; simp at ih; simp [← ih]

/-- every line is a contiguous piece of the text -/
theorem splitLines_infix {l s : Str} (h : l ∈ splitLinesKeep s) : isInfix l s = true := by
  rw [isInfix_iff]
  obtain ⟨L1, L2, hL⟩ := List.mem_iff_append.mp h
  refine ⟨L1.flatten, L2.flatten, ?_⟩
  have := splitLines_flatten s
  rw [hL] at this
  simp at this; simp [← this]

theorem splitLines_mem_sub {l s : Str} (h : l ∈ splitLinesKeep s) : ∀ c ∈ l, c ∈ s :=
  isInfix_mem (splitLines_infix h)

/-! ## 2. line comments -/

/-- no `//` in the line: no line comment, whatever the preceding character -/
theorem findLineComment_none {l : Str} (prev : Option Char) (h : isInfix ['/', '/'] l = false) :
    findLineComment prev l = none := by
  fun_induction findLineComment prev l with
  | case1 prev r hp ih => simp [isInfix_cons, List.isPrefixOf] at h
  | case2 prev r hp => simp [isInfix_cons, List.isPrefixOf] at h
  | case3 prev c r hne ih =>
    rw [isInfix_cons] at h
    simp only [Bool.or_eq_false_iff] at h
    simp [ih h.2]
  | case4 => rfl

theorem lexLineComment_id {l : Str} (comments : Bool) (st : LexSt) (h : isInfix ['/', '/'] l = false) :
    lexLineComment comments st l = (st, l) := by
  simp [lexLineComment, findLineComment_none none h]

/-! ## 3. include directives -/

/-- a line whose first non-white-space character is not `#` is no include directive -/
theorem parseIncludeLine_none {l : Str} (h : (dropWs l).head? ≠ some '#') : parseIncludeLine l = none := by
  unfold parseIncludeLine
  split
  · rename_i r hr; simp [hr] at h
  · rfl

theorem lexInclude_id {l : Str} (dir : Str) (st : LexSt) (h : (dropWs l).head? ≠ some '#') :
    lexInclude dir st l = (st, l) := by
  simp [lexInclude, parseIncludeLine_none h]

/-! ## 4. block comments -/

/-- no `/*` in the text: the block-comment stage returns table and text unchanged (any start id `n`, any table) -/
theorem lexBlockComments_id (comments : Bool) : ∀ (fuel n : Nat) (tbl : Tbl Str) (s : Str),
    isInfix ['/', '*'] s = false → fuel ≥ s.length + 1 → lexBlockCommentsFuel comments fuel n tbl s = (tbl, s)
  | 0, _, _, _, _, hf => by omega
  | fuel + 1, n, tbl, [], _, _ => by simp [lexBlockCommentsFuel]
  | fuel + 1, n, tbl, c :: r, h, hf => by
    rw [isInfix_cons] at h
    simp only [Bool.or_eq_false_iff] at h
    have ih := lexBlockComments_id comments fuel n tbl r h.2 (by simp at hf; omega)
    unfold lexBlockCommentsFuel
    split
    · simp_all
    · simp_all
    · simp_all [List.isPrefixOf]
    · simp_all [List.isPrefixOf]

/-! ## 5. the front stages are the identity on markup-free text -/

/-- the text contains no `//`, no `/*`, and none of its lines starts (after white space) with `#` -/
def NoMarkup (t : Str) : Prop :=
  isInfix ['/', '/'] t = false ∧ isInfix ['/', '*'] t = false ∧ (∀ l ∈ splitLinesKeep t, (dropWs l).head? ≠ some '#')

/-- `parseBlock`, also returning the expression table the lexer built -/
def parseBlockX (c : Counter) (block : Str) : Except ParseErr (Entries × Tbl ExprEntry × Counter) := do
  let block := strip (block.map fun ch => if ch == '\n' then ' ' else ch)
  let (st, block) ← lexLiteralsFuel (block.length + 1) { counter := c } none block
  let (st, block) := lexExpressions st block
  let es ← parseDictToks true [] (levels 0 (tokenize block)) []
  let es ← insertLiterals st.lits es
  pure (es, st.exprs, st.counter)

theorem parseBlock_eq_X (c : Counter) (t : Str) :
    parseBlock c t = (parseBlockX c t).map fun r => (r.1, r.2.2) := by
  simp only [parseBlock, parseBlockX, bind, Except.bind, pure, Except.pure, Except.map]
  cases lexLiteralsFuel _ _ none (strip (List.map (fun ch => if (ch == '\n') = true then ' ' else ch) t)) with
  | error e => rfl
  | ok v =>
    simp only []
    cases parseDictToks true [] (levels 0 (tokenize (lexExpressions v.fst v.snd).snd)) [] with
    | error e => rfl
    | ok es =>
      simp only []
      cases insertLiterals (lexExpressions v.fst v.snd).fst.lits es <;> rfl

/-- **front_gen**: on markup-free text the reader is `parseBlockX` (= `parseBlock` plus the expression table),
    then `_clean`, then the removal of the two documentation keys; the comment and include tables start empty.
    No hypothesis about `$`. -/
theorem front_gen {t : Str} (comments : Bool) (dir : Str) (c : Counter) (h : NoMarkup t) :
    parseNative comments dir c t = (parseBlockX c t).map (fun r =>
      ({ ({ data := r.1, exprs := r.2.1 } : SD).clean with
          data := dropDocKeys (({ data := r.1, exprs := r.2.1 } : SD).clean).data }, r.2.2)) := by
  obtain ⟨h1, h2, h3⟩ := h
  have hl1 : ∀ l ∈ splitLinesKeep t, lexLineComment comments { counter := c } l = ({ counter := c }, l) :=
    fun l hl => lexLineComment_id comments _ (isInfix_false_of_infix h1 (splitLines_infix hl))
  have hl2 : ∀ l ∈ splitLinesKeep t, lexInclude dir { counter := c } l = ({ counter := c }, l) :=
    fun l hl => lexInclude_id dir _ (h3 l hl)
  have f1 := foldl_id_lines (lexLineComment comments) { counter := c } (splitLinesKeep t) [] hl1
  have f2 := foldl_id_lines (lexInclude dir) { counter := c } (splitLinesKeep t) [] hl2
  simp only [List.nil_append] at f1 f2
  simp only [parseNative, f1, f2, splitLines_flatten, lexBlockComments_id comments _ 0 [] t h2 (Nat.le_refl _)]
  simp only [parseBlockX, bind, Except.bind, pure, Except.pure, Except.map]
  cases hl : lexLiteralsFuel _ _ none (strip (List.map (fun ch => if (ch == '\n') = true then ' ' else ch) t)) with
  | error e => rfl
  | ok v =>
    have hv := (lexLiterals_inv _ _ _ _ v.1 v.2 hl).1
    have he := lexExpressions_tables v.1 v.2
    have e1 : (lexExpressions v.fst v.snd).fst.lineC = [] := he.1.trans hv.1
    have e2 : (lexExpressions v.fst v.snd).fst.incl = [] := he.2.1.trans hv.2.1
    have e3 : (lexExpressions v.fst v.snd).fst.blockC = [] := he.2.2.trans hv.2.2.1
    simp only [e1, e2, e3]
    cases parseDictToks true [] (levels 0 (tokenize (lexExpressions v.fst v.snd).snd)) [] with
    | error e => rfl
    | ok es =>
      simp only []
      cases insertLiterals (lexExpressions v.fst v.snd).fst.lits es <;> rfl

/-- without `$` in the text the lexer leaves the expression table empty -/
theorem parseBlockX_no_dollar {t : Str} (c : Counter) (hd : '$' ∉ t) :
    parseBlockX c t = (parseBlock c t).map fun r => (r.1, [], r.2) := by
  have hb : '$' ∉ strip (List.map (fun ch => if (ch == '\n') = true then ' ' else ch) t) := by
    intro hx
    have := strip_mem _ _ hx
    simp only [List.mem_map] at this
    obtain ⟨a, ha, he⟩ := this
    split at he
    · cases he
    · subst he; exact hd ha
  simp only [parseBlock, parseBlockX, bind, Except.bind, pure, Except.pure, Except.map]
  cases hl : lexLiteralsFuel _ _ none (strip (List.map (fun ch => if (ch == '\n') = true then ' ' else ch) t)) with
  | error e => rfl
  | ok v =>
    have hv := lexLiterals_inv _ _ _ _ v.1 v.2 hl
    have he : v.1.exprs = [] := hv.1.2.2.2
    simp only [lexExpressions_no_dollar v.1 v.2 (hv.2 hb), he]
    cases parseDictToks true [] (levels 0 (tokenize v.snd)) [] with
    | error e => rfl
    | ok es =>
      simp only []
      cases insertLiterals v.fst.lits es <;> rfl

/-- **front_id**: on a text without comment markers and include directives — and, for the expression table to be
    empty, without `$` (see `front_id_needs_no_dollar`) — the reader is `parseBlock`, then `_clean`, then the
    removal of the two documentation keys; all side tables of the result start empty. -/
theorem front_id {t : Str} (comments : Bool) (dir : Str) (c : Counter) (h : NoMarkup t) (hd : '$' ∉ t) :
    parseNative comments dir c t = (parseBlock c t).map (fun r =>
      ({ ({ data := r.1 } : SD).clean with data := dropDocKeys (({ data := r.1 } : SD).clean).data }, r.2)) := by
  rw [front_gen comments dir c h, parseBlockX_no_dollar c hd]
  cases parseBlock c t <;> rfl

/-! ## 6. `_clean` and the documentation keys on plain data -/

theorem clean_plain {es : Entries} (hp : C07.NoPhEs es) (hn : NodupKeysV (.dict es)) :
    (({ data := es } : SD).clean) = { data := es } :=
  C07.clean_id { data := es } hn hp

theorem dropDocKeys_id {es : Entries} (h1 : lookup (.str "_variables".toList) es = none)
    (h2 : lookup (.str "_includes".toList) es = none) : dropDocKeys es = es := by
  rw [dropDocKeys, delKey_of_lookup_none _ es h1, delKey_of_lookup_none _ es h2]

/-- all of the above together: on markup-free text whose parsed data has no placeholder key, no duplicate key and
    none of the two documentation keys, the reader returns exactly `parseBlock`'s data with empty side tables -/
theorem front_plain {t : Str} (comments : Bool) (dir : Str) (c c' : Counter) {es : Entries}
    (h : NoMarkup t) (hd : '$' ∉ t) (hb : parseBlock c t = .ok (es, c'))
    (hp : C07.NoPhEs es) (hn : NodupKeysV (.dict es))
    (h1 : lookup (.str "_variables".toList) es = none) (h2 : lookup (.str "_includes".toList) es = none) :
    parseNative comments dir c t = .ok ({ data := es }, c') := by
  rw [front_id comments dir c h hd, hb]
  simp only [Except.map, clean_plain hp hn, dropDocKeys_id h1 h2]

/-! ## 7. non-vacuity -/

def exFrontText : Str := "a 1;\nsub { x 'y z'; }\n".toList

theorem exFrontText_noMarkup : NoMarkup exFrontText := by
  refine ⟨by decide, by decide, ?_⟩
  decide

theorem exFrontText_no_dollar : '$' ∉ exFrontText := by decide

def exFrontData : Entries :=
  [(.str ['a'], .leaf (.int 1)), (.str "sub".toList, .dict [(.str ['x'], .leaf (.str "y z".toList))])]

/-- the right-hand side of `front_id` on the example: `parseBlock` evaluated (kernel reduction) -/
theorem exFrontText_block : parseBlock none exFrontText = .ok (exFrontData, some 0) := by
  apply ok_of_toOption
  decide +kernel

/-- the left-hand side: the whole reader on the example, through `front_id`, `clean_plain`, `dropDocKeys_id` -/
theorem exFrontText_native (comments : Bool) (dir : Str) :
    parseNative comments dir none exFrontText = .ok ({ data := exFrontData }, some 0) :=
  front_plain comments dir none (some 0) exFrontText_noMarkup exFrontText_no_dollar exFrontText_block
    (by simp [exFrontData, C07.NoPhEs, C07.NoPhV, C07.isPhKey]; decide)
    (by simp [exFrontData, NodupKeysV, NodupKeysEs]) (by decide) (by decide)

/-! ### the hypothesis `'$' ∉ t` of `front_id` is needed

  `NoMarkup` alone does not keep the expression table empty: `$b` is a reference, the lexer files it in `exprs`,
  and `parseBlock` does not return that table.  (`front_gen` is the statement without the hypothesis.) -/
theorem front_id_needs_no_dollar :
    ¬ ∀ (t : Str), NoMarkup t → parseNative true [] none t = (parseBlock none t).map (fun r =>
      ({ ({ data := r.1 } : SD).clean with data := dropDocKeys (({ data := r.1 } : SD).clean).data }, r.2)) := by
  intro h
  have hm : NoMarkup "$b".toList := ⟨by decide, by decide, by decide⟩
  have hx : parseBlockX none "$b".toList =
      .ok ([], [(0, { expression := "$b".toList, name := "EXPRESSION000000".toList })], some 0) := by
    apply ok_of_toOption
    decide +kernel
  have h := h _ hm
  rw [front_gen true [] none hm, parseBlock_eq_X, hx] at h
  simp only [Except.map, Except.ok.injEq, Prod.mk.injEq] at h
  have := congrArg SD.exprs h.1
  revert this
  decide


end DictIO.C02
