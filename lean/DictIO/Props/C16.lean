/-
  C16 -- Append mode never loses what is already in the file; overwrite mode replaces it.
  Model: `writeStep` (Model/Writer.lean): `_retype_values` (`normEs`), the append-merge `SDict.merge`, ordering,
  serialisation (`fmtPlain` for a plain dict, `fmtSD` for the `SDict` read back from the existing file).

    (a) `C16_new_file`      writing to a non-existent file writes exactly the new dict, whatever the mode
    (b) `C16_overwrite`     every mode other than `a` ignores the old content; `invalid_mode_is_w`
    (c) `C16_append_data`   append = read existing, merge the new dict into it, serialise; with the C07 merge theorems:
        `C16_append_keeps` / `_adds` / `_recurses`            about the merged data before `_clean` (no hypothesis on
                                                              placeholders), and
        `C16_append_keeps'` / `_adds'` / `_recurses'`         about `(sd.merge (.plain (normEs d))).data` when neither side
                                                              has a placeholder key (`_clean` is then the identity,
                                                              `C07.clean_id`)
        `C16_append_after_write`                              the existing file is one the library wrote (C01 route 2)
    (d) `C16_fold_statement` (kept as a statement), `C16_fold_partial` (sequences without append onto an existing file)
-/
import DictIO.Props.C01

namespace DictIO.C16
open DictIO

/-- the dict the writer serialises when nothing is merged: re-typed, ordered if asked -/
def newDict (order : Bool) (d : Entries) : Entries := if order then orderD (normEs d) else normEs d

/-! ## (a), (b) new file, overwrite, unrecognised mode -/

/-- **(a)** writing to a non-existent file writes exactly the new dict, whatever the mode (also `a`) -/
theorem C16_new_file (ev : Str → EvalResult) (fl : Flavor) (target : Comps) (mode : Str) (order : Bool) (d : Entries)
    (c : Counter) :
    writeStep ev fl target none mode order d c =
      .ok (fmtPlain fl (if order then orderD (normEs d) else normEs d), c) := rfl

/-- **(b)** overwrite mode — and every mode that is not `a` — ignores the old content: the file contains exactly the
    new dict; the existing file is not even read (the counter is untouched) -/
theorem C16_overwrite (ev : Str → EvalResult) (fl : Flavor) (target : Comps) (old : Str) (mode : Str) (order : Bool)
    (d : Entries) (c : Counter) (h : mode ≠ ['a']) :
    writeStep ev fl target (some old) mode order d c =
      .ok (fmtPlain fl (if order then orderD (normEs d) else normEs d), c) := by
  have : (mode == ['a']) = false := by simpa using h
  simp only [writeStep, this]
  rfl

/-- overwriting an existing file and writing a new file give the same text -/
theorem C16_overwrite_eq_new (ev : Str → EvalResult) (fl : Flavor) (target : Comps) (old : Str) (mode : Str)
    (order : Bool) (d : Entries) (c : Counter) (h : mode ≠ ['a']) :
    writeStep ev fl target (some old) mode order d c = writeStep ev fl target none mode order d c := by
  rw [C16_overwrite ev fl target old mode order d c h, C16_new_file]

/-- an unrecognised mode behaves as overwrite: for every state of the target, any mode other than `a` gives the
    result of mode `w` -/
theorem invalid_mode_is_w (ev : Str → EvalResult) (fl : Flavor) (target : Comps) (existing : Option Str) (mode : Str)
    (order : Bool) (d : Entries) (c : Counter) (h : mode ≠ ['a']) :
    writeStep ev fl target existing mode order d c = writeStep ev fl target existing ['w'] order d c := by
  cases existing with
  | none => rfl
  | some old => rw [C16_overwrite ev fl target old mode order d c h, C16_overwrite ev fl target old ['w'] order d c (by decide)]

/-- e.g. mode `x` -/
theorem invalid_mode_x (ev : Str → EvalResult) (fl : Flavor) (target : Comps) (existing : Option Str) (order : Bool)
    (d : Entries) (c : Counter) :
    writeStep ev fl target existing ['x'] order d c = writeStep ev fl target existing ['w'] order d c :=
  invalid_mode_is_w ev fl target existing ['x'] order d c (by decide)

/-! ## (c) append -/

/-- **(c)** append onto an existing file: the file is read (with the writer's `order` option), the re-typed new dict
    is merged into what was read, the result is ordered if asked and serialised as an `SDict` (`fmtSD`: header,
    comments and includes re-inserted).  `none` from `fmtSD` = an include name the `re.sub` template chokes on. -/
theorem C16_append_data (ev : Str → EvalResult) (fl : Flavor) (target : Comps) (old : Str) (order : Bool) (d : Entries)
    (c c' : Counter) (sd : SD)
    (hr : readFile ev [(target, .native old)] { order := order } c target = .ok (.ok sd c')) :
    writeStep ev fl target (some old) ['a'] order d c =
      match fmtSD fl (if order then (sd.merge (.plain (normEs d))).order else sd.merge (.plain (normEs d))) with
      | some t => .ok (t, c')
      | none => .error .unsupported := by
  simp only [writeStep, hr]
  rfl

/-- … and when the serialisation succeeds the text is exactly that `fmtSD` -/
theorem C16_append_text (ev : Str → EvalResult) (fl : Flavor) (target : Comps) (old : Str) (order : Bool) (d : Entries)
    (c c' : Counter) (sd : SD) (t : Str)
    (hr : readFile ev [(target, .native old)] { order := order } c target = .ok (.ok sd c'))
    (hf : fmtSD fl (if order then (sd.merge (.plain (normEs d))).order else sd.merge (.plain (normEs d))) = some t) :
    writeStep ev fl target (some old) ['a'] order d c = .ok (t, c') := by
  rw [C16_append_data ev fl target old order d c c' sd hr, hf]

/-- if the existing file cannot be read, the append fails and nothing is written -/
theorem C16_append_read_error (ev : Str → EvalResult) (fl : Flavor) (target : Comps) (old : Str) (order : Bool)
    (d : Entries) (c : Counter) (e : ParseErr)
    (hr : readFile ev [(target, .native old)] { order := order } c target = .error e) :
    writeStep ev fl target (some old) ['a'] order d c = .error e := by
  simp only [writeStep, hr]
  rfl

/-! #### what the merge does to the data, before `_clean`

  `SD.merge` is `_recursive_merge` on the data (`mergeD true sd.exprs`) followed by `_clean`.  The three statements
  below are about the merged data `mergeD true sd.exprs sd.data (normEs d)` and need no hypothesis on placeholder
  keys. `_clean` afterwards only deletes placeholder entries whose comment / include text is a duplicate
  (`cleanLevel`); under `NoPhEs` it is the identity, which gives the primed versions. -/

/-- **keeps**: every key path of the existing data that leads to a non-dict value keeps that value.  The only
    exception `_recursive_merge` makes is a top-level entry whose value refers to its own key (`$key`, or a comment
    placeholder): carried as hypothesis for paths of length one. -/
theorem C16_append_keeps (sd : SD) (d : Entries) (p : List Key) (v : Val) (hv : v.isDict = false)
    (hget : C07.getD sd.data p = some v) (hs : ∀ k, p = [k] → selfRef sd.exprs k v = false) :
    C07.getD (mergeD true sd.exprs sd.data (normEs d)) p = some v :=
  C07.merge_keeps_deep sd.exprs v hv p true sd.data (normEs d) hget fun k hk hc => by
    rw [hs k hk] at hc; exact absurd hc.2 (by decide)

/-- **adds**: every top-level key of the new dict that the file does not have is added with the new (re-typed) value -/
theorem C16_append_adds (sd : SD) (d : Entries) (hd : (keys d).Nodup) (k : Key) (h : lookup k sd.data = none) :
    lookup k (mergeD true sd.exprs sd.data (normEs d)) = lookup k (normEs d) :=
  C07.merge_adds true sd.exprs sd.data (normEs d) (by rw [C01.keys_normEs]; exact hd) k h

/-- **recurses**: key by key — a dict on both sides is merged recursively (existing wins inside, too), an existing
    value stays (unless it is a self-reference placeholder), a new key gets the new value -/
theorem C16_append_recurses (sd : SD) (d : Entries) (hd : (keys d).Nodup) (k : Key) :
    lookup k (mergeD true sd.exprs sd.data (normEs d)) =
      match lookup k sd.data, lookup k (normEs d) with
      | some (.dict ad), some (.dict bd) => some (.dict (mergeD false sd.exprs ad bd))
      | some av, some bv => if true && selfRef sd.exprs k av then some bv else some av
      | some av, none => some av
      | none, bv => bv :=
  C07.merge_lookup true sd.exprs sd.data (normEs d) (by rw [C01.keys_normEs]; exact hd) k

/-- the order of the keys: the keys of the file stay where they are, the new keys follow in the order of the new dict -/
theorem C16_append_key_order (sd : SD) (d : Entries) (hd : (keys d).Nodup) :
    keys (mergeD true sd.exprs sd.data (normEs d)) = keys sd.data ++ (keys d).filter (fun k => !hasKey k sd.data) := by
  rw [C07.merge_keys true sd.exprs (normEs d) sd.data (by rw [C01.keys_normEs]; exact hd), C01.keys_normEs]

/-! #### the same about `(sd.merge (.plain (normEs d))).data`, when there is no placeholder key -/

/-- without placeholder keys on either side (and unique keys at every level, which every Python value has) `_clean`
    does nothing: the merged `SDict` is the old one with the merged data, tables untouched -/
theorem append_merge_eq (sd : SD) (d : Entries)
    (hn : NodupKeysV (.dict sd.data)) (hp : C07.NoPhEs sd.data)
    (hdn : NodupKeysEs (normEs d)) (hdp : C07.NoPhEs (normEs d)) :
    sd.merge (.plain (normEs d)) = { sd with data := mergeD true sd.exprs sd.data (normEs d) } :=
  C07.merge_tables_plain sd (normEs d) (C07.nodupV_mergeD sd.exprs true sd.data (normEs d) hn hdn)
    (C07.noPhEs_mergeD sd.exprs true sd.data (normEs d) hp hdp)

theorem append_merge_data (sd : SD) (d : Entries)
    (hn : NodupKeysV (.dict sd.data)) (hp : C07.NoPhEs sd.data)
    (hdn : NodupKeysEs (normEs d)) (hdp : C07.NoPhEs (normEs d)) :
    (sd.merge (.plain (normEs d))).data = mergeD true sd.exprs sd.data (normEs d) := by
  rw [append_merge_eq sd d hn hp hdn hdp]

theorem C16_append_keeps' (sd : SD) (d : Entries)
    (hn : NodupKeysV (.dict sd.data)) (hp : C07.NoPhEs sd.data)
    (hdn : NodupKeysEs (normEs d)) (hdp : C07.NoPhEs (normEs d))
    (p : List Key) (v : Val) (hv : v.isDict = false)
    (hget : C07.getD sd.data p = some v) (hs : ∀ k, p = [k] → selfRef sd.exprs k v = false) :
    C07.getD (sd.merge (.plain (normEs d))).data p = some v := by
  rw [append_merge_data sd d hn hp hdn hdp]; exact C16_append_keeps sd d p v hv hget hs

theorem C16_append_adds' (sd : SD) (d : Entries)
    (hn : NodupKeysV (.dict sd.data)) (hp : C07.NoPhEs sd.data)
    (hdn : NodupKeysEs (normEs d)) (hdp : C07.NoPhEs (normEs d))
    (hd : (keys d).Nodup) (k : Key) (h : lookup k sd.data = none) :
    lookup k (sd.merge (.plain (normEs d))).data = lookup k (normEs d) := by
  rw [append_merge_data sd d hn hp hdn hdp]; exact C16_append_adds sd d hd k h

theorem C16_append_recurses' (sd : SD) (d : Entries)
    (hn : NodupKeysV (.dict sd.data)) (hp : C07.NoPhEs sd.data)
    (hdn : NodupKeysEs (normEs d)) (hdp : C07.NoPhEs (normEs d))
    (hd : (keys d).Nodup) (k : Key) :
    lookup k (sd.merge (.plain (normEs d))).data =
      match lookup k sd.data, lookup k (normEs d) with
      | some (.dict ad), some (.dict bd) => some (.dict (mergeD false sd.exprs ad bd))
      | some av, some bv => if true && selfRef sd.exprs k av then some bv else some av
      | some av, none => some av
      | none, bv => bv := by
  rw [append_merge_data sd d hn hp hdn hdp]; exact C16_append_recurses sd d hd k

/-! #### append onto a file the library wrote (C01 route 2) -/

/-- the existing file holds the writer's text of a normalised dict `e` of the value domain; appending `d` (its normal
    form in the value domain) writes `fmtSD` of the `SDict` whose data is `e` merged with `normEs d`, all tables empty.
    Path and counter hypotheses as in `C01.C01_roundtrip_file`. -/
theorem C16_append_after_write {e d : Entries} {c : Counter} (ev : Str → EvalResult) (fl : Flavor) (target : Comps)
    (hdom : DomC01 .native e = true) (hnorm : normEs e = e) (hdoc : C01.DocKeysAbsent' e)
    (hcnt : C02.countQuotedEs (srcOfEs .native e) ≤ Gen.counterLimit + 1) (hc : C13.ValidCounter Gen.counterLimit c)
    (hj : isJsonPath target = false) (hx : isXmlPath target = false) (hr : resolveSpelled target = target)
    (hd : DomC01 .native (normEs d) = true) :
    ∃ c', writeStep ev fl target (some (fmtPlain .native e)) ['a'] false d c =
      match fmtSD fl { data := mergeD true [] e (normEs d) } with
      | some t => .ok (t, c')
      | none => .error .unsupported := by
  obtain ⟨c', hread⟩ := C01.read_written (c := c) ev target hdom hnorm hdoc hcnt hc hj hx hr
  refine ⟨c', ?_⟩
  have he := C01.norm_invariants hdom
  rw [hnorm] at he
  have hdi := C01.norm_invariants hd
  rw [C01.normEs_idem] at hdi
  rw [C16_append_data ev fl target _ false d c c' { data := e } hread]
  simp only [Bool.false_eq_true, if_false]
  rw [append_merge_eq { data := e } d he.2 he.1 hdi.2.2 hdi.1]

/-! ## (d) sequences of writes -/

/-- a sequence of writes `(mode, dict)` to one target, starting from content `cur` (`none` = no file) -/
def runWrites (ev : Str → EvalResult) (fl : Flavor) (target : Comps) (order : Bool) :
    Option Str → Counter → List (Str × Entries) → Except ParseErr (Option Str × Counter)
  | cur, c, [] => .ok (cur, c)
  | cur, c, (m, d) :: ws =>
    match writeStep ev fl target cur m order d c with
    | .error e => .error e
    | .ok (t, c') => runWrites ev fl target order (some t) c' ws

/-- the specification: the dict the file should hold after the sequence — append onto an existing file merges
    (existing wins, nested dicts recursively), everything else replaces -/
def specFold : Option Entries → List (Str × Entries) → Option Entries
  | cur, [] => cur
  | none, (_, d) :: ws => specFold (some (normEs d)) ws
  | some old, (m, d) :: ws =>
    specFold (some (if m == ['a'] then mergeD false [] old (normEs d) else normEs d)) ws

/-- the dicts the file should hold after every prefix of the sequence -/
def specStates : Option Entries → List (Str × Entries) → List Entries
  | _, [] => []
  | none, (_, d) :: ws => normEs d :: specStates (some (normEs d)) ws
  | some old, (m, d) :: ws =>
    let new := if m == ['a'] then mergeD false [] old (normEs d) else normEs d
    new :: specStates (some new) ws

/-- **C16, full statement** (kept visible; NOT proved here).  After any non-empty sequence of writes with arbitrary
    modes to a fresh target, all written dicts and all intermediate results in the value domain, the sequence succeeds
    and reading the file back returns the fold of the specification, up to the placeholder entry of the header the
    append route writes (`fmtSD` puts the default block comment in front).

    What is missing for a proof: an append re-reads a file that `fmtSD` wrote, i.e. a text with a header block
    comment; reading that goes through the comment stage of `parseNative`, outside the proved fragment (as for C01
    route 3).  Decided by the correspondence check (harness C16: random write sequences against this fold). -/
def C16_fold_statement : Prop :=
  ∀ (ev : Str → EvalResult) (target : Comps) (ws : List (Str × Entries)) (c : Counter),
    ws ≠ [] →
    (∀ e ∈ specStates none ws, DomC01 .native e = true ∧ C01.DocKeysAbsent' e ∧
      C02.countQuotedEs (srcOfEs .native e) ≤ Gen.counterLimit + 1) →
    (∀ w ∈ ws, DomC01 .native (normEs w.2) = true) →
    C13.ValidCounter Gen.counterLimit c →
    isJsonPath target = false → isXmlPath target = false → resolveSpelled target = target →
    ∃ t c₁ sd c₂ D, runWrites ev .native target false none c ws = .ok (some t, c₁) ∧
      readFile ev [(target, .native t)] {} c₁ target = .ok (.ok sd c₂) ∧
      specFold none ws = some D ∧ C01.dropPhEntries sd.data = D

/-- the last dict written, re-typed (`e` if nothing is written) -/
def lastD (e : Entries) (ws : List (Str × Entries)) : Entries := ws.foldl (fun _ w => normEs w.2) e

/-- the last dict written is re-typed -/
theorem lastD_norm : ∀ (ws : List (Str × Entries)) (e : Entries), normEs e = e → normEs (lastD e ws) = lastD e ws
  | [], _, h => h
  | w :: ws, _, _ => lastD_norm ws (normEs w.2) (C01.normEs_idem w.2)

/-- a run of non-append writes onto an existing file: the file holds the last dict, the counter is untouched, and so
    says the specification -/
theorem run_overwrites (ev : Str → EvalResult) (fl : Flavor) (target : Comps) (c : Counter) :
    ∀ (ws : List (Str × Entries)) (t : Str) (e : Entries), (∀ w ∈ ws, w.1 ≠ ['a']) →
      (∃ t', runWrites ev fl target false (some t) c ws = .ok (some t', c) ∧
        (t = fmtPlain fl e → t' = fmtPlain fl (lastD e ws))) ∧
      specFold (some e) ws = some (lastD e ws)
  | [], t, e, _ => ⟨⟨t, rfl, fun h => h⟩, rfl⟩
  | (m, d) :: ws, t, e, h => by
    have hm : m ≠ ['a'] := h (m, d) List.mem_cons_self
    have hm' : (m == ['a']) = false := by simpa using hm
    obtain ⟨⟨t', hrun, ht'⟩, hspec⟩ := run_overwrites ev fl target c ws (fmtPlain fl (normEs d)) (normEs d)
      fun w hw => h w (List.mem_cons_of_mem _ hw)
    refine ⟨⟨t', ?_, fun _ => ?_⟩, ?_⟩
    · simp only [runWrites, C16_overwrite ev fl target t m false d c hm]
      exact hrun
    · simpa [lastD] using ht' rfl
    · simp only [specFold, hm']
      simpa [lastD] using hspec

/-- **C16 for sequences without append onto an existing file** (the first write may have any mode — the target does
    not exist yet —, all later writes have a mode other than `a`): the sequence succeeds, the file holds the plain
    text of the last dict written, which is what the specification fold says, and reading it back returns exactly
    that dict.  Uses C01 route 2; hypotheses on the last dict, the path and the counter as there. -/
theorem C16_fold_partial (ev : Str → EvalResult) (target : Comps) (m : Str) (d : Entries) (ws : List (Str × Entries))
    (c : Counter) (hws : ∀ w ∈ ws, w.1 ≠ ['a']) :
    let D := lastD (normEs d) ws
    DomC01 .native D = true → C01.DocKeysAbsent' D →
    C02.countQuotedEs (srcOfEs .native D) ≤ Gen.counterLimit + 1 → C13.ValidCounter Gen.counterLimit c →
    isJsonPath target = false → isXmlPath target = false → resolveSpelled target = target →
    specFold none ((m, d) :: ws) = some D ∧
    runWrites ev .native target false none c ((m, d) :: ws) = .ok (some (fmtPlain .native D), c) ∧
    ∃ c', readFile ev [(target, .native (fmtPlain .native D))] {} c target = .ok (.ok { data := D } c') := by
  intro D hdom hdoc hcnt hc hj hx hr
  obtain ⟨⟨t', hrun, ht'⟩, hspec⟩ := run_overwrites ev .native target c ws (fmtPlain .native (normEs d)) (normEs d) hws
  have hnormD : normEs D = D := lastD_norm ws (normEs d) (C01.normEs_idem d)
  refine ⟨hspec, ?_, C01.read_written ev target hdom hnormD hdoc hcnt hc hj hx hr⟩
  show runWrites ev .native target false none c ((m, d) :: ws) = _
  simp only [runWrites, C16_new_file]
  rw [← ht' rfl]; exact hrun

/-! ## non-vacuity -/

/-- append `{b: 2, a: 9}` onto a file that holds `{a: 1}`: `a` keeps `1`, `b` is added -/
theorem ex_append :
    mergeD true [] [(.str ['a'], .leaf (.int 1))] (normEs [(.str ['b'], .leaf (.str ['2'])), (.str ['a'], .leaf (.int 9))]) =
      [(.str ['a'], .leaf (.int 1)), (.str ['b'], .leaf (.int 2))] := by decide +kernel

end DictIO.C16
