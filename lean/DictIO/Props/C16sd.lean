/-
  C16 / C07 on the API model (`Model/Api.lean`), for writes whose SOURCE is an `SDict` with its own comment tables, and
  the bridge from `writeText` / `apiRun` to the function the proved C16 theorems speak about (`writeStep`).

  What is proved (plain words)

  1. The API model's write of a builtin dict IS `writeStep`:
       `writeText_plain_new`              target missing (any file system);
       `writeText_plain_eq_writeStep`     one-file file system, the existing file may contain anything;
       `writeText_plain_eq_writeStep_fs`  any file system, if the existing file has no include directive (`NoIncl`;
                                          `readFile_local`: the reader then looks at that one file only).
     Without `NoIncl` the two differ by construction — `writeStep` reads the target in a one-file world —:
     `readFile_local_needs_noincl` (witness).
     Hence **`C16_fold_api`**: any non-empty history of `DictWriter.write(d, target, mode)` calls (builtin dicts, modes
     arbitrary) on one native target that does not exist at the start, in a world with arbitrary other files: every call
     completes, the target holds the text of `runWrites`, no other file changes, and `DictReader.read(target)` returns
     `specFold none ws` (up to the header placeholder entry).  Hypotheses: those of `C16_fold_statement`.

  2. **`C16_append_sd_keeps`** — append of an `SDict` source `s` onto an existing file read as `sd`: the text is `fmtSD` of
     `appendSD sd s = sd.merge(retyped s)` (ordered if asked), and in that `SDict`
       * every path of ordinary keys to a non-dict value of the file's data leads to the same value (`merge_sd_keeps`:
         `C07.merge_keeps_deep` carried through `_clean`);
       * an ordinary top-level key the file lacks gets the source's value, dicts on both sides are merged recursively
         (`merge_sd_adds`, `merge_sd_recurses`; dict values up to comment entries `_clean` may delete inside them);
       * the expression table is `Tbl.merge file source`; the line-comment, block-comment and include tables are
         sub-tables (`List.Sublist`) of `Tbl.merge file source` (`merge_sd_tables_sub`, unconditional).
     **`C16_append_sd_exact`** / `merge_sd_tables`: when no dict level of the merged data holds two comment entries of a
     kind with the same text and no include entry (`C12W.levelFix` / `subsFix`, decidable), `_clean` is the identity:
     the data is exactly the merged data and each of the four tables is exactly `Tbl.merge file source` — the tables
     follow the merge rule of the data (existing ids win; `C16_append_sd_comment_ids`).
     Before `_clean` this holds always: `preMerge_tables`.
     The requested statement "the tables of the result are `Tbl.merge`" is FALSE without that hypothesis:
     `merge_sd_tables_statement_false` (file and source both carry a block comment `/*h*/` at the top level under ids 0
     and 1: `_clean` deletes the second, `dup_merge`).

  3. **`C16_overwrite_sd`** — mode other than `a`, or target missing: the text is `fmtSD` of the re-typed source (ordered
     if asked), the counter is untouched; `C16_overwrite_sd_indep`: the same text in every file system, for every
     evaluator and counter.  `C16_overwrite_sd_plain`: a table-less source gives header + plain text.

  4. **`C16_dump_then_read`** — `apiRun [dump {data := d} target, read target]` where `target` does not exist (other files
     arbitrary): both calls complete; the file holds header + plain text of `normEs d`; the read returns
     `C12.hdrSD (normEs d)` (the data `normEs d` behind the header placeholder entry).  Hypotheses of `C01_roundtrip_dump`.

  Assumed: keys unique at every dict level (`NodupKeysV`, true of every Python value) for the statements through
  `_clean`; `flavorOfPath target = some .native` and `resolveSpelled target = target` for the API histories.
  Not covered: the meaning of the text written for an `SDict` source with comments when it is read back (that is
  `C12W.C12_write_commented`); `order = True` histories (`C16ext`); Foam targets in the histories; JSON / XML targets.

  Non-vacuity: `exW`, `exSrc` (one line comment id 0, one block comment id 1) appended onto a file with its own line
  comment: `ex_read`, `ex_append_tables` (tables and data evaluated by the kernel), `ex_append_text`, `ex_append_keeps`,
  `ex_fix`, `ex_exact`; `ex_collision` (colliding ids: the source's comment is dropped); `ex_overwrite`;
  `ex_fold_api`; `ex_dump_read`.
-/
import DictIO.Props.C16fold
import DictIO.Props.C13api
import DictIO.Props.C12write
import DictIO.Props.C12off
import DictIO.Props.C06fold

namespace DictIO
namespace C16sd
open DictIO DictIO.C16

attribute [local irreducible] nativeHeader
set_option linter.unusedSimpArgs false
set_option linter.unusedVariables false

/-! # helper lemmas -/

/-! ## the reader looks only at the file it is given, when that file has no include directive -/

theorem tbl_merge_nil {α} (t : Tbl α) : Tbl.merge t [] = t := rfl

/-- `_merge_includes` on a dict without include entries does not look at the file system -/
theorem mergeIncludes_noincl (fs fs' : FS) (comments : Bool) (sd : SD) (dir : Comps) (c : Counter) (hi : sd.incl = []) :
    mergeIncludes fs comments sd dir c = mergeIncludes fs' comments sd dir c := by
  have hrec : ∀ n, mergeIncludesRec fs comments (n + 1) [] sd dir c = mergeIncludesRec fs' comments (n + 1) [] sd dir c := by
    intro n
    simp only [mergeIncludesRec, hi, List.foldlM_nil, bind, Except.bind, pure, Except.pure]
  have h1 := hrec fs.length
  have h2 : mergeIncludesRec fs' comments (fs.length + 1) [] sd dir c =
      mergeIncludesRec fs' comments (fs'.length + 1) [] sd dir c := by
    simp only [mergeIncludesRec, hi, List.foldlM_nil, bind, Except.bind, pure, Except.pure]
  simp only [mergeIncludes, h1, h2]

/-- the text `old` has no include directive (as the reader sees it, counter `c`, comments `cm`) -/
def NoIncl (cm : Bool) (dir : Str) (c : Counter) (old : Str) : Prop :=
  ∀ sd c', parseNative cm dir c old = .ok (sd, c') → sd.incl = []

/-- **locality of `DictReader.read`.**  Reading `p` in any file system in which `p` holds the native text `old`, a text
    without include directive, gives what reading `p` in the one-file file system gives. -/
theorem readFile_local (ev : Str → EvalResult) (fs : FS) (o : ReadOpts) (c : Counter) (p : Comps) (old : Str)
    (hr : resolveSpelled p = p) (hget : fs.get p = some (.native old))
    (hni : NoIncl o.comments (pathStr p.dropLast) c old) :
    readFile ev fs o c p = readFile ev [(p, .native old)] o c p := by
  have hpf : parseFile fs o.comments c p = parseFile [(p, .native old)] o.comments c p := by
    simp only [parseFile, hr, hget, C01.fs_get_single]
  simp only [readFile, hpf]
  cases hp : parseFile [(p, .native old)] o.comments c p with
  | error e => rfl
  | ok r =>
    obtain ⟨sd, c'⟩ := r
    have hi : sd.incl = [] := by
      simp only [parseFile, hr, C01.fs_get_single] at hp
      split at hp
      · cases hp
      · split at hp
        · cases hp
        · split at hp
          · cases hp
          · next sd0 c0 hpn =>
            cases hp
            simp [hni sd0 _ hpn]
    simp only [bind, Except.bind]
    cases ho : o.includes with
    | false => rfl
    | true =>
      simp only [if_true]
      rw [mergeIncludes_noincl fs [(p, .native old)] o.comments sd p.dropLast c' hi]

/-! ## `writeText` on a builtin-dict source is `writeStep` -/

theorem flavor_native_paths {target : Comps} {fl : Flavor} (h : flavorOfPath target = some fl) :
    isJsonPath target = false ∧ isXmlPath target = false := by
  unfold flavorOfPath at h
  cases hj : isJsonPath target <;> cases hx : isXmlPath target <;> simp [hj, hx] at h ⊢

/-- `writeText` when the target does not exist: the plain text of the re-typed dict (whatever else `fs` holds) -/
theorem writeText_plain_new (ev : Str → EvalResult) (fs : FS) (target : Comps) (fl : Flavor) (mode : Str) (order : Bool)
    (d : Entries) (c : Counter) (hfl : flavorOfPath target = some fl) (hget : fs.get (resolveSpelled target) = none) :
    writeText ev fs target mode order (.plain d) c = writeStep ev fl target none mode order d c := by
  simp only [writeText, hfl, hget, writeStep, Arg.retype]
  cases order <;> rfl

/-- **the API model's write is `writeStep`** (one-file file system; the existing file may contain anything, include
    directives too: both sides resolve them against the same file system) -/
theorem writeText_plain_eq_writeStep (ev : Str → EvalResult) (target : Comps) (fl : Flavor) (old : Str) (mode : Str)
    (order : Bool) (d : Entries) (c : Counter) (hfl : flavorOfPath target = some fl) (hr : resolveSpelled target = target) :
    writeText ev [(target, .native old)] target mode order (.plain d) c =
      writeStep ev fl target (some old) mode order d c := by
  simp only [writeText, hfl, hr, C01.fs_get_single, writeStep, Arg.retype]
  cases hm : mode == ['a'] with
  | false => cases order <;> rfl
  | true =>
    simp only [if_true]
    cases readFile ev [(target, .native old)] { order := order } c target with
    | error e => rfl
    | ok r => cases r <;> rfl

/-- … and in any file system, when the existing file has no include directive -/
theorem writeText_plain_eq_writeStep_fs (ev : Str → EvalResult) (fs : FS) (target : Comps) (fl : Flavor) (old : Str)
    (mode : Str) (order : Bool) (d : Entries) (c : Counter) (hfl : flavorOfPath target = some fl)
    (hr : resolveSpelled target = target) (hget : fs.get target = some (.native old))
    (hni : mode = ['a'] → NoIncl true (pathStr target.dropLast) c old) :
    writeText ev fs target mode order (.plain d) c = writeStep ev fl target (some old) mode order d c := by
  rw [← writeText_plain_eq_writeStep ev target fl old mode order d c hfl hr]
  simp only [writeText, hfl, hr, hget, C01.fs_get_single]
  cases hm : mode == ['a'] with
  | false => rfl
  | true =>
    have hm' : mode = ['a'] := by simpa using hm
    simp only [if_true]
    rw [readFile_local ev fs { order := order } c target old hr hget (hni hm')]

/-! ## histories of plain writes to one target -/

/-- a file the library wrote for a good dict has no include directive -/
theorem file_noincl {e : Entries} {t : Str} {c : Counter} (dir : Str) (h : Good e) (hf : FileOf e t)
    (hc : C13.ValidCounter Gen.counterLimit c) : NoIncl true dir c t := by
  intro sd c' hp
  rcases hf with rfl | rfl
  · obtain ⟨c₁, _, hp₁⟩ := C03.read_written_text (c := c) true dir h.dom h.doc h.cnt hc
    rw [hp₁] at hp
    cases hp; rfl
  · obtain ⟨c₁, _, hp₁⟩ := C12.read_dumped (c := c) dir h.dom h.norm h.doc h.cnt hc
    rw [hp₁] at hp
    cases hp; rfl

/-- the API calls of a write sequence `(mode, dict)` to one target (`order = False`) -/
def plainOps (target : Comps) (ws : List (Str × Entries)) : List ApiOp :=
  ws.map fun w => .write (.plain w.2) target w.1 false

theorem plainOps_cons (target : Comps) (w : Str × Entries) (ws : List (Str × Entries)) :
    plainOps target (w :: ws) = .write (.plain w.2) target w.1 false :: plainOps target ws := rfl

/-- reading the target through the API, in any file system -/
theorem api_read_any {e : Entries} {t : Str} (ev : Str → EvalResult) {target : Comps} (P : PathOK target) (w : World)
    (h : Good e) (hf : FileOf e t) (hget : w.fs.get target = some (.native t))
    (hc : C13.ValidCounter Gen.counterLimit w.c) :
    ∃ sd c', C13.ValidCounter Gen.counterLimit c' ∧ apiStep ev w (.read target {}) = ({ w with c := c' }, .data sd) ∧
      (sd = { data := e } ∨ sd = C12.hdrSD e) := by
  obtain ⟨sd, c', hv, hr, hsd⟩ := read_any ev P h hf hc
  refine ⟨sd, c', hv, ?_, hsd⟩
  have hl := readFile_local ev w.fs {} w.c target t P.hr hget (file_noincl _ h hf hc)
  simp only [apiStep, P.hr, hget, hl, hr]

/-- a history of plain writes onto an existing target that holds `e`, in any world: every call completes, the world
    follows `runWrites`, no other file changes -/
theorem run_api (ev : Str → EvalResult) {target : Comps} (P : PathOK target) (hfl : flavorOfPath target = some .native) :
    ∀ (ws : List (Str × Entries)) (e : Entries) (t : Str) (w : World), Good e → FileOf e t →
      w.fs.get target = some (.native t) →
      C13.ValidCounter Gen.counterLimit w.c → (∀ s ∈ specStates (some e) ws, StateOK s) →
      (∀ x ∈ ws, DomC01 .native (normEs x.2) = true) →
      ∃ t' c' D, C13.ValidCounter Gen.counterLimit c' ∧
        runWrites ev .native target false (some t) w.c ws = .ok (some t', c') ∧
        specFold (some e) ws = some D ∧ Good D ∧ FileOf D t' ∧
        (apiRun ev w (plainOps target ws)).2 = ws.map (fun _ => ApiOut.done) ∧
        (apiRun ev w (plainOps target ws)).1.fs.get target = some (.native t') ∧
        (apiRun ev w (plainOps target ws)).1.c = c' ∧
        ∀ q, q ≠ target → (apiRun ev w (plainOps target ws)).1.fs.get q = w.fs.get q
  | [], e, t, w, he, hf, hget, hc, _, _ => ⟨t, w.c, e, hc, rfl, rfl, he, hf, rfl, hget, rfl, fun _ _ => rfl⟩
  | (m, d) :: ws, e, t, w, he, hf, hget, hc, hs, hw => by
    rw [specStates_cons] at hs
    have hnext : Good (nextState e m d) :=
      good_of _ (hs _ List.mem_cons_self) (nextState_norm he.norm m d)
    obtain ⟨t1, c1, hv1, hw1, hf1⟩ := write_any ev P m he hf hc (hw (m, d) List.mem_cons_self) hnext.dom
    have hwt : writeText ev w.fs target m false (.plain d) w.c = .ok (t1, c1) := by
      rw [writeText_plain_eq_writeStep_fs ev w.fs target .native t m false d w.c hfl P.hr hget
        (fun _ => file_noincl _ he hf hc)]
      exact hw1
    have hstep : apiStep ev w (.write (.plain d) target m false) =
        ({ fs := w.fs.set target (.native t1), c := c1 }, .done) := by
      have := C13api.writeTo_ok hwt
      rw [P.hr] at this
      exact this
    obtain ⟨t', c', D, hv, hrun, hspec, hD, hfD, ho, hg, hcc, hfr⟩ :=
      run_api ev P hfl ws _ t1 { fs := w.fs.set target (.native t1), c := c1 } hnext hf1
        (C13api.get_set_self _ _ _) hv1
        (fun s hs' => hs s (List.mem_cons_of_mem _ hs')) (fun x hx => hw x (List.mem_cons_of_mem _ hx))
    refine ⟨t', c', D, hv, ?_, ?_, hD, hfD, ?_, ?_, ?_, ?_⟩
    · simp only [runWrites, hw1]; exact hrun
    · rw [specFold_cons]; exact hspec
    · rw [plainOps_cons, C13api.apiRun_cons, hstep]
      simp only [List.map_cons, ho]
    · rw [plainOps_cons, C13api.apiRun_cons, hstep]; exact hg
    · rw [plainOps_cons, C13api.apiRun_cons, hstep]; exact hcc
    · intro q hq
      rw [plainOps_cons, C13api.apiRun_cons, hstep]
      simp only
      rw [hfr q hq]
      exact C13api.get_set_ne _ _ hq

/-! ## key paths and `_clean` -/

/-- following a path of ordinary keys commutes with dropping the placeholder entries -/
theorem getV_strip : ∀ (p : List Key) (v : Val), (∀ k ∈ p, C07.isPhKey k = false) →
    C07.getV (C06fold.stripV v) p = (C07.getV v p).map C06fold.stripV
  | [], v, _ => by simp [C07.getV]
  | k :: p, .leaf x, _ => by simp [C06fold.stripV, C07.getV]
  | k :: p, .list xs, _ => by simp [C06fold.stripV, C07.getV]
  | k :: p, .dict es, h => by
    have hk : C07.isPhKey k = false := h k List.mem_cons_self
    rw [C06fold.stripV_dict]
    simp only [C07.getV, C06fold.lookup_stripEs hk]
    cases lookup k es with
    | none => rfl
    | some w => exact getV_strip p w fun k' hk' => h k' (List.mem_cons_of_mem _ hk')

theorem getD_strip (p : List Key) (D : Entries) (h : ∀ k ∈ p, C07.isPhKey k = false) :
    C07.getD (C06fold.stripEs D) p = (C07.getD D p).map C06fold.stripV := by
  have := getV_strip p (.dict D) h
  rwa [C06fold.stripV_dict] at this

/-- a non-dict value under a path of ordinary keys is the same in two dicts that agree up to placeholder entries -/
theorem getD_of_strip_eq {D D' : Entries} (hs : C06fold.stripEs D' = C06fold.stripEs D) (p : List Key) (v : Val)
    (hv : v.isDict = false) (hp : ∀ k ∈ p, C07.isPhKey k = false) (hget : C07.getD D p = some v) :
    C07.getD D' p = some v := by
  have h1 : C07.getD (C06fold.stripEs D) p = some v := by
    rw [getD_strip p D hp, hget]; simp [C06fold.stripV_nondict hv]
  rw [← hs, getD_strip p D' hp] at h1
  cases hg : C07.getD D' p with
  | none => rw [hg] at h1; simp at h1
  | some v' =>
    rw [hg] at h1
    simp only [Option.map_some, Option.some.injEq] at h1
    have hd : v'.isDict = false := by rw [← C06fold.stripV_isDict, h1]; exact hv
    rw [C06fold.stripV_nondict hd] at h1
    rw [h1]

/-! ## `_clean` only deletes table entries -/

theorem tbl_del_sublist {α} (i : Nat) : ∀ t : Tbl α, (Tbl.del i t).Sublist t
  | [] => List.Sublist.refl _
  | (j, b) :: t => by
    by_cases h : j = i
    · simp only [Tbl.del, h, if_true]; exact List.sublist_cons_self _ _
    · simp only [Tbl.del, h, if_false]; exact (tbl_del_sublist i t).cons_cons _

theorem cstepF_sub {α} [BEq α] (acc : Entries × Tbl α × List α) (k : Key) :
    (C12W.cstepF acc k).2.1.Sublist acc.2.1 := by
  unfold C12W.cstepF
  split
  · split
    · exact List.Sublist.refl _
    · split
      · exact List.Sublist.refl _
      · split
        · exact tbl_del_sublist _ _
        · exact List.Sublist.refl _
  · exact List.Sublist.refl _

theorem cstep_sub {α} [BEq α] (sel : Key → Bool) (lvl : Entries) (tbl : Tbl α) :
    (C12W.cstep sel lvl tbl).2.Sublist tbl := by
  unfold C12W.cstep
  suffices H : ∀ (cand : List Key) (acc : Entries × Tbl α × List α),
      (cand.foldl C12W.cstepF acc).2.1.Sublist acc.2.1 from H _ _
  intro cand
  induction cand with
  | nil => intro acc; exact List.Sublist.refl _
  | cons k cand ih => intro acc; rw [List.foldl_cons]; exact (ih _).trans (cstepF_sub acc k)

/-- the tables of `s'` are sub-tables of those of `s` (entries deleted, none added or changed); same expressions -/
def TSub (s' s : SD) : Prop :=
  s'.exprs = s.exprs ∧ s'.lineC.Sublist s.lineC ∧ s'.blockC.Sublist s.blockC ∧ s'.incl.Sublist s.incl

theorem TSub.refl (s : SD) : TSub s s := ⟨rfl, List.Sublist.refl _, List.Sublist.refl _, List.Sublist.refl _⟩

theorem TSub.trans {a b c : SD} (h1 : TSub a b) (h2 : TSub b c) : TSub a c :=
  ⟨h1.1.trans h2.1, h1.2.1.trans h2.2.1, h1.2.2.1.trans h2.2.2.1, h1.2.2.2.trans h2.2.2.2⟩

theorem cleanLevel_sub (s : SD) (lvl : Entries) : TSub (cleanLevel s lvl).1 s := by
  rw [C12W.cleanLevel_eq]
  exact ⟨rfl, cstep_sub _ _ _, cstep_sub _ _ _, cstep_sub _ _ _⟩

theorem cleanRec_sub : ∀ (fuel : Nat) (s : SD) (lvl : Entries), TSub (cleanRec fuel s lvl).1 s
  | 0, s, _ => TSub.refl s
  | fuel + 1, s, lvl => by
    rw [C06fold.cleanRec_succ]
    suffices H : ∀ (l : Entries) (acc : SD × Entries), TSub acc.1 s → TSub (l.foldl (C06fold.cleanF fuel) acc).1 s from
      H _ _ (cleanLevel_sub s lvl)
    intro l
    induction l with
    | nil => intro acc h; exact h
    | cons e l ih =>
      intro acc h
      rw [List.foldl_cons]
      apply ih
      obtain ⟨k, v⟩ := e
      cases v with
      | leaf x => exact h
      | list xs => exact h
      | dict sub => exact (cleanRec_sub fuel acc.1 sub).trans h

theorem clean_sub (s : SD) : TSub s.clean s := by
  have h := cleanRec_sub (depthV (.dict s.data) + 1) s s.data
  exact ⟨h.1, h.2.1, h.2.2.1, h.2.2.2⟩

/-! # property theorems -/

/-! ## 1. `C16_fold_full` on API histories -/

/-- **C16 for histories of `DictWriter.write(d, target, mode)` calls** (builtin-dict sources, `order = False`, one native
    target that does not exist at the start; the world may hold any other files).  Under the hypotheses of
    `C16_fold_statement`: every call completes (`.done`), the target then holds the text `runWrites` computes, no other
    file has changed, and `DictReader.read(target)` returns the specification fold `specFold none ws`, up to the header
    placeholder entry of the append route. -/
theorem C16_fold_api (ev : Str → EvalResult) (target : Comps) (ws : List (Str × Entries)) (w : World)
    (hne : ws ≠ [])
    (hs : ∀ e ∈ specStates none ws, DomC01 .native e = true ∧ C01.DocKeysAbsent' e ∧
      C02.countQuotedEs (srcOfEs .native e) ≤ Gen.counterLimit + 1)
    (hw : ∀ x ∈ ws, DomC01 .native (normEs x.2) = true)
    (hc : C13.ValidCounter Gen.counterLimit w.c)
    (hfl : flavorOfPath target = some .native) (hr : resolveSpelled target = target)
    (hnew : w.fs.get target = none) :
    ∃ t c₁ sd c₂ D,
      (apiRun ev w (plainOps target ws)).2 = ws.map (fun _ => ApiOut.done) ∧
      (apiRun ev w (plainOps target ws)).1.fs.get target = some (.native t) ∧
      (apiRun ev w (plainOps target ws)).1.c = c₁ ∧
      (∀ q, q ≠ target → (apiRun ev w (plainOps target ws)).1.fs.get q = w.fs.get q) ∧
      runWrites ev .native target false none w.c ws = .ok (some t, c₁) ∧
      apiStep ev (apiRun ev w (plainOps target ws)).1 (.read target {}) =
        ({ (apiRun ev w (plainOps target ws)).1 with c := c₂ }, .data sd) ∧
      specFold none ws = some D ∧ C01.dropPhEntries sd.data = D := by
  have P : PathOK target := ⟨(flavor_native_paths hfl).1, (flavor_native_paths hfl).2, hr⟩
  cases ws with
  | nil => exact absurd rfl hne
  | cons x ws =>
    obtain ⟨m, d⟩ := x
    have hs0 : specStates none ((m, d) :: ws) = normEs d :: specStates (some (normEs d)) ws := rfl
    rw [hs0] at hs
    have h0 : Good (normEs d) := good_of _ (hs _ List.mem_cons_self) (C01.normEs_idem d)
    -- the first call: the target does not exist
    have hwt : writeText ev w.fs target m false (.plain d) w.c = .ok (fmtPlain .native (normEs d), w.c) := by
      rw [writeText_plain_new ev w.fs target .native m false d w.c hfl (by rw [hr]; exact hnew)]
      rfl
    have hstep : apiStep ev w (.write (.plain d) target m false) =
        ({ fs := w.fs.set target (.native (fmtPlain .native (normEs d))), c := w.c }, .done) := by
      have := C13api.writeTo_ok hwt
      rw [hr] at this
      exact this
    obtain ⟨t', c', D, hv, hrun, hspec, hD, hfD, ho, hg, hcc, hfr⟩ :=
      run_api ev P hfl ws (normEs d) (fmtPlain .native (normEs d))
        { fs := w.fs.set target (.native (fmtPlain .native (normEs d))), c := w.c } h0 (Or.inl rfl)
        (C13api.get_set_self _ _ _) hc
        (fun s hs' => hs s (List.mem_cons_of_mem _ hs')) (fun x hx => hw x (List.mem_cons_of_mem _ hx))
    have hrunEq : apiRun ev w (plainOps target ((m, d) :: ws)) =
        ((apiRun ev { fs := w.fs.set target (.native (fmtPlain .native (normEs d))), c := w.c } (plainOps target ws)).1,
          ApiOut.done :: (apiRun ev { fs := w.fs.set target (.native (fmtPlain .native (normEs d))), c := w.c }
            (plainOps target ws)).2) := by
      rw [plainOps_cons, C13api.apiRun_cons, hstep]
    rw [hrunEq]
    generalize apiRun ev { fs := w.fs.set target (.native (fmtPlain .native (normEs d))), c := w.c } (plainOps target ws) = r
      at ho hg hcc hfr
    obtain ⟨sd, c₂, _, hread, hsd⟩ := api_read_any ev P r.1 hD hfD hg (by rw [hcc]; exact hv)
    refine ⟨t', c', sd, c₂, D, ?_, hg, hcc, ?_, ?_, hread, hspec, dropPh_any hD.noPh hsd⟩
    · simp only [List.map_cons, ho]
    · intro q hq
      simp only
      rw [hfr q hq]
      exact C13api.get_set_ne _ _ hq
    · simp only [runWrites, C16_new_file]
      exact hrun

/-! ## 2. append of an `SDict` source -/

/-- `SDict.merge(other)` before `_clean`: the data merged (`_recursive_merge`), the four tables merged (`_post_merge`) -/
def preMerge (sd s : SD) : SD :=
  ({ sd with data := mergeD true sd.exprs sd.data s.data }).postMerge (.sd s)

theorem merge_sd_eq (sd s : SD) : sd.merge (.sd s) = (preMerge sd s).clean := rfl

/-- **C07 on the tables, before `_clean`**: the comment, include and expression tables follow the merge rule of the
    data — ids the file already has keep their entry, new ids are appended (`C07.tbl_merge_keeps`, `tbl_merge_adds`) -/
theorem preMerge_tables (sd s : SD) :
    (preMerge sd s).data = mergeD true sd.exprs sd.data s.data ∧
    (preMerge sd s).exprs = Tbl.merge sd.exprs s.exprs ∧
    (preMerge sd s).lineC = Tbl.merge sd.lineC s.lineC ∧
    (preMerge sd s).blockC = Tbl.merge sd.blockC s.blockC ∧
    (preMerge sd s).incl = Tbl.merge sd.incl s.incl := ⟨rfl, rfl, rfl, rfl, rfl⟩

/-- `_clean` touches only placeholder entries: up to those, the data of the merge is the merged data; the expression
    table is the merged table (keys unique at every level, as in every Python value) -/
theorem merge_sd_strip (sd s : SD) (hn : NodupKeysV (.dict sd.data)) (hsn : NodupKeysEs s.data) :
    NodupKeysV (.dict (sd.merge (.sd s)).data) ∧
    C06fold.stripEs (sd.merge (.sd s)).data = C06fold.stripEs (mergeD true sd.exprs sd.data s.data) ∧
    (sd.merge (.sd s)).exprs = Tbl.merge sd.exprs s.exprs := by
  have hn' : NodupKeysV (.dict (preMerge sd s).data) := C07.nodupV_mergeD sd.exprs true sd.data s.data hn hsn
  exact C06fold.clean_strip (preMerge sd s) hn'

/-- **keeps, through `_clean`**: every key path of ordinary keys that leads to a non-dict value in the file's data
    leads to the same value after `sd.merge(s)`, whatever comment tables the two sides carry.  (Exception of
    `_recursive_merge`, as for builtin sources: a top-level entry that refers to its own key.) -/
theorem merge_sd_keeps (sd s : SD) (hn : NodupKeysV (.dict sd.data)) (hsn : NodupKeysEs s.data)
    (p : List Key) (v : Val) (hv : v.isDict = false) (hp : ∀ k ∈ p, C07.isPhKey k = false)
    (hget : C07.getD sd.data p = some v) (hs : ∀ k, p = [k] → selfRef sd.exprs k v = false) :
    C07.getD (sd.merge (.sd s)).data p = some v := by
  have hpre : C07.getD (mergeD true sd.exprs sd.data s.data) p = some v :=
    C07.merge_keeps_deep sd.exprs v hv p true sd.data s.data hget fun k hk hc => by
      rw [hs k hk] at hc; exact absurd hc.2 (by decide)
  exact getD_of_strip_eq (merge_sd_strip sd s hn hsn).2.1 p v hv hp hpre

/-- **adds, through `_clean`**: an ordinary top-level key the file does not have gets the source's value (a dict value
    up to the placeholder entries `_clean` may remove inside it) -/
theorem merge_sd_adds (sd s : SD) (hn : NodupKeysV (.dict sd.data)) (hsn : NodupKeysEs s.data)
    (hsk : (keys s.data).Nodup) (k : Key) (hk : C07.isPhKey k = false) (h : lookup k sd.data = none) :
    (lookup k (sd.merge (.sd s)).data).map C06fold.stripV = (lookup k s.data).map C06fold.stripV := by
  have h1 := C06fold.lookup_stripEs hk (sd.merge (.sd s)).data
  rw [(merge_sd_strip sd s hn hsn).2.1, C06fold.lookup_stripEs hk, C07.merge_adds true sd.exprs sd.data s.data hsk k h] at h1
  exact h1.symm

/-- **recurses, through `_clean`**: key by key, up to placeholder entries — a dict on both sides is merged recursively,
    an existing value stays, a new key gets the source's value -/
theorem merge_sd_recurses (sd s : SD) (hn : NodupKeysV (.dict sd.data)) (hsn : NodupKeysEs s.data)
    (hsk : (keys s.data).Nodup) (k : Key) (hk : C07.isPhKey k = false) :
    (lookup k (sd.merge (.sd s)).data).map C06fold.stripV =
      Option.map C06fold.stripV
        (match lookup k sd.data, lookup k s.data with
        | some (.dict ad), some (.dict bd) => some (Val.dict (mergeD false sd.exprs ad bd))
        | some av, some bv => if true && selfRef sd.exprs k av then some bv else some av
        | some av, none => some av
        | none, bv => bv) := by
  have h1 := C06fold.lookup_stripEs hk (sd.merge (.sd s)).data
  rw [(merge_sd_strip sd s hn hsn).2.1, C06fold.lookup_stripEs hk, C07.merge_lookup true sd.exprs sd.data s.data hsk k] at h1
  exact h1.symm

/-- **when `_clean` has nothing to do** — no dict level of the merged data holds two comment entries of a kind with the
    same text, and no include entry (`C12W.levelFix`, `C12W.subsFix` on `preMerge`) — the merge *is* `preMerge`: the
    data is the merged data (comment entries of the file kept, those of the source added) and each of the four tables is
    `Tbl.merge` of the file's table with the source's table. -/
theorem merge_sd_exact (sd s : SD) (hl : C12W.levelFix (preMerge sd s) (preMerge sd s).data)
    (hsub : C12W.subsFix (preMerge sd s) (preMerge sd s).data) :
    sd.merge (.sd s) = preMerge sd s := by
  rw [merge_sd_eq]; exact C12W.clean_fix _ hl hsub

theorem merge_sd_tables (sd s : SD) (hl : C12W.levelFix (preMerge sd s) (preMerge sd s).data)
    (hsub : C12W.subsFix (preMerge sd s) (preMerge sd s).data) :
    (sd.merge (.sd s)).data = mergeD true sd.exprs sd.data s.data ∧
    (sd.merge (.sd s)).exprs = Tbl.merge sd.exprs s.exprs ∧
    (sd.merge (.sd s)).lineC = Tbl.merge sd.lineC s.lineC ∧
    (sd.merge (.sd s)).blockC = Tbl.merge sd.blockC s.blockC ∧
    (sd.merge (.sd s)).incl = Tbl.merge sd.incl s.incl := by
  rw [merge_sd_exact sd s hl hsub]; exact preMerge_tables sd s

/-- **the tables through `_clean`, unconditionally**: `_clean` can only delete entries, so each comment / include
    table of `sd.merge(s)` is a sub-table of `Tbl.merge` of the two tables (same entries, same order, some possibly
    missing); the expression table is exactly `Tbl.merge`. -/
theorem merge_sd_tables_sub (sd s : SD) :
    (sd.merge (.sd s)).exprs = Tbl.merge sd.exprs s.exprs ∧
    (sd.merge (.sd s)).lineC.Sublist (Tbl.merge sd.lineC s.lineC) ∧
    (sd.merge (.sd s)).blockC.Sublist (Tbl.merge sd.blockC s.blockC) ∧
    (sd.merge (.sd s)).incl.Sublist (Tbl.merge sd.incl s.incl) := clean_sub (preMerge sd s)

/-- the sub-table can be proper: the file and the source both carry a block comment with the same text at the top
    level (e.g. both carry the default header) under different ids; `_clean` drops the second placeholder entry and its
    table entry.  So "the tables of the result are `Tbl.merge` of the tables" is false without the hypothesis of
    `merge_sd_tables`. -/
def dupFile : SD :=
  { data := [(.str "BLOCKCOMMENT000000".toList, .leaf (.str "BLOCKCOMMENT000000".toList)), (.str ['a'], .leaf (.int 1))],
    blockC := [(0, "/*h*/".toList)] }
def dupSrc : SD :=
  { data := [(.str "BLOCKCOMMENT000001".toList, .leaf (.str "BLOCKCOMMENT000001".toList)), (.str ['b'], .leaf (.int 2))],
    blockC := [(1, "/*h*/".toList)] }

theorem merge_sd_tables_statement_false :
    ¬ ∀ sd s : SD, (sd.merge (.sd s)).blockC = Tbl.merge sd.blockC s.blockC := by
  intro h
  have := h dupFile dupSrc
  revert this
  decide +kernel

theorem dup_merge :
    (dupFile.merge (.sd dupSrc)).blockC = [(0, "/*h*/".toList)] ∧
    (dupFile.merge (.sd dupSrc)).data =
      [(.str "BLOCKCOMMENT000000".toList, .leaf (.str "BLOCKCOMMENT000000".toList)), (.str ['a'], .leaf (.int 1)),
       (.str ['b'], .leaf (.int 2))] := by decide +kernel

/-! ### on `writeText` -/

/-- `_retype_values` on an `SDict` source: the data is re-typed, the tables are left alone -/
def retypeSD (s : SD) : SD := { s with data := normEs s.data }

/-- the `SDict` the writer serialises in append mode (before ordering): the file as read, merged with the re-typed source -/
def appendSD (sd s : SD) : SD := sd.merge (.sd (retypeSD s))

theorem fmtArg_sd (fl : Flavor) (order : Bool) (r : SD) :
    fmtArg fl (if order then (Arg.sd r).order else Arg.sd r) = fmtSD fl (if order then r.order else r) := by
  cases order <;> rfl

/-- **append of an `SDict` source, the text**: the file is read (with the writer's `order` option, includes resolved
    against `fs`), the re-typed source is merged into what was read (`appendSD`), the result is ordered if asked and
    serialised with `fmtSD`. -/
theorem C16_append_sd_text (ev : Str → EvalResult) (fs : FS) (target : Comps) (fl : Flavor) (order : Bool) (s : SD)
    (c c' : Counter) (sd : SD) (hfl : flavorOfPath target = some fl)
    (hex : (fs.get (resolveSpelled target)).isSome = true)
    (hr : readFile ev fs { order := order } c target = .ok (.ok sd c')) :
    writeText ev fs target ['a'] order (.sd s) c =
      match fmtSD fl (if order then (appendSD sd s).order else appendSD sd s) with
      | some t => .ok (t, c')
      | none => .error .unsupported := by
  cases hg : fs.get (resolveSpelled target) with
  | none => rw [hg] at hex; cases hex
  | some b =>
    simp only [writeText, hfl, hg, hr]
    rfl

/-- if the existing file cannot be read, the append fails and nothing is written -/
theorem C16_append_sd_read_error (ev : Str → EvalResult) (fs : FS) (target : Comps) (fl : Flavor) (order : Bool) (s : SD)
    (c : Counter) (e : ParseErr) (hfl : flavorOfPath target = some fl)
    (hex : (fs.get (resolveSpelled target)).isSome = true)
    (hr : readFile ev fs { order := order } c target = .error e) :
    writeText ev fs target ['a'] order (.sd s) c = .error e := by
  cases hg : fs.get (resolveSpelled target) with
  | none => rw [hg] at hex; cases hex
  | some b =>
    simp only [writeText, hfl, hg, hr]
    rfl

/-- **C16 / C07, append of an `SDict` source** (`DictWriter.write(s, target, mode='a')`, `SDict.dump`).  `sd` is what
    `DictReader.read(target)` returns for the existing file; keys unique at every level on both sides.  Then the text
    written is `fmtSD` of `appendSD sd s` (ordered if asked), and in `appendSD sd s`:

    * every key path of ordinary keys that leads to a non-dict value in the file's data leads to the same value
      (nothing in the file is lost, at any depth);
    * every ordinary top-level key of the source that the file does not have is there, with the source's re-typed value
      (a dict value up to comment entries `_clean` may drop inside it); dicts on both sides are merged recursively;
    * the expression table is `Tbl.merge` of the file's table with the source's (ids of the file win); the line-comment,
      block-comment and include tables are sub-tables of `Tbl.merge` of the file's with the source's — and equal to it
      when `_clean` has nothing to do (`C16_append_sd_exact`). -/
theorem C16_append_sd_keeps (ev : Str → EvalResult) (fs : FS) (target : Comps) (fl : Flavor) (order : Bool) (s : SD)
    (c c' : Counter) (sd : SD) (hfl : flavorOfPath target = some fl)
    (hex : (fs.get (resolveSpelled target)).isSome = true)
    (hr : readFile ev fs { order := order } c target = .ok (.ok sd c'))
    (hn : NodupKeysV (.dict sd.data)) (hsn : NodupKeysV (.dict (normEs s.data))) :
    (writeText ev fs target ['a'] order (.sd s) c =
      match fmtSD fl (if order then (appendSD sd s).order else appendSD sd s) with
      | some t => .ok (t, c')
      | none => .error .unsupported) ∧
    (∀ (p : List Key) (v : Val), v.isDict = false → (∀ k ∈ p, C07.isPhKey k = false) →
      C07.getD sd.data p = some v → (∀ k, p = [k] → selfRef sd.exprs k v = false) →
      C07.getD (appendSD sd s).data p = some v) ∧
    (∀ k, C07.isPhKey k = false → lookup k sd.data = none →
      (lookup k (appendSD sd s).data).map C06fold.stripV = (lookup k (normEs s.data)).map C06fold.stripV) ∧
    (∀ k, C07.isPhKey k = false →
      (lookup k (appendSD sd s).data).map C06fold.stripV =
        Option.map C06fold.stripV
          (match lookup k sd.data, lookup k (normEs s.data) with
          | some (.dict ad), some (.dict bd) => some (Val.dict (mergeD false sd.exprs ad bd))
          | some av, some bv => if true && selfRef sd.exprs k av then some bv else some av
          | some av, none => some av
          | none, bv => bv)) ∧
    (appendSD sd s).exprs = Tbl.merge sd.exprs s.exprs ∧
    (appendSD sd s).lineC.Sublist (Tbl.merge sd.lineC s.lineC) ∧
    (appendSD sd s).blockC.Sublist (Tbl.merge sd.blockC s.blockC) ∧
    (appendSD sd s).incl.Sublist (Tbl.merge sd.incl s.incl) := by
  refine ⟨C16_append_sd_text ev fs target fl order s c c' sd hfl hex hr, ?_, ?_, ?_,
    merge_sd_tables_sub sd (retypeSD s)⟩
  · intro p v hv hp hget hs
    exact merge_sd_keeps sd (retypeSD s) hn hsn.2 p v hv hp hget hs
  · intro k hk h
    exact merge_sd_adds sd (retypeSD s) hn hsn.2 hsn.1 k hk h
  · intro k hk
    exact merge_sd_recurses sd (retypeSD s) hn hsn.2 hsn.1 k hk

/-- **… exactly**, when no dict level of the merged data holds two comment entries of a kind with the same text and no
    include entry: the data written is the merged data — the comment entries of the file stay where they are, those of
    the source follow — and each of the four tables is `Tbl.merge` of the file's table with the source's: the tables
    follow the merge rule of the data (existing ids win, `C07.tbl_merge_keeps` / `tbl_merge_adds`). -/
theorem C16_append_sd_exact (sd s : SD)
    (hl : C12W.levelFix (preMerge sd (retypeSD s)) (preMerge sd (retypeSD s)).data)
    (hsub : C12W.subsFix (preMerge sd (retypeSD s)) (preMerge sd (retypeSD s)).data) :
    (appendSD sd s).data = mergeD true sd.exprs sd.data (normEs s.data) ∧
    (appendSD sd s).exprs = Tbl.merge sd.exprs s.exprs ∧
    (appendSD sd s).lineC = Tbl.merge sd.lineC s.lineC ∧
    (appendSD sd s).blockC = Tbl.merge sd.blockC s.blockC ∧
    (appendSD sd s).incl = Tbl.merge sd.incl s.incl :=
  merge_sd_tables sd (retypeSD s) hl hsub

/-- consequence for one id: a comment id the file has keeps the file's text; a new id gets the source's text -/
theorem C16_append_sd_comment_ids (sd s : SD)
    (hl : C12W.levelFix (preMerge sd (retypeSD s)) (preMerge sd (retypeSD s)).data)
    (hsub : C12W.subsFix (preMerge sd (retypeSD s)) (preMerge sd (retypeSD s)).data) (i : Nat) :
    (∀ x, Tbl.get? i sd.lineC = some x → Tbl.get? i (appendSD sd s).lineC = some x) ∧
    (Tbl.get? i sd.lineC = none → Tbl.get? i (appendSD sd s).lineC = Tbl.get? i s.lineC) ∧
    (∀ x, Tbl.get? i sd.blockC = some x → Tbl.get? i (appendSD sd s).blockC = some x) ∧
    (Tbl.get? i sd.blockC = none → Tbl.get? i (appendSD sd s).blockC = Tbl.get? i s.blockC) := by
  obtain ⟨_, _, h3, h4, _⟩ := C16_append_sd_exact sd s hl hsub
  rw [h3, h4]
  exact ⟨fun x h => C07.tbl_merge_keeps i x _ _ h, C07.tbl_merge_adds i _ _,
    fun x h => C07.tbl_merge_keeps i x _ _ h, C07.tbl_merge_adds i _ _⟩

/-! ## 3. overwrite / new file with an `SDict` source -/

/-- **C16, overwrite with an `SDict` source**: in every mode other than `a`, and in every mode when the target does
    not exist, the text written is `fmtSD` of the re-typed source (ordered if asked) and the counter is untouched: the
    previous content of the target is not read, and nothing else in the file system is looked at. -/
theorem C16_overwrite_sd (ev : Str → EvalResult) (fs : FS) (target : Comps) (fl : Flavor) (mode : Str) (order : Bool)
    (s : SD) (c : Counter) (hfl : flavorOfPath target = some fl)
    (h : mode ≠ ['a'] ∨ fs.get (resolveSpelled target) = none) :
    writeText ev fs target mode order (.sd s) c =
      match fmtSD fl (if order then (retypeSD s).order else retypeSD s) with
      | some t => .ok (t, c)
      | none => .error .unsupported := by
  have hfresh : (match fmtArg fl (if order then (Arg.sd s).retype.order else (Arg.sd s).retype) with
      | some t => (Except.ok (t, c) : Except ParseErr (Str × Counter))
      | none => .error .unsupported) =
      match fmtSD fl (if order then (retypeSD s).order else retypeSD s) with
      | some t => .ok (t, c)
      | none => .error .unsupported := by
    show (match fmtArg fl (if order then (Arg.sd (retypeSD s)).order else Arg.sd (retypeSD s)) with
      | some t => (Except.ok (t, c) : Except ParseErr (Str × Counter))
      | none => .error .unsupported) = _
    rw [fmtArg_sd]
  cases hg : fs.get (resolveSpelled target) with
  | none => simp only [writeText, hfl, hg]; exact hfresh
  | some b =>
    have hm : (mode == ['a']) = false := by
      rcases h with h | h
      · simpa using h
      · rw [hg] at h; cases h
    simp only [writeText, hfl, hg, hm]
    exact hfresh

/-- independence, stated as such: two worlds, two evaluators, two counters — the same text -/
theorem C16_overwrite_sd_indep (ev ev' : Str → EvalResult) (fs fs' : FS) (target : Comps) (fl : Flavor) (mode : Str)
    (order : Bool) (s : SD) (c c' : Counter) (hfl : flavorOfPath target = some fl)
    (h : mode ≠ ['a'] ∨ fs.get (resolveSpelled target) = none)
    (h' : mode ≠ ['a'] ∨ fs'.get (resolveSpelled target) = none) :
    (writeText ev fs target mode order (.sd s) c).map (·.1) = (writeText ev' fs' target mode order (.sd s) c').map (·.1) := by
  rw [C16_overwrite_sd ev fs target fl mode order s c hfl h, C16_overwrite_sd ev' fs' target fl mode order s c' hfl h']
  cases fmtSD fl (if order then (retypeSD s).order else retypeSD s) <;> rfl

/-- a source without tables, native target: the default header followed by the plain text of the re-typed data -/
theorem C16_overwrite_sd_plain (ev : Str → EvalResult) (fs : FS) (target : Comps) (mode : Str) (d : Entries) (c : Counter)
    (hfl : flavorOfPath target = some .native) (h : mode ≠ ['a'] ∨ fs.get (resolveSpelled target) = none) :
    writeText ev fs target mode false (.sd { data := d }) c = .ok (nativeHeader ++ fmtPlain .native (normEs d), c) := by
  rw [C16_overwrite_sd ev fs target .native mode false { data := d } c hfl h]
  simp only [Bool.false_eq_true, if_false]
  have : retypeSD { data := d } = { data := normEs d } := rfl
  rw [this, C12.fmtSD_text]

/-! ## 4. `SDict(d).dump(target)` then `DictReader.read(target)`, through the API -/

/-- **dump, then read.**  In a world where `target` does not exist (any other files), `SDict(d).dump(target)` completes
    and writes the default header followed by the plain text of `normEs d`; `DictReader.read(target)` then returns the
    data `normEs d` with the header placeholder entry in front (and the header comment in the block-comment table);
    nothing else in the world changes but the counter. -/
theorem C16_dump_then_read (ev : Str → EvalResult) (w : World) (target : Comps) (d : Entries)
    (hdom : DomC01 .native (normEs d) = true) (hdoc : C01.DocKeysAbsent' d)
    (hcnt : C02.countQuotedEs (srcOfEs .native (normEs d)) ≤ Gen.counterLimit + 1)
    (hc : C13.ValidCounter Gen.counterLimit w.c)
    (hfl : flavorOfPath target = some .native) (hr : resolveSpelled target = target)
    (hnew : w.fs.get target = none) :
    ∃ c', C13.ValidCounter Gen.counterLimit c' ∧
      apiRun ev w [.dump { data := d } target, .read target {}] =
        ({ fs := w.fs.set target (.native (nativeHeader ++ fmtPlain .native (normEs d))), c := c' },
         [.done, .data (C12.hdrSD (normEs d))]) ∧
      C01.dropPhEntries (C12.hdrSD (normEs d)).data = normEs d := by
  have P : PathOK target := ⟨(flavor_native_paths hfl).1, (flavor_native_paths hfl).2, hr⟩
  have hd' : C01.DocKeysAbsent' (normEs d) := by
    intro e he
    have hk : e.1 ∈ keys d := by rw [← C01.keys_normEs]; exact List.mem_map_of_mem (f := (·.1)) he
    obtain ⟨e', he', hk'⟩ := List.mem_map.mp hk
    rw [← hk']; exact hdoc e' he'
  have hG : Good (normEs d) := ⟨hdom, C01.normEs_idem d, hd', hcnt⟩
  have hwt := C16_overwrite_sd_plain ev w.fs target ['a'] d w.c hfl (Or.inr (by rw [hr]; exact hnew))
  have hstep : apiStep ev w (.dump { data := d } target) =
      ({ fs := w.fs.set target (.native (nativeHeader ++ fmtPlain .native (normEs d))), c := w.c }, .done) := by
    have := C13api.writeTo_ok hwt
    rw [hr] at this
    exact this
  obtain ⟨c', hv, hread⟩ := C01.readFile_dumped (c := w.c) ev target hdom (C01.normEs_idem d) hd' hcnt hc P.hj P.hx P.hr
  have hget : (w.fs.set target (.native (nativeHeader ++ fmtPlain .native (normEs d)))).get target =
      some (.native (nativeHeader ++ fmtPlain .native (normEs d))) := C13api.get_set_self _ _ _
  have hl := readFile_local ev (w.fs.set target (.native (nativeHeader ++ fmtPlain .native (normEs d)))) {} w.c target _
    hr hget (file_noincl _ hG (Or.inr rfl) hc)
  have hstep2 : apiStep ev { fs := w.fs.set target (.native (nativeHeader ++ fmtPlain .native (normEs d))), c := w.c }
      (.read target {}) =
      ({ fs := w.fs.set target (.native (nativeHeader ++ fmtPlain .native (normEs d))), c := c' },
        .data (C12.hdrSD (normEs d))) := by
    simp only [apiStep, hr, hget, hl, hread]
  refine ⟨c', hv, ?_, C01.dropPh_hdr hG.noPh⟩
  rw [C13api.apiRun_cons, hstep, C13api.apiRun_cons]
  simp only [hstep2]
  rfl

/-! # non-vacuity -/

/-- a placeholder word and the placeholder entry `ph ↦ ph` the reader puts into the data -/
def ph (kw : String) (i : Nat) : Str := kw.toList ++ padSix i
def phE (kw : String) (i : Nat) : Key × Val := (.str (ph kw i), .leaf (.str (ph kw i)))

def exTarget : Comps := ["w".toList, "f".toList]
def exOther : Comps := ["w".toList, "other".toList]

/-- the existing file: a line comment of its own, a leaf, a nested dict -/
def exFile : Str := "// old\na 1;\nsub { x 1; }\n".toList

/-- a world with the file and a bystander; the counter as it is after the source was read (ids 0 and 1 used) -/
def exW (c : Counter) : World := { fs := [(exTarget, .native exFile), (exOther, .native "q 1;".toList)], c := c }

/-- the source `SDict`: one line comment (id 0), one block comment (id 1) in its tables and their entries in the data;
    `a` and `sub.x` clash with the file, `b` and `sub.y` are new; `"9"`, `"2"` are strings to be re-typed -/
def exSrc : SD :=
  { data := [phE "LINECOMMENT" 0, (.str ['a'], .leaf (.str ['9'])), (.str ['b'], .leaf (.str ['2'])), phE "BLOCKCOMMENT" 1,
             (.str "sub".toList, .dict [(.str ['x'], .leaf (.int 7)), (.str ['y'], .leaf (.int 2))])],
    lineC := [(0, "// src".toList)], blockC := [(1, "/* blk */".toList)] }

/-- what `DictReader.read` returns for the file when the counter stands at 1 -/
def exRead : SD :=
  { data := [phE "LINECOMMENT" 2, (.str ['a'], .leaf (.int 1)), (.str "sub".toList, .dict [(.str ['x'], .leaf (.int 1))])],
    lineC := [(2, "// old".toList)] }

theorem ex_read : readFile evalInt (exW (some 1)).fs {} (some 1) exTarget = .ok (.ok exRead (some 2)) := by
  have h : (match readFile evalInt (exW (some 1)).fs {} (some 1) exTarget with
      | .ok (.ok sd c) => decide (sd.data = exRead.data ∧ sd.exprs = [] ∧ sd.lineC = exRead.lineC ∧ sd.blockC = [] ∧
          sd.incl = [] ∧ c = some 2)
      | _ => false) = true := by decide +kernel
  cases hr : readFile evalInt (exW (some 1)).fs {} (some 1) exTarget with
  | error e => rw [hr] at h; cases h
  | ok r =>
    cases r with
    | exit1 => rw [hr] at h; cases h
    | ok sd c =>
      rw [hr] at h
      simp only [decide_eq_true_eq] at h
      obtain ⟨h1, h2, h3, h4, h5, h6⟩ := h
      cases sd
      simp only at h1 h2 h3 h4 h5
      subst h1 h2 h3 h4 h5 h6
      rfl

/-- **the tables of the result, evaluated**: the file's line comment (id 2) first, the source's (id 0) after it; the
    source's block comment; and the data: everything of the file where it was (`a` still 1, `sub.x` still 1), then the
    source's new entries (`b` re-typed to 2, `sub.y` inside `sub`, the two comment entries) -/
theorem ex_append_tables :
    (appendSD exRead exSrc).lineC = [(2, "// old".toList), (0, "// src".toList)] ∧
    (appendSD exRead exSrc).blockC = [(1, "/* blk */".toList)] ∧
    (appendSD exRead exSrc).exprs = [] ∧ (appendSD exRead exSrc).incl = [] ∧
    (appendSD exRead exSrc).data =
      [phE "LINECOMMENT" 2, (.str ['a'], .leaf (.int 1)),
       (.str "sub".toList, .dict [(.str ['x'], .leaf (.int 1)), (.str ['y'], .leaf (.int 2))]),
       phE "LINECOMMENT" 0, (.str ['b'], .leaf (.int 2)), phE "BLOCKCOMMENT" 1] := by decide +kernel

/-- … and they are `Tbl.merge` of the file's tables with the source's -/
theorem ex_append_tables_merge :
    (appendSD exRead exSrc).lineC = Tbl.merge exRead.lineC exSrc.lineC ∧
    (appendSD exRead exSrc).blockC = Tbl.merge exRead.blockC exSrc.blockC := by decide +kernel

theorem ex_read_nodup : NodupKeysV (.dict exRead.data) := by
  simp only [exRead, phE, NodupKeysV, NodupKeysEs, and_true]
  decide +kernel

theorem ex_src_nodup : NodupKeysV (.dict (normEs exSrc.data)) := by
  have : normEs exSrc.data = [phE "LINECOMMENT" 0, (.str ['a'], .leaf (.int 9)), (.str ['b'], .leaf (.int 2)),
      phE "BLOCKCOMMENT" 1, (.str "sub".toList, .dict [(.str ['x'], .leaf (.int 7)), (.str ['y'], .leaf (.int 2))])] := by
    decide +kernel
  rw [this]
  simp only [phE, NodupKeysV, NodupKeysEs, and_true]
  decide +kernel

def exAppendText : Str :=
  C12.nativeHeaderChars ++ C01.unlines
    ["/* blk */", "// old", "a                             1;", "sub", "{", "    x                         1;",
     "    y                         2;", "}", "// src", "b                             2;"]

def exOverwriteText : Str :=
  C12.nativeHeaderChars ++ C01.unlines
    ["/* blk */", "// src", "a                             9;", "b                             2;", "sub", "{",
     "    x                         7;", "    y                         2;", "}"]

theorem ir1 : intRepr 1 = ['1'] := by show intRepr (Int.ofNat 1) = _; simp [intRepr, natDigits]
theorem ir2 : intRepr 2 = ['2'] := by show intRepr (Int.ofNat 2) = _; simp [intRepr, natDigits]
theorem ir7 : intRepr 7 = ['7'] := by show intRepr (Int.ofNat 7) = _; simp [intRepr, natDigits]
theorem ir9 : intRepr 9 = ['9'] := by show intRepr (Int.ofNat 9) = _; simp [intRepr, natDigits]

theorem ex_raw_append : fmtEntries .native 0 (hoistPlaceholders (appendSD exRead exSrc).data) = C01.unlines
    ["BLOCKCOMMENT000001            BLOCKCOMMENT000001;", "LINECOMMENT000002             LINECOMMENT000002;",
     "a                             1;", "sub", "{", "    x                         1;",
     "    y                         2;", "}", "LINECOMMENT000000             LINECOMMENT000000;",
     "b                             2;"] := by
  have h : hoistPlaceholders (appendSD exRead exSrc).data =
      [phE "BLOCKCOMMENT" 1, phE "LINECOMMENT" 2, (.str ['a'], .leaf (.int 1)),
       (.str "sub".toList, .dict [(.str ['x'], .leaf (.int 1)), (.str ['y'], .leaf (.int 2))]),
       phE "LINECOMMENT" 0, (.str ['b'], .leaf (.int 2))] := by decide +kernel
  rw [h]
  simp only [phE, fmtEntries, fmtList, fmtItems, formatKey, keyStr, formatScalar, ir1, ir2]
  decide +kernel

theorem ex_raw_overwrite : fmtEntries .native 0 (hoistPlaceholders (retypeSD exSrc).data) = C01.unlines
    ["BLOCKCOMMENT000001            BLOCKCOMMENT000001;", "LINECOMMENT000000             LINECOMMENT000000;",
     "a                             9;", "b                             2;", "sub", "{",
     "    x                         7;", "    y                         2;", "}"] := by
  have h : hoistPlaceholders (retypeSD exSrc).data =
      [phE "BLOCKCOMMENT" 1, phE "LINECOMMENT" 0, (.str ['a'], .leaf (.int 9)), (.str ['b'], .leaf (.int 2)),
       (.str "sub".toList, .dict [(.str ['x'], .leaf (.int 7)), (.str ['y'], .leaf (.int 2))])] := by decide +kernel
  rw [h]
  simp only [phE, fmtEntries, fmtList, fmtItems, formatKey, keyStr, formatScalar, ir2, ir7, ir9]
  decide +kernel

theorem ex_fmt_append : fmtSD .native (appendSD exRead exSrc) = some exAppendText := by
  have hL := ex_append_tables.1
  have hB := ex_append_tables.2.1
  have hI := ex_append_tables.2.2.2.1
  simp only [fmtSD, ex_raw_append, hL, hB, hI, insertBlockComments, makeDefaultBlockComment, C12.nativeHeader_eq]
  decide +kernel

theorem ex_fmt_overwrite : fmtSD .native (retypeSD exSrc) = some exOverwriteText := by
  have hL : (retypeSD exSrc).lineC = [(0, "// src".toList)] := rfl
  have hB : (retypeSD exSrc).blockC = [(1, "/* blk */".toList)] := rfl
  have hI : (retypeSD exSrc).incl = [] := rfl
  simp only [fmtSD, ex_raw_overwrite, hL, hB, hI, insertBlockComments, makeDefaultBlockComment, C12.nativeHeader_eq]
  decide +kernel

/-- the text `DictWriter.write(exSrc, target, mode='a')` writes, through `C16_append_sd_keeps` -/
theorem ex_append_text :
    writeText evalInt (exW (some 1)).fs exTarget ['a'] false (.sd exSrc) (some 1) = .ok (exAppendText, some 2) := by
  have h := (C16_append_sd_keeps evalInt (exW (some 1)).fs exTarget .native false exSrc (some 1) (some 2) exRead
    (by decide +kernel) (by decide +kernel) ex_read ex_read_nodup ex_src_nodup).1
  rw [h]
  simp only [Bool.false_eq_true, if_false, ex_fmt_append]

/-- the theorem instantiated: the nested leaf `sub.x` of the file keeps its value 1 (the source says 7) -/
theorem ex_append_keeps : C07.getD (appendSD exRead exSrc).data [.str "sub".toList, .str ['x']] = some (.leaf (.int 1)) :=
  (C16_append_sd_keeps evalInt (exW (some 1)).fs exTarget .native false exSrc (some 1) (some 2) exRead
    (by decide +kernel) (by decide +kernel) ex_read ex_read_nodup ex_src_nodup).2.1
    [.str "sub".toList, .str ['x']] (.leaf (.int 1)) rfl (by decide +kernel) (by decide +kernel)
    (fun k hk => by cases hk)

/-- the hypothesis of `C16_append_sd_exact` holds on the example (no level with two equal comments, no include) -/
theorem ex_fix : C12W.levelFix (preMerge exRead (retypeSD exSrc)) (preMerge exRead (retypeSD exSrc)).data ∧
    C12W.subsFix (preMerge exRead (retypeSD exSrc)) (preMerge exRead (retypeSD exSrc)).data := by
  have hd : (preMerge exRead (retypeSD exSrc)).data =
      [phE "LINECOMMENT" 2, (.str ['a'], .leaf (.int 1)),
       (.str "sub".toList, .dict [(.str ['x'], .leaf (.int 1)), (.str ['y'], .leaf (.int 2))]),
       phE "LINECOMMENT" 0, (.str ['b'], .leaf (.int 2)), phE "BLOCKCOMMENT" 1] := by decide +kernel
  have hL : (preMerge exRead (retypeSD exSrc)).lineC = [(2, "// old".toList), (0, "// src".toList)] := by decide +kernel
  have hB : (preMerge exRead (retypeSD exSrc)).blockC = [(1, "/* blk */".toList)] := by decide +kernel
  rw [hd]
  refine ⟨⟨?_, ?_, ?_, ?_⟩, ?_⟩
  · rw [hB]; decide +kernel
  · decide +kernel
  · rw [hL]; decide +kernel
  · decide +kernel
  · simp only [C12W.subsFix, C12W.allLevels, phE, and_true]
    refine ⟨?_, ?_, ?_, ?_⟩
    · rw [hB]; decide +kernel
    · decide +kernel
    · rw [hL]; decide +kernel
    · decide +kernel

theorem ex_exact : (appendSD exRead exSrc).lineC = Tbl.merge exRead.lineC exSrc.lineC :=
  (C16_append_sd_exact exRead exSrc ex_fix.1 ex_fix.2).2.2.1

/-- **colliding ids.**  The same append with a freshly reset counter (as after `SDict.load`, which resets it): the
    file's line comment gets id 0, the id of the source's line comment.  The existing id wins — in the table and in the
    data — so the source's `// src` is not written at all.  (Nothing of the *file* is lost: C16 holds; what is lost is a
    comment of the source.) -/
theorem ex_collision :
    (match readFile evalInt (exW none).fs {} none exTarget with
     | .ok (.ok sd _) => decide ((appendSD sd exSrc).lineC = [(0, "// old".toList)] ∧
         (appendSD sd exSrc).blockC = [(1, "/* blk */".toList)] ∧
         (keys (appendSD sd exSrc).data).filter C07.isPhKey = [.str (ph "LINECOMMENT" 0), .str (ph "BLOCKCOMMENT" 1)])
     | _ => false) = true := by decide +kernel

/-- overwrite: the text is that of the source alone, whatever the world holds -/
theorem ex_overwrite (fs : FS) (c : Counter) :
    writeText evalInt fs exTarget ['w'] false (.sd exSrc) c = .ok (exOverwriteText, c) := by
  rw [C16_overwrite_sd evalInt fs exTarget .native ['w'] false exSrc c (by decide +kernel) (Or.inl (by decide))]
  simp only [Bool.false_eq_true, if_false, ex_fmt_overwrite]

/-- `C16_fold_api` on the write sequence of `C16fold` (`{a: 1}` written, `{b: "2", a: 9}` and `{c: {x: 1}}` appended),
    in a world that holds another file -/
theorem ex_fold_api :
    ∃ t c₁ sd c₂,
      (apiRun evalInt { fs := [(exOther, .native "q 1;".toList)] } (plainOps exTarget exWs)).2 = [.done, .done, .done] ∧
      (apiRun evalInt { fs := [(exOther, .native "q 1;".toList)] } (plainOps exTarget exWs)).1.fs.get exTarget =
        some (.native t) ∧
      (apiRun evalInt { fs := [(exOther, .native "q 1;".toList)] } (plainOps exTarget exWs)).1.fs.get exOther =
        some (.native "q 1;".toList) ∧
      apiStep evalInt (apiRun evalInt { fs := [(exOther, .native "q 1;".toList)] } (plainOps exTarget exWs)).1
        (.read exTarget {}) =
        ({ (apiRun evalInt { fs := [(exOther, .native "q 1;".toList)] } (plainOps exTarget exWs)).1 with c := c₂ },
          .data sd) ∧
      (apiRun evalInt { fs := [(exOther, .native "q 1;".toList)] } (plainOps exTarget exWs)).1.c = c₁ ∧
      C01.dropPhEntries sd.data = exFold := by
  obtain ⟨t, c₁, sd, c₂, D, h1, h2, h3, h4, _, h6, h7, h8⟩ :=
    C16_fold_api evalInt exTarget exWs { fs := [(exOther, .native "q 1;".toList)] } (by decide)
      (by decide +kernel) (by decide +kernel) (Or.inl rfl) (by decide +kernel) (by decide +kernel) (by decide +kernel)
  rw [exWs_spec] at h7
  cases h7
  exact ⟨t, c₁, sd, c₂, h1, h2, (h4 exOther (by decide)).trans (by rfl), h6, h3, h8⟩

/-- `C16_dump_then_read` on `{a: 1, b: 2, c: {x: 1}}` in the same world -/
theorem ex_dump_read :
    ∃ c', apiRun evalInt { fs := [(exOther, .native "q 1;".toList)] } [.dump { data := exFold } exTarget, .read exTarget {}] =
      ({ fs := [(exOther, .native "q 1;".toList), (exTarget, .native (nativeHeader ++ fmtPlain .native exFold))], c := c' },
       [.done, .data (C12.hdrSD exFold)]) := by
  obtain ⟨c', _, h, _⟩ := C16_dump_then_read evalInt { fs := [(exOther, .native "q 1;".toList)] } exTarget exFold
    (by decide +kernel) (by decide +kernel) (by decide +kernel) (Or.inl rfl) (by decide +kernel) (by decide +kernel)
    (by decide +kernel)
  have hn : normEs exFold = exFold := by decide +kernel
  rw [hn] at h
  exact ⟨c', h⟩

/-- why `writeText_plain_eq_writeStep_fs` asks for `NoIncl`: the existing file includes a neighbour; read in the
    world the neighbour's entry `b` is merged in, read alone (`writeStep`'s one-file file system) the include is
    "not found" and skipped — so an append in the world writes `b` into the target and `writeStep` does not. -/
def exInclFs : FS :=
  [(exTarget, .native "#include 'other'\na 1;\n".toList), (exOther, .native "b 2;".toList)]

theorem readFile_local_needs_noincl :
    (match readFile evalInt exInclFs {} none exTarget with
      | .ok (.ok sd _) => (keys sd.data).filter (fun k => !C07.isPhKey k) | _ => []) = [.str ['a'], .str ['b']] ∧
    (match readFile evalInt [(exTarget, .native "#include 'other'\na 1;\n".toList)] {} none exTarget with
      | .ok (.ok sd _) => (keys sd.data).filter (fun k => !C07.isPhKey k) | _ => []) = [.str ['a']] := by
  decide +kernel

end C16sd
end DictIO

/-
#print axioms DictIO.C16sd.writeText_plain_eq_writeStep
#print axioms DictIO.C16sd.writeText_plain_eq_writeStep_fs
#print axioms DictIO.C16sd.C16_fold_api
#print axioms DictIO.C16sd.C16_append_sd_keeps
#print axioms DictIO.C16sd.C16_append_sd_exact
#print axioms DictIO.C16sd.merge_sd_tables_statement_false
#print axioms DictIO.C16sd.C16_overwrite_sd
#print axioms DictIO.C16sd.C16_overwrite_sd_indep
#print axioms DictIO.C16sd.C16_dump_then_read
#print axioms DictIO.C16sd.ex_append_tables
#print axioms DictIO.C16sd.ex_append_text
#print axioms DictIO.C16sd.ex_fold_api
#print axioms DictIO.C16sd.ex_dump_read
-- each: [propext, Classical.choice, Quot.sound] (or a subset)
-/
