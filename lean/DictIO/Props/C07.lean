/-
  C07 -- `SDict` behaves like a builtin `dict` for the mapping operations; `merge` never
  overwrites (except the documented self-reference placeholder), recurses into dicts present on
  both sides, appends new keys in order, and is idempotent; `_clean` is the identity on data
  without placeholder keys.
  Model: `step`/`dstep`, `mergeD`, `SD.clean`, `Tbl.merge`/`Tbl.update` (Model/Dict.lean).

  Layout: specification vocabulary, helper lemmas, then the property theorems
  A (`clean_id`), B (`step_refines`, `step_preserves_*`, `run_refines*`), C (`merge_*`, `tbl_*`,
  `merge_tables`, `update_tables`), D (non-vacuity examples, necessity of the added hypotheses).

  Standing hypothesis added to A and B: `NodupKeysV (.dict s.data)` (unique keys in every dict, the
  model's `Val.WF`; true of every Python value).  The association-list model admits repeated
  keys and on those `_clean` is *not* the identity (`clean_id_needs_nodup`).
-/
import DictIO.Model.Dict
import DictIO.Lemmas.Assoc

namespace DictIO.C07
open DictIO

/-! ## specification vocabulary (the definitions the statements are written with) -/

/-- the keys `_clean_data` looks at: BLOCKCOMMENT / INCLUDE / LINECOMMENT followed by six digits -/
def isPhKey : Key → Bool
  | .str s => containsPh kwBlock s || containsPh kwIncl s || containsPh kwLine s
  | .int _ => false

mutual
  /-- no placeholder key at any dict level reachable through dict nesting (lists are opaque) -/
  def NoPhV : Val → Prop
    | .dict es => NoPhEs es
    | _ => True
  def NoPhEs : Entries → Prop
    | [] => True
    | (k, v) :: es => isPhKey k = false ∧ NoPhV v ∧ NoPhEs es
end

/-- the operations that builtin `dict` has too (everything but `merge`) -/
def _root_.DictIO.Op.isDictOp : Op → Bool
  | .merge _ => false
  | _ => true

/-- no dict handed to the operation has a placeholder key at any dict level, and no key that is
    set is a placeholder key -/
def _root_.DictIO.Op.NoPh : Op → Prop
  | .setitem k v => isPhKey k = false ∧ NoPhV v
  | .setdefault k v => isPhKey k = false ∧ NoPhV v
  | .update a => NoPhEs a.data
  | .ior a => NoPhEs a.data
  | .or a => NoPhEs a.data
  | .merge a => NoPhEs a.data
  | .ror o => NoPhEs o
  | .construct o => NoPhEs o
  | _ => True

/-- every dict *inside* the arguments has unique keys (true of every Python value).  The item
    sequence given to `update`/`|`/`merge`/the constructor may itself repeat a key (a pair list);
    the left operand of `o | s` is a dict. -/
def _root_.DictIO.Op.NodupKeys : Op → Prop
  | .setitem _ v => NodupKeysV v
  | .setdefault _ v => NodupKeysV v
  | .update a => NodupKeysEs a.data
  | .ior a => NodupKeysEs a.data
  | .or a => NodupKeysEs a.data
  | .merge a => NodupKeysEs a.data
  | .ror o => NodupKeysV (.dict o)
  | .construct o => NodupKeysEs o
  | _ => True

/-- the trace of a program on an `SDict`: data and result after every operation -/
def runS : SD → List Op → List (Entries × Out)
  | _, [] => []
  | s, op :: ops => ((step s op).1.data, (step s op).2) :: runS (step s op).1 ops

/-- the trace of the same program on a builtin `dict` -/
def runD : Entries → List Op → List (Entries × Out)
  | _, [] => []
  | d, op :: ops => dstep d op :: runD (dstep d op).1 ops

/-- the value reached by following a key path through nested dicts (not through lists) -/
def getV : Val → List Key → Option Val
  | v, [] => some v
  | .dict es, k :: p => match lookup k es with
    | some w => getV w p
    | none => none
  | _, _ :: _ => none

def getD (es : Entries) (p : List Key) : Option Val := getV (.dict es) p

/-! ## helper lemmas -/

/-! #### helper definitions: one step of the merge loop, and the value it leaves at a key -/

/-- what `_recursive_merge` does with one `(key, value)` item of `other` -/
def mstep (top : Bool) (exprs : Tbl ExprEntry) (t : Entries) (k : Key) (v : Val) : Entries :=
  match lookup k t, v with
  | some (.dict td), .dict od => setKey k (.dict (mergeD false exprs td od)) t
  | some tv, _ => if top && selfRef exprs k tv then setKey k v t else t
  | none, _ => t ++ [(k, v)]

/-- value of key `k` after merging an item `(k, bv)` into a dict where `k` has value `av` -/
def mergeVal (top : Bool) (exprs : Tbl ExprEntry) (k : Key) : Option Val → Option Val → Option Val
  | some (.dict ad), some (.dict bd) => some (.dict (mergeD false exprs ad bd))
  | some av, some bv => if top && selfRef exprs k av then some bv else some av
  | some av, none => some av
  | none, bv => bv

/-! #### association lists -/

theorem lookup_setKey (k k' : Key) (v : Val) : ∀ es : Entries,
    lookup k' (setKey k v es) = if k = k' then some v else lookup k' es
  | [] => by simp [setKey, lookup]
  | (k0, v0) :: es => by
    have ih := lookup_setKey k k' v es
    by_cases h : k0 = k
    · subst h; by_cases h' : k0 = k' <;> simp [setKey, lookup, h']
    · by_cases h' : k0 = k'
      · subst h'
        have : ¬ k = k0 := fun e => h e.symm
        simp [setKey, lookup, h, this]
      · simp [setKey, lookup, h, h', ih]

theorem lookup_append (k : Key) : ∀ a b : Entries, lookup k (a ++ b) = (lookup k a).or (lookup k b)
  | [], b => by simp [lookup]
  | (k0, v0) :: a, b => by
    by_cases h : k0 = k <;> simp [lookup, h, lookup_append k a b]

theorem hasKey_iff_mem {k : Key} {es : Entries} : hasKey k es = true ↔ k ∈ keys es := by
  unfold hasKey
  cases h : lookup k es with
  | none => simpa using lookup_eq_none_iff.mp h
  | some v =>
    simp only [Option.isSome_some, true_iff]
    exact List.mem_map_of_mem (f := (·.1)) (lookup_some_mem h)

theorem hasKey_false_iff {k : Key} {es : Entries} : hasKey k es = false ↔ k ∉ keys es := by
  rw [← hasKey_iff_mem]; simp

theorem keys_setKey_of_mem (k : Key) (v : Val) : ∀ es : Entries, k ∈ keys es → keys (setKey k v es) = keys es
  | [], h => by simp [keys] at h
  | (k0, v0) :: es, h => by
    by_cases h0 : k0 = k
    · simp [setKey, h0, keys]
    · have : k ∈ keys es := by
        simp only [keys, List.map_cons, List.mem_cons] at h
        rcases h with h | h
        · exact absurd h.symm h0
        · exact h
      have ih := keys_setKey_of_mem k v es this
      simp only [keys] at ih
      simp [setKey, h0, keys, ih]

theorem keys_setKey_of_not_mem (k : Key) (v : Val) : ∀ es : Entries, k ∉ keys es → keys (setKey k v es) = keys es ++ [k]
  | [], _ => by simp [setKey, keys]
  | (k0, v0) :: es, h => by
    simp only [keys, List.map_cons, List.mem_cons, not_or] at h
    have h0 : ¬ k0 = k := fun e => h.1 e.symm
    have ih := keys_setKey_of_not_mem k v es h.2
    simp only [keys] at ih
    simp [setKey, h0, keys, ih]

theorem setKey_of_not_mem (k : Key) (v : Val) : ∀ es : Entries, k ∉ keys es → setKey k v es = es ++ [(k, v)]
  | [], _ => by simp [setKey]
  | (k0, v0) :: es, h => by
    simp only [keys, List.map_cons, List.mem_cons, not_or] at h
    have h0 : ¬ k0 = k := fun e => h.1 e.symm
    simp [setKey, h0, setKey_of_not_mem k v es h.2]

theorem nodup_keys_setKey {k : Key} {v : Val} {es : Entries} (h : (keys es).Nodup) : (keys (setKey k v es)).Nodup := by
  by_cases hk : k ∈ keys es
  · rw [keys_setKey_of_mem k v es hk]; exact h
  · rw [keys_setKey_of_not_mem k v es hk]
    exact List.nodup_append.mpr ⟨h, by simp, by intro a ha b hb; simp at hb; subst hb; exact fun e => hk (e ▸ ha)⟩

theorem mem_setKey {k : Key} {v : Val} {e : Key × Val} : ∀ {es : Entries}, e ∈ setKey k v es → e = (k, v) ∨ e ∈ es
  | [], h => by simp [setKey] at h; exact Or.inl h
  | (k0, v0) :: es, h => by
    by_cases h0 : k0 = k
    · simp only [setKey, h0, if_true, List.mem_cons] at h
      rcases h with h | h
      · exact Or.inl h
      · exact Or.inr (List.mem_cons_of_mem _ h)
    · simp only [setKey, h0, if_false, List.mem_cons] at h
      rcases h with h | h
      · exact Or.inr (h ▸ List.mem_cons_self)
      · rcases mem_setKey h with h | h
        · exact Or.inl h
        · exact Or.inr (List.mem_cons_of_mem _ h)

theorem delKey_sublist (k : Key) : ∀ es : Entries, (delKey k es).Sublist es
  | [] => by simp [delKey]
  | (k0, v0) :: es => by
    by_cases h0 : k0 = k
    · simp [delKey, h0]
    · simp [delKey, h0, delKey_sublist k es]

theorem nodup_keys_delKey {k : Key} {es : Entries} (h : (keys es).Nodup) : (keys (delKey k es)).Nodup :=
  ((delKey_sublist k es).map (·.1)).nodup h

/-- writing back the value that is already there changes nothing -/
theorem setKey_lookup_self {k : Key} {v : Val} : ∀ {es : Entries}, lookup k es = some v → setKey k v es = es
  | [], h => by simp [lookup] at h
  | (k0, v0) :: es, h => by
    by_cases h0 : k0 = k
    · simp [lookup, h0] at h; simp [setKey, h0, h]
    · simp [lookup, h0] at h; simp [setKey, h0, setKey_lookup_self h]

/-! #### the two invariants in membership form -/

theorem nodupKeysEs_iff : ∀ {es : Entries}, NodupKeysEs es ↔ ∀ e ∈ es, NodupKeysV e.2
  | [] => by simp [NodupKeysEs]
  | (k, v) :: es => by simp [NodupKeysEs, nodupKeysEs_iff (es := es)]

/-! #### `_clean` on placeholder-free data -/

theorem noPhEs_iff : ∀ {es : Entries}, NoPhEs es ↔ ∀ e ∈ es, isPhKey e.1 = false ∧ NoPhV e.2
  | [] => by simp [NoPhEs]
  | (k, v) :: es => by simp [NoPhEs, noPhEs_iff (es := es), and_assoc]

theorem cleanLevel_id (s : SD) (lvl : Entries) (h : ∀ k ∈ keys lvl, isPhKey k = false) :
    cleanLevel s lvl = (s, lvl) := by
  have key : ∀ sel : Key → Bool, (∀ k, sel k = true → isPhKey k = true) → (keys lvl).filter sel = [] := by
    intro sel hsel
    apply List.filter_eq_nil_iff.mpr
    intro k hk hs
    have := h k hk
    rw [hsel k hs] at this
    exact absurd this (by decide)
  simp only [cleanLevel]
  rw [key]
  · simp only [List.foldl_nil]
    rw [key]
    · simp only [List.foldl_nil]
      rw [key]
      · simp only [List.foldl_nil]
      · intro k hk; cases k <;> simp_all [isPhKey]
    · intro k hk; cases k <;> simp_all [isPhKey]
  · intro k hk; cases k <;> simp_all [isPhKey]


theorem setKey_of_mem_nodup {k : Key} {v : Val} {es : Entries} (hn : (keys es).Nodup) (hm : (k, v) ∈ es) :
    setKey k v es = es := setKey_lookup_self (lookup_of_mem_nodup hn hm)

theorem cleanRec_id : ∀ (fuel : Nat) (s : SD) (lvl : Entries),
    NodupKeysV (.dict lvl) → NoPhEs lvl → cleanRec fuel s lvl = (s, lvl)
  | 0, _, _, _, _ => rfl
  | fuel + 1, s, lvl, hn, hp => by
    have hkeys : ∀ k ∈ keys lvl, isPhKey k = false := by
      intro k hk
      obtain ⟨e, he, rfl⟩ := List.mem_map.mp hk
      exact (noPhEs_iff.mp hp e he).1
    simp only [cleanRec, cleanLevel_id s lvl hkeys]
    -- the loop over the entries of the level never changes the accumulator
    suffices H : ∀ l : Entries, (∀ e ∈ l, e ∈ lvl) →
        l.foldl (fun (acc : SD × Entries) e =>
          match e.2 with
          | .dict sub => ((cleanRec fuel acc.1 sub).1, setKey e.1 (.dict (cleanRec fuel acc.1 sub).2) acc.2)
          | _ => acc) (s, lvl) = (s, lvl) from H lvl (fun _ h => h)
    intro l
    induction l with
    | nil => intro _; rfl
    | cons e l ih =>
      intro hsub
      obtain ⟨k, v⟩ := e
      have hmem : (k, v) ∈ lvl := hsub _ List.mem_cons_self
      have hrest := ih fun e he => hsub e (List.mem_cons_of_mem _ he)
      cases v with
      | leaf x => simpa only [List.foldl_cons] using hrest
      | list xs => simpa only [List.foldl_cons] using hrest
      | dict sub =>
        have hsubn : NodupKeysV (.dict sub) := nodupKeysEs_iff.mp hn.2 _ hmem
        have hsubp : NoPhEs sub := (noPhEs_iff.mp hp _ hmem).2
        simp only [List.foldl_cons, cleanRec_id fuel s sub hsubn hsubp, setKey_of_mem_nodup hn.1 hmem]
        exact hrest

/-- the tables are untouched by `_clean` when no placeholder key is present — this half needs no
    key uniqueness -/
theorem cleanRec_fst : ∀ (fuel : Nat) (s : SD) (lvl : Entries), NoPhEs lvl → (cleanRec fuel s lvl).1 = s
  | 0, _, _, _ => rfl
  | fuel + 1, s, lvl, hp => by
    have hkeys : ∀ k ∈ keys lvl, isPhKey k = false := by
      intro k hk
      obtain ⟨e, he, rfl⟩ := List.mem_map.mp hk
      exact (noPhEs_iff.mp hp e he).1
    simp only [cleanRec, cleanLevel_id s lvl hkeys]
    suffices H : ∀ (l : Entries) (acc : SD × Entries), (∀ e ∈ l, e ∈ lvl) → acc.1 = s →
        (l.foldl (fun (acc : SD × Entries) e =>
          match e.2 with
          | .dict sub => ((cleanRec fuel acc.1 sub).1, setKey e.1 (.dict (cleanRec fuel acc.1 sub).2) acc.2)
          | _ => acc) acc).1 = s from H lvl (s, lvl) (fun _ h => h) rfl
    intro l
    induction l with
    | nil => intro acc _ h; exact h
    | cons e l ih =>
      intro acc hsub hacc
      obtain ⟨k, v⟩ := e
      have hmem : (k, v) ∈ lvl := hsub _ List.mem_cons_self
      simp only [List.foldl_cons]
      apply ih _ (fun e he => hsub e (List.mem_cons_of_mem _ he))
      cases v with
      | leaf x => exact hacc
      | list xs => exact hacc
      | dict sub =>
        have hsubp : NoPhEs sub := (noPhEs_iff.mp hp _ hmem).2
        simp only [cleanRec_fst fuel acc.1 sub hsubp]
        exact hacc

/-! #### merge: unfolding, an induction principle, the effect of one step -/

theorem mergeD_nil (top : Bool) (exprs : Tbl ExprEntry) (t : Entries) : mergeD top exprs t [] = t := by
  rw [mergeD]

theorem mergeD_cons (top : Bool) (exprs : Tbl ExprEntry) (t : Entries) (k : Key) (v : Val) (o : Entries) :
    mergeD top exprs t ((k, v) :: o) = mergeD top exprs (mstep top exprs t k v) o := by
  rw [mergeD.eq_def]; rfl

theorem mergeD_induct (exprs : Tbl ExprEntry) {motive : Bool → Entries → Entries → Prop}
    (nil : ∀ top t, motive top t [])
    (cons : ∀ top t k v o,
      (∀ td od, lookup k t = some (.dict td) → v = .dict od → motive false td od) →
      motive top (mstep top exprs t k v) o → motive top t ((k, v) :: o)) :
    ∀ top t o, motive top t o
  | top, t, [] => nil top t
  | top, t, (k, v) :: o =>
    cons top t k v o (fun td od _ _ => mergeD_induct exprs nil cons false td od)
      (mergeD_induct exprs nil cons top _ o)
termination_by _ _ o => sizeOf o
decreasing_by
  · subst_vars; simp; omega
  · simp; omega

theorem selfRef_dict (exprs : Tbl ExprEntry) (k : Key) (es : Entries) : selfRef exprs k (.dict es) = false := by
  cases k <;> rfl

theorem selfRef_isDict {exprs : Tbl ExprEntry} {k : Key} {v : Val} (h : selfRef exprs k v = true) : v.isDict = false := by
  cases v with
  | dict es => rw [selfRef_dict] at h; exact absurd h (by decide)
  | _ => rfl

theorem mergeVal_none_right (top : Bool) (exprs : Tbl ExprEntry) (k : Key) (x : Option Val) :
    mergeVal top exprs k x none = x := by
  cases x with
  | none => rfl
  | some v => cases v <;> rfl

theorem mergeVal_dict_dict (top : Bool) (exprs : Tbl ExprEntry) (k : Key) (ad bd : Entries) :
    mergeVal top exprs k (some (.dict ad)) (some (.dict bd)) = some (.dict (mergeD false exprs ad bd)) := rfl

theorem mergeVal_some_some (top : Bool) (exprs : Tbl ExprEntry) (k : Key) {av bv : Val}
    (h : av.isDict = false ∨ bv.isDict = false) :
    mergeVal top exprs k (some av) (some bv) = if top && selfRef exprs k av then some bv else some av := by
  cases av <;> cases bv <;> first | rfl | simp [Val.isDict] at h

theorem mergeVal_isSome (top : Bool) (exprs : Tbl ExprEntry) (k : Key) (x : Option Val) (v : Val) :
    (mergeVal top exprs k x (some v)).isSome = true := by
  cases x with
  | none => rfl
  | some av =>
    by_cases h : av.isDict = false ∨ v.isDict = false
    · rw [mergeVal_some_some top exprs k h]; split <;> rfl
    · cases av <;> cases v <;> first | rfl | simp [Val.isDict] at h

theorem mstep_dict_dict (top : Bool) (exprs : Tbl ExprEntry) {t : Entries} {k : Key} {td : Entries} (od : Entries)
    (h : lookup k t = some (.dict td)) :
    mstep top exprs t k (.dict od) = setKey k (.dict (mergeD false exprs td od)) t := by
  simp only [mstep, h]

theorem mstep_some (top : Bool) (exprs : Tbl ExprEntry) {t : Entries} {k : Key} {tv v : Val}
    (h : lookup k t = some tv) (hnd : tv.isDict = false ∨ v.isDict = false) :
    mstep top exprs t k v = if top && selfRef exprs k tv then setKey k v t else t := by
  cases tv <;> cases v <;> first | (simp only [mstep, h]; done) | simp [Val.isDict] at hnd

theorem mstep_none (top : Bool) (exprs : Tbl ExprEntry) {t : Entries} {k : Key} (v : Val)
    (h : lookup k t = none) : mstep top exprs t k v = t ++ [(k, v)] := by
  simp only [mstep, h]

theorem lookup_mstep (top : Bool) (exprs : Tbl ExprEntry) (t : Entries) (k : Key) (v : Val) (k' : Key) :
    lookup k' (mstep top exprs t k v) = if k = k' then mergeVal top exprs k (lookup k t) (some v) else lookup k' t := by
  cases h : lookup k t with
  | none =>
    rw [mstep_none top exprs v h, lookup_append]
    by_cases hk : k = k'
    · subst hk; simp [h, lookup, mergeVal]
    · simp [hk, lookup]
  | some tv =>
    by_cases hnd : tv.isDict = false ∨ v.isDict = false
    · rw [mstep_some top exprs h hnd, mergeVal_some_some top exprs k hnd]
      by_cases hc : (top && selfRef exprs k tv) = true
      · simp only [hc, if_true, lookup_setKey]
      · simp only [hc]
        by_cases hk : k = k'
        · subst hk; simp [h]
        · simp [hk]
    · cases tv with
      | dict td =>
        cases v with
        | dict od => rw [mstep_dict_dict top exprs od h, lookup_setKey, mergeVal_dict_dict]
        | _ => simp [Val.isDict] at hnd
      | _ => simp [Val.isDict] at hnd

theorem hasKey_mstep (top : Bool) (exprs : Tbl ExprEntry) (t : Entries) (k : Key) (v : Val) (k' : Key) :
    hasKey k' (mstep top exprs t k v) = (decide (k = k') || hasKey k' t) := by
  unfold hasKey
  rw [lookup_mstep]
  by_cases hk : k = k'
  · simp [hk, mergeVal_isSome]
  · simp [hk]

theorem keys_mstep (top : Bool) (exprs : Tbl ExprEntry) (t : Entries) (k : Key) (v : Val) :
    keys (mstep top exprs t k v) = if hasKey k t then keys t else keys t ++ [k] := by
  unfold mstep
  split
  · rename_i td od h
    have hm : k ∈ keys t := hasKey_iff_mem.mp (by simp [hasKey, h])
    rw [keys_setKey_of_mem k _ t hm]; simp [hasKey, h]
  · rename_i tv _ h hnd
    have hm : k ∈ keys t := hasKey_iff_mem.mp (by simp [hasKey, h])
    split
    · rw [keys_setKey_of_mem k _ t hm]; simp [hasKey, h]
    · simp [hasKey, h]
  · rename_i _ h
    simp [hasKey, h, keys]

theorem merge_lookup_mergeVal (top : Bool) (exprs : Tbl ExprEntry) (k : Key) : ∀ (b a : Entries), (keys b).Nodup →
    lookup k (mergeD top exprs a b) = mergeVal top exprs k (lookup k a) (lookup k b)
  | [], a, _ => by rw [mergeD_nil]; simp only [lookup]; rw [mergeVal_none_right]
  | (kb, vb) :: b, a, hb => by
    have hb' : kb ∉ keys b ∧ (keys b).Nodup := List.nodup_cons.mp hb
    rw [mergeD_cons, merge_lookup_mergeVal top exprs k b _ hb'.2, lookup_mstep]
    by_cases hk : kb = k
    · subst hk
      have : lookup kb b = none := lookup_eq_none_iff.mpr hb'.1
      simp only [if_true, this, mergeVal_none_right, lookup]
    · simp only [hk, if_false, lookup]

/-- merging `o` into a `t` that already "absorbs" every item of `o` changes nothing -/
theorem mergeD_absorb (top : Bool) (exprs : Tbl ExprEntry) : ∀ (o t : Entries),
    (∀ e ∈ o, ∃ tv, lookup e.1 t = some tv ∧
      (∀ td od, tv = .dict td → e.2 = .dict od → mergeD false exprs td od = td) ∧
      (top = true → selfRef exprs e.1 tv = true → tv = e.2)) →
    mergeD top exprs t o = t
  | [], t, _ => mergeD_nil top exprs t
  | (k, v) :: o, t, h => by
    obtain ⟨tv, hl, hdd, hsr⟩ := h (k, v) List.mem_cons_self
    dsimp only at hl hdd hsr
    have hstep : mstep top exprs t k v = t := by
      by_cases hnd : tv.isDict = false ∨ v.isDict = false
      · rw [mstep_some top exprs hl hnd]
        split
        · rename_i hc
          simp only [Bool.and_eq_true] at hc
          rw [← hsr hc.1 hc.2]; exact setKey_lookup_self hl
        · rfl
      · cases tv with
        | dict td =>
          cases v with
          | dict od => rw [mstep_dict_dict top exprs od hl, hdd td od rfl rfl]; exact setKey_lookup_self hl
          | _ => simp [Val.isDict] at hnd
        | _ => simp [Val.isDict] at hnd
    rw [mergeD_cons, hstep]
    exact mergeD_absorb top exprs o t fun e he => h e (List.mem_cons_of_mem _ he)

/-! #### preservation of the two invariants by the dict primitives -/

theorem noPhEs_setKey {k : Key} {v : Val} {es : Entries} (h : NoPhEs es) (hk : isPhKey k = false) (hv : NoPhV v) :
    NoPhEs (setKey k v es) := by
  rw [noPhEs_iff] at h ⊢
  intro e he
  rcases mem_setKey he with rfl | he
  · exact ⟨hk, hv⟩
  · exact h e he

theorem noPhEs_delKey {k : Key} {es : Entries} (h : NoPhEs es) : NoPhEs (delKey k es) := by
  rw [noPhEs_iff] at h ⊢
  exact fun e he => h e ((delKey_sublist k es).subset he)

theorem noPhEs_append {a b : Entries} (ha : NoPhEs a) (hb : NoPhEs b) : NoPhEs (a ++ b) := by
  rw [noPhEs_iff] at ha hb ⊢
  intro e he
  rcases List.mem_append.mp he with he | he
  · exact ha e he
  · exact hb e he

theorem noPhEs_updateD : ∀ {o t : Entries}, NoPhEs t → NoPhEs o → NoPhEs (updateD t o)
  | [], _, ht, _ => ht
  | (k, v) :: o, t, ht, ho => by
    have : updateD t ((k, v) :: o) = updateD (setKey k v t) o := rfl
    rw [this]
    exact noPhEs_updateD (noPhEs_setKey ht ho.1 ho.2.1) ho.2.2

theorem noPhEs_mergeD (exprs : Tbl ExprEntry) : ∀ (top : Bool) (t o : Entries),
    NoPhEs t → NoPhEs o → NoPhEs (mergeD top exprs t o) := by
  apply mergeD_induct exprs (motive := fun top t o => NoPhEs t → NoPhEs o → NoPhEs (mergeD top exprs t o))
  · intro top t ht _; rw [mergeD_nil]; exact ht
  · intro top t k v o ih1 ih2 ht ho
    rw [mergeD_cons]
    refine ih2 ?_ ho.2.2
    cases h : lookup k t with
    | none => rw [mstep_none top exprs v h]; exact noPhEs_append ht ⟨ho.1, ho.2.1, trivial⟩
    | some tv =>
      by_cases hnd : tv.isDict = false ∨ v.isDict = false
      · rw [mstep_some top exprs h hnd]
        split
        · exact noPhEs_setKey ht ho.1 ho.2.1
        · exact ht
      · cases tv with
        | dict td =>
          cases v with
          | dict od =>
            rw [mstep_dict_dict top exprs od h]
            have htd : NoPhEs td := (noPhEs_iff.mp ht _ (lookup_some_mem h)).2
            exact noPhEs_setKey ht ho.1 (ih1 td od h rfl htd ho.2.1)
          | _ => simp [Val.isDict] at hnd
        | _ => simp [Val.isDict] at hnd

theorem nodupV_setKey {k : Key} {v : Val} {es : Entries} (h : NodupKeysV (.dict es)) (hv : NodupKeysV v) :
    NodupKeysV (.dict (setKey k v es)) := by
  refine ⟨nodup_keys_setKey h.1, ?_⟩
  have h2 := h.2
  rw [nodupKeysEs_iff] at h2 ⊢
  intro e he
  rcases mem_setKey he with rfl | he
  · exact hv
  · exact h2 e he

theorem nodupV_delKey {k : Key} {es : Entries} (h : NodupKeysV (.dict es)) : NodupKeysV (.dict (delKey k es)) := by
  refine ⟨nodup_keys_delKey h.1, ?_⟩
  have h2 := h.2
  rw [nodupKeysEs_iff] at h2 ⊢
  exact fun e he => h2 e ((delKey_sublist k es).subset he)

theorem nodupV_updateD : ∀ {o t : Entries}, NodupKeysV (.dict t) → NodupKeysEs o → NodupKeysV (.dict (updateD t o))
  | [], _, ht, _ => ht
  | (k, v) :: o, t, ht, ho => by
    have : updateD t ((k, v) :: o) = updateD (setKey k v t) o := rfl
    rw [this]
    exact nodupV_updateD (nodupV_setKey ht ho.1) ho.2

theorem nodupV_nil : NodupKeysV (.dict []) := ⟨List.nodup_nil, trivial⟩

theorem nodupV_mstep_new {k : Key} {v : Val} {t : Entries} (ht : NodupKeysV (.dict t)) (hv : NodupKeysV v)
    (h : lookup k t = none) : NodupKeysV (.dict (t ++ [(k, v)])) := by
  rw [← setKey_of_not_mem k v t (lookup_eq_none_iff.mp h)]
  exact nodupV_setKey ht hv

theorem nodupV_mergeD (exprs : Tbl ExprEntry) : ∀ (top : Bool) (t o : Entries),
    NodupKeysV (.dict t) → NodupKeysEs o → NodupKeysV (.dict (mergeD top exprs t o)) := by
  apply mergeD_induct exprs
    (motive := fun top t o => NodupKeysV (.dict t) → NodupKeysEs o → NodupKeysV (.dict (mergeD top exprs t o)))
  · intro top t ht _; rw [mergeD_nil]; exact ht
  · intro top t k v o ih1 ih2 ht ho
    rw [mergeD_cons]
    refine ih2 ?_ ho.2
    cases h : lookup k t with
    | none => rw [mstep_none top exprs v h]; exact nodupV_mstep_new ht ho.1 h
    | some tv =>
      by_cases hnd : tv.isDict = false ∨ v.isDict = false
      · rw [mstep_some top exprs h hnd]
        split
        · exact nodupV_setKey ht ho.1
        · exact ht
      · cases tv with
        | dict td =>
          cases v with
          | dict od =>
            rw [mstep_dict_dict top exprs od h]
            have htd : NodupKeysV (.dict td) := nodupKeysEs_iff.mp ht.2 _ (lookup_some_mem h)
            exact nodupV_setKey ht (ih1 td od h rfl htd ho.1.2)
          | _ => simp [Val.isDict] at hnd
        | _ => simp [Val.isDict] at hnd

/-! #### key paths -/

theorem getD_cons (es : Entries) (k : Key) (p : List Key) :
    getD es (k :: p) = match lookup k es with | some w => getV w p | none => none := rfl

theorem getV_nondict_cons {w : Val} (hw : w.isDict = false) (k : Key) (p : List Key) : getV w (k :: p) = none := by
  cases w with
  | dict es => simp [Val.isDict] at hw
  | _ => rfl

/-! #### side tables -/

theorem tbl_get_append {α} (i j : Nat) (a : α) : ∀ t : Tbl α,
    Tbl.get? i (t ++ [(j, a)]) = (Tbl.get? i t).or (if j = i then some a else none)
  | [] => by simp [Tbl.get?]
  | (j0, a0) :: t => by
    by_cases h : j0 = i <;> simp [Tbl.get?, h, tbl_get_append i j a t]

theorem tbl_get_set {α} (i j : Nat) (a : α) : ∀ t : Tbl α,
    Tbl.get? i (Tbl.set j a t) = if j = i then some a else Tbl.get? i t
  | [] => by simp [Tbl.get?, Tbl.set]
  | (j0, a0) :: t => by
    by_cases h0 : j0 = j
    · subst h0; by_cases h : j0 = i <;> simp [Tbl.get?, Tbl.set, h]
    · by_cases h : j0 = i
      · subst h
        have : ¬ j = j0 := fun e => h0 e.symm
        simp [Tbl.get?, Tbl.set, h0, this]
      · simp [Tbl.get?, Tbl.set, h0, h, tbl_get_set i j a t]

theorem tbl_merge_cons {α} (t : Tbl α) (e : Nat × α) (o : Tbl α) :
    Tbl.merge t (e :: o) = Tbl.merge (if (Tbl.get? e.1 t).isSome then t else t ++ [e]) o := rfl

theorem tbl_update_cons {α} (t : Tbl α) (e : Nat × α) (o : Tbl α) :
    Tbl.update t (e :: o) = Tbl.update (Tbl.set e.1 e.2 t) o := rfl

/-! ## A. `_clean` is the identity without placeholder keys -/

/-- **A.** `_clean` changes nothing (data and all four tables) when no key is a comment/include
    placeholder.  Key uniqueness at every dict level (`NodupKeysV`, which every Python value
    satisfies) is needed: see `clean_id_needs_nodup`. -/
theorem clean_id (s : SD) (hn : NodupKeysV (.dict s.data)) (hp : NoPhEs s.data) : s.clean = s := by
  simp only [SD.clean, cleanRec_id _ s s.data hn hp]

/-- the association-list model admits duplicate keys, and on those `_clean`'s write-back
    `data[key] = cleaned sub-dict` hits the first occurrence: without `NodupKeysV` the unrestricted
    statement `NoPhEs s.data → s.clean = s` is false -/
theorem clean_id_needs_nodup :
    ¬ ∀ s : SD, NoPhEs s.data → s.clean = s := by
  intro h
  have := h { data := [(.int 1, .dict []), (.int 1, .dict [(.int 2, .leaf .none)])] }
    (by simp [NoPhEs, NoPhV, isPhKey])
  have := congrArg SD.data this
  revert this
  decide

theorem clean_tables (s : SD) (hp : NoPhEs s.data) :
    s.clean.exprs = s.exprs ∧ s.clean.lineC = s.lineC ∧ s.clean.blockC = s.blockC ∧ s.clean.incl = s.incl := by
  have h := cleanRec_fst (depthV (.dict s.data) + 1) s s.data hp
  have : s.clean = { (cleanRec (depthV (.dict s.data) + 1) s s.data).1 with
      data := (cleanRec (depthV (.dict s.data) + 1) s s.data).2 } := rfl
  rw [this, h]
  exact ⟨rfl, rfl, rfl, rfl⟩

/-! #### consequence for the operations that run `_clean` -/

theorem postUpdate_data (s : SD) (a : Arg) : (s.postUpdate a).data = s.data := by cases a <;> rfl
theorem postMerge_data (s : SD) (a : Arg) : (s.postMerge a).data = s.data := by cases a <;> rfl

theorem update_eq (s : SD) (a : Arg) (hn : NodupKeysV (.dict (updateD s.data a.data))) (hp : NoPhEs (updateD s.data a.data)) :
    s.update a = ({ s with data := updateD s.data a.data }).postUpdate a := by
  unfold SD.update
  exact clean_id _ (by rw [postUpdate_data]; exact hn) (by rw [postUpdate_data]; exact hp)

theorem merge_eq (s : SD) (a : Arg) (hn : NodupKeysV (.dict (mergeD true s.exprs s.data a.data)))
    (hp : NoPhEs (mergeD true s.exprs s.data a.data)) :
    s.merge a = ({ s with data := mergeD true s.exprs s.data a.data }).postMerge a := by
  unfold SD.merge
  exact clean_id _ (by rw [postMerge_data]; exact hn) (by rw [postMerge_data]; exact hp)

theorem or_eq (s : SD) (a : Arg) (hn : NodupKeysV (.dict (updateD s.data a.data))) (hp : NoPhEs (updateD s.data a.data)) :
    s.or a = ({ data := updateD s.data a.data } : SD).postUpdate a := by
  unfold SD.or
  exact clean_id _ (by rw [postUpdate_data]; exact hn) (by rw [postUpdate_data]; exact hp)

theorem ror_eq (s : SD) (o : Entries) (hn : NodupKeysV (.dict (updateD o s.data))) (hp : NoPhEs (updateD o s.data)) :
    s.ror o = ({ data := updateD o s.data } : SD).postUpdate (.sd s) := by
  unfold SD.ror
  exact clean_id _ (by rw [postUpdate_data]; exact hn) (by rw [postUpdate_data]; exact hp)

/-! ## B. refinement to builtin `dict` -/

/-- **B1.** every non-merge operation of `SDict` does to the data exactly what the builtin `dict`
    operation does, and returns the same result, as long as no placeholder key is around
    (so that `_clean` has nothing to do).  `NodupKeysV`/`NodupKeys` (unique keys in every dict) are
    the standing well-formedness of Python values; see `step_refines_needs_nodup`. -/
theorem step_refines (s : SD) (op : Op) (hn : NodupKeysV (.dict s.data)) (hp : NoPhEs s.data)
    (hd : op.isDictOp = true) (hop : op.NoPh) (hon : op.NodupKeys) :
    (step s op).1.data = (dstep s.data op).1 ∧ (step s op).2 = (dstep s.data op).2 := by
  cases op with
  | merge a => simp [Op.isDictOp] at hd
  | setitem k v => exact ⟨rfl, rfl⟩
  | delitem k => simp only [step, dstep]; split <;> exact ⟨rfl, rfl⟩
  | pop k => simp only [step, dstep]; split <;> exact ⟨rfl, rfl⟩
  | popDefault k => simp only [step, dstep]; split <;> exact ⟨rfl, rfl⟩
  | setdefault k v => simp only [step, dstep]; split <;> exact ⟨rfl, rfl⟩
  | clear => exact ⟨rfl, rfl⟩
  | construct o => exact ⟨rfl, rfl⟩
  | copy =>
    simp only [step, dstep]
    rw [clean_id _ (nodupV_updateD nodupV_nil hn.2) (noPhEs_updateD (t := []) (by simp [NoPhEs]) hp)]
    exact ⟨rfl, trivial⟩
  | update a =>
    simp only [step, dstep, update_eq s a (nodupV_updateD hn hon) (noPhEs_updateD hp hop), postUpdate_data]
    exact ⟨trivial, trivial⟩
  | ior a =>
    simp only [step, dstep, update_eq s a (nodupV_updateD hn hon) (noPhEs_updateD hp hop), postUpdate_data]
    exact ⟨trivial, trivial⟩
  | or a =>
    simp only [step, dstep, or_eq s a (nodupV_updateD hn hon) (noPhEs_updateD hp hop), postUpdate_data]
    exact ⟨trivial, trivial⟩
  | ror o =>
    simp only [step, dstep, ror_eq s o (nodupV_updateD hon hn.2) (noPhEs_updateD hop hp), postUpdate_data]
    exact ⟨trivial, trivial⟩

/-- on an association list with a repeated key `_clean` (run by `update`) is not the identity, so
    the unrestricted refinement statement fails in the model (never for a Python dict) -/
theorem step_refines_needs_nodup :
    ¬ ∀ (s : SD) (op : Op), NoPhEs s.data → op.isDictOp = true → op.NoPh →
        (step s op).1.data = (dstep s.data op).1 ∧ (step s op).2 = (dstep s.data op).2 := by
  intro h
  have := (h { data := [(.int 1, .dict []), (.int 1, .dict [(.int 2, .leaf .none)])] } (.update (.plain []))
    (by simp [NoPhEs, NoPhV, isPhKey]) rfl (by simp [Op.NoPh, Arg.data, NoPhEs])).1
  revert this
  decide


/-- both invariants are kept by every operation, `merge` included -/
theorem step_preserves (s : SD) (op : Op) (hn : NodupKeysV (.dict s.data)) (hp : NoPhEs s.data)
    (hop : op.NoPh) (hon : op.NodupKeys) :
    NodupKeysV (.dict (step s op).1.data) ∧ NoPhEs (step s op).1.data := by
  cases op with
  | setitem k v => exact ⟨nodupV_setKey hn hon, noPhEs_setKey hp hop.1 hop.2⟩
  | delitem k =>
    simp only [step]; split
    · exact ⟨nodupV_delKey hn, noPhEs_delKey hp⟩
    · exact ⟨hn, hp⟩
  | pop k =>
    simp only [step]; split
    · exact ⟨nodupV_delKey hn, noPhEs_delKey hp⟩
    · exact ⟨hn, hp⟩
  | popDefault k =>
    simp only [step]; split
    · exact ⟨nodupV_delKey hn, noPhEs_delKey hp⟩
    · exact ⟨hn, hp⟩
  | setdefault k v =>
    simp only [step]; split
    · exact ⟨hn, hp⟩
    · exact ⟨nodupV_setKey hn hon, noPhEs_setKey hp hop.1 hop.2⟩
  | clear => exact ⟨nodupV_nil, trivial⟩
  | construct o => exact ⟨nodupV_updateD nodupV_nil hon, noPhEs_updateD (t := []) trivial hop⟩
  | copy =>
    have h1 := nodupV_updateD nodupV_nil hn.2
    have h2 := noPhEs_updateD (t := []) trivial hp
    simp only [step]
    rw [clean_id _ h1 h2]
    exact ⟨h1, h2⟩
  | update a =>
    have h1 := nodupV_updateD hn hon
    have h2 := noPhEs_updateD hp hop
    simp only [step, update_eq s a h1 h2, postUpdate_data]
    exact ⟨h1, h2⟩
  | ior a =>
    have h1 := nodupV_updateD hn hon
    have h2 := noPhEs_updateD hp hop
    simp only [step, update_eq s a h1 h2, postUpdate_data]
    exact ⟨h1, h2⟩
  | or a =>
    have h1 := nodupV_updateD hn hon
    have h2 := noPhEs_updateD hp hop
    simp only [step, or_eq s a h1 h2, postUpdate_data]
    exact ⟨h1, h2⟩
  | ror o =>
    have h1 := nodupV_updateD hon hn.2
    have h2 := noPhEs_updateD hop hp
    simp only [step, ror_eq s o h1 h2, postUpdate_data]
    exact ⟨h1, h2⟩
  | merge a =>
    have h1 := nodupV_mergeD s.exprs true s.data a.data hn hon
    have h2 := noPhEs_mergeD s.exprs true s.data a.data hp hop
    simp only [step, merge_eq s a h1 h2, postMerge_data]
    exact ⟨h1, h2⟩

/-- **B2.** placeholder-freeness is an invariant of every operation (`merge` included) -/
theorem step_preserves_noPh (s : SD) (op : Op) (hn : NodupKeysV (.dict s.data)) (hp : NoPhEs s.data)
    (hop : op.NoPh) (hon : op.NodupKeys) : NoPhEs (step s op).1.data :=
  (step_preserves s op hn hp hop hon).2

/-- **B3.** key uniqueness, at the top level and in every nested dict, is an invariant of every
    operation (`merge` included) -/
theorem step_preserves_nodup (s : SD) (op : Op) (hn : NodupKeysV (.dict s.data)) (hp : NoPhEs s.data)
    (hop : op.NoPh) (hon : op.NodupKeys) :
    (keys (step s op).1.data).Nodup ∧ NodupKeysEs (step s op).1.data :=
  (step_preserves s op hn hp hop hon).1

/-- **B4.** any program of dict operations: same data after the whole program … -/
theorem run_refines (ops : List Op) : ∀ (s : SD), NodupKeysV (.dict s.data) → NoPhEs s.data →
    (∀ op ∈ ops, op.isDictOp = true ∧ op.NoPh ∧ op.NodupKeys) →
    (ops.foldl (fun st op => (step st op).1) s).data = ops.foldl (fun d op => (dstep d op).1) s.data := by
  induction ops with
  | nil => intros; rfl
  | cons op ops ih =>
    intro s hn hp hops
    obtain ⟨hd, hop, hon⟩ := hops op List.mem_cons_self
    obtain ⟨hn', hp'⟩ := step_preserves s op hn hp hop hon
    simp only [List.foldl_cons]
    rw [ih (step s op).1 hn' hp' (fun o ho => hops o (List.mem_cons_of_mem _ ho)),
      (step_refines s op hn hp hd hop hon).1]

/-- … after every prefix of it … -/
theorem run_refines_prefix (ops : List Op) (n : Nat) (s : SD) (hn : NodupKeysV (.dict s.data)) (hp : NoPhEs s.data)
    (hops : ∀ op ∈ ops, op.isDictOp = true ∧ op.NoPh ∧ op.NodupKeys) :
    ((ops.take n).foldl (fun st op => (step st op).1) s).data
      = (ops.take n).foldl (fun d op => (dstep d op).1) s.data :=
  run_refines (ops.take n) s hn hp fun op ho => hops op (List.mem_of_mem_take ho)

/-- … and the whole trace (data and returned value / `KeyError` after each operation) coincides -/
theorem run_refines_trace (ops : List Op) : ∀ (s : SD), NodupKeysV (.dict s.data) → NoPhEs s.data →
    (∀ op ∈ ops, op.isDictOp = true ∧ op.NoPh ∧ op.NodupKeys) → runS s ops = runD s.data ops := by
  induction ops with
  | nil => intros; rfl
  | cons op ops ih =>
    intro s hn hp hops
    obtain ⟨hd, hop, hon⟩ := hops op List.mem_cons_self
    obtain ⟨hn', hp'⟩ := step_preserves s op hn hp hop hon
    obtain ⟨h1, h2⟩ := step_refines s op hn hp hd hop hon
    simp only [runS, runD]
    rw [ih (step s op).1 hn' hp' (fun o ho => hops o (List.mem_cons_of_mem _ ho)), h1, h2]

/-! ## C. merge algebra -/

/-- **C1.** one-level characterisation of `_recursive_merge`: key by key, a dict on both sides is
    merged recursively, an existing value stays (unless it is a top-level self-reference
    placeholder), a new key gets `b`'s value -/
theorem merge_lookup (top : Bool) (exprs : Tbl ExprEntry) (a b : Entries) (hb : (keys b).Nodup) (k : Key) :
    lookup k (mergeD top exprs a b) =
      match lookup k a, lookup k b with
      | some (.dict ad), some (.dict bd) => some (.dict (mergeD false exprs ad bd))
      | some av, some bv => if top && selfRef exprs k av then some bv else some av
      | some av, none => some av
      | none, bv => bv := by
  rw [merge_lookup_mergeVal top exprs k b a hb]
  rfl


/-- **C2.** key order: the keys of `a` stay where they are, the new keys of `b` follow in `b`'s order -/
theorem merge_keys (top : Bool) (exprs : Tbl ExprEntry) : ∀ (b a : Entries), (keys b).Nodup →
    keys (mergeD top exprs a b) = keys a ++ (keys b).filter (fun k => !hasKey k a)
  | [], a, _ => by rw [mergeD_nil]; simp [keys]
  | (kb, vb) :: b, a, hb => by
    have hb' : kb ∉ keys b ∧ (keys b).Nodup := List.nodup_cons.mp hb
    rw [mergeD_cons, merge_keys top exprs b _ hb'.2, keys_mstep]
    have hfilter : (keys b).filter (fun k => !hasKey k (mstep top exprs a kb vb))
        = (keys b).filter (fun k => !hasKey k a) := by
      apply List.filter_congr
      intro k hk
      have : ¬ kb = k := fun e => hb'.1 (e ▸ hk)
      simp [hasKey_mstep, this]
    rw [hfilter]
    cases h : hasKey kb a <;> simp [keys, h]

/-- **C3.** an existing non-dict value is never overwritten — except the documented case: at the
    top level of an `SDict`, a value that refers to its own key is a placeholder.
    (No uniqueness hypothesis on `b` is needed.) -/
theorem merge_keeps (top : Bool) (exprs : Tbl ExprEntry) (k : Key) (v : Val) : ∀ (b a : Entries),
    lookup k a = some v → v.isDict = false → ¬ (top = true ∧ selfRef exprs k v = true) →
    lookup k (mergeD top exprs a b) = some v
  | [], a, h, _, _ => by rw [mergeD_nil]; exact h
  | (kb, vb) :: b, a, h, hv, hs => by
    rw [mergeD_cons]
    refine merge_keeps top exprs k v b _ ?_ hv hs
    rw [lookup_mstep]
    by_cases hk : kb = k
    · subst hk
      have hc : ¬ (top && selfRef exprs kb v) = true := by simpa using hs
      simp only [if_true, h, mergeVal_some_some top exprs kb (Or.inl hv), hc]
      rfl
    · simp only [hk, if_false]; exact h

/-- **C4.** the same at any depth: a non-dict value reachable in `a` by a key path through dicts is
    still there after the merge.  Below the top level `_recursive_merge` runs with `top = false`, so
    the self-reference exception can only concern a path of length one. -/
theorem merge_keeps_deep (exprs : Tbl ExprEntry) (v : Val) (hv : v.isDict = false) : ∀ (p : List Key) (top : Bool) (a b : Entries),
    getD a p = some v → (∀ k, p = [k] → ¬ (top = true ∧ selfRef exprs k v = true)) →
    getD (mergeD top exprs a b) p = some v
  | [], _, a, _, h, _ => by
    simp only [getD, getV, Option.some.injEq] at h
    subst h; simp [Val.isDict] at hv
  | [k], top, a, b, h, hs => by
    simp only [getD_cons, getV] at h ⊢
    have ha : lookup k a = some v := by
      cases hl : lookup k a with
      | none => rw [hl] at h; simp at h
      | some w => rw [hl] at h; simpa using h
    rw [merge_keeps top exprs k v b a ha hv (hs k rfl)]
  | k :: k' :: p, top, a, b, h, _ => by
    -- the first key leads to a dict `sub`, and keeps doing so while `b` is merged item by item
    obtain ⟨sub, hsub, hget⟩ : ∃ sub, lookup k a = some (.dict sub) ∧ getD sub (k' :: p) = some v := by
      rw [getD_cons] at h
      cases hl : lookup k a with
      | none => rw [hl] at h; simp at h
      | some w =>
        rw [hl] at h
        cases w with
        | dict sub => exact ⟨sub, rfl, h⟩
        | leaf x => simp [getV] at h
        | list xs => simp [getV] at h
    suffices H : ∀ (b a : Entries) (sub : Entries), lookup k a = some (.dict sub) → getD sub (k' :: p) = some v →
        ∃ sub', lookup k (mergeD top exprs a b) = some (.dict sub') ∧ getD sub' (k' :: p) = some v by
      obtain ⟨sub', h1, h2⟩ := H b a sub hsub hget
      rw [getD_cons, h1]; exact h2
    intro b
    induction b with
    | nil => intro a sub h1 h2; rw [mergeD_nil]; exact ⟨sub, h1, h2⟩
    | cons e b ih =>
      obtain ⟨kb, vb⟩ := e
      intro a sub h1 h2
      rw [mergeD_cons]
      by_cases hk : kb = k
      · subst hk
        cases vb with
        | dict od =>
          refine ih _ (mergeD false exprs sub od) ?_ ?_
          · rw [lookup_mstep]; simp only [if_true, h1, mergeVal_dict_dict]
          · exact merge_keeps_deep exprs v hv (k' :: p) false sub od h2 (fun _ _ hc => by simp at hc)
        | leaf x =>
          refine ih _ sub ?_ h2
          rw [lookup_mstep]
          simp only [if_true, h1, mergeVal_some_some top exprs kb (av := .dict sub) (bv := .leaf x) (Or.inr rfl),
            selfRef_dict, Bool.and_false]
          rfl
        | list xs =>
          refine ih _ sub ?_ h2
          rw [lookup_mstep]
          simp only [if_true, h1, mergeVal_some_some top exprs kb (av := .dict sub) (bv := .list xs) (Or.inr rfl),
            selfRef_dict, Bool.and_false]
          rfl
      · refine ih _ sub ?_ h2
        rw [lookup_mstep]; simp only [hk, if_false]; exact h1

/-- **C5.** a key that `a` does not have gets `b`'s value -/
theorem merge_adds (top : Bool) (exprs : Tbl ExprEntry) (a b : Entries) (hb : (keys b).Nodup) (k : Key)
    (h : lookup k a = none) : lookup k (mergeD top exprs a b) = lookup k b := by
  rw [merge_lookup_mergeVal top exprs k b a hb, h]; rfl

/-- **C6.** the documented exception: a top-level self-reference placeholder is filled from `b` -/
theorem merge_fills_selfref (exprs : Tbl ExprEntry) (a b : Entries) (hb : (keys b).Nodup) (k : Key) (v w : Val)
    (ha : lookup k a = some v) (hs : selfRef exprs k v = true) (hw : lookup k b = some w)
    (hnd : v.isDict = false ∨ w.isDict = false) :
    lookup k (mergeD true exprs a b) = some w := by
  rw [merge_lookup_mergeVal true exprs k b a hb, ha, hw, mergeVal_some_some true exprs k hnd]
  simp [hs]

/-- (the side condition of `merge_fills_selfref` is automatic: a self-reference is a string) -/
theorem merge_fills_selfref' (exprs : Tbl ExprEntry) (a b : Entries) (hb : (keys b).Nodup) (k : Key) (v w : Val)
    (ha : lookup k a = some v) (hs : selfRef exprs k v = true) (hw : lookup k b = some w) :
    lookup k (mergeD true exprs a b) = some w :=
  merge_fills_selfref exprs a b hb k v w ha hs hw (Or.inl (selfRef_isDict hs))

/-! #### idempotence -/

mutual
  /-- merging a dict into itself changes nothing -/
  theorem merge_selfV (exprs : Tbl ExprEntry) : ∀ v : Val, NodupKeysV v → ∀ od, v = .dict od → mergeD false exprs od od = od
    | .leaf _, _, _, h => by cases h
    | .list _, _, _, h => by cases h
    | .dict es, hn, od, h => by
      cases h
      apply mergeD_absorb
      intro e he
      refine ⟨e.2, lookup_of_mem_nodup hn.1 he, ?_, fun h => by cases h⟩
      intro td od' h1 h2
      have := merge_selfEs exprs es hn.2 e he od' h2
      rw [h1] at h2; cases h2; exact this
  theorem merge_selfEs (exprs : Tbl ExprEntry) : ∀ es : Entries, NodupKeysEs es → ∀ e ∈ es, ∀ od, e.2 = .dict od → mergeD false exprs od od = od
    | [], _, e, he, _, _ => by simp at he
    | (k, v) :: es, hn, e, he, od, h => by
      rcases List.mem_cons.mp he with rfl | hm
      · exact merge_selfV exprs v hn.1 od h
      · exact merge_selfEs exprs es hn.2 e hm od h
end

/-- **C8.** `merge` of a dict into itself is a no-op -/
theorem merge_noop_self (exprs : Tbl ExprEntry) (a : Entries) (hn : NodupKeysV (.dict a)) :
    mergeD false exprs a a = a := merge_selfV exprs (.dict a) hn a rfl


/-- one level of the idempotence proof, given idempotence for the dicts nested in `b` -/
theorem merge_idem_core (top : Bool) (exprs : Tbl ExprEntry) (a b : Entries) (hb : (keys b).Nodup)
    (hsub : ∀ e ∈ b, ∀ bd, e.2 = .dict bd →
      (∀ ad, mergeD false exprs (mergeD false exprs ad bd) bd = mergeD false exprs ad bd) ∧
      mergeD false exprs bd bd = bd) :
    mergeD top exprs (mergeD top exprs a b) b = mergeD top exprs a b := by
  apply mergeD_absorb
  intro e he
  obtain ⟨k, v⟩ := e
  dsimp only
  have hlb : lookup k b = some v := lookup_of_mem_nodup hb he
  rw [merge_lookup_mergeVal top exprs k b a hb, hlb]
  have hself : ∀ td od, v = .dict td → v = .dict od → mergeD false exprs td od = td := by
    intro td od h1 h2
    rw [h1] at h2; cases h2
    exact (hsub (k, v) he td h1).2
  cases hla : lookup k a with
  | none => exact ⟨v, rfl, hself, fun _ _ => rfl⟩
  | some av =>
    by_cases hnd : av.isDict = false ∨ v.isDict = false
    · rw [mergeVal_some_some top exprs k hnd]
      by_cases hc : (top && selfRef exprs k av) = true
      · simp only [hc, if_true]
        exact ⟨v, rfl, hself, fun _ _ => rfl⟩
      · simp only [hc]
        refine ⟨av, rfl, ?_, ?_⟩
        · intro td od h1 h2
          rw [h1, h2] at hnd; simp [Val.isDict] at hnd
        · intro h1 h2
          rw [h1, h2] at hc; simp at hc
    · cases av with
      | dict ad =>
        cases v with
        | dict bd =>
          rw [mergeVal_dict_dict]
          refine ⟨_, rfl, ?_, ?_⟩
          · intro td od h1 h2
            cases h1; cases h2
            exact (hsub (k, .dict bd) he bd rfl).1 ad
          · intro _ h2; rw [selfRef_dict] at h2; exact absurd h2 (by decide)
        | _ => simp [Val.isDict] at hnd
      | _ => simp [Val.isDict] at hnd

mutual
  theorem merge_idemV (exprs : Tbl ExprEntry) : ∀ v : Val, NodupKeysV v → ∀ bd, v = .dict bd →
      ∀ ad, mergeD false exprs (mergeD false exprs ad bd) bd = mergeD false exprs ad bd
    | .leaf _, _, _, h => by cases h
    | .list _, _, _, h => by cases h
    | .dict es, hn, bd, h => by
      cases h
      intro ad
      apply merge_idem_core false exprs ad es hn.1
      intro e he bd' h'
      exact ⟨merge_idemEs exprs es hn.2 e he bd' h', merge_selfEs exprs es hn.2 e he bd' h'⟩
  theorem merge_idemEs (exprs : Tbl ExprEntry) : ∀ es : Entries, NodupKeysEs es → ∀ e ∈ es, ∀ bd, e.2 = .dict bd →
      ∀ ad, mergeD false exprs (mergeD false exprs ad bd) bd = mergeD false exprs ad bd
    | [], _, e, he, _, _ => by simp at he
    | (k, v) :: es, hn, e, he, bd, h => by
      rcases List.mem_cons.mp he with rfl | hm
      · exact merge_idemV exprs v hn.1 bd h
      · exact merge_idemEs exprs es hn.2 e hm bd h
end

/-- **C7.** merging the same dict a second time changes nothing (`b` with unique keys at every level) -/
theorem merge_idem (exprs : Tbl ExprEntry) (a b : Entries) (hb : NodupKeysV (.dict b)) :
    mergeD false exprs (mergeD false exprs a b) b = mergeD false exprs a b :=
  merge_idemV exprs (.dict b) hb b rfl a

/-- **C7'.** the same for the outermost call on an `SDict` (`top = true`): a filled self-reference
    placeholder is at worst re-filled with the same value -/
theorem merge_idem_top (exprs : Tbl ExprEntry) (a b : Entries) (hb : NodupKeysV (.dict b)) :
    mergeD true exprs (mergeD true exprs a b) b = mergeD true exprs a b := by
  apply merge_idem_core true exprs a b hb.1
  intro e he bd h
  exact ⟨merge_idemEs exprs b hb.2 e he bd h, merge_selfEs exprs b hb.2 e he bd h⟩

/-! #### the id-keyed side tables -/

/-- **C9a.** table merge: an id already in the table keeps its entry -/
theorem tbl_merge_keeps {α} (i : Nat) (x : α) : ∀ (o t : Tbl α),
    Tbl.get? i t = some x → Tbl.get? i (Tbl.merge t o) = some x
  | [], _, h => h
  | (j, a) :: o, t, h => by
    rw [tbl_merge_cons]
    apply tbl_merge_keeps i x o
    split
    · exact h
    · rw [tbl_get_append, h]; rfl

/-- **C9b.** table merge: a new id gets the (first) entry of the other table.
    (Stronger than asked: no uniqueness of the ids of `o` is needed, the first entry wins on both sides.) -/
theorem tbl_merge_adds {α} (i : Nat) : ∀ (o t : Tbl α),
    Tbl.get? i t = none → Tbl.get? i (Tbl.merge t o) = Tbl.get? i o
  | [], _, h => h
  | (j, a) :: o, t, h => by
    rw [tbl_merge_cons]
    by_cases hj : j = i
    · subst hj
      simp only [h, Option.isSome_none, Bool.false_eq_true, if_false, Tbl.get?, if_true]
      exact tbl_merge_keeps j a o _ (by rw [tbl_get_append, h]; simp)
    · have hnone : Tbl.get? i (if (Tbl.get? (j, a).1 t).isSome then t else t ++ [(j, a)]) = none := by
        split
        · exact h
        · rw [tbl_get_append, h]; simp [hj]
      rw [tbl_merge_adds i o _ hnone]
      simp [Tbl.get?, hj]

/-- **C9c.** table update: the other table's entry wins (ids of `o` unique, as in any Python dict) -/
theorem tbl_update_overrides {α} (i : Nat) : ∀ (o t : Tbl α), (o.map (·.1)).Nodup →
    Tbl.get? i (Tbl.update t o) = (Tbl.get? i o).or (Tbl.get? i t)
  | [], _, _ => by simp [Tbl.update, Tbl.get?]
  | (j, a) :: o, t, hn => by
    have hn' := List.nodup_cons.mp hn
    rw [tbl_update_cons, tbl_update_overrides i o _ hn'.2, tbl_get_set]
    by_cases hj : j = i
    · subst hj
      have : Tbl.get? j o = none := by
        have hnot := hn'.1
        clear hn hn'
        induction o with
        | nil => rfl
        | cons e o ih =>
          simp only [List.map_cons, List.mem_cons, not_or] at hnot
          have : ¬ e.1 = j := fun h => hnot.1 h.symm
          simp [Tbl.get?, this, ih hnot.2]
      simp [Tbl.get?, this]
    · simp [Tbl.get?, hj]

/-- without uniqueness: the *last* entry of `o` for an id wins -/
theorem tbl_update_overrides_last {α} (i : Nat) : ∀ (o t : Tbl α),
    Tbl.get? i (Tbl.update t o) = (Tbl.get? i o.reverse).or (Tbl.get? i t)
  | [], _ => by simp [Tbl.update, Tbl.get?]
  | (j, a) :: o, t => by
    rw [tbl_update_cons, tbl_update_overrides_last i o, tbl_get_set, List.reverse_cons, tbl_get_append]
    cases Tbl.get? i o.reverse <;> by_cases hj : j = i <;> simp [hj]

/-- **C10.** `merge` with an `SDict` argument merges the four tables (existing ids keep their
    entry), provided the merged data has no placeholder key for `_clean` to act on -/
theorem merge_tables (s m : SD) (hp : NoPhEs (mergeD true s.exprs s.data m.data)) :
    (s.merge (.sd m)).exprs = Tbl.merge s.exprs m.exprs ∧
    (s.merge (.sd m)).lineC = Tbl.merge s.lineC m.lineC ∧
    (s.merge (.sd m)).blockC = Tbl.merge s.blockC m.blockC ∧
    (s.merge (.sd m)).incl = Tbl.merge s.incl m.incl := by
  unfold SD.merge
  exact clean_tables _ (by rw [postMerge_data]; exact hp)

/-- the hypothesis of `merge_tables` follows from the same fact about the two operands; with
    unique keys the data is the merged data as well -/
theorem merge_tables' (s m : SD) (hn : NodupKeysV (.dict s.data)) (hp : NoPhEs s.data)
    (hmn : NodupKeysEs m.data) (hmp : NoPhEs m.data) :
    (s.merge (.sd m)).exprs = Tbl.merge s.exprs m.exprs ∧
    (s.merge (.sd m)).lineC = Tbl.merge s.lineC m.lineC ∧
    (s.merge (.sd m)).blockC = Tbl.merge s.blockC m.blockC ∧
    (s.merge (.sd m)).incl = Tbl.merge s.incl m.incl ∧
    (s.merge (.sd m)).data = mergeD true s.exprs s.data m.data := by
  have h2 := noPhEs_mergeD s.exprs true s.data m.data hp hmp
  obtain ⟨a, b, c, d⟩ := merge_tables s m h2
  refine ⟨a, b, c, d, ?_⟩
  rw [merge_eq s (.sd m) (nodupV_mergeD s.exprs true s.data m.data hn hmn) h2]; rfl

/-- merging a plain mapping leaves the tables alone -/
theorem merge_tables_plain (s : SD) (o : Entries)
    (hn : NodupKeysV (.dict (mergeD true s.exprs s.data o))) (hp : NoPhEs (mergeD true s.exprs s.data o)) :
    s.merge (.plain o) = { s with data := mergeD true s.exprs s.data o } := by
  rw [merge_eq s (.plain o) hn hp]; rfl

/-- **C11.** `update` with an `SDict` argument updates the four tables (the argument's entries win) -/
theorem update_tables (s m : SD) (hp : NoPhEs (updateD s.data m.data)) :
    (s.update (.sd m)).exprs = Tbl.update s.exprs m.exprs ∧
    (s.update (.sd m)).lineC = Tbl.update s.lineC m.lineC ∧
    (s.update (.sd m)).blockC = Tbl.update s.blockC m.blockC ∧
    (s.update (.sd m)).incl = Tbl.update s.incl m.incl := by
  unfold SD.update
  exact clean_tables _ (by rw [postUpdate_data]; exact hp)

theorem update_tables' (s m : SD) (hn : NodupKeysV (.dict s.data)) (hp : NoPhEs s.data)
    (hmn : NodupKeysEs m.data) (hmp : NoPhEs m.data) :
    (s.update (.sd m)).exprs = Tbl.update s.exprs m.exprs ∧
    (s.update (.sd m)).lineC = Tbl.update s.lineC m.lineC ∧
    (s.update (.sd m)).blockC = Tbl.update s.blockC m.blockC ∧
    (s.update (.sd m)).incl = Tbl.update s.incl m.incl ∧
    (s.update (.sd m)).data = updateD s.data m.data := by
  have h2 := noPhEs_updateD hp hmp
  obtain ⟨a, b, c, d⟩ := update_tables s m h2
  refine ⟨a, b, c, d, ?_⟩
  rw [update_eq s (.sd m) (nodupV_updateD hn hmn) h2]; rfl

/-! ## D. non-vacuity: the hypotheses are satisfiable and the theorems say something -/

section examples

private def sk (s : String) : Key := .str s.toList
private def sv (s : String) : Val := .leaf (.str s.toList)
private def iv (z : Int) : Val := .leaf (.int z)

/-- `{a: "banana", d: {x: 1}}` -/
private def exA : Entries := [(sk "a", sv "banana"), (sk "d", .dict [(sk "x", iv 1)])]
/-- `{a: 1, d: {x: 2, y: 3}, n: 5}` -/
private def exB : Entries := [(sk "a", iv 1), (sk "d", .dict [(sk "x", iv 2), (sk "y", iv 3)]), (sk "n", iv 5)]
/-- `{a: "banana", d: {x: 1, y: 3}, n: 5}` -/
private def exAB : Entries := [(sk "a", sv "banana"), (sk "d", .dict [(sk "x", iv 1), (sk "y", iv 3)]), (sk "n", iv 5)]

private theorem sk_inj (a b : String) : sk a = sk b ↔ a = b := by simp [sk, String.toList_inj]

private theorem exA_nodup : NodupKeysV (.dict exA) := by
  simp [exA, NodupKeysV, NodupKeysEs, keys, sk_inj, sv, iv]
private theorem exB_nodup : NodupKeysV (.dict exB) := by
  simp [exB, NodupKeysV, NodupKeysEs, keys, sk_inj, iv]
private theorem exA_noPh : NoPhEs exA := by
  simp only [exA, NoPhEs, NoPhV, sv, iv]; decide
private theorem exB_noPh : NoPhEs exB := by
  simp only [exB, NoPhEs, NoPhV, iv]; decide

/-- the merge of the task's example, computed -/
example : mergeD false [] exA exB = exAB := by
  simp [exA, exB, exAB, mergeD_cons, mergeD_nil, mstep, lookup, setKey, sk_inj, sv, iv]

/-- … also as the outermost call on an `SDict` ("banana" does not refer to `$a`) -/
example : mergeD true [] exA exB = exAB := by
  have h : selfRef [] (sk "a") (sv "banana") = false := by decide
  simp only [sv] at h; simp at h
  simp [exA, exB, exAB, mergeD_cons, mergeD_nil, mstep, lookup, setKey, sk_inj, h, sv, iv]

/-- `{v: "$v+1", w: 0}`: `v` is a self-reference placeholder -/
private def exC : Entries := [(sk "v", sv "$v+1"), (sk "w", iv 0)]
/-- `{v: 7, w: 8}` -/
private def exD : Entries := [(sk "v", iv 7), (sk "w", iv 8)]

set_option maxRecDepth 10000 in
private theorem exC_selfRef : selfRef [] (sk "v") (sv "$v+1") = true := by decide

private theorem exC_nodup : NodupKeysV (.dict exC) := by
  simp [exC, NodupKeysV, NodupKeysEs, keys, sk_inj, sv, iv]
private theorem exD_nodup : NodupKeysV (.dict exD) := by
  simp [exD, NodupKeysV, NodupKeysEs, keys, sk_inj, iv]
private theorem exC_noPh : NoPhEs exC := by
  simp only [exC, NoPhEs, NoPhV, sv, iv]; decide
private theorem exD_noPh : NoPhEs exD := by
  simp only [exD, NoPhEs, NoPhV, iv]; decide

/-- `clean_id` applies to a dict with nesting and a non-empty table -/
example : ({ data := exA, lineC := [(1, "// c".toList)] } : SD).clean = { data := exA, lineC := [(1, "// c".toList)] } :=
  clean_id _ exA_nodup exA_noPh

/-- `step_refines` applies to `update`, and the result is what builtin `dict.update` gives -/
example : (step { data := exA } (.update (.plain exB))).1.data = updateD exA exB :=
  (step_refines { data := exA } (.update (.plain exB)) exA_nodup exA_noPh rfl exB_noPh exB_nodup.2).1
example : updateD exA exB = exB := by decide

/-- `run_refines_trace` applies to a program that sets, pops, updates, copies and hits a `KeyError` -/
example : runS { data := exA } [.setitem (sk "z") (iv 9), .pop (sk "a"), .update (.plain exB), .copy, .delitem (sk "q")]
    = runD exA [.setitem (sk "z") (iv 9), .pop (sk "a"), .update (.plain exB), .copy, .delitem (sk "q")] := by
  apply run_refines_trace _ _ exA_nodup exA_noPh
  intro op hop
  simp only [List.mem_cons, List.not_mem_nil, or_false] at hop
  rcases hop with rfl | rfl | rfl | rfl | rfl
  · exact ⟨rfl, ⟨by decide, trivial⟩, trivial⟩
  · exact ⟨rfl, trivial, trivial⟩
  · exact ⟨rfl, exB_noPh, exB_nodup.2⟩
  · exact ⟨rfl, trivial, trivial⟩
  · exact ⟨rfl, trivial, trivial⟩
example : (runD exA [.setitem (sk "z") (iv 9), .pop (sk "a"), .update (.plain exB), .copy, .delitem (sk "q")]).map (·.2)
    = [.unit, .val (sv "banana"), .unit, .unit, .keyError] := by rfl

/-- `merge_keeps`: "banana" survives the merge of `{a: 1, …}` -/
example : lookup (sk "a") (mergeD true [] exA exB) = some (sv "banana") :=
  merge_keeps true [] (sk "a") (sv "banana") exB exA (by decide) rfl (by decide)

/-- `merge_keeps_deep`: so does `d.x = 1` -/
example : getD (mergeD true [] exA exB) [sk "d", sk "x"] = some (iv 1) :=
  merge_keeps_deep [] (iv 1) rfl [sk "d", sk "x"] true exA exB (by decide) (by intro k h; cases h)

/-- `merge_keys`: key order of the merged dict -/
example : keys (mergeD true [] exA exB) = [sk "a", sk "d", sk "n"] := by
  rw [merge_keys true [] exB exA exB_nodup.1]; decide

/-- `merge_fills_selfref`: the placeholder `v: "$v+1"` is filled, the ordinary `w: 0` is kept -/
example : lookup (sk "v") (mergeD true [] exC exD) = some (iv 7) :=
  merge_fills_selfref [] exC exD exD_nodup.1 (sk "v") (sv "$v+1") (iv 7) (by decide) exC_selfRef (by decide) (Or.inl rfl)
example : lookup (sk "w") (mergeD true [] exC exD) = some (iv 0) :=
  merge_keeps true [] (sk "w") (iv 0) exD exC (by decide) rfl (by decide)
/-- … but only at the top level of an `SDict` -/
example : lookup (sk "v") (mergeD false [] exC exD) = some (sv "$v+1") :=
  merge_keeps false [] (sk "v") (sv "$v+1") exD exC (by decide) rfl (by decide)

/-- `merge_idem`, `merge_idem_top` instantiated -/
example : mergeD false [] (mergeD false [] exA exB) exB = mergeD false [] exA exB := merge_idem [] exA exB exB_nodup
example : mergeD true [] (mergeD true [] exC exD) exD = mergeD true [] exC exD := merge_idem_top [] exC exD exD_nodup

/-- `merge_tables'`: existing ids keep their text, new ids are added -/
example : (({ data := exC, lineC := [(1, "// a".toList)] } : SD).merge
      (.sd { data := exD, lineC := [(1, "// b".toList), (2, "// c".toList)] })).lineC
    = [(1, "// a".toList), (2, "// c".toList)] := by
  rw [(merge_tables' _ _ exC_nodup exC_noPh exD_nodup.2 exD_noPh).2.1]; decide

/-- `update_tables'`: the argument's text wins -/
example : (({ data := exC, lineC := [(1, "// a".toList)] } : SD).update
      (.sd { data := exD, lineC := [(1, "// b".toList), (2, "// c".toList)] })).lineC
    = [(1, "// b".toList), (2, "// c".toList)] := by
  rw [(update_tables' _ _ exC_nodup exC_noPh exD_nodup.2 exD_noPh).2.1]; decide

end examples

/-! #### the uniqueness hypotheses on `b` are needed (a pair list may repeat a key; a dict cannot) -/

theorem merge_keys_needs_nodup :
    ¬ ∀ (top : Bool) (exprs : Tbl ExprEntry) (b a : Entries),
      keys (mergeD top exprs a b) = keys a ++ (keys b).filter (fun k => !hasKey k a) := by
  intro h
  have := h false [] [(.int 1, .leaf .none), (.int 1, .leaf .none)] []
  simp [mergeD_cons, mergeD_nil, mstep, lookup, keys, hasKey] at this

theorem merge_adds_needs_nodup :
    ¬ ∀ (top : Bool) (exprs : Tbl ExprEntry) (a b : Entries) (k : Key),
      lookup k a = none → lookup k (mergeD top exprs a b) = lookup k b := by
  intro h
  have := h false [] [] [(.int 1, .dict [(.int 2, .leaf .none)]), (.int 1, .dict [(.int 3, .leaf .none)])] (.int 1) rfl
  simp [mergeD_cons, mergeD_nil, mstep, lookup, setKey] at this

theorem tbl_update_overrides_needs_nodup :
    ¬ ∀ (i : Nat) (o t : Tbl Nat), Tbl.get? i (Tbl.update t o) = (Tbl.get? i o).or (Tbl.get? i t) := by
  intro h
  have := h 1 [(1, 10), (1, 20)] []
  revert this; decide


end DictIO.C07
