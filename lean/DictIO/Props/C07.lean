/-
  C07 -- `SDict` behaves like a builtin `dict` for the mapping operations; `merge` never
  overwrites (except the documented self-reference placeholder), recurses into dicts present on
  both sides, appends new keys in order, and is idempotent; `_clean` is the identity on data
  without placeholder keys.
  Model: `step`/`dstep`, `mergeD`, `SD.clean` (Model/Dict.lean).
-/
import DictIO.Model.Dict
import DictIO.Lemmas.Assoc

namespace DictIO.C07
open DictIO

/-! ## helper lemmas -/

/-! #### association lists -/

theorem lookup_setKey (k k' : Key) (v : Val) : ∀ es : Entries,
    lookup k' (setKey k v es) = if k = k' then some v else lookup k' es
  | [] => by simp [setKey, lookup]
  | (k0, v0) :: es => by
    have ih := lookup_setKey k k' v es
    by_cases h : k0 = k
    · subst h; by_cases h' : k0 = k' <;> simp [setKey, lookup, h']
    · by_cases h' : k0 = k'
      · subst h'
        have : ¬ k = k0 := fun e => h e.symm
        simp [setKey, lookup, h, this]
      · simp [setKey, lookup, h, h', ih]

theorem lookup_append (k : Key) : ∀ a b : Entries, lookup k (a ++ b) = (lookup k a).or (lookup k b)
  | [], b => by simp [lookup]
  | (k0, v0) :: a, b => by
    by_cases h : k0 = k <;> simp [lookup, h, lookup_append k a b]

theorem hasKey_iff_mem {k : Key} {es : Entries} : hasKey k es = true ↔ k ∈ keys es := by
  unfold hasKey
  cases h : lookup k es with
  | none => simpa using lookup_eq_none_iff.mp h
  | some v =>
    simp only [Option.isSome_some, true_iff]
    exact List.mem_map_of_mem (f := (·.1)) (lookup_some_mem h)

theorem hasKey_false_iff {k : Key} {es : Entries} : hasKey k es = false ↔ k ∉ keys es := by
  rw [← hasKey_iff_mem]; simp

theorem keys_setKey_of_mem (k : Key) (v : Val) : ∀ es : Entries, k ∈ keys es → keys (setKey k v es) = keys es
  | [], h => by simp [keys] at h
  | (k0, v0) :: es, h => by
    by_cases h0 : k0 = k
    · simp [setKey, h0, keys]
    · have : k ∈ keys es := by
        simp only [keys, List.map_cons, List.mem_cons] at h
        rcases h with h | h
        · exact absurd h.symm h0
        · exact h
      have ih := keys_setKey_of_mem k v es this
      simp only [keys] at ih
      simp [setKey, h0, keys, ih]

theorem keys_setKey_of_not_mem (k : Key) (v : Val) : ∀ es : Entries, k ∉ keys es → keys (setKey k v es) = keys es ++ [k]
  | [], _ => by simp [setKey, keys]
  | (k0, v0) :: es, h => by
    simp only [keys, List.map_cons, List.mem_cons, not_or] at h
    have h0 : ¬ k0 = k := fun e => h.1 e.symm
    have ih := keys_setKey_of_not_mem k v es h.2
    simp only [keys] at ih
    simp [setKey, h0, keys, ih]

theorem setKey_of_not_mem (k : Key) (v : Val) : ∀ es : Entries, k ∉ keys es → setKey k v es = es ++ [(k, v)]
  | [], _ => by simp [setKey]
  | (k0, v0) :: es, h => by
    simp only [keys, List.map_cons, List.mem_cons, not_or] at h
    have h0 : ¬ k0 = k := fun e => h.1 e.symm
    simp [setKey, h0, setKey_of_not_mem k v es h.2]

theorem nodup_keys_setKey {k : Key} {v : Val} {es : Entries} (h : (keys es).Nodup) : (keys (setKey k v es)).Nodup := by
  by_cases hk : k ∈ keys es
  · rw [keys_setKey_of_mem k v es hk]; exact h
  · rw [keys_setKey_of_not_mem k v es hk]
    exact List.nodup_append.mpr ⟨h, by simp, by intro a ha b hb; simp at hb; subst hb; exact fun e => hk (e ▸ ha)⟩

theorem mem_setKey {k : Key} {v : Val} {e : Key × Val} : ∀ {es : Entries}, e ∈ setKey k v es → e = (k, v) ∨ e ∈ es
  | [], h => by simp [setKey] at h; exact Or.inl h
  | (k0, v0) :: es, h => by
    by_cases h0 : k0 = k
    · simp only [setKey, h0, if_true, List.mem_cons] at h
      rcases h with h | h
      · exact Or.inl h
      · exact Or.inr (List.mem_cons_of_mem _ h)
    · simp only [setKey, h0, if_false, List.mem_cons] at h
      rcases h with h | h
      · exact Or.inr (h ▸ List.mem_cons_self)
      · rcases mem_setKey h with h | h
        · exact Or.inl h
        · exact Or.inr (List.mem_cons_of_mem _ h)

theorem delKey_sublist (k : Key) : ∀ es : Entries, (delKey k es).Sublist es
  | [] => by simp [delKey]
  | (k0, v0) :: es => by
    by_cases h0 : k0 = k
    · simp [delKey, h0]
    · simp [delKey, h0, delKey_sublist k es]

theorem nodup_keys_delKey {k : Key} {es : Entries} (h : (keys es).Nodup) : (keys (delKey k es)).Nodup :=
  ((delKey_sublist k es).map (·.1)).nodup h

/-- writing back the value that is already there changes nothing -/
theorem setKey_lookup_self {k : Key} {v : Val} : ∀ {es : Entries}, lookup k es = some v → setKey k v es = es
  | [], h => by simp [lookup] at h
  | (k0, v0) :: es, h => by
    by_cases h0 : k0 = k
    · simp [lookup, h0] at h; simp [setKey, h0, h]
    · simp [lookup, h0] at h; simp [setKey, h0, setKey_lookup_self h]

/-! #### the two invariants in membership form -/

theorem nodupKeysEs_iff : ∀ {es : Entries}, NodupKeysEs es ↔ ∀ e ∈ es, NodupKeysV e.2
  | [] => by simp [NodupKeysEs]
  | (k, v) :: es => by simp [NodupKeysEs, nodupKeysEs_iff (es := es)]


/-! ## A. `_clean` is the identity without placeholder keys -/

/-- the keys `_clean_data` looks at: BLOCKCOMMENT / INCLUDE / LINECOMMENT followed by six digits -/
def isPhKey : Key → Bool
  | .str s => containsPh kwBlock s || containsPh kwIncl s || containsPh kwLine s
  | .int _ => false

mutual
  /-- no placeholder key at any dict level reachable through dict nesting (lists are opaque) -/
  def NoPhV : Val → Prop
    | .dict es => NoPhEs es
    | _ => True
  def NoPhEs : Entries → Prop
    | [] => True
    | (k, v) :: es => isPhKey k = false ∧ NoPhV v ∧ NoPhEs es
end

theorem noPhEs_iff : ∀ {es : Entries}, NoPhEs es ↔ ∀ e ∈ es, isPhKey e.1 = false ∧ NoPhV e.2
  | [] => by simp [NoPhEs]
  | (k, v) :: es => by simp [NoPhEs, noPhEs_iff (es := es), and_assoc]

theorem cleanLevel_id (s : SD) (lvl : Entries) (h : ∀ k ∈ keys lvl, isPhKey k = false) :
    cleanLevel s lvl = (s, lvl) := by
  have key : ∀ sel : Key → Bool, (∀ k, sel k = true → isPhKey k = true) → (keys lvl).filter sel = [] := by
    intro sel hsel
    apply List.filter_eq_nil_iff.mpr
    intro k hk hs
    have := h k hk
    rw [hsel k hs] at this
    exact absurd this (by decide)
  simp only [cleanLevel]
  rw [key]
  · simp only [List.foldl_nil]
    rw [key]
    · simp only [List.foldl_nil]
      rw [key]
      · simp only [List.foldl_nil]
      · intro k hk; cases k <;> simp_all [isPhKey]
    · intro k hk; cases k <;> simp_all [isPhKey]
  · intro k hk; cases k <;> simp_all [isPhKey]


theorem setKey_of_mem_nodup {k : Key} {v : Val} {es : Entries} (hn : (keys es).Nodup) (hm : (k, v) ∈ es) :
    setKey k v es = es := setKey_lookup_self (lookup_of_mem_nodup hn hm)

theorem cleanRec_id : ∀ (fuel : Nat) (s : SD) (lvl : Entries),
    NodupKeysV (.dict lvl) → NoPhEs lvl → cleanRec fuel s lvl = (s, lvl)
  | 0, _, _, _, _ => rfl
  | fuel + 1, s, lvl, hn, hp => by
    have hkeys : ∀ k ∈ keys lvl, isPhKey k = false := by
      intro k hk
      obtain ⟨e, he, rfl⟩ := List.mem_map.mp hk
      exact (noPhEs_iff.mp hp e he).1
    simp only [cleanRec, cleanLevel_id s lvl hkeys]
    -- the loop over the entries of the level never changes the accumulator
    suffices H : ∀ l : Entries, (∀ e ∈ l, e ∈ lvl) →
        l.foldl (fun (acc : SD × Entries) e =>
          match e.2 with
          | .dict sub => ((cleanRec fuel acc.1 sub).1, setKey e.1 (.dict (cleanRec fuel acc.1 sub).2) acc.2)
          | _ => acc) (s, lvl) = (s, lvl) from H lvl (fun _ h => h)
    intro l
    induction l with
    | nil => intro _; rfl
    | cons e l ih =>
      intro hsub
      obtain ⟨k, v⟩ := e
      have hmem : (k, v) ∈ lvl := hsub _ List.mem_cons_self
      have hrest := ih fun e he => hsub e (List.mem_cons_of_mem _ he)
      cases v with
      | leaf x => simpa only [List.foldl_cons] using hrest
      | list xs => simpa only [List.foldl_cons] using hrest
      | dict sub =>
        have hsubn : NodupKeysV (.dict sub) := nodupKeysEs_iff.mp hn.2 _ hmem
        have hsubp : NoPhEs sub := (noPhEs_iff.mp hp _ hmem).2
        simp only [List.foldl_cons, cleanRec_id fuel s sub hsubn hsubp, setKey_of_mem_nodup hn.1 hmem]
        exact hrest

/-- **A.** `_clean` changes nothing (data and all four tables) when no key is a comment/include
    placeholder.  Key uniqueness at every dict level (`NodupKeysV`, which every Python value
    satisfies) is needed: see `clean_id_needs_nodup`. -/
theorem clean_id (s : SD) (hn : NodupKeysV (.dict s.data)) (hp : NoPhEs s.data) : s.clean = s := by
  simp only [SD.clean, cleanRec_id _ s s.data hn hp]

/-- the association-list model admits duplicate keys, and on those `_clean`'s write-back
    `data[key] = cleaned sub-dict` hits the first occurrence: without `NodupKeysV` the unrestricted
    statement `NoPhEs s.data → s.clean = s` is false -/
theorem clean_id_needs_nodup :
    ¬ ∀ s : SD, NoPhEs s.data → s.clean = s := by
  intro h
  have := h { data := [(.int 1, .dict []), (.int 1, .dict [(.int 2, .leaf .none)])] }
    (by simp [NoPhEs, NoPhV, isPhKey])
  have := congrArg SD.data this
  revert this
  decide


/-! ## merge: one step, and an induction principle (helper section) -/

/-- what `_recursive_merge` does with one `(key, value)` item of `other` -/
def mstep (top : Bool) (exprs : Tbl ExprEntry) (t : Entries) (k : Key) (v : Val) : Entries :=
  match lookup k t, v with
  | some (.dict td), .dict od => setKey k (.dict (mergeD false exprs td od)) t
  | some tv, _ => if top && selfRef exprs k tv then setKey k v t else t
  | none, _ => t ++ [(k, v)]

theorem mergeD_nil (top : Bool) (exprs : Tbl ExprEntry) (t : Entries) : mergeD top exprs t [] = t := by
  rw [mergeD]

theorem mergeD_cons (top : Bool) (exprs : Tbl ExprEntry) (t : Entries) (k : Key) (v : Val) (o : Entries) :
    mergeD top exprs t ((k, v) :: o) = mergeD top exprs (mstep top exprs t k v) o := by
  rw [mergeD.eq_def]; rfl

theorem mergeD_induct (exprs : Tbl ExprEntry) {motive : Bool → Entries → Entries → Prop}
    (nil : ∀ top t, motive top t [])
    (cons : ∀ top t k v o,
      (∀ td od, lookup k t = some (.dict td) → v = .dict od → motive false td od) →
      motive top (mstep top exprs t k v) o → motive top t ((k, v) :: o)) :
    ∀ top t o, motive top t o
  | top, t, [] => nil top t
  | top, t, (k, v) :: o =>
    cons top t k v o (fun td od _ _ => mergeD_induct exprs nil cons false td od)
      (mergeD_induct exprs nil cons top _ o)
termination_by _ _ o => sizeOf o
decreasing_by
  · subst_vars; simp; omega
  · simp; omega


/-- value of key `k` after merging an item `(k, bv)` into a dict where `k` has value `av` -/
def mergeVal (top : Bool) (exprs : Tbl ExprEntry) (k : Key) : Option Val → Option Val → Option Val
  | some (.dict ad), some (.dict bd) => some (.dict (mergeD false exprs ad bd))
  | some av, some bv => if top && selfRef exprs k av then some bv else some av
  | some av, none => some av
  | none, bv => bv

theorem selfRef_dict (exprs : Tbl ExprEntry) (k : Key) (es : Entries) : selfRef exprs k (.dict es) = false := by
  cases k <;> rfl

theorem selfRef_isDict {exprs : Tbl ExprEntry} {k : Key} {v : Val} (h : selfRef exprs k v = true) : v.isDict = false := by
  cases v with
  | dict es => rw [selfRef_dict] at h; exact absurd h (by decide)
  | _ => rfl

theorem mergeVal_none_right (top : Bool) (exprs : Tbl ExprEntry) (k : Key) (x : Option Val) :
    mergeVal top exprs k x none = x := by
  cases x with
  | none => rfl
  | some v => cases v <;> rfl

theorem mergeVal_dict_dict (top : Bool) (exprs : Tbl ExprEntry) (k : Key) (ad bd : Entries) :
    mergeVal top exprs k (some (.dict ad)) (some (.dict bd)) = some (.dict (mergeD false exprs ad bd)) := rfl

theorem mergeVal_some_some (top : Bool) (exprs : Tbl ExprEntry) (k : Key) {av bv : Val}
    (h : av.isDict = false ∨ bv.isDict = false) :
    mergeVal top exprs k (some av) (some bv) = if top && selfRef exprs k av then some bv else some av := by
  cases av <;> cases bv <;> first | rfl | simp [Val.isDict] at h

theorem mergeVal_isSome (top : Bool) (exprs : Tbl ExprEntry) (k : Key) (x : Option Val) (v : Val) :
    (mergeVal top exprs k x (some v)).isSome = true := by
  cases x with
  | none => rfl
  | some av =>
    by_cases h : av.isDict = false ∨ v.isDict = false
    · rw [mergeVal_some_some top exprs k h]; split <;> rfl
    · cases av <;> cases v <;> first | rfl | simp [Val.isDict] at h

theorem mstep_dict_dict (top : Bool) (exprs : Tbl ExprEntry) {t : Entries} {k : Key} {td : Entries} (od : Entries)
    (h : lookup k t = some (.dict td)) :
    mstep top exprs t k (.dict od) = setKey k (.dict (mergeD false exprs td od)) t := by
  simp only [mstep, h]

theorem mstep_some (top : Bool) (exprs : Tbl ExprEntry) {t : Entries} {k : Key} {tv v : Val}
    (h : lookup k t = some tv) (hnd : tv.isDict = false ∨ v.isDict = false) :
    mstep top exprs t k v = if top && selfRef exprs k tv then setKey k v t else t := by
  cases tv <;> cases v <;> first | (simp only [mstep, h]; done) | simp [Val.isDict] at hnd

theorem mstep_none (top : Bool) (exprs : Tbl ExprEntry) {t : Entries} {k : Key} (v : Val)
    (h : lookup k t = none) : mstep top exprs t k v = t ++ [(k, v)] := by
  simp only [mstep, h]

theorem lookup_mstep (top : Bool) (exprs : Tbl ExprEntry) (t : Entries) (k : Key) (v : Val) (k' : Key) :
    lookup k' (mstep top exprs t k v) = if k = k' then mergeVal top exprs k (lookup k t) (some v) else lookup k' t := by
  cases h : lookup k t with
  | none =>
    rw [mstep_none top exprs v h, lookup_append]
    by_cases hk : k = k'
    · subst hk; simp [h, lookup, mergeVal]
    · simp [hk, lookup]
  | some tv =>
    by_cases hnd : tv.isDict = false ∨ v.isDict = false
    · rw [mstep_some top exprs h hnd, mergeVal_some_some top exprs k hnd]
      by_cases hc : (top && selfRef exprs k tv) = true
      · simp only [hc, if_true, lookup_setKey]
      · simp only [hc]
        by_cases hk : k = k'
        · subst hk; simp [h]
        · simp [hk]
    · cases tv with
      | dict td =>
        cases v with
        | dict od => rw [mstep_dict_dict top exprs od h, lookup_setKey, mergeVal_dict_dict]
        | _ => simp [Val.isDict] at hnd
      | _ => simp [Val.isDict] at hnd

theorem hasKey_mstep (top : Bool) (exprs : Tbl ExprEntry) (t : Entries) (k : Key) (v : Val) (k' : Key) :
    hasKey k' (mstep top exprs t k v) = (decide (k = k') || hasKey k' t) := by
  unfold hasKey
  rw [lookup_mstep]
  by_cases hk : k = k'
  · simp [hk, mergeVal_isSome]
  · simp [hk]

theorem keys_mstep (top : Bool) (exprs : Tbl ExprEntry) (t : Entries) (k : Key) (v : Val) :
    keys (mstep top exprs t k v) = if hasKey k t then keys t else keys t ++ [k] := by
  unfold mstep
  split
  · rename_i td od h
    have hm : k ∈ keys t := hasKey_iff_mem.mp (by simp [hasKey, h])
    rw [keys_setKey_of_mem k _ t hm]; simp [hasKey, h]
  · rename_i tv _ h hnd
    have hm : k ∈ keys t := hasKey_iff_mem.mp (by simp [hasKey, h])
    split
    · rw [keys_setKey_of_mem k _ t hm]; simp [hasKey, h]
    · simp [hasKey, h]
  · rename_i _ h
    simp [hasKey, h, keys]


/-! #### preservation of the two invariants by the dict primitives (helper section) -/

theorem noPhEs_setKey {k : Key} {v : Val} {es : Entries} (h : NoPhEs es) (hk : isPhKey k = false) (hv : NoPhV v) :
    NoPhEs (setKey k v es) := by
  rw [noPhEs_iff] at h ⊢
  intro e he
  rcases mem_setKey he with rfl | he
  · exact ⟨hk, hv⟩
  · exact h e he

theorem noPhEs_delKey {k : Key} {es : Entries} (h : NoPhEs es) : NoPhEs (delKey k es) := by
  rw [noPhEs_iff] at h ⊢
  exact fun e he => h e ((delKey_sublist k es).subset he)

theorem noPhEs_append {a b : Entries} (ha : NoPhEs a) (hb : NoPhEs b) : NoPhEs (a ++ b) := by
  rw [noPhEs_iff] at ha hb ⊢
  intro e he
  rcases List.mem_append.mp he with he | he
  · exact ha e he
  · exact hb e he

theorem noPhEs_updateD : ∀ {o t : Entries}, NoPhEs t → NoPhEs o → NoPhEs (updateD t o)
  | [], _, ht, _ => ht
  | (k, v) :: o, t, ht, ho => by
    have : updateD t ((k, v) :: o) = updateD (setKey k v t) o := rfl
    rw [this]
    exact noPhEs_updateD (noPhEs_setKey ht ho.1 ho.2.1) ho.2.2

theorem noPhEs_mergeD (exprs : Tbl ExprEntry) : ∀ (top : Bool) (t o : Entries),
    NoPhEs t → NoPhEs o → NoPhEs (mergeD top exprs t o) := by
  apply mergeD_induct exprs (motive := fun top t o => NoPhEs t → NoPhEs o → NoPhEs (mergeD top exprs t o))
  · intro top t ht _; rw [mergeD_nil]; exact ht
  · intro top t k v o ih1 ih2 ht ho
    rw [mergeD_cons]
    refine ih2 ?_ ho.2.2
    cases h : lookup k t with
    | none => rw [mstep_none top exprs v h]; exact noPhEs_append ht ⟨ho.1, ho.2.1, trivial⟩
    | some tv =>
      by_cases hnd : tv.isDict = false ∨ v.isDict = false
      · rw [mstep_some top exprs h hnd]
        split
        · exact noPhEs_setKey ht ho.1 ho.2.1
        · exact ht
      · cases tv with
        | dict td =>
          cases v with
          | dict od =>
            rw [mstep_dict_dict top exprs od h]
            have htd : NoPhEs td := (noPhEs_iff.mp ht _ (lookup_some_mem h)).2
            exact noPhEs_setKey ht ho.1 (ih1 td od h rfl htd ho.2.1)
          | _ => simp [Val.isDict] at hnd
        | _ => simp [Val.isDict] at hnd

theorem nodupV_setKey {k : Key} {v : Val} {es : Entries} (h : NodupKeysV (.dict es)) (hv : NodupKeysV v) :
    NodupKeysV (.dict (setKey k v es)) := by
  refine ⟨nodup_keys_setKey h.1, ?_⟩
  have h2 := h.2
  rw [nodupKeysEs_iff] at h2 ⊢
  intro e he
  rcases mem_setKey he with rfl | he
  · exact hv
  · exact h2 e he

theorem nodupV_delKey {k : Key} {es : Entries} (h : NodupKeysV (.dict es)) : NodupKeysV (.dict (delKey k es)) := by
  refine ⟨nodup_keys_delKey h.1, ?_⟩
  have h2 := h.2
  rw [nodupKeysEs_iff] at h2 ⊢
  exact fun e he => h2 e ((delKey_sublist k es).subset he)

theorem nodupV_updateD : ∀ {o t : Entries}, NodupKeysV (.dict t) → NodupKeysEs o → NodupKeysV (.dict (updateD t o))
  | [], _, ht, _ => ht
  | (k, v) :: o, t, ht, ho => by
    have : updateD t ((k, v) :: o) = updateD (setKey k v t) o := rfl
    rw [this]
    exact nodupV_updateD (nodupV_setKey ht ho.1) ho.2

theorem nodupV_nil : NodupKeysV (.dict []) := ⟨List.nodup_nil, trivial⟩

theorem nodupV_mstep_new {k : Key} {v : Val} {t : Entries} (ht : NodupKeysV (.dict t)) (hv : NodupKeysV v)
    (h : lookup k t = none) : NodupKeysV (.dict (t ++ [(k, v)])) := by
  rw [← setKey_of_not_mem k v t (lookup_eq_none_iff.mp h)]
  exact nodupV_setKey ht hv

theorem nodupV_mergeD (exprs : Tbl ExprEntry) : ∀ (top : Bool) (t o : Entries),
    NodupKeysV (.dict t) → NodupKeysEs o → NodupKeysV (.dict (mergeD top exprs t o)) := by
  apply mergeD_induct exprs
    (motive := fun top t o => NodupKeysV (.dict t) → NodupKeysEs o → NodupKeysV (.dict (mergeD top exprs t o)))
  · intro top t ht _; rw [mergeD_nil]; exact ht
  · intro top t k v o ih1 ih2 ht ho
    rw [mergeD_cons]
    refine ih2 ?_ ho.2
    cases h : lookup k t with
    | none => rw [mstep_none top exprs v h]; exact nodupV_mstep_new ht ho.1 h
    | some tv =>
      by_cases hnd : tv.isDict = false ∨ v.isDict = false
      · rw [mstep_some top exprs h hnd]
        split
        · exact nodupV_setKey ht ho.1
        · exact ht
      · cases tv with
        | dict td =>
          cases v with
          | dict od =>
            rw [mstep_dict_dict top exprs od h]
            have htd : NodupKeysV (.dict td) := nodupKeysEs_iff.mp ht.2 _ (lookup_some_mem h)
            exact nodupV_setKey ht (ih1 td od h rfl htd ho.1.2)
          | _ => simp [Val.isDict] at hnd
        | _ => simp [Val.isDict] at hnd


theorem postUpdate_data (s : SD) (a : Arg) : (s.postUpdate a).data = s.data := by cases a <;> rfl
theorem postMerge_data (s : SD) (a : Arg) : (s.postMerge a).data = s.data := by cases a <;> rfl

theorem update_eq (s : SD) (a : Arg) (hn : NodupKeysV (.dict (updateD s.data a.data))) (hp : NoPhEs (updateD s.data a.data)) :
    s.update a = ({ s with data := updateD s.data a.data }).postUpdate a := by
  unfold SD.update
  exact clean_id _ (by rw [postUpdate_data]; exact hn) (by rw [postUpdate_data]; exact hp)

theorem merge_eq (s : SD) (a : Arg) (hn : NodupKeysV (.dict (mergeD true s.exprs s.data a.data)))
    (hp : NoPhEs (mergeD true s.exprs s.data a.data)) :
    s.merge a = ({ s with data := mergeD true s.exprs s.data a.data }).postMerge a := by
  unfold SD.merge
  exact clean_id _ (by rw [postMerge_data]; exact hn) (by rw [postMerge_data]; exact hp)

theorem or_eq (s : SD) (a : Arg) (hn : NodupKeysV (.dict (updateD s.data a.data))) (hp : NoPhEs (updateD s.data a.data)) :
    s.or a = ({ data := updateD s.data a.data } : SD).postUpdate a := by
  unfold SD.or
  exact clean_id _ (by rw [postUpdate_data]; exact hn) (by rw [postUpdate_data]; exact hp)

theorem ror_eq (s : SD) (o : Entries) (hn : NodupKeysV (.dict (updateD o s.data))) (hp : NoPhEs (updateD o s.data)) :
    s.ror o = ({ data := updateD o s.data } : SD).postUpdate (.sd s) := by
  unfold SD.ror
  exact clean_id _ (by rw [postUpdate_data]; exact hn) (by rw [postUpdate_data]; exact hp)

/-! ## B. refinement to builtin `dict` -/

/-- the operations that builtin `dict` has too (everything but `merge`) -/
def _root_.DictIO.Op.isDictOp : Op → Bool
  | .merge _ => false
  | _ => true

/-- no dict handed to the operation has a placeholder key at any dict level, and no key that is
    set is a placeholder key -/
def _root_.DictIO.Op.NoPh : Op → Prop
  | .setitem k v => isPhKey k = false ∧ NoPhV v
  | .setdefault k v => isPhKey k = false ∧ NoPhV v
  | .update a => NoPhEs a.data
  | .ior a => NoPhEs a.data
  | .or a => NoPhEs a.data
  | .merge a => NoPhEs a.data
  | .ror o => NoPhEs o
  | .construct o => NoPhEs o
  | _ => True

/-- every dict *inside* the arguments has unique keys (true of every Python value).  The item
    sequence given to `update`/`|`/`merge`/the constructor may itself repeat a key (a pair list);
    the left operand of `o | s` is a dict. -/
def _root_.DictIO.Op.NodupKeys : Op → Prop
  | .setitem _ v => NodupKeysV v
  | .setdefault _ v => NodupKeysV v
  | .update a => NodupKeysEs a.data
  | .ior a => NodupKeysEs a.data
  | .or a => NodupKeysEs a.data
  | .merge a => NodupKeysEs a.data
  | .ror o => NodupKeysV (.dict o)
  | .construct o => NodupKeysEs o
  | _ => True

/-- **B1.** every non-merge operation of `SDict` does to the data exactly what the builtin `dict`
    operation does, and returns the same result, as long as no placeholder key is around
    (so that `_clean` has nothing to do).  `NodupKeysV`/`NodupKeys` (unique keys in every dict) are
    the standing well-formedness of Python values; see `step_refines_needs_nodup`. -/
theorem step_refines (s : SD) (op : Op) (hn : NodupKeysV (.dict s.data)) (hp : NoPhEs s.data)
    (hd : op.isDictOp = true) (hop : op.NoPh) (hon : op.NodupKeys) :
    (step s op).1.data = (dstep s.data op).1 ∧ (step s op).2 = (dstep s.data op).2 := by
  cases op with
  | merge a => simp [Op.isDictOp] at hd
  | setitem k v => exact ⟨rfl, rfl⟩
  | delitem k => simp only [step, dstep]; split <;> exact ⟨rfl, rfl⟩
  | pop k => simp only [step, dstep]; split <;> exact ⟨rfl, rfl⟩
  | popDefault k => simp only [step, dstep]; split <;> exact ⟨rfl, rfl⟩
  | setdefault k v => simp only [step, dstep]; split <;> exact ⟨rfl, rfl⟩
  | clear => exact ⟨rfl, rfl⟩
  | construct o => exact ⟨rfl, rfl⟩
  | copy =>
    simp only [step, dstep]
    rw [clean_id _ (nodupV_updateD nodupV_nil hn.2) (noPhEs_updateD (t := []) (by simp [NoPhEs]) hp)]
    exact ⟨rfl, rfl⟩
  | update a =>
    simp only [step, dstep, update_eq s a (nodupV_updateD hn hon) (noPhEs_updateD hp hop), postUpdate_data]
    exact ⟨trivial, trivial⟩
  | ior a =>
    simp only [step, dstep, update_eq s a (nodupV_updateD hn hon) (noPhEs_updateD hp hop), postUpdate_data]
    exact ⟨trivial, trivial⟩
  | or a =>
    simp only [step, dstep, or_eq s a (nodupV_updateD hn hon) (noPhEs_updateD hp hop), postUpdate_data]
    exact ⟨trivial, trivial⟩
  | ror o =>
    simp only [step, dstep, ror_eq s o (nodupV_updateD hon hn.2) (noPhEs_updateD hop hp), postUpdate_data]
    exact ⟨trivial, trivial⟩

/-- on an association list with a repeated key `_clean` (run by `update`) is not the identity, so
    the unrestricted refinement statement fails in the model (never for a Python dict) -/
theorem step_refines_needs_nodup :
    ¬ ∀ (s : SD) (op : Op), NoPhEs s.data → op.isDictOp = true → op.NoPh →
        (step s op).1.data = (dstep s.data op).1 ∧ (step s op).2 = (dstep s.data op).2 := by
  intro h
  have := (h { data := [(.int 1, .dict []), (.int 1, .dict [(.int 2, .leaf .none)])] } (.update (.plain []))
    (by simp [NoPhEs, NoPhV, isPhKey]) rfl (by simp [Op.NoPh, Arg.data, NoPhEs])).1
  revert this
  decide

end DictIO.C07
