/-
  C16 / C15 -- sequences of writes with arbitrary modes (Props/C16.lean `runWrites`, `specFold`; Props/C16fold.lean proves
  the fold theorem for the native flavour with `order = false`), generalised to

    (2) `order = true`, native flavour                      `C16_fold_ordered`
    (1) the OpenFOAM flavour, `order = false`               `C16_fold_foam`

  (2) `C16_fold_ordered`.  Same hypotheses as `C16.C16_fold_statement` (stated for the UNORDERED specification fold).
      After any non-empty sequence of writes with `order=True` the file read back is, up to the header placeholder
      entry, `orderD D` for `D = specFold none ws`: keys ascending at every dict level (`SortedV`), same key → value
      association at every level as `D` (`SameAssoc`, `lookup … = (lookup …).map orderV`, key sets `Perm`).
      What had to be proved on the way:
        * `orderD_merge_orderD`: `orderD (mergeD (orderD a) N) = orderD (mergeD a N)` (unique keys at every level) — the
          append-merge does not see the key order of the existing dict, up to the order of the result
          (`sorted_ext`, `orderD_ext`: a sorted association list with unique keys is determined by its lookups);
        * re-reading the header file with `order=True` sorts the header placeholder entry `BLOCKCOMMENT000000` in AMONG
          the keys (after the int keys and upper-case words: `HdrIn`, example below); the merge leaves it alone
          (`HdrIn.merge`, via `filter_mstep`), `_clean` keeps it (`clean_hdrP`), `order_keys` keeps it (`HdrIn.order`) and
          the writer hoists it back to the front (`hoist_hdrIn`, `fmtSD_hdrIn`).

  (1) `C16_fold_foam`.  Which fold: `specFold none (dropWs ws)` — the fold of `C16_fold_statement` over the written dicts
      WITHOUT their private keys (`dropUnderscoreEs .foam`, every level, also inside lists).  This is the true
      specification because the removal of private keys commutes with the merge (`drop_mergeD`, no hypothesis) and with
      `_retype_values` (`C10.normEs_drop`).  What the reader adds: a file written by the `SDict` route (append onto an
      existing file) starts with the Foam header = banner block comment + `FoamFile { … }` dict + separator line
      comment; it is read back as `foamSD n D`: entries `BLOCKCOMMENT000000`, `FoamFile ↦ {version: 2.0, format: ascii,
      class: dictionary, object: foamDict}`, `LINECOMMENTnnnnnn` (id from the counter) in front of the data, banner and
      separator in the comment tables.  So `dropPhEntries` of what is read is `D`, preceded by the `FoamFile` entry
      exactly when the last write was an append onto the existing file (`hdrAfter`).
      Proved on the way (nothing of this existed for the Foam header):
        * `parse_foam_hdr` / `readFile_of_parse_foam`: the reader on `foamHeader ++ fmtPlain .foam E` (through
          `C12.C12_read_commented`: the text is an admissible layout of a commented document, `foam_layout`);
        * `fmtSD_foam`: the Foam writer on `foamSD n M` writes `foamHeader ++ fmtPlain .foam M` (header not doubled);
        * `clean_foam` (`_clean` keeps the three header entries), `merge_foamSD`, `mergeD_top_eq'`.
      `foam_naive_fold_false`: the unadjusted statement (fold over the dicts as written, nothing added) is false.

  Hypotheses of (1) beyond those of the native theorem (`DictOKF`, per written dict): the public part lies in the Foam
  value domain; no top-level key `FoamFile` (it would be merged with the header's block); no placeholder-word key
  (`BLOCKCOMMENTdddddd`, …) and unique keys at every level INCLUDING the private parts (`_clean` runs over private
  sub-dicts too; `dictOKF_of_dom` gives a Bool-checkable sufficient condition: the whole dict in the Foam domain).
  The path must be a `.foam` path (`C10.isFoamPath`), normalised.  `DocKeysAbsent'` is not needed (private keys).

  Not covered: `order = true` for the Foam flavour; the JSON format (the statement of C16 names it; `writeStep` models the
  native/Foam writer only); XML.  Non-vacuity: `exWsO`/`ex_fold_ordered`, `exWsF`/`ex_fold_foam` (one `w`, two `a`,
  overlapping nested dicts; for Foam with private keys on both levels).
-/
import DictIO.Props.C16fold
import DictIO.Props.C15file
import DictIO.Props.C10file
import DictIO.Props.C12read
import DictIO.Props.C09equiv
import DictIO.Props.C12write

namespace DictIO.C16ext
open DictIO DictIO.C16

attribute [local irreducible] nativeHeader foamHeader
set_option linter.unusedSimpArgs false
set_option linter.unusedVariables false

/-! # helper lemmas -/

/-! # helper lemmas for (2): ordering -/

/-! ## sorted association lists are determined by their lookups -/

theorem sorted_ext : ∀ (l₁ l₂ : Entries), SortedK l₁ → SortedK l₂ → (keys l₁).Nodup → (keys l₂).Nodup →
    (∀ k, lookup k l₁ = lookup k l₂) → l₁ = l₂
  | [], [], _, _, _, _, _ => rfl
  | [], (k, v) :: t, _, _, _, _, h => by have := h k; simp [lookup] at this
  | (k, v) :: t, [], _, _, _, _, h => by have := h k; simp [lookup] at this
  | (k₁, v₁) :: t₁, (k₂, v₂) :: t₂, s₁, s₂, n₁, n₂, h => by
    have s₁' := List.pairwise_cons.mp s₁
    have s₂' := List.pairwise_cons.mp s₂
    have n₁' : k₁ ∉ keys t₁ ∧ (keys t₁).Nodup := List.nodup_cons.mp n₁
    have n₂' : k₂ ∉ keys t₂ ∧ (keys t₂).Nodup := List.nodup_cons.mp n₂
    have hk : k₁ = k₂ := by
      by_cases e : k₁ = k₂
      · exact e
      · have e' : ¬ k₂ = k₁ := fun x => e x.symm
        have h1 := h k₁
        have h2 := h k₂
        simp only [lookup, if_true, e, e', if_false] at h1 h2
        have m1 : (k₁, v₁) ∈ t₂ := lookup_some_mem h1.symm
        have m2 : (k₂, v₂) ∈ t₁ := lookup_some_mem h2
        exact Key.le_antisymm (s₁'.1 _ m2) (s₂'.1 _ m1)
    subst hk
    have hv : v₁ = v₂ := by
      have h1 := h k₁
      simpa [lookup] using h1
    subst hv
    have ht : t₁ = t₂ := by
      apply sorted_ext t₁ t₂ s₁'.2 s₂'.2 n₁'.2 n₂'.2
      intro k
      by_cases e : k₁ = k
      · subst e
        rw [lookup_eq_none_iff.mpr n₁'.1, lookup_eq_none_iff.mpr n₂'.1]
      · have := h k
        simpa [lookup, e] using this
    rw [ht]

/-- two dicts with unique keys whose values agree up to ordering, key by key, have the same `order_keys` -/
theorem orderD_ext {x y : Entries} (hx : (keys x).Nodup) (hy : (keys y).Nodup)
    (h : ∀ k, (lookup k x).map orderV = (lookup k y).map orderV) : orderD x = orderD y := by
  apply sorted_ext
  · exact sortBy_sorted Key.totalLe _
  · exact sortBy_sorted Key.totalLe _
  · exact C15.nodup_order hx
  · exact C15.nodup_order hy
  · intro k
    rw [C15.order_lookup x hx k, C15.order_lookup y hy k, h k]

/-! ## key uniqueness at every level survives ordering -/

mutual
  theorem nodupV_orderV : ∀ v : Val, NodupKeysV v → NodupKeysV (orderV v)
    | .leaf _, h => h
    | .list _, h => h
    | .dict es, h => by
      simp only [orderV]
      refine ⟨?_, C07.nodupKeysEs_iff.mpr ?_⟩
      · exact (C15.keys_sortByKey_perm _).nodup_iff.mpr (by rw [C15.keys_orderEs]; exact h.1)
      · intro e he
        exact nodupEs_orderEs es h.2 e ((sortBy_perm (orderEs es)).mem_iff.mp he)
  theorem nodupEs_orderEs : ∀ es : Entries, NodupKeysEs es → ∀ e ∈ orderEs es, NodupKeysV e.2
    | [], _, e, he => by simp [orderEs] at he
    | (k, v) :: es, h, e, he => by
      simp only [orderEs] at he
      rcases List.mem_cons.mp he with rfl | hm
      · exact nodupV_orderV v h.1
      · exact nodupEs_orderEs es h.2 e hm
end

theorem nodupV_orderD {a : Entries} (h : NodupKeysV (.dict a)) : NodupKeysV (.dict (orderD a)) :=
  nodupV_orderV (.dict a) h

theorem orderD_idem {a : Entries} (h : NodupKeysV (.dict a)) : orderD (orderD a) = orderD a := by
  have := C15.order_idem (.dict a) h
  simpa [orderV, orderD] using this

/-! ## merging into the ordered dict, then ordering = merging, then ordering -/

/-- the statement for one (dict) value -/
def MergeOrd (v : Val) : Prop :=
  ∀ ad, v = .dict ad → ∀ N, NodupKeysV (.dict N) →
    orderD (mergeD false [] (orderD ad) N) = orderD (mergeD false [] ad N)

theorem mergeOrd_core (a N : Entries) (ha : NodupKeysV (.dict a)) (hN : NodupKeysV (.dict N))
    (IH : ∀ e ∈ a, MergeOrd e.2) :
    orderD (mergeD false [] (orderD a) N) = orderD (mergeD false [] a N) := by
  apply orderD_ext
  · exact (C07.nodupV_mergeD [] false (orderD a) N (nodupV_orderD ha) hN.2).1
  · exact (C07.nodupV_mergeD [] false a N ha hN.2).1
  · intro k
    rw [C07.merge_lookup false [] _ N hN.1 k, C07.merge_lookup false [] a N hN.1 k, C15.order_lookup a ha.1 k]
    cases hka : lookup k a with
    | none => rfl
    | some av =>
      have hmem : (k, av) ∈ a := lookup_some_mem hka
      have hav : NodupKeysV av := C07.nodupKeysEs_iff.mp ha.2 _ hmem
      have hid : orderV (orderV av) = orderV av := C15.order_idem av hav
      cases hkb : lookup k N with
      | none =>
        cases av with
        | leaf x => rfl
        | list xs => rfl
        | dict ad => show some (orderV (orderV (.dict ad))) = some (orderV (.dict ad)); rw [hid]
      | some bv =>
        cases av with
        | leaf x => cases bv <;> rfl
        | list xs => cases bv <;> rfl
        | dict ad =>
          cases bv with
          | leaf y => show some (orderV (orderV (.dict ad))) = some (orderV (.dict ad)); rw [hid]
          | list ys => show some (orderV (orderV (.dict ad))) = some (orderV (.dict ad)); rw [hid]
          | dict bd =>
            have hbd : NodupKeysV (.dict bd) := C07.nodupKeysEs_iff.mp hN.2 _ (lookup_some_mem hkb)
            have := IH _ hmem ad rfl bd hbd
            simp only [Option.map, orderV]
            simp only [orderD] at this
            rw [this]

mutual
  theorem mergeOrdV : ∀ v : Val, NodupKeysV v → MergeOrd v
    | .leaf _, _ => fun _ h => by cases h
    | .list _, _ => fun _ h => by cases h
    | .dict es, h => fun ad e N hN => by
      cases e
      exact mergeOrd_core es N h hN (mergeOrdEs es h.2)
  theorem mergeOrdEs : ∀ es : Entries, NodupKeysEs es → ∀ e ∈ es, MergeOrd e.2
    | [], _, e, he => by simp at he
    | (k, v) :: es, h, e, he => by
      rcases List.mem_cons.mp he with rfl | hm
      · exact mergeOrdV v h.1
      · exact mergeOrdEs es h.2 e hm
end

/-- **the merge does not see the order of the keys of the existing dict** (up to the order of the result) -/
theorem orderD_merge_orderD {a N : Entries} (ha : NodupKeysV (.dict a)) (hN : NodupKeysV (.dict N)) :
    orderD (mergeD false [] (orderD a) N) = orderD (mergeD false [] a N) :=
  mergeOrdV (.dict a) ha a rfl N hN

/-! ## filters on keys commute with the merge -/

theorem lookup_filter (q : Key → Bool) {k : Key} (hk : q k = true) : ∀ t : Entries,
    lookup k (t.filter fun e => q e.1) = lookup k t
  | [] => rfl
  | (k', v') :: t => by
    by_cases hq : q k' = true
    · simp only [List.filter_cons, hq, if_true, lookup, lookup_filter q hk t]
    · have hne : ¬ k' = k := fun e => hq (e ▸ hk)
      simp only [List.filter_cons, hq, if_false, lookup, hne, lookup_filter q hk t, Bool.false_eq_true]

theorem filter_setKey (q : Key → Bool) (k : Key) (x : Val) : ∀ t : Entries,
    (setKey k x t).filter (fun e => q e.1) =
      if q k = true then setKey k x (t.filter fun e => q e.1) else t.filter fun e => q e.1
  | [] => by
    by_cases hq : q k = true <;> simp [setKey, hq]
  | (k', v') :: t => by
    by_cases hkk : k' = k
    · subst hkk
      by_cases hq : q k' = true <;> simp [setKey, hq]
    · have ih := filter_setKey q k x t
      by_cases hq : q k = true <;> by_cases hq' : q k' = true <;> simp [setKey, hkk, hq, hq'] at ih ⊢ <;> exact ih

theorem filter_mstep (q : Key → Bool) (top : Bool) (exprs : Tbl ExprEntry) (t : Entries) (k : Key) (v : Val) :
    (C07.mstep top exprs t k v).filter (fun e => q e.1) =
      if q k = true then C07.mstep top exprs (t.filter fun e => q e.1) k v else t.filter fun e => q e.1 := by
  by_cases hq : q k = true
  · rw [if_pos hq]
    unfold C07.mstep
    rw [lookup_filter q hq t]
    split
    · rw [filter_setKey, if_pos hq]
    · split
      · rw [filter_setKey, if_pos hq]
      · rfl
    · simp [hq]
  · rw [if_neg hq]
    unfold C07.mstep
    split
    · rw [filter_setKey, if_neg hq]
    · split
      · rw [filter_setKey, if_neg hq]
      · rfl
    · simp [hq]

/-- a filter that keeps every key of the merged-in dict commutes with the merge -/
theorem filter_mergeD_keep (q : Key → Bool) (top : Bool) (exprs : Tbl ExprEntry) : ∀ (o t : Entries),
    (∀ k ∈ keys o, q k = true) →
    (mergeD top exprs t o).filter (fun e => q e.1) = mergeD top exprs (t.filter fun e => q e.1) o
  | [], t, _ => by rw [C07.mergeD_nil, C07.mergeD_nil]
  | (k, v) :: o, t, h => by
    have hk : q k = true := h k (by simp)
    rw [C07.mergeD_cons, C07.mergeD_cons, filter_mergeD_keep q top exprs o _ (fun k' hk' => h k' (by simp [hk'])),
      filter_mstep, if_pos hk]

/-- a filter that drops every key of the merged-in dict does not see the merge -/
theorem filter_mergeD_drop (q : Key → Bool) (top : Bool) (exprs : Tbl ExprEntry) : ∀ (o t : Entries),
    (∀ k ∈ keys o, q k = false) →
    (mergeD top exprs t o).filter (fun e => q e.1) = t.filter fun e => q e.1
  | [], t, _ => by rw [C07.mergeD_nil]
  | (k, v) :: o, t, h => by
    have hk : ¬ q k = true := by rw [h k (by simp)]; decide
    rw [C07.mergeD_cons, filter_mergeD_drop q top exprs o _ (fun k' hk' => h k' (by simp [hk'])),
      filter_mstep, if_neg hk]

theorem filter_orderD (q : Key → Bool) (es : Entries) :
    (orderD es).filter (fun e => q e.1) = orderD (es.filter fun e => q e.1) := by
  unfold orderD
  rw [C15.filter_sortBy, C15.filter_orderEs]

/-! ## the header placeholder entry anywhere in the top level -/

def isHdr (k : Key) : Bool := k == .str C12.hdrPh
def notHdr (k : Key) : Bool := !isHdr k

/-- `L` is `D` with the header placeholder entry put in at some place -/
structure HdrIn (L D : Entries) : Prop where
  hd : L.filter (fun e => isHdr e.1) = [C12.hdrEntry]
  rest : L.filter (fun e => notHdr e.1) = D

theorem isHdr_false_of_ne {k : Key} (h : k ≠ .str C12.hdrPh) : isHdr k = false := by simpa [isHdr] using h

theorem isHdr_keys {D : Entries} (h : Key.str C12.hdrPh ∉ keys D) : ∀ k ∈ keys D, isHdr k = false :=
  fun k hk => isHdr_false_of_ne fun e => h (e ▸ hk)

theorem hdrIn_cons {D : Entries} (h : Key.str C12.hdrPh ∉ keys D) : HdrIn (C12.hdrEntry :: D) D := by
  have h1 : D.filter (fun e => isHdr e.1) = [] :=
    List.filter_eq_nil_iff.mpr fun e he => by rw [isHdr_keys h e.1 (List.mem_map_of_mem he)]; decide
  have h2 : D.filter (fun e => notHdr e.1) = D :=
    List.filter_eq_self.mpr fun e he => by simp [notHdr, isHdr_keys h e.1 (List.mem_map_of_mem he)]
  have e1 : isHdr C12.hdrEntry.1 = true := by simp [isHdr, C12.hdrEntry]
  constructor
  · rw [List.filter_cons, if_pos e1, h1]
  · rw [List.filter_cons, if_neg (by simp [notHdr, e1]), h2]

theorem HdrIn.perm {L D : Entries} (h : HdrIn L D) : L.Perm (C12.hdrEntry :: D) := by
  have := List.filter_append_perm (fun e : Key × Val => isHdr e.1) L
  rw [h.hd] at this
  have e : L.filter (fun e => !isHdr e.1) = D := h.rest
  rw [e] at this
  exact this.symm

theorem HdrIn.order {L D : Entries} (h : HdrIn L D) : HdrIn (orderD L) (orderD D) := by
  constructor
  · rw [filter_orderD, h.hd]; rfl
  · rw [filter_orderD, h.rest]

theorem HdrIn.merge {L D : Entries} (h : HdrIn L D) (top : Bool) (exprs : Tbl ExprEntry) {N : Entries}
    (hN : Key.str C12.hdrPh ∉ keys N) : HdrIn (mergeD top exprs L N) (mergeD top exprs D N) := by
  constructor
  · rw [filter_mergeD_drop isHdr top exprs N L (isHdr_keys hN), h.hd]
  · rw [filter_mergeD_keep notHdr top exprs N L (fun k hk => by simp [notHdr, isHdr_keys hN k hk]), h.rest]

/-! ## `_clean` keeps the single header entry wherever it stands -/

theorem filter_keys_hdr {L D : Entries} (hL : L.Perm (C12.hdrEntry :: D)) (hD : ∀ k ∈ keys D, C07.isPhKey k = false)
    (sel : Key → Bool) (hsel : ∀ k, sel k = true → C07.isPhKey k = true) :
    (keys L).filter sel = if sel (.str C12.hdrPh) = true then [.str C12.hdrPh] else [] := by
  have hp : (keys L).Perm (Key.str C12.hdrPh :: keys D) := hL.map (·.1)
  have hf := hp.filter sel
  have hnil : (keys D).filter sel = [] := by
    apply List.filter_eq_nil_iff.mpr
    intro k hk hs
    have := hD k hk
    rw [hsel k hs] at this
    exact absurd this (by decide)
  rw [List.filter_cons, hnil] at hf
  split
  · next h => rw [if_pos h] at hf; exact List.perm_singleton.mp hf
  · next h => rw [if_neg h] at hf; exact List.perm_nil.mp hf

theorem cleanLevel_hdrP (s : SD) (txt : Str) (L D : Entries) (hL : L.Perm (C12.hdrEntry :: D))
    (hb : s.blockC = [(0, txt)]) (hD : ∀ k ∈ keys D, C07.isPhKey k = false) :
    cleanLevel s L = (s, L) := by
  have key := filter_keys_hdr hL hD
  cases s with
  | mk data exprs lineC blockC incl =>
  simp only at hb
  subst hb
  simp only [cleanLevel]
  rw [key]
  · simp only [C12.hdrPh_block, if_true, List.foldl_cons, List.foldl_nil, C12.hdrPh_digits, Tbl.get?, List.contains_nil,
      Bool.false_eq_true, if_false]
    rw [key]
    · simp only [C12.hdrPh_block, Bool.not_true, Bool.false_and, Bool.false_eq_true, if_false, List.foldl_nil]
      rw [key]
      · simp only [C12.hdrPh_block, Bool.not_true, Bool.false_and, Bool.false_eq_true, if_false, List.foldl_nil,
          List.nil_append]
      · intro k hk; cases k <;> simp_all [C07.isPhKey]
    · intro k hk; cases k <;> simp_all [C07.isPhKey]
  · intro k hk; cases k <;> simp_all [C07.isPhKey]

theorem cleanRec_hdrP (fuel : Nat) (s : SD) (txt : Str) (L D : Entries) (hL : L.Perm (C12.hdrEntry :: D))
    (hb : s.blockC = [(0, txt)]) (hp : C07.NoPhEs D) (hn : NodupKeysV (.dict D)) :
    cleanRec fuel s L = (s, L) := by
  cases fuel with
  | zero => rfl
  | succ fuel =>
    have hnn := C12.hdr_nodup hp hn
    have hLn : (keys L).Nodup := (hL.map (·.1)).nodup_iff.mpr hnn.1
    simp only [cleanRec, cleanLevel_hdrP s txt L D hL hb (C12.noPh_keys hp)]
    suffices H : ∀ l : Entries, (∀ e ∈ l, e ∈ L) →
        l.foldl (fun (acc : SD × Entries) e =>
          match e.2 with
          | .dict sub => ((cleanRec fuel acc.1 sub).1, setKey e.1 (.dict (cleanRec fuel acc.1 sub).2) acc.2)
          | _ => acc) (s, L) = (s, L) from H _ (fun _ h => h)
    intro l
    induction l with
    | nil => intro _; rfl
    | cons e l ih =>
      intro hsub
      obtain ⟨k, v⟩ := e
      have hmemL : (k, v) ∈ L := hsub _ List.mem_cons_self
      have hmem : (k, v) ∈ C12.hdrEntry :: D := hL.mem_iff.mp hmemL
      have hrest := ih fun e he => hsub e (List.mem_cons_of_mem _ he)
      cases v with
      | leaf x => simpa only [List.foldl_cons] using hrest
      | list xs => simpa only [List.foldl_cons] using hrest
      | dict sub =>
        have hmemD : (k, Val.dict sub) ∈ D := by
          rcases List.mem_cons.mp hmem with h | h
          · cases h
          · exact h
        have hsubn : NodupKeysV (.dict sub) := C07.nodupKeysEs_iff.mp hn.2 _ hmemD
        have hsubp : C07.NoPhEs sub := (C07.noPhEs_iff.mp hp _ hmemD).2
        simp only [List.foldl_cons, C07.cleanRec_id fuel s sub hsubn hsubp, C07.setKey_of_mem_nodup hLn hmemL]
        exact hrest

/-- `_clean` keeps the single header placeholder entry, wherever it stands in the top level -/
theorem clean_hdrP (s : SD) (txt : Str) (D : Entries) (hL : HdrIn s.data D)
    (hb : s.blockC = [(0, txt)]) (hp : C07.NoPhEs D) (hn : NodupKeysV (.dict D)) : s.clean = s := by
  cases s with
  | mk data exprs lineC blockC incl =>
  simp only at hL hb
  have h := cleanRec_hdrP (depthV (Val.dict data) + 1)
    { data := data, exprs := exprs, lineC := lineC, blockC := blockC, incl := incl } txt data D hL.perm hb hp hn
  simp only [SD.clean, h]

/-! ## the writer hoists the header entry to the front -/

theorem hoist3 {α} (isB isI isH : α → Bool) (L : List α) (h : α) (D : List α)
    (hd : L.filter isH = [h]) (rest : L.filter (fun e => !isH e) = D)
    (hB : ∀ e ∈ L, isB e = isH e) (hI : ∀ e ∈ L, isH e = false → isI e = false) :
    L.filter isB ++ L.filter (fun e => !isB e && isI e) ++ L.filter (fun e => !isB e && !isI e) = h :: D := by
  have e1 : L.filter isB = [h] := by rw [← hd]; exact List.filter_congr hB
  have e2 : L.filter (fun e => !isB e && isI e) = [] := by
    apply List.filter_eq_nil_iff.mpr
    intro e he
    rw [hB e he]
    cases hh : isH e with
    | true => simp
    | false => simp [hI e he hh]
  have e3 : L.filter (fun e => !isB e && !isI e) = D := by
    rw [← rest]
    apply List.filter_congr
    intro e he
    rw [hB e he]
    cases hh : isH e with
    | true => simp
    | false => simp [hI e he hh]
  rw [e1, e2, e3]; rfl

theorem hoist_hdrIn {L D : Entries} (h : HdrIn L D) (hD : ∀ k ∈ keys D, C07.isPhKey k = false) :
    hoistPlaceholders L = C12.hdrEntry :: D := by
  have hnm : Key.str C12.hdrPh ∉ keys D := fun hm => by
    have := hD _ hm; rw [C12.hdrPh_isPh] at this; cases this
  have hmem : ∀ e ∈ L, e = C12.hdrEntry ∨ e ∈ D := fun e he => List.mem_cons.mp (h.perm.mem_iff.mp he)
  unfold hoistPlaceholders
  refine hoist3 _ _ (fun e : Key × Val => isHdr e.1) L _ D h.hd (show L.filter (fun e => !isHdr e.1) = D from h.rest) ?_ ?_
  · intro e he
    rcases hmem e he with rfl | hd
    · simp [C12.hdrEntry, C12.hdrPh_block, isHdr]
    · have h1 := hD e.1 (List.mem_map_of_mem hd)
      simp only [isHdr_keys hnm e.1 (List.mem_map_of_mem hd)]
      split
      · next k hk => rw [hk] at h1; simp only [C07.isPhKey, Bool.or_eq_false_iff] at h1; exact h1.1.1
      · rfl
  · intro e he hne
    rcases hmem e he with rfl | hd
    · simp [C12.hdrEntry, isHdr] at hne
    · have h1 := hD e.1 (List.mem_map_of_mem hd)
      split
      · next k hk => rw [hk] at h1; simp only [C07.isPhKey, Bool.or_eq_false_iff] at h1; exact h1.1.2
      · rfl

/-- the SDict with the header entry somewhere in the top level is written as the one with the header entry in front -/
theorem fmtSD_hdrIn {L D : Entries} (h : HdrIn L D) (hD : DomC01 .native D = true) :
    fmtSD .native { data := L, blockC := [(0, C12.hdrComment)] } = some (nativeHeader ++ fmtPlain .native D) := by
  have hk := C12.dom_noPh_keys hD
  have e : fmtSD .native { data := L, blockC := [(0, C12.hdrComment)] } = fmtSD .native (C12.hdrSD D) := by
    simp only [fmtSD, C12.hdrSD, hoist_hdrIn h hk, C12.hoist_hdr hk]
  rw [e]
  exact (C12.write_header hD).trans (C12.fmtSD_text D)


/-! # helper lemmas for (1): the Foam header -/

/-! ## the Foam header, in pieces -/

/-- the banner block comment `/*---…---*/` (seven lines) -/
def bannerC : Str := C10.foamHeaderChars.take 559
/-- … without `/*` and `*/` -/
def bannerBody : Str := ((bannerC.drop 2).dropLast).dropLast
/-- the `FoamFile { … }` block, as the header spells it -/
def ffText : Str := (C10.foamHeaderChars.drop 560).take 167
/-- the separator line comment `// * * * … * //` -/
def lcText : Str := (C10.foamHeaderChars.drop 727).dropLast
def lcBody : Str := lcText.drop 2

theorem foamHeaderChars_split : C10.foamHeaderChars = bannerC ++ '\n' :: ffText ++ lcText ++ ['\n'] := by decide +kernel

theorem foamHeader_split : foamHeader = bannerC ++ '\n' :: ffText ++ lcText ++ ['\n'] := by
  rw [C10.foamHeader_eq]; exact foamHeaderChars_split

theorem bannerC_shape : bannerC = '/' :: '*' :: bannerBody ++ ['*', '/'] := by decide +kernel
theorem lcText_shape : lcText = '/' :: '/' :: lcBody := by decide +kernel
theorem bannerBody_ok : isBlockCText bannerBody = true := by decide +kernel
theorem lcBody_ok : isLineCText lcBody = true := by decide +kernel

/-! ## a comment-free source document as a commented document -/

mutual
  def embV : Src → CSrc
    | .lit l => .lit l
    | .dict es => .dict (embEs es)
    | .list xs => .list xs
  def embEs : SrcEntries → List CItem
    | [] => []
    | (k, v) :: es => .entry k (embV v) :: embEs es
end

theorem ctoks_emb : ∀ (es : SrcEntries), ctoksItems (embEs es) = (srcToksEs es).map .tok
  | [] => by simp only [embEs, ctoksItems, srcToksEs, List.map_nil]
  | (k, .lit l) :: es => by
    simp only [embEs, embV, ctoksItems, srcToksEs, List.map_cons, ctoks_emb es]
  | (k, .dict d) :: es => by
    simp only [embEs, embV, ctoksItems, srcToksEs, List.map_cons, List.map_append, List.map_nil, ctoks_emb es, ctoks_emb d,
      List.cons_append, List.nil_append, List.append_assoc]
  | (k, .list l) :: es => by
    simp only [embEs, embV, ctoksItems, srcToksEs, List.map_cons, List.map_append, List.map_nil, ctoks_emb es,
      List.cons_append, List.nil_append, List.append_assoc]

theorem wf_emb : ∀ (es : SrcEntries) (d : Nat), SrcWFEs d es = true → CSrcWFItems d (embEs es) = true
  | [], _, _ => by simp only [embEs, CSrcWFItems]
  | (k, .lit l) :: es, d, h => by
    simp only [SrcWFEs, SrcWFV, Bool.and_eq_true] at h
    simp only [embEs, embV, CSrcWFItems, CSrcWFV, Bool.and_eq_true]
    exact ⟨⟨⟨h.1.1.1, h.1.1.2⟩, h.1.2⟩, wf_emb es d h.2⟩
  | (k, .dict dd) :: es, d, h => by
    simp only [SrcWFEs, SrcWFV, Bool.and_eq_true] at h
    simp only [embEs, embV, CSrcWFItems, CSrcWFV, Bool.and_eq_true]
    exact ⟨⟨⟨h.1.1.1, h.1.1.2⟩, wf_emb dd (d + 1) h.1.2⟩, wf_emb es d h.2⟩
  | (k, .list l) :: es, d, h => by
    simp only [SrcWFEs, SrcWFV, Bool.and_eq_true] at h
    simp only [embEs, embV, CSrcWFItems, CSrcWFV, Bool.and_eq_true]
    exact ⟨⟨⟨h.1.1.1, h.1.1.2⟩, h.1.2⟩, wf_emb es d h.2⟩

theorem plain_emb : ∀ (es : SrcEntries), plainItems (embEs es) = es
  | [] => by simp only [embEs, plainItems]
  | (k, .lit l) :: es => by simp only [embEs, embV, plainItems, plainV, plain_emb es]
  | (k, .dict d) :: es => by simp only [embEs, embV, plainItems, plainV, plain_emb es, plain_emb d]
  | (k, .list l) :: es => by simp only [embEs, embV, plainItems, plainV, plain_emb es]

theorem label_emb : ∀ (es : SrcEntries) (st : CLabelSt), labelCItems st (embEs es) = (st, es)
  | [], st => by simp only [embEs, labelCItems]
  | (k, .lit l) :: es, st => by simp only [embEs, embV, labelCItems, labelCV, label_emb es]
  | (k, .dict d) :: es, st => by simp only [embEs, embV, labelCItems, labelCV, label_emb es, label_emb d]
  | (k, .list l) :: es, st => by simp only [embEs, embV, labelCItems, labelCV, label_emb es]

/-! ## the Foam header as a commented document -/

def ffSrc : SrcEntries :=
  [("version".toList, .lit (.bare "2.0".toList)), ("format".toList, .lit (.bare "ascii".toList)),
   ("class".toList, .lit (.bare "dictionary".toList)), ("object".toList, .lit (.bare "foamDict".toList))]

def hdrItemsF : List CItem :=
  [.blockC bannerBody, .entry "FoamFile".toList (.dict (embEs ffSrc)), .lineC lcBody]

/-- the value of the `FoamFile` entry as the reader types it -/
def ffVal : Val :=
  .dict [(.str "version".toList, .leaf (.float "2.0".toList)), (.str "format".toList, .leaf (.str "ascii".toList)),
         (.str "class".toList, .leaf (.str "dictionary".toList)), (.str "object".toList, .leaf (.str "foamDict".toList))]

def ffKey : Key := .str "FoamFile".toList
def ffEntry : Key × Val := (ffKey, ffVal)
def lcEntry (n : Nat) : Key × Val := (.str (linePh n), .leaf (.str (linePh n)))

/-- what the reader returns for a Foam file with the header: banner placeholder, `FoamFile` block, separator
    placeholder, then the data; the banner in the block-comment table, the separator in the line-comment table -/
def foamSD (n : Nat) (D : Entries) : SD :=
  { data := C12.hdrEntry :: ffEntry :: lcEntry n :: D, blockC := [(0, bannerC)], lineC := [(n, lcText)] }

/-- the tokens of the header -/
def hdrToksF : List CTok :=
  [.blockC bannerBody, .tok (.word "FoamFile".toList), .tok (.word ['{']),
   .tok (.word "version".toList), .tok (.word "2.0".toList), .tok (.word [';']),
   .tok (.word "format".toList), .tok (.word "ascii".toList), .tok (.word [';']),
   .tok (.word "class".toList), .tok (.word "dictionary".toList), .tok (.word [';']),
   .tok (.word "object".toList), .tok (.word "foamDict".toList), .tok (.word [';']),
   .tok (.word ['}']), .lineC lcBody]

theorem ctoks_hdrF (r : List CItem) : ctoksItems (hdrItemsF ++ r) = hdrToksF ++ ctoksItems r := by
  simp only [hdrItemsF, ffSrc, embEs, embV, List.cons_append, List.nil_append, ctoksItems, hdrToksF, Lit.tok]

/-- the gaps of the header: a line feed in front (put there for the reader theorem), then as the header spells them -/
def hdrGapsF : List Str :=
  [['\n'], ['\n'], ['\n'], "\n    ".toList, spaces 19, [], "\n    ".toList, spaces 20, [], "\n    ".toList, spaces 21, [],
   "\n    ".toList, spaces 20, [], ['\n'], ['\n']]

theorem spread_tail : ∀ (ts gs : List Str) (tail : Str), spread ts gs tail = spread ts gs [] ++ tail
  | [], _, _ => rfl
  | t :: ts, [], tail => by simp only [spread, spread_tail ts [] tail, List.append_assoc]
  | t :: ts, g :: gs, tail => by simp only [spread, spread_tail ts gs tail, List.append_assoc]

theorem spread_append : ∀ (ts₁ gs₁ ts₂ gs₂ : List Str) (tail : Str), ts₁.length = gs₁.length →
    spread (ts₁ ++ ts₂) (gs₁ ++ gs₂) tail = spread ts₁ gs₁ (spread ts₂ gs₂ tail)
  | [], [], _, _, _, _ => rfl
  | [], _ :: _, _, _, _, h => by simp at h
  | _ :: _, [], _, _, _, h => by simp at h
  | t :: ts, g :: gs, ts₂, gs₂, tail, h => by
    simp only [List.cons_append, spread]
    rw [spread_append ts gs ts₂ gs₂ tail (by simpa using h)]

theorem hdr_layout (rest : Str) :
    spread (hdrToksF.map CTok.text) hdrGapsF rest = '\n' :: (bannerC ++ '\n' :: ffText ++ lcText) ++ rest := by
  have : spread (hdrToksF.map CTok.text) hdrGapsF [] = '\n' :: (bannerC ++ '\n' :: ffText ++ lcText) := by decide +kernel
  rw [spread_tail, this]

theorem hdrF_lengths : (hdrToksF.map CTok.text).length = hdrGapsF.length := by decide

theorem hdrGaps_ok_nil (tail : Str) (ht : tail.all isWs = true) : GapsOKC hdrToksF hdrGapsF ('\n' :: tail) = true := by
  simp [hdrToksF, hdrGapsF, GapsOKC, isDelimSTok, isDelimTok, ht, spaces]
  decide

theorem hdrGaps_ok_cons (t : CTok) (ts : List CTok) (g : Str) (gs : List Str) (tail : Str)
    (h : GapsOKC (t :: ts) (('\n' :: g) :: gs) tail = true) :
    GapsOKC (hdrToksF ++ t :: ts) (hdrGapsF ++ ('\n' :: g) :: gs) tail = true := by
  simp [hdrToksF, hdrGapsF, GapsOKC, isDelimSTok, isDelimTok, spaces, h]
  decide

/-- **the layout of a Foam file with header**: a line feed, the header, the writer's text of the entries — an
    admissible layout of the header tokens followed by the source tokens -/
theorem foam_layout (ts : List STok) (gaps : List Str) (tail : Str) (hg : GapsOKS ts gaps = true)
    (ht : tail.all isWs = true) :
    ∃ G tail', spreadC (hdrToksF ++ ts.map .tok) G tail' = '\n' :: (foamHeader ++ spreadS ts gaps tail) ∧
      GapsOKC (hdrToksF ++ ts.map .tok) G tail' = true := by
  cases ts with
  | nil =>
    refine ⟨hdrGapsF, '\n' :: tail, ?_, ?_⟩
    · simp only [List.map_nil, List.append_nil, spreadC, hdr_layout, foamHeader_split, spreadS, spread]
      simp
    · simpa using hdrGaps_ok_nil tail ht
  | cons t ts' =>
    have e := C09.spreadC_padG (t :: ts') gaps tail
    have k1 := C09.gapsOKC_padG tail ht (t :: ts') gaps hg
    obtain ⟨g, gs, hp⟩ : ∃ g gs, C09.padG (t :: ts') gaps = g :: gs := by
      cases gaps <;> exact ⟨_, _, rfl⟩
    rw [hp] at e k1
    simp only [List.map_cons] at e k1 ⊢
    refine ⟨hdrGapsF ++ ('\n' :: g) :: gs, tail, ?_, hdrGaps_ok_cons _ _ g gs tail (C12.Incl.gapsOKC_nl k1)⟩
    have e2 : spreadC (CTok.tok t :: ts'.map CTok.tok) (('\n' :: g) :: gs) tail =
        '\n' :: spreadC (CTok.tok t :: ts'.map CTok.tok) (g :: gs) tail :=
      C12.Incl.spreadC_nl _ g gs tail (by simp)
    unfold spreadC at e e2 ⊢
    rw [List.map_append, spread_append _ _ _ _ _ hdrF_lengths, hdr_layout, e2, e, foamHeader_split]
    simp

/-! ## `_clean` on the SDict of a Foam file with header -/

theorem levelFix_noPh (s : SD) {D : Entries} (hk : ∀ k ∈ keys D, C07.isPhKey k = false) (hn : (keys D).Nodup) :
    C12W.levelFix s D := by
  have key : ∀ sel : Key → Bool, (∀ k, sel k = true → C07.isPhKey k = true) → (keys D).filter sel = [] := by
    intro sel hsel
    apply List.filter_eq_nil_iff.mpr
    intro k hk' hs
    have := hk k hk'
    rw [hsel k hs] at this
    exact absurd this (by decide)
  have hB := key C12W.selB (by intro k hk; cases k <;> simp_all [C12W.selB, C07.isPhKey])
  have hI := key C12W.selI (by intro k hk; cases k <;> simp_all [C12W.selI, C07.isPhKey])
  have hL := key C12W.selL (by intro k hk; cases k <;> simp_all [C12W.selL, C07.isPhKey])
  refine ⟨?_, hI, ?_, hn⟩
  · rw [hB]; exact List.nodup_nil
  · rw [hL]; exact List.nodup_nil

mutual
  theorem subsFix_noPhV (s : SD) : ∀ v : Val, C07.NoPhV v → NodupKeysV v →
      ∀ sub, v = .dict sub → C12W.levelFix s sub ∧ C12W.subsFix s sub
    | .leaf _, _, _, _, e => by cases e
    | .list _, _, _, _, e => by cases e
    | .dict es, hp, hn, sub, e => by
      cases e
      exact ⟨levelFix_noPh s (C12.noPh_keys hp) hn.1, subsFix_noPh s es hp hn.2⟩
  theorem subsFix_noPh (s : SD) : ∀ D : Entries, C07.NoPhEs D → NodupKeysEs D → C12W.subsFix s D
    | [], _, _ => by simp only [C12W.subsFix, C12W.allLevels]
    | (k, .leaf x) :: r, hp, hn => by
      simp only [C12W.subsFix, C12W.allLevels]; exact subsFix_noPh s r hp.2.2 hn.2
    | (k, .list xs) :: r, hp, hn => by
      simp only [C12W.subsFix, C12W.allLevels]; exact subsFix_noPh s r hp.2.2 hn.2
    | (k, .dict sub) :: r, hp, hn => by
      simp only [C12W.subsFix, C12W.allLevels]
      exact ⟨subsFix_noPhV s (.dict sub) hp.2.1 hn.1 sub rfl, subsFix_noPh s r hp.2.2 hn.2⟩
end

theorem linePh_eq (n : Nat) : linePh n = C12W.phWord true n := rfl

theorem ffVal_noPh : C07.NoPhV ffVal := by
  simp only [ffVal, C07.NoPhV, C07.NoPhEs, and_true]
  decide +kernel

theorem ffVal_nodup : NodupKeysV ffVal := by
  simp only [ffVal, NodupKeysV, NodupKeysEs, and_true, keys, List.map_cons, List.map_nil]
  decide +kernel

theorem ffKey_sel : C12W.selB ffKey = false ∧ C12W.selI ffKey = false ∧ C12W.selL ffKey = false := by decide +kernel

theorem hdrKey_sel : C12W.selB (.str C12.hdrPh) = true ∧ C12W.selI (.str C12.hdrPh) = false ∧
    C12W.selL (.str C12.hdrPh) = false := by decide +kernel

theorem lcKey_sel {n : Nat} (hn : n ≤ 999999) : C12W.selB (.str (linePh n)) = false ∧
    C12W.selI (.str (linePh n)) = false ∧ C12W.selL (.str (linePh n)) = true := by
  have h3 : containsPh kwLine (C12W.phWord true n) = true := C12W.containsPh_own true hn
  simp only [C12W.selB, C12W.selI, C12W.selL, linePh_eq, C12W.containsPh_block_line, C12W.containsPh_incl_ph, h3]
  decide

theorem sel_noPh {k : Key} (h : C07.isPhKey k = false) :
    C12W.selB k = false ∧ C12W.selI k = false ∧ C12W.selL k = false := by
  cases k with
  | int z => exact ⟨rfl, rfl, rfl⟩
  | str x =>
    simp only [C07.isPhKey, Bool.or_eq_false_iff] at h
    simp [C12W.selB, C12W.selI, C12W.selL, h.1.1, h.1.2, h.2]

theorem filter_sel_noPh {D : Entries} (hk : ∀ k ∈ keys D, C07.isPhKey k = false) :
    (keys D).filter C12W.selB = [] ∧ (keys D).filter C12W.selI = [] ∧ (keys D).filter C12W.selL = [] := by
  refine ⟨?_, ?_, ?_⟩ <;> apply List.filter_eq_nil_iff.mpr <;> intro k hk'
  · rw [(sel_noPh (hk k hk')).1]; decide
  · rw [(sel_noPh (hk k hk')).2.1]; decide
  · rw [(sel_noPh (hk k hk')).2.2]; decide

theorem lcKey_ne (n : Nat) : Key.str (linePh n) ≠ .str C12.hdrPh ∧ Key.str (linePh n) ≠ ffKey := by
  have e : linePh n = 'L' :: ("INECOMMENT".toList ++ padSix n) := rfl
  constructor
  · intro h; rw [e, C12.hdrPh_eq] at h; cases h
  · intro h; rw [e] at h; cases h

theorem lcKey_isPh {n : Nat} (hn : n ≤ 999999) : C07.isPhKey (.str (linePh n)) = true := by
  have h3 : containsPh kwLine (C12W.phWord true n) = true := C12W.containsPh_own true hn
  simp only [C07.isPhKey, linePh_eq, h3, Bool.or_true]

/-- `_clean` leaves the SDict of a Foam file with header as it is -/
theorem clean_foam (s : SD) (n : Nat) (hn : n ≤ 999999) (D : Entries) (tb tl : Str)
    (hd : s.data = C12.hdrEntry :: ffEntry :: lcEntry n :: D) (hb : s.blockC = [(0, tb)]) (hl : s.lineC = [(n, tl)])
    (hp : C07.NoPhEs D) (hnd : NodupKeysV (.dict D)) (hff : ffKey ∉ keys D) : s.clean = s := by
  have hk := C12.noPh_keys hp
  obtain ⟨fB, fI, fL⟩ := filter_sel_noPh hk
  obtain ⟨l1, l2, l3⟩ := lcKey_sel hn
  have hkeys : keys s.data = .str C12.hdrPh :: ffKey :: .str (linePh n) :: keys D := by rw [hd]; rfl
  have hnoL : Key.str (linePh n) ∉ keys D := fun hm => by
    have := hk _ hm; rw [lcKey_isPh hn] at this; cases this
  apply C12W.clean_fix
  · refine ⟨?_, ?_, ?_, ?_⟩
    · rw [hkeys, hb]
      simp only [List.filter_cons, hdrKey_sel.1, ffKey_sel.1, l1, fB, if_true, Bool.false_eq_true, if_false,
        List.filterMap_cons, List.filterMap_nil, C12W.look, C12.hdrPh_digits, Option.bind, Tbl.get?]
      exact List.nodup_cons.mpr ⟨by simp, List.nodup_nil⟩
    · rw [hkeys]
      simp only [List.filter_cons, hdrKey_sel.2.1, ffKey_sel.2.1, l2, fI, Bool.false_eq_true, if_false]
    · rw [hkeys, hl]
      have hf : firstSixDigits (linePh n) = some n := C12W.firstSix_ph true hn
      simp only [List.filter_cons, hdrKey_sel.2.2, ffKey_sel.2.2, l3, fL, if_true, Bool.false_eq_true, if_false,
        List.filterMap_cons, List.filterMap_nil, C12W.look, hf, Option.bind, Tbl.get?]
      exact List.nodup_cons.mpr ⟨by simp, List.nodup_nil⟩
    · rw [hkeys]
      refine List.nodup_cons.mpr ⟨?_, List.nodup_cons.mpr ⟨?_, List.nodup_cons.mpr ⟨hnoL, hnd.1⟩⟩⟩
      · intro hm
        rcases List.mem_cons.mp hm with h | hm
        · cases h
        · rcases List.mem_cons.mp hm with h | hm
          · exact (lcKey_ne n).1 h.symm
          · exact C12.hdr_not_mem hp hm
      · intro hm
        rcases List.mem_cons.mp hm with h | hm
        · exact (lcKey_ne n).2 h.symm
        · exact hff hm
  · rw [hd]
    simp only [C12W.subsFix, C12W.allLevels, C12.hdrEntry, ffEntry, lcEntry, ffVal]
    exact ⟨⟨(subsFix_noPhV s ffVal ffVal_noPh ffVal_nodup _ rfl).1, trivial⟩, subsFix_noPh s D hp hnd.2⟩

/-! ## the reader on a Foam file with header -/

theorem hdrItemsF_wf : CSrcWFItems 1 hdrItemsF = true := by decide +kernel

theorem docKeys_src_f {es : Entries} (h : C01.DocKeysAbsent' es) : C02.DocKeysAbsent (srcOfEs .foam es) := by
  induction es with
  | nil => intro e he; simp [srcOfEs] at he
  | cons a es ih =>
    obtain ⟨k, v⟩ := a
    intro e he
    simp only [srcOfEs, List.mem_cons] at he
    rcases he with rfl | he
    · have hk := h (k, v) List.mem_cons_self
      cases k with
      | str s => exact ⟨fun e => hk.1 (by rw [← e]; rfl), fun e => hk.2 (by rw [← e]; rfl)⟩
      | int z =>
        have hn := (C01.intRepr_numChars z).2
        have hu : '_' ∉ C01.numChars := by decide
        refine ⟨fun e => hu (hn '_' ?_), fun e => hu (hn '_' ?_)⟩
        · show '_' ∈ intRepr z
          have : intRepr z = "_variables".toList := e
          rw [this]; decide
        · show '_' ∈ intRepr z
          have : intRepr z = "_includes".toList := e
          rw [this]; decide
    · exact ih (fun e he => h e (List.mem_cons_of_mem _ he)) e he

theorem dom_keys {fl : Flavor} {d : Nat} : ∀ {E : Entries}, domEs fl d E = true → ∀ k ∈ keys E, isDomKey k = true
  | [], _, k, hk => by simp at hk
  | (k0, v0) :: E, h, k, hk => by
    simp only [domEs, Bool.and_eq_true] at h
    rcases List.mem_cons.mp hk with rfl | hk
    · exact h.1.1
    · exact dom_keys h.2 k hk

theorem domKey_notPhTok {s : Str} (h : isDomKey (.str s) = true) : isPhTok s = false := by
  simp only [isDomKey, isSrcWord, Bool.and_eq_true, Bool.not_eq_true'] at h
  exact h.1.1.1.1.1.1.1.1.2

theorem next_le {c : Counter} (hc : C13.ValidCounter Gen.counterLimit c) :
    (Counter.next Gen.counterLimit c).1 ≤ Gen.counterLimit := by
  rcases hc with rfl | ⟨n, rfl, hn⟩
  · exact Nat.zero_le _
  · simp only [Counter.next]
    split
    · exact Nat.zero_le _
    · omega

theorem label_hdrF (c : Counter) (src : SrcEntries) :
    labelCItems { counter := c } (hdrItemsF ++ embEs src) =
      ({ counter := (Counter.next Gen.counterLimit c).2, lineC := [((Counter.next Gen.counterLimit c).1, lcText)],
         blockC := [(0, bannerC)] },
       (blockPh 0, .lit (.bare (blockPh 0))) :: ("FoamFile".toList, .dict ffSrc) ::
         (linePh (Counter.next Gen.counterLimit c).1, .lit (.bare (linePh (Counter.next Gen.counterLimit c).1))) :: src) := by
  rw [bannerC_shape]
  simp only [hdrItemsF, List.cons_append, List.nil_append, labelCItems, labelCV, label_emb, Tbl.set, List.length_nil,
    ← lcText_shape]

theorem ffSrc_den : denPV (.dict ffSrc) = ffVal := by decide +kernel
theorem ffKey_parse : isPhTok "FoamFile".toList = false ∧ keyOfScalar (parseKey "FoamFile".toList) = some ffKey := by
  decide +kernel

/-- the data the labelled document of a Foam file with header denotes -/
theorem den_hdrF {E : Entries} (n : Nat) (hdom : DomC01 .foam E = true) (hff : ffKey ∉ keys E) :
    denPEs ((blockPh 0, .lit (.bare (blockPh 0))) :: ("FoamFile".toList, .dict ffSrc) ::
        (linePh n, .lit (.bare (linePh n))) :: srcOfEs .foam E) [] =
      C12.hdrEntry :: ffEntry :: lcEntry n :: normEs E := by
  have hd : domEs .foam 1 E = true ∧ (keys E).Nodup := by
    simpa only [DomC01, Bool.and_eq_true, decide_eq_true_eq] using hdom
  have hwf := C10.Foam.srcOf_wf_f 1 E hd.1
  have hkd := dom_keys hd.1
  have hb : isPhTok (blockPh 0) = true := (C12.blockPh_tok 0).2
  have hl : isPhTok (linePh n) = true := (C12.linePh_tok n).2
  rw [C12.denPEs_cons_ph hb, C12.denPEs_cons ffKey_parse.1 ffKey_parse.2, ffSrc_den,
    C12.denPEs_cons_ph hl, C12.denPEs_plain _ 1 _ hwf]
  have e : setKey (Key.str (linePh n)) (Val.leaf (Scalar.str (linePh n)))
      (setKey ffKey ffVal (setKey (Key.str (blockPh 0)) (Val.leaf (Scalar.str (blockPh 0))) [])) =
      [C12.hdrEntry, ffEntry, lcEntry n] := by
    have h1 : ¬ Key.str (blockPh 0) = ffKey := by decide +kernel
    have h2 : ¬ Key.str (blockPh 0) = Key.str (linePh n) := fun h => (lcKey_ne n).1 h.symm
    have h3 : ¬ ffKey = Key.str (linePh n) := fun h => (lcKey_ne n).2 h.symm
    simp only [setKey, h1, h2, h3, if_false]
    rfl
  rw [e, C10.Foam.den_srcOfEs_f 1 E _ hd.1 hd.2]
  · rfl
  · intro k hk hm
    have hdk := hkd k hk
    simp only [keys, List.map_cons, List.map_nil, List.mem_cons, List.not_mem_nil, or_false] at hm
    rcases hm with rfl | rfl | rfl
    · have := domKey_notPhTok hdk
      rw [show C12.hdrEntry.1 = Key.str (blockPh 0) from rfl] at hdk
      have := domKey_notPhTok hdk
      rw [hb] at this; cases this
    · exact hff hk
    · have := domKey_notPhTok hdk
      rw [hl] at this; cases this

/-- **the native reader on a Foam file with header** (comments on): for a dict `E` of the Foam value domain without
    private keys and without a `FoamFile` key, the text `foamHeader ++ fmtPlain .foam E` is read as `normEs E` behind
    the banner placeholder entry, the `FoamFile` dict and the separator placeholder entry; the id of the separator
    comes from the counter -/
theorem parse_foam_hdr {E : Entries} {c : Counter} (dir : Str)
    (hdom : DomC01 .foam E = true) (hu : C10.NoUnderscoreEs E) (hdoc : C01.DocKeysAbsent' E) (hff : ffKey ∉ keys E)
    (hcnt : C02.countQuotedEs (srcOfEs .foam E) ≤ Gen.counterLimit + 1)
    (hc : C13.ValidCounter Gen.counterLimit c) :
    ∃ c', C13.ValidCounter Gen.counterLimit c' ∧
      parseNative true dir c (foamHeader ++ fmtPlain .foam E) =
        .ok (foamSD (Counter.next Gen.counterLimit c).1 (normEs E), c') := by
  have hd : domEs .foam 1 E = true ∧ (keys E).Nodup := by
    simpa only [DomC01, Bool.and_eq_true, decide_eq_true_eq] using hdom
  have hwf := C10.Foam.srcOf_wf_f 1 E hd.1
  obtain ⟨gaps, tail, etext, hg, ht⟩ := C10.Foam.fmtPlain_is_layout_f hdom hu
  obtain ⟨G, tail', hlay, hG⟩ := foam_layout _ gaps tail hg ht
  have hitems : ctoksItems (hdrItemsF ++ embEs (srcOfEs .foam E)) = hdrToksF ++ (srcToksEs (srcOfEs .foam E)).map .tok := by
    rw [ctoks_hdrF, ctoks_emb]
  have hplain : plainItems (hdrItemsF ++ embEs (srcOfEs .foam E)) =
      ("FoamFile".toList, .dict ffSrc) :: srcOfEs .foam E := by
    simp only [hdrItemsF, List.cons_append, List.nil_append, plainItems, plainV, plain_emb]
  have hread := C12.C12_read_commented (items := hdrItemsF ++ embEs (srcOfEs .foam E)) (gaps := G) (tail := tail') dir c
    (by rw [C12W.wfI_append, hdrItemsF_wf, wf_emb _ 1 hwf]; rfl) (by rw [hitems]; exact hG)
    (fun h => by simp [hdrItemsF] at h) hc
    (by rw [hplain]; simpa [C02.countQuotedEs, C02.countQuotedV, ffSrc] using hcnt)
    (by
      rw [hplain]
      intro e he
      rcases List.mem_cons.mp he with rfl | he
      · exact ⟨by decide, by decide⟩
      · exact docKeys_src_f hdoc e he)
  rw [hitems, hlay, C12W.parseNative_nl, ← etext] at hread
  have hden : denC c (hdrItemsF ++ embEs (srcOfEs .foam E)) =
      foamSD (Counter.next Gen.counterLimit c).1 (normEs E) := by
    simp only [denC, label_hdrF, den_hdrF _ hdom hff]
    have hinv := C10.norm_invariants_foam hdom
    exact clean_foam _ _ (next_le hc) (normEs E) bannerC lcText rfl rfl rfl hinv.1 hinv.2
      (by rw [C01.keys_normEs]; exact hff)
  rw [hden] at hread
  exact ⟨_, C02.adv_valid _ (by rw [label_hdrF]; exact C13.next_valid hc), hread⟩

theorem foamSD_nodup {n : Nat} (hn : n ≤ 999999) {D : Entries} (hp : C07.NoPhEs D) (hnd : NodupKeysV (.dict D))
    (hff : ffKey ∉ keys D) : NodupKeysV (.dict (foamSD n D).data) := by
  have hk := C12.noPh_keys hp
  have hnoL : Key.str (linePh n) ∉ keys D := fun hm => by
    have := hk _ hm; rw [lcKey_isPh hn] at this; cases this
  refine ⟨?_, trivial, ffVal_nodup, trivial, hnd.2⟩
  show (Key.str C12.hdrPh :: ffKey :: Key.str (linePh n) :: keys D).Nodup
  refine List.nodup_cons.mpr ⟨?_, List.nodup_cons.mpr ⟨?_, List.nodup_cons.mpr ⟨hnoL, hnd.1⟩⟩⟩
  · intro hm
    rcases List.mem_cons.mp hm with h | hm
    · cases h
    · rcases List.mem_cons.mp hm with h | hm
      · exact (lcKey_ne n).1 h.symm
      · exact C12.hdr_not_mem hp hm
  · intro hm
    rcases List.mem_cons.mp hm with h | hm
    · exact (lcKey_ne n).2 h.symm
    · exact hff hm

theorem foamSD_clean {n : Nat} (hn : n ≤ 999999) {D : Entries} (hp : C07.NoPhEs D) (hnd : NodupKeysV (.dict D))
    (hff : ffKey ∉ keys D) : (foamSD n D).clean = foamSD n D :=
  clean_foam _ n hn D bannerC lcText rfl rfl rfl hp hnd hff

/-- `DictReader.read` (default options) on a file whose text parses to the SDict of a Foam file with header: the
    stages above the parser change nothing -/
theorem readFile_of_parse_foam {D : Entries} {n : Nat} {c c' : Counter} (ev : Str → EvalResult) (p : Comps) (text : Str)
    (hparse : parseNative true (pathStr p.dropLast) c text = .ok (foamSD n D, c'))
    (hn : n ≤ 999999) (hp : C07.NoPhEs D) (hnd : NodupKeysV (.dict D)) (hff : ffKey ∉ keys D)
    (hj : isJsonPath p = false) (hx : isXmlPath p = false) (hr : resolveSpelled p = p) :
    readFile ev [(p, .native text)] {} c p = .ok (.ok (foamSD n D) c') := by
  have hcl := foamSD_clean hn hp hnd hff
  have hmi := C01.mergeIncludes_clean [(p, .native text)] true (foamSD n D) p.dropLast c' rfl hcl
    (foamSD_nodup hn hp hnd hff)
  have hev := C01.evalExpressions_noexpr ev (foamSD n D) rfl
  have hpf : parseFile [(p, .native text)] true c p = .ok (foamSD n D, c') := by
    simp only [parseFile, hx, hr, C01.fs_get_single, hj, hparse]
    rfl
  simp only [readFile, hpf, bind, Except.bind, pure, Except.pure]
  simp only [if_true, hmi, hev]
  rfl

/-! ## the Foam writer on the SDict of a Foam file with header -/

theorem phWord_format_foam (l : Bool) (i : Nat) : formatString .foam (C12W.phWord l i) = C12W.phWord l i := by
  refine C04.formatString_of_bare ⟨C12W.phWord_ne l i, ?_, ?_, ?_⟩
  · cases hc : (C12W.phWord l i).contains '$' with
    | false => rfl
    | true => exact absurd rfl (C12W.phWord_chars l i _ (List.contains_iff_mem.mp hc)).2.2.2.1
  · simp only [List.all_eq_true, Bool.and_eq_true, Bool.not_eq_true']
    exact fun c hc => ⟨(C12W.phWord_chars l i c hc).2.2.1, (C12W.phWord_chars l i c hc).2.2.2.2.1⟩
  · apply C01.startsInclude_of_head
    intro h
    exact (C12W.phWord_chars l i '#' (List.mem_of_mem_head? h)).2.2.2.2.2.1 rfl

theorem hdrPh_eq_phWord : C12.hdrPh = C12W.phWord false 0 := rfl

theorem fmtEntries_cons (fl : Flavor) (lvl : Nat) (e : Key × Val) (r : Entries) :
    fmtEntries fl lvl (e :: r) = fmtEntries fl lvl [e] ++ fmtEntries fl lvl r := by
  obtain ⟨k, v⟩ := e
  cases v <;> simp [fmtEntries]

theorem ff_fmt : fmtEntries .foam 0 [ffEntry] = ffText := by
  simp only [ffEntry, ffVal, ffKey, fmtEntries, formatKey, keyStr, formatScalar]
  decide +kernel
theorem ff_drop : dropUnderscoreV .foam ffVal = ffVal := by decide +kernel
theorem ffKey_fmt : (formatKey .foam ffKey).head? ≠ some '_' := by decide +kernel

/-- the separator placeholder line -/
def lcLine (n : Nat) : Str := linePh n ++ spaces 13 ++ linePh n ++ [';']

theorem hdr_fmt : fmtEntries .foam 0 [C12.hdrEntry] = C12.hdrPh ++ spaces 12 ++ C12.hdrPh ++ [';'] ++ ['\n'] := by
  have hf := phWord_format_foam false 0
  rw [← hdrPh_eq_phWord] at hf
  simp only [C12.hdrEntry, fmtEntries, fline, formatKey, formatScalar, hf, C12.hdrPh_len, spaces]
  simp [List.replicate]

theorem lc_fmt {n : Nat} (hn : n ≤ 999999) : fmtEntries .foam 0 [lcEntry n] = lcLine n ++ ['\n'] := by
  have hf := phWord_format_foam true n
  rw [← linePh_eq] at hf
  have hl : (linePh n).length = 17 := C12W.phWord_length true hn
  simp only [lcEntry, lcLine, fmtEntries, fline, formatKey, formatScalar, hf, hl, spaces]
  simp [List.replicate]

theorem noInfix_append_of_head {p : Str} {c : Char} {p' : Str} (hp : p = c :: p') : ∀ (x : Str) {y : Str}, c ∉ x →
    isInfix p y = false → isInfix p (x ++ y) = false
  | [], _, _, hy => hy
  | a :: x, y, hx, hy => by
    have ha : ¬ c = a := fun e => hx (by simp [e])
    have ih := noInfix_append_of_head hp x (fun h => hx (List.mem_cons_of_mem _ h)) hy
    rw [List.cons_append, C02.isInfix_cons, ih, hp]
    simp [List.isPrefixOf, ha]

theorem ffText_noBL : 'B' ∉ ffText ∧ 'L' ∉ ffText ∧ 'L' ∉ bannerC := by decide +kernel

theorem linePh_noB (n : Nat) : 'B' ∉ linePh n := C12W.linePh_no_B n

theorem lcLine_noB (n : Nat) : 'B' ∉ lcLine n := by
  intro h
  simp only [lcLine, List.mem_append, List.mem_singleton] at h
  rcases h with ((h | h) | h) | h
  · exact linePh_noB n h
  · simp [spaces] at h
  · exact linePh_noB n h
  · cases h

/-- the raw text of the entries of a Foam-domain dict contains no `COMMENT` -/
theorem body_noComment {M : Entries} (h : DomC01 .foam M = true) :
    isInfix C12.kwComment (fmtEntries .foam 0 M) = false := by
  obtain ⟨gaps, tail, e, hg, ht⟩ := C10.Foam.fmt_is_layout_f h
  have hd : domEs .foam 1 M = true := by
    simp only [DomC01, Bool.and_eq_true] at h; exact h.1
  rw [e]
  exact C12.noComment_spread _ gaps tail (C02.srcToks_ok 1 _ (C10.Foam.srcOf_wf_f 1 M hd)) hg ht

theorem noLinePh_of_noComment (n : Nat) {s : Str} (h : isInfix C12.kwComment s = false) :
    isInfix (kwLine ++ padSix n) s = false := by
  cases hc : isInfix (kwLine ++ padSix n) s with
  | false => rfl
  | true =>
    have : isInfix C12.kwComment (kwLine ++ padSix n) = true :=
      C01.isInfix_iff.mpr ⟨"LINE".toList, padSix n, rfl⟩
    rw [C02.Front.isInfix_trans this hc] at h; cases h

def keyB (k : Key) : Bool := match k with | .str x => containsPh kwBlock x | _ => false
def keyI (k : Key) : Bool := match k with | .str x => containsPh kwIncl x | _ => false

/-- a block-comment placeholder entry in front of entries that are neither block-comment nor include placeholders:
    the writer's reordering changes nothing -/
theorem hoist_front (h : Key × Val) (L : Entries) (hh : keyB h.1 = true)
    (hL : ∀ e ∈ L, keyB e.1 = false ∧ keyI e.1 = false) : hoistPlaceholders (h :: L) = h :: L := by
  unfold hoistPlaceholders
  refine hoist3 _ _ (fun e : Key × Val => keyB e.1) (h :: L) h L ?_ ?_ ?_ ?_
  · rw [List.filter_cons, if_pos hh]
    congr 1
    exact List.filter_eq_nil_iff.mpr fun e he => by rw [(hL e he).1]; decide
  · rw [List.filter_cons, if_neg (by simp [hh])]
    exact List.filter_eq_self.mpr fun e he => by simp [(hL e he).1]
  · intro e _
    obtain ⟨k, v⟩ := e
    cases k <;> rfl
  · intro e he hne
    rcases List.mem_cons.mp he with rfl | he
    · rw [hh] at hne; cases hne
    · have := (hL e he).2
      obtain ⟨k, v⟩ := e
      cases k
      · rfl
      · exact this

theorem keyBI_noPh {k : Key} (h : C07.isPhKey k = false) : keyB k = false ∧ keyI k = false := by
  cases k with
  | int z => exact ⟨rfl, rfl⟩
  | str x =>
    simp only [C07.isPhKey, Bool.or_eq_false_iff] at h
    exact ⟨h.1.1, h.1.2⟩

/-- the writer's reordering leaves the top level of a Foam file with header as it is -/
theorem hoist_foam (n : Nat) {M : Entries} (hM : ∀ k ∈ keys M, C07.isPhKey k = false) :
    hoistPlaceholders (C12.hdrEntry :: ffEntry :: lcEntry n :: M) = C12.hdrEntry :: ffEntry :: lcEntry n :: M := by
  apply hoist_front
  · exact C12.hdrPh_block
  · intro e he
    rcases List.mem_cons.mp he with rfl | he
    · exact ⟨by decide +kernel, by decide +kernel⟩
    · rcases List.mem_cons.mp he with rfl | he
      · exact ⟨C12W.containsPh_block_line n, C12W.containsPh_incl_ph true n⟩
      · exact keyBI_noPh (hM e.1 (List.mem_map_of_mem he))

theorem bannerC_facts : containsCpp bannerC = true ∧ isInfix "OpenFOAM".toList bannerC = true ∧ bannerC ≠ [] := by
  decide +kernel

/-- `remove_trailing_spaces` leaves the Foam header alone -/
def hdrLinesF : List Str := (splitNl C10.foamHeaderChars).dropLast

theorem hdrLinesF_join : hdrLinesF.flatMap (· ++ ['\n']) = C10.foamHeaderChars := by decide +kernel
theorem hdrLinesF_good : ∀ l ∈ hdrLinesF, C12.goodLineB l = true := by decide +kernel
theorem foamHeaderChars_noCr : ∀ c ∈ C10.foamHeaderChars, c ≠ '\r' := by decide +kernel

theorem rts_foamHeader (t : Str) : removeTrailingSpaces (foamHeader ++ t) = foamHeader ++ removeTrailingSpaces t := by
  rw [C01.removeTrailingSpaces_eq, C01.removeTrailingSpaces_eq, C10.foamHeader_eq,
    C01.universalNl_solid _ _ foamHeaderChars_noCr, ← hdrLinesF_join, C12.rts_lines _ _ hdrLinesF_good]

theorem insertLine_single (i : Nat) (t s : Str) : insertLineComments [(i, t)] s = (substPh kwLine i t s).1 := rfl

/-- **the Foam writer on the SDict of a Foam file with header**: the banner and the separator are put back where
    their placeholder entries stand, the `FoamFile` dict is written as the header spells it — the text is the header
    followed by the plain text of the data, private keys dropped -/
theorem fmtSD_foam {n : Nat} (hn : n ≤ 999999) {M : Entries}
    (hdom : DomC01 .foam (dropUnderscoreEs .foam M) = true) :
    fmtSD .foam (foamSD n M) = some (foamHeader ++ fmtPlain .foam M) := by
  have hfL := phWord_format_foam true n
  rw [← linePh_eq] at hfL
  have hk1 : ((formatKey .foam C12.hdrEntry.1).head? == some '_') = false := by decide +kernel
  have hk2 : ((formatKey .foam ffEntry.1).head? == some '_') = false := by decide +kernel
  have hk3 : ((formatKey .foam (lcEntry n).1).head? == some '_') = false := by
    show ((formatString .foam (linePh n)).head? == some '_') = false
    rw [hfL]; rfl
  have hdrop : dropUnderscoreEs .foam (foamSD n M).data =
      C12.hdrEntry :: ffEntry :: lcEntry n :: dropUnderscoreEs .foam M := by
    show dropUnderscoreEs .foam (C12.hdrEntry :: ffEntry :: lcEntry n :: M) = _
    have e1 : ∀ r, dropUnderscoreEs .foam (C12.hdrEntry :: r) = C12.hdrEntry :: dropUnderscoreEs .foam r := fun r => by
      show dropUnderscoreEs .foam ((C12.hdrEntry.1, C12.hdrEntry.2) :: r) = _
      simp only [dropUnderscoreEs, hk1, Bool.false_eq_true, if_false]; rfl
    have e2 : ∀ r, dropUnderscoreEs .foam (ffEntry :: r) = ffEntry :: dropUnderscoreEs .foam r := fun r => by
      show dropUnderscoreEs .foam ((ffEntry.1, ffEntry.2) :: r) = _
      simp only [dropUnderscoreEs, hk2, Bool.false_eq_true, if_false]
      rw [show dropUnderscoreV .foam ffEntry.2 = ffVal from ff_drop]; rfl
    have e3 : ∀ r, dropUnderscoreEs .foam (lcEntry n :: r) = lcEntry n :: dropUnderscoreEs .foam r := fun r => by
      show dropUnderscoreEs .foam (((lcEntry n).1, (lcEntry n).2) :: r) = _
      simp only [dropUnderscoreEs, hk3, Bool.false_eq_true, if_false]; rfl
    rw [e1, e2, e3]
  have hinv := C10.norm_invariants_foam hdom
  have hkM : ∀ k ∈ keys (dropUnderscoreEs .foam M), C07.isPhKey k = false := by
    have := C12.noPh_keys hinv.1
    rwa [C01.keys_normEs] at this
  have hnoC := body_noComment hdom
  -- the raw text
  have hraw : fmtEntries .foam 0 (C12.hdrEntry :: ffEntry :: lcEntry n :: dropUnderscoreEs .foam M) =
      [] ++ (kwBlock ++ padSix 0) ++ spaces 12 ++ (kwBlock ++ padSix 0) ++ [';'] ++
        ('\n' :: ffText ++ lcLine n ++ '\n' :: fmtEntries .foam 0 (dropUnderscoreEs .foam M)) := by
    rw [fmtEntries_cons, fmtEntries_cons _ _ ffEntry, fmtEntries_cons _ _ (lcEntry n), hdr_fmt, ff_fmt, lc_fmt hn]
    show _ = [] ++ C12.hdrPh ++ spaces 12 ++ C12.hdrPh ++ [';'] ++ _
    simp
  -- the banner is put back
  have hR : isInfix (kwBlock ++ padSix 0)
      ('\n' :: ffText ++ lcLine n ++ '\n' :: fmtEntries .foam 0 (dropUnderscoreEs .foam M)) = false := by
    have h0 : isInfix C12.hdrPh ('\n' :: fmtEntries .foam 0 (dropUnderscoreEs .foam M)) = false := by
      rw [C02.isInfix_cons, C12.noHdrPh_of_noComment hnoC, C12.hdrPh_eq]; rfl
    have e : '\n' :: ffText ++ lcLine n ++ '\n' :: fmtEntries .foam 0 (dropUnderscoreEs .foam M) =
        ('\n' :: ffText ++ lcLine n) ++ ('\n' :: fmtEntries .foam 0 (dropUnderscoreEs .foam M)) := by simp
    rw [e]
    refine noInfix_append_of_head (c := 'B') (p' := "LOCKCOMMENT".toList ++ padSix 0) rfl _ ?_ h0
    intro h
    simp only [List.cons_append, List.mem_cons, List.mem_append] at h
    rcases h with h | h | h
    · cases h
    · exact ffText_noBL.1 h
    · exact lcLine_noB n h
  have hsubB : ∀ repl, substPh kwBlock 0 repl
      (fmtEntries .foam 0 (C12.hdrEntry :: ffEntry :: lcEntry n :: dropUnderscoreEs .foam M)) =
      (repl ++ ('\n' :: ffText ++ lcLine n ++ '\n' :: fmtEntries .foam 0 (dropUnderscoreEs .foam M)), true) := by
    intro repl
    rw [hraw, C12.C12_substPh_literal (kw := kwBlock) (c := 'B') (kw' := "LOCKCOMMENT".toList) (by decide) (by decide) 0
      repl [] (spaces 12) _ (by simp) (by decide) (C01.spaces_ws 12), C12.substPh_noInfix kwBlock 0 repl _ hR]
    rfl
  have hblock : insertBlockComments .foam [(0, bannerC)]
      (fmtEntries .foam 0 (C12.hdrEntry :: ffEntry :: lcEntry n :: dropUnderscoreEs .foam M)) =
      bannerC ++ ('\n' :: ffText ++ lcLine n ++ '\n' :: fmtEntries .foam 0 (dropUnderscoreEs .foam M)) := by
    have hmd : makeDefaultBlockComment .foam bannerC = bannerC := by
      rw [C10.makeDefault_foam_of_cpp bannerC_facts.1, if_pos bannerC_facts.2.1]
    rw [C10.insertBlock_single .foam 0 bannerC _ (by rw [hsubB]) (by rw [hmd]; exact bannerC_facts.2.2), hmd, hsubB]
  -- the separator is put back
  have hline : insertLineComments [(n, lcText)]
      (bannerC ++ ('\n' :: ffText ++ lcLine n ++ '\n' :: fmtEntries .foam 0 (dropUnderscoreEs .foam M))) =
      bannerC ++ '\n' :: ffText ++ lcText ++ '\n' :: fmtEntries .foam 0 (dropUnderscoreEs .foam M) := by
    have hpost : isInfix (kwLine ++ padSix n) ('\n' :: fmtEntries .foam 0 (dropUnderscoreEs .foam M)) = false := by
      rw [C02.isInfix_cons, noLinePh_of_noComment n hnoC]
      rfl
    have e : bannerC ++ ('\n' :: ffText ++ lcLine n ++ '\n' :: fmtEntries .foam 0 (dropUnderscoreEs .foam M)) =
        (bannerC ++ '\n' :: ffText) ++ (kwLine ++ padSix n) ++ spaces 13 ++ (kwLine ++ padSix n) ++ [';'] ++
          ('\n' :: fmtEntries .foam 0 (dropUnderscoreEs .foam M)) := by
      simp [lcLine, linePh]
    rw [insertLine_single, e, C12.C12_substPh_literal (kw := kwLine) (c := 'L') (kw' := "INECOMMENT".toList) (by decide) (by decide) n
      lcText (bannerC ++ '\n' :: ffText) (spaces 13) _ ?_ (by decide) (C01.spaces_ws 13),
      C12.substPh_noInfix kwLine n lcText _ hpost]
    intro h
    simp only [List.mem_append, List.mem_cons] at h
    rcases h with h | h | h
    · exact ffText_noBL.2.2 h
    · cases h
    · exact ffText_noBL.2.1 h
  simp only [fmtSD, hdrop, hoist_foam n hkM]
  show (match insertIncludes .foam [] (insertBlockComments .foam [(0, bannerC)] _) with
    | none => none
    | some t => some (removeTrailingSpaces (insertLineComments [(n, lcText)] t))) = _
  rw [hblock]
  simp only [insertIncludes, List.foldl_nil, hline]
  refine congrArg some ?_
  have e : bannerC ++ '\n' :: ffText ++ lcText ++ '\n' :: fmtEntries .foam 0 (dropUnderscoreEs .foam M) =
      foamHeader ++ fmtEntries .foam 0 (dropUnderscoreEs .foam M) := by
    rw [foamHeader_split]; simp
  rw [e, rts_foamHeader]
  refine congrArg (foamHeader ++ ·) ?_
  show _ = removeTrailingSpaces (fmtEntries .foam 0 (hoistPlaceholders (dropUnderscoreEs .foam M)))
  rw [C12.hoist_noPh hkM]

/-! ## the removal of private keys and the merge commute -/

/-- "the key is written with a leading underscore" -/
def isPriv (k : Key) : Bool := (formatKey .foam k).head? == some '_'

theorem drop_cons_priv {k : Key} (h : isPriv k = true) (v : Val) (es : Entries) :
    dropUnderscoreEs .foam ((k, v) :: es) = dropUnderscoreEs .foam es := by
  simp only [isPriv] at h
  simp only [dropUnderscoreEs, h, if_true]

theorem drop_cons_pub {k : Key} (h : isPriv k = false) (v : Val) (es : Entries) :
    dropUnderscoreEs .foam ((k, v) :: es) = (k, dropUnderscoreV .foam v) :: dropUnderscoreEs .foam es := by
  simp only [isPriv] at h
  simp only [dropUnderscoreEs, h, Bool.false_eq_true, if_false]

theorem drop_append : ∀ (a b : Entries),
    dropUnderscoreEs .foam (a ++ b) = dropUnderscoreEs .foam a ++ dropUnderscoreEs .foam b
  | [], b => rfl
  | (k, v) :: a, b => by
    cases h : isPriv k with
    | true => rw [List.cons_append, drop_cons_priv h, drop_cons_priv h, drop_append a b]
    | false => rw [List.cons_append, drop_cons_pub h, drop_cons_pub h, drop_append a b]; rfl

theorem lookup_drop {k : Key} (hk : isPriv k = false) : ∀ t : Entries,
    lookup k (dropUnderscoreEs .foam t) = (lookup k t).map (dropUnderscoreV .foam)
  | [] => rfl
  | (k', v') :: t => by
    cases h : isPriv k' with
    | true =>
      have hne : ¬ k' = k := fun e => by rw [e, hk] at h; cases h
      rw [drop_cons_priv h, lookup_drop hk t]
      simp [lookup, hne]
    | false =>
      rw [drop_cons_pub h]
      by_cases e : k' = k
      · simp [lookup, e]
      · simp [lookup, e, lookup_drop hk t]

theorem drop_setKey_priv {k : Key} (hk : isPriv k = true) (x : Val) : ∀ t : Entries,
    dropUnderscoreEs .foam (setKey k x t) = dropUnderscoreEs .foam t
  | [] => by simp only [setKey]; rw [drop_cons_priv hk]
  | (k', v') :: t => by
    by_cases e : k' = k
    · subst e
      simp only [setKey, if_true]
      rw [drop_cons_priv hk, drop_cons_priv hk]
    · simp only [setKey, e, if_false]
      cases h : isPriv k' with
      | true => rw [drop_cons_priv h, drop_cons_priv h, drop_setKey_priv hk x t]
      | false => rw [drop_cons_pub h, drop_cons_pub h, drop_setKey_priv hk x t]

theorem drop_setKey_pub {k : Key} (hk : isPriv k = false) (x : Val) : ∀ t : Entries,
    dropUnderscoreEs .foam (setKey k x t) = setKey k (dropUnderscoreV .foam x) (dropUnderscoreEs .foam t)
  | [] => by simp only [setKey]; rw [drop_cons_pub hk]; rfl
  | (k', v') :: t => by
    by_cases e : k' = k
    · subst e
      simp only [setKey, if_true]
      rw [drop_cons_pub hk, drop_cons_pub hk]
      simp only [setKey, if_true]
    · simp only [setKey, e, if_false]
      cases h : isPriv k' with
      | true => rw [drop_cons_priv h, drop_cons_priv h, drop_setKey_pub hk x t]
      | false =>
        rw [drop_cons_pub h, drop_cons_pub h, drop_setKey_pub hk x t]
        simp only [setKey, e, if_false]

theorem selfRef_drop (exprs : Tbl ExprEntry) (k : Key) (v : Val) :
    selfRef exprs k (dropUnderscoreV .foam v) = selfRef exprs k v := by
  cases v with
  | leaf x => rfl
  | dict es => rw [dropUnderscoreV, C07.selfRef_dict, C07.selfRef_dict]
  | list xs => cases k <;> rfl

theorem isDict_drop (v : Val) : (dropUnderscoreV .foam v).isDict = v.isDict := by cases v <;> rfl

/-- `remove_underscore_keys_recursive` commutes with `_recursive_merge` -/
theorem drop_mergeD (exprs : Tbl ExprEntry) : ∀ (top : Bool) (t o : Entries),
    dropUnderscoreEs .foam (mergeD top exprs t o) =
      mergeD top exprs (dropUnderscoreEs .foam t) (dropUnderscoreEs .foam o) := by
  apply C07.mergeD_induct exprs
    (motive := fun top t o => dropUnderscoreEs .foam (mergeD top exprs t o) =
      mergeD top exprs (dropUnderscoreEs .foam t) (dropUnderscoreEs .foam o))
  · intro top t; rw [C07.mergeD_nil]; show _ = mergeD top exprs _ []; rw [C07.mergeD_nil]
  · intro top t k v o ih1 ih2
    rw [C07.mergeD_cons, ih2]
    cases hk : isPriv k with
    | true =>
      rw [drop_cons_priv hk]
      congr 1
      unfold C07.mstep
      split
      · exact drop_setKey_priv hk _ t
      · split
        · exact drop_setKey_priv hk _ t
        · rfl
      · rw [drop_append, drop_cons_priv hk]; exact List.append_nil _
    | false =>
      rw [drop_cons_pub hk, C07.mergeD_cons]
      congr 1
      have hl := lookup_drop hk t
      cases h : lookup k t with
      | none =>
        rw [h] at hl
        rw [C07.mstep_none top exprs v h, C07.mstep_none top exprs _ hl, drop_append, drop_cons_pub hk]
        rfl
      | some tv =>
        rw [h] at hl
        by_cases hnd : tv.isDict = false ∨ v.isDict = false
        · have hnd' : (dropUnderscoreV .foam tv).isDict = false ∨ (dropUnderscoreV .foam v).isDict = false := by
            rw [isDict_drop, isDict_drop]; exact hnd
          rw [C07.mstep_some top exprs h hnd, C07.mstep_some top exprs hl hnd', selfRef_drop]
          split
          · exact drop_setKey_pub hk v t
          · rfl
        · cases tv with
          | dict td =>
            cases v with
            | dict od =>
              have hl' : lookup k (dropUnderscoreEs .foam t) = some (.dict (dropUnderscoreEs .foam td)) := hl
              rw [C07.mstep_dict_dict top exprs od h]
              show _ = C07.mstep top exprs _ k (.dict (dropUnderscoreEs .foam od))
              rw [C07.mstep_dict_dict top exprs _ hl', drop_setKey_pub hk, dropUnderscoreV, ih1 td od h rfl]
            | _ => simp [Val.isDict] at hnd
          | _ => simp [Val.isDict] at hnd

/-! ## merge lemmas for the Foam route -/

theorem mstep_cons_front (top : Bool) (exprs : Tbl ExprEntry) (e : Key × Val) (t : Entries) {k : Key} (v : Val)
    (hk : k ≠ e.1) : C07.mstep top exprs (e :: t) k v = e :: C07.mstep top exprs t k v := by
  obtain ⟨k0, v0⟩ := e
  have hne : ¬ k0 = k := fun h => hk h.symm
  have hl : lookup k ((k0, v0) :: t) = lookup k t := by simp [lookup, hne]
  have hs : ∀ x, setKey k x ((k0, v0) :: t) = (k0, v0) :: setKey k x t := fun x => C12.setKey_cons_ne hne t
  unfold C07.mstep
  rw [hl]
  split
  · rw [hs]
  · split
    · rw [hs]
    · rfl
  · rfl

/-- an entry in front whose key the merged-in dict does not have is not touched by the merge -/
theorem mergeD_cons_front (top : Bool) (exprs : Tbl ExprEntry) (e : Key × Val) : ∀ (o t : Entries), e.1 ∉ keys o →
    mergeD top exprs (e :: t) o = e :: mergeD top exprs t o
  | [], t, _ => by rw [C07.mergeD_nil, C07.mergeD_nil]
  | (k, v) :: o, t, h => by
    have hk : k ≠ e.1 := fun h' => h (by simp [h'])
    rw [C07.mergeD_cons, C07.mergeD_cons, mstep_cons_front top exprs e t v hk]
    exact mergeD_cons_front top exprs e o _ fun hm => h (by simp [hm])

/-- when no key of `o` (unique keys) leads to a self-referring entry of `t`, the `SDict` merge is the plain merge -/
theorem mergeD_top_eq' (exprs : Tbl ExprEntry) : ∀ (o t : Entries), (keys o).Nodup →
    (∀ k ∈ keys o, ∀ tv, lookup k t = some tv → selfRef exprs k tv = false) →
    mergeD true exprs t o = mergeD false exprs t o
  | [], t, _, _ => by rw [C07.mergeD_nil, C07.mergeD_nil]
  | (k, v) :: o, t, hn, h => by
    have hn' : k ∉ keys o ∧ (keys o).Nodup := List.nodup_cons.mp hn
    have hstep : C07.mstep true exprs t k v = C07.mstep false exprs t k v := by
      unfold C07.mstep
      split
      · rfl
      · next _ tv hl _ => simp [h k (by simp) tv hl]
      · rfl
    rw [C07.mergeD_cons, C07.mergeD_cons, hstep]
    apply mergeD_top_eq' exprs o _ hn'.2
    intro k' hk' tv hl
    have hne : ¬ k = k' := fun e => hn'.1 (e ▸ hk')
    rw [C07.lookup_mstep, if_neg hne] at hl
    exact h k' (by simp [hk']) tv hl

theorem selfRef_dom_f {k : Key} {v : Val} {d : Nat} (hk : isDomKey k = true) (hv : domV .foam d v = true) :
    selfRef [] k v = false := by
  cases v with
  | dict es => exact C07.selfRef_dict _ _ _
  | list xs => cases k <;> rfl
  | leaf x =>
    cases x with
    | str vs =>
      simp only [domV, Bool.and_eq_true, decide_eq_true_eq] at hv
      have hs : isDomStr .native vs = true := (C10.Foam.isDomStr_foam hv.1).1
      exact selfRef_dom (d := d) hk (by simp only [domV, Bool.and_eq_true, decide_eq_true_eq]; exact ⟨hs, hv.2⟩)
    | _ => cases k <;> rfl

theorem noSelf_dom_f {e : Entries} (h : DomC01 .foam e = true) :
    ∀ k tv, lookup k e = some tv → selfRef [] k tv = false := by
  simp only [DomC01, Bool.and_eq_true] at h
  have hd := h.1
  clear h
  induction e with
  | nil => intro k tv hl; simp [lookup] at hl
  | cons a e ih =>
    obtain ⟨k0, v0⟩ := a
    simp only [domEs, Bool.and_eq_true] at hd
    intro k tv hl
    simp only [lookup] at hl
    split at hl
    · next hk => cases hl; subst hk; exact selfRef_dom_f hd.1.1 hd.1.2
    · exact ih hd.2 k tv hl

/-! ## the plain routes of the Foam flavour -/

/-- the `SDict` route without tables (header abstract: the kernel must not unfold the long literal) -/
theorem fmtSD_plain_gen (H : Str) (hb : ∀ t, insertBlockComments .foam [] t = H ++ t) (M : Entries) :
    fmtSD .foam { data := M } = some (removeTrailingSpaces
      (H ++ fmtEntries .foam 0 (hoistPlaceholders (dropUnderscoreEs .foam M)))) := by
  simp only [fmtSD, hb, insertIncludes, insertLineComments, List.foldl_nil]

theorem fmtSD_foam_plain (M : Entries) : fmtSD .foam { data := M } = some (foamHeader ++ fmtPlain .foam M) := by
  rw [fmtSD_plain_gen foamHeader C10.C10_banner_raw, rts_foamHeader]
  exact congrArg (fun x => some (foamHeader ++ x)) rfl

/-- reading the Foam writer's plain text, counter valid afterwards -/
theorem read_written_text_f {e : Entries} {c : Counter} (comments : Bool) (dir : Str)
    (h : DomC01 .foam e = true) (hu : C10.NoUnderscoreEs e) (hd : C01.DocKeysAbsent' e)
    (hn : C02.countQuotedEs (srcOfEs .foam e) ≤ Gen.counterLimit + 1) (hc : C13.ValidCounter Gen.counterLimit c) :
    ∃ c', C13.ValidCounter Gen.counterLimit c' ∧
      parseNative comments dir c (fmtPlain .foam e) = .ok ({ data := normEs e }, c') := by
  have hdom : domEs .foam 1 e = true := by
    simp only [DomC01, Bool.and_eq_true] at h; exact h.1
  have hwf := C10.Foam.srcOf_wf_f 1 e hdom
  have hden := C10.Foam.den_written_f h
  obtain ⟨gaps, tail, he, hg, ht⟩ := C10.Foam.fmtPlain_is_layout_f h hu
  refine ⟨(labelEs { counter := c } (srcOfEs .foam e)).1.counter, ?_, ?_⟩
  · rw [(C02.labelEs_state _ _).2.2]; exact C02.adv_valid _ hc
  · rw [he, ← hden]
    refine C02.C02_layout_tolerant_gen comments dir hwf hg ht hc hn ?_ ?_
    · rw [hden]; exact C01.norm_lookup_none fun e he => (hd e he).1
    · rw [hden]; exact C01.norm_lookup_none fun e he => (hd e he).2


/-! # property theorems -/

/-! ## (2) `order = true`, native flavour -/

/-- the ordered copy of a dict the file may hold is a dict the file may hold -/
theorem good_order {s : Entries} (h : Good s) : Good (orderD s) :=
  ⟨C15.DomC01_order h.dom, by rw [C15.normEs_orderD, h.norm], C15.docKeys_order h.doc,
    by rw [C15.countQuoted_order]; exact h.cnt⟩

/-- reading with `order=True` a file that holds the ordered dict `E`: the plain SDict, or the SDict with the header
    entry sorted in among the keys -/
theorem read_ord {s : Entries} {t : Str} {c : Counter} (ev : Str → EvalResult) {target : Comps} (P : PathOK target)
    (h : Good s) (hf : FileOf (orderD s) t) (hc : C13.ValidCounter Gen.counterLimit c) :
    ∃ sd c', C13.ValidCounter Gen.counterLimit c' ∧
      readFile ev [(target, .native t)] { order := true } c target = .ok (.ok sd c') ∧
      (sd = { data := orderD s } ∨
        ∃ L, HdrIn L (orderD s) ∧ sd = { data := L, blockC := [(0, C12.hdrComment)] }) := by
  have hE := good_order h
  obtain ⟨sd, c', hv, hr, hsd⟩ := read_any ev P hE hf hc
  have hflag := C15.readFile_order_flag ev [(target, .native t)] {} c target
  have hr' : readFile ev [(target, .native t)] { ({} : ReadOpts) with order := false } c target = .ok (.ok sd c') := hr
  rw [hr'] at hflag
  refine ⟨sd.order, c', hv, hflag, ?_⟩
  rcases hsd with rfl | rfl
  · left
    show ({ data := orderD (orderD s) } : SD) = _
    rw [orderD_idem h.nodup]
  · right
    refine ⟨orderD (C12.hdrEntry :: orderD s), ?_, rfl⟩
    have := (hdrIn_cons (C12.hdr_not_mem hE.noPh)).order
    rwa [orderD_idem h.nodup] at this

/-- **append with `order=True` onto a file that holds the ordered dict `orderD s`** (in either state): the file then
    holds the ordered merge, written by the `SDict` route (with the header) -/
theorem append_ord {s d : Entries} {t : Str} {c : Counter} (ev : Str → EvalResult) {target : Comps} (P : PathOK target)
    (hs : Good s) (hf : FileOf (orderD s) t) (hc : C13.ValidCounter Gen.counterLimit c)
    (hd : DomC01 .native (normEs d) = true)
    (hM : DomC01 .native (mergeD false [] s (normEs d)) = true) :
    ∃ c', C13.ValidCounter Gen.counterLimit c' ∧
      writeStep ev .native target (some t) ['a'] true d c =
        .ok (nativeHeader ++ fmtPlain .native (orderD (mergeD false [] s (normEs d))), c') := by
  obtain ⟨sd, c', hv, hr, hsd⟩ := read_ord ev P hs hf hc
  refine ⟨c', hv, ?_⟩
  have hE := good_order hs
  have hnN := C01.normEs_idem d
  have hiN := C01.norm_invariants hd
  rw [hnN] at hiN
  have hkey : orderD (mergeD true [] (orderD s) (normEs d)) = orderD (mergeD false [] s (normEs d)) := by
    rw [merge_top_false hE hd]
    exact orderD_merge_orderD hs.nodup hiN.2
  have hMo : DomC01 .native (orderD (mergeD false [] s (normEs d))) = true := C15.DomC01_order hM
  rw [C16_append_data ev .native target t true d c c' sd hr]
  simp only [if_true]
  rcases hsd with rfl | ⟨L, hL, rfl⟩
  · rw [merge_plain hE hd hnN]
    show (match fmtSD .native { data := orderD (mergeD true [] (orderD s) (normEs d)) } with
      | some t => Except.ok (t, c') | none => Except.error ParseErr.unsupported) = _
    rw [hkey, C12.fmtSD_text]
  · have hL1 : HdrIn (mergeD true [] L (normEs d)) (mergeD true [] (orderD s) (normEs d)) :=
      hL.merge true [] (C12.hdr_not_mem hiN.1)
    have hp := C07.noPhEs_mergeD [] true (orderD s) (normEs d) hE.noPh hiN.1
    have hn := C07.nodupV_mergeD [] true (orderD s) (normEs d) hE.nodup hiN.2.2
    have hmerge : ({ data := L, blockC := [(0, C12.hdrComment)] } : SD).merge (.plain (normEs d)) =
        { data := mergeD true [] L (normEs d), blockC := [(0, C12.hdrComment)] } :=
      clean_hdrP { data := mergeD true [] L (normEs d), blockC := [(0, C12.hdrComment)] } C12.hdrComment _ hL1 rfl hp hn
    rw [hmerge]
    have hL2 := hL1.order
    rw [hkey] at hL2
    show (match fmtSD .native { data := orderD (mergeD true [] L (normEs d)), blockC := [(0, C12.hdrComment)] } with
      | some t => Except.ok (t, c') | none => Except.error ParseErr.unsupported) = _
    rw [fmtSD_hdrIn hL2 hMo]

/-- one write with `order=True` onto an existing file that holds `orderD s` -/
theorem write_ord {s d : Entries} {t : Str} {c : Counter} (ev : Str → EvalResult) {target : Comps} (P : PathOK target)
    (m : Str) (hs : Good s) (hf : FileOf (orderD s) t) (hc : C13.ValidCounter Gen.counterLimit c)
    (hd : DomC01 .native (normEs d) = true) (hM : DomC01 .native (nextState s m d) = true) :
    ∃ t' c', C13.ValidCounter Gen.counterLimit c' ∧
      writeStep ev .native target (some t) m true d c = .ok (t', c') ∧ FileOf (orderD (nextState s m d)) t' := by
  by_cases hm : m = ['a']
  · subst hm
    have hM' : DomC01 .native (mergeD false [] s (normEs d)) = true := by simpa [nextState] using hM
    obtain ⟨c', hv, hw⟩ := append_ord ev P hs hf hc hd hM'
    exact ⟨_, c', hv, hw, Or.inr (by simp [nextState])⟩
  · have hm' : (m == ['a']) = false := by simpa using hm
    refine ⟨_, c, hc, C15.writeStep_ordered_overwrite ev .native target t m d c hm, Or.inl ?_⟩
    simp [nextState, hm']

/-- a sequence of writes with `order=True` onto an existing file that holds `orderD s` -/
theorem run_ord (ev : Str → EvalResult) {target : Comps} (P : PathOK target) :
    ∀ (ws : List (Str × Entries)) (s : Entries) (t : Str) (c : Counter), Good s → FileOf (orderD s) t →
      C13.ValidCounter Gen.counterLimit c → (∀ x ∈ specStates (some s) ws, StateOK x) →
      (∀ w ∈ ws, DomC01 .native (normEs w.2) = true) →
      ∃ t' c' D, C13.ValidCounter Gen.counterLimit c' ∧
        runWrites ev .native target true (some t) c ws = .ok (some t', c') ∧
        specFold (some s) ws = some D ∧ Good D ∧ FileOf (orderD D) t'
  | [], s, t, c, hs, hf, hc, _, _ => ⟨t, c, s, hc, rfl, rfl, hs, hf⟩
  | (m, d) :: ws, s, t, c, hs, hf, hc, hst, hw => by
    rw [specStates_cons] at hst
    have hnext : Good (nextState s m d) :=
      good_of _ (hst _ List.mem_cons_self) (nextState_norm hs.norm m d)
    obtain ⟨t1, c1, hv1, hw1, hf1⟩ := write_ord ev P m hs hf hc (hw (m, d) List.mem_cons_self) hnext.dom
    obtain ⟨t', c', D, hv, hrun, hspec, hD, hfD⟩ := run_ord ev P ws _ t1 c1 hnext hf1 hv1
      (fun x hx => hst x (List.mem_cons_of_mem _ hx)) (fun w hw' => hw w (List.mem_cons_of_mem _ hw'))
    refine ⟨t', c', D, hv, ?_, ?_, hD, hfD⟩
    · simp only [runWrites, hw1]; exact hrun
    · rw [specFold_cons]; exact hspec

/-- **C16 + C15, sequences of writes with `order=True`** (native flavour).  After any non-empty sequence of writes with
    arbitrary modes and `order=True` to a fresh target — all written dicts and all intermediate results of the
    *unordered* specification fold in the value domain, exactly the hypotheses of `C16_fold_statement` — the sequence
    succeeds, and reading the file back (default options) returns, up to the header placeholder entry of the append
    route, `order_keys` of the specification fold `D = specFold none ws`: keys ascending at every dict level
    (`SortedV`), the same key → value association at every level as the unordered fold (`SameAssoc`; key by key the
    value is the ordered copy; the key sets are permutations of each other). -/
theorem C16_fold_ordered (ev : Str → EvalResult) (target : Comps) (ws : List (Str × Entries)) (c : Counter)
    (hne : ws ≠ [])
    (hs : ∀ e ∈ specStates none ws, DomC01 .native e = true ∧ C01.DocKeysAbsent' e ∧
      C02.countQuotedEs (srcOfEs .native e) ≤ Gen.counterLimit + 1)
    (hw : ∀ w ∈ ws, DomC01 .native (normEs w.2) = true)
    (hc : C13.ValidCounter Gen.counterLimit c)
    (hj : isJsonPath target = false) (hx : isXmlPath target = false) (hr : resolveSpelled target = target) :
    ∃ t c₁ sd c₂ D, runWrites ev .native target true none c ws = .ok (some t, c₁) ∧
      readFile ev [(target, .native t)] {} c₁ target = .ok (.ok sd c₂) ∧
      specFold none ws = some D ∧ C01.dropPhEntries sd.data = orderD D ∧
      C15.SortedV (.dict (orderD D)) ∧ C15.SameAssoc (.dict D) (.dict (orderD D)) ∧
      (∀ k, lookup k (orderD D) = (lookup k D).map orderV) ∧ (keys (orderD D)).Perm (keys D) := by
  have P : PathOK target := ⟨hj, hx, hr⟩
  cases ws with
  | nil => exact absurd rfl hne
  | cons w ws =>
    obtain ⟨m, d⟩ := w
    have hs0 : specStates none ((m, d) :: ws) = normEs d :: specStates (some (normEs d)) ws := rfl
    rw [hs0] at hs
    have h0 : Good (normEs d) := good_of _ (hs _ List.mem_cons_self) (C01.normEs_idem d)
    obtain ⟨t', c', D, hv, hrun, hspec, hD, hfD⟩ := run_ord ev P ws (normEs d) (fmtPlain .native (orderD (normEs d))) c h0
      (Or.inl rfl) hc (fun s hs' => hs s (List.mem_cons_of_mem _ hs')) (fun w hw' => hw w (List.mem_cons_of_mem _ hw'))
    have hDo := good_order hD
    obtain ⟨sd, c₂, _, hread, hsd⟩ := read_any ev P hDo hfD hv
    refine ⟨t', c', sd, c₂, D, ?_, hread, hspec, dropPh_any hDo.noPh hsd, ?_, ?_, C15.order_lookup D hD.nodup.1,
      C15.order_keys_perm D⟩
    · simp only [runWrites, C16_new_file]
      exact hrun
    · exact C15.order_sorted (.dict D)
    · exact C15.order_sameAssoc (.dict D) hD.nodup


/-! ## the states of a Foam file -/

/-- a dict a Foam file may hold: in the Foam value domain, normalised, without private keys and without a
    `FoamFile` key -/
structure GoodF (e : Entries) : Prop where
  dom : DomC01 .foam e = true
  norm : normEs e = e
  nou : C10.NoUnderscoreEs e
  noff : ffKey ∉ keys e
  cnt : C02.countQuotedEs (srcOfEs .foam e) ≤ Gen.counterLimit + 1

theorem GoodF.noPh {e : Entries} (h : GoodF e) : C07.NoPhEs e := by
  have := (C10.norm_invariants_foam h.dom).1; rwa [h.norm] at this

theorem GoodF.nodup {e : Entries} (h : GoodF e) : NodupKeysV (.dict e) := by
  have := (C10.norm_invariants_foam h.dom).2; rwa [h.norm] at this

theorem GoodF.doc {e : Entries} (h : GoodF e) : C01.DocKeysAbsent' e := by
  have := C10.docKeys_dropped e; rwa [C10.C10_drop_id e h.nou] at this

/-- the file holds `e`: written by the plain-dict route (no header) or by the `SDict` route (Foam header in front) -/
def FileOfF : Bool → Entries → Str → Prop
  | false, e, t => t = fmtPlain .foam e
  | true, e, t => t = foamHeader ++ fmtPlain .foam e

/-- the path hypotheses for a `.foam` target -/
theorem pathOK_foam {target : Comps} (hf : C10.isFoamPath target = true) (hr : resolveSpelled target = target) :
    PathOK target :=
  ⟨(C10.foamPath_dispatch hf).1, (C10.foamPath_dispatch hf).2, hr⟩

/-- reading the file in either state -/
theorem read_anyF {e : Entries} {t : Str} {c : Counter} {b : Bool} (ev : Str → EvalResult) {target : Comps}
    (P : PathOK target) (h : GoodF e) (hf : FileOfF b e t) (hc : C13.ValidCounter Gen.counterLimit c) :
    ∃ sd c', C13.ValidCounter Gen.counterLimit c' ∧
      readFile ev [(target, .native t)] {} c target = .ok (.ok sd c') ∧
      ((b = false ∧ sd = { data := e }) ∨ (b = true ∧ ∃ n, n ≤ 999999 ∧ sd = foamSD n e)) := by
  cases b with
  | false =>
    have ht : t = fmtPlain .foam e := hf
    subst ht
    obtain ⟨c', hv, hp⟩ := read_written_text_f (c := c) true (pathStr target.dropLast) h.dom h.nou h.doc h.cnt hc
    rw [h.norm] at hp
    exact ⟨_, c', hv, C03.readFile_of_parse ev target _ hp h.noPh h.nodup P.hj P.hx P.hr, Or.inl ⟨rfl, rfl⟩⟩
  | true =>
    have ht : t = foamHeader ++ fmtPlain .foam e := hf
    subst ht
    obtain ⟨c', hv, hp⟩ := parse_foam_hdr (c := c) (pathStr target.dropLast) h.dom h.nou h.doc h.noff h.cnt hc
    rw [h.norm] at hp
    exact ⟨_, c', hv, readFile_of_parse_foam ev target _ hp (next_le hc) h.noPh h.nodup h.noff P.hj P.hx P.hr,
      Or.inr ⟨rfl, _, next_le hc, rfl⟩⟩

theorem ffKey_noPh : C07.isPhKey ffKey = false := by decide +kernel

theorem dropPh_foamSD {n : Nat} (hn : n ≤ 999999) {D : Entries} (hp : C07.NoPhEs D) :
    C01.dropPhEntries (foamSD n D).data = ffEntry :: D := by
  have hk := C12.noPh_keys hp
  show List.filter _ (C12.hdrEntry :: ffEntry :: lcEntry n :: D) = _
  have h1 : (!C07.isPhKey C12.hdrEntry.1) = false := by
    show (!C07.isPhKey (.str C12.hdrPh)) = false
    rw [C12.hdrPh_isPh]; rfl
  have h2 : (!C07.isPhKey ffEntry.1) = true := by
    show (!C07.isPhKey ffKey) = true
    rw [ffKey_noPh]; rfl
  have h3 : (!C07.isPhKey (lcEntry n).1) = false := by
    show (!C07.isPhKey (.str (linePh n))) = false
    rw [lcKey_isPh hn]; rfl
  rw [List.filter_cons, h1, List.filter_cons, h2, List.filter_cons, h3]
  simp only [Bool.false_eq_true, if_false, if_true]
  congr 1
  exact List.filter_eq_self.mpr fun e he => by rw [hk e.1 (List.mem_map_of_mem he)]; rfl

/-! ## one append, Foam flavour -/

theorem ffKey_merge {e N : Entries} (top : Bool) (hN : (keys N).Nodup) (he : ffKey ∉ keys e) (hNff : ffKey ∉ keys N) :
    ffKey ∉ keys (mergeD top [] e N) := by
  rw [C07.merge_keys top [] N e hN]
  intro hm
  rcases List.mem_append.mp hm with h | h
  · exact he h
  · exact hNff (List.mem_filter.mp h).1

/-- the append-merge on the SDict read from a Foam file with header: the three header entries and the tables stay,
    the data is merged -/
theorem merge_foamSD {n : Nat} (hn : n ≤ 999999) {e N : Entries} (he : GoodF e) (hNp : C07.NoPhEs N)
    (hNn : NodupKeysV (.dict N)) (hNff : ffKey ∉ keys N) :
    (foamSD n e).merge (.plain N) = foamSD n (mergeD true [] e N) := by
  have hkN := C12.noPh_keys hNp
  have hl : (lcEntry n).1 ∉ keys N := fun hm => by
    have := hkN _ hm
    rw [show (lcEntry n).1 = Key.str (linePh n) from rfl, lcKey_isPh hn] at this; cases this
  have hd : mergeD true [] (C12.hdrEntry :: ffEntry :: lcEntry n :: e) N =
      C12.hdrEntry :: ffEntry :: lcEntry n :: mergeD true [] e N := by
    rw [mergeD_cons_front true [] C12.hdrEntry N _ (C12.hdr_not_mem hNp), mergeD_cons_front true [] ffEntry N _ hNff,
      mergeD_cons_front true [] (lcEntry n) N _ hl]
  show (({ foamSD n e with data := mergeD true [] (C12.hdrEntry :: ffEntry :: lcEntry n :: e) N } : SD).postMerge
    (.plain N)).clean = _
  rw [hd]
  exact clean_foam _ n hn (mergeD true [] e N) bannerC lcText rfl rfl rfl
    (C07.noPhEs_mergeD [] true e N he.noPh hNp) (C07.nodupV_mergeD [] true e N he.nodup hNn.2)
    (ffKey_merge true hNn.1 he.noff hNff)

/-- what the written dict must satisfy beyond the domain condition on its public part: no `FoamFile` key on the top
    level, no comment/include placeholder word as a key and unique keys at every level — private parts included -/
structure DictOKF (d : Entries) : Prop where
  dom : DomC01 .foam (normEs (dropUnderscoreEs .foam d)) = true
  noff : ffKey ∉ keys d
  noPh : C07.NoPhEs (normEs d)
  nodup : NodupKeysV (.dict (normEs d))

/-- a Bool-checkable sufficient condition: the whole dict (private parts included) and its public part lie in the
    Foam value domain, and there is no top-level `FoamFile` key -/
theorem dictOKF_of_dom {d : Entries} (h : DomC01 .foam (normEs d) = true)
    (hp : DomC01 .foam (normEs (dropUnderscoreEs .foam d)) = true) (hff : ffKey ∉ keys d) : DictOKF d := by
  have hinv := C10.norm_invariants_foam h
  rw [C01.normEs_idem] at hinv
  exact ⟨hp, hff, hinv.1, hinv.2⟩

/-- the public part of the merge is the merge with the public part -/
theorem drop_merge_state {e d : Entries} (he : GoodF e) (hd : DictOKF d) :
    dropUnderscoreEs .foam (mergeD true [] e (normEs d)) =
      mergeD false [] e (normEs (dropUnderscoreEs .foam d)) := by
  rw [mergeD_top_eq' [] (normEs d) e hd.nodup.1 (fun k _ => noSelf_dom_f he.dom k), drop_mergeD,
    C10.C10_drop_id e he.nou, C10.normEs_drop]

/-- **append onto a Foam file that holds `e`** (in either state): the file then holds the merge with the public part
    of the new dict, written by the `SDict` route, i.e. with the Foam header (kept if it was there, put in front if
    not) -/
theorem append_anyF {e d : Entries} {t : Str} {c : Counter} {b : Bool} (ev : Str → EvalResult) {target : Comps}
    (P : PathOK target) (he : GoodF e) (hf : FileOfF b e t) (hc : C13.ValidCounter Gen.counterLimit c)
    (hd : DictOKF d)
    (hM : DomC01 .foam (mergeD false [] e (normEs (dropUnderscoreEs .foam d))) = true) :
    ∃ c', C13.ValidCounter Gen.counterLimit c' ∧
      writeStep ev .foam target (some t) ['a'] false d c =
        .ok (foamHeader ++ fmtPlain .foam (mergeD false [] e (normEs (dropUnderscoreEs .foam d))), c') := by
  obtain ⟨sd, c', hv, hr, hsd⟩ := read_anyF ev P he hf hc
  refine ⟨c', hv, ?_⟩
  have hNff : ffKey ∉ keys (normEs d) := by rw [C01.keys_normEs]; exact hd.noff
  have hdrop := drop_merge_state he hd
  have htext : fmtPlain .foam (mergeD true [] e (normEs d)) =
      fmtPlain .foam (mergeD false [] e (normEs (dropUnderscoreEs .foam d))) := by
    rw [← C10.C10_fmtPlain_drop, hdrop]
  rw [C16_append_data ev .foam target t false d c c' sd hr]
  simp only [Bool.false_eq_true, if_false]
  rcases hsd with ⟨_, rfl⟩ | ⟨_, n, hn, rfl⟩
  · rw [C07.merge_tables_plain { data := e } (normEs d) (C07.nodupV_mergeD [] true e (normEs d) he.nodup hd.nodup.2)
      (C07.noPhEs_mergeD [] true e (normEs d) he.noPh hd.noPh), fmtSD_foam_plain, htext]
  · rw [merge_foamSD hn he hd.noPh hd.nodup hNff, fmtSD_foam hn (by rw [hdrop]; exact hM), htext]

/-! ## sequences of writes, Foam flavour -/

/-- the sequence the specification folds: every written dict without its private keys -/
def dropWs (ws : List (Str × Entries)) : List (Str × Entries) := ws.map fun w => (w.1, dropUnderscoreEs .foam w.2)

/-- does the file carry the Foam header after the writes (`b`: does it before)?  Exactly when the last write was an
    append onto the existing file -/
def hdrAfter : Bool → List (Str × Entries) → Bool
  | b, [] => b
  | _, (m, _) :: ws => hdrAfter (m == ['a']) ws

def StateOKF (e : Entries) : Prop :=
  DomC01 .foam e = true ∧ C02.countQuotedEs (srcOfEs .foam e) ≤ Gen.counterLimit + 1

theorem keys_drop_sub {k : Key} : ∀ {es : Entries}, k ∈ keys (dropUnderscoreEs .foam es) → k ∈ keys es
  | [], h => by simp [dropUnderscoreEs] at h
  | (k', v') :: es, h => by
    cases hp : isPriv k' with
    | true => rw [drop_cons_priv hp] at h; exact List.mem_cons_of_mem _ (keys_drop_sub h)
    | false =>
      rw [drop_cons_pub hp] at h
      rcases List.mem_cons.mp h with rfl | h
      · exact List.mem_cons_self
      · exact List.mem_cons_of_mem _ (keys_drop_sub h)

theorem DictOKF.noff' {d : Entries} (h : DictOKF d) : ffKey ∉ keys (normEs (dropUnderscoreEs .foam d)) := by
  rw [C01.keys_normEs]; exact fun hm => h.noff (keys_drop_sub hm)

theorem DictOKF.keysNodup {d : Entries} (h : DictOKF d) : (keys (normEs (dropUnderscoreEs .foam d))).Nodup := by
  have := h.dom
  simp only [DomC01, Bool.and_eq_true, decide_eq_true_eq] at this
  exact this.2

/-- the first state, and the state after an overwrite -/
theorem goodF_first {d : Entries} (hd : DictOKF d) (hs : StateOKF (normEs (dropUnderscoreEs .foam d))) :
    GoodF (normEs (dropUnderscoreEs .foam d)) :=
  ⟨hs.1, C01.normEs_idem _, by rw [C10.normEs_drop]; exact C10.C10_underscore _, hd.noff', hs.2⟩

/-- the state after one more write -/
theorem goodF_next {e d : Entries} (he : GoodF e) (hd : DictOKF d) (m : Str)
    (hs : StateOKF (nextState e m (dropUnderscoreEs .foam d))) : GoodF (nextState e m (dropUnderscoreEs .foam d)) := by
  refine ⟨hs.1, nextState_norm he.norm m _, ?_, ?_, hs.2⟩
  · unfold nextState
    split
    · rw [← drop_merge_state he hd]; exact C10.C10_underscore _
    · rw [C10.normEs_drop]; exact C10.C10_underscore _
  · unfold nextState
    split
    · exact ffKey_merge false hd.keysNodup he.noff hd.noff'
    · exact hd.noff'

theorem fmtPlain_norm_drop (d : Entries) :
    fmtPlain .foam (normEs d) = fmtPlain .foam (normEs (dropUnderscoreEs .foam d)) := by
  rw [C10.normEs_drop, C10.C10_fmtPlain_drop]

/-- one write onto an existing Foam file that holds `e` -/
theorem write_anyF {e d : Entries} {t : Str} {c : Counter} {b : Bool} (ev : Str → EvalResult) {target : Comps}
    (P : PathOK target) (m : Str) (he : GoodF e) (hf : FileOfF b e t) (hc : C13.ValidCounter Gen.counterLimit c)
    (hd : DictOKF d) (hM : DomC01 .foam (nextState e m (dropUnderscoreEs .foam d)) = true) :
    ∃ t' c', C13.ValidCounter Gen.counterLimit c' ∧
      writeStep ev .foam target (some t) m false d c = .ok (t', c') ∧
      FileOfF (m == ['a']) (nextState e m (dropUnderscoreEs .foam d)) t' := by
  by_cases hm : m = ['a']
  · subst hm
    have hM' : DomC01 .foam (mergeD false [] e (normEs (dropUnderscoreEs .foam d))) = true := by
      simpa [nextState] using hM
    obtain ⟨c', hv, hw⟩ := append_anyF ev P he hf hc hd hM'
    refine ⟨_, c', hv, hw, ?_⟩
    show FileOfF true _ _
    simp [nextState, FileOfF]
  · have hm' : (m == ['a']) = false := by simpa using hm
    refine ⟨_, c, hc, C16_overwrite ev .foam target t m false d c hm, ?_⟩
    rw [hm']
    show fmtPlain .foam (normEs d) = fmtPlain .foam (nextState e m (dropUnderscoreEs .foam d))
    simp only [nextState, hm', Bool.false_eq_true, if_false]
    exact fmtPlain_norm_drop d

theorem dropWs_cons (m : Str) (d : Entries) (ws : List (Str × Entries)) :
    dropWs ((m, d) :: ws) = (m, dropUnderscoreEs .foam d) :: dropWs ws := rfl

/-- a sequence of writes onto an existing Foam file that holds `e` -/
theorem run_anyF (ev : Str → EvalResult) {target : Comps} (P : PathOK target) :
    ∀ (ws : List (Str × Entries)) (e : Entries) (t : Str) (c : Counter) (b : Bool), GoodF e → FileOfF b e t →
      C13.ValidCounter Gen.counterLimit c → (∀ s ∈ specStates (some e) (dropWs ws), StateOKF s) →
      (∀ w ∈ ws, DictOKF w.2) →
      ∃ t' c' D, C13.ValidCounter Gen.counterLimit c' ∧
        runWrites ev .foam target false (some t) c ws = .ok (some t', c') ∧
        specFold (some e) (dropWs ws) = some D ∧ GoodF D ∧ FileOfF (hdrAfter b ws) D t'
  | [], e, t, c, b, he, hf, hc, _, _ => ⟨t, c, e, hc, rfl, rfl, he, hf⟩
  | (m, d) :: ws, e, t, c, b, he, hf, hc, hs, hw => by
    rw [dropWs_cons, specStates_cons] at hs
    have hd := hw (m, d) List.mem_cons_self
    have hnext : GoodF (nextState e m (dropUnderscoreEs .foam d)) := goodF_next he hd m (hs _ List.mem_cons_self)
    obtain ⟨t1, c1, hv1, hw1, hf1⟩ := write_anyF ev P m he hf hc hd hnext.dom
    obtain ⟨t', c', D, hv, hrun, hspec, hD, hfD⟩ := run_anyF ev P ws _ t1 c1 _ hnext hf1 hv1
      (fun s hs' => hs s (List.mem_cons_of_mem _ hs')) (fun w hw' => hw w (List.mem_cons_of_mem _ hw'))
    refine ⟨t', c', D, hv, ?_, ?_, hD, hfD⟩
    · simp only [runWrites, hw1]; exact hrun
    · rw [dropWs_cons, specFold_cons]; exact hspec

/-- **C16, sequences of writes, OpenFOAM flavour.**  `ws` is any non-empty sequence of writes `(mode, dict)` with
    arbitrary modes to a fresh `.foam` target.  The specification is the fold `specFold` of `C16_fold_statement` over
    the written dicts *without their private keys* (`dropWs`: keys written with a leading `_` are removed at every
    level, also inside lists).  If every state of that fold lies in the Foam value domain and every written dict
    satisfies `DictOKF`, the sequence succeeds and reading the file back (default options) returns — apart from the
    comment placeholder entries — the fold `D`, preceded by the `FoamFile` entry of the Foam header exactly when the
    last write was an append onto the existing file (`hdrAfter`); no key with a leading `_` is left at any level. -/
theorem C16_fold_foam (ev : Str → EvalResult) (target : Comps) (ws : List (Str × Entries)) (c : Counter)
    (hne : ws ≠ [])
    (hs : ∀ e ∈ specStates none (dropWs ws), DomC01 .foam e = true ∧
      C02.countQuotedEs (srcOfEs .foam e) ≤ Gen.counterLimit + 1)
    (hw : ∀ w ∈ ws, DictOKF w.2)
    (hc : C13.ValidCounter Gen.counterLimit c)
    (hf : C10.isFoamPath target = true) (hr : resolveSpelled target = target) :
    ∃ t c₁ sd c₂ D, runWrites ev .foam target false none c ws = .ok (some t, c₁) ∧
      readFile ev [(target, .native t)] {} c₁ target = .ok (.ok sd c₂) ∧
      specFold none (dropWs ws) = some D ∧
      C01.dropPhEntries sd.data = (if hdrAfter false ws.tail then [ffEntry] else []) ++ D ∧
      C10.NoUnderscoreEs D := by
  have P : PathOK target := pathOK_foam hf hr
  cases ws with
  | nil => exact absurd rfl hne
  | cons w ws =>
    obtain ⟨m, d⟩ := w
    have hs0 : specStates none (dropWs ((m, d) :: ws)) =
        normEs (dropUnderscoreEs .foam d) :: specStates (some (normEs (dropUnderscoreEs .foam d))) (dropWs ws) := rfl
    rw [hs0] at hs
    have hd := hw (m, d) List.mem_cons_self
    have h0 : GoodF (normEs (dropUnderscoreEs .foam d)) := goodF_first hd (hs _ List.mem_cons_self)
    obtain ⟨t', c', D, hv, hrun, hspec, hD, hfD⟩ := run_anyF ev P ws _ (fmtPlain .foam (normEs d)) c false h0
      (fmtPlain_norm_drop d) hc (fun s hs' => hs s (List.mem_cons_of_mem _ hs'))
      (fun w hw' => hw w (List.mem_cons_of_mem _ hw'))
    obtain ⟨sd, c₂, _, hread, hsd⟩ := read_anyF ev P hD hfD hv
    refine ⟨t', c', sd, c₂, D, ?_, hread, hspec, ?_, hD.nou⟩
    · simp only [runWrites, C16_new_file]
      exact hrun
    · show _ = (if hdrAfter false ws then [ffEntry] else []) ++ D
      rcases hsd with ⟨hb, rfl⟩ | ⟨hb, n, hn, rfl⟩
      · rw [hb]; exact dropPh_plain hD.noPh
      · rw [hb]; exact dropPh_foamSD hn hD.noPh


/-! # non-vacuity -/

/-! ## (2): write `{b: 1, 3: {z: 1, y: 2}}`, append `{a: "2", b: 9, 3: {x: 5, z: 7}}`, append `{A: {x: 1}, 1: 0}`,
    all with `order=True` (int keys sort in front of the header placeholder `BLOCKCOMMENT000000`, `A` too) -/

def exWsO : List (Str × Entries) :=
  [ (['w'], [(.str ['b'], .leaf (.int 1)), (.int 3, .dict [(.str ['z'], .leaf (.int 1)), (.str ['y'], .leaf (.int 2))])]),
    (['a'], [(.str ['a'], .leaf (.str ['2'])), (.str ['b'], .leaf (.int 9)),
             (.int 3, .dict [(.str ['x'], .leaf (.int 5)), (.str ['z'], .leaf (.int 7))])]),
    (['a'], [(.str ['A'], .dict [(.str ['x'], .leaf (.int 1))]), (.int 1, .leaf (.int 0))]) ]

/-- the unordered fold: `{b: 1, 3: {z: 1, y: 2, x: 5}, a: 2, A: {x: 1}, 1: 0}` -/
def exFoldU : Entries :=
  [(.str ['b'], .leaf (.int 1)),
   (.int 3, .dict [(.str ['z'], .leaf (.int 1)), (.str ['y'], .leaf (.int 2)), (.str ['x'], .leaf (.int 5))]),
   (.str ['a'], .leaf (.int 2)), (.str ['A'], .dict [(.str ['x'], .leaf (.int 1))]), (.int 1, .leaf (.int 0))]

/-- … ordered: `{1: 0, 3: {x: 5, y: 2, z: 1}, A: {x: 1}, a: 2, b: 1}` -/
def exFoldO : Entries :=
  [(.int 1, .leaf (.int 0)),
   (.int 3, .dict [(.str ['x'], .leaf (.int 5)), (.str ['y'], .leaf (.int 2)), (.str ['z'], .leaf (.int 1))]),
   (.str ['A'], .dict [(.str ['x'], .leaf (.int 1))]), (.str ['a'], .leaf (.int 2)), (.str ['b'], .leaf (.int 1))]

theorem exWsO_spec : specFold none exWsO = some exFoldU := by decide +kernel
theorem exFoldO_eq : orderD exFoldU = exFoldO := by decide +kernel

/-- the header placeholder entry is sorted in between the int keys and `A` when the file is re-read with `order=True` -/
example : orderD (C12.hdrEntry :: exFoldO) =
    [(.int 1, .leaf (.int 0)),
     (.int 3, .dict [(.str ['x'], .leaf (.int 5)), (.str ['y'], .leaf (.int 2)), (.str ['z'], .leaf (.int 1))]),
     (.str ['A'], .dict [(.str ['x'], .leaf (.int 1))]), C12.hdrEntry,
     (.str ['a'], .leaf (.int 2)), (.str ['b'], .leaf (.int 1))] := by decide +kernel

theorem ex_fold_ordered (ev : Str → EvalResult) :
    ∃ t c₁ sd c₂, runWrites ev .native ["f".toList] true none none exWsO = .ok (some t, c₁) ∧
      readFile ev [(["f".toList], .native t)] {} c₁ ["f".toList] = .ok (.ok sd c₂) ∧
      C01.dropPhEntries sd.data = exFoldO := by
  obtain ⟨t, c₁, sd, c₂, D, h1, h2, h3, h4, _⟩ := C16_fold_ordered ev ["f".toList] exWsO none (by decide)
    (by decide +kernel) (by decide +kernel) (Or.inl rfl) (by decide) (by decide) (by decide)
  rw [exWsO_spec] at h3
  cases h3
  rw [exFoldO_eq] at h4
  exact ⟨t, c₁, sd, c₂, h1, h2, h4⟩


/-! ## non-vacuity (1): write `{b: 1, _p: 1, 3: {z: 1, _y: 2}}`, append `{a: "2", b: 9, _p: 7, 3: {_y: 5, x: 7}}`,
    append `{A: {x: 1, _q: 1}, 1: 0}` to `/w/dict.foam` -/

def exWsF : List (Str × Entries) :=
  [ (['w'], [(.str ['b'], .leaf (.int 1)), (.str "_p".toList, .leaf (.int 1)),
             (.int 3, .dict [(.str ['z'], .leaf (.int 1)), (.str "_y".toList, .leaf (.int 2))])]),
    (['a'], [(.str ['a'], .leaf (.str ['2'])), (.str ['b'], .leaf (.int 9)), (.str "_p".toList, .leaf (.int 7)),
             (.int 3, .dict [(.str "_y".toList, .leaf (.int 5)), (.str ['x'], .leaf (.int 7))])]),
    (['a'], [(.str ['A'], .dict [(.str ['x'], .leaf (.int 1)), (.str "_q".toList, .leaf (.int 1))]),
             (.int 1, .leaf (.int 0))]) ]

/-- the fold over the public parts: `{b: 1, 3: {z: 1, x: 7}, a: 2, A: {x: 1}, 1: 0}` -/
def exFoldF : Entries :=
  [(.str ['b'], .leaf (.int 1)), (.int 3, .dict [(.str ['z'], .leaf (.int 1)), (.str ['x'], .leaf (.int 7))]),
   (.str ['a'], .leaf (.int 2)), (.str ['A'], .dict [(.str ['x'], .leaf (.int 1))]), (.int 1, .leaf (.int 0))]

theorem exWsF_spec : specFold none (dropWs exWsF) = some exFoldF := by decide +kernel

theorem exWsF_ok : ∀ w ∈ exWsF, DictOKF w.2 := by
  intro w hw
  simp only [exWsF, List.mem_cons, List.not_mem_nil, or_false] at hw
  rcases hw with rfl | rfl | rfl
  all_goals
    refine ⟨by decide +kernel, by decide +kernel, ?_, ?_⟩
    · simp only [normEs, normV, C07.NoPhEs, C07.NoPhV, and_true]
      decide +kernel
    · simp only [normEs, normV, NodupKeysV, NodupKeysEs, and_true, keys, List.map_cons, List.map_nil]
      decide +kernel

theorem ex_fold_foam (ev : Str → EvalResult) :
    ∃ t c₁ sd c₂, runWrites ev .foam C10.exTarget false none none exWsF = .ok (some t, c₁) ∧
      readFile ev [(C10.exTarget, .native t)] {} c₁ C10.exTarget = .ok (.ok sd c₂) ∧
      C01.dropPhEntries sd.data = ffEntry :: exFoldF := by
  obtain ⟨t, c₁, sd, c₂, D, h1, h2, h3, h4, _⟩ := C16_fold_foam ev C10.exTarget exWsF none (by decide)
    (by decide +kernel) exWsF_ok (Or.inl rfl) C10.exTarget_foam.1 C10.exTarget_foam.2
  rw [exWsF_spec] at h3
  cases h3
  exact ⟨t, c₁, sd, c₂, h1, h2, h4⟩

/-- **the unadjusted statement is false for the Foam flavour**: with the fold over the dicts as written
    (`specFold none exWsF`, private keys kept, nothing added) the conclusion of `C16_fold_statement` fails on the
    example — the file read back has lost `_p`, `_y`, `_q` and gained the `FoamFile` entry.  In Python terms:
    `DictWriter.write({'b': 1, '_p': 1, 3: {'z': 1, '_y': 2}}, 'dict.foam', mode='w')`, then
    `write({'a': "2", 'b': 9, '_p': 7, 3: {'_y': 5, 'x': 7}}, 'dict.foam', mode='a')`, then
    `write({'A': {'x': 1, '_q': 1}, 1: 0}, 'dict.foam', mode='a')`; `DictReader.read('dict.foam')`. -/
theorem foam_naive_fold_false (ev : Str → EvalResult) :
    ¬ ∃ t c₁ sd c₂ D, runWrites ev .foam C10.exTarget false none none exWsF = .ok (some t, c₁) ∧
      readFile ev [(C10.exTarget, .native t)] {} c₁ C10.exTarget = .ok (.ok sd c₂) ∧
      specFold none exWsF = some D ∧ C01.dropPhEntries sd.data = D := by
  rintro ⟨t, c₁, sd, c₂, D, h1, h2, h3, h4⟩
  obtain ⟨t', c₁', sd', c₂', g1, g2, g3⟩ := ex_fold_foam ev
  rw [h1] at g1
  cases g1
  rw [h2] at g2
  cases g2
  rw [h4] at g3
  subst g3
  revert h3
  decide +kernel

/-
#print axioms C16_fold_ordered      -- [propext, Classical.choice, Quot.sound]
#print axioms C16_fold_foam         -- [propext, Classical.choice, Quot.sound]
#print axioms ex_fold_ordered       -- [propext, Classical.choice, Quot.sound]
#print axioms ex_fold_foam          -- [propext, Classical.choice, Quot.sound]
#print axioms foam_naive_fold_false -- [propext, Classical.choice, Quot.sound]
#print axioms orderD_merge_orderD   -- [propext, Classical.choice, Quot.sound]
#print axioms drop_mergeD           -- [propext, Classical.choice, Quot.sound]
-/

end DictIO.C16ext
