import DictIO.Props.C16fold
import DictIO.Props.C15file
import DictIO.Props.C10file

namespace DictIO.C16ext
open DictIO DictIO.C16

attribute [local irreducible] nativeHeader
set_option linter.unusedSimpArgs false
set_option linter.unusedVariables false

/-! # helper lemmas -/

/-! ## sorted association lists are determined by their lookups -/

theorem sorted_ext : ∀ (l₁ l₂ : Entries), SortedK l₁ → SortedK l₂ → (keys l₁).Nodup → (keys l₂).Nodup →
    (∀ k, lookup k l₁ = lookup k l₂) → l₁ = l₂
  | [], [], _, _, _, _, _ => rfl
  | [], (k, v) :: t, _, _, _, _, h => by have := h k; simp [lookup] at this
  | (k, v) :: t, [], _, _, _, _, h => by have := h k; simp [lookup] at this
  | (k₁, v₁) :: t₁, (k₂, v₂) :: t₂, s₁, s₂, n₁, n₂, h => by
    have s₁' := List.pairwise_cons.mp s₁
    have s₂' := List.pairwise_cons.mp s₂
    have n₁' : k₁ ∉ keys t₁ ∧ (keys t₁).Nodup := List.nodup_cons.mp n₁
    have n₂' : k₂ ∉ keys t₂ ∧ (keys t₂).Nodup := List.nodup_cons.mp n₂
    have hk : k₁ = k₂ := by
      by_cases e : k₁ = k₂
      · exact e
      · have e' : ¬ k₂ = k₁ := fun x => e x.symm
        have h1 := h k₁
        have h2 := h k₂
        simp only [lookup, if_true, e, e', if_false] at h1 h2
        have m1 : (k₁, v₁) ∈ t₂ := lookup_some_mem h1.symm
        have m2 : (k₂, v₂) ∈ t₁ := lookup_some_mem h2
        exact Key.le_antisymm (s₁'.1 _ m2) (s₂'.1 _ m1)
    subst hk
    have hv : v₁ = v₂ := by
      have h1 := h k₁
      simpa [lookup] using h1
    subst hv
    have ht : t₁ = t₂ := by
      apply sorted_ext t₁ t₂ s₁'.2 s₂'.2 n₁'.2 n₂'.2
      intro k
      by_cases e : k₁ = k
      · subst e
        rw [lookup_eq_none_iff.mpr n₁'.1, lookup_eq_none_iff.mpr n₂'.1]
      · have := h k
        simpa [lookup, e] using this
    rw [ht]

/-- two dicts with unique keys whose values agree up to ordering, key by key, have the same `order_keys` -/
theorem orderD_ext {x y : Entries} (hx : (keys x).Nodup) (hy : (keys y).Nodup)
    (h : ∀ k, (lookup k x).map orderV = (lookup k y).map orderV) : orderD x = orderD y := by
  apply sorted_ext
  · exact sortBy_sorted Key.totalLe _
  · exact sortBy_sorted Key.totalLe _
  · exact C15.nodup_order hx
  · exact C15.nodup_order hy
  · intro k
    rw [C15.order_lookup x hx k, C15.order_lookup y hy k, h k]

/-! ## key uniqueness at every level survives ordering -/

mutual
  theorem nodupV_orderV : ∀ v : Val, NodupKeysV v → NodupKeysV (orderV v)
    | .leaf _, h => h
    | .list _, h => h
    | .dict es, h => by
      simp only [orderV]
      refine ⟨?_, C07.nodupKeysEs_iff.mpr ?_⟩
      · exact (C15.keys_sortByKey_perm _).nodup_iff.mpr (by rw [C15.keys_orderEs]; exact h.1)
      · intro e he
        exact nodupEs_orderEs es h.2 e ((sortBy_perm (orderEs es)).mem_iff.mp he)
  theorem nodupEs_orderEs : ∀ es : Entries, NodupKeysEs es → ∀ e ∈ orderEs es, NodupKeysV e.2
    | [], _, e, he => by simp [orderEs] at he
    | (k, v) :: es, h, e, he => by
      simp only [orderEs] at he
      rcases List.mem_cons.mp he with rfl | hm
      · exact nodupV_orderV v h.1
      · exact nodupEs_orderEs es h.2 e hm
end

theorem nodupV_orderD {a : Entries} (h : NodupKeysV (.dict a)) : NodupKeysV (.dict (orderD a)) :=
  nodupV_orderV (.dict a) h

theorem orderD_idem {a : Entries} (h : NodupKeysV (.dict a)) : orderD (orderD a) = orderD a := by
  have := C15.order_idem (.dict a) h
  simpa [orderV, orderD] using this

/-! ## merging into the ordered dict, then ordering = merging, then ordering -/

/-- the statement for one (dict) value -/
def MergeOrd (v : Val) : Prop :=
  ∀ ad, v = .dict ad → ∀ N, NodupKeysV (.dict N) →
    orderD (mergeD false [] (orderD ad) N) = orderD (mergeD false [] ad N)

theorem mergeOrd_core (a N : Entries) (ha : NodupKeysV (.dict a)) (hN : NodupKeysV (.dict N))
    (IH : ∀ e ∈ a, MergeOrd e.2) :
    orderD (mergeD false [] (orderD a) N) = orderD (mergeD false [] a N) := by
  apply orderD_ext
  · exact (C07.nodupV_mergeD [] false (orderD a) N (nodupV_orderD ha) hN.2).1
  · exact (C07.nodupV_mergeD [] false a N ha hN.2).1
  · intro k
    rw [C07.merge_lookup false [] _ N hN.1 k, C07.merge_lookup false [] a N hN.1 k, C15.order_lookup a ha.1 k]
    cases hka : lookup k a with
    | none => rfl
    | some av =>
      have hmem : (k, av) ∈ a := lookup_some_mem hka
      have hav : NodupKeysV av := C07.nodupKeysEs_iff.mp ha.2 _ hmem
      have hid : orderV (orderV av) = orderV av := C15.order_idem av hav
      cases hkb : lookup k N with
      | none =>
        cases av with
        | leaf x => rfl
        | list xs => rfl
        | dict ad => show some (orderV (orderV (.dict ad))) = some (orderV (.dict ad)); rw [hid]
      | some bv =>
        cases av with
        | leaf x => cases bv <;> rfl
        | list xs => cases bv <;> rfl
        | dict ad =>
          cases bv with
          | leaf y => show some (orderV (orderV (.dict ad))) = some (orderV (.dict ad)); rw [hid]
          | list ys => show some (orderV (orderV (.dict ad))) = some (orderV (.dict ad)); rw [hid]
          | dict bd =>
            have hbd : NodupKeysV (.dict bd) := C07.nodupKeysEs_iff.mp hN.2 _ (lookup_some_mem hkb)
            have := IH _ hmem ad rfl bd hbd
            simp only [Option.map, orderV]
            simp only [orderD] at this
            rw [this]

mutual
  theorem mergeOrdV : ∀ v : Val, NodupKeysV v → MergeOrd v
    | .leaf _, _ => fun _ h => by cases h
    | .list _, _ => fun _ h => by cases h
    | .dict es, h => fun ad e N hN => by
      cases e
      exact mergeOrd_core es N h hN (mergeOrdEs es h.2)
  theorem mergeOrdEs : ∀ es : Entries, NodupKeysEs es → ∀ e ∈ es, MergeOrd e.2
    | [], _, e, he => by simp at he
    | (k, v) :: es, h, e, he => by
      rcases List.mem_cons.mp he with rfl | hm
      · exact mergeOrdV v h.1
      · exact mergeOrdEs es h.2 e hm
end

/-- **the merge does not see the order of the keys of the existing dict** (up to the order of the result) -/
theorem orderD_merge_orderD {a N : Entries} (ha : NodupKeysV (.dict a)) (hN : NodupKeysV (.dict N)) :
    orderD (mergeD false [] (orderD a) N) = orderD (mergeD false [] a N) :=
  mergeOrdV (.dict a) ha a rfl N hN

/-! ## filters on keys commute with the merge -/

theorem lookup_filter (q : Key → Bool) {k : Key} (hk : q k = true) : ∀ t : Entries,
    lookup k (t.filter fun e => q e.1) = lookup k t
  | [] => rfl
  | (k', v') :: t => by
    by_cases hq : q k' = true
    · simp only [List.filter_cons, hq, if_true, lookup, lookup_filter q hk t]
    · have hne : ¬ k' = k := fun e => hq (e ▸ hk)
      simp only [List.filter_cons, hq, if_false, lookup, hne, lookup_filter q hk t, Bool.false_eq_true]

theorem filter_setKey (q : Key → Bool) (k : Key) (x : Val) : ∀ t : Entries,
    (setKey k x t).filter (fun e => q e.1) =
      if q k = true then setKey k x (t.filter fun e => q e.1) else t.filter fun e => q e.1
  | [] => by
    by_cases hq : q k = true <;> simp [setKey, hq]
  | (k', v') :: t => by
    by_cases hkk : k' = k
    · subst hkk
      by_cases hq : q k' = true <;> simp [setKey, hq]
    · have ih := filter_setKey q k x t
      by_cases hq : q k = true <;> by_cases hq' : q k' = true <;> simp [setKey, hkk, hq, hq'] at ih ⊢ <;> exact ih

theorem filter_mstep (q : Key → Bool) (top : Bool) (exprs : Tbl ExprEntry) (t : Entries) (k : Key) (v : Val) :
    (C07.mstep top exprs t k v).filter (fun e => q e.1) =
      if q k = true then C07.mstep top exprs (t.filter fun e => q e.1) k v else t.filter fun e => q e.1 := by
  by_cases hq : q k = true
  · rw [if_pos hq]
    unfold C07.mstep
    rw [lookup_filter q hq t]
    split
    · rw [filter_setKey, if_pos hq]
    · split
      · rw [filter_setKey, if_pos hq]
      · rfl
    · simp [hq]
  · rw [if_neg hq]
    unfold C07.mstep
    split
    · rw [filter_setKey, if_neg hq]
    · split
      · rw [filter_setKey, if_neg hq]
      · rfl
    · simp [hq]

/-- a filter that keeps every key of the merged-in dict commutes with the merge -/
theorem filter_mergeD_keep (q : Key → Bool) (top : Bool) (exprs : Tbl ExprEntry) : ∀ (o t : Entries),
    (∀ k ∈ keys o, q k = true) →
    (mergeD top exprs t o).filter (fun e => q e.1) = mergeD top exprs (t.filter fun e => q e.1) o
  | [], t, _ => by rw [C07.mergeD_nil, C07.mergeD_nil]
  | (k, v) :: o, t, h => by
    have hk : q k = true := h k (by simp)
    rw [C07.mergeD_cons, C07.mergeD_cons, filter_mergeD_keep q top exprs o _ (fun k' hk' => h k' (by simp [hk'])),
      filter_mstep, if_pos hk]

/-- a filter that drops every key of the merged-in dict does not see the merge -/
theorem filter_mergeD_drop (q : Key → Bool) (top : Bool) (exprs : Tbl ExprEntry) : ∀ (o t : Entries),
    (∀ k ∈ keys o, q k = false) →
    (mergeD top exprs t o).filter (fun e => q e.1) = t.filter fun e => q e.1
  | [], t, _ => by rw [C07.mergeD_nil]
  | (k, v) :: o, t, h => by
    have hk : ¬ q k = true := by rw [h k (by simp)]; decide
    rw [C07.mergeD_cons, filter_mergeD_drop q top exprs o _ (fun k' hk' => h k' (by simp [hk'])),
      filter_mstep, if_neg hk]

theorem filter_orderD (q : Key → Bool) (es : Entries) :
    (orderD es).filter (fun e => q e.1) = orderD (es.filter fun e => q e.1) := by
  unfold orderD
  rw [C15.filter_sortBy, C15.filter_orderEs]

/-! ## the header placeholder entry anywhere in the top level -/

def isHdr (k : Key) : Bool := k == .str C12.hdrPh
def notHdr (k : Key) : Bool := !isHdr k

/-- `L` is `D` with the header placeholder entry put in at some place -/
structure HdrIn (L D : Entries) : Prop where
  hd : L.filter (fun e => isHdr e.1) = [C12.hdrEntry]
  rest : L.filter (fun e => notHdr e.1) = D

theorem isHdr_false_of_ne {k : Key} (h : k ≠ .str C12.hdrPh) : isHdr k = false := by simpa [isHdr] using h

theorem isHdr_keys {D : Entries} (h : Key.str C12.hdrPh ∉ keys D) : ∀ k ∈ keys D, isHdr k = false :=
  fun k hk => isHdr_false_of_ne fun e => h (e ▸ hk)

theorem hdrIn_cons {D : Entries} (h : Key.str C12.hdrPh ∉ keys D) : HdrIn (C12.hdrEntry :: D) D := by
  have h1 : D.filter (fun e => isHdr e.1) = [] :=
    List.filter_eq_nil_iff.mpr fun e he => by rw [isHdr_keys h e.1 (List.mem_map_of_mem he)]; decide
  have h2 : D.filter (fun e => notHdr e.1) = D :=
    List.filter_eq_self.mpr fun e he => by simp [notHdr, isHdr_keys h e.1 (List.mem_map_of_mem he)]
  have e1 : isHdr C12.hdrEntry.1 = true := by simp [isHdr, C12.hdrEntry]
  constructor
  · rw [List.filter_cons, if_pos e1, h1]
  · rw [List.filter_cons, if_neg (by simp [notHdr, e1]), h2]

theorem HdrIn.perm {L D : Entries} (h : HdrIn L D) : L.Perm (C12.hdrEntry :: D) := by
  have := List.filter_append_perm (fun e : Key × Val => isHdr e.1) L
  rw [h.hd] at this
  have e : L.filter (fun e => !isHdr e.1) = D := h.rest
  rw [e] at this
  exact this.symm

theorem HdrIn.order {L D : Entries} (h : HdrIn L D) : HdrIn (orderD L) (orderD D) := by
  constructor
  · rw [filter_orderD, h.hd]; rfl
  · rw [filter_orderD, h.rest]

theorem HdrIn.merge {L D : Entries} (h : HdrIn L D) (top : Bool) (exprs : Tbl ExprEntry) {N : Entries}
    (hN : Key.str C12.hdrPh ∉ keys N) : HdrIn (mergeD top exprs L N) (mergeD top exprs D N) := by
  constructor
  · rw [filter_mergeD_drop isHdr top exprs N L (isHdr_keys hN), h.hd]
  · rw [filter_mergeD_keep notHdr top exprs N L (fun k hk => by simp [notHdr, isHdr_keys hN k hk]), h.rest]

/-! ## `_clean` keeps the single header entry wherever it stands -/

theorem filter_keys_hdr {L D : Entries} (hL : L.Perm (C12.hdrEntry :: D)) (hD : ∀ k ∈ keys D, C07.isPhKey k = false)
    (sel : Key → Bool) (hsel : ∀ k, sel k = true → C07.isPhKey k = true) :
    (keys L).filter sel = if sel (.str C12.hdrPh) = true then [.str C12.hdrPh] else [] := by
  have hp : (keys L).Perm (Key.str C12.hdrPh :: keys D) := hL.map (·.1)
  have hf := hp.filter sel
  have hnil : (keys D).filter sel = [] := by
    apply List.filter_eq_nil_iff.mpr
    intro k hk hs
    have := hD k hk
    rw [hsel k hs] at this
    exact absurd this (by decide)
  rw [List.filter_cons, hnil] at hf
  split
  · next h => rw [if_pos h] at hf; exact List.perm_singleton.mp hf
  · next h => rw [if_neg h] at hf; exact List.perm_nil.mp hf

theorem cleanLevel_hdrP (s : SD) (txt : Str) (L D : Entries) (hL : L.Perm (C12.hdrEntry :: D))
    (hb : s.blockC = [(0, txt)]) (hD : ∀ k ∈ keys D, C07.isPhKey k = false) :
    cleanLevel s L = (s, L) := by
  have key := filter_keys_hdr hL hD
  cases s with
  | mk data exprs lineC blockC incl =>
  simp only at hb
  subst hb
  simp only [cleanLevel]
  rw [key]
  · simp only [C12.hdrPh_block, if_true, List.foldl_cons, List.foldl_nil, C12.hdrPh_digits, Tbl.get?, List.contains_nil,
      Bool.false_eq_true, if_false]
    rw [key]
    · simp only [C12.hdrPh_block, Bool.not_true, Bool.false_and, Bool.false_eq_true, if_false, List.foldl_nil]
      rw [key]
      · simp only [C12.hdrPh_block, Bool.not_true, Bool.false_and, Bool.false_eq_true, if_false, List.foldl_nil,
          List.nil_append]
      · intro k hk; cases k <;> simp_all [C07.isPhKey]
    · intro k hk; cases k <;> simp_all [C07.isPhKey]
  · intro k hk; cases k <;> simp_all [C07.isPhKey]

theorem cleanRec_hdrP (fuel : Nat) (s : SD) (txt : Str) (L D : Entries) (hL : L.Perm (C12.hdrEntry :: D))
    (hb : s.blockC = [(0, txt)]) (hp : C07.NoPhEs D) (hn : NodupKeysV (.dict D)) :
    cleanRec fuel s L = (s, L) := by
  cases fuel with
  | zero => rfl
  | succ fuel =>
    have hnn := C12.hdr_nodup hp hn
    have hLn : (keys L).Nodup := (hL.map (·.1)).nodup_iff.mpr hnn.1
    simp only [cleanRec, cleanLevel_hdrP s txt L D hL hb (C12.noPh_keys hp)]
    suffices H : ∀ l : Entries, (∀ e ∈ l, e ∈ L) →
        l.foldl (fun (acc : SD × Entries) e =>
          match e.2 with
          | .dict sub => ((cleanRec fuel acc.1 sub).1, setKey e.1 (.dict (cleanRec fuel acc.1 sub).2) acc.2)
          | _ => acc) (s, L) = (s, L) from H _ (fun _ h => h)
    intro l
    induction l with
    | nil => intro _; rfl
    | cons e l ih =>
      intro hsub
      obtain ⟨k, v⟩ := e
      have hmemL : (k, v) ∈ L := hsub _ List.mem_cons_self
      have hmem : (k, v) ∈ C12.hdrEntry :: D := hL.mem_iff.mp hmemL
      have hrest := ih fun e he => hsub e (List.mem_cons_of_mem _ he)
      cases v with
      | leaf x => simpa only [List.foldl_cons] using hrest
      | list xs => simpa only [List.foldl_cons] using hrest
      | dict sub =>
        have hmemD : (k, Val.dict sub) ∈ D := by
          rcases List.mem_cons.mp hmem with h | h
          · cases h
          · exact h
        have hsubn : NodupKeysV (.dict sub) := C07.nodupKeysEs_iff.mp hn.2 _ hmemD
        have hsubp : C07.NoPhEs sub := (C07.noPhEs_iff.mp hp _ hmemD).2
        simp only [List.foldl_cons, C07.cleanRec_id fuel s sub hsubn hsubp, C07.setKey_of_mem_nodup hLn hmemL]
        exact hrest

/-- `_clean` keeps the single header placeholder entry, wherever it stands in the top level -/
theorem clean_hdrP (s : SD) (txt : Str) (D : Entries) (hL : HdrIn s.data D)
    (hb : s.blockC = [(0, txt)]) (hp : C07.NoPhEs D) (hn : NodupKeysV (.dict D)) : s.clean = s := by
  cases s with
  | mk data exprs lineC blockC incl =>
  simp only at hL hb
  have h := cleanRec_hdrP (depthV (Val.dict data) + 1)
    { data := data, exprs := exprs, lineC := lineC, blockC := blockC, incl := incl } txt data D hL.perm hb hp hn
  simp only [SD.clean, h]

/-! ## the writer hoists the header entry to the front -/

theorem hoist3 {α} (isB isI isH : α → Bool) (L : List α) (h : α) (D : List α)
    (hd : L.filter isH = [h]) (rest : L.filter (fun e => !isH e) = D)
    (hB : ∀ e ∈ L, isB e = isH e) (hI : ∀ e ∈ L, isH e = false → isI e = false) :
    L.filter isB ++ L.filter (fun e => !isB e && isI e) ++ L.filter (fun e => !isB e && !isI e) = h :: D := by
  have e1 : L.filter isB = [h] := by rw [← hd]; exact List.filter_congr hB
  have e2 : L.filter (fun e => !isB e && isI e) = [] := by
    apply List.filter_eq_nil_iff.mpr
    intro e he
    rw [hB e he]
    cases hh : isH e with
    | true => simp
    | false => simp [hI e he hh]
  have e3 : L.filter (fun e => !isB e && !isI e) = D := by
    rw [← rest]
    apply List.filter_congr
    intro e he
    rw [hB e he]
    cases hh : isH e with
    | true => simp
    | false => simp [hI e he hh]
  rw [e1, e2, e3]; rfl

theorem hoist_hdrIn {L D : Entries} (h : HdrIn L D) (hD : ∀ k ∈ keys D, C07.isPhKey k = false) :
    hoistPlaceholders L = C12.hdrEntry :: D := by
  have hnm : Key.str C12.hdrPh ∉ keys D := fun hm => by
    have := hD _ hm; rw [C12.hdrPh_isPh] at this; cases this
  have hmem : ∀ e ∈ L, e = C12.hdrEntry ∨ e ∈ D := fun e he => List.mem_cons.mp (h.perm.mem_iff.mp he)
  unfold hoistPlaceholders
  refine hoist3 _ _ (fun e : Key × Val => isHdr e.1) L _ D h.hd (show L.filter (fun e => !isHdr e.1) = D from h.rest) ?_ ?_
  · intro e he
    rcases hmem e he with rfl | hd
    · simp [C12.hdrEntry, C12.hdrPh_block, isHdr]
    · have h1 := hD e.1 (List.mem_map_of_mem hd)
      simp only [isHdr_keys hnm e.1 (List.mem_map_of_mem hd)]
      split
      · next k hk => rw [hk] at h1; simp only [C07.isPhKey, Bool.or_eq_false_iff] at h1; exact h1.1.1
      · rfl
  · intro e he hne
    rcases hmem e he with rfl | hd
    · simp [C12.hdrEntry, isHdr] at hne
    · have h1 := hD e.1 (List.mem_map_of_mem hd)
      split
      · next k hk => rw [hk] at h1; simp only [C07.isPhKey, Bool.or_eq_false_iff] at h1; exact h1.1.2
      · rfl

/-- the SDict with the header entry somewhere in the top level is written as the one with the header entry in front -/
theorem fmtSD_hdrIn {L D : Entries} (h : HdrIn L D) (hD : DomC01 .native D = true) :
    fmtSD .native { data := L, blockC := [(0, C12.hdrComment)] } = some (nativeHeader ++ fmtPlain .native D) := by
  have hk := C12.dom_noPh_keys hD
  have e : fmtSD .native { data := L, blockC := [(0, C12.hdrComment)] } = fmtSD .native (C12.hdrSD D) := by
    simp only [fmtSD, C12.hdrSD, hoist_hdrIn h hk, C12.hoist_hdr hk]
  rw [e]
  exact (C12.write_header hD).trans (C12.fmtSD_text D)

/-! # property theorems -/

/-! ## (2) `order = true`, native flavour -/

/-- the ordered copy of a dict the file may hold is a dict the file may hold -/
theorem good_order {s : Entries} (h : Good s) : Good (orderD s) :=
  ⟨C15.DomC01_order h.dom, by rw [C15.normEs_orderD, h.norm], C15.docKeys_order h.doc,
    by rw [C15.countQuoted_order]; exact h.cnt⟩

/-- reading with `order=True` a file that holds the ordered dict `E`: the plain SDict, or the SDict with the header
    entry sorted in among the keys -/
theorem read_ord {s : Entries} {t : Str} {c : Counter} (ev : Str → EvalResult) {target : Comps} (P : PathOK target)
    (h : Good s) (hf : FileOf (orderD s) t) (hc : C13.ValidCounter Gen.counterLimit c) :
    ∃ sd c', C13.ValidCounter Gen.counterLimit c' ∧
      readFile ev [(target, .native t)] { order := true } c target = .ok (.ok sd c') ∧
      (sd = { data := orderD s } ∨
        ∃ L, HdrIn L (orderD s) ∧ sd = { data := L, blockC := [(0, C12.hdrComment)] }) := by
  have hE := good_order h
  obtain ⟨sd, c', hv, hr, hsd⟩ := read_any ev P hE hf hc
  have hflag := C15.readFile_order_flag ev [(target, .native t)] {} c target
  have hr' : readFile ev [(target, .native t)] { ({} : ReadOpts) with order := false } c target = .ok (.ok sd c') := hr
  rw [hr'] at hflag
  refine ⟨sd.order, c', hv, hflag, ?_⟩
  rcases hsd with rfl | rfl
  · left
    show ({ data := orderD (orderD s) } : SD) = _
    rw [orderD_idem h.nodup]
  · right
    refine ⟨orderD (C12.hdrEntry :: orderD s), ?_, rfl⟩
    have := (hdrIn_cons (C12.hdr_not_mem hE.noPh)).order
    rwa [orderD_idem h.nodup] at this

/-- **append with `order=True` onto a file that holds the ordered dict `orderD s`** (in either state): the file then
    holds the ordered merge, written by the `SDict` route (with the header) -/
theorem append_ord {s d : Entries} {t : Str} {c : Counter} (ev : Str → EvalResult) {target : Comps} (P : PathOK target)
    (hs : Good s) (hf : FileOf (orderD s) t) (hc : C13.ValidCounter Gen.counterLimit c)
    (hd : DomC01 .native (normEs d) = true)
    (hM : DomC01 .native (mergeD false [] s (normEs d)) = true) :
    ∃ c', C13.ValidCounter Gen.counterLimit c' ∧
      writeStep ev .native target (some t) ['a'] true d c =
        .ok (nativeHeader ++ fmtPlain .native (orderD (mergeD false [] s (normEs d))), c') := by
  obtain ⟨sd, c', hv, hr, hsd⟩ := read_ord ev P hs hf hc
  refine ⟨c', hv, ?_⟩
  have hE := good_order hs
  have hnN := C01.normEs_idem d
  have hiN := C01.norm_invariants hd
  rw [hnN] at hiN
  have hkey : orderD (mergeD true [] (orderD s) (normEs d)) = orderD (mergeD false [] s (normEs d)) := by
    rw [merge_top_false hE hd]
    exact orderD_merge_orderD hs.nodup hiN.2
  have hMo : DomC01 .native (orderD (mergeD false [] s (normEs d))) = true := C15.DomC01_order hM
  rw [C16_append_data ev .native target t true d c c' sd hr]
  simp only [if_true]
  rcases hsd with rfl | ⟨L, hL, rfl⟩
  · rw [merge_plain hE hd hnN]
    show (match fmtSD .native { data := orderD (mergeD true [] (orderD s) (normEs d)) } with
      | some t => Except.ok (t, c') | none => Except.error ParseErr.unsupported) = _
    rw [hkey, C12.fmtSD_text]
  · have hL1 : HdrIn (mergeD true [] L (normEs d)) (mergeD true [] (orderD s) (normEs d)) :=
      hL.merge true [] (C12.hdr_not_mem hiN.1)
    have hp := C07.noPhEs_mergeD [] true (orderD s) (normEs d) hE.noPh hiN.1
    have hn := C07.nodupV_mergeD [] true (orderD s) (normEs d) hE.nodup hiN.2.2
    have hmerge : ({ data := L, blockC := [(0, C12.hdrComment)] } : SD).merge (.plain (normEs d)) =
        { data := mergeD true [] L (normEs d), blockC := [(0, C12.hdrComment)] } :=
      clean_hdrP { data := mergeD true [] L (normEs d), blockC := [(0, C12.hdrComment)] } C12.hdrComment _ hL1 rfl hp hn
    rw [hmerge]
    have hL2 := hL1.order
    rw [hkey] at hL2
    show (match fmtSD .native { data := orderD (mergeD true [] L (normEs d)), blockC := [(0, C12.hdrComment)] } with
      | some t => Except.ok (t, c') | none => Except.error ParseErr.unsupported) = _
    rw [fmtSD_hdrIn hL2 hMo]

/-- one write with `order=True` onto an existing file that holds `orderD s` -/
theorem write_ord {s d : Entries} {t : Str} {c : Counter} (ev : Str → EvalResult) {target : Comps} (P : PathOK target)
    (m : Str) (hs : Good s) (hf : FileOf (orderD s) t) (hc : C13.ValidCounter Gen.counterLimit c)
    (hd : DomC01 .native (normEs d) = true) (hM : DomC01 .native (nextState s m d) = true) :
    ∃ t' c', C13.ValidCounter Gen.counterLimit c' ∧
      writeStep ev .native target (some t) m true d c = .ok (t', c') ∧ FileOf (orderD (nextState s m d)) t' := by
  by_cases hm : m = ['a']
  · subst hm
    have hM' : DomC01 .native (mergeD false [] s (normEs d)) = true := by simpa [nextState] using hM
    obtain ⟨c', hv, hw⟩ := append_ord ev P hs hf hc hd hM'
    exact ⟨_, c', hv, hw, Or.inr (by simp [nextState])⟩
  · have hm' : (m == ['a']) = false := by simpa using hm
    refine ⟨_, c, hc, C15.writeStep_ordered_overwrite ev .native target t m d c hm, Or.inl ?_⟩
    simp [nextState, hm']

/-- a sequence of writes with `order=True` onto an existing file that holds `orderD s` -/
theorem run_ord (ev : Str → EvalResult) {target : Comps} (P : PathOK target) :
    ∀ (ws : List (Str × Entries)) (s : Entries) (t : Str) (c : Counter), Good s → FileOf (orderD s) t →
      C13.ValidCounter Gen.counterLimit c → (∀ x ∈ specStates (some s) ws, StateOK x) →
      (∀ w ∈ ws, DomC01 .native (normEs w.2) = true) →
      ∃ t' c' D, C13.ValidCounter Gen.counterLimit c' ∧
        runWrites ev .native target true (some t) c ws = .ok (some t', c') ∧
        specFold (some s) ws = some D ∧ Good D ∧ FileOf (orderD D) t'
  | [], s, t, c, hs, hf, hc, _, _ => ⟨t, c, s, hc, rfl, rfl, hs, hf⟩
  | (m, d) :: ws, s, t, c, hs, hf, hc, hst, hw => by
    rw [specStates_cons] at hst
    have hnext : Good (nextState s m d) :=
      good_of _ (hst _ List.mem_cons_self) (nextState_norm hs.norm m d)
    obtain ⟨t1, c1, hv1, hw1, hf1⟩ := write_ord ev P m hs hf hc (hw (m, d) List.mem_cons_self) hnext.dom
    obtain ⟨t', c', D, hv, hrun, hspec, hD, hfD⟩ := run_ord ev P ws _ t1 c1 hnext hf1 hv1
      (fun x hx => hst x (List.mem_cons_of_mem _ hx)) (fun w hw' => hw w (List.mem_cons_of_mem _ hw'))
    refine ⟨t', c', D, hv, ?_, ?_, hD, hfD⟩
    · simp only [runWrites, hw1]; exact hrun
    · rw [specFold_cons]; exact hspec

/-- **C16 + C15, sequences of writes with `order=True`** (native flavour).  After any non-empty sequence of writes with
    arbitrary modes and `order=True` to a fresh target — all written dicts and all intermediate results of the
    *unordered* specification fold in the value domain, exactly the hypotheses of `C16_fold_statement` — the sequence
    succeeds, and reading the file back (default options) returns, up to the header placeholder entry of the append
    route, `order_keys` of the specification fold `D = specFold none ws`: keys ascending at every dict level
    (`SortedV`), the same key → value association at every level as the unordered fold (`SameAssoc`; key by key the
    value is the ordered copy; the key sets are permutations of each other). -/
theorem C16_fold_ordered (ev : Str → EvalResult) (target : Comps) (ws : List (Str × Entries)) (c : Counter)
    (hne : ws ≠ [])
    (hs : ∀ e ∈ specStates none ws, DomC01 .native e = true ∧ C01.DocKeysAbsent' e ∧
      C02.countQuotedEs (srcOfEs .native e) ≤ Gen.counterLimit + 1)
    (hw : ∀ w ∈ ws, DomC01 .native (normEs w.2) = true)
    (hc : C13.ValidCounter Gen.counterLimit c)
    (hj : isJsonPath target = false) (hx : isXmlPath target = false) (hr : resolveSpelled target = target) :
    ∃ t c₁ sd c₂ D, runWrites ev .native target true none c ws = .ok (some t, c₁) ∧
      readFile ev [(target, .native t)] {} c₁ target = .ok (.ok sd c₂) ∧
      specFold none ws = some D ∧ C01.dropPhEntries sd.data = orderD D ∧
      C15.SortedV (.dict (orderD D)) ∧ C15.SameAssoc (.dict D) (.dict (orderD D)) ∧
      (∀ k, lookup k (orderD D) = (lookup k D).map orderV) ∧ (keys (orderD D)).Perm (keys D) := by
  have P : PathOK target := ⟨hj, hx, hr⟩
  cases ws with
  | nil => exact absurd rfl hne
  | cons w ws =>
    obtain ⟨m, d⟩ := w
    have hs0 : specStates none ((m, d) :: ws) = normEs d :: specStates (some (normEs d)) ws := rfl
    rw [hs0] at hs
    have h0 : Good (normEs d) := good_of _ (hs _ List.mem_cons_self) (C01.normEs_idem d)
    obtain ⟨t', c', D, hv, hrun, hspec, hD, hfD⟩ := run_ord ev P ws (normEs d) (fmtPlain .native (orderD (normEs d))) c h0
      (Or.inl rfl) hc (fun s hs' => hs s (List.mem_cons_of_mem _ hs')) (fun w hw' => hw w (List.mem_cons_of_mem _ hw'))
    have hDo := good_order hD
    obtain ⟨sd, c₂, _, hread, hsd⟩ := read_any ev P hDo hfD hv
    refine ⟨t', c', sd, c₂, D, ?_, hread, hspec, dropPh_any hDo.noPh hsd, ?_, ?_, C15.order_lookup D hD.nodup.1,
      C15.order_keys_perm D⟩
    · simp only [runWrites, C16_new_file]
      exact hrun
    · exact C15.order_sorted (.dict D)
    · exact C15.order_sameAssoc (.dict D) hD.nodup

/-! # non-vacuity -/

/-! ## (2): write `{b: 1, 3: {z: 1, y: 2}}`, append `{a: "2", b: 9, 3: {x: 5, z: 7}}`, append `{A: {x: 1}, 1: 0}`,
    all with `order=True` (int keys sort in front of the header placeholder `BLOCKCOMMENT000000`, `A` too) -/

def exWsO : List (Str × Entries) :=
  [ (['w'], [(.str ['b'], .leaf (.int 1)), (.int 3, .dict [(.str ['z'], .leaf (.int 1)), (.str ['y'], .leaf (.int 2))])]),
    (['a'], [(.str ['a'], .leaf (.str ['2'])), (.str ['b'], .leaf (.int 9)),
             (.int 3, .dict [(.str ['x'], .leaf (.int 5)), (.str ['z'], .leaf (.int 7))])]),
    (['a'], [(.str ['A'], .dict [(.str ['x'], .leaf (.int 1))]), (.int 1, .leaf (.int 0))]) ]

/-- the unordered fold: `{b: 1, 3: {z: 1, y: 2, x: 5}, a: 2, A: {x: 1}, 1: 0}` -/
def exFoldU : Entries :=
  [(.str ['b'], .leaf (.int 1)),
   (.int 3, .dict [(.str ['z'], .leaf (.int 1)), (.str ['y'], .leaf (.int 2)), (.str ['x'], .leaf (.int 5))]),
   (.str ['a'], .leaf (.int 2)), (.str ['A'], .dict [(.str ['x'], .leaf (.int 1))]), (.int 1, .leaf (.int 0))]

/-- … ordered: `{1: 0, 3: {x: 5, y: 2, z: 1}, A: {x: 1}, a: 2, b: 1}` -/
def exFoldO : Entries :=
  [(.int 1, .leaf (.int 0)),
   (.int 3, .dict [(.str ['x'], .leaf (.int 5)), (.str ['y'], .leaf (.int 2)), (.str ['z'], .leaf (.int 1))]),
   (.str ['A'], .dict [(.str ['x'], .leaf (.int 1))]), (.str ['a'], .leaf (.int 2)), (.str ['b'], .leaf (.int 1))]

theorem exWsO_spec : specFold none exWsO = some exFoldU := by decide +kernel
theorem exFoldO_eq : orderD exFoldU = exFoldO := by decide +kernel

/-- the header placeholder entry is sorted in between the int keys and `A` when the file is re-read with `order=True` -/
example : orderD (C12.hdrEntry :: exFoldO) =
    [(.int 1, .leaf (.int 0)),
     (.int 3, .dict [(.str ['x'], .leaf (.int 5)), (.str ['y'], .leaf (.int 2)), (.str ['z'], .leaf (.int 1))]),
     (.str ['A'], .dict [(.str ['x'], .leaf (.int 1))]), C12.hdrEntry,
     (.str ['a'], .leaf (.int 2)), (.str ['b'], .leaf (.int 1))] := by decide +kernel

theorem ex_fold_ordered (ev : Str → EvalResult) :
    ∃ t c₁ sd c₂, runWrites ev .native ["f".toList] true none none exWsO = .ok (some t, c₁) ∧
      readFile ev [(["f".toList], .native t)] {} c₁ ["f".toList] = .ok (.ok sd c₂) ∧
      C01.dropPhEntries sd.data = exFoldO := by
  obtain ⟨t, c₁, sd, c₂, D, h1, h2, h3, h4, _⟩ := C16_fold_ordered ev ["f".toList] exWsO none (by decide)
    (by decide +kernel) (by decide +kernel) (Or.inl rfl) (by decide) (by decide) (by decide)
  rw [exWsO_spec] at h3
  cases h3
  rw [exFoldO_eq] at h4
  exact ⟨t, c₁, sd, c₂, h1, h2, h4⟩

end DictIO.C16ext
