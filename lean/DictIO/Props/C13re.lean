/-
  C13 -- the regular expressions of the library functions this property's model was written against, pinned against the
  table regenerated from the sources on every run (Generated/Regex.lean, harness/extract_regex.py).  A changed pattern
  breaks the `rfl` below: the hand-written recogniser of the model is then no longer justified, and the check searches
  for a failing input.  GENERATED ONCE by tools/mkrepins.py; committed.
-/
import DictIO.Generated.Regex

namespace DictIO.C13.Re
open DictIO.Gen

theorem re_dict_writer_create_target_file_name :
    regexesOf "dict_writer.py" "create_target_file_name" = ["sub:^{re.escape(prefix)}"] := rfl

end DictIO.C13.Re
