/-
  C12 -- comments and include directives survive read → write: the pieces that do not need the whole comment
  pipeline.

    (a) `C12_header_default`, `C12_header_own`, `C12_header_prepend`   header rule of `insert_block_comments`
    (b) `C12_substPh_literal`, `exLiteral`                             a placeholder entry is replaced by the literal text (D16)
    (c) `C12_lineComment_off`, `C12_lineComment`, `C12_blockComment`   what the two comment scanners do, comments on / off
    (d) `C12_placeholder_entry`, `C12_placeholder_den`                 a comment placeholder token becomes the entry `ph ↦ ph`
    (e) `D28_header_inside_subdict`, `D32_second_comment_lost`         the two known findings, by evaluation
-/
import DictIO.Props.C02main

namespace DictIO.C12
open DictIO

set_option linter.unusedSimpArgs false

/-! ## the native header, character by character

  (the kernel evaluates `String.toList` on a long literal very slowly; a literal is definitionally `String.ofList`
  of its characters, which is checked at once) -/

def nativeHeaderChars : List Char :=
  ['/', '*', '-', '-', '-', '-', '-', '-', '-', '-', '-', '-', '-', '-', '-', '-', '-', '-', '-', '-', '-', '-', '-', '-', '-', '-', '-', '-', '-', '-', '-', '-', '-', '-', '-', '*', '-', ' ', 'C', '+', '+', ' ', '-', '*', '-', '-', '-', '-', '-', '-', '-', '-', '-', '-', '-', '-', '-', '-', '-', '-', '-', '-', '-', '-', '-', '-', '-', '-', '-', '-', '-', '-', '-', '-', '-', '-', '-', '-', '*', '\\', '\n',
  'f', 'i', 'l', 'e', 't', 'y', 'p', 'e', ' ', 'd', 'i', 'c', 't', 'i', 'o', 'n', 'a', 'r', 'y', ';', ' ', 'c', 'o', 'd', 'i', 'n', 'g', ' ', 'u', 't', 'f', '-', '8', ';', ' ', 'v', 'e', 'r', 's', 'i', 'o', 'n', ' ', '0', '.', '1', ';', ' ', 'l', 'o', 'c', 'a', 'l', ' ', '-', '-', ';', ' ', 'p', 'u', 'r', 'p', 'o', 's', 'e', ' ', '-', '-', ';', '\n',
  '\\', '*', '-', '-', '-', '-', '-', '-', '-', '-', '-', '-', '-', '-', '-', '-', '-', '-', '-', '-', '-', '-', '-', '-', '-', '-', '-', '-', '-', '-', '-', '-', '-', '-', '-', '-', '-', '-', '-', '-', '-', '-', '-', '-', '-', '-', '-', '-', '-', '-', '-', '-', '-', '-', '-', '-', '-', '-', '-', '-', '-', '-', '-', '-', '-', '-', '-', '-', '-', '-', '-', '-', '-', '-', '-', '-', '-', '-', '*', '/', '\n']

set_option maxRecDepth 100000 in
theorem nativeHeader_eq : nativeHeader = nativeHeaderChars :=
  (congrArg String.toList (rfl : Gen.nativeHeader = String.ofList nativeHeaderChars)).trans String.toList_ofList

attribute [local irreducible] nativeHeader

theorem nativeHeader_cpp : containsCpp nativeHeader = true := by rw [nativeHeader_eq]; decide +kernel

theorem nativeHeader_ne : nativeHeader ≠ [] := by rw [nativeHeader_eq]; decide

/-! ## helper lemmas about `substPh` -/

theorem matchPhEntry_lt {ph s rest : Str} (h : matchPhEntry ph s = some rest) : rest.length < s.length := by
  unfold matchPhEntry at h
  split at h
  · simp only [] at h
    split at h
    · next hc =>
      split at h
      · next r2 e =>
        simp only [Option.some.injEq] at h
        subst h
        have h1 := congrArg List.length e
        simp only [List.length_drop, List.length_cons, Bool.and_eq_true, decide_eq_true_eq] at h1 hc
        omega
      · cases h
    · cases h
  · cases h

/-- the found-flag does not depend on the replacement text -/
theorem substFuel_flag (ph r1 r2 : Str) : ∀ (fuel : Nat) (s : Str),
    (substPhEntryFuel ph r1 fuel s).2 = (substPhEntryFuel ph r2 fuel s).2
  | 0, _ => rfl
  | _ + 1, [] => rfl
  | fuel + 1, c :: r => by
    simp only [substPhEntryFuel]
    split
    · rfl
    · exact substFuel_flag ph r1 r2 fuel r

theorem substPh_flag (kw : Str) (i : Nat) (r1 r2 s : Str) : (substPh kw i r1 s).2 = (substPh kw i r2 s).2 :=
  substFuel_flag _ _ _ _ _

/-- more fuel than characters: the amount of fuel does not matter -/
theorem substFuel_enough (ph repl : Str) : ∀ (f1 f2 : Nat) (s : Str), s.length < f1 → s.length < f2 →
    substPhEntryFuel ph repl f1 s = substPhEntryFuel ph repl f2 s
  | 0, _, _, h, _ => by omega
  | _ + 1, 0, _, _, h => by omega
  | _ + 1, _ + 1, [], _, _ => rfl
  | f1 + 1, f2 + 1, c :: r, h1, h2 => by
    simp only [substPhEntryFuel]
    simp only [List.length_cons] at h1 h2
    split
    · next rest hm =>
      have := matchPhEntry_lt hm
      simp only [List.length_cons] at this
      rw [substFuel_enough ph repl f1 f2 rest (by omega) (by omega)]
    · rw [substFuel_enough ph repl f1 f2 r (by omega) (by omega)]

/-- a stretch of text without the first character of the placeholder is copied -/
theorem substFuel_skip {ph : Str} (repl : Str) {c : Char} {ph' : Str} (hph : ph = c :: ph') :
    ∀ (h : Str) (fuel : Nat) (s : Str), c ∉ h →
      substPhEntryFuel ph repl (fuel + h.length) (h ++ s) =
        (h ++ (substPhEntryFuel ph repl fuel s).1, (substPhEntryFuel ph repl fuel s).2)
  | [], fuel, s, _ => by simp
  | x :: h, fuel, s, hc => by
    have hx : c ≠ x := fun e => hc (by rw [e]; exact List.mem_cons_self)
    have hh : c ∉ h := fun e => hc (List.mem_cons_of_mem _ e)
    have hm : matchPhEntry ph (x :: (h ++ s)) = none := by
      simp [matchPhEntry, hph, List.isPrefixOf, hx]
    have : fuel + (x :: h).length = (fuel + h.length) + 1 := by simp; omega
    rw [this, List.cons_append, substPhEntryFuel, hm]
    simp only []
    rw [substFuel_skip repl hph h fuel s hh]
    simp

theorem substPh_none {kw : Str} (i : Nat) (repl : Str) {c : Char} {kw' : Str} (hkw : kw = c :: kw')
    (s : Str) (hc : c ∉ s) : substPh kw i repl s = (s, false) := by
  unfold substPh
  have := substFuel_skip repl (ph := kw ++ padSix i) (ph' := kw' ++ padSix i) (by rw [hkw]; rfl) s 1 [] hc
  simp only [List.append_nil] at this
  rw [Nat.add_comm, this]
  simp [substPhEntryFuel]

/-- the placeholder entry `ph \s+ ph ;` is recognised -/
theorem matchPhEntry_hit {ph : Str} {c : Char} {ph' : Str} (hph : ph = c :: ph') (hc : isWs c = false)
    (ws post : Str) (hws : ws ≠ []) (hall : ws.all isWs = true) :
    matchPhEntry ph (ph ++ (ws ++ (ph ++ ';' :: post))) = some post := by
  have h1 : ph.isPrefixOf (ph ++ (ws ++ (ph ++ ';' :: post))) = true := by
    rw [List.isPrefixOf_iff_prefix]; exact List.prefix_append _ _
  have h2 : (ph ++ (ws ++ (ph ++ ';' :: post))).drop ph.length = ws ++ (ph ++ ';' :: post) := List.drop_left
  have h3 : (ws ++ (ph ++ ';' :: post)).dropWhile isWs = ph ++ ';' :: post := by
    rw [hph, List.cons_append, C01.dropWhile_append_stop isWs hc,
      C01.dropWhile_all isWs ws (by simpa using hall)]
    rfl
  have h4 : ph.isPrefixOf (ph ++ ';' :: post) = true := by
    rw [List.isPrefixOf_iff_prefix]; exact List.prefix_append _ _
  have h5 : (ph ++ ';' :: post).drop ph.length = ';' :: post := List.drop_left
  have h6 : (ph ++ ';' :: post).length < (ws ++ (ph ++ ';' :: post)).length := by
    cases ws with
    | nil => exact absurd rfl hws
    | cons w ws => simp; omega
  unfold matchPhEntry
  simp only [h1, if_true, h2, h3, h4, h5, h6, decide_true, Bool.and_self]

/-- nothing found: the text is unchanged -/
theorem substFuel_notfound (ph repl : Str) : ∀ (fuel : Nat) (s : Str),
    (substPhEntryFuel ph repl fuel s).2 = false → (substPhEntryFuel ph repl fuel s).1 = s
  | 0, _, _ => rfl
  | _ + 1, [], _ => rfl
  | fuel + 1, c :: r, h => by
    simp only [substPhEntryFuel] at h ⊢
    split
    · next rest hm => rw [hm] at h; simp at h
    · next hm =>
      rw [hm] at h
      simp only [] at h
      rw [substFuel_notfound ph repl fuel r h]

theorem substPh_notfound (kw : Str) (i : Nat) (repl s : Str) (h : (substPh kw i [] s).2 = false) :
    substPh kw i repl s = (s, false) := by
  have hf : (substPh kw i repl s).2 = false := by rw [substPh_flag kw i repl [] s]; exact h
  have := substFuel_notfound (kw ++ padSix i) repl (s.length + 1) s hf
  exact Prod.ext this hf

theorem substFuel_hit {ph repl s rest : Str} (fuel : Nat) (hm : matchPhEntry ph s = some rest) :
    substPhEntryFuel ph repl (fuel + 1) s = (repl ++ (substPhEntryFuel ph repl fuel rest).1, true) := by
  cases s with
  | nil => have := matchPhEntry_lt hm; simp at this
  | cons c r => rw [substPhEntryFuel, hm]

/-! ## (b) `substPh` replaces a placeholder entry by the literal text -/

/-- **C12_substPh_literal** (model side of fix D16).  The first placeholder entry `ph ws ph;` in the text is replaced
    by `repl` *as it is* — no escape processing, whatever `repl` contains — and the scan goes on behind it.
    Side condition on the text in front: it does not contain the first letter of the keyword (so no placeholder
    starts there); the keyword starts with a non-blank. -/
theorem C12_substPh_literal {kw : Str} {c : Char} {kw' : Str} (hkw : kw = c :: kw') (hc : isWs c = false)
    (i : Nat) (repl pre ws post : Str) (hpre : c ∉ pre) (hws : ws ≠ []) (hall : ws.all isWs = true) :
    substPh kw i repl (pre ++ (kw ++ padSix i) ++ ws ++ (kw ++ padSix i) ++ [';'] ++ post) =
      (pre ++ repl ++ (substPh kw i repl post).1, true) := by
  unfold substPh
  obtain ⟨ph, hdef⟩ : ∃ ph, ph = kw ++ padSix i := ⟨_, rfl⟩
  have hph : ph = c :: (kw' ++ padSix i) := by rw [hdef, hkw]; rfl
  rw [← hdef]
  have e : pre ++ ph ++ ws ++ ph ++ [';'] ++ post = pre ++ (ph ++ (ws ++ (ph ++ ';' :: post))) := by simp
  rw [e]
  have hl : (pre ++ (ph ++ (ws ++ (ph ++ ';' :: post)))).length + 1 =
      ((ph ++ (ws ++ (ph ++ ';' :: post))).length + 1) + pre.length := by simp; omega
  rw [hl, substFuel_skip repl hph pre _ _ hpre]
  rw [substFuel_hit _ (matchPhEntry_hit hph hc ws post hws hall)]
  have hlen : post.length < (ph ++ (ws ++ (ph ++ ';' :: post))).length := by simp; omega
  rw [substFuel_enough ph repl _ (post.length + 1) post hlen (by omega)]
  simp

theorem padSix_zero : padSix 0 = "000000".toList := C02.padSix_zero
theorem padSix_one : padSix 1 = "000001".toList := C02.padSix_one

/-- a comment text with backslashes, a group reference `\1`, `$`, both quotes and braces -/
def exComment : Str := "// a\\b \\1 \\g<0> $x 'q' \"r\" {}()".toList

/-- … is put into the text unchanged -/
theorem exLiteral :
    substPh kwLine 0 exComment "x 1; LINECOMMENT000000  LINECOMMENT000000;\ny 2;\n".toList =
      ("x 1; ".toList ++ exComment ++ "\ny 2;\n".toList, true) := by
  have h := C12_substPh_literal (kw := kwLine) (c := 'L') (kw' := "INECOMMENT".toList) (by decide) (by decide) 0
    exComment "x 1; ".toList "  ".toList "\ny 2;\n".toList (by decide) (by decide) (by decide)
  rw [substPh_none (kw := kwLine) 0 exComment (c := 'L') (kw' := "INECOMMENT".toList) (by decide)
    "\ny 2;\n".toList (by decide), padSix_zero] at h
  have e : "x 1; LINECOMMENT000000  LINECOMMENT000000;\ny 2;\n".toList =
      "x 1; ".toList ++ (kwLine ++ "000000".toList) ++ "  ".toList ++ (kwLine ++ "000000".toList) ++ [';'] ++
        "\ny 2;\n".toList := by decide
  rw [e]; exact h

/-! ## (a) the header rule of `insert_block_comments` -/

theorem containsCpp_nil : containsCpp [] = false := by simp [containsCpp]

/-- `make_default_block_comment` (native): an own ` C++ ` header is used as it is, anything else gets the default
    header in front -/
theorem makeDefault_native (bc : Str) :
    makeDefaultBlockComment .native bc = if containsCpp bc then bc else nativeHeader ++ bc := rfl

theorem makeDefault_native_ne (bc : Str) : makeDefaultBlockComment .native bc ≠ [] := by
  rw [makeDefault_native]
  split
  · next h => intro e; rw [e, containsCpp_nil] at h; cases h
  · intro e
    exact nativeHeader_ne (List.append_eq_nil_iff.mp e).1

/-- no block comment: exactly the default header in front -/
theorem C12_header_default (txt : Str) : insertBlockComments .native [] txt = nativeHeader ++ txt := by
  simp [insertBlockComments, makeDefault_native, containsCpp_nil]

/-- one comment in the table, its placeholder entry present in the text: it is replaced by the (completed) comment,
    nothing is put in front of the text -/
theorem insertBlock_single (fl : Flavor) (i : Nat) (bc txt : Str)
    (hfound : (substPh kwBlock i [] txt).2 = true) (hne : makeDefaultBlockComment fl bc ≠ []) :
    insertBlockComments fl [(i, bc)] txt = (substPh kwBlock i (makeDefaultBlockComment fl bc) txt).1 := by
  have hinf : isInfix (makeDefaultBlockComment fl bc) [] = false := by
    cases hm : makeDefaultBlockComment fl bc with
    | nil => exact absurd hm hne
    | cons c r => simp [isInfix, tails, List.isPrefixOf]
  have hf : (substPh kwBlock i (makeDefaultBlockComment fl bc) txt).2 = true := by
    rw [substPh_flag kwBlock i _ [] txt]; exact hfound
  have hemp : (makeDefaultBlockComment fl bc).isEmpty = false := by
    cases hm : makeDefaultBlockComment fl bc with
    | nil => exact absurd hm hne
    | cons c r => rfl
  simp only [insertBlockComments, List.foldl_cons, List.foldl_nil, if_true, hinf, Bool.false_eq_true, if_false]
  rcases hs : substPh kwBlock i (makeDefaultBlockComment fl bc) txt with ⟨s', found⟩
  rw [hs] at hf
  simp only [] at hf
  subst hf
  simp [hemp]

/-- the first comment is an own ` C++ ` header: it is written as it is -/
theorem C12_header_own (i : Nat) (bc txt : Str) (hfound : (substPh kwBlock i [] txt).2 = true)
    (hcpp : containsCpp bc = true) :
    insertBlockComments .native [(i, bc)] txt = (substPh kwBlock i bc txt).1 := by
  rw [insertBlock_single .native i bc txt hfound (makeDefault_native_ne bc), makeDefault_native, hcpp]
  rfl

/-- the first comment is not a header: the default header is put in front *of the comment* -/
theorem C12_header_prepend (i : Nat) (bc txt : Str) (hfound : (substPh kwBlock i [] txt).2 = true)
    (hcpp : containsCpp bc = false) :
    insertBlockComments .native [(i, bc)] txt = (substPh kwBlock i (nativeHeader ++ bc) txt).1 := by
  rw [insertBlock_single .native i bc txt hfound (makeDefault_native_ne bc), makeDefault_native, hcpp]
  rfl

/-- the placeholder is not in the text (the comment's entry was deleted): the comment is dropped and the text gets
    the default header -/
theorem C12_header_missing (i : Nat) (bc txt : Str) (hfound : (substPh kwBlock i [] txt).2 = false) :
    insertBlockComments .native [(i, bc)] txt = nativeHeader ++ txt := by
  have hf : ∀ r, (substPh kwBlock i r txt).2 = false := fun r => by rw [substPh_flag kwBlock i r [] txt]; exact hfound
  simp only [insertBlockComments, List.foldl_cons, List.foldl_nil, hf, Bool.false_eq_true, if_false]
  simp [makeDefault_native, containsCpp_nil]

/-! ## (c) the comment scanners, with comments on and off -/

/-- `_extract_line_comments` on one line, as a case distinction on the search for `//`: no marker, line unchanged;
    otherwise the comment (from the marker to the end of the line) is replaced by the placeholder (comments on) or
    removed (comments off).  With comments off no placeholder is put into the line. -/
theorem C12_lineComment_cases (comments : Bool) (st : LexSt) (l : Str) :
    (lexLineComment comments st l).2 =
      match findLineComment none l with
      | none => l
      | some (before, tail) =>
        before ++ (if comments then kwLine ++ padSix st.fresh.1 else []) ++ (dropFinalNl tail).2 := by
  unfold lexLineComment
  cases findLineComment none l with
  | none => rfl
  | some p => rfl

theorem C12_lineComment_off (st : LexSt) (l : Str) :
    (lexLineComment false st l).2 =
      match findLineComment none l with
      | none => l
      | some (before, tail) => before ++ (dropFinalNl tail).2 := by
  rw [C12_lineComment_cases false st l]
  cases findLineComment none l with
  | none => rfl
  | some p => simp

/-- the first `//` that is neither preceded by `:` nor inside a run of text with `/` or `:` is found -/
theorem findLineComment_hit (r : Str) : ∀ (b : Str) (prev : Option Char), prev ≠ some ':' → '/' ∉ b → ':' ∉ b →
    findLineComment prev (b ++ '/' :: '/' :: r) = some (b, '/' :: '/' :: r)
  | [], prev, hp, _, _ => by
    have : (prev == some ':') = false := by simpa using hp
    simp [findLineComment, this]
  | c :: b, prev, _, h1, h2 => by
    have hc1 : c ≠ '/' := fun e => h1 (by rw [e]; exact List.mem_cons_self)
    have hc2 : c ≠ ':' := fun e => h2 (by rw [e]; exact List.mem_cons_self)
    have ih := findLineComment_hit r b (some c) (by simpa using hc2) (fun e => h1 (List.mem_cons_of_mem _ e))
      (fun e => h2 (List.mem_cons_of_mem _ e))
    rw [List.cons_append, findLineComment]
    · rw [ih]; rfl
    · intro r' e _
      exact hc1 e

theorem replaceFuel_skip {pat : Str} (rep : Str) {c : Char} {pat' : Str} (hpat : pat = c :: pat') :
    ∀ (h : Str) (fuel : Nat) (s : Str), c ∉ h →
      replaceAllFuel pat rep (fuel + h.length) (h ++ s) = h ++ replaceAllFuel pat rep fuel s
  | [], fuel, s, _ => by simp
  | x :: h, fuel, s, hc => by
    have hx : (c == x) = false := by
      simp only [beq_eq_false_iff_ne, ne_eq]; intro e; exact hc (by rw [e]; exact List.mem_cons_self)
    have hh : c ∉ h := fun e => hc (List.mem_cons_of_mem _ e)
    have : fuel + (x :: h).length = (fuel + h.length) + 1 := by simp; omega
    rw [this, List.cons_append, replaceAllFuel, hpat]
    simp only [List.isPrefixOf, hx, Bool.false_and, Bool.false_eq_true, if_false]
    rw [← hpat, replaceFuel_skip rep hpat h fuel s hh]
    rfl

/-- the comment text, found once at the end of the line, is replaced -/
theorem replaceAll_tail {c : Char} (cm rep b nl : Str) (hb : c ∉ b) (hnl : c ∉ nl) :
    replaceAll (c :: cm) rep (b ++ (c :: cm) ++ nl) = b ++ rep ++ nl := by
  unfold replaceAll
  have hl : (b ++ ((c :: cm) ++ nl)).length + 1 = (((c :: cm) ++ nl).length + 1) + b.length := by simp; omega
  rw [List.append_assoc, hl, replaceFuel_skip rep rfl b _ _ hb]
  have hp : (c :: cm).isPrefixOf ((c :: cm) ++ nl) = true := by
    rw [List.isPrefixOf_iff_prefix]; exact List.prefix_append _ _
  have hd : ((c :: cm) ++ nl).drop (c :: cm).length = nl := List.drop_left
  have hstep : replaceAllFuel (c :: cm) rep (((c :: cm) ++ nl).length + 1) ((c :: cm) ++ nl) =
      rep ++ replaceAllFuel (c :: cm) rep ((c :: cm) ++ nl).length nl := by
    have hp' := hp
    have hd' := hd
    rw [List.cons_append] at hp' hd' ⊢
    rw [replaceAllFuel, hp', hd']
    simp
  rw [hstep]
  have h0 := replaceFuel_skip (pat := c :: cm) rep rfl nl (cm.length + 1) [] hnl
  simp only [List.append_nil] at h0
  have hl2 : ((c :: cm) ++ nl).length = (cm.length + 1) + nl.length := by simp; omega
  rw [hl2, h0]
  cases cm <;> simp [replaceAllFuel]

theorem dropFinalNl_plain (s : Str) (h : s.getLast? ≠ some '\n') : dropFinalNl s = (s, []) := by
  unfold dropFinalNl
  split
  · next e => exact absurd e h
  · rfl

theorem dropFinalNl_nl (s : Str) : dropFinalNl (s ++ ['\n']) = (s, ['\n']) := by
  unfold dropFinalNl
  simp

/-- **C12_lineComment**: a line `b // text` (+ optional line feed), `b` without `/` and `:` and `text` without line
    feed: the comment text `// text` is stored under a fresh id; the line keeps `b`, followed by the placeholder
    (comments on) or by nothing (comments off), and its line feed. -/
theorem C12_lineComment (comments : Bool) (st : LexSt) (b cm nl : Str) (h1 : '/' ∉ b) (h2 : ':' ∉ b)
    (hcm : '\n' ∉ cm) (hnl : nl = [] ∨ nl = ['\n']) :
    lexLineComment comments st (b ++ ('/' :: '/' :: cm) ++ nl) =
      ({ st.fresh.2 with lineC := st.fresh.2.lineC.set st.fresh.1 ('/' :: '/' :: cm) },
       b ++ (if comments then kwLine ++ padSix st.fresh.1 else []) ++ nl) := by
  have hfind : findLineComment none (b ++ ('/' :: '/' :: cm) ++ nl) = some (b, '/' :: '/' :: (cm ++ nl)) := by
    rw [List.append_assoc]
    exact findLineComment_hit (cm ++ nl) b none (by simp) h1 h2
  have hlast : ('/' :: '/' :: cm).getLast? ≠ some '\n' := by
    intro e
    have hm := List.mem_of_getLast? e
    simp only [List.mem_cons] at hm
    rcases hm with h | h | h
    · cases h
    · cases h
    · exact hcm h
  have hdrop : dropFinalNl ('/' :: '/' :: (cm ++ nl)) = ('/' :: '/' :: cm, nl) := by
    rcases hnl with rfl | rfl
    · rw [List.append_nil, dropFinalNl_plain _ hlast]
    · have : '/' :: '/' :: (cm ++ ['\n']) = ('/' :: '/' :: cm) ++ ['\n'] := rfl
      rw [this, dropFinalNl_nl]
  unfold lexLineComment
  rw [hfind]
  simp only [hdrop]

/-- with comments off the placeholder word is not put into the line -/
example (st : LexSt) : (lexLineComment false st "a 1; // note\n".toList).2 = "a 1; \n".toList := by
  have := C12_lineComment false st "a 1; ".toList " note".toList ['\n'] (by decide) (by decide) (by decide) (Or.inr rfl)
  have e : "a 1; // note\n".toList = "a 1; ".toList ++ ('/' :: '/' :: " note".toList) ++ ['\n'] := by decide
  rw [e, this]; simp

/-! #### block comments -/

theorem takeToCommentEnd_hit (post : Str) : ∀ body : Str, isInfix ['*', '/'] body = false →
    takeToCommentEnd (body ++ '*' :: '/' :: post) = some (body ++ ['*', '/'], post)
  | [], _ => by simp [takeToCommentEnd]
  | c :: body, h => by
    rw [C02.isInfix_cons] at h
    simp only [Bool.or_eq_false_iff] at h
    have ih := takeToCommentEnd_hit post body h.2
    rw [List.cons_append, takeToCommentEnd]
    · rw [ih]; rfl
    · intro r e1 e2
      subst e1
      cases body with
      | nil => simp at e2
      | cons d body =>
        simp only [List.cons_append, List.cons.injEq] at e2
        obtain ⟨rfl, _⟩ := e2
        simp [List.isPrefixOf] at h

theorem lexBlock_step (comments : Bool) (fuel n : Nat) (tbl : Tbl Str) (c : Char) (r : Str)
    (h : ¬ (c = '/' ∧ r.head? = some '*')) :
    lexBlockCommentsFuel comments (fuel + 1) n tbl (c :: r) =
      ((lexBlockCommentsFuel comments fuel n tbl r).1, c :: (lexBlockCommentsFuel comments fuel n tbl r).2) := by
  rw [lexBlockCommentsFuel]
  intro r' e1 e2
  exact h ⟨e1, by rw [e2]; rfl⟩

/-- **C12_blockComment**: a text with exactly one block comment.  The comment, delimiters included, is stored under
    the running id `n`; in the text it is replaced by the blank-padded placeholder (comments on) or removed
    (comments off — no placeholder enters the text). -/
theorem C12_blockComment (comments : Bool) (body post : Str) (n : Nat) (tbl : Tbl Str)
    (hbody : isInfix ['*', '/'] body = false) (hpost : isInfix ['/', '*'] post = false) :
    ∀ (pre : Str) (fuel : Nat), isInfix ['/', '*'] pre = false →
      (pre ++ '/' :: '*' :: (body ++ '*' :: '/' :: post)).length < fuel →
      lexBlockCommentsFuel comments fuel n tbl (pre ++ '/' :: '*' :: (body ++ '*' :: '/' :: post)) =
        (tbl ++ [(n, '/' :: '*' :: (body ++ ['*', '/']))],
         pre ++ (if comments then [' '] ++ kwBlock ++ padSix n ++ [' '] else []) ++ post)
  | _, 0, _, hf => by omega
  | [], fuel + 1, _, hf => by
    simp only [List.nil_append] at hf ⊢
    rw [lexBlockCommentsFuel, takeToCommentEnd_hit post body hbody]
    simp only []
    rw [C02.lexBlockComments_id comments fuel (n + 1) _ post hpost (by simp at hf; omega)]
  | c :: pre, fuel + 1, hpre, hf => by
    rw [C02.isInfix_cons] at hpre
    simp only [Bool.or_eq_false_iff] at hpre
    have hstep : ¬ (c = '/' ∧ (pre ++ '/' :: '*' :: (body ++ '*' :: '/' :: post)).head? = some '*') := by
      rintro ⟨rfl, e⟩
      cases pre with
      | nil => simp at e
      | cons d pre =>
        simp only [List.cons_append, List.head?_cons, Option.some.injEq] at e
        subst e
        simp [List.isPrefixOf] at hpre
    rw [List.cons_append, lexBlock_step comments fuel n tbl c _ hstep,
      C12_blockComment comments body post n tbl hbody hpost pre fuel hpre.2 (by simp at hf ⊢; omega)]
    rfl

/-- comments off: the text is the text without the comment … -/
theorem C12_blockComment_off (pre body post : Str) (n : Nat) (tbl : Tbl Str)
    (hpre : isInfix ['/', '*'] pre = false) (hbody : isInfix ['*', '/'] body = false)
    (hpost : isInfix ['/', '*'] post = false) :
    lexBlockCommentsFuel false ((pre ++ '/' :: '*' :: (body ++ '*' :: '/' :: post)).length + 1) n tbl
        (pre ++ '/' :: '*' :: (body ++ '*' :: '/' :: post)) =
      (tbl ++ [(n, '/' :: '*' :: (body ++ ['*', '/']))], pre ++ post) := by
  rw [C12_blockComment false body post n tbl hbody hpost pre _ hpre (by omega)]
  simp

/-- … comments on: the blank-padded placeholder stands where the comment stood -/
theorem C12_blockComment_on (pre body post : Str) (n : Nat) (tbl : Tbl Str)
    (hpre : isInfix ['/', '*'] pre = false) (hbody : isInfix ['*', '/'] body = false)
    (hpost : isInfix ['/', '*'] post = false) :
    lexBlockCommentsFuel true ((pre ++ '/' :: '*' :: (body ++ '*' :: '/' :: post)).length + 1) n tbl
        (pre ++ '/' :: '*' :: (body ++ '*' :: '/' :: post)) =
      (tbl ++ [(n, '/' :: '*' :: (body ++ ['*', '/']))], pre ++ [' '] ++ kwBlock ++ padSix n ++ [' '] ++ post) := by
  rw [C12_blockComment true body post n tbl hbody hpost pre _ hpre (by omega)]
  simp

/-! ## (d) a comment placeholder token becomes the data entry `ph ↦ ph` -/

theorem kw_chars : ∀ c ∈ kwLine ++ kwBlock, isWs c = false ∧ Gen.delimiters.contains c = false := by decide

theorem ph_chars {kw : Str} (hkw : ∀ c ∈ kw, c ∈ kwLine ++ kwBlock) (i : Nat) :
    ∀ c ∈ kw ++ padSix i, isWs c = false ∧ Gen.delimiters.contains c = false := by
  intro c hc
  rcases List.mem_append.mp hc with h | h
  · exact kw_chars c (hkw c h)
  · have := C02.asciiDigits_facts c (C02.padSix_ascii i c h)
    exact ⟨this.2.1, this.2.2.1⟩

/-- the line-comment placeholder `LINECOMMENT%06d` is a word token and a comment token -/
theorem linePh_tok (i : Nat) : isWordTok (kwLine ++ padSix i) = true ∧ isPhTok (kwLine ++ padSix i) = true := by
  constructor
  · have h := ph_chars (kw := kwLine) (fun c hc => List.mem_append_left _ hc) i
    have e : kwLine ++ padSix i = 'L' :: 'I' :: ("NECOMMENT".toList ++ padSix i) := rfl
    rw [e] at h ⊢
    simp only [isWordTok, List.isEmpty_cons, Bool.not_false, Bool.true_and, Bool.and_true, List.all_eq_true,
      Bool.and_eq_true, Bool.not_eq_true']
    exact fun c hc => ⟨(h c hc).1, (h c hc).2⟩
  · have : isCommentTok (kwLine ++ padSix i) = true := by
      unfold isCommentTok
      rw [C01.isInfix_iff]
      exact ⟨"LINE".toList, padSix i, rfl⟩
    simp [isPhTok, this]

/-- the block-comment placeholder `BLOCKCOMMENT%06d` likewise -/
theorem blockPh_tok (i : Nat) : isWordTok (kwBlock ++ padSix i) = true ∧ isPhTok (kwBlock ++ padSix i) = true := by
  constructor
  · have h := ph_chars (kw := kwBlock) (fun c hc => List.mem_append_right _ hc) i
    have e : kwBlock ++ padSix i = 'B' :: 'L' :: ("OCKCOMMENT".toList ++ padSix i) := rfl
    rw [e] at h ⊢
    simp only [isWordTok, List.isEmpty_cons, Bool.not_false, Bool.true_and, Bool.and_true, List.all_eq_true,
      Bool.and_eq_true, Bool.not_eq_true']
    exact fun c hc => ⟨(h c hc).1, (h c hc).2⟩
  · have : isCommentTok (kwBlock ++ padSix i) = true := by
      unfold isCommentTok
      rw [C01.isInfix_iff]
      exact ⟨"BLOCK".toList, padSix i, rfl⟩
    simp [isPhTok, this]

/-- **C12_placeholder_entry** (corollary of `C02.pd_ph`): when the scanner meets the placeholder token that
    `lexLineComment` put into the line (id `i`, the id under which the comment text is stored in `lineC`:
    `C12_lineComment`), it stores the data entry `ph ↦ ph` — at whatever nesting level the token stands. -/
theorem C12_placeholder_entry (top : Bool) (prev : List Tok) (l : Int) (i : Nat) (rest : List Tok) (acc : Entries) :
    parseDictToks top prev ((l, kwLine ++ padSix i) :: rest) acc =
      parseDictToks top ((l, kwLine ++ padSix i) :: prev) rest
        (setKey (.str (kwLine ++ padSix i)) (.leaf (.str (kwLine ++ padSix i))) acc) :=
  C02.pd_ph top prev l _ rest acc (linePh_tok i).1 (linePh_tok i).2

theorem C12_placeholder_entry_block (top : Bool) (prev : List Tok) (l : Int) (i : Nat) (rest : List Tok)
    (acc : Entries) :
    parseDictToks top prev ((l, kwBlock ++ padSix i) :: rest) acc =
      parseDictToks top ((l, kwBlock ++ padSix i) :: prev) rest
        (setKey (.str (kwBlock ++ padSix i)) (.leaf (.str (kwBlock ++ padSix i))) acc) :=
  C02.pd_ph top prev l _ rest acc (blockPh_tok i).1 (blockPh_tok i).2

/-- the same on the documented-grammar side: the comment entry of a token tree denotes `ph ↦ ph` -/
theorem C12_placeholder_den (i : Nat) (w : Str) (es acc : Entries) :
    denEs ((.str (kwLine ++ padSix i), .leaf (.str w)) :: es) acc =
      denEs es (setKey (.str (kwLine ++ padSix i)) (.leaf (.str (kwLine ++ padSix i))) acc) := by
  simp [denEs, (linePh_tok i).2]

/-! ## (e) negative witnesses for the two known findings -/

def exD28Text : Str := "a 1;\ns\n{\n    BLOCKCOMMENT000000  BLOCKCOMMENT000000;\n}\n".toList

/-- **D28**: a block comment that sits inside a sub-dict and is the only one: the *default header* is written inside
    the sub-dict, in front of the comment … -/
theorem D28_header_inside_subdict :
    insertBlockComments .native [(0, "/* c */".toList)] exD28Text =
      "a 1;\ns\n{\n    ".toList ++ nativeHeader ++ "/* c */\n}\n".toList := by
  have hfound : ∀ r, substPh kwBlock 0 r exD28Text = ("a 1;\ns\n{\n    ".toList ++ r ++ "\n}\n".toList, true) := by
    intro r
    have h := C12_substPh_literal (kw := kwBlock) (c := 'B') (kw' := "LOCKCOMMENT".toList) (by decide) (by decide) 0
      r "a 1;\ns\n{\n    ".toList "  ".toList "\n}\n".toList (by decide) (by decide) (by decide)
    rw [substPh_none (kw := kwBlock) 0 r (c := 'B') (kw' := "LOCKCOMMENT".toList) (by decide)
      "\n}\n".toList (by decide), padSix_zero] at h
    have e : exD28Text = "a 1;\ns\n{\n    ".toList ++ (kwBlock ++ "000000".toList) ++ "  ".toList ++
        (kwBlock ++ "000000".toList) ++ [';'] ++ "\n}\n".toList := by decide +kernel
    rw [e]; exact h
  rw [C12_header_prepend 0 _ _ (by rw [hfound]) (by decide), hfound]
  simp

/-- … so the written text does not start with the header -/
theorem D28_not_at_top : ¬ nativeHeader <+: insertBlockComments .native [(0, "/* c */".toList)] exD28Text := by
  rw [D28_header_inside_subdict, nativeHeader_eq]
  decide +kernel

def exD32Text : Str :=
  "BLOCKCOMMENT000000  BLOCKCOMMENT000000;\na 1;\nBLOCKCOMMENT000001  BLOCKCOMMENT000001;\n".toList

def exD32Rest : Str := "\na 1;\nBLOCKCOMMENT000001  BLOCKCOMMENT000001;\n".toList

theorem exD32_first (r : Str) : substPh kwBlock 0 r exD32Text = (r ++ exD32Rest, true) := by
  have h := C12_substPh_literal (kw := kwBlock) (c := 'B') (kw' := "LOCKCOMMENT".toList) (by decide) (by decide) 0
    r [] "  ".toList exD32Rest (by decide) (by decide) (by decide)
  have hrest : substPh kwBlock 0 r exD32Rest = (exD32Rest, false) := by
    apply substPh_notfound
    unfold substPh; rw [padSix_zero]; decide +kernel
  rw [hrest, padSix_zero] at h
  have e : exD32Text = [] ++ (kwBlock ++ "000000".toList) ++ "  ".toList ++
      (kwBlock ++ "000000".toList) ++ [';'] ++ exD32Rest := by decide +kernel
  rw [e]; simpa using h

theorem exD32_second (r t : Str) (ht : 'B' ∉ t) :
    substPh kwBlock 1 r (t ++ exD32Rest) = (t ++ "\na 1;\n".toList ++ r ++ "\n".toList, true) := by
  have h := C12_substPh_literal (kw := kwBlock) (c := 'B') (kw' := "LOCKCOMMENT".toList) (by decide) (by decide) 1
    r (t ++ "\na 1;\n".toList) "  ".toList "\n".toList
    (by intro hm; rcases List.mem_append.mp hm with h | h; exact ht h; revert h; decide) (by decide) (by decide)
  rw [substPh_none (kw := kwBlock) 1 r (c := 'B') (kw' := "LOCKCOMMENT".toList) (by decide)
    "\n".toList (by decide), padSix_one] at h
  have e : t ++ exD32Rest =
      (t ++ "\na 1;\n".toList) ++ (kwBlock ++ "000001".toList) ++ "  ".toList ++
      (kwBlock ++ "000001".toList) ++ [';'] ++ "\n".toList := by
    have : exD32Rest = "\na 1;\n".toList ++
      ((kwBlock ++ "000001".toList) ++ "  ".toList ++ (kwBlock ++ "000001".toList) ++ [';'] ++ "\n".toList) := by
      decide +kernel
    rw [this]; simp only [List.append_assoc]
  rw [e]; exact h

/-- **D32**: two block comments with the same text, both placeholders present: the second one is written as the
    empty text (the "already inserted" test `bc in sofar` suppresses it) -/
theorem D32_second_comment_lost :
    insertBlockComments .native [(0, "/* c */".toList), (1, "/* c */".toList)] exD32Text =
      nativeHeader ++ "/* c */\na 1;\n\n".toList := by
  have hc : containsCpp "/* c */".toList = false := by decide
  obtain ⟨hdr, hdef⟩ : ∃ hdr, hdr = nativeHeader ++ "/* c */".toList := ⟨_, rfl⟩
  have hB : 'B' ∉ hdr := by rw [hdef, nativeHeader_eq]; decide +kernel
  have hinf : isInfix "/* c */".toList ([] ++ hdr) = true := by
    rw [C01.isInfix_iff]; exact ⟨nativeHeader, [], by simp [hdef]⟩
  have hnot : isInfix hdr [] = false := by rw [hdef, nativeHeader_eq]; decide +kernel
  have hne : ([] ++ hdr).isEmpty = false := by rw [hdef, nativeHeader_eq]; decide +kernel
  simp only [insertBlockComments, List.foldl_cons, List.foldl_nil, if_true, makeDefault_native, hc,
    Bool.false_eq_true, if_false, ← hdef, hnot, exD32_first, hinf, exD32_second _ _ hB, hne]
  rw [hdef]
  simp

end DictIO.C12
