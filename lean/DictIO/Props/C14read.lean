import DictIO.Props.C14
import DictIO.Props.C07
import DictIO.Props.C13api
import DictIO.Props.C15file
import DictIO.Props.C17

namespace DictIO
namespace C14read
open DictIO

/-! ## definitions -/

/-- everything `DictReader.read` does **before** the scope step: `parse_file`, `_merge_includes`, `_eval_expressions`.
    The `scope` and `order` options are not looked at. -/
def readCore (ev : Str → EvalResult) (fs : FS) (o : ReadOpts) (c : Counter) (p : Comps) : Except ParseErr (SD × Counter) := do
  let (sd, c) ← parseFile fs o.comments c p
  let (sd, c) ← if o.includes then mergeIncludes fs o.comments sd p.dropLast c else pure (sd, c)
  let sd ← evalExpressions ev sd
  pure (sd, c)

/-- `order_keys()` if requested -/
def ordIf (b : Bool) (s : SD) : SD := if b then s.order else s

/-- `_remove_include_keys` (top level) unless includes were merged -/
def dropIncl (includes : Bool) (s : SD) : SD := if includes then s else { s with data := removeIncludeKeys s.data }

/-- the two steps of `DictReader.read` **after** the scope step, in the order of the code -/
def post (o : ReadOpts) (s : SD) : SD := dropIncl o.includes (ordIf o.order s)

/-- the scope step on the dict as it is before ordering and include-key removal, followed by those two steps -/
def scopeOut (o : ReadOpts) (r : SD × Counter) : ReadOut :=
  if pathExists r.1.data o.scope then .ok (post o (r.1.reduceScope o.scope)) r.2 else .exit1

/-- the scope step applied to what an **unscoped, unordered** read returned: `global_key_exists`, `reduce_scope`,
    and (only for `includes=False`) `_remove_include_keys` on the new top level -/
def scopeStep (includes : Bool) (scope : List Key) : ReadOut → ReadOut
  | .exit1 => .exit1
  | .ok u c => if pathExists u.data scope then .ok (dropIncl includes (u.reduceScope scope)) c else .exit1

/-- the first key of the scope is not one that `_remove_include_keys` deletes (`re.search("INCLUDE[0-9;]+", key)`);
    vacuous when includes are merged (`includes=True`, the default: nothing is deleted then) -/
def FirstKeyOK (o : ReadOpts) : Bool :=
  o.includes || match o.scope with
    | .str k :: _ => !(removeIncludeKeys.containsPhDigits kwIncl k)
    | _ => true

/-- the data a read returned, if it returned a dict -/
def dataOf : Except ParseErr ReadOut → Option Entries
  | .ok (.ok s _) => some s.data
  | _ => none

/-! ## helper lemmas -/

/-- `readFile` is `readCore`, then the scope step, ordering and include-key removal -/
theorem readFile_core (ev : Str → EvalResult) (fs : FS) (o : ReadOpts) (c : Counter) (p : Comps) :
    readFile ev fs o c p =
      (readCore ev fs o c p).map fun r =>
        if !o.scope.isEmpty && !pathExists r.1.data o.scope then ReadOut.exit1
        else .ok (post o (if o.scope.isEmpty then r.1 else r.1.reduceScope o.scope)) r.2 := by
  obtain ⟨inc, ord, com, sc⟩ := o
  simp only [readFile, readCore, bind, Except.bind, pure, Except.pure, Except.map, post, dropIncl, ordIf]
  cases parseFile fs com c p with
  | error e => rfl
  | ok r =>
    simp only []
    cases inc with
    | true =>
      simp only [if_true]
      cases mergeIncludes fs com r.1 p.dropLast r.2 with
      | error e => rfl
      | ok r =>
        simp only []
        cases evalExpressions ev r.1 with
        | error e => rfl
        | ok sd => simp only []; split <;> rfl
    | false =>
      simp only [Bool.false_eq_true, if_false]
      cases evalExpressions ev r.1 with
      | error e => rfl
      | ok sd => simp only []; split <;> rfl

/-- the key test of `_remove_include_keys` -/
def inclQ : Key → Bool
  | .str k => !(removeIncludeKeys.containsPhDigits kwIncl k)
  | _ => true

theorem removeIncludeKeys_eq_filter (es : Entries) : removeIncludeKeys es = es.filter fun e => inclQ e.1 := by
  unfold removeIncludeKeys
  congr 1

/-- a filter on keys does not change what a key that passes it is bound to -/
theorem lookup_filter_key (q : Key → Bool) {k : Key} (hk : q k = true) : ∀ es : Entries,
    lookup k (es.filter fun e => q e.1) = lookup k es
  | [] => rfl
  | (k', v) :: es => by
    by_cases h : k' = k
    · subst h; simp [hk, lookup]
    · by_cases hq : q k' = true
      · simp [hq, lookup, h, lookup_filter_key q hk es]
      · simp [hq, lookup, h, lookup_filter_key q hk es]

theorem scopeOf_removeIncludeKeys {k : Key} (hk : inclQ k = true) (p : List Key) (es : Entries) :
    scopeOf (removeIncludeKeys es) (k :: p) = scopeOf es (k :: p) := by
  simp only [scopeOf, removeIncludeKeys_eq_filter, lookup_filter_key inclQ hk]

theorem pathExists_removeIncludeKeys {k : Key} (hk : inclQ k = true) (p : List Key) (es : Entries) :
    pathExists (removeIncludeKeys es) (k :: p) = pathExists es (k :: p) := by
  simp only [pathExists, removeIncludeKeys_eq_filter, lookup_filter_key inclQ hk]

theorem pathExists_false_of_scopeOf_none {es : Entries} {p : List Key} (h : scopeOf es p = none) : pathExists es p = false := by
  cases hp : pathExists es p with
  | false => rfl
  | true =>
    obtain ⟨sub, hsub⟩ := (C14.exists_iff_dict_path p es).mp hp
    rw [h] at hsub; cases hsub

theorem pathExists_true_of_scopeOf_some {es sub : Entries} {p : List Key} (h : scopeOf es p = some sub) : pathExists es p = true :=
  (C14.exists_iff_dict_path p es).mpr ⟨sub, h⟩

/-- **the scope step on the core dict, then include-key removal = include-key removal, then the scope step, then
    include-key removal again**, provided the first scope key survives the removal -/
theorem scopeOut_eq_scopeStep {o : ReadOpts} (hs : o.scope ≠ []) (hk : FirstKeyOK o = true) (ho : o.order = false)
    (r : SD × Counter) : scopeOut o r = scopeStep o.includes o.scope (.ok (post o r.1) r.2) := by
  obtain ⟨inc, ord, com, sc⟩ := o
  obtain ⟨sd, c⟩ := r
  simp only at ho hs
  subst ho
  cases inc with
  | true => simp [scopeOut, scopeStep, post, dropIncl, ordIf]
  | false =>
    cases sc with
    | nil => exact absurd rfl hs
    | cons k rest =>
      have hq : inclQ k = true := by
        cases k with
        | int z => rfl
        | str s => simpa [FirstKeyOK, inclQ] using hk
      simp only [scopeOut, scopeStep, post, dropIncl, ordIf, Bool.false_eq_true, if_false,
        pathExists_removeIncludeKeys hq]
      cases hsc : scopeOf sd.data (k :: rest) with
      | none => simp only [pathExists_false_of_scopeOf_none hsc, Bool.false_eq_true, if_false]
      | some sub =>
        have hsc' : scopeOf (removeIncludeKeys sd.data) (k :: rest) = some sub := by
          rw [scopeOf_removeIncludeKeys hq]; exact hsc
        simp only [pathExists_true_of_scopeOf_some hsc, if_true, SD.reduceScope, hsc, hsc']

/-! #### `order_keys` and the scope path -/

/-- the dict a scope path leads to has unique keys at every level if the whole dict has -/
theorem nodup_scopeOf : ∀ (p : List Key) (es sub : Entries), NodupKeysV (.dict es) → scopeOf es p = some sub →
    NodupKeysV (.dict sub)
  | [], es, sub, hn, h => by
    simp only [scopeOf, Option.some.injEq] at h
    exact h ▸ hn
  | k :: p, es, sub, hn, h => by
    simp only [scopeOf] at h
    cases hl : lookup k es with
    | none => simp [hl] at h
    | some v =>
      cases v with
      | leaf x => simp [hl] at h
      | list xs => simp [hl] at h
      | dict d =>
        simp only [hl] at h
        exact nodup_scopeOf p d sub (C14.nodupEs_mem hn.2 (k, .dict d) (lookup_some_mem hl)) h

/-- **`order_keys` commutes with following a scope path** (data level): the ordered dict has the same paths, and the
    sub-dict at a path is the ordered sub-dict -/
theorem scopeOf_orderD : ∀ (p : List Key) (es : Entries), NodupKeysV (.dict es) →
    scopeOf (orderD es) p = (scopeOf es p).map orderD
  | [], _, _ => rfl
  | k :: p, es, hn => by
    simp only [scopeOf]
    rw [C15.order_lookup es hn.1 k]
    cases hl : lookup k es with
    | none => rfl
    | some v =>
      cases v with
      | leaf x => rfl
      | list xs => rfl
      | dict d =>
        exact scopeOf_orderD p d (C14.nodupEs_mem hn.2 (k, .dict d) (lookup_some_mem hl))

theorem pathExists_orderD (p : List Key) (es : Entries) (hn : NodupKeysV (.dict es)) :
    pathExists (orderD es) p = pathExists es p := by
  cases h : scopeOf es p with
  | none =>
    rw [pathExists_false_of_scopeOf_none h, pathExists_false_of_scopeOf_none (by rw [scopeOf_orderD p es hn, h]; rfl)]
  | some sub =>
    rw [pathExists_true_of_scopeOf_some h, pathExists_true_of_scopeOf_some (by rw [scopeOf_orderD p es hn, h]; rfl)]

mutual
  theorem nodup_orderV : ∀ v : Val, NodupKeysV v → NodupKeysV (orderV v)
    | .leaf _, h => by simpa [orderV] using h
    | .list _, h => by simpa [orderV] using h
    | .dict es, h => by
      simp only [orderV, NodupKeysV]
      refine ⟨C15.nodup_order h.1, C14.nodupEs_of_forall fun e he => ?_⟩
      exact nodup_orderEs_mem es h.2 e ((sortBy_perm (orderEs es)).mem_iff.mp he)
  theorem nodup_orderEs_mem : ∀ es : Entries, NodupKeysEs es → ∀ e ∈ orderEs es, NodupKeysV e.2
    | [], _, e, he => by simp [orderEs] at he
    | (k, v) :: es, h, e, he => by
      simp only [orderEs] at he
      rcases List.mem_cons.mp he with rfl | hm
      · exact nodup_orderV v h.1
      · exact nodup_orderEs_mem es h.2 e hm
end

mutual
  theorem noPh_orderV : ∀ v : Val, C07.NoPhV v → C07.NoPhV (orderV v)
    | .leaf _, _ => by simp [orderV, C07.NoPhV]
    | .list _, _ => by simp [orderV, C07.NoPhV]
    | .dict es, h => by
      simp only [orderV, C07.NoPhV]
      exact C07.noPhEs_iff.mpr fun e he => noPh_orderEs_mem es h e ((sortBy_perm (orderEs es)).mem_iff.mp he)
  theorem noPh_orderEs_mem : ∀ es : Entries, C07.NoPhEs es → ∀ e ∈ orderEs es, C07.isPhKey e.1 = false ∧ C07.NoPhV e.2
    | [], _, e, he => by simp [orderEs] at he
    | (k, v) :: es, h, e, he => by
      simp only [orderEs] at he
      rcases List.mem_cons.mp he with rfl | hm
      · exact ⟨h.1, noPh_orderV v h.2.1⟩
      · exact noPh_orderEs_mem es h.2.2 e hm
end

/-- **`reduce_scope` then `order_keys` = `order_keys` then `reduce_scope`** when the sub-dict holds no comment / include
    placeholder keys (then `_clean` has nothing to do on either side).  Without that hypothesis: `reduceScope_order_comm_false`. -/
theorem reduceScope_order_comm {s : SD} {scope : List Key} {sub : Entries} (hs : scope ≠ []) (hn : NodupKeysV (.dict s.data))
    (hsub : scopeOf s.data scope = some sub) (hp : C07.NoPhEs sub) :
    (s.reduceScope scope).order = s.order.reduceScope scope ∧
    s.reduceScope scope = { s with data := sub } ∧
    s.order.reduceScope scope = { s.order with data := orderD sub } := by
  have hsn : NodupKeysV (.dict sub) := nodup_scopeOf scope s.data sub hn hsub
  have h1 : s.reduceScope scope = { s with data := sub } := by
    rw [C14.reduce_scope_exact_nodup hs hsub hsn.1]
    exact C07.clean_id { s with data := sub } hsn hp
  have hsub' : scopeOf s.order.data scope = some (orderD sub) := by
    show scopeOf (orderD s.data) scope = _
    rw [scopeOf_orderD scope s.data hn, hsub]; rfl
  have hsn' : NodupKeysV (.dict (orderD sub)) := nodup_orderV (.dict sub) hsn
  have hp' : C07.NoPhEs (orderD sub) := noPh_orderV (.dict sub) hp
  have h2 : s.order.reduceScope scope = { s.order with data := orderD sub } := by
    rw [C14.reduce_scope_exact_nodup hs hsub' hsn'.1]
    exact C07.clean_id { s.order with data := orderD sub } hsn' hp'
  refine ⟨?_, h1, h2⟩
  rw [h1, h2]
  rfl

/-! ## property theorems -/

/-- **C14, scope as a read option (exact factorisation)**: for a non-empty scope, the scoped read and the unscoped read
    run the very same `readCore` (same errors, same counter); on its result `sd₀` the unscoped read returns
    `post o sd₀` (ordering, include-key removal) and the scoped read returns `scopeOut`: `exit1` when the path does not
    exist in `sd₀`, else `post o (sd₀.reduceScope o.scope)`. -/
theorem C14_read_scope (ev : Str → EvalResult) (fs : FS) (o : ReadOpts) (c : Counter) (p : Comps) (hs : o.scope ≠ []) :
    readFile ev fs o c p = (readCore ev fs o c p).map (scopeOut o) ∧
    readFile ev fs { o with scope := [] } c p = (readCore ev fs o c p).map (fun r => ReadOut.ok (post o r.1) r.2) := by
  constructor
  · rw [readFile_core]
    congr 1
    funext r
    have he : o.scope.isEmpty = false := by
      cases h : o.scope with
      | nil => exact absurd h hs
      | cons k r => rfl
    simp only [he, Bool.not_false, Bool.true_and, Bool.false_eq_true, if_false, scopeOut]
    cases pathExists r.1.data o.scope <;> rfl
  · rw [readFile_core]
    rfl

/-- errors are the same: the scoped read fails exactly when the unscoped read fails, with the same error -/
theorem C14_read_scope_errors (ev : Str → EvalResult) (fs : FS) (o : ReadOpts) (c : Counter) (p : Comps) (hs : o.scope ≠ [])
    (e : ParseErr) : readFile ev fs o c p = .error e ↔ readFile ev fs { o with scope := [] } c p = .error e := by
  obtain ⟨h1, h2⟩ := C14_read_scope ev fs o c p hs
  rw [h1, h2]
  cases readCore ev fs o c p <;> simp [Except.map]

/-- **C14, the scoped read in terms of the unscoped read** (`order=False`): the scoped read is the unscoped read followed
    by the scope step on *its* result — `exit1` if the path does not exist there, else `reduce_scope` (and, for
    `includes=False`, include-key removal on the new top level).  Hypothesis `FirstKeyOK`: see `…_needs_first_key`. -/
theorem C14_read_scope_unordered (ev : Str → EvalResult) (fs : FS) (o : ReadOpts) (c : Counter) (p : Comps)
    (hs : o.scope ≠ []) (hk : FirstKeyOK o = true) (ho : o.order = false) :
    readFile ev fs o c p = (readFile ev fs { o with scope := [] } c p).map (scopeStep o.includes o.scope) := by
  obtain ⟨h1, h2⟩ := C14_read_scope ev fs o c p hs
  rw [h1, h2]
  cases readCore ev fs o c p with
  | error e => rfl
  | ok r => simp only [Except.map]; rw [scopeOut_eq_scopeStep hs hk ho r]

theorem mapSD_id (x : Except ParseErr ReadOut) : x.map (C15.ReadOut.mapSD (ordIf false)) = x := by
  cases x with
  | error e => rfl
  | ok r => cases r <;> rfl

/-- **C14, the scoped read in terms of the unscoped read** (any options): unscoped unordered read, scope step, then
    `order_keys` if requested.  (Ordering is the last step: `C15.readFile_order_flag`.) -/
theorem C14_read_scope_of_unscoped (ev : Str → EvalResult) (fs : FS) (o : ReadOpts) (c : Counter) (p : Comps)
    (hs : o.scope ≠ []) (hk : FirstKeyOK o = true) :
    readFile ev fs o c p =
      ((readFile ev fs { o with scope := [], order := false } c p).map (scopeStep o.includes o.scope)).map
        (C15.ReadOut.mapSD (ordIf o.order)) := by
  obtain ⟨inc, ord, com, sc⟩ := o
  cases ord with
  | false =>
    rw [mapSD_id]
    exact C14_read_scope_unordered ev fs ⟨inc, false, com, sc⟩ c p hs hk rfl
  | true =>
    have h := C15.readFile_order_flag ev fs ⟨inc, false, com, sc⟩ c p
    have h' := C14_read_scope_unordered ev fs ⟨inc, false, com, sc⟩ c p hs hk rfl
    simp only at h h'
    rw [h, h']
    rfl

end C14read
end DictIO
