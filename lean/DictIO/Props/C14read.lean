/-
  C14 / C17 -- scope reduction **as a read option** (`DictReader.read(..., scope=…)`), through `DictParser.parse`, and the
  two spellings of `--scope` on the command line.  (`Props/C14.lean` is about `SDict.reduce_scope` called directly.)

  What is proved (all for every file system, counter, path, `eval`, options and key type: `Key` = int or str, key text
  is compared with `=` and never interpreted):

  * `C14_read_scope`            the scoped and the unscoped read run the same `readCore` (parse, merge includes, evaluate
                                expressions): same errors (`C14_read_scope_errors`), same counter.  On its result `sd₀` the
                                unscoped read returns `post o sd₀` (order, then include-key removal), the scoped read returns
                                `exit1` when `pathExists sd₀.data scope` is false and `post o (sd₀.reduceScope scope)` otherwise.
                                The scope step comes BEFORE ordering and BEFORE include-key removal.
  * `C14_read_scope_unordered`, `C14_read_scope_of_unscoped`
                                the scoped read expressed through what the unscoped (unordered) read *returns*:
                                scoped = unscoped ; scope step on the returned dict ; (`includes=False`: include-key removal
                                on the new top level) ; (`order=True`: `order_keys`).  Hypothesis `FirstKeyOK`: vacuous for
                                `includes=True`; for `includes=False` the first scope key must not match `INCLUDE[0-9;]+`.
                                The commutations used: include-key removal vs. scope step (`scopeOut_eq_scopeStep`),
                                ordering is last (`C15.readFile_order_flag`).
  * `C14_read_scope_data`, `C14_read_scope_data_core`, `C14_read_scope_plain`, `C14_read_scope_exact_subdict`
                                the data of a scoped read is the sub-dict at that path of the unscoped read's data
                                (`scopeOf … = some sub`, `getPath … = some (.dict sub)`), rebuilt by `update`, `_clean`ed
                                (`C14.reduce_scope_exact_data`); it is literally `sub` when `sub` has unique keys and no
                                comment / include placeholder keys.
  * `C14_read_scope_ordered`, `reduceScope_order_comm`, `scopeOf_orderD`, `pathExists_orderD`
                                `order_keys` commutes with following a scope path (unique keys), and `reduce_scope` commutes
                                with `order_keys` when the sub-dict holds no placeholder keys.
  * `C14_read_scope_missing`, `C14_read_scope_missing_core`
                                a path that does not exist: `exit1`; `read` and `parse` return `exit1` and the world (files and
                                counter) is unchanged (`C13api.step_fail_safe`): nothing is written.
  * `C14_parse_scope_target`    `parse` with an existing scope writes exactly the file
                                `dir/targetName name "parsed" (scope.map keyText) output`, returns the scoped dict (re-typed: `normEs`), touches no
                                other path; if the serialiser gives up nothing is written.
  * `C17_scope_word_list`, `scope_word_vs_list`, `scope_number_word_vs_list'`
                                `--scope w` and `--scope [w]` give the same one-element scope for a word without blanks,
                                brackets, commas, quotes that `parse_value` types as a string; in general the list form is
                                `[parse_value w]`, the word form `[w]` (finding D25 for every number / bool / none word).

  Refuted (witnesses replayed on the real code, same results):
  * `C14_read_scope_data_statement_false`     with `includes=False` and an `#include` line inside the sub-dict, the scoped read
                                drops the placeholder entry `INCLUDE000000`, the unscoped read keeps it in the nested dict.
  * `C14_read_scope_missing_statement_false`  with `includes=False` and a scope key matched by `INCLUDE[0-9;]+` (`myINCLUDE0`),
                                the unscoped read has deleted the entry, the scoped read finds it.
  * `reduceScope_order_comm_false`            on arbitrary SDicts `reduce_scope` and `order_keys` do not commute (`_clean`
                                keeps the first of two comments with equal text); not known to be reachable from a file.

  Assumed / not covered: argparse and the conversion of `_validate_scope`'s result (scalars) to dict keys are not
  modelled; JSON / XML targets of `parse` make the model give up; `C14_read_scope_ordered` is for `includes=True` only.
-/
import DictIO.Props.C14
import DictIO.Props.C07
import DictIO.Props.C13api
import DictIO.Props.C15file
import DictIO.Props.C17

namespace DictIO
namespace C14read
open DictIO

/-! ## definitions -/

/-- everything `DictReader.read` does **before** the scope step: `parse_file`, `_merge_includes`, `_eval_expressions`.
    The `scope` and `order` options are not looked at. -/
def readCore (ev : Str → EvalResult) (fs : FS) (o : ReadOpts) (c : Counter) (p : Comps) : Except ParseErr (SD × Counter) := do
  let (sd, c) ← parseFile fs o.comments c p
  let (sd, c) ← if o.includes then mergeIncludes fs o.comments sd p.dropLast c else pure (sd, c)
  let sd ← evalExpressions ev sd
  pure (sd, c)

/-- `order_keys()` if requested -/
def ordIf (b : Bool) (s : SD) : SD := if b then s.order else s

/-- `_remove_include_keys` (top level) unless includes were merged -/
def dropIncl (includes : Bool) (s : SD) : SD := if includes then s else { s with data := removeIncludeKeys s.data }

/-- the two steps of `DictReader.read` **after** the scope step, in the order of the code -/
def post (o : ReadOpts) (s : SD) : SD := dropIncl o.includes (ordIf o.order s)

/-- the scope step on the dict as it is before ordering and include-key removal, followed by those two steps -/
def scopeOut (o : ReadOpts) (r : SD × Counter) : ReadOut :=
  if pathExists r.1.data o.scope then .ok (post o (r.1.reduceScope o.scope)) r.2 else .exit1

/-- the scope step applied to what an **unscoped, unordered** read returned: `global_key_exists`, `reduce_scope`,
    and (only for `includes=False`) `_remove_include_keys` on the new top level -/
def scopeStep (includes : Bool) (scope : List Key) : ReadOut → ReadOut
  | .exit1 => .exit1
  | .ok u c => if pathExists u.data scope then .ok (dropIncl includes (u.reduceScope scope)) c else .exit1

/-- the first key of the scope is not one that `_remove_include_keys` deletes (`re.search("INCLUDE[0-9;]+", key)`);
    vacuous when includes are merged (`includes=True`, the default: nothing is deleted then) -/
def FirstKeyOK (o : ReadOpts) : Bool :=
  o.includes || match o.scope with
    | .str k :: _ => !(removeIncludeKeys.containsPhDigits kwIncl k)
    | _ => true

/-- the data a read returned, if it returned a dict -/
def dataOf : Except ParseErr ReadOut → Option Entries
  | .ok (.ok s _) => some s.data
  | _ => none

/-! ## helper lemmas -/

/-- a read whose data is known returned a dict -/
theorem exists_of_dataOf {x : Except ParseErr ReadOut} {d : Entries} (h : dataOf x = some d) :
    ∃ u c', x = .ok (.ok u c') ∧ u.data = d := by
  cases x with
  | error e => cases h
  | ok r =>
    cases r with
    | exit1 => cases h
    | ok u c' => exact ⟨u, c', rfl, by simpa [dataOf] using h⟩

/-- `readFile` is `readCore`, then the scope step, ordering and include-key removal -/
theorem readFile_core (ev : Str → EvalResult) (fs : FS) (o : ReadOpts) (c : Counter) (p : Comps) :
    readFile ev fs o c p =
      (readCore ev fs o c p).map fun r =>
        if !o.scope.isEmpty && !pathExists r.1.data o.scope then ReadOut.exit1
        else .ok (post o (if o.scope.isEmpty then r.1 else r.1.reduceScope o.scope)) r.2 := by
  obtain ⟨inc, ord, com, sc⟩ := o
  simp only [readFile, readCore, bind, Except.bind, pure, Except.pure, Except.map, post, dropIncl, ordIf]
  cases parseFile fs com c p with
  | error e => rfl
  | ok r =>
    simp only []
    cases inc with
    | true =>
      simp only [if_true]
      cases mergeIncludes fs com r.1 p.dropLast r.2 with
      | error e => rfl
      | ok r =>
        simp only []
        cases evalExpressions ev r.1 with
        | error e => rfl
        | ok sd => simp only []; split <;> rfl
    | false =>
      simp only [Bool.false_eq_true, if_false]
      cases evalExpressions ev r.1 with
      | error e => rfl
      | ok sd => simp only []; split <;> rfl

/-- the key test of `_remove_include_keys` -/
def inclQ : Key → Bool
  | .str k => !(removeIncludeKeys.containsPhDigits kwIncl k)
  | _ => true

theorem removeIncludeKeys_eq_filter (es : Entries) : removeIncludeKeys es = es.filter fun e => inclQ e.1 := by
  unfold removeIncludeKeys
  congr 1

/-- a filter on keys does not change what a key that passes it is bound to -/
theorem lookup_filter_key (q : Key → Bool) {k : Key} (hk : q k = true) : ∀ es : Entries,
    lookup k (es.filter fun e => q e.1) = lookup k es
  | [] => rfl
  | (k', v) :: es => by
    by_cases h : k' = k
    · subst h; simp [hk, lookup]
    · by_cases hq : q k' = true
      · simp [hq, lookup, h, lookup_filter_key q hk es]
      · simp [hq, lookup, h, lookup_filter_key q hk es]

theorem scopeOf_removeIncludeKeys {k : Key} (hk : inclQ k = true) (p : List Key) (es : Entries) :
    scopeOf (removeIncludeKeys es) (k :: p) = scopeOf es (k :: p) := by
  simp only [scopeOf, removeIncludeKeys_eq_filter, lookup_filter_key inclQ hk]

theorem pathExists_removeIncludeKeys {k : Key} (hk : inclQ k = true) (p : List Key) (es : Entries) :
    pathExists (removeIncludeKeys es) (k :: p) = pathExists es (k :: p) := by
  simp only [pathExists, removeIncludeKeys_eq_filter, lookup_filter_key inclQ hk]

theorem pathExists_false_of_scopeOf_none {es : Entries} {p : List Key} (h : scopeOf es p = none) : pathExists es p = false := by
  cases hp : pathExists es p with
  | false => rfl
  | true =>
    obtain ⟨sub, hsub⟩ := (C14.exists_iff_dict_path p es).mp hp
    rw [h] at hsub; cases hsub

theorem pathExists_true_of_scopeOf_some {es sub : Entries} {p : List Key} (h : scopeOf es p = some sub) : pathExists es p = true :=
  (C14.exists_iff_dict_path p es).mpr ⟨sub, h⟩

/-- **the scope step on the core dict, then include-key removal = include-key removal, then the scope step, then
    include-key removal again**, provided the first scope key survives the removal -/
theorem scopeOut_eq_scopeStep {o : ReadOpts} (hs : o.scope ≠ []) (hk : FirstKeyOK o = true) (ho : o.order = false)
    (r : SD × Counter) : scopeOut o r = scopeStep o.includes o.scope (.ok (post o r.1) r.2) := by
  obtain ⟨inc, ord, com, sc⟩ := o
  obtain ⟨sd, c⟩ := r
  simp only at ho hs
  subst ho
  cases inc with
  | true => simp [scopeOut, scopeStep, post, dropIncl, ordIf]
  | false =>
    cases sc with
    | nil => exact absurd rfl hs
    | cons k rest =>
      have hq : inclQ k = true := by
        cases k with
        | int z => rfl
        | str s => simpa [FirstKeyOK, inclQ] using hk
      simp only [scopeOut, scopeStep, post, dropIncl, ordIf, Bool.false_eq_true, if_false,
        pathExists_removeIncludeKeys hq]
      cases hsc : scopeOf sd.data (k :: rest) with
      | none => simp only [pathExists_false_of_scopeOf_none hsc, Bool.false_eq_true, if_false]
      | some sub =>
        have hsc' : scopeOf (removeIncludeKeys sd.data) (k :: rest) = some sub := by
          rw [scopeOf_removeIncludeKeys hq]; exact hsc
        simp only [pathExists_true_of_scopeOf_some hsc, if_true, SD.reduceScope, hsc, hsc']

/-! #### `order_keys` and the scope path -/

/-- the dict a scope path leads to has unique keys at every level if the whole dict has -/
theorem nodup_scopeOf : ∀ (p : List Key) (es sub : Entries), NodupKeysV (.dict es) → scopeOf es p = some sub →
    NodupKeysV (.dict sub)
  | [], es, sub, hn, h => by
    simp only [scopeOf, Option.some.injEq] at h
    exact h ▸ hn
  | k :: p, es, sub, hn, h => by
    simp only [scopeOf] at h
    cases hl : lookup k es with
    | none => simp [hl] at h
    | some v =>
      cases v with
      | leaf x => simp [hl] at h
      | list xs => simp [hl] at h
      | dict d =>
        simp only [hl] at h
        exact nodup_scopeOf p d sub (C14.nodupEs_mem hn.2 (k, .dict d) (lookup_some_mem hl)) h

/-- **`order_keys` commutes with following a scope path** (data level): the ordered dict has the same paths, and the
    sub-dict at a path is the ordered sub-dict -/
theorem scopeOf_orderD : ∀ (p : List Key) (es : Entries), NodupKeysV (.dict es) →
    scopeOf (orderD es) p = (scopeOf es p).map orderD
  | [], _, _ => rfl
  | k :: p, es, hn => by
    simp only [scopeOf]
    rw [C15.order_lookup es hn.1 k]
    cases hl : lookup k es with
    | none => rfl
    | some v =>
      cases v with
      | leaf x => rfl
      | list xs => rfl
      | dict d =>
        exact scopeOf_orderD p d (C14.nodupEs_mem hn.2 (k, .dict d) (lookup_some_mem hl))

theorem pathExists_orderD (p : List Key) (es : Entries) (hn : NodupKeysV (.dict es)) :
    pathExists (orderD es) p = pathExists es p := by
  cases h : scopeOf es p with
  | none =>
    rw [pathExists_false_of_scopeOf_none h, pathExists_false_of_scopeOf_none (by rw [scopeOf_orderD p es hn, h]; rfl)]
  | some sub =>
    rw [pathExists_true_of_scopeOf_some h, pathExists_true_of_scopeOf_some (by rw [scopeOf_orderD p es hn, h]; rfl)]

mutual
  theorem nodup_orderV : ∀ v : Val, NodupKeysV v → NodupKeysV (orderV v)
    | .leaf _, h => by simpa [orderV] using h
    | .list _, h => by simpa [orderV] using h
    | .dict es, h => by
      simp only [orderV, NodupKeysV]
      refine ⟨C15.nodup_order h.1, C14.nodupEs_of_forall fun e he => ?_⟩
      exact nodup_orderEs_mem es h.2 e ((sortBy_perm (orderEs es)).mem_iff.mp he)
  theorem nodup_orderEs_mem : ∀ es : Entries, NodupKeysEs es → ∀ e ∈ orderEs es, NodupKeysV e.2
    | [], _, e, he => by simp [orderEs] at he
    | (k, v) :: es, h, e, he => by
      simp only [orderEs] at he
      rcases List.mem_cons.mp he with rfl | hm
      · exact nodup_orderV v h.1
      · exact nodup_orderEs_mem es h.2 e hm
end

mutual
  theorem noPh_orderV : ∀ v : Val, C07.NoPhV v → C07.NoPhV (orderV v)
    | .leaf _, _ => by simp [orderV, C07.NoPhV]
    | .list _, _ => by simp [orderV, C07.NoPhV]
    | .dict es, h => by
      simp only [orderV, C07.NoPhV]
      exact C07.noPhEs_iff.mpr fun e he => noPh_orderEs_mem es h e ((sortBy_perm (orderEs es)).mem_iff.mp he)
  theorem noPh_orderEs_mem : ∀ es : Entries, C07.NoPhEs es → ∀ e ∈ orderEs es, C07.isPhKey e.1 = false ∧ C07.NoPhV e.2
    | [], _, e, he => by simp [orderEs] at he
    | (k, v) :: es, h, e, he => by
      simp only [orderEs] at he
      rcases List.mem_cons.mp he with rfl | hm
      · exact ⟨h.1, noPh_orderV v h.2.1⟩
      · exact noPh_orderEs_mem es h.2.2 e hm
end

/-- **`reduce_scope` then `order_keys` = `order_keys` then `reduce_scope`** when the sub-dict holds no comment / include
    placeholder keys (then `_clean` has nothing to do on either side).  Without that hypothesis: `reduceScope_order_comm_false`. -/
theorem reduceScope_order_comm {s : SD} {scope : List Key} {sub : Entries} (hs : scope ≠ []) (hn : NodupKeysV (.dict s.data))
    (hsub : scopeOf s.data scope = some sub) (hp : C07.NoPhEs sub) :
    (s.reduceScope scope).order = s.order.reduceScope scope ∧
    s.reduceScope scope = { s with data := sub } ∧
    s.order.reduceScope scope = { s.order with data := orderD sub } := by
  have hsn : NodupKeysV (.dict sub) := nodup_scopeOf scope s.data sub hn hsub
  have h1 : s.reduceScope scope = { s with data := sub } := by
    rw [C14.reduce_scope_exact_nodup hs hsub hsn.1]
    exact C07.clean_id { s with data := sub } hsn hp
  have hsub' : scopeOf s.order.data scope = some (orderD sub) := by
    show scopeOf (orderD s.data) scope = _
    rw [scopeOf_orderD scope s.data hn, hsub]; rfl
  have hsn' : NodupKeysV (.dict (orderD sub)) := nodup_orderV (.dict sub) hsn
  have hp' : C07.NoPhEs (orderD sub) := noPh_orderV (.dict sub) hp
  have h2 : s.order.reduceScope scope = { s.order with data := orderD sub } := by
    rw [C14.reduce_scope_exact_nodup hs hsub' hsn'.1]
    exact C07.clean_id { s.order with data := orderD sub } hsn' hp'
  refine ⟨?_, h1, h2⟩
  rw [h1, h2]
  rfl

/-! #### `_validate_scope` -/

theorem dropWhile_all_false {p : Char → Bool} : ∀ {l : Str}, (∀ c ∈ l, p c = false) → l.dropWhile p = l
  | [], _ => rfl
  | c :: r, h => by simp [List.dropWhile, h c List.mem_cons_self]

theorem dropEndQuote_id : ∀ (s : Str), (∀ c ∈ s, isQuote c = false) → dropEndQuote s = s
  | [], _ => rfl
  | [c], h => by simp [dropEndQuote, h c (by simp)]
  | c :: d :: r, h => by
    have hc := h c (by simp)
    have ih := dropEndQuote_id (d :: r) fun x hx => h x (List.mem_cons_of_mem _ hx)
    by_cases hd : d = '\n' ∧ r = []
    · obtain ⟨rfl, rfl⟩ := hd
      simp [dropEndQuote, hc]
    · have : dropEndQuote (c :: d :: r) = c :: dropEndQuote (d :: r) := by
        rw [dropEndQuote]
        · intro e1; cases e1
        · intro e1; cases e1; exact hd ⟨rfl, rfl⟩
      rw [this, ih]

theorem removeQuotes_id {s : Str} (h : ∀ c ∈ s, isQuote c = false) : removeQuotes s = s := by
  cases s with
  | nil => rfl
  | cons c cs =>
    simp only [removeQuotes, h c List.mem_cons_self, Bool.false_eq_true, if_false]
    exact dropEndQuote_id _ h

theorem boolNoneWord_not_str {w s : Str} : boolNoneWord w ≠ some (.str s) := by
  unfold boolNoneWord
  simp only []
  repeat (split; · simp)
  simp

/-- a quote-free word that `parse_value` types as a string is kept as it is -/
theorem parseValue_str_noquote {w s : Str} (hq : ∀ c ∈ w, isQuote c = false) (h : parseValue w = .str s) : s = w := by
  unfold parseValue at h
  rw [removeQuotes_id hq] at h
  split at h
  · rename_i he
    cases w with
    | nil => simpa using h.symm
    | cons c r => simp at he
  · split at h
    · simpa using h.symm
    · split at h
      · cases h
      · split at h
        · cases h
        · split at h
          · cases h
          · split at h
            · rename_i v hv
              subst h
              exact absurd hv boolNoneWord_not_str
            · simpa using h.symm

theorem splitComma_no_comma : ∀ {w : Str}, ',' ∉ w → splitComma w = [w]
  | [], _ => rfl
  | c :: r, h => by
    have hc : c ≠ ',' := fun e => h (e ▸ List.mem_cons_self)
    have ih := splitComma_no_comma (w := r) fun hm => h (List.mem_cons_of_mem _ hm)
    rw [splitComma]
    · simp [ih]
    · intro e; cases e; exact hc rfl

/-- the characters `_validate_scope` treats specially: blanks (and all white space), brackets, commas -/
def PlainWord (w : Str) : Prop := ∀ c ∈ w, c ≠ '[' ∧ c ≠ ']' ∧ c ≠ ',' ∧ isWs c = false

instance (w : Str) : Decidable (PlainWord w) := by unfold PlainWord; infer_instance

theorem strip_plain {w : Str} (h : ∀ c ∈ w, isWs c = false) : strip w = w := by
  unfold strip
  rw [dropWhile_all_false h, dropWhile_all_false (by simpa using h), List.reverse_reverse]

theorem stripScopeChars_bracketed {w : Str} (h : PlainWord w) : stripScopeChars ('[' :: (w ++ [']'])) = w := by
  have hp : ∀ c ∈ w, (c == ' ' || c == '[' || c == ']') = false := by
    intro c hc
    obtain ⟨h1, h2, _, h4⟩ := h c hc
    have h0 : c ≠ ' ' := fun e => by subst e; exact absurd h4 (by decide)
    simp [h0, h1, h2]
  unfold stripScopeChars
  simp only [List.dropWhile_cons, BEq.rfl, Bool.or_true, Bool.true_or, if_true]
  cases w with
  | nil => simp
  | cons c r =>
    have hc := hp c List.mem_cons_self
    have hr : ∀ x ∈ (c :: r).reverse, (x == ' ' || x == '[' || x == ']') = false := by
      intro x hx; exact hp x (List.mem_reverse.mp hx)
    rw [List.cons_append, List.dropWhile_cons, hc]
    simp only [Bool.false_eq_true, if_false]
    rw [← List.cons_append, List.reverse_append, List.reverse_singleton, List.singleton_append, List.dropWhile_cons]
    simp only [BEq.rfl, Bool.or_true, if_true]
    rw [dropWhile_all_false hr, List.reverse_reverse]


/-! ## property theorems -/

/-- **C14, scope as a read option (exact factorisation)**: for a non-empty scope, the scoped read and the unscoped read
    run the very same `readCore` (same errors, same counter); on its result `sd₀` the unscoped read returns
    `post o sd₀` (ordering, include-key removal) and the scoped read returns `scopeOut`: `exit1` when the path does not
    exist in `sd₀`, else `post o (sd₀.reduceScope o.scope)`. -/
theorem C14_read_scope (ev : Str → EvalResult) (fs : FS) (o : ReadOpts) (c : Counter) (p : Comps) (hs : o.scope ≠ []) :
    readFile ev fs o c p = (readCore ev fs o c p).map (scopeOut o) ∧
    readFile ev fs { o with scope := [] } c p = (readCore ev fs o c p).map (fun r => ReadOut.ok (post o r.1) r.2) := by
  constructor
  · rw [readFile_core]
    congr 1
    funext r
    have he : o.scope.isEmpty = false := by
      cases h : o.scope with
      | nil => exact absurd h hs
      | cons k r => rfl
    simp only [he, Bool.not_false, Bool.true_and, Bool.false_eq_true, if_false, scopeOut]
    cases pathExists r.1.data o.scope <;> rfl
  · rw [readFile_core]
    rfl

/-- errors are the same: the scoped read fails exactly when the unscoped read fails, with the same error -/
theorem C14_read_scope_errors (ev : Str → EvalResult) (fs : FS) (o : ReadOpts) (c : Counter) (p : Comps) (hs : o.scope ≠ [])
    (e : ParseErr) : readFile ev fs o c p = .error e ↔ readFile ev fs { o with scope := [] } c p = .error e := by
  obtain ⟨h1, h2⟩ := C14_read_scope ev fs o c p hs
  rw [h1, h2]
  cases readCore ev fs o c p <;> simp [Except.map]

/-- **C14, the scoped read in terms of the unscoped read** (`order=False`): the scoped read is the unscoped read followed
    by the scope step on *its* result — `exit1` if the path does not exist there, else `reduce_scope` (and, for
    `includes=False`, include-key removal on the new top level).  Hypothesis `FirstKeyOK`: see `C14_read_scope_missing_statement_false`. -/
theorem C14_read_scope_unordered (ev : Str → EvalResult) (fs : FS) (o : ReadOpts) (c : Counter) (p : Comps)
    (hs : o.scope ≠ []) (hk : FirstKeyOK o = true) (ho : o.order = false) :
    readFile ev fs o c p = (readFile ev fs { o with scope := [] } c p).map (scopeStep o.includes o.scope) := by
  obtain ⟨h1, h2⟩ := C14_read_scope ev fs o c p hs
  rw [h1, h2]
  cases readCore ev fs o c p with
  | error e => rfl
  | ok r => simp only [Except.map]; rw [scopeOut_eq_scopeStep hs hk ho r]

theorem mapSD_id (x : Except ParseErr ReadOut) : x.map (C15.ReadOut.mapSD (ordIf false)) = x := by
  cases x with
  | error e => rfl
  | ok r => cases r <;> rfl

/-- **C14, the scoped read in terms of the unscoped read** (any options): unscoped unordered read, scope step, then
    `order_keys` if requested.  (Ordering is the last step: `C15.readFile_order_flag`.) -/
theorem C14_read_scope_of_unscoped (ev : Str → EvalResult) (fs : FS) (o : ReadOpts) (c : Counter) (p : Comps)
    (hs : o.scope ≠ []) (hk : FirstKeyOK o = true) :
    readFile ev fs o c p =
      ((readFile ev fs { o with scope := [], order := false } c p).map (scopeStep o.includes o.scope)).map
        (C15.ReadOut.mapSD (ordIf o.order)) := by
  obtain ⟨inc, ord, com, sc⟩ := o
  cases ord with
  | false =>
    rw [mapSD_id]
    exact C14_read_scope_unordered ev fs ⟨inc, false, com, sc⟩ c p hs hk rfl
  | true =>
    have h := C15.readFile_order_flag ev fs ⟨inc, false, com, sc⟩ c p
    have h' := C14_read_scope_unordered ev fs ⟨inc, false, com, sc⟩ c p hs hk rfl
    simp only at h h'
    rw [h, h']
    rfl

/-- what the scoped read returns when the unscoped, unordered read returned `u` and the scope leads to `sub` there -/
def scopedSD (o : ReadOpts) (u : SD) (sub : Entries) : SD :=
  ordIf o.order (dropIncl o.includes (SD.clean { u with data := updateD [] sub }))

/-- forward form: the unscoped read and the sub-dict at the path determine the scoped read -/
theorem read_scope_forward (ev : Str → EvalResult) (fs : FS) (o : ReadOpts) (c : Counter) (p : Comps)
    (hs : o.scope ≠ []) (hk : FirstKeyOK o = true) {u : SD} {c' : Counter} {sub : Entries}
    (hU : readFile ev fs { o with scope := [], order := false } c p = .ok (.ok u c'))
    (hsub : scopeOf u.data o.scope = some sub) :
    readFile ev fs o c p = .ok (.ok (scopedSD o u sub) c') := by
  rw [C14_read_scope_of_unscoped ev fs o c p hs hk, hU]
  simp only [Except.map, scopeStep, pathExists_true_of_scopeOf_some hsub, if_true, C15.ReadOut.mapSD, scopedSD,
    C14.reduce_scope_exact hs hsub]

/-- **C14, the data of a scoped read**: whenever a scoped read returns a dict `S`, the unscoped (unordered) read returns
    a dict `U` with the same counter, the scope path leads through dicts to a sub-dict `sub` of `U`'s data (for every key
    type: `scopeOf` compares keys with `=`), and `S` is `U` reduced to `sub`: the data rebuilt by `update` (`updateD []`),
    `_clean`, include-key removal when `includes=False`, `order_keys` when `order=True`. -/
theorem C14_read_scope_data (ev : Str → EvalResult) (fs : FS) (o : ReadOpts) (c : Counter) (p : Comps)
    (hs : o.scope ≠ []) (hk : FirstKeyOK o = true) {S : SD} {c' : Counter}
    (h : readFile ev fs o c p = .ok (.ok S c')) :
    ∃ u sub, readFile ev fs { o with scope := [], order := false } c p = .ok (.ok u c') ∧
      scopeOf u.data o.scope = some sub ∧ getPath (.dict u.data) o.scope = some (.dict sub) ∧
      S = scopedSD o u sub ∧ (u.reduceScope o.scope).data = (SD.clean { u with data := updateD [] sub }).data := by
  rw [C14_read_scope_of_unscoped ev fs o c p hs hk] at h
  cases hU : readFile ev fs { o with scope := [], order := false } c p with
  | error e => rw [hU] at h; cases h
  | ok r =>
    rw [hU] at h
    cases r with
    | exit1 => cases h
    | ok u cu =>
      simp only [Except.map, scopeStep] at h
      cases hsc : scopeOf u.data o.scope with
      | none =>
        rw [pathExists_false_of_scopeOf_none hsc] at h
        cases h
      | some sub =>
        rw [pathExists_true_of_scopeOf_some hsc] at h
        simp only [if_true, C15.ReadOut.mapSD, Except.ok.injEq, ReadOut.ok.injEq] at h
        obtain ⟨hS, hc⟩ := h
        subst hc
        refine ⟨u, sub, rfl, hsc, C14.scopeOf_getPath _ _ _ hsc, ?_, C14.reduce_scope_exact_data hs hsc⟩
        rw [← hS, C14.reduce_scope_exact hs hsc]; rfl

/-- the same with respect to the dict before ordering and include-key removal: no hypothesis on the scope keys -/
theorem C14_read_scope_data_core (ev : Str → EvalResult) (fs : FS) (o : ReadOpts) (c : Counter) (p : Comps)
    (hs : o.scope ≠ []) {S : SD} {c' : Counter} (h : readFile ev fs o c p = .ok (.ok S c')) :
    ∃ sd₀ sub, readCore ev fs o c p = .ok (sd₀, c') ∧
      readFile ev fs { o with scope := [] } c p = .ok (.ok (post o sd₀) c') ∧
      scopeOf sd₀.data o.scope = some sub ∧ getPath (.dict sd₀.data) o.scope = some (.dict sub) ∧
      S = post o (SD.clean { sd₀ with data := updateD [] sub }) := by
  obtain ⟨h1, h2⟩ := C14_read_scope ev fs o c p hs
  rw [h1] at h
  rw [h2]
  cases hc : readCore ev fs o c p with
  | error e => rw [hc] at h; cases h
  | ok r =>
    obtain ⟨sd₀, c₀⟩ := r
    rw [hc] at h
    simp only [Except.map, scopeOut] at h
    cases hsc : scopeOf sd₀.data o.scope with
    | none => rw [pathExists_false_of_scopeOf_none hsc] at h; cases h
    | some sub =>
      rw [pathExists_true_of_scopeOf_some hsc] at h
      simp only [if_true, Except.ok.injEq, ReadOut.ok.injEq] at h
      obtain ⟨hS, hcc⟩ := h
      subst hcc
      refine ⟨sd₀, sub, rfl, rfl, hsc, C14.scopeOf_getPath _ _ _ hsc, ?_⟩
      rw [← hS, C14.reduce_scope_exact hs hsc]

/-- **default options** (`includes=True`, `order=False`): the unscoped read determines the scoped read completely -/
theorem C14_read_scope_plain (ev : Str → EvalResult) (fs : FS) (o : ReadOpts) (c : Counter) (p : Comps)
    (hs : o.scope ≠ []) (hi : o.includes = true) (ho : o.order = false) {u : SD} {c' : Counter}
    (hU : readFile ev fs { o with scope := [] } c p = .ok (.ok u c')) :
    readFile ev fs o c p =
      match scopeOf u.data o.scope with
      | some sub => .ok (.ok (SD.clean { u with data := updateD [] sub }) c')
      | none => .ok .exit1 := by
  rw [C14_read_scope_unordered ev fs o c p hs (by simp [FirstKeyOK, hi]) ho, hU]
  simp only [Except.map, scopeStep, hi, dropIncl, if_true]
  cases hsc : scopeOf u.data o.scope with
  | none => simp only [pathExists_false_of_scopeOf_none hsc, Bool.false_eq_true, if_false]
  | some sub => simp only [pathExists_true_of_scopeOf_some hsc, if_true, C14.reduce_scope_exact hs hsc]

/-- … and when the sub-dict has unique keys and no comment / include placeholder keys, the scoped read returns
    **precisely the sub-dict**, side tables as in the unscoped read -/
theorem C14_read_scope_exact_subdict (ev : Str → EvalResult) (fs : FS) (o : ReadOpts) (c : Counter) (p : Comps)
    (hs : o.scope ≠ []) (hi : o.includes = true) (ho : o.order = false) {u : SD} {c' : Counter} {sub : Entries}
    (hU : readFile ev fs { o with scope := [] } c p = .ok (.ok u c'))
    (hsub : scopeOf u.data o.scope = some sub) (hn : NodupKeysV (.dict sub)) (hp : C07.NoPhEs sub) :
    readFile ev fs o c p = .ok (.ok { u with data := sub } c') := by
  rw [C14_read_scope_plain ev fs o c p hs hi ho hU, hsub]
  simp only [C14.updateD_nil_of_nodup hn.1]
  rw [C07.clean_id { u with data := sub } hn hp]

/-- **`order=True`** (includes merged): the ordered scoped read is the ordered unscoped read reduced to the scope, and its
    data is the ordered sub-dict — on the domain of `reduceScope_order_comm` -/
theorem C14_read_scope_ordered (ev : Str → EvalResult) (fs : FS) (o : ReadOpts) (c : Counter) (p : Comps)
    (hs : o.scope ≠ []) (hi : o.includes = true) {u : SD} {c' : Counter} {sub : Entries}
    (hU : readFile ev fs { o with scope := [], order := false } c p = .ok (.ok u c'))
    (hn : NodupKeysV (.dict u.data)) (hsub : scopeOf u.data o.scope = some sub) (hp : C07.NoPhEs sub) :
    readFile ev fs { o with scope := [], order := true } c p = .ok (.ok u.order c') ∧
    readFile ev fs { o with order := true } c p = .ok (.ok (u.order.reduceScope o.scope) c') ∧
    u.order.reduceScope o.scope = { u.order with data := orderD sub } := by
  obtain ⟨inc, ord, com, sc⟩ := o
  simp only at hi hs hU hsub
  subst hi
  obtain ⟨hcomm, h1, h2⟩ := reduceScope_order_comm hs hn hsub hp
  refine ⟨?_, ?_, h2⟩
  · have h := C15.readFile_order_flag ev fs ⟨true, false, com, []⟩ c p
    simp only at h
    rw [h, hU]; rfl
  · have h := read_scope_forward ev fs ⟨true, true, com, sc⟩ c p hs rfl hU hsub
    rw [h, ← hcomm, C14.reduce_scope_exact hs hsub]
    rfl

/-- **C14, a scope that does not exist**: the scoped read ends in `sys.exit(1)`; `read` and `parse` report it and leave
    the world (every file, the counter) as it was: nothing is written -/
theorem C14_read_scope_missing (ev : Str → EvalResult) (w : World) (o : ReadOpts) (p : Comps)
    (hs : o.scope ≠ []) (hk : FirstKeyOK o = true) {u : SD} {c' : Counter}
    (hU : readFile ev w.fs { o with scope := [], order := false } w.c p = .ok (.ok u c'))
    (hm : pathExists u.data o.scope = false) :
    readFile ev w.fs o w.c p = .ok .exit1 ∧
    (apiStep ev w (.read p o)).1 = w ∧ (∀ mode output, (apiStep ev w (.parse p o mode output)).1 = w) ∧
    (∀ b, w.fs.get (resolveSpelled p) = some b →
      apiStep ev w (.read p o) = (w, .exit1) ∧ ∀ mode output, apiStep ev w (.parse p o mode output) = (w, .exit1)) := by
  have hr : readFile ev w.fs o w.c p = .ok .exit1 := by
    rw [C14_read_scope_of_unscoped ev w.fs o w.c p hs hk, hU]
    simp only [Except.map, scopeStep, hm, Bool.false_eq_true, if_false, C15.ReadOut.mapSD]
  have hread : ∀ b, w.fs.get (resolveSpelled p) = some b → apiStep ev w (.read p o) = (w, .exit1) := by
    intro b hg; simp only [apiStep, hg, hr]
  have hparse : ∀ b, w.fs.get (resolveSpelled p) = some b → ∀ mode output, apiStep ev w (.parse p o mode output) = (w, .exit1) := by
    intro b hg mode output; simp only [apiStep, hg, hr]
  refine ⟨hr, ?_, ?_, fun b hg => ⟨hread b hg, hparse b hg⟩⟩
  · apply C13api.step_fail_safe
    cases hg : w.fs.get (resolveSpelled p) with
    | none => simp [apiStep, hg, C13api.Completed]
    | some b => rw [hread b hg]; simp [C13api.Completed]
  · intro mode output
    apply C13api.step_fail_safe
    cases hg : w.fs.get (resolveSpelled p) with
    | none => simp [apiStep, hg, C13api.Completed]
    | some b => rw [hparse b hg]; simp [C13api.Completed]

/-- the same with respect to the dict before ordering and include-key removal (no hypothesis on the scope keys) -/
theorem C14_read_scope_missing_core (ev : Str → EvalResult) (fs : FS) (o : ReadOpts) (c : Counter) (p : Comps)
    (hs : o.scope ≠ []) {sd₀ : SD} {c' : Counter} (hc : readCore ev fs o c p = .ok (sd₀, c'))
    (hm : pathExists sd₀.data o.scope = false) : readFile ev fs o c p = .ok .exit1 := by
  rw [(C14_read_scope ev fs o c p hs).1, hc]
  simp only [Except.map, scopeOut, hm, Bool.false_eq_true, if_false]

/-- **C14 / C13, `parse` with a scope**: when the scope exists, `parse` writes exactly one file — in the folder of the
    source, named `targetName name "parsed" (str(key) for key in scope) output` — and returns the scoped dict with its
    string leaves re-typed (`normEs`: `DictWriter.write` re-types the dict it is given in place); if the
    serialiser gives up, nothing is written. -/
theorem C14_parse_scope_target (ev : Str → EvalResult) (w : World) (o : ReadOpts) (dir : Comps) (name : Str)
    (mode : Str) (output : Option Str) (hs : o.scope ≠ []) (hk : FirstKeyOK o = true) {b : FileBody}
    (hg : w.fs.get (resolveSpelled (dir ++ [name])) = some b) {u : SD} {c' : Counter} {sub : Entries}
    (hU : readFile ev w.fs { o with scope := [], order := false } w.c (dir ++ [name]) = .ok (.ok u c'))
    (hsub : scopeOf u.data o.scope = some sub) :
    parseTarget (dir ++ [name]) o.scope output =
      dir ++ [targetName name (some "parsed".toList) (o.scope.map keyText) output] ∧
    (∀ t c'', writeText ev w.fs (parseTarget (dir ++ [name]) o.scope output) mode o.order (.sd (scopedSD o u sub)) c' = .ok (t, c'') →
      apiStep ev w (.parse (dir ++ [name]) o mode output) =
        ({ fs := w.fs.set (resolveSpelled (parseTarget (dir ++ [name]) o.scope output)) (.native t), c := c'' },
         .data { scopedSD o u sub with data := normEs (scopedSD o u sub).data })) ∧
    (∀ e, writeText ev w.fs (parseTarget (dir ++ [name]) o.scope output) mode o.order (.sd (scopedSD o u sub)) c' = .error e →
      apiStep ev w (.parse (dir ++ [name]) o mode output) = (w, .gaveUp e)) ∧
    (∀ q, q ≠ resolveSpelled (parseTarget (dir ++ [name]) o.scope output) →
      (apiStep ev w (.parse (dir ++ [name]) o mode output)).1.fs.get q = w.fs.get q) := by
  have hr := read_scope_forward ev w.fs o w.c (dir ++ [name]) hs hk hU hsub
  refine ⟨C13api.parse_target_name dir name o.scope output, ?_, ?_, ?_⟩
  · intro t c'' hw
    have := C13api.writeTo_ok (ev := ev) (w := { w with c := c' }) hw
    simp only [apiStep, hg, hr, this]
  · intro e hw
    have := C13api.writeTo_error (ev := ev) (w := { w with c := c' }) hw
    simp only [apiStep, hg, hr, this]
  · intro q hq
    apply C13api.step_frame
    simp only [ApiOp.target, ne_eq, Option.some.injEq]
    exact fun e => hq e.symm

/-! #### C17: word and list spellings of a scope -/

/-- **C17 / D25, general form**: for a word without blanks, brackets and commas, the word form of `--scope` keeps the
    text, the one-element list form types it with `parse_value` -/
theorem scope_word_vs_list {w : Str} (h : PlainWord w) :
    validateScope (some w) = some [.str w] ∧
    validateScope (some ("[".toList ++ w ++ "]".toList)) = some [parseValue w] := by
  have hws : ∀ c ∈ w, isWs c = false := fun c hc => (h c hc).2.2.2
  constructor
  · apply C17.scope_word
    intro r hr
    rw [dropWhile_all_false hws] at hr
    exact (h '[' (hr ▸ List.mem_cons_self)).1 rfl
  · have hcomma : ',' ∉ w := fun hm => (h ',' hm).2.2.1 rfl
    show validateScope (some ('[' :: (w ++ [']']))) = _
    have hd : ('[' :: (w ++ [']'])).dropWhile isWs = '[' :: (w ++ [']']) := by
      rw [List.dropWhile_cons, show isWs '[' = false by decide]; rfl
    simp only [validateScope, hd, stripScopeChars_bracketed h, splitComma_no_comma hcomma, List.map, strip_plain hws]

/-- **C17**: a word that `parse_value` types as a string selects the same scope as a word and as a bracketed list -/
theorem C17_scope_word_list {w : Str} (h : PlainWord w) (hq : ∀ c ∈ w, isQuote c = false) (hp : ∃ s, parseValue w = .str s) :
    validateScope (some w) = some [.str w] ∧
    validateScope (some ("[".toList ++ w ++ "]".toList)) = some [.str w] := by
  obtain ⟨s, hs⟩ := hp
  have := parseValue_str_noquote hq hs
  subst this
  obtain ⟨h1, h2⟩ := scope_word_vs_list h
  exact ⟨h1, by rw [h2, hs]⟩

/-- **finding D25, for every such word**: a word that `parse_value` does *not* keep as the same text (numbers, `true`,
    `none`, …) selects a different scope in the two spellings: `--scope 1` is the key `'1'`, `--scope [1]` the key `1` -/
theorem scope_number_word_vs_list' {w : Str} (h : PlainWord w) (hp : parseValue w ≠ .str w) :
    validateScope (some w) ≠ validateScope (some ("[".toList ++ w ++ "]".toList)) := by
  obtain ⟨h1, h2⟩ := scope_word_vs_list h
  rw [h1, h2]
  intro e
  simp only [Option.some.injEq, List.cons.injEq, and_true] at e
  exact hp e.symm

/-! ### refutations of the literal statements (includes = False) -/

/-- the requested statement read literally, for all options: "the data returned by a scoped read is precisely the content
    of the sub-dict at that path in the unscoped read's data" -/
def ReadScopeDataStatement : Prop :=
  ∀ (fs : FS) (o : ReadOpts) (c : Counter) (p : Comps) (S U : Entries), o.scope ≠ [] →
    dataOf (readFile evalInt fs o c p) = some S →
    dataOf (readFile evalInt fs { o with scope := [] } c p) = some U →
    scopeOf U o.scope = some S

/-- "if the path does not exist in what the unscoped read returns, the scoped read stops" -/
def ReadScopeMissingStatement : Prop :=
  ∀ (fs : FS) (o : ReadOpts) (c : Counter) (p : Comps) (U : Entries), o.scope ≠ [] →
    dataOf (readFile evalInt fs { o with scope := [] } c p) = some U → pathExists U o.scope = false →
    dataOf (readFile evalInt fs o c p) = none

def cexSrc : Comps := ["w".toList, "case".toList]

/-- ```
    a
    {
        #include 'x'
        k 5;
    }
    myINCLUDE0
    {
        q 1;
    }
    ``` (the included file `x` need not exist: includes are not merged) -/
def cexFs : FS := [(cexSrc, .native "a\n{\n    #include 'x'\n    k 5;\n}\nmyINCLUDE0\n{\n    q 1;\n}\n".toList)]

def cexPh : Str := "INCLUDE000000".toList

theorem cex_unscoped : dataOf (readFile evalInt cexFs { includes := false } none cexSrc) =
    some [(.str "a".toList, .dict [(.str cexPh, .leaf (.str cexPh)), (.str "k".toList, .leaf (.int 5))])] := by
  decide +kernel

theorem cex_scoped_a : dataOf (readFile evalInt cexFs { includes := false, scope := [.str "a".toList] } none cexSrc) =
    some [(.str "k".toList, .leaf (.int 5))] := by
  decide +kernel

theorem cex_scoped_incl : dataOf (readFile evalInt cexFs { includes := false, scope := [.str "myINCLUDE0".toList] } none cexSrc) =
    some [(.str "q".toList, .leaf (.int 1))] := by
  decide +kernel

/-- **refutation 1** (`includes=False`, an `#include` directive inside the sub-dict): the scoped read drops the
    placeholder entry `INCLUDE000000` (it is at the top level after `reduce_scope`), the unscoped read keeps it in the
    nested dict (`_remove_include_keys` looks at the top level only) — even the key sets differ -/
theorem C14_read_scope_data_statement_false : ¬ ReadScopeDataStatement := by
  intro h
  have := h cexFs { includes := false, scope := [.str "a".toList] } none cexSrc _ _ (by decide) cex_scoped_a cex_unscoped
  revert this
  decide

/-- **refutation 2** (`includes=False`, a scope key that `INCLUDE[0-9;]+` matches): the unscoped read has deleted the
    whole entry `myINCLUDE0`, the scoped read finds it and returns its content -/
theorem C14_read_scope_missing_statement_false : ¬ ReadScopeMissingStatement := by
  intro h
  have := h cexFs { includes := false, scope := [.str "myINCLUDE0".toList] } none cexSrc _ (by decide) cex_unscoped (by decide)
  rw [cex_scoped_incl] at this
  cases this

/-- the hypothesis `FirstKeyOK` is what fails in refutation 2, and only `includes=False` is affected -/
example : FirstKeyOK { includes := false, scope := [.str "myINCLUDE0".toList] } = false ∧
    FirstKeyOK { includes := false, scope := [.str "a".toList] } = true ∧
    ∀ sc, FirstKeyOK { scope := sc } = true := ⟨by decide, by decide, fun _ => rfl⟩

/-- two block comments with the same text in the sub-dict, ids descending: `_clean` keeps the first one it meets -/
def cexSD : SD :=
  { data := [(.str "a".toList, .dict [(.str "BLOCKCOMMENT000002".toList, .leaf (.str "BLOCKCOMMENT000002".toList)),
                                      (.str "BLOCKCOMMENT000001".toList, .leaf (.str "BLOCKCOMMENT000001".toList))])],
    blockC := [(2, "/* x */".toList), (1, "/* x */".toList)] }

/-- **refutation 3**: on arbitrary SDicts `reduce_scope` and `order_keys` do not commute (`_clean` inside `reduce_scope`
    removes the *second* of two comments with equal text, and ordering changes which one is second).  Not reachable from
    `readFile` as far as is known: a parsed level has been cleaned already. -/
theorem reduceScope_order_comm_false :
    ¬ ∀ (s : SD) (scope : List Key) (sub : Entries), scope ≠ [] → NodupKeysV (.dict s.data) → scopeOf s.data scope = some sub →
      (s.reduceScope scope).order = s.order.reduceScope scope := by
  intro h
  have hn : NodupKeysV (.dict cexSD.data) := by simp [cexSD, NodupKeysV, NodupKeysEs, keys]
  have := congrArg SD.data (h cexSD [.str "a".toList]
    [(.str "BLOCKCOMMENT000002".toList, .leaf (.str "BLOCKCOMMENT000002".toList)),
     (.str "BLOCKCOMMENT000001".toList, .leaf (.str "BLOCKCOMMENT000001".toList))] (by decide) hn (by decide))
  revert this
  decide

/-! ## non-vacuity -/

def exSrc : Comps := ["w".toList, "case".toList]

/-- nested dicts, an int key on the path, a list in the sub-dict -/
def exFs : FS := [(exSrc, .native "a { 1 { k 5; l (1 2); } b 3; }\nz 0;\n".toList)]

def exScope : List Key := [.str "a".toList, .int 1]

def exSub : Entries := [(.str "k".toList, .leaf (.int 5)), (.str "l".toList, .list [.leaf (.int 1), .leaf (.int 2)])]

def exData : Entries :=
  [(.str "a".toList, .dict [(.int 1, .dict exSub), (.str "b".toList, .leaf (.int 3))]), (.str "z".toList, .leaf (.int 0))]

theorem ex_unscoped : dataOf (readFile evalInt exFs {} none exSrc) = some exData := by decide +kernel

/-- the scoped read, evaluated: precisely the sub-dict at `['a'][1]` -/
theorem ex_scoped : dataOf (readFile evalInt exFs { scope := exScope } none exSrc) = some exSub := by decide +kernel

example : scopeOf exData exScope = some exSub ∧ pathExists exData exScope = true := by decide

/-- key text is data: the *string* `'1'` is not the int key `1`, the path does not exist, the read stops -/
example : dataOf (readFile evalInt exFs { scope := [.str "a".toList, .str "1".toList] } none exSrc) = none ∧
    pathExists exData [.str "a".toList, .str "1".toList] = false := by decide +kernel

/-- `C14_read_scope_exact_subdict` instantiated on the file: all hypotheses hold -/
example : ∃ u c', readFile evalInt exFs {} none exSrc = .ok (.ok u c') ∧ u.data = exData ∧
    readFile evalInt exFs { scope := exScope } none exSrc = .ok (.ok { u with data := exSub } c') := by
  obtain ⟨u, c', h, hd⟩ := exists_of_dataOf ex_unscoped
  refine ⟨u, c', h, hd, ?_⟩
  exact C14_read_scope_exact_subdict evalInt exFs { scope := exScope } none exSrc (by decide) rfl rfl h
    (by rw [hd]; decide) (by simp [exSub, NodupKeysV, NodupKeysEs, NodupKeysXs, keys])
    (by simp [exSub, C07.NoPhEs, C07.NoPhV, C07.isPhKey]; decide)

/-- a JSON file whose keys contain quotes and brackets: the key text is compared, never interpreted -/
def exJSrc : Comps := ["w".toList, "c.json".toList]
def exJKey : Str := "q'[x]\"".toList
def exJFs : FS :=
  [(exJSrc, .json [(.str "a".toList, .dict [(.str exJKey, .dict [(.str "k".toList, .leaf (.int 5))]), (.str "q".toList, .dict [])])])]

example : dataOf (readFile evalInt exJFs { scope := [.str "a".toList, .str exJKey] } none exJSrc) =
    some [(.str "k".toList, .leaf (.int 5))] := by decide +kernel

/-- a prefix of the key text (`q`) is another key -/
example : dataOf (readFile evalInt exJFs { scope := [.str "a".toList, .str "q".toList] } none exJSrc) = some [] := by
  decide +kernel

/-- ordered scoped read: the ordered sub-dict -/
example : dataOf (readFile evalInt exFs { scope := [.str "a".toList], order := true } none exSrc) =
    some [(.int 1, .dict exSub), (.str "b".toList, .leaf (.int 3))] := by decide +kernel

/-! #### the API: a missing scope writes nothing, an existing scope writes `parsed.case_a_1` -/

def exWorld : World := { fs := exFs }

def outTag : ApiOut → Nat
  | .data _ => 0 | .done => 1 | .exit1 => 2 | .notFound => 3 | .gaveUp _ => 4

example : outTag (apiStep evalInt exWorld (.parse exSrc { scope := [.str "a".toList, .int 2] } ['w'] none)).2 = 2 ∧
    C13api.paths (apiStep evalInt exWorld (.parse exSrc { scope := [.str "a".toList, .int 2] } ['w'] none)).1.fs = [exSrc] := by
  decide +kernel

def exTarget : Comps := ["w".toList, "parsed.case_a_1".toList]

example : parseTarget exSrc exScope none = exTarget := by decide +kernel

theorem ex_parse :
    outTag (apiStep evalInt exWorld (.parse exSrc { scope := exScope } ['w'] none)).2 = 0 ∧
    C13api.paths (apiStep evalInt exWorld (.parse exSrc { scope := exScope } ['w'] none)).1.fs = [exSrc, exTarget] := by
  decide +kernel

/-- `C14_read_scope_missing` instantiated: the scope `['a'][2]` does not exist, `read` and `parse` leave the world alone -/
example : apiStep evalInt exWorld (.read exSrc { scope := [.str "a".toList, .int 2] }) = (exWorld, .exit1) ∧
    ∀ mode output, apiStep evalInt exWorld (.parse exSrc { scope := [.str "a".toList, .int 2] } mode output) = (exWorld, .exit1) := by
  obtain ⟨u, c', h, hd⟩ := exists_of_dataOf ex_unscoped
  exact (C14_read_scope_missing evalInt exWorld { scope := [.str "a".toList, .int 2] } exSrc (by decide) rfl h
    (by rw [hd]; decide)).2.2.2 (.native _) rfl

/-- `C14_parse_scope_target` instantiated: the target of `parse(case, scope=['a', 1])` is `parsed.case_a_1` in the same
    folder, every other path is untouched, and what is returned is the dict reduced to the sub-dict -/
example : ∃ u c', u.data = exData ∧
    parseTarget (["w".toList] ++ ["case".toList]) exScope none = ["w".toList] ++ ["parsed.case_a_1".toList] ∧
    (scopedSD { scope := exScope } u exSub).data = exSub ∧
    (∀ t c'', writeText evalInt exWorld.fs exTarget ['w'] false (.sd (scopedSD { scope := exScope } u exSub)) c' = .ok (t, c'') →
      apiStep evalInt exWorld (.parse exSrc { scope := exScope } ['w'] none) =
        ({ fs := exWorld.fs.set (resolveSpelled exTarget) (.native t), c := c'' },
         .data { scopedSD { scope := exScope } u exSub with data := exSub })) := by
  obtain ⟨u, c', h, hd⟩ := exists_of_dataOf ex_unscoped
  have hsub : scopeOf u.data exScope = some exSub := by rw [hd]; decide
  obtain ⟨h1, h2, _, _⟩ := C14_parse_scope_target evalInt exWorld { scope := exScope } ["w".toList] "case".toList ['w'] none
    (by decide) rfl (b := .native _) rfl h hsub
  have htn : targetName "case".toList (some "parsed".toList) (exScope.map keyText) none = "parsed.case_a_1".toList := by
    decide +kernel
  have hdata : (scopedSD { scope := exScope } u exSub).data = exSub := by
    have hn : NodupKeysV (.dict exSub) := by simp [exSub, NodupKeysV, NodupKeysEs, NodupKeysXs, keys]
    have hp : C07.NoPhEs exSub := by simp [exSub, C07.NoPhEs, C07.NoPhV, C07.isPhKey]; decide
    simp only [scopedSD, ordIf, dropIncl, Bool.false_eq_true, if_false, if_true, C14.updateD_nil_of_nodup hn.1]
    rw [C07.clean_id { u with data := exSub } hn hp]
  refine ⟨u, c', hd, by rw [h1, htn], hdata, ?_⟩
  · intro t c'' hw
    have hpt : parseTarget (["w".toList] ++ ["case".toList]) exScope none = exTarget := by rw [h1, htn]; rfl
    rw [hpt] at h2
    have h3 := h2 t c'' hw
    rw [hdata, show normEs exSub = exSub by decide +kernel] at h3
    exact h3

/-! #### C17 -/

example : PlainWord "abc".toList ∧ (∀ c ∈ "abc".toList, isQuote c = false) ∧ parseValue "abc".toList = .str "abc".toList := by
  decide

example : validateScope (some "abc".toList) = some [.str "abc".toList] ∧
    validateScope (some "[abc]".toList) = some [.str "abc".toList] :=
  C17_scope_word_list (by decide) (by decide) ⟨_, (by decide : parseValue "abc".toList = .str "abc".toList)⟩

example : validateScope (some "12".toList) ≠ validateScope (some "[12]".toList) :=
  scope_number_word_vs_list' (by decide) (by decide)

/-
#print axioms C14_read_scope
#print axioms C14_read_scope_errors
#print axioms C14_read_scope_unordered
#print axioms C14_read_scope_of_unscoped
#print axioms C14_read_scope_data
#print axioms C14_read_scope_data_core
#print axioms C14_read_scope_plain
#print axioms C14_read_scope_exact_subdict
#print axioms C14_read_scope_ordered
#print axioms reduceScope_order_comm
#print axioms C14_read_scope_missing
#print axioms C14_read_scope_missing_core
#print axioms C14_parse_scope_target
#print axioms C17_scope_word_list
#print axioms scope_word_vs_list
#print axioms scope_number_word_vs_list'
#print axioms C14_read_scope_data_statement_false
#print axioms C14_read_scope_missing_statement_false
#print axioms reduceScope_order_comm_false
-- all of them: [propext, Classical.choice, Quot.sound] or a subset
-/

end C14read
end DictIO
