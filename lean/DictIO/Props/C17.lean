/-
  C17 -- the dictParser command line does exactly what the API does.
  `Gen.apiArgs` and `Gen.optionTable` are regenerated from the running code on every check
  (`harness/extract_cli.py`): a polarity or wiring change in `main()` changes `apiArgs` and breaks `cli_calls_api`.
  argparse (argv ↦ Namespace), process start-up and logging set-up are not modelled (correspondence only).
-/
import DictIO.Model.Cli

namespace DictIO.C17
open DictIO DictIO.Gen

/-- the documented wiring of the flags: `-I` switches include merging *off*, `-C` comments *off*, the rest is
    passed through, the scope text goes through `_validate_scope` -/
theorem cli_calls_api (ns : Namespace) :
    apiArgs ns =
      { sourceFile := ns.dict, includes := !ns.ignoreIncludes, mode := ns.mode, order := ns.order,
        comments := !ns.ignoreComments, scope := .validated ns.scope, output := ns.output } := rfl

/-- polarity spelled out: without `-I` includes are merged, with it they are not (same for `-C`) -/
theorem cli_polarity (ns : Namespace) :
    ((apiArgs ns).includes = true ↔ ns.ignoreIncludes = false) ∧ ((apiArgs ns).comments = true ↔ ns.ignoreComments = false) := by
  cases h1 : ns.ignoreIncludes <;> cases h2 : ns.ignoreComments <;> simp [apiArgs, h1, h2]

/-- console and log options do not influence what is parsed or written -/
theorem cli_logging_irrelevant (ns : Namespace) (q v : Bool) (l : Option String) (ll : String) :
    apiArgs { ns with quiet := q, verbose := v, log := l, logLevel := ll } = apiArgs ns := rfl

/-- the option table is exactly the documented one: flags, destinations, defaults, choices -/
theorem option_table :
    optionTable = [
      ([], "dict", "_StoreAction", "None", []),
      (["-I", "--ignore-includes"], "ignore_includes", "_StoreTrueAction", "False", []),
      (["--mode"], "mode", "_StoreAction", "'w'", ["a", "w"]),
      (["--order"], "order", "_StoreTrueAction", "False", []),
      (["-C", "--ignore-comments"], "ignore_comments", "_StoreTrueAction", "False", []),
      (["--scope"], "scope", "_StoreAction", "None", []),
      (["-o", "--output"], "output", "_StoreAction", "'cpp'", ["cpp", "foam", "xml", "json"]),
      (["-q", "--quiet"], "quiet", "_StoreTrueAction", "False", []),
      (["-v", "--verbose"], "verbose", "_StoreTrueAction", "False", []),
      (["--log"], "log", "_StoreAction", "None", []),
      (["--log-level"], "log_level", "_StoreAction", "'WARNING'", ["DEBUG", "INFO", "WARNING", "ERROR", "CRITICAL"])] := rfl

/-- the mode and output options only accept what the API understands -/
theorem option_choices_valid :
    (optionTable.find? (·.2.1 == "mode")).map (·.2.2.2.2) = some ["a", "w"] ∧
    (optionTable.find? (·.2.1 == "output")).map (·.2.2.2.2) = some ["cpp", "foam", "xml", "json"] := by decide

/-- a scope given as a plain word is one key, kept as text -/
theorem scope_word (w : Str) (h : ∀ r, w.dropWhile isWs ≠ '[' :: r) :
    validateScope (some w) = some [.str w] := by
  unfold validateScope
  cases hw : w.dropWhile isWs with
  | nil => simp [hw]
  | cons c r =>
    by_cases hc : c = '['
    · exact absurd (hc ▸ hw) (h r)
    · simp only [hw]
      split
      · rename_i r' heq
        cases heq
        exact absurd rfl hc
      · rfl

/-- nothing given: no scope -/
theorem scope_none : validateScope none = none := rfl

/-! #### known finding D25 (negative result, proved): a numeric scope is typed only in the list form -/

theorem scope_number_word_vs_list :
    validateScope (some "1".toList) = some [.str "1".toList] ∧ validateScope (some "[1]".toList) = some [.int 1] := by
  decide

/-! #### non-vacuity -/

example : validateScope (some "[ a , b ]".toList) = some [.str "a".toList, .str "b".toList] := by decide
example : validateScope (some "['a', \"b c\"]".toList) = some [.str "a".toList, .str "b c".toList] := by decide
example : apiArgs { dict := "f", ignoreIncludes := true, mode := "a", order := true, ignoreComments := false, scope := some "x",
                    output := "json", quiet := false, verbose := true, log := none, logLevel := "INFO" }
    = { sourceFile := "f", includes := false, mode := "a", order := true, comments := true, scope := .validated (some "x"), output := "json" } := rfl

end DictIO.C17
