/-
  C05 -- References and expressions: `DictReader._resolve_reference`, `DictReader._eval_expressions` (dict_reader.py).
  Model: `resolveRef`, `substRefFuel`, `evalPass`, `resolveAll`, `evalExpressions`, the integer instance `evalInt` of
  Python's `eval` (`etokenize`, `pExpr` …) (Model/Reader.lean).
  Single file: helper lemmas, the property theorems (a)–(f), non-vacuity examples.

  What is proved (all without extra hypotheses unless stated):

  (b) prefix independence, fix D11  (`re.sub(re.escape(ref) + r"(?!\w)", …)`):
      `C05_prefix_independent`    a match of `ref` that is followed by a word character is *not* rewritten: its first
                                  character is copied and the scan goes on behind it;
      `C05_longer_ref_untouched`  … and, when the first character of `ref` (the `$`) does not occur again in the longer
                                  reference, the whole longer reference is copied verbatim (hypothesis `c ∉ pre`: true for
                                  every reference, whose only `$` is its first character; fuel ≥ the copied length);
      `C05_subst_hit`             a match followed by a non-word character or by the end is replaced;
      `C05_D11_regression`, `C05_prefix_kept`   `$a ↦ 1`, `$ab ↦ 20` on `"$a + $ab"` is `"1 + 20"` in either order;
                                  `$a` in `"$ab"` is never replaced (any replacement text).
  (c) literal insertion, fix D10: `C05_subst_hit` inserts `repl` as it is, for every `repl`;
      `C05_literal_insertion` checks `\1`, `\g<0>`, `$`, `$a` (not rescanned) as replacement texts.
  (e) unresolvable references terminate and stay text:
      `C05_dangling`, `C05_visited`   `resolveRef` answers `None` for a name that is no variable / that is being resolved;
      `C05_cycle_terminates`          `a $b; b $a;` : `None`;  `C05_cycle_end_to_end` the file reads back as it was written;
      `C05_dangling_stays_text`       `t $zz;` ends as the string `"$zz"`;
      `evalExpressions_exprs_nil`     on success the table of pending expressions is empty.
      (`evalExpressions` is a total function: a structurally recursive, fuel-bounded loop -- termination is by construction.)
  (a) the integer evaluator is correct:
      `C05_evalInt_correct`       for every expression tree `e` over `+ - *`, unary `+ -` and decimal literals,
                                  `evalInt (render e) = den e`, `render` fully parenthesised;
      `C05_evalInt_correct_top`   the same with the outermost parentheses left out (`renderTop`);
      `C05_evalInt_number`        `evalInt (str n) = n`;
      `C05_evalInt_examples`      precedence, left associativity, unary chains, and what is outside the language
                                  (`**`, `007`, `1.5`, `1e3`, `1_0`, `0x10`, `/`, names, the empty text): `unsupported`.
      Intermediate: `etokenize_render` (tokenizer), `pUnary_toks` (parser, explicit fuel bound `cost e ≤ 4 * #tokens`).
  (d) plain reference = value, fix D34:
      `C05_plain_ref_takes_value` in `evalPass`, an entry whose text is exactly one resolved reference puts the resolved
                                  value -- of any type -- in place of its placeholder and leaves the table;
      `C05_plain_ref_example`, `C05_plain_ref_list`, `C05_plain_ref_end_to_end`   `s 'e'; t $s;` gives `t = 'e'`
                                  (the last one through `readFile`, i.e. the whole native parser, by kernel evaluation).
  (f) `C05_complete_acyclic_statement` : Prop  -- stated, not proved; decided by the correspondence check.
      `exSD_acyclicFlat`, `exSD_topo`, `exSD_eval` show that its hypotheses are satisfiable and that specification and
      model agree on an example with a chain of three dependent expressions.
-/
import DictIO.Model.Reader
import DictIO.Props.C04

namespace DictIO.C05
open DictIO

/-! ## (b), (c) `substRefFuel`: prefix independence and literal insertion -/

/-- the look-ahead `(?!\w)`: the text is at its end, or its first character is no word character -/
def boundaryOk : Str → Bool
  | [] => true
  | x :: _ => !isWordChar x

/-- one step of the scan -/
theorem substRefFuel_cons (ref repl : Str) (fuel : Nat) (c : Char) (r : Str) :
    substRefFuel ref repl (fuel + 1) (c :: r) =
      if ref.isPrefixOf (c :: r) && !ref.isEmpty && boundaryOk ((c :: r).drop ref.length) then
        repl ++ substRefFuel ref repl fuel ((c :: r).drop ref.length)
      else c :: substRefFuel ref repl fuel r := by
  simp only [substRefFuel, boundaryOk]
  rfl

theorem drop_len_append (a b : Str) : (a ++ b).drop a.length = b := by simp

theorem isPrefixOf_append (a b : Str) : a.isPrefixOf (a ++ b) = true := by simp

/-- (b) a reference followed by a word character is the beginning of a *longer* reference: nothing is replaced at
    this position, the first character is copied and the scan continues behind it -/
theorem C05_prefix_independent (c : Char) (ref' repl : Str) (fuel : Nat) (x : Char) (rest : Str)
    (hx : isWordChar x = true) :
    substRefFuel (c :: ref') repl (fuel + 1) ((c :: ref') ++ x :: rest)
      = c :: substRefFuel (c :: ref') repl fuel (ref' ++ x :: rest) := by
  have hd : ((c :: ref') ++ x :: rest).drop (c :: ref').length = x :: rest := drop_len_append _ _
  rw [List.cons_append] at hd ⊢
  rw [substRefFuel_cons, hd]
  simp [boundaryOk, hx]

/-- text free of the first character of the reference is copied (no match can start inside it) -/
theorem substRefFuel_skip (c : Char) (ref' repl : Str) : ∀ (pre rest : Str) (fuel : Nat), c ∉ pre → pre.length ≤ fuel →
    substRefFuel (c :: ref') repl fuel (pre ++ rest) = pre ++ substRefFuel (c :: ref') repl (fuel - pre.length) rest
  | [], rest, fuel, _, _ => by simp
  | y :: pre, rest, fuel, hc, hf => by
    obtain ⟨f', rfl⟩ : ∃ f', fuel = f' + 1 := ⟨fuel - 1, by simp at hf; omega⟩
    have hy : ¬ c = y := fun e => hc (by simp [e])
    have hpre : c ∉ pre := fun hm => hc (List.mem_cons_of_mem _ hm)
    simp only [List.length_cons] at hf
    rw [List.cons_append, substRefFuel_cons]
    simp [List.isPrefixOf, hy, substRefFuel_skip c ref' repl pre rest f' hpre (by omega)]

/-- (b) the longer reference `c :: ref' ++ x :: more` (with `x` a word character) is copied as a whole when the scan
    for the shorter reference `c :: ref'` passes over it.  Hypothesis `c ∉ ref' ++ x :: more`: the first character of
    the reference (the `$`) occurs only there -- true of every match of `\$\w[\w\[\]]*`. -/
theorem C05_longer_ref_untouched (c : Char) (ref' repl : Str) (fuel : Nat) (x : Char) (more rest : Str)
    (hx : isWordChar x = true) (hc : c ∉ ref' ++ x :: more) (hf : (ref' ++ x :: more).length ≤ fuel) :
    substRefFuel (c :: ref') repl (fuel + 1) ((c :: ref') ++ x :: more ++ rest)
      = (c :: ref') ++ x :: more ++ substRefFuel (c :: ref') repl (fuel - (ref' ++ x :: more).length) rest := by
  have h1 := C05_prefix_independent c ref' repl fuel x (more ++ rest) hx
  have h2 := substRefFuel_skip c ref' repl (ref' ++ x :: more) rest fuel hc hf
  simp only [List.cons_append, List.append_assoc] at h1 h2 ⊢
  rw [h1, h2]

/-- (b), (c) a reference followed by a non-word character, or by the end of the text, is replaced -- and the
    replacement text is inserted exactly as it is, whatever characters it contains (fix D10) -/
theorem C05_subst_hit (ref repl : Str) (fuel : Nat) (rest : Str) (hne : ref ≠ [])
    (hb : boundaryOk rest = true) :
    substRefFuel ref repl (fuel + 1) (ref ++ rest) = repl ++ substRefFuel ref repl fuel rest := by
  cases ref with
  | nil => exact absurd rfl hne
  | cons c ref' =>
    have hd : ((c :: ref') ++ rest).drop (c :: ref').length = rest := drop_len_append _ _
    have hp : (c :: ref').isPrefixOf ((c :: ref') ++ rest) = true := isPrefixOf_append _ _
    rw [List.cons_append] at hd hp ⊢
    rw [substRefFuel_cons, hd, hp, hb]
    simp

/-- the two forms the task names: end of text, or a non-word character next -/
theorem C05_subst_hit_end (ref repl : Str) (fuel : Nat) (hne : ref ≠ []) :
    substRefFuel ref repl (fuel + 1) ref = repl := by
  have := C05_subst_hit ref repl fuel [] hne rfl
  rw [List.append_nil] at this
  rw [this]
  cases fuel <;> simp [substRefFuel]

theorem C05_subst_hit_nonword (ref repl : Str) (fuel : Nat) (x : Char) (rest : Str) (hne : ref ≠ [])
    (hx : isWordChar x = false) :
    substRefFuel ref repl (fuel + 1) (ref ++ x :: rest) = repl ++ substRefFuel ref repl fuel (x :: rest) :=
  C05_subst_hit ref repl fuel (x :: rest) hne (by simp [boundaryOk, hx])

/-- the text of the scan, with the fuel `evalPass` gives it -/
def substRef (ref repl s : String) : Str := substRefFuel ref.toList repl.toList (s.length + 1) s.toList

/-- (b) the D11 regression: `$a ↦ 1`, `$ab ↦ 20` in `"$a + $ab"`, in either order -/
theorem C05_D11_regression :
    substRefFuel "$ab".toList "20".toList 9 (substRefFuel "$a".toList "1".toList 9 "$a + $ab".toList) = "1 + 20".toList ∧
    substRefFuel "$a".toList "1".toList 9 (substRefFuel "$ab".toList "20".toList 9 "$a + $ab".toList) = "1 + 20".toList := by
  decide +kernel

theorem isWordChar_b : isWordChar 'b' = true := by decide

/-- (b) `$a` never matches inside `$ab`, whatever would be inserted -/
theorem C05_prefix_kept (repl : Str) : substRefFuel "$a".toList repl 4 "$ab".toList = "$ab".toList := by
  simp [substRefFuel, isWordChar_b]

/-- (c) replacement texts that `re.sub` would have interpreted as templates are inserted literally; an inserted `$a`
    is not scanned again -/
theorem C05_literal_insertion :
    substRef "$a" "\\1" "$a + 1" = "\\1 + 1".toList ∧
    substRef "$a" "\\g<0>" "$a+$a" = "\\g<0>+\\g<0>".toList ∧
    substRef "$a" "$" "2*$a" = "2*$".toList ∧
    substRef "$a" "$a " "$a $a" = "$a  $a ".toList ∧
    substRef "$a[0]" "\\\\" "$a[0]" = "\\\\".toList := by
  decide +kernel

/-! ## (e) unresolvable references -/

theorem takeWhile_ne_of_not_mem (c : Char) : ∀ (s : Str), c ∉ s → s.takeWhile (· != c) = s
  | [], _ => rfl
  | x :: s, h => by
    have hx : x ≠ c := fun e => h (by simp [e])
    have hs : c ∉ s := fun hm => h (List.mem_cons_of_mem _ hm)
    simp [hx, takeWhile_ne_of_not_mem c s hs]

theorem dropWhile_ne_of_not_mem (c : Char) : ∀ (s : Str), c ∉ s → s.dropWhile (· != c) = []
  | [], _ => rfl
  | x :: s, h => by
    have hx : x ≠ c := fun e => h (by simp [e])
    have hs : c ∉ s := fun hm => h (List.mem_cons_of_mem _ hm)
    simp [hx, dropWhile_ne_of_not_mem c s hs]

/-- (`Resolved` has no decidable equality) -/
def Resolved.isNone : Resolved → Bool
  | .none => true
  | _ => false

theorem Resolved.eq_none_of_isNone {r : Resolved} (h : Resolved.isNone r = true) : r = .none := by
  cases r <;> simp [Resolved.isNone] at h ⊢

/-- (e) a dangling reference (the name is no variable) resolves to `None` at once -/
theorem C05_dangling (vars : List (Str × Val)) (fuel : Nat) (visited : List Str) (name : Str)
    (hb : '[' ∉ name) (hv : getVar name vars = none) :
    resolveRef vars (fuel + 1) visited ('$' :: name) = .none := by
  unfold resolveRef
  simp only [takeWhile_ne_of_not_mem _ _ hb, dropWhile_ne_of_not_mem _ _ hb, hv]
  simp

/-- (e) the cycle guard: a name that is already being resolved resolves to `None` at once -/
theorem C05_visited (vars : List (Str × Val)) (fuel : Nat) (visited : List Str) (name : Str)
    (hb : '[' ∉ name) (hv : visited.contains name = true) :
    resolveRef vars (fuel + 1) visited ('$' :: name) = .none := by
  unfold resolveRef
  simp only [takeWhile_ne_of_not_mem _ _ hb, dropWhile_ne_of_not_mem _ _ hb, hv]
  simp

/-- out of fuel is `None`, too: `resolveRef` is total -/
theorem C05_resolve_no_fuel (vars : List (Str × Val)) (visited : List Str) (r : Str) :
    resolveRef vars 0 visited r = .none := by
  unfold resolveRef; rfl

/-- `a $b; b $a;` -/
def cycVars : List (Str × Val) := [("a".toList, .leaf (.str "$b".toList)), ("b".toList, .leaf (.str "$a".toList))]

/-- (e) a reference cycle terminates with `None` (fuel = number of variables + 1, as `resolveAll` gives it) -/
theorem C05_cycle_terminates : resolveRef cycVars 3 [] "$a".toList = .none :=
  Resolved.eq_none_of_isNone (by decide +kernel)

/-- (e) `evalExpressions` is a total function (the loop is bounded by the number of pending expressions + 2; every
    pass is a fold over the table): termination needs no proof.  What it leaves behind on success is an empty table. -/
theorem evalExpressions_exprs_nil (ev : Str → EvalResult) (s s' : SD) (h : evalExpressions ev s = .ok s') :
    s'.exprs = [] := by
  unfold evalExpressions at h
  simp only [bind, Except.bind, pure, Except.pure] at h
  split at h
  · cases h
  · split at h
    · cases h
    · split at h
      · cases h
      · cases h; rfl

def dataOf : Except ParseErr SD → Option Entries
  | .ok s => some s.data
  | .error _ => none

def readData : Except ParseErr ReadOut → Option Entries
  | .ok (.ok s _) => some s.data
  | _ => none

/-- the one-file file system `/d/f` -/
def oneFile (text : String) : FS := [(["d".toList, "f".toList], .native text.toList)]

def readOne (text : String) : Option Entries := readData (readFile evalInt (oneFile text) {} none ["d".toList, "f".toList])

/-- `t $zz;` as the native parser hands it over -/
def danglingSD : SD :=
  { data := [(.str "t".toList, .leaf (.str "EXPRESSION000000".toList))],
    exprs := [(0, ⟨"$zz".toList, "EXPRESSION000000".toList⟩)] }

/-- (e) a dangling reference stays in the data as its text -/
theorem C05_dangling_stays_text :
    dataOf (evalExpressions evalInt danglingSD) = some [(.str "t".toList, .leaf (.str "$zz".toList))] := by
  decide +kernel

/-- (e) the same through the whole reader, and a reference cycle read from a file: both come back as text -/
theorem C05_dangling_end_to_end : readOne "t $zz;" = some [(.str "t".toList, .leaf (.str "$zz".toList))] := by
  decide +kernel

theorem C05_cycle_end_to_end :
    readOne "a $b; b $a;" = some [(.str "a".toList, .leaf (.str "$b".toList)), (.str "b".toList, .leaf (.str "$a".toList))] := by
  decide +kernel

/-- (b) once more, through the whole reader: `c "$a + $ab"` with `a 1; ab 20;` -/
theorem C05_D11_end_to_end :
    readOne "a 1; ab 20; c \"$a + $ab\";"
      = some [(.str "a".toList, .leaf (.int 1)), (.str "ab".toList, .leaf (.int 20)), (.str "c".toList, .leaf (.int 21))] := by
  decide +kernel

/-! ## (a) the integer evaluator -/

/-- expression trees of the integer language -/
inductive IExpr where
  | num (n : Nat)
  | neg (e : IExpr)
  | pos (e : IExpr)
  | add (a b : IExpr)
  | sub (a b : IExpr)
  | mul (a b : IExpr)
  deriving Repr

namespace IExpr

/-- the value -/
def den : IExpr → Int
  | num n => n
  | neg e => - den e
  | pos e => den e
  | add a b => den a + den b
  | sub a b => den a - den b
  | mul a b => den a * den b

/-- the text: numbers as `str(n)`, every operation in parentheses -/
def render : IExpr → Str
  | num n => natDigits n
  | neg e => '(' :: '-' :: render e ++ [')']
  | pos e => '(' :: '+' :: render e ++ [')']
  | add a b => '(' :: render a ++ ' ' :: '+' :: ' ' :: render b ++ [')']
  | sub a b => '(' :: render a ++ ' ' :: '-' :: ' ' :: render b ++ [')']
  | mul a b => '(' :: render a ++ ' ' :: '*' :: ' ' :: render b ++ [')']

/-- the same without the outermost pair of parentheses -/
def renderTop : IExpr → Str
  | num n => natDigits n
  | neg e => '-' :: render e
  | pos e => '+' :: render e
  | add a b => render a ++ ' ' :: '+' :: ' ' :: render b
  | sub a b => render a ++ ' ' :: '-' :: ' ' :: render b
  | mul a b => render a ++ ' ' :: '*' :: ' ' :: render b

/-- the tokens of `render e` -/
def toks : IExpr → List ETok
  | num n => [.num n]
  | neg e => .lp :: .minus :: toks e ++ [.rp]
  | pos e => .lp :: .plus :: toks e ++ [.rp]
  | add a b => .lp :: toks a ++ .plus :: toks b ++ [.rp]
  | sub a b => .lp :: toks a ++ .minus :: toks b ++ [.rp]
  | mul a b => .lp :: toks a ++ .times :: toks b ++ [.rp]

/-- the tokens of `renderTop e` -/
def toksTop : IExpr → List ETok
  | num n => [.num n]
  | neg e => .minus :: toks e
  | pos e => .plus :: toks e
  | add a b => toks a ++ .plus :: toks b
  | sub a b => toks a ++ .minus :: toks b
  | mul a b => toks a ++ .times :: toks b

/-- fuel that suffices for `pUnary` on `toks e` -/
def cost : IExpr → Nat
  | num _ => 1
  | neg e => cost e + 4
  | pos e => cost e + 4
  | add a b => cost a + cost b + 4
  | sub a b => cost a + cost b + 4
  | mul a b => cost a + cost b + 4

end IExpr
open IExpr

/-! #### the tokenizer -/

/-- `s` is read as `ts` with any sufficient fuel -/
def Tok (s : Str) (ts : List ETok) : Prop := ∀ f, s.length + 1 ≤ f → etokenizeFuel f s = some ts

def isD (x : Char) : Bool := decide ('0' ≤ x ∧ x ≤ '9')

/-- what may follow a decimal literal: the end, or a character that neither continues nor spoils it -/
def numStop : Str → Bool
  | [] => true
  | x :: _ => !(isD x || x == '.' || x == 'e' || x == 'E' || x == '_' || x == 'j' || x == 'x' || x == 'o' || x == 'b')

theorem Tok.nil : Tok [] [] := by
  intro f hf
  obtain ⟨f', rfl⟩ : ∃ f', f = f' + 1 := ⟨f - 1, by simp at hf; omega⟩
  rfl

theorem Tok.nil_inv {ts : List ETok} (h : Tok [] ts) : ts = [] := by
  have := h 1 (by simp)
  simpa [etokenizeFuel] using this.symm

theorem Tok.space {r : Str} {ts : List ETok} (h : Tok r ts) : Tok (' ' :: r) ts := by
  intro f hf
  obtain ⟨f', rfl⟩ : ∃ f', f = f' + 1 := ⟨f - 1, by simp at hf; omega⟩
  simp only [List.length_cons] at hf
  simp [etokenizeFuel, h f' (by omega)]

theorem Tok.plus {r : Str} {ts : List ETok} (h : Tok r ts) : Tok ('+' :: r) (.plus :: ts) := by
  intro f hf
  obtain ⟨f', rfl⟩ : ∃ f', f = f' + 1 := ⟨f - 1, by simp at hf; omega⟩
  simp only [List.length_cons] at hf
  simp [etokenizeFuel, h f' (by omega)]

theorem Tok.minus {r : Str} {ts : List ETok} (h : Tok r ts) : Tok ('-' :: r) (.minus :: ts) := by
  intro f hf
  obtain ⟨f', rfl⟩ : ∃ f', f = f' + 1 := ⟨f - 1, by simp at hf; omega⟩
  simp only [List.length_cons] at hf
  simp [etokenizeFuel, h f' (by omega)]

theorem Tok.lp {r : Str} {ts : List ETok} (h : Tok r ts) : Tok ('(' :: r) (.lp :: ts) := by
  intro f hf
  obtain ⟨f', rfl⟩ : ∃ f', f = f' + 1 := ⟨f - 1, by simp at hf; omega⟩
  simp only [List.length_cons] at hf
  simp [etokenizeFuel, h f' (by omega)]

theorem Tok.rp {r : Str} {ts : List ETok} (h : Tok r ts) : Tok (')' :: r) (.rp :: ts) := by
  intro f hf
  obtain ⟨f', rfl⟩ : ∃ f', f = f' + 1 := ⟨f - 1, by simp at hf; omega⟩
  simp only [List.length_cons] at hf
  simp [etokenizeFuel, h f' (by omega)]

/-- `* ` : a product sign followed by a blank (not `**`) -/
theorem Tok.times {r : Str} {ts : List ETok} (h : Tok r ts) : Tok ('*' :: ' ' :: r) (.times :: ts) := by
  intro f hf
  obtain ⟨f', rfl⟩ : ∃ f', f = f' + 1 := ⟨f - 1, by simp at hf; omega⟩
  simp only [List.length_cons] at hf
  simp [etokenizeFuel, h.space f' (by simp only [List.length_cons]; omega)]

theorem asciiDigit_facts : ∀ c, C04.IsAsciiDigit c →
    c ≠ ' ' ∧ c ≠ '+' ∧ c ≠ '-' ∧ c ≠ '*' ∧ c ≠ '(' ∧ c ≠ ')' ∧ ('0' ≤ c ∧ c ≤ '9') := by
  unfold C04.IsAsciiDigit; decide

theorem isD_of_ascii {c : Char} (h : C04.IsAsciiDigit c) : isD c = true := by
  simp [isD, (asciiDigit_facts c h).2.2.2.2.2.2]

/-- the text is at its end or its first character fails `p` -/
def headFails (p : Char → Bool) : Str → Bool
  | [] => true
  | x :: _ => !p x

theorem takeWhile_stop (p : Char → Bool) : ∀ (a b : Str), (∀ x ∈ a, p x = true) →
    headFails p b = true → (a ++ b).takeWhile p = a ∧ (a ++ b).dropWhile p = b
  | [], [], _, _ => ⟨rfl, rfl⟩
  | [], x :: b, _, h => by
    have : p x = false := by simpa [headFails] using h
    simp [this]
  | y :: a, b, ha, h => by
    have hy : p y = true := ha y List.mem_cons_self
    obtain ⟨h1, h2⟩ := takeWhile_stop p a b (fun x hx => ha x (List.mem_cons_of_mem _ hx)) h
    simp [hy, h1, h2]

theorem numStop_isD {rest : Str} (h : numStop rest = true) : headFails isD rest = true := by
  cases rest with
  | nil => rfl
  | cons x r =>
    simp only [numStop, Bool.not_eq_true', Bool.or_eq_false_iff] at h
    simp [headFails, h.1.1.1.1.1.1.1.1]

theorem ofNat_ne_zero : ∀ k, k < 10 → 0 < k → Char.ofNat (48 + k) ≠ '0' := by decide

/-- `str(n)` has no leading zero -/
theorem natDigits_head (n : Nat) (hn : 0 < n) : (natDigits n).head? ≠ some '0' := by
  induction n using Nat.strongRecOn with
  | _ n ih =>
    rw [natDigits]
    split
    · rename_i h
      simp only [List.head?_cons, ne_eq, Option.some.injEq]
      exact ofNat_ne_zero n h hn
    · rename_i h
      have := ih (n / 10) (by omega) (by omega)
      cases hd : natDigits (n / 10) with
      | nil => exact absurd hd (C04.natDigits_ne_nil _)
      | cons c ds => rw [hd] at this; simpa using this

theorem natDigits_no_leading_zero (n : Nat) :
    ((natDigits n).length > 1 && (natDigits n).head? == some '0') = false := by
  by_cases h : n < 10
  · rw [natDigits]; simp [h]
  · have := natDigits_head n (by omega)
    simp [this]

/-- a decimal literal `str(n)` is read as the number `n` -/
theorem Tok.num (n : Nat) {rest : Str} {ts : List ETok} (hs : numStop rest = true) (h : Tok rest ts) :
    Tok (natDigits n ++ rest) (.num n :: ts) := by
  intro f hf
  obtain ⟨f', rfl⟩ : ∃ f', f = f' + 1 := ⟨f - 1, by simp at hf; omega⟩
  have hall : ∀ x ∈ natDigits n, isD x = true := fun x hx => isD_of_ascii (C04.natDigits_ascii n x hx)
  obtain ⟨h1, h2⟩ := takeWhile_stop isD (natDigits n) rest hall (numStop_isD hs)
  have hlz := natDigits_no_leading_zero n
  have hval := C04.digitsVal_natDigits n
  cases hd : natDigits n with
  | nil => exact absurd hd (C04.natDigits_ne_nil _)
  | cons c ds =>
    rw [hd] at h1 h2 hlz hval hf
    obtain ⟨a1, a2, a3, a4, a5, a6, a7⟩ := asciiDigit_facts c (C04.natDigits_ascii n c (by rw [hd]; exact List.mem_cons_self))
    simp only [List.cons_append] at h1 h2 hf ⊢
    have e1 : (List.takeWhile (fun x => decide ('0' ≤ x ∧ x ≤ '9')) (c :: (ds ++ rest))) = c :: ds := h1
    have e2 : (List.dropWhile (fun x => decide ('0' ≤ x ∧ x ≤ '9')) (c :: (ds ++ rest))) = rest := h2
    simp only [etokenizeFuel, beq_iff_eq, a1, a2, a3, a4, a5, a6, a7, if_false, and_self, if_true, e1, e2, hlz, hval,
      Bool.false_eq_true]
    cases rest with
    | nil => rw [h.nil_inv]
    | cons x r =>
      simp only [numStop, Bool.not_eq_true', Bool.or_eq_false_iff] at hs
      simp only [List.length_cons, List.length_append] at hf
      simp [hs, h f' (by simp only [List.length_cons]; omega)]

theorem numStop_rp (r : Str) : numStop (')' :: r) = true := by simp [numStop]; decide
theorem numStop_sp (r : Str) : numStop (' ' :: r) = true := by simp [numStop]; decide

/-- (i) the tokenizer reads a rendered expression as its tokens, whatever (harmless) text follows -/
theorem tok_render : ∀ (e : IExpr) {rest : Str} {ts : List ETok}, numStop rest = true → Tok rest ts →
    Tok (render e ++ rest) (toks e ++ ts)
  | .num n, _, _, hs, h => by simpa [render, toks] using Tok.num n hs h
  | .neg e, rest, _, _, h => by
    have := (tok_render e (numStop_rp rest) h.rp).minus.lp
    simpa [render, toks] using this
  | .pos e, rest, _, _, h => by
    have := (tok_render e (numStop_rp rest) h.rp).plus.lp
    simpa [render, toks] using this
  | .add a b, rest, _, _, h => by
    have := (tok_render a (numStop_sp _) (tok_render b (numStop_rp rest) h.rp).space.plus.space).lp
    simpa [render, toks] using this
  | .sub a b, rest, _, _, h => by
    have := (tok_render a (numStop_sp _) (tok_render b (numStop_rp rest) h.rp).space.minus.space).lp
    simpa [render, toks] using this
  | .mul a b, rest, _, _, h => by
    have := (tok_render a (numStop_sp _) (tok_render b (numStop_rp rest) h.rp).times.space).lp
    simpa [render, toks] using this

theorem tok_renderTop : ∀ (e : IExpr), Tok (renderTop e) (toksTop e)
  | .num n => by simpa [renderTop, toksTop] using Tok.num n (rest := []) rfl Tok.nil
  | .neg e => by simpa [renderTop, toksTop] using (tok_render e (rest := []) rfl Tok.nil).minus
  | .pos e => by simpa [renderTop, toksTop] using (tok_render e (rest := []) rfl Tok.nil).plus
  | .add a b => by
    have := tok_render a (numStop_sp _) (tok_render b (rest := []) rfl Tok.nil).space.plus.space
    simpa [renderTop, toksTop] using this
  | .sub a b => by
    have := tok_render a (numStop_sp _) (tok_render b (rest := []) rfl Tok.nil).space.minus.space
    simpa [renderTop, toksTop] using this
  | .mul a b => by
    have := tok_render a (numStop_sp _) (tok_render b (rest := []) rfl Tok.nil).times.space
    simpa [renderTop, toksTop] using this

theorem etokenize_render (e : IExpr) : etokenize (render e) = some (toks e) := by
  have := tok_render e (rest := []) rfl Tok.nil (render e ++ []).length.succ (Nat.le_refl _)
  simpa [etokenize] using this

theorem etokenize_renderTop (e : IExpr) : etokenize (renderTop e) = some (toksTop e) :=
  tok_renderTop e _ (Nat.le_refl _)

/-! #### the parser -/

theorem succ_of_le {k f : Nat} (h : k + 1 ≤ f) : ∃ f', f = f' + 1 ∧ k ≤ f' := ⟨f - 1, by omega, by omega⟩

/-- the next token does not continue a product -/
def termStop : List ETok → Bool
  | .times :: _ => false
  | _ => true

/-- the next token does not continue a sum -/
def exprStop : List ETok → Bool
  | .plus :: _ => false
  | .minus :: _ => false
  | _ => true

theorem pTermRest_stop {f : Nat} (hf : 1 ≤ f) (v : Int) {r : List ETok} (hr : termStop r = true) :
    pTermRest f v r = some (v, r) := by
  obtain ⟨f', rfl, _⟩ := succ_of_le hf
  cases r with
  | nil => simp [pTermRest]
  | cons t r => cases t <;> simp [pTermRest] <;> simp [termStop] at hr

theorem pExprRest_stop {f : Nat} (hf : 1 ≤ f) (v : Int) {r : List ETok} (hr : exprStop r = true) :
    pExprRest f v r = some (v, r) := by
  obtain ⟨f', rfl, _⟩ := succ_of_le hf
  cases r with
  | nil => simp [pExprRest]
  | cons t r => cases t <;> simp [pExprRest] <;> simp [exprStop] at hr

/-- a term that is a single unary -/
theorem pTerm_single {f : Nat} {ts r : List ETok} {v : Int} (hf : 1 ≤ f) (h : pUnary f ts = some (v, r))
    (hr : termStop r = true) : pTerm (f + 1) ts = some (v, r) := by
  simp [pTerm, h, pTermRest_stop hf v hr]

/-- an expression that is a single term -/
theorem pExpr_single {f : Nat} {ts r : List ETok} {v : Int} (hf : 1 ≤ f) (h : pTerm f ts = some (v, r))
    (hr : exprStop r = true) : pExpr (f + 1) ts = some (v, r) := by
  simp [pExpr, h, pExprRest_stop hf v hr]

theorem cost_pos (e : IExpr) : 1 ≤ cost e := by cases e <;> simp [cost]

/-- (ii) a rendered expression is one atom for the parser, with any fuel from `cost e` on -/
theorem pUnary_toks : ∀ (e : IExpr) (f : Nat) (r : List ETok), cost e ≤ f → pUnary f (toks e ++ r) = some (den e, r)
  | .num n, f, r, hf => by
    obtain ⟨f', rfl, _⟩ := succ_of_le (k := 0) hf
    simp [toks, pUnary, den]
  | .neg e, f, r, hf => by
    simp only [cost] at hf
    obtain ⟨g, rfl⟩ : ∃ g, f = g + 4 := ⟨f - 4, by omega⟩
    have hc := cost_pos e
    have u : pUnary (g + 1) (.minus :: (toks e ++ .rp :: r)) = some (- den e, .rp :: r) := by
      simp [pUnary, pUnary_toks e g (.rp :: r) (by omega)]
    have t := pTerm_single (by omega) u rfl
    have x := pExpr_single (by omega) t rfl
    simp [toks, pUnary, x, den]
  | .pos e, f, r, hf => by
    simp only [cost] at hf
    obtain ⟨g, rfl⟩ : ∃ g, f = g + 4 := ⟨f - 4, by omega⟩
    have hc := cost_pos e
    have u : pUnary (g + 1) (.plus :: (toks e ++ .rp :: r)) = some (den e, .rp :: r) := by
      simp [pUnary, pUnary_toks e g (.rp :: r) (by omega)]
    have t := pTerm_single (by omega) u rfl
    have x := pExpr_single (by omega) t rfl
    simp [toks, pUnary, x, den]
  | .add a b, f, r, hf => by
    simp only [cost] at hf
    obtain ⟨g, rfl⟩ : ∃ g, f = g + 4 := ⟨f - 4, by omega⟩
    have ha := cost_pos a
    have hb := cost_pos b
    have ta : pTerm (g + 2) (toks a ++ .plus :: (toks b ++ .rp :: r)) = some (den a, .plus :: (toks b ++ .rp :: r)) :=
      pTerm_single (f := g + 1) (by omega) (pUnary_toks a (g + 1) _ (by omega)) rfl
    have tb : pTerm (g + 1) (toks b ++ .rp :: r) = some (den b, .rp :: r) :=
      pTerm_single (f := g) (by omega) (pUnary_toks b g _ (by omega)) rfl
    have x : pExpr (g + 3) (toks a ++ .plus :: (toks b ++ .rp :: r)) = some (den a + den b, .rp :: r) := by
      simp [pExpr, ta, pExprRest, tb]
    simp [toks, pUnary, x, den]
  | .sub a b, f, r, hf => by
    simp only [cost] at hf
    obtain ⟨g, rfl⟩ : ∃ g, f = g + 4 := ⟨f - 4, by omega⟩
    have ha := cost_pos a
    have hb := cost_pos b
    have ta : pTerm (g + 2) (toks a ++ .minus :: (toks b ++ .rp :: r)) = some (den a, .minus :: (toks b ++ .rp :: r)) :=
      pTerm_single (f := g + 1) (by omega) (pUnary_toks a (g + 1) _ (by omega)) rfl
    have tb : pTerm (g + 1) (toks b ++ .rp :: r) = some (den b, .rp :: r) :=
      pTerm_single (f := g) (by omega) (pUnary_toks b g _ (by omega)) rfl
    have x : pExpr (g + 3) (toks a ++ .minus :: (toks b ++ .rp :: r)) = some (den a - den b, .rp :: r) := by
      simp [pExpr, ta, pExprRest, tb]
    simp [toks, pUnary, x, den]
  | .mul a b, f, r, hf => by
    simp only [cost] at hf
    obtain ⟨g, rfl⟩ : ∃ g, f = g + 4 := ⟨f - 4, by omega⟩
    have ha := cost_pos a
    have hb := cost_pos b
    have ua := pUnary_toks a (g + 1) (.times :: (toks b ++ .rp :: r)) (by omega)
    have ub := pUnary_toks b g (.rp :: r) (by omega)
    have s : pTermRest g (den a * den b) (.rp :: r) = some (den a * den b, .rp :: r) :=
      pTermRest_stop (by omega) _ rfl
    have t : pTerm (g + 2) (toks a ++ .times :: (toks b ++ .rp :: r)) = some (den a * den b, .rp :: r) := by
      simp [pTerm, ua, pTermRest, ub, s]
    have x := pExpr_single (f := g + 2) (by omega) t rfl
    simp [toks, pUnary, x, den]

theorem toks_length_pos (e : IExpr) : 1 ≤ (toks e).length := by cases e <;> simp [toks]

/-- the size bound: the fuel `evalInt` gives (`4 * #tokens + 4`) is enough -/
theorem cost_le (e : IExpr) : cost e ≤ 4 * (toks e).length := by
  induction e with
  | num n => simp [cost, toks]
  | neg e ih => simp only [cost, toks, List.length_cons, List.length_append, List.length_nil]; omega
  | pos e ih => simp only [cost, toks, List.length_cons, List.length_append, List.length_nil]; omega
  | add a b iha ihb => simp only [cost, toks, List.length_cons, List.length_append, List.length_nil]; omega
  | sub a b iha ihb => simp only [cost, toks, List.length_cons, List.length_append, List.length_nil]; omega
  | mul a b iha ihb => simp only [cost, toks, List.length_cons, List.length_append, List.length_nil]; omega

theorem pExpr_toks (e : IExpr) : pExpr (4 * (toks e).length + 4) (toks e) = some (den e, []) := by
  have hc := cost_le e
  have hp := cost_pos e
  have u := pUnary_toks e (4 * (toks e).length + 2) [] (by omega)
  rw [List.append_nil] at u
  have t := pTerm_single (by omega) u rfl
  exact pExpr_single (by omega) t rfl

theorem pExpr_toksTop (e : IExpr) : pExpr (4 * (toksTop e).length + 4) (toksTop e) = some (den e, []) := by
  cases e with
  | num n => exact pExpr_toks (.num n)
  | neg e =>
    have hc := cost_le e
    have hp := cost_pos e
    have u : pUnary (4 * (toks e).length + 6) (.minus :: toks e) = some (- den e, []) := by
      have := pUnary_toks e (4 * (toks e).length + 5) [] (by omega)
      rw [List.append_nil] at this
      simp [pUnary, this]
    have t := pTerm_single (by omega) u rfl
    have x := pExpr_single (by omega) t rfl
    simpa [toksTop, den, Nat.mul_add] using x
  | pos e =>
    have hc := cost_le e
    have hp := cost_pos e
    have u : pUnary (4 * (toks e).length + 6) (.plus :: toks e) = some (den e, []) := by
      have := pUnary_toks e (4 * (toks e).length + 5) [] (by omega)
      rw [List.append_nil] at this
      simp [pUnary, this]
    have t := pTerm_single (by omega) u rfl
    have x := pExpr_single (by omega) t rfl
    simpa [toksTop, den, Nat.mul_add] using x
  | add a b =>
    have ha := cost_le a
    have hb := cost_le b
    have la := toks_length_pos a
    have lb := toks_length_pos b
    have pa := cost_pos a
    have pb := cost_pos b
    obtain ⟨g, hg⟩ : ∃ g, 4 * (toksTop (.add a b)).length + 4 = g + 3 := ⟨4 * (toksTop (.add a b)).length + 1, rfl⟩
    have hlen : (toksTop (.add a b)).length = (toks a).length + (toks b).length + 1 := by
      simp [toksTop]; omega
    have ta : pTerm (g + 2) (toks a ++ .plus :: toks b) = some (den a, .plus :: toks b) :=
      pTerm_single (f := g + 1) (by omega) (pUnary_toks a (g + 1) _ (by omega)) rfl
    have tb : pTerm (g + 1) (toks b) = some (den b, []) := by
      have := pUnary_toks b g [] (by omega)
      rw [List.append_nil] at this
      exact pTerm_single (f := g) (by omega) this rfl
    rw [hg]
    simp [toksTop, pExpr, ta, pExprRest, tb, den]
  | sub a b =>
    have ha := cost_le a
    have hb := cost_le b
    have pa := cost_pos a
    have pb := cost_pos b
    obtain ⟨g, hg⟩ : ∃ g, 4 * (toksTop (.sub a b)).length + 4 = g + 3 := ⟨4 * (toksTop (.sub a b)).length + 1, rfl⟩
    have hlen : (toksTop (.sub a b)).length = (toks a).length + (toks b).length + 1 := by
      simp [toksTop]; omega
    have ta : pTerm (g + 2) (toks a ++ .minus :: toks b) = some (den a, .minus :: toks b) :=
      pTerm_single (f := g + 1) (by omega) (pUnary_toks a (g + 1) _ (by omega)) rfl
    have tb : pTerm (g + 1) (toks b) = some (den b, []) := by
      have := pUnary_toks b g [] (by omega)
      rw [List.append_nil] at this
      exact pTerm_single (f := g) (by omega) this rfl
    rw [hg]
    simp [toksTop, pExpr, ta, pExprRest, tb, den]
  | mul a b =>
    have ha := cost_le a
    have hb := cost_le b
    have pa := cost_pos a
    have pb := cost_pos b
    obtain ⟨g, hg⟩ : ∃ g, 4 * (toksTop (.mul a b)).length + 4 = g + 3 := ⟨4 * (toksTop (.mul a b)).length + 1, rfl⟩
    have hlen : (toksTop (.mul a b)).length = (toks a).length + (toks b).length + 1 := by
      simp [toksTop]; omega
    have ua := pUnary_toks a (g + 1) (.times :: toks b) (by omega)
    have ub := pUnary_toks b g [] (by omega)
    rw [List.append_nil] at ub
    have s : pTermRest g (den a * den b) [] = some (den a * den b, []) := pTermRest_stop (by omega) _ rfl
    have t : pTerm (g + 2) (toks a ++ .times :: toks b) = some (den a * den b, []) := by
      simp [pTerm, ua, pTermRest, ub, s]
    have x := pExpr_single (f := g + 2) (by omega) t rfl
    rw [hg]
    simpa [toksTop, den] using x

theorem toks_ne_nil (e : IExpr) : toks e ≠ [] := by cases e <;> simp [toks]

theorem toksTop_ne_nil (e : IExpr) : toksTop e ≠ [] := by
  cases e <;> simp [toksTop, toks_ne_nil]

/-- **(a)** the integer evaluator computes the value of every fully parenthesised expression -/
theorem C05_evalInt_correct (e : IExpr) : evalInt (render e) = .value (.leaf (.int (den e))) := by
  unfold evalInt
  rw [etokenize_render]
  have hp := pExpr_toks e
  cases ht : toks e with
  | nil => exact absurd ht (toks_ne_nil e)
  | cons t ts =>
    rw [ht] at hp
    simp only [hp]

/-- **(a)** … also when the outermost parentheses are left out (`1 + 20`, `-(2 - 5)`, `(2 + 3) * 4`) -/
theorem C05_evalInt_correct_top (e : IExpr) : evalInt (renderTop e) = .value (.leaf (.int (den e))) := by
  unfold evalInt
  rw [etokenize_renderTop]
  have hp := pExpr_toksTop e
  cases ht : toksTop e with
  | nil => exact absurd ht (toksTop_ne_nil e)
  | cons t ts =>
    rw [ht] at hp
    simp only [hp]

/-- (a) numbers: `eval(str(n)) == n` -/
theorem C05_evalInt_number (n : Nat) : evalInt (natDigits n) = .value (.leaf (.int n)) :=
  C05_evalInt_correct (.num n)

/-- (a) the negation of a number, one binary operation of numbers -/
theorem C05_evalInt_neg_number (n : Nat) : evalInt ('-' :: natDigits n) = .value (.leaf (.int (-(n : Int)))) :=
  C05_evalInt_correct_top (.neg (.num n))

theorem C05_evalInt_sum (m n : Nat) :
    evalInt (natDigits m ++ " + ".toList ++ natDigits n) = .value (.leaf (.int ((m : Int) + n))) := by
  have := C05_evalInt_correct_top (.add (.num m) (.num n))
  simpa [renderTop, render, den] using this

/-- (`EvalResult` has no decidable equality) -/
def isInt : EvalResult → Int → Bool
  | .value (.leaf (.int v)), z => v == z
  | _, _ => false

def isUnsupported : EvalResult → Bool
  | .unsupported => true
  | _ => false

/-- (a) concrete texts: precedence, left associativity, unary chains, blanks; and what lies outside the language -/
theorem C05_evalInt_examples :
    isInt (evalInt "2 + 3 * 4".toList) 14 = true ∧
    isInt (evalInt "-(2 - 5) * 3".toList) 9 = true ∧
    isInt (evalInt "2 - 3 - 4".toList) (-5) = true ∧
    isInt (evalInt "(2 + 3) * 4".toList) 20 = true ∧
    isInt (evalInt "2 * 3 + 4".toList) 10 = true ∧
    isInt (evalInt "2 * (3 + 4)".toList) 14 = true ∧
    isInt (evalInt "--5".toList) 5 = true ∧
    isInt (evalInt "-+-5".toList) 5 = true ∧
    isInt (evalInt "2 * -3".toList) (-6) = true ∧
    isInt (evalInt "2--3".toList) 5 = true ∧
    isInt (evalInt " 10*10 - 1 ".toList) 99 = true ∧
    isInt (evalInt "0".toList) 0 = true ∧
    isInt (evalInt "1 + 20".toList) 21 = true ∧
    isInt (evalInt "12345678901234567890 * 10".toList) 123456789012345678900 = true ∧
    isUnsupported (evalInt "2 ** 3".toList) = true ∧
    isUnsupported (evalInt "007".toList) = true ∧
    isUnsupported (evalInt "1.5".toList) = true ∧
    isUnsupported (evalInt "1e3".toList) = true ∧
    isUnsupported (evalInt "1_0".toList) = true ∧
    isUnsupported (evalInt "0x10".toList) = true ∧
    isUnsupported (evalInt "2 +".toList) = true ∧
    isUnsupported (evalInt "(2".toList) = true ∧
    isUnsupported (evalInt "2 3".toList) = true ∧
    isUnsupported (evalInt "".toList) = true ∧
    isUnsupported (evalInt "a".toList) = true ∧
    isUnsupported (evalInt "7 / 2".toList) = true := by decide +kernel

/-- the general theorem instantiated: `((2 + 3) * (-4))` -/
example : evalInt "((2 + 3) * (-4))".toList = .value (.leaf (.int (-20))) := by
  have h : render (.mul (.add (.num 2) (.num 3)) (.neg (.num 4))) = "((2 + 3) * (-4))".toList := by decide +kernel
  rw [← h]
  exact C05_evalInt_correct _

/-! ## (d) a plain reference takes the referenced value as it is -/

/-- **(d)** fix D34: an expression entry whose text is exactly one reference, and that reference is resolved: the
    placeholder is replaced by the resolved value itself (`substValEs`: any value, no `str()`, no `eval`), the entry
    leaves the table.  (`findRefs r = [r]` and `strip r = r` say that the text is one reference and nothing else.) -/
theorem C05_plain_ref_takes_value (ev : Str → EvalResult) (resolved : List (Str × Val)) (data : Entries) (i : Nat)
    (r ph : Str) (v : Val)
    (hr : findRefs r = [r]) (hs : strip r = r) (hf : (resolved.find? fun p => p.1 == r).map (·.2) = some v) :
    evalPass ev resolved ⟨data, [(i, ⟨r, ph⟩)]⟩ = (substValEs ph v 1 data).map (fun d => ⟨d, []⟩) := by
  simp only [evalPass, List.foldlM_cons, List.foldlM_nil, hr, hs, hf, beq_self_eq_true, if_true]
  cases substValEs ph v 1 data with
  | error e => rfl
  | ok d => simp [Tbl.del, Except.map, bind, Except.bind, pure, Except.pure]

/-- the evaluator is not consulted at all: the result does not depend on `ev` -/
theorem C05_plain_ref_no_eval (ev ev' : Str → EvalResult) (resolved : List (Str × Val)) (data : Entries) (i : Nat)
    (r ph : Str) (v : Val)
    (hr : findRefs r = [r]) (hs : strip r = r) (hf : (resolved.find? fun p => p.1 == r).map (·.2) = some v) :
    evalPass ev resolved ⟨data, [(i, ⟨r, ph⟩)]⟩ = evalPass ev' resolved ⟨data, [(i, ⟨r, ph⟩)]⟩ := by
  rw [C05_plain_ref_takes_value ev resolved data i r ph v hr hs hf,
    C05_plain_ref_takes_value ev' resolved data i r ph v hr hs hf]

def passData : Except ParseErr ExprSt → Option (Entries × Nat)
  | .ok st => some (st.data, st.exprs.length)
  | .error _ => none

/-- (d) instantiated with a list value: `t $s;` with `s (1 2);` makes `t` that list -/
theorem C05_plain_ref_list (ev : Str → EvalResult) :
    passData (evalPass ev [("$s".toList, .list [.leaf (.int 1), .leaf (.int 2)])]
      ⟨[(.str "t".toList, .leaf (.str "EXPRESSION000000".toList))], [(0, ⟨"$s".toList, "EXPRESSION000000".toList⟩)]⟩)
      = some ([(.str "t".toList, .list [.leaf (.int 1), .leaf (.int 2)])], 0) := by
  rw [C05_plain_ref_takes_value ev _ _ 0 _ _ (.list [.leaf (.int 1), .leaf (.int 2)])
    (by decide +kernel) (by decide +kernel) (by decide +kernel)]
  decide +kernel

/-- `s 'e'; t $s;` as the native parser hands it over -/
def plainSD : SD :=
  { data := [(.str "s".toList, .leaf (.str "e".toList)), (.str "t".toList, .leaf (.str "EXPRESSION000000".toList))],
    exprs := [(0, ⟨"$s".toList, "EXPRESSION000000".toList⟩)] }

/-- (d) the D34 regression: `t` becomes the string `e`, not the value of a name `e` -/
theorem C05_plain_ref_example :
    dataOf (evalExpressions evalInt plainSD)
      = some [(.str "s".toList, .leaf (.str "e".toList)), (.str "t".toList, .leaf (.str "e".toList))] := by
  decide +kernel

/-- (d) … and through the whole reader, from the file text (the kernel evaluates the native parser, well-founded
    token scanner included) -/
theorem C05_plain_ref_end_to_end :
    readOne "s 'e'; t $s;" = some [(.str "s".toList, .leaf (.str "e".toList)), (.str "t".toList, .leaf (.str "e".toList))] := by
  decide +kernel

/-! ## (f) completeness on acyclic reference graphs: the statement -/

/-- name of a reference: the text after `$`, up to an index bracket -/
def refName (r : Str) : Str := (match r with | '$' :: t => t | t => t).takeWhile (· != '[')

/-- the pending expression a data value stands for, if the value is an expression placeholder -/
def exprOf (s : SD) : Val → Option Str
  | .leaf (.str t) => (s.exprs.find? fun e => e.2.name == t).map (·.2.expression)
  | _ => none

/-- the specification: a *topological evaluator*.  The value of variable `name`, by recursion along the reference graph
    (`fuel` > length of the longest reference chain; `data.length + 1` suffices for an acyclic graph) -/
def topoVal (ev : Str → EvalResult) (s : SD) : Nat → Str → Option Val
  | 0, _ => none
  | fuel + 1, name =>
    match lookup (.str name) s.data with
    | none => none
    | some v =>
      match exprOf s v with
      | none => some v                                                     -- an ordinary value
      | some e =>
        let refs := findRefs e
        if refs = [strip e] then topoVal ev s fuel (refName (strip e))     -- a plain reference: the value as it is
        else
          -- every reference is replaced by `str(value)` of the referenced variable, then the text is evaluated
          let text := refs.foldlM (fun (x : Str) r =>
            match topoVal ev s fuel (refName r) with
            | some w => (pyStrVal w).map fun t => substRefFuel r t (x.length + 1) x
            | none => none) e
          match text with
          | none => none
          | some t => match ev t with
            | .value (.leaf x) => some (.leaf x)
            | .nameError => some (.leaf (.str t))
            | _ => none

def isStrKey : Key → Bool
  | .str _ => true
  | _ => false

/-- the rank decreases along every reference edge -/
def rankOk (rank : Str → Nat) (s : SD) : Bool :=
  s.data.all fun d => match d.1, exprOf s d.2 with
    | .str k, some e => (findRefs e).all fun r => decide (rank (refName r) < rank k)
    | _, _ => true

/-- the shape of a parsed flat dictionary with an acyclic reference graph and unique names -/
structure AcyclicFlat (s : SD) : Prop where
  /-- unique names -/
  keys_nodup : (keys s.data).Nodup
  /-- flat: string keys, scalar values -/
  flat : ∀ d ∈ s.data, isStrKey d.1 = true ∧ d.2.isLeaf = true
  /-- the expression table has unique ids and the placeholders `EXPRESSIONnnnnnn` of the parser -/
  ids_nodup : (s.exprs.map (·.1)).Nodup
  names : ∀ e ∈ s.exprs, e.2.name = kwExpr ++ padSix e.1
  /-- every placeholder is the value of exactly one entry -/
  placed : ∀ e ∈ s.exprs, (s.data.filter fun d => d.2 == .leaf (.str e.2.name)).length = 1
  /-- ordinary values carry neither `$` nor a placeholder word (they are `usable`) -/
  plain_usable : ∀ d ∈ s.data, exprOf s d.2 = none → usable d.2 = true
  /-- references are unindexed and name existing variables -/
  refs_ok : ∀ e ∈ s.exprs, ∀ r ∈ findRefs e.2.expression, '[' ∉ r ∧ (lookup (.str (refName r)) s.data).isSome = true
  /-- acyclic -/
  acyclic : ∃ rank : Str → Nat, rankOk rank s = true

/-- **(f)** completeness on acyclic graphs, **stated, not proved here; decided by the correspondence check**
    (the harness compares `_eval_expressions` of the running code with the model on generated acyclic inputs, and the
    model with this specification on the same inputs).

    Every placeholder of an acyclic reference graph with unique names is replaced by the value a topological evaluator
    gives: whenever the specification `topoVal` assigns a value to a variable, the data after `evalExpressions` hold that
    value under that name; no expression is left pending; the keys and their order are unchanged.

    Documented approximation: flat dictionaries (no nested dicts / lists), references without indexing, evaluator
    results that are scalars or `NameError` (for the other results `topoVal` is `none` and nothing is claimed).
    What a proof needs and is missing here: (1) `resolveRef` on the variable table of a flat dict returns the ordinary
    value of a non-pending variable (one unfolding of `follow`) and `None` for a pending one; (2) the invariant of
    `loop`: after pass `n` every variable of rank < n holds its `topoVal`; (3) progress: in an acyclic graph the pending
    expression of least rank has all its references resolved, so `notRes` decreases until the table is empty, within
    the `exprs.length + 2` passes of fuel; (4) `substLeafEs`/`substValEs` on `placed` data change exactly one entry. -/
def C05_complete_acyclic_statement : Prop :=
  ∀ (ev : Str → EvalResult) (s s' : SD), AcyclicFlat s → evalExpressions ev s = .ok s' →
    s'.exprs = [] ∧ keys s'.data = keys s.data ∧
    ∀ name v, topoVal ev s (s.data.length + 1) name = some v → lookup (.str name) s'.data = some v

/-- `a 1; ab 20; c "$d * 2 + $ab"; d "$a + $ab"; e $c;` as the native parser hands it over: a chain `e → c → d → a, ab` -/
def exSD : SD :=
  { data := [(.str "a".toList, .leaf (.int 1)), (.str "ab".toList, .leaf (.int 20)),
             (.str "c".toList, .leaf (.str "EXPRESSION000000".toList)),
             (.str "d".toList, .leaf (.str "EXPRESSION000001".toList)),
             (.str "e".toList, .leaf (.str "EXPRESSION000002".toList))],
    exprs := [(0, ⟨"$d * 2 + $ab".toList, "EXPRESSION000000".toList⟩),
              (1, ⟨"$a + $ab".toList, "EXPRESSION000001".toList⟩),
              (2, ⟨"$c".toList, "EXPRESSION000002".toList⟩)] }

/-- position in a topological order -/
def exRank (n : Str) : Nat := (["a", "ab", "d", "c", "e"].map String.toList).idxOf n

/-- the hypotheses of (f) are satisfiable -/
theorem exSD_acyclicFlat : AcyclicFlat exSD where
  keys_nodup := by decide +kernel
  flat := by decide +kernel
  ids_nodup := by decide +kernel
  names := by decide +kernel
  placed := by decide +kernel
  plain_usable := by decide +kernel
  refs_ok := by decide +kernel
  acyclic := ⟨exRank, by decide +kernel⟩

/-- the specification on the example … -/
theorem exSD_topo : (["a", "ab", "c", "d", "e"].map fun n => topoVal evalInt exSD 6 n.toList)
    = [some (.leaf (.int 1)), some (.leaf (.int 20)), some (.leaf (.int 62)), some (.leaf (.int 21)),
       some (.leaf (.int 62))] := by
  decide +kernel

/-- … and the model (three passes: `d`, then `c`, then `e`) agree -/
theorem exSD_eval : dataOf (evalExpressions evalInt exSD)
    = some [(.str "a".toList, .leaf (.int 1)), (.str "ab".toList, .leaf (.int 20)),
            (.str "c".toList, .leaf (.int 62)), (.str "d".toList, .leaf (.int 21)), (.str "e".toList, .leaf (.int 62))] := by
  decide +kernel

end DictIO.C05
