/-
  C02 (headline) — the native reader is layout tolerant and agrees with the documented grammar, on the *text*;
  C01 (route 1, native) — formatter + parser on strings.

    `C02_layout_tolerant`   for a well-formed source document `es` (quoted strings included; no comments, includes,
                            `$`) and ANY admissible layout `spreadS (srcToksEs es) gaps tail` of its tokens,
                            `parseNative` returns exactly the documented meaning `denSrcEs es []`, all side tables
                            empty.  `C02_layout_tolerant_counter` also names the counter afterwards;
                            `C02_layout_tolerant_gen` states the documentation-key condition on the meaning.
    `C02_layout_independent_text'`, `C02_never_fails`      corollaries
    `C01.C01_roundtrip_string`   `parseNative (fmtPlain .native es) = normEs es` on `DomC01`
    `C01.C01_roundtrip_never_fails`

  The proof chains  `parse_block_spread` (C02lex) → `insert_literals` (C02ins) → `front_plain` (C02front), after
  deriving the side conditions of `front_plain` from the well-formedness of the document:

    1  `noMarkup_of_wf`     an admissible layout of a well-formed document contains no `//`, no `/*` (also not across a
                            token boundary) and none of its lines starts with `#`
    2  `no_dollar_of_wf`    … and no `$`
    3  `den_noPh`           the meaning has no placeholder key
    4  `den_nodup`          the meaning has unique keys at every level (`denSrcEs` builds with `setKey`): no hypothesis
                            on the document is needed, so `UniqueKeys` does not appear in the theorem
                            (`ex_native_dup`: `a 1;a 2;` is read as `{a: 2}`)
    5  `den_docKeys`        a key that is not written at the top level is not in the meaning
                            (`C02_needs_docKeys`: the hypothesis `DocKeysAbsent` cannot be dropped)

  Part B uses `C01.C01_writer` (C01fmt): the writer's text is an admissible layout of the well-formed document
  `srcOfEs .native es`, which means `normEs es`.

  Non-vacuity: `ex_native_glued`, `ex_native_loose` (the document and the two layouts of C02lex),
  `C01.exDict_roundtrip` (the dict of C01fmt).  Helper lemmas live in `DictIO.C02.Main`.
-/
import DictIO.Props.C02lex
import DictIO.Props.C02ins
import DictIO.Props.C02front
import DictIO.Props.C01fmt

namespace DictIO.C02
open DictIO

/-! ## side condition of the headline theorem -/

/-- no top-level key is spelled `_variables` or `_includes` (the reader's `_clean` deletes these two) -/
def DocKeysAbsent (es : SrcEntries) : Prop :=
  ∀ e ∈ es, e.1 ≠ "_variables".toList ∧ e.1 ≠ "_includes".toList

instance (es : SrcEntries) : Decidable (DocKeysAbsent es) := by unfold DocKeysAbsent; infer_instance

namespace Main

/-! ## helper lemmas -/

/-! ### layouts, one token at a time -/

theorem spreadS_cons (t : STok) (ts : List STok) (gaps : List Str) (tail : Str) :
    spreadS (t :: ts) gaps tail = gaps.headD [] ++ t.text ++ spreadS ts gaps.tail tail := by
  simp only [spreadS, List.map_cons, spread_cons]

theorem spreadS_nil (gaps : List Str) (tail : Str) : spreadS [] gaps tail = tail := rfl

/-- `GapsOKS`, one token at a time: the gap in front is white space, the rest is admissible, and the next token is
    glued on only if one of the two is a delimiter -/
theorem gapsOKS_step {t : STok} {ts : List STok} {gaps : List Str} (h : GapsOKS (t :: ts) gaps = true) :
    (gaps.headD []).all isWs = true ∧ GapsOKS ts gaps.tail = true ∧
      (∀ u ts', ts = u :: ts' → isDelimSTok t = true ∨ isDelimSTok u = true ∨ gaps.tail.headD [] ≠ []) := by
  match ts, gaps, h with
  | [], [], _ => exact ⟨rfl, rfl, fun _ _ e => by cases e⟩
  | [], g :: gs, h => exact ⟨by simpa [GapsOKS] using h, rfl, fun _ _ e => by cases e⟩
  | u :: ts, [], h => simp [GapsOKS] at h
  | u :: ts, [g], h => simp [GapsOKS] at h
  | u :: ts, g :: g' :: gs, h =>
    simp only [GapsOKS, Bool.and_eq_true, Bool.or_eq_true, Bool.not_eq_true', List.isEmpty_eq_false_iff] at h
    refine ⟨h.1.1, h.2, ?_⟩
    intro u' ts' e
    cases e
    rcases h.1.2 with (h1 | h1) | h1
    · exact Or.inl h1
    · exact Or.inr (Or.inl h1)
    · exact Or.inr (Or.inr h1)

/-- a property that holds for the empty text and is kept when white space or a token is put in front holds for every
    admissible layout -/
theorem spreadS_build (P : Str → Prop) (h0 : P [])
    (hws : ∀ g rest, g.all isWs = true → P rest → P (g ++ rest)) :
    ∀ (ts : List STok) (gaps : List Str) (tail : Str), (∀ t ∈ ts, ∀ rest, P rest → P (t.text ++ rest)) →
      GapsOKS ts gaps = true → tail.all isWs = true → P (spreadS ts gaps tail)
  | [], gaps, tail, _, _, ht => by
    have := hws tail [] ht h0
    simpa [spreadS_nil] using this
  | t :: ts, gaps, tail, htok, hg, ht => by
    obtain ⟨h1, h2, _⟩ := gapsOKS_step hg
    rw [spreadS_cons, List.append_assoc]
    exact hws _ _ h1 (htok t (by simp) _
      (spreadS_build P h0 hws ts gaps.tail tail (fun u hu => htok u (by simp [hu])) h2 ht))

/-! ### characters -/

theorem lineBreak_ws_nat : ∀ n ∈ Gen.lineBreaks, inRanges Gen.wsRanges n = true := by decide

/-- every character `splitlines` breaks at is white space -/
theorem lineBreak_ws {c : Char} (h : isLineBreak c = true) : isWs c = true := by
  simp only [isLineBreak, List.contains_eq_mem, decide_eq_true_eq] at h
  exact lineBreak_ws_nat _ h

theorem not_lineBreak_of_not_ws {c : Char} (h : isWs c = false) : isLineBreak c = false := by
  cases hb : isLineBreak c with
  | false => rfl
  | true => rw [lineBreak_ws hb] at h; cases h

theorem ws_facts {c : Char} (h : isWs c = true) : c ≠ '/' ∧ c ≠ '*' ∧ c ≠ '#' ∧ c ≠ '$' := by
  refine ⟨?_, ?_, ?_, ?_⟩ <;> (rintro rfl; revert h; decide)

theorem quote_facts {q : Char} (h : isQuote q = true) : isWs q = false ∧ q ≠ '/' ∧ q ≠ '*' ∧ q ≠ '#' ∧ q ≠ '$' := by
  simp only [isQuote, Bool.or_eq_true, beq_iff_eq] at h
  rcases h with rfl | rfl <;> decide

theorem delim_facts : ∀ c ∈ Gen.delimiters, isWs c = false ∧ c ≠ '/' ∧ c ≠ '*' ∧ c ≠ '#' ∧ c ≠ '$' := by decide

/-- everything `isSrcWord` says -/
theorem srcWord_iff {w : Str} : isSrcWord w = true ↔
    isWordTok w = true ∧ isInfix "COMMENT".toList w = false ∧ isInfix "INCLUDE".toList w = false ∧
    isInfix kwLit w = false ∧ isInfix kwExpr w = false ∧
    (∀ x ∈ w, isQuote x = false ∧ x ≠ '$' ∧ x ≠ '\\') ∧
    isInfix ['/', '/'] w = false ∧ isInfix ['/', '*'] w = false ∧ w.head? ≠ some '#' := by
  simp only [isSrcWord, isPhTok, isCommentTok, isIncludeTok, Bool.and_eq_true, Bool.not_eq_true',
    Bool.or_eq_false_iff, List.all_eq_true, bne_iff_ne, ne_eq, beq_eq_false_iff_ne, and_assoc]

/-- everything `isSrcQuoted` says -/
theorem srcQuoted_iff {q : Char} {b : Str} : isSrcQuoted q b = true ↔
    isQuote q = true ∧ q ∉ b ∧ (∀ c ∈ b, isLineBreak c = false ∧ c ≠ '$') ∧
    isInfix ['/', '/'] b = false ∧ isInfix ['/', '*'] b = false ∧ isInfix kwLit b = false ∧
    isInfix kwExpr b = false ∧ isInfix "COMMENT".toList b = false ∧ isInfix "INCLUDE".toList b = false := by
  simp only [isSrcQuoted, Bool.and_eq_true, Bool.not_eq_true', List.all_eq_true, bne_iff_ne, ne_eq,
    List.contains_eq_mem, decide_eq_false_iff_not, and_assoc]

/-! ### the characters of an admissible token -/

/-- an admissible token starts with a character that is neither white space nor `#`, and contains no line break -/
theorem tok_shape {t : STok} (ht : TokOK t) :
    ∃ c0 r, t.text = c0 :: r ∧ isWs c0 = false ∧ c0 ≠ '#' ∧ ∀ c ∈ r, isLineBreak c = false := by
  cases t with
  | word w =>
    rcases ht with h | h
    · obtain ⟨hw, _, _, _, _, _, _, _, hh⟩ := srcWord_iff.mp h
      obtain ⟨hne, hws, _⟩ := wordTok_chars hw
      cases w with
      | nil => exact absurd rfl hne
      | cons c0 r =>
        refine ⟨c0, r, rfl, hws c0 (by simp), ?_, fun c hc => not_lineBreak_of_not_ws (hws c (by simp [hc]))⟩
        rintro rfl; exact hh rfl
    · obtain ⟨c, rfl, hc⟩ := delimTok_inv h
      have := delim_facts c hc
      exact ⟨c, [], rfl, this.1, this.2.2.2.1, fun _ h => by cases h⟩
  | quoted q b =>
    obtain ⟨hq, _, hb, _⟩ := srcQuoted_iff.mp ht
    have hqf := quote_facts hq
    refine ⟨q, b ++ [q], rfl, hqf.1, hqf.2.2.2.1, ?_⟩
    intro c hc
    simp only [List.mem_append, List.mem_singleton] at hc
    rcases hc with hc | rfl
    · exact (hb c hc).1
    · exact not_lineBreak_of_not_ws hqf.1

theorem tok_no_dollar {t : STok} (ht : TokOK t) : ∀ c ∈ t.text, c ≠ '$' := by
  intro c hc
  cases t with
  | word w => exact (okWord_chars ht c hc).2.1
  | quoted q b =>
    obtain ⟨hq, _, hb, _⟩ := srcQuoted_iff.mp ht
    simp only [STok.text, List.mem_cons, List.mem_append] at hc
    rcases hc with (rfl | hc) | (rfl | hc)
    · exact (quote_facts hq).2.2.2.2
    · exact (hb c hc).2
    · exact (quote_facts hq).2.2.2.2
    · cases hc

/-! ### no `$` -/

/-- an admissible layout of admissible tokens contains no `$` -/
theorem no_dollar_spread (ts : List STok) (gaps : List Str) (tail : Str) (hts : ∀ t ∈ ts, TokOK t)
    (hg : GapsOKS ts gaps = true) (ht : tail.all isWs = true) : '$' ∉ spreadS ts gaps tail := by
  refine spreadS_build (fun s => '$' ∉ s) (by simp) ?_ ts gaps tail ?_ hg ht
  · intro g rest hgw hr hm
    rcases List.mem_append.mp hm with hm | hm
    · exact (ws_facts (List.all_eq_true.mp hgw _ hm)).2.2.2 rfl
    · exact hr hm
  · intro t htm rest hr hm
    rcases List.mem_append.mp hm with hm | hm
    · exact tok_no_dollar (hts t htm) _ hm rfl
    · exact hr hm

/-! ### no line starts with `#`

  A scan with one bit of state: `st` = "only white space since the last line break (or the start)". -/

def nextSt (st : Bool) (c : Char) : Bool := if isLineBreak c then true else st && isWs c

/-- no `#` is met in state `true` -/
def noHash : Bool → Str → Bool
  | _, [] => true
  | st, c :: r => !(st && c == '#') && noHash (nextSt st c) r

def lineSt : Bool → Str → Bool
  | st, [] => st
  | st, c :: r => lineSt (nextSt st c) r

theorem noHash_append : ∀ (x y : Str) (st : Bool), noHash st (x ++ y) = (noHash st x && noHash (lineSt st x) y)
  | [], y, st => by simp [noHash, lineSt]
  | c :: x, y, st => by simp [noHash, lineSt, noHash_append x y, Bool.and_assoc]

theorem noHash_ws : ∀ (g : Str) (st : Bool), g.all isWs = true → noHash st g = true
  | [], _, _ => rfl
  | c :: g, st, h => by
    simp only [List.all_cons, Bool.and_eq_true] at h
    have hc : (c == '#') = false := by simpa using (ws_facts h.1).2.2.1
    simp [noHash, hc, noHash_ws g _ h.2]

theorem noHash_false : ∀ (x : Str), (∀ c ∈ x, isLineBreak c = false) → noHash false x = true ∧ lineSt false x = false
  | [], _ => ⟨rfl, rfl⟩
  | c :: x, h => by
    have hc := h c (by simp)
    have ih := noHash_false x (fun d hd => h d (by simp [hd]))
    simp [noHash, lineSt, nextSt, hc, ih]

/-- a token passes the scan from either state, and leaves it in state `false` -/
theorem noHash_tok {t : STok} (ht : TokOK t) (st : Bool) : noHash st t.text = true ∧ lineSt st t.text = false := by
  obtain ⟨c0, r, e, hws, hh, hr⟩ := tok_shape ht
  have hlb := not_lineBreak_of_not_ws hws
  have hc : (c0 == '#') = false := by simpa using hh
  have := noHash_false r hr
  rw [e]
  simp [noHash, lineSt, nextSt, hlb, hws, hc, this]

theorem noHash_spread (ts : List STok) (gaps : List Str) (tail : Str) (hts : ∀ t ∈ ts, TokOK t)
    (hg : GapsOKS ts gaps = true) (ht : tail.all isWs = true) : ∀ st, noHash st (spreadS ts gaps tail) = true := by
  refine spreadS_build (fun s => ∀ st, noHash st s = true) (fun _ => rfl) ?_ ts gaps tail ?_ hg ht
  · intro g rest hgw hr st
    rw [noHash_append, noHash_ws g st hgw, hr]; rfl
  · intro t htm rest hr st
    rw [noHash_append, (noHash_tok (hts t htm) st).1, hr]; rfl

theorem dropWs_cons_ws {c : Char} (h : isWs c = true) (l : Str) : dropWs (c :: l) = dropWs l := by
  simp [dropWs, List.dropWhile, h]

theorem dropWs_cons_nws {c : Char} (h : isWs c = false) (l : Str) : dropWs (c :: l) = c :: l := by
  simp [dropWs, List.dropWhile, h]

/-- the scan is sound for `splitlines`: no line starts, after white space, with `#` -/
theorem noHash_lines (s : Str) : ∀ st, noHash st s = true →
    (∀ l ∈ (splitLinesKeep s).tail, (dropWs l).head? ≠ some '#') ∧
    (st = true → ∀ l ∈ (splitLinesKeep s).head?, (dropWs l).head? ≠ some '#') := by
  fun_induction splitLinesKeep s with
  | case1 => intro st _; simp
  | case2 r ih =>
    intro st h
    have h' : noHash true r = true := by
      have e1 : nextSt st '\r' = true := by simp [nextSt]; left; decide
      have e2 : nextSt true '\n' = true := by simp [nextSt]; decide
      simp only [noHash, e1, e2, Bool.and_eq_true] at h
      exact h.2.2
    obtain ⟨i1, i2⟩ := ih true h'
    constructor
    · intro l hl
      simp only [List.tail_cons] at hl
      cases hs : splitLinesKeep r with
      | nil => rw [hs] at hl; cases hl
      | cons l0 ls =>
        rw [hs] at hl i1 i2
        rcases List.mem_cons.mp hl with rfl | hl
        · exact i2 rfl l (by simp)
        · exact i1 l hl
    · intro _ l hl
      simp only [List.head?_cons, Option.mem_def, Option.some.injEq] at hl
      subst hl
      have : dropWs ['\r', '\n'] = [] := by decide
      simp [this]
  | case3 c r hne hb ih =>
    intro st h
    have h' : noHash true r = true := by
      have e1 : nextSt st c = true := by simp [nextSt, hb]
      simp only [noHash, e1, Bool.and_eq_true] at h
      exact h.2
    obtain ⟨i1, i2⟩ := ih true h'
    constructor
    · intro l hl
      simp only [List.tail_cons] at hl
      cases hs : splitLinesKeep r with
      | nil => rw [hs] at hl; cases hl
      | cons l0 ls =>
        rw [hs] at hl i1 i2
        rcases List.mem_cons.mp hl with rfl | hl
        · exact i2 rfl l (by simp)
        · exact i1 l hl
    · intro _ l hl
      simp only [List.head?_cons, Option.mem_def, Option.some.injEq] at hl
      subst hl
      rw [dropWs_cons_ws (lineBreak_ws hb)]; simp [dropWs]
  | case4 c r hne hb hnil ih =>
    intro st h
    constructor
    · intro l hl; simp at hl
    · intro hst l hl
      simp only [List.head?_cons, Option.mem_def, Option.some.injEq] at hl
      subst hl hst
      have hc : c ≠ '#' := by
        simp only [noHash, Bool.true_and, Bool.and_eq_true, Bool.not_eq_true', beq_eq_false_iff_ne] at h
        exact h.1
      cases hw : isWs c with
      | true => rw [dropWs_cons_ws hw]; simp [dropWs]
      | false => simp [dropWs_cons_nws hw, hc]
  | case5 c r hne hb l0 ls hcons ih =>
    intro st h
    have hb' : isLineBreak c = false := by simpa using hb
    have h' : noHash (st && isWs c) r = true := by
      simp only [noHash, nextSt, hb', Bool.false_eq_true, if_false, Bool.and_eq_true] at h
      exact h.2
    obtain ⟨i1, i2⟩ := ih _ h'
    rw [hcons] at i1 i2
    constructor
    · intro l hl; exact i1 l (by simpa using hl)
    · intro hst l hl
      simp only [List.head?_cons, Option.mem_def, Option.some.injEq] at hl
      subst hl hst
      have hc : c ≠ '#' := by
        simp only [noHash, Bool.true_and, Bool.and_eq_true, Bool.not_eq_true', beq_eq_false_iff_ne] at h
        exact h.1
      cases hw : isWs c with
      | true =>
        rw [dropWs_cons_ws hw]
        exact i2 (by simp [hw]) l0 (by simp)
      | false => simp [dropWs_cons_nws hw, hc]

theorem noHash_sound {s : Str} (h : noHash true s = true) : ∀ l ∈ splitLinesKeep s, (dropWs l).head? ≠ some '#' := by
  obtain ⟨i1, i2⟩ := noHash_lines s true h
  intro l hl
  cases hs : splitLinesKeep s with
  | nil => rw [hs] at hl; cases hl
  | cons l0 ls =>
    rw [hs] at hl i1 i2
    rcases List.mem_cons.mp hl with rfl | hl
    · exact i2 rfl l (by simp)
    · exact i1 l hl

/-! ### no `//` and no `/*`, also not across a token boundary -/

/-- a two-character pattern occurs in `x ++ y` only inside `x`, inside `y`, or across the seam -/
theorem infix2_append {a b : Char} : ∀ {x y : Str}, isInfix [a, b] x = false → isInfix [a, b] y = false →
    (x.getLast? = some a → y.head? = some b → False) → isInfix [a, b] (x ++ y) = false
  | [], y, _, hy, _ => by simpa using hy
  | [c], y, _, hy, hb => by
    rw [List.singleton_append, isInfix_cons, hy, Bool.or_false]
    cases y with
    | nil => simp [List.isPrefixOf]
    | cons d y =>
      simp only [List.isPrefixOf, Bool.and_true]
      by_cases hac : a = c
      · by_cases hbd : b = d
        · subst hac hbd; exact (hb (by simp) (by simp)).elim
        · simp [hbd]
      · simp [hac]
  | c :: d :: x, y, hx, hy, hb => by
    rw [isInfix_cons] at hx
    simp only [Bool.or_eq_false_iff] at hx
    have ih := infix2_append (x := d :: x) (y := y) hx.2 hy (by simpa [List.getLast?_cons_cons] using hb)
    rw [List.cons_append, isInfix_cons, ih, Bool.or_false]
    have h1 := hx.1
    simp only [isPrefixOf_cc, List.cons_append, List.isPrefixOf, Bool.and_true] at h1 ⊢
    exact h1

theorem infix2_single (a b c : Char) : isInfix [a, b] [c] = false := by
  simp [isInfix, tails, List.isPrefixOf]

/-- an admissible token contains neither `//` nor `/*`; a delimiter is neither `/` nor `*` -/
theorem tok_noPair {t : STok} (ht : TokOK t) {b : Char} (hb : b = '/' ∨ b = '*') :
    isInfix ['/', b] t.text = false ∧ (isDelimSTok t = true → ∀ c ∈ t.text, c ≠ '/' ∧ c ≠ b) := by
  cases t with
  | word w =>
    rcases ht with h | h
    · obtain ⟨hw, _, _, _, _, _, h1, h2, _⟩ := srcWord_iff.mp h
      refine ⟨by rcases hb with rfl | rfl <;> assumption, fun hd => ?_⟩
      have : isDelimTok w = false := wordTok_not_delimTok hw
      simp only [isDelimSTok, this] at hd
      cases hd
    · obtain ⟨c, rfl, hc⟩ := delimTok_inv h
      refine ⟨infix2_single _ _ _, fun _ x hx => ?_⟩
      simp only [STok.text, List.mem_singleton] at hx
      subst hx
      have := delim_facts x hc
      exact ⟨this.2.1, by rcases hb with rfl | rfl; exact this.2.1; exact this.2.2.1⟩
  | quoted q body =>
    obtain ⟨hq, _, _, h1, h2, _⟩ := srcQuoted_iff.mp ht
    have hqf := quote_facts hq
    have hbody : isInfix ['/', b] body = false := by rcases hb with rfl | rfl <;> assumption
    refine ⟨?_, fun hd => by cases hd⟩
    have e : (STok.quoted q body).text = ([q] ++ body) ++ [q] := rfl
    rw [e]
    refine infix2_append (infix2_append (infix2_single _ _ _) hbody ?_) (infix2_single _ _ _) ?_
    · intro h _; simp at h; exact hqf.2.1 h
    · intro _ h; simp at h
      rcases hb with rfl | rfl
      · exact hqf.2.1 h
      · exact hqf.2.2.1 h

/-- an admissible layout of admissible tokens contains neither `//` nor `/*` -/
theorem noPair_spread {b : Char} (hb : b = '/' ∨ b = '*') : ∀ (ts : List STok) (gaps : List Str) (tail : Str),
    (∀ t ∈ ts, TokOK t) → GapsOKS ts gaps = true → tail.all isWs = true →
    isInfix ['/', b] (spreadS ts gaps tail) = false
  | [], gaps, tail, _, _, ht =>
    isInfix_head_notin '/' [b] tail fun hm => (ws_facts (List.all_eq_true.mp ht _ hm)).1 rfl
  | t :: ts, gaps, tail, hts, hg, ht => by
    obtain ⟨h1, h2, h3⟩ := gapsOKS_step hg
    have ih := noPair_spread hb ts gaps.tail tail (fun u hu => hts u (by simp [hu])) h2 ht
    have hwsb : ∀ c, isWs c = true → c ≠ b := fun c hc => by
      rcases hb with rfl | rfl
      · exact (ws_facts hc).1
      · exact (ws_facts hc).2.1
    have htk := tok_noPair (hts t (by simp)) hb
    rw [spreadS_cons, List.append_assoc]
    refine infix2_append
      (isInfix_head_notin '/' [b] _ fun hm => (ws_facts (List.all_eq_true.mp h1 _ hm)).1 rfl) ?_ ?_
    · refine infix2_append htk.1 ih ?_
      intro hl hh
      have hlm : '/' ∈ t.text := List.mem_of_getLast? hl
      cases ts with
      | nil =>
        rw [spreadS_nil] at hh
        exact hwsb b (List.all_eq_true.mp ht _ (List.mem_of_mem_head? hh)) rfl
      | cons u ts' =>
        obtain ⟨g1, _, _⟩ := gapsOKS_step h2
        rw [spreadS_cons, List.append_assoc] at hh
        cases hgap : gaps.tail.headD [] with
        | cons c g' =>
          rw [hgap] at hh g1
          simp only [List.cons_append, List.head?_cons, Option.some.injEq] at hh
          simp only [List.all_cons, Bool.and_eq_true] at g1
          exact hwsb c g1.1 hh
        | nil =>
          rw [hgap, List.nil_append] at hh
          obtain ⟨c0, r, e, _, _, _⟩ := tok_shape (hts u (by simp))
          rw [e] at hh
          simp only [List.cons_append, List.head?_cons, Option.some.injEq] at hh
          rcases h3 u ts' rfl with hd | hd | hne
          · exact (htk.2 hd _ hlm).1 rfl
          · have := (tok_noPair (hts u (by simp)) hb).2 hd c0 (by rw [e]; simp)
            exact this.2 hh
          · exact hne hgap
    · intro hl _
      exact (ws_facts (List.all_eq_true.mp h1 _ (List.mem_of_getLast? hl))).1 rfl

/-- **1.** an admissible layout of a well-formed source document is free of comment markers and include lines -/
theorem noMarkup_spread (ts : List STok) (gaps : List Str) (tail : Str) (hts : ∀ t ∈ ts, TokOK t)
    (hg : GapsOKS ts gaps = true) (ht : tail.all isWs = true) : NoMarkup (spreadS ts gaps tail) :=
  ⟨noPair_spread (Or.inl rfl) ts gaps tail hts hg ht, noPair_spread (Or.inr rfl) ts gaps tail hts hg ht,
    noHash_sound (noHash_spread ts gaps tail hts hg ht true)⟩

/-! ### typed keys -/

/-- a bare word that is typed as a key is an int key or the word itself -/
theorem typedKey_cases {k : Str} {key : Key} (hk : isSrcWord k = true) (h : keyOfScalar (parseKey k) = some key) :
    (∃ z, key = .int z) ∨ key = .str k := by
  have hq : ∀ c ∈ k, isQuote c = false := fun c hc => ((srcWord_iff.mp hk).2.2.2.2.2.1 c hc).1
  unfold parseKey at h
  cases hp : parseValue k with
  | int z => rw [hp] at h; simp only [keyOfScalar, Option.some.injEq] at h; exact Or.inl ⟨z, h.symm⟩
  | str s =>
    rw [hp] at h; simp only [keyOfScalar, Option.some.injEq] at h
    rw [C04.C04_idem hp hq] at h
    exact Or.inr h.symm
  | float l => rw [hp] at h; simp [keyOfScalar] at h
  | bool b => rw [hp] at h; simp [keyOfScalar] at h
  | none => rw [hp] at h; simp [keyOfScalar] at h

theorem containsPh_infix {kw s : Str} (h : containsPh kw s = true) : isInfix kw s = true := by
  simp only [containsPh, List.any_eq_true, Bool.and_eq_true] at h
  obtain ⟨t, ht, hp, _⟩ := h
  exact List.any_eq_true.mpr ⟨t, ht, hp⟩

theorem containsPh_false {kw sub s : Str} (hsub : isInfix sub kw = true) (h : isInfix sub s = false) :
    containsPh kw s = false := by
  cases hc : containsPh kw s with
  | false => rfl
  | true => rw [Front.isInfix_trans hsub (containsPh_infix hc)] at h; cases h

/-- a key typed from a bare source word is no placeholder key -/
theorem typedKey_noPh {k : Str} {key : Key} (hk : isSrcWord k = true) (h : keyOfScalar (parseKey k) = some key) :
    C07.isPhKey key = false := by
  rcases typedKey_cases hk h with ⟨z, rfl⟩ | rfl
  · rfl
  · obtain ⟨_, hc, hi, _⟩ := srcWord_iff.mp hk
    have e1 : containsPh kwBlock k = false := containsPh_false (kw := kwBlock) (sub := "COMMENT".toList) (by decide) hc
    have e2 : containsPh kwIncl k = false := containsPh_false (kw := kwIncl) (sub := "INCLUDE".toList) (by decide) hi
    have e3 : containsPh kwLine k = false := containsPh_false (kw := kwLine) (sub := "COMMENT".toList) (by decide) hc
    simp only [C07.isPhKey, e1, e2, e3, Bool.or_self]

/-! ### the meaning of a document: no placeholder key, unique keys, only written keys -/

mutual
  theorem den_noPhV : ∀ (v : Src) (d : Nat), SrcWFV d v = true → C07.NoPhV (denSrcV v)
    | .lit l, _, _ => by simp only [denSrcV, C07.NoPhV]
    | .list xs, _, _ => by simp only [denSrcV, C07.NoPhV]
    | .dict es, d, h => by
      simp only [SrcWFV] at h
      simp only [denSrcV, C07.NoPhV]
      exact den_noPhEs es (d + 1) [] h (by simp only [C07.NoPhEs])
  theorem den_noPhEs : ∀ (es : SrcEntries) (d : Nat) (acc : Entries), SrcWFEs d es = true → C07.NoPhEs acc →
      C07.NoPhEs (denSrcEs es acc)
    | [], _, _, _, hacc => by simpa only [denSrcEs] using hacc
    | (k, v) :: es, d, acc, h, hacc => by
      simp only [SrcWFEs, Bool.and_eq_true] at h
      obtain ⟨⟨⟨hk, hkey⟩, hv⟩, hes⟩ := h
      cases hko : keyOfScalar (parseKey k) with
      | none => rw [hko] at hkey; cases hkey
      | some key =>
        simp only [denSrcEs, hko]
        exact den_noPhEs es d _ hes (C07.noPhEs_setKey hacc (typedKey_noPh hk hko) (den_noPhV v d hv))
end

mutual
  theorem den_nodupV : ∀ (v : Src), NodupKeysV (denSrcV v)
    | .lit l => by simp only [denSrcV, NodupKeysV]
    | .list xs => by simp only [denSrcV, NodupKeysV]; exact den_nodupXs xs
    | .dict es => by simp only [denSrcV]; exact den_nodupEs es [] C07.nodupV_nil
  theorem den_nodupEs : ∀ (es : SrcEntries) (acc : Entries), NodupKeysV (.dict acc) →
      NodupKeysV (.dict (denSrcEs es acc))
    | [], _, hacc => by simpa only [denSrcEs] using hacc
    | (k, v) :: es, acc, hacc => by
      cases hko : keyOfScalar (parseKey k) with
      | none => simp only [denSrcEs, hko]; exact den_nodupEs es acc hacc
      | some key =>
        simp only [denSrcEs, hko]
        exact den_nodupEs es _ (C07.nodupV_setKey hacc (den_nodupV v))
  theorem den_nodupXs : ∀ (xs : List Src), NodupKeysXs (denSrcXs xs)
    | [] => by simp only [denSrcXs, NodupKeysXs]
    | v :: xs => by simp only [denSrcXs, NodupKeysXs]; exact ⟨den_nodupV v, den_nodupXs xs⟩
end

theorem keys_setKey_sub {k key : Key} {v : Val} {acc : Entries} (h : key ∈ keys (setKey k v acc)) :
    key = k ∨ key ∈ keys acc := by
  by_cases hk : k ∈ keys acc
  · rw [C07.keys_setKey_of_mem k v acc hk] at h; exact Or.inr h
  · rw [C07.keys_setKey_of_not_mem k v acc hk] at h
    rcases List.mem_append.mp h with h | h
    · exact Or.inr h
    · exact Or.inl (by simpa using h)

/-- every key of the meaning was already there or is the typed form of a written key -/
theorem den_keys (key : Key) : ∀ (es : SrcEntries) (acc : Entries), key ∈ keys (denSrcEs es acc) →
    key ∈ keys acc ∨ ∃ e ∈ es, keyOfScalar (parseKey e.1) = some key
  | [], acc, h => Or.inl (by simpa only [denSrcEs] using h)
  | (k, v) :: es, acc, h => by
    cases hko : keyOfScalar (parseKey k) with
    | none =>
      simp only [denSrcEs, hko] at h
      rcases den_keys key es acc h with h | ⟨e, he, hk⟩
      · exact Or.inl h
      · exact Or.inr ⟨e, by simp [he], hk⟩
    | some key' =>
      simp only [denSrcEs, hko] at h
      rcases den_keys key es _ h with h | ⟨e, he, hk⟩
      · rcases keys_setKey_sub h with rfl | h
        · exact Or.inr ⟨(k, v), by simp, hko⟩
        · exact Or.inl h
      · exact Or.inr ⟨e, by simp [he], hk⟩

theorem srcWF_keys {d : Nat} : ∀ {es : SrcEntries}, SrcWFEs d es = true → ∀ e ∈ es, isSrcWord e.1 = true
  | [], _, e, he => by cases he
  | (k, v) :: es, h, e, he => by
    simp only [SrcWFEs, Bool.and_eq_true] at h
    rcases List.mem_cons.mp he with rfl | he
    · exact h.1.1.1
    · exact srcWF_keys h.2 e he

/-- a string key that is not written at the top level is not in the meaning -/
theorem den_lookup_none {d : Nat} {es : SrcEntries} (h : SrcWFEs d es = true) {s : Str} (hs : ∀ e ∈ es, e.1 ≠ s) :
    lookup (.str s) (denSrcEs es []) = none := by
  rw [lookup_eq_none_iff]
  intro hm
  rcases den_keys _ es [] hm with hm | ⟨e, he, hk⟩
  · simp [keys] at hm
  · rcases typedKey_cases (srcWF_keys h e he) hk with ⟨z, hz⟩ | hz
    · cases hz
    · cases hz; exact hs e he rfl

end Main

open Main

/-! ## the side conditions, from the well-formedness of the document -/

/-- **1.** An admissible layout of a well-formed source document contains no `//`, no `/*` — also not across a token
    boundary: two tokens are glued only if one of them is a delimiter — and none of its lines starts (after white
    space) with `#`: a line starts at a gap or at a token, never inside a quoted string. -/
theorem noMarkup_of_wf {d : Nat} {es : SrcEntries} {gaps : List Str} {tail : Str} (h : SrcWFEs d es = true)
    (hg : GapsOKS (srcToksEs es) gaps = true) (ht : tail.all isWs = true) :
    NoMarkup (spreadS (srcToksEs es) gaps tail) :=
  noMarkup_spread _ gaps tail (srcToks_ok d es h) hg ht

/-- **2.** … and no `$`. -/
theorem no_dollar_of_wf {d : Nat} {es : SrcEntries} {gaps : List Str} {tail : Str} (h : SrcWFEs d es = true)
    (hg : GapsOKS (srcToksEs es) gaps = true) (ht : tail.all isWs = true) :
    '$' ∉ spreadS (srcToksEs es) gaps tail :=
  no_dollar_spread _ gaps tail (srcToks_ok d es h) hg ht

/-- **3.** The meaning of a well-formed source document has no placeholder key. -/
theorem den_noPh {d : Nat} {es : SrcEntries} (h : SrcWFEs d es = true) : C07.NoPhEs (denSrcEs es []) :=
  den_noPhEs es d [] h (by simp only [C07.NoPhEs])

/-- **4.** The meaning of any source document has unique keys at every dict level (it is built with `d[key] = value`).
    This is why the headline theorem needs no uniqueness hypothesis on the written keys: a key written twice simply
    denotes its last value (at its first position), for the grammar and for the reader alike. -/
theorem den_nodup (es : SrcEntries) : NodupKeysV (.dict (denSrcEs es [])) := den_nodupEs es [] C07.nodupV_nil

/-- **5.** Without the two documentation keys in the text there are none in the meaning. -/
theorem den_docKeys {d : Nat} {es : SrcEntries} (h : SrcWFEs d es = true) (hd : DocKeysAbsent es) :
    lookup (.str "_variables".toList) (denSrcEs es []) = none ∧
    lookup (.str "_includes".toList) (denSrcEs es []) = none :=
  ⟨den_lookup_none h fun e he => (hd e he).1, den_lookup_none h fun e he => (hd e he).2⟩

/-! ## the stages after the comment / include stages -/

/-- `parseBlock` on any admissible layout of a well-formed source document returns the documented meaning; the
    counter has advanced by the number of quoted strings -/
theorem parseBlock_den {es : SrcEntries} {gaps : List Str} {tail : Str} {c : Counter}
    (hwf : SrcWFEs 1 es = true) (hg : GapsOKS (srcToksEs es) gaps = true) (ht : tail.all isWs = true)
    (hc : C13.ValidCounter Gen.counterLimit c) (hn : countQuotedEs es ≤ Gen.counterLimit + 1) :
    parseBlock c (spreadS (srcToksEs es) gaps tail) =
      .ok (denSrcEs es [], (labelEs { counter := c } es).1.counter) := by
  rw [parse_block_spread c 1 es gaps tail hwf hg ht, insert_literals hwf hc hn]
  rfl

/-! ## C02 -/

/-- C02 with the condition on the documentation keys stated on the meaning instead of the text -/
theorem C02_layout_tolerant_gen {es : SrcEntries} {gaps : List Str} {tail : Str} {c : Counter}
    (comments : Bool) (dir : Str)
    (hwf : SrcWFEs 1 es = true) (hg : GapsOKS (srcToksEs es) gaps = true) (ht : tail.all isWs = true)
    (hc : C13.ValidCounter Gen.counterLimit c) (hn : countQuotedEs es ≤ Gen.counterLimit + 1)
    (h1 : lookup (.str "_variables".toList) (denSrcEs es []) = none)
    (h2 : lookup (.str "_includes".toList) (denSrcEs es []) = none) :
    parseNative comments dir c (spreadS (srcToksEs es) gaps tail) =
      .ok ({ data := denSrcEs es [] }, (labelEs { counter := c } es).1.counter) :=
  front_plain comments dir c _ (noMarkup_of_wf hwf hg ht) (no_dollar_of_wf hwf hg ht)
    (parseBlock_den hwf hg ht hc hn) (den_noPh hwf) (den_nodup es) h1 h2

/-- **C02, with the counter spelled out.** -/
theorem C02_layout_tolerant_counter {es : SrcEntries} {gaps : List Str} {tail : Str} {c : Counter}
    (comments : Bool) (dir : Str)
    (hwf : SrcWFEs 1 es = true) (hg : GapsOKS (srcToksEs es) gaps = true) (ht : tail.all isWs = true)
    (hc : C13.ValidCounter Gen.counterLimit c) (hn : countQuotedEs es ≤ Gen.counterLimit + 1)
    (hd : DocKeysAbsent es) :
    parseNative comments dir c (spreadS (srcToksEs es) gaps tail) =
      .ok ({ data := denSrcEs es [] }, (labelEs { counter := c } es).1.counter) :=
  C02_layout_tolerant_gen comments dir hwf hg ht hc hn (den_docKeys hwf hd).1 (den_docKeys hwf hd).2

/-- **C02 — the reader is layout tolerant and agrees with the documented grammar.**  For a well-formed source
    document `es` (keys and bare scalars are words, strings may be quoted; no comments, includes, `$`; leaf paths no
    longer than 10) and ANY admissible layout of its tokens — every gap white space of any kind (blanks, tabs, line
    feeds, CR LF, any `\s` character), two tokens glued only if one of them is a delimiter, white space in front and
    behind — the reader `parse_string`, with `comments` on or off, returns exactly the meaning `denSrcEs es []` the
    documentation gives the document, with all side tables empty.

    Hypotheses beyond the layout: the counter state is one that can occur; the document has at most
    `counterLimit + 1` quoted strings (else the wrapping counter hands out an id twice); the two documentation keys
    `_variables`, `_includes`, which the reader deletes, are not written at the top level.  No uniqueness hypothesis on
    the keys is needed (`den_nodup`). -/
theorem C02_layout_tolerant {es : SrcEntries} {gaps : List Str} {tail : Str} {c : Counter}
    (comments : Bool) (dir : Str) :
    SrcWFEs 1 es = true → GapsOKS (srcToksEs es) gaps = true → tail.all isWs = true →
    C13.ValidCounter Gen.counterLimit c → countQuotedEs es ≤ Gen.counterLimit + 1 →
    DocKeysAbsent es →
    ∃ c', parseNative comments dir c (spreadS (srcToksEs es) gaps tail) = .ok ({ data := denSrcEs es [] }, c') :=
  fun hwf hg ht hc hn hd => ⟨_, C02_layout_tolerant_counter comments dir hwf hg ht hc hn hd⟩

/-- two admissible layouts of the same document are read to the same data (and leave the same counter) -/
theorem C02_layout_independent_text' {es : SrcEntries} {gaps₁ gaps₂ : List Str} {tail₁ tail₂ : Str} {c : Counter}
    (comments : Bool) (dir : Str) (hwf : SrcWFEs 1 es = true)
    (hg₁ : GapsOKS (srcToksEs es) gaps₁ = true) (ht₁ : tail₁.all isWs = true)
    (hg₂ : GapsOKS (srcToksEs es) gaps₂ = true) (ht₂ : tail₂.all isWs = true)
    (hc : C13.ValidCounter Gen.counterLimit c) (hn : countQuotedEs es ≤ Gen.counterLimit + 1)
    (hd : DocKeysAbsent es) :
    parseNative comments dir c (spreadS (srcToksEs es) gaps₁ tail₁) =
      parseNative comments dir c (spreadS (srcToksEs es) gaps₂ tail₂) := by
  rw [C02_layout_tolerant_counter comments dir hwf hg₁ ht₁ hc hn hd,
    C02_layout_tolerant_counter comments dir hwf hg₂ ht₂ hc hn hd]

/-- the reader does not fail on an admissible layout of a well-formed document -/
theorem C02_never_fails {es : SrcEntries} {gaps : List Str} {tail : Str} {c : Counter}
    (comments : Bool) (dir : Str)
    (hwf : SrcWFEs 1 es = true) (hg : GapsOKS (srcToksEs es) gaps = true) (ht : tail.all isWs = true)
    (hc : C13.ValidCounter Gen.counterLimit c) (hn : countQuotedEs es ≤ Gen.counterLimit + 1)
    (hd : DocKeysAbsent es) :
    ∃ r, parseNative comments dir c (spreadS (srcToksEs es) gaps tail) = .ok r :=
  ⟨_, C02_layout_tolerant_counter comments dir hwf hg ht hc hn hd⟩

/-! ## non-vacuity of C02: the example document of `C02lex` (three quoted strings, a list, a nested dict) -/

def exData : Entries :=
  [ (.str ['k'], .leaf (.str "a; {b}".toList)),
    (.str ['l'], .list [.leaf (.str "it's".toList), .leaf (.int 1)]),
    (.str "sub".toList, .dict [(.str ['p'], .leaf (.str "x y".toList))]) ]

theorem exSrc_den : denSrcEs exSrc [] = exData := by decide +kernel

theorem exSrc_docKeys : DocKeysAbsent exSrc := by decide

theorem exSrc_count : countQuotedEs exSrc = 3 := by decide

/-- the whole reader on the glued layout -/
theorem ex_native_glued (comments : Bool) (dir : Str) :
    parseNative comments dir none "k 'a; {b}';l(\"it's\" 1);sub{p 'x y';}".toList =
      .ok ({ data := exData }, some 2) := by
  have h := C02_layout_tolerant_counter (c := none) (tail := []) comments dir exSrc_wf exSGapsGlued_ok rfl
    (Or.inl rfl) (by rw [exSrc_count]; decide) exSrc_docKeys
  rwa [exSGlued_text, exSrc_den, exSrc_label_st.1] at h

/-- … and on the layout with tabs, CR LF, a no-break space, a leading tab and a trailing CR LF -/
theorem ex_native_loose (comments : Bool) (dir : Str) :
    parseNative comments dir none
        "\tk  'a; {b}' ;\r\nl (\t\"it's\"\u00a01 );\r\n\r\nsub\n{\n  p\t\t'x y';\n}\r\n".toList =
      .ok ({ data := exData }, some 2) := by
  have h := C02_layout_tolerant_counter (c := none) (tail := ['\r', '\n']) comments dir exSrc_wf exSGapsLoose_ok
    (by decide) (Or.inl rfl) (by rw [exSrc_count]; decide) exSrc_docKeys
  rwa [exSLoose_text, exSrc_den, exSrc_label_st.1] at h

/-! ### a key written twice: no uniqueness hypothesis is needed -/

/-- `a 1;a 2;` -/
def exDup : SrcEntries := [(['a'], .lit (.bare ['1'])), (['a'], .lit (.bare ['2']))]

/-- the document means `{a: 2}` and that is what the reader returns -/
theorem ex_native_dup (comments : Bool) (dir : Str) :
    parseNative comments dir none "a 1;a 2;".toList = .ok ({ data := [(.str ['a'], .leaf (.int 2))] }, none) := by
  have h := C02_layout_tolerant_counter (es := exDup) (gaps := [[], [' '], [], [], [' '], []]) (c := none) (tail := [])
    comments dir (by decide) (by decide) rfl (Or.inl rfl) (by decide) (by decide)
  have e1 : spreadS (srcToksEs exDup) [[], [' '], [], [], [' '], []] [] = "a 1;a 2;".toList := by decide
  have e2 : denSrcEs exDup [] = [(.str ['a'], .leaf (.int 2))] := by decide +kernel
  rwa [e1, e2] at h

/-! ### the hypothesis on the documentation keys is needed -/

/-- `_variables 1;` -/
def exVars : SrcEntries := [("_variables".toList, .lit (.bare ['1']))]

/-- the document is well formed and means `{_variables: 1}`, but the reader's `_clean` deletes the entry -/
theorem C02_needs_docKeys :
    SrcWFEs 1 exVars = true ∧ GapsOKS (srcToksEs exVars) [[], [' '], []] = true ∧
    ¬ ∃ c', parseNative true [] none (spreadS (srcToksEs exVars) [[], [' '], []] []) =
      .ok ({ data := denSrcEs exVars [] }, c') := by
  have hwf : SrcWFEs 1 exVars = true := by decide
  have hg : GapsOKS (srcToksEs exVars) [[], [' '], []] = true := by decide
  refine ⟨hwf, hg, ?_⟩
  have ht : ([] : Str).all isWs = true := rfl
  have hb := parseBlock_den (c := none) hwf hg ht (Or.inl rfl) (by decide)
  rw [front_id true [] none (noMarkup_of_wf hwf hg ht) (no_dollar_of_wf hwf hg ht), hb]
  simp only [Except.map, clean_plain (den_noPh hwf) (den_nodup _)]
  rintro ⟨c', h⟩
  have h' : dropDocKeys (denSrcEs exVars []) = denSrcEs exVars [] :=
    congrArg (fun r => match r with | .ok x => x.1.data | .error _ => []) h
  revert h'
  decide +kernel

end DictIO.C02

/-! ## C01, route 1 (formatter + parser on strings), native flavour -/

namespace DictIO.C01
open DictIO

/-- no top-level key is `_variables` or `_includes` -/
def DocKeysAbsent' (es : Entries) : Prop :=
  ∀ e ∈ es, e.1 ≠ .str "_variables".toList ∧ e.1 ≠ .str "_includes".toList

instance (es : Entries) : Decidable (DocKeysAbsent' es) := by unfold DocKeysAbsent'; infer_instance

theorem norm_lookup_none {es : Entries} {k : Key} (h : ∀ e ∈ es, e.1 ≠ k) : lookup k (normEs es) = none := by
  rw [lookup_eq_none_iff, keys_normEs]
  intro hm
  obtain ⟨e, he, hk⟩ := List.mem_map.mp hm
  exact h e he hk

/-- **C01 (strings, native).**  For a dict of the value domain, the text the native writer produces is read back by
    the native reader — with `comments` on or off — as the dict with the documented element-type normalisation
    (`normEs`: a string that spells a number, boolean or none comes back typed), with all side tables empty.

    Hypotheses: the two documentation keys, which the reader deletes, are not among the top-level keys; the writer
    quotes at most `counterLimit + 1` strings; the counter state is one that can occur. -/
theorem C01_roundtrip_string {es : Entries} {c : Counter} (comments : Bool) (dir : Str) :
    DomC01 .native es = true → DocKeysAbsent' es →
    C02.countQuotedEs (srcOfEs .native es) ≤ Gen.counterLimit + 1 → C13.ValidCounter Gen.counterLimit c →
    ∃ c', parseNative comments dir c (fmtPlain .native es) = .ok ({ data := normEs es }, c') := by
  intro h hd hn hc
  obtain ⟨hwf, hden, gaps, tail, e, hg, ht⟩ := C01_writer h
  refine ⟨(labelEs { counter := c } (srcOfEs .native es)).1.counter, ?_⟩
  rw [e, ← hden]
  refine C02.C02_layout_tolerant_gen comments dir hwf hg ht hc hn ?_ ?_
  · rw [hden]; exact norm_lookup_none fun e he => (hd e he).1
  · rw [hden]; exact norm_lookup_none fun e he => (hd e he).2

/-- the writer followed by the reader never fails on the domain -/
theorem C01_roundtrip_never_fails {es : Entries} {c : Counter} (comments : Bool) (dir : Str)
    (h : DomC01 .native es = true) (hd : DocKeysAbsent' es)
    (hn : C02.countQuotedEs (srcOfEs .native es) ≤ Gen.counterLimit + 1) (hc : C13.ValidCounter Gen.counterLimit c) :
    ∃ r, parseNative comments dir c (fmtPlain .native es) = .ok r := by
  obtain ⟨c', h'⟩ := C01_roundtrip_string comments dir h hd hn hc
  exact ⟨_, h'⟩

/-! ### non-vacuity: the example dict of `C01fmt` -/

theorem exDict_docKeys : DocKeysAbsent' exDict := by decide

theorem exDict_count : C02.countQuotedEs (srcOfEs .native exDict) = 4 := by decide +kernel

/-- `{'k': 'a;b', 'l': [1, 'x y', {'q': "it's"}], 's': {'t': 2.5, 7: None}, 'e': ''}` written and read back -/
theorem exDict_roundtrip (comments : Bool) (dir : Str) :
    ∃ c', parseNative comments dir none (unlines
      ["k                             'a;b';",
       "l",
       "(",
       "    1                 'x y'",
       "    {",
       "        q                     \"it's\";",
       "    }",
       ");",
       "s",
       "{",
       "    t                         2.5;",
       "    7                         NULL;",
       "}",
       "e                             '';"]) = .ok ({ data := exDict }, c') := by
  have h := C01_roundtrip_string (c := none) comments dir exDict_dom exDict_docKeys
    (by rw [exDict_count]; decide) (Or.inl rfl)
  rwa [exDict_text, exDict_norm] at h

end DictIO.C01
