/-
  C02 — layout tolerance of the native reader, at token level.

  For every well-formed token tree (`TokWFEs`), whatever white space is put between its tokens
  (`spread … gaps tail` with `GapsOK`), the pipeline   tokenize → levels → parseDictToks   yields exactly
  the tree's documented denotation `denEs`.

    A  `levels_toks` (+ `levels_toksV/Xs`)   the hierarchy annotation of a generated token stream is the nesting depth
    B  `scan_dict`, `scan_list` (invariants `scanEs`, `scanXs`), `C02_scan`
                                             the index-based scanner computes the denotation of the token tree
    C  `tokenize_spread`, `toks_all_word_or_delim`
                                             delimiter separation + white-space splitting recovers the tokens of any layout
    D  `C02_layout_tolerant_tokens`, `C02_layout_independent`
    E  `exTree…`, `ex_glued`, `ex_loose`     a concrete instance (non-vacuity)

  Only added hypothesis: `Boundary lvl prev0` in `scan_dict` (decidable, true for `prev0 = []`, which is how the
  reader calls the scanner); `scan_dict_needs_boundary` refutes the statement without it.
  `ph_word_not_denoted` shows that `TokWF`'s exclusion of words containing `COMMENT` / `INCLUDE` is needed.
-/
import DictIO.Model.Grammar

namespace DictIO.C02
open DictIO

/-! ### level-annotated token streams of token trees -/

mutual
  /-- `toksV` with every token paired with its nesting level: brackets carry the level of their
      surroundings, the tokens between them are one deeper -/
  def ltoksV (lvl : Int) : Val → List Tok
    | .leaf (.str w) => [(lvl, w)]
    | .leaf _ => []
    | .dict es => (lvl, ['{']) :: ltoksEs (lvl + 1) es ++ [(lvl, ['}'])]
    | .list xs => (lvl, ['(']) :: ltoksXs (lvl + 1) xs ++ [(lvl, [')'])]
  def ltoksEs (lvl : Int) : Entries → List Tok
    | [] => []
    | (.str k, .leaf (.str w)) :: es =>
      (if isPhTok k then [(lvl, k)] else [(lvl, k), (lvl, w), (lvl, [';'])]) ++ ltoksEs lvl es
    | (.str k, .dict d) :: es =>
      (lvl, k) :: (lvl, ['{']) :: ltoksEs (lvl + 1) d ++ [(lvl, ['}'])] ++ ltoksEs lvl es
    | (.str k, .list l) :: es =>
      (lvl, k) :: (lvl, ['(']) :: ltoksXs (lvl + 1) l ++ [(lvl, [')']), (lvl, [';'])] ++ ltoksEs lvl es
    | _ :: es => ltoksEs lvl es
  def ltoksXs (lvl : Int) : List Val → List Tok
    | [] => []
    | v :: xs => ltoksV lvl v ++ ltoksXs lvl xs
end

/-- `prev` (the tokens already passed, nearest first) ends a statement of level `lvl`: the backward scan
    from a `;` stops immediately (nothing there, or `;`, `}`, a placeholder token, or a token of another level). -/
def Boundary (lvl : Int) (prev : List Tok) : Prop := kvBefore lvl prev = []

instance (lvl : Int) (prev : List Tok) : Decidable (Boundary lvl prev) := by
  unfold Boundary; infer_instance

/-! ## helper lemmas -/

/-! ### character facts -/

theorem isWs_space : isWs ' ' = true := by decide

theorem delim_not_ws : ∀ c ∈ Gen.delimiters, isWs c = false := by decide

theorem ws_not_delim {c : Char} (h : isWs c = true) : Gen.delimiters.contains c = false := by
  cases hd : Gen.delimiters.contains c with
  | false => rfl
  | true =>
    have := delim_not_ws c (by simpa using hd)
    simp [h] at this

/-! ### word tokens are transparent for every single-character test of the scanner -/

theorem wordTok_single {c : Char} (h : isWordTok [c] = true) :
    Gen.openingBrackets.contains c = false ∧ Gen.closingBrackets.contains c = false ∧
      Gen.delimiters.contains c = false := by
  simp [isWordTok] at h
  simp [h]

theorem wordTok_not_open {c : Char} (h : isWordTok [c] = true) : Gen.openingBrackets.contains c = false :=
  (wordTok_single h).1

theorem wordTok_not_close {c : Char} (h : isWordTok [c] = true) : Gen.closingBrackets.contains c = false :=
  (wordTok_single h).2.1

theorem wordTok_ne_semi {c : Char} (h : isWordTok [c] = true) : (c == ';') = false := by
  have := (wordTok_single h).2.2
  simp [Gen.delimiters] at this
  simp [this]

theorem wordTok_ne_parens {c : Char} (h : isWordTok [c] = true) : (c == '(' || c == ')' || c == ';') = false := by
  have := (wordTok_single h).2.2
  simp [Gen.delimiters] at this
  simp [this]

theorem wordTok_ne_delimTok {w : Str} (h : isWordTok w = true) {c : Char} (hc : Gen.delimiters.contains c = true) :
    w ≠ [c] := by
  rintro rfl
  rw [(wordTok_single h).2.2] at hc
  cases hc

theorem wordTok_ne_semiTok {w : Str} (h : isWordTok w = true) : (w != [';']) = true := by
  simpa using wordTok_ne_delimTok h (c := ';') (by decide)

theorem wordTok_ne_rbraceTok {w : Str} (h : isWordTok w = true) : (w != ['}']) = true := by
  simpa using wordTok_ne_delimTok h (c := '}') (by decide)

theorem wordTok_ne_rparenTok {w : Str} (h : isWordTok w = true) : (w == [')']) = false := by
  simpa using wordTok_ne_delimTok h (c := ')') (by decide)

theorem notPh {w : Str} (h : isPhTok w = false) : isCommentTok w = false ∧ isIncludeTok w = false := by
  simpa [isPhTok] using h

/-! ### `levels` on single tokens -/

theorem levels_word (lvl : Int) {w : Str} (ts : List Str) (h : isWordTok w = true) :
    levels lvl (w :: ts) = (lvl, w) :: levels lvl ts := by
  match w, h with
  | [], _ => rfl
  | [c], h => simp only [levels, wordTok_not_open h, wordTok_not_close h, Bool.false_eq_true, if_false]
  | _ :: _ :: _, _ => rfl

theorem levels_open (lvl : Int) (c : Char) (ts : List Str) (h : Gen.openingBrackets.contains c = true) :
    levels lvl ([c] :: ts) = (lvl, [c]) :: levels (lvl + 1) ts := by
  simp only [levels, h, if_true]

theorem levels_close (lvl : Int) (c : Char) (ts : List Str) (h : Gen.closingBrackets.contains c = true)
    (h' : Gen.openingBrackets.contains c = false) :
    levels (lvl + 1) ([c] :: ts) = (lvl, [c]) :: levels lvl ts := by
  simp only [levels, h, h', if_true, Bool.false_eq_true, if_false, Int.add_sub_cancel]

theorem levels_semi (lvl : Int) (ts : List Str) : levels lvl ([';'] :: ts) = (lvl, [';']) :: levels lvl ts := by
  have h1 : Gen.openingBrackets.contains ';' = false := by decide
  have h2 : Gen.closingBrackets.contains ';' = false := by decide
  simp only [levels, h1, h2, Bool.false_eq_true, if_false]

/-! ### scanner steps of `parseDictToks` -/

/-- a word token that is not a placeholder is passed over -/
theorem pd_word (top : Bool) (prev : List Tok) (l : Int) (w : Str) (rest : List Tok) (acc : Entries)
    (hw : isWordTok w = true) (hp : isPhTok w = false) :
    parseDictToks top prev ((l, w) :: rest) acc = parseDictToks top ((l, w) :: prev) rest acc := by
  conv => lhs; rw [parseDictToks.eq_def]
  simp only [isPhTok] at hp
  simp only []
  split
  · simp only [wordTok_not_open hw, wordTok_ne_semi hw, hp, Bool.false_eq_true, if_false]
  · simp [hp]

/-- (v) a placeholder token is stored as `ph ↦ ph` -/
theorem pd_ph (top : Bool) (prev : List Tok) (l : Int) (w : Str) (rest : List Tok) (acc : Entries)
    (hw : isWordTok w = true) (hp : isPhTok w = true) :
    parseDictToks top prev ((l, w) :: rest) acc =
      parseDictToks top ((l, w) :: prev) rest (setKey (.str w) (.leaf (.str w)) acc) := by
  conv => lhs; rw [parseDictToks.eq_def]
  simp only [isPhTok] at hp
  simp only []
  split
  · simp only [wordTok_not_open hw, wordTok_ne_semi hw, hp, Bool.false_eq_true, if_false, if_true]
  · simp [hp]

/-- (iv) the `;` after `)` is skipped -/
theorem pd_semi_rparen (top : Bool) (p : Tok) (prev : List Tok) (l : Int) (rest : List Tok) (acc : Entries)
    (hp : p.2 = [')']) :
    parseDictToks top (p :: prev) ((l, [';']) :: rest) acc = parseDictToks top ((l, [';']) :: p :: prev) rest acc := by
  conv => lhs; rw [parseDictToks.eq_def]
  simp only [hp]
  simp [Gen.openingBrackets]

/-- (i) the `;` of `k w ;` stores the pair found by the backward scan -/
theorem pd_semi_kv (top : Bool) (p : Tok) (prev : List Tok) (l : Int) (rest : List Tok) (acc : Entries)
    (v ktxt : Str) (key : Key)
    (hp : (p.2 == [')']) = false) (hkv : kvBefore l (p :: prev) = [v, ktxt])
    (hkey : keyOfScalar (parseKey ktxt) = some key) :
    parseDictToks top (p :: prev) ((l, [';']) :: rest) acc =
      parseDictToks top ((l, [';']) :: p :: prev) rest (setKey key (.leaf (parseValue v)) acc) := by
  conv => lhs; rw [parseDictToks.eq_def]
  simp only [hp, hkv, hkey]
  simp [Gen.openingBrackets]

/-- (ii) the forward scan finds the closing bracket right after a body whose tokens are all off-level -/
theorem splitGroup_skip (cl : Str) (lvl : Int) (body after : List Tok) (h : ∀ t ∈ body, t.1 ≠ lvl) :
    splitGroup cl lvl (body ++ (lvl, cl) :: after) = some (body, after) := by
  induction body with
  | nil => simp [splitGroup]
  | cons t body ih =>
    have h1 : t.1 ≠ lvl := h t (by simp)
    have := ih (fun t ht => h t (by simp [ht]))
    simp [splitGroup, h1, this]

/-- `k { body }` -/
theorem pd_brace (top : Bool) (prev : List Tok) (l : Int) (rest inside after : List Tok) (acc : Entries)
    (k : Str) (key : Key) (d : Entries)
    (hk : keyBefore prev = some k) (hs : splitGroup ['}'] l rest = some (inside, after))
    (hkey : keyOfScalar (parseKey k) = some key)
    (hd : parseDictToks false [] inside [] = .ok d) :
    parseDictToks top prev ((l, ['{']) :: rest) acc =
      parseDictToks top ((l, ['}']) :: (inside.reverse ++ (l, ['{']) :: prev)) after (setKey key (.dict d) acc) := by
  conv => lhs; rw [parseDictToks.eq_def]
  have hc : companion '{' = some '}' := by decide
  have ho : Gen.openingBrackets.contains '{' = true := by decide
  simp only [ho, hk, hc, if_true]
  split
  · rename_i heq; rw [hs] at heq; cases heq
  · rename_i inside' after' heq
    rw [hs] at heq; cases heq
    simp [hkey, hd]

/-- `k ( body ) …` with at least one token after `)` ((vi): the look-ahead guard does not fire) -/
theorem pd_paren (top : Bool) (prev : List Tok) (l : Int) (rest inside : List Tok) (a : Tok) (after : List Tok)
    (acc : Entries) (k : Str) (key : Key) (xs : List Val)
    (hk : keyBefore prev = some k) (hs : splitGroup [')'] l rest = some (inside, a :: after))
    (hkey : keyOfScalar (parseKey k) = some key)
    (hd : parseListToks (l + 1) inside [] = .ok xs) :
    parseDictToks top prev ((l, ['(']) :: rest) acc =
      parseDictToks top ((l, [')']) :: (inside.reverse ++ (l, ['(']) :: prev)) (a :: after)
        (setKey key (.list xs) acc) := by
  conv => lhs; rw [parseDictToks.eq_def]
  have hc : companion '(' = some ')' := by decide
  have ho : Gen.openingBrackets.contains '(' = true := by decide
  simp only [ho, hk, hc, if_true]
  split
  · rename_i heq; rw [hs] at heq; cases heq
  · rename_i inside' after' heq
    rw [hs] at heq; cases heq
    simp only [hkey]
    cases inside with
    | nil =>
      rw [parseListToks.eq_def] at hd
      simp at hd; subst hd; simp
    | cons i is => simp [hd]

/-! ### scanner steps of `parseListToks` -/

theorem pl_word (lvl l : Int) (w : Str) (rest : List Tok) (acc : List Val) (hw : isWordTok w = true) :
    parseListToks lvl ((l, w) :: rest) acc = parseListToks lvl rest (acc ++ [.leaf (parseValue w)]) := by
  conv => lhs; rw [parseListToks.eq_def]
  simp only []
  split
  · simp only [wordTok_not_open hw, wordTok_ne_parens hw, Bool.false_eq_true, if_false]
  · rfl

theorem pl_brace (lvl l : Int) (rest inside after : List Tok) (acc : List Val) (d : Entries)
    (hs : splitGroup ['}'] l rest = some (inside, after))
    (hd : parseDictToks false [] inside [] = .ok d) :
    parseListToks lvl ((l, ['{']) :: rest) acc = parseListToks lvl after (acc ++ [.dict d]) := by
  conv => lhs; rw [parseListToks.eq_def]
  have hc : companion '{' = some '}' := by decide
  have ho : Gen.openingBrackets.contains '{' = true := by decide
  simp only [ho, hc, if_true]
  split
  · rename_i heq; rw [hs] at heq; cases heq
  · rename_i inside' after' heq
    rw [hs] at heq; cases heq
    simp [hd]

theorem pl_paren (lvl l : Int) (rest inside after : List Tok) (acc : List Val) (xs : List Val)
    (hs : splitGroup [')'] l rest = some (inside, after))
    (hd : parseListToks (l + 1) inside [] = .ok xs) :
    parseListToks lvl ((l, ['(']) :: rest) acc = parseListToks lvl after (acc ++ [.list xs]) := by
  conv => lhs; rw [parseListToks.eq_def]
  have hc : companion '(' = some ')' := by decide
  have ho : Gen.openingBrackets.contains '(' = true := by decide
  simp only [ho, hc, if_true]
  split
  · rename_i heq; rw [hs] at heq; cases heq
  · rename_i inside' after' heq
    rw [hs] at heq; cases heq
    cases inside with
    | nil =>
      rw [parseListToks.eq_def] at hd
      simp at hd; subst hd; simp
    | cons i is => simp [hd]

/-! ### all tokens of a body are at least as deep as the body -/

mutual
  theorem ltoksV_ge : ∀ (v : Val) (l : Int), ∀ t ∈ ltoksV l v, l ≤ t.1
    | .leaf x, l, t, ht => by
      cases x <;> simp [ltoksV] at ht
      subst ht; simp
    | .dict es, l, t, ht => by
      simp only [ltoksV, List.mem_cons, List.mem_append, List.not_mem_nil, or_false, or_assoc] at ht
      rcases ht with rfl | ht | rfl
      · simp
      · have := ltoksEs_ge es (l + 1) t ht; omega
      · simp
    | .list xs, l, t, ht => by
      simp only [ltoksV, List.mem_cons, List.mem_append, List.not_mem_nil, or_false, or_assoc] at ht
      rcases ht with rfl | ht | rfl
      · simp
      · have := ltoksXs_ge xs (l + 1) t ht; omega
      · simp
  theorem ltoksEs_ge : ∀ (es : Entries) (l : Int), ∀ t ∈ ltoksEs l es, l ≤ t.1
    | [], l, t, ht => by simp [ltoksEs] at ht
    | (.int z, v) :: es, l, t, ht => by
      simp only [ltoksEs] at ht
      exact ltoksEs_ge es l t ht
    | (.str k, .leaf x) :: es, l, t, ht => by
      cases x with
      | str w =>
        simp only [ltoksEs, List.mem_append] at ht
        rcases ht with ht | ht
        · split at ht <;> simp at ht <;> rcases ht with rfl | rfl | rfl <;> simp
        · exact ltoksEs_ge es l t ht
      | _ =>
        simp only [ltoksEs] at ht
        exact ltoksEs_ge es l t ht
    | (.str k, .dict d) :: es, l, t, ht => by
      simp only [ltoksEs, List.mem_cons, List.mem_append, List.not_mem_nil, or_false, or_assoc] at ht
      rcases ht with rfl | rfl | ht | rfl | ht
      · simp
      · simp
      · have := ltoksEs_ge d (l + 1) t ht; omega
      · simp
      · exact ltoksEs_ge es l t ht
    | (.str k, .list xs) :: es, l, t, ht => by
      simp only [ltoksEs, List.mem_cons, List.mem_append, List.not_mem_nil, or_false, or_assoc] at ht
      rcases ht with rfl | rfl | ht | rfl | rfl | ht
      · simp
      · simp
      · have := ltoksXs_ge xs (l + 1) t ht; omega
      · simp
      · simp
      · exact ltoksEs_ge es l t ht
  theorem ltoksXs_ge : ∀ (xs : List Val) (l : Int), ∀ t ∈ ltoksXs l xs, l ≤ t.1
    | [], l, t, ht => by simp [ltoksXs] at ht
    | v :: xs, l, t, ht => by
      simp only [ltoksXs, List.mem_append] at ht
      rcases ht with ht | ht
      · exact ltoksV_ge v l t ht
      · exact ltoksXs_ge xs l t ht
end

/-! ### statement boundaries, backward scans, empty inputs -/

theorem boundary_nil (lvl : Int) : Boundary lvl [] := rfl

theorem boundary_semi (lvl : Int) (prev : List Tok) : Boundary lvl ((lvl, [';']) :: prev) := by
  simp [Boundary, kvBefore]

theorem boundary_rbrace (lvl : Int) (prev : List Tok) : Boundary lvl ((lvl, ['}']) :: prev) := by
  simp [Boundary, kvBefore]

theorem boundary_ph (lvl : Int) (k : Str) (prev : List Tok) (h : isPhTok k = true) :
    Boundary lvl ((lvl, k) :: prev) := by
  simp only [isPhTok, Bool.or_eq_true] at h
  rcases h with h | h <;> simp [Boundary, kvBefore, h]

theorem kvBefore_word (lvl : Int) (w : Str) (prev : List Tok) (hw : isWordTok w = true) (hp : isPhTok w = false) :
    kvBefore lvl ((lvl, w) :: prev) = w :: kvBefore lvl prev := by
  simp [kvBefore, wordTok_ne_semiTok hw, wordTok_ne_rbraceTok hw, (notPh hp).1, (notPh hp).2]

/-- (iii) the key of a nested structure is the token right before the bracket -/
theorem keyBefore_word (lvl : Int) (k : Str) (prev : List Tok) (hp : isPhTok k = false) :
    keyBefore ((lvl, k) :: prev) = some k := by
  simp [keyBefore, (notPh hp).1]

theorem pd_nil (top : Bool) (prev : List Tok) (acc : Entries) : parseDictToks top prev [] acc = .ok acc := by
  rw [parseDictToks.eq_def]

theorem pl_nil (lvl : Int) (acc : List Val) : parseListToks lvl [] acc = .ok acc := by
  rw [parseListToks.eq_def]

/-! ### the tokenizer on white space, words and delimiters -/

/-- `_separate_delimiters`: every delimiter character gets a blank on both sides -/
def sepD (s : Str) : Str := s.flatMap fun c => if Gen.delimiters.contains c then [' ', c, ' '] else [c]

theorem tokenize_eq (s : Str) : tokenize s = tokenize.go [] (sepD s) := rfl

/-- emit the pending word, if any -/
def flush (cur : Str) (l : List Str) : List Str := if cur.isEmpty then l else cur.reverse :: l

theorem flush_nil (l : List Str) : flush [] l = l := rfl

theorem sepD_append (a b : Str) : sepD (a ++ b) = sepD a ++ sepD b := by
  simp [sepD, List.flatMap_append]

theorem sepD_plain (w : Str) (hw : ∀ c ∈ w, Gen.delimiters.contains c = false) : sepD w = w := by
  induction w with
  | nil => rfl
  | cons a w ih =>
    have ha : Gen.delimiters.contains a = false := hw a (by simp)
    have := ih (fun c hc => hw c (by simp [hc]))
    simp only [sepD, List.flatMap_cons, ha, Bool.false_eq_true, if_false, List.singleton_append] at this ⊢
    rw [this]

theorem sepD_ws (s : Str) (h : s.all isWs = true) : sepD s = s :=
  sepD_plain s fun c hc => ws_not_delim (List.all_eq_true.mp h c hc)

theorem go_nil (cur : Str) : tokenize.go cur [] = flush cur [] := by
  simp [tokenize.go, flush]

/-- white space after a (possibly empty) pending word -/
theorem go_ws (s rest cur : Str) (h : s.all isWs = true) (hne : cur = [] ∨ s ≠ []) :
    tokenize.go cur (s ++ rest) = flush cur (tokenize.go [] rest) := by
  induction s generalizing cur with
  | nil =>
    rcases hne with rfl | h'
    · rfl
    · exact absurd rfl h'
  | cons a s ih =>
    simp only [List.all_cons, Bool.and_eq_true] at h
    have key : tokenize.go [] (s ++ rest) = tokenize.go [] rest := by
      simpa [flush] using ih [] h.2 (Or.inl rfl)
    cases cur with
    | nil => simp [tokenize.go, h.1, flush, key]
    | cons c cur => simp [tokenize.go, h.1, flush, key]

theorem go_word (w rest cur : Str) (hw : ∀ c ∈ w, isWs c = false) :
    tokenize.go cur (w ++ rest) = tokenize.go (w.reverse ++ cur) rest := by
  induction w generalizing cur with
  | nil => rfl
  | cons a w ih =>
    have ha : isWs a = false := hw a (by simp)
    simp [tokenize.go, ha, ih _ (fun c hc => hw c (by simp [hc]))]

theorem wordTok_chars {w : Str} (h : isWordTok w = true) :
    w ≠ [] ∧ (∀ c ∈ w, isWs c = false) ∧ (∀ c ∈ w, Gen.delimiters.contains c = false) := by
  simp only [isWordTok, Bool.and_eq_true, Bool.not_eq_true', List.all_eq_true] at h
  refine ⟨by simpa using h.1.1, fun c hc => (h.1.2 c hc).1, fun c hc => (h.1.2 c hc).2⟩

theorem wordTok_not_delimTok {w : Str} (h : isWordTok w = true) : isDelimTok w = false := by
  match w, h with
  | [], _ => rfl
  | [c], h => simpa [isDelimTok] using (wordTok_single h).2.2
  | _ :: _ :: _, _ => rfl

/-- a delimiter token after any amount of white space (none included) -/
theorem go_tok_delim (g : Str) (c : Char) (rest cur : Str) (hg : g.all isWs = true)
    (hc : Gen.delimiters.contains c = true) :
    tokenize.go cur (g ++ sepD [c] ++ rest) = flush cur ([c] :: tokenize.go [] rest) := by
  have hcw : isWs c = false := delim_not_ws c (by simpa using hc)
  have e : g ++ sepD [c] ++ rest = (g ++ [' ']) ++ (c :: ' ' :: rest) := by
    simp only [sepD, List.flatMap_cons, List.flatMap_nil, hc, if_true, List.append_assoc, List.cons_append,
      List.nil_append, List.append_nil]
  rw [e, go_ws (g ++ [' ']) _ cur (by simp [hg, isWs_space]) (Or.inr (by simp))]
  simp [tokenize.go, hcw, isWs_space]

/-- a word token after white space (which may be missing only when no word is pending) -/
theorem go_tok_word (g w rest cur : Str) (hg : g.all isWs = true) (hw : isWordTok w = true)
    (hne : cur = [] ∨ g ≠ []) :
    tokenize.go cur (g ++ sepD w ++ rest) = flush cur (tokenize.go w.reverse rest) := by
  obtain ⟨_, h1, h2⟩ := wordTok_chars hw
  rw [sepD_plain w h2, List.append_assoc, go_ws g _ cur hg hne, go_word w rest [] h1]
  simp

/-- what `GapsOK` says about the gap in front of the first token, given what precedes it -/
def SepHead : List Str → List Str → Prop
  | t :: _, g :: _ => isDelimTok t = true ∨ g ≠ []
  | _, _ => True

theorem gapsOK_cons {t : Str} {ts : List Str} {g : Str} {gs : List Str}
    (h : GapsOK (t :: ts) (g :: gs) = true) (hlen : ts.length ≤ gs.length) :
    g.all isWs = true ∧ GapsOK ts gs = true ∧ (isDelimTok t = false → SepHead ts gs) := by
  match ts, gs, h, hlen with
  | [], _, h, _ => exact ⟨by simpa [GapsOK] using h, rfl, fun _ => trivial⟩
  | u :: ts, [], _, hlen => simp at hlen
  | u :: ts, g' :: gs, h, _ =>
    simp only [GapsOK, Bool.and_eq_true, Bool.or_eq_true, Bool.not_eq_true', List.isEmpty_eq_false_iff] at h
    refine ⟨h.1.1, h.2, fun ht => ?_⟩
    rcases h.1.2 with (h' | h') | h'
    · simp [ht] at h'
    · exact Or.inl h'
    · exact Or.inr h'

theorem go_spread : ∀ (toks gaps : List Str) (tail cur : Str),
    (∀ t ∈ toks, isWordTok t = true ∨ isDelimTok t = true) → toks.length ≤ gaps.length →
    GapsOK toks gaps = true → tail.all isWs = true → (cur = [] ∨ SepHead toks gaps) →
    tokenize.go cur (sepD (spread toks gaps tail)) = flush cur toks
  | [], gaps, tail, cur, _, _, _, htail, _ => by
    simp only [spread, sepD_ws tail htail]
    cases tail with
    | nil => exact go_nil cur
    | cons a tl => simpa [go_nil, flush] using go_ws (a :: tl) [] cur htail (Or.inr (by simp))
  | t :: ts, [], _, _, _, hlen, _, _, _ => by simp at hlen
  | t :: ts, g :: gs, tail, cur, htoks, hlen, hg, htail, hcur => by
    have hlen' : ts.length ≤ gs.length := by simpa using hlen
    obtain ⟨hgws, hrest, hsep⟩ := gapsOK_cons hg hlen'
    have htoks' : ∀ t ∈ ts, isWordTok t = true ∨ isDelimTok t = true := fun u hu => htoks u (by simp [hu])
    simp only [spread, sepD_append, sepD_ws g hgws]
    cases hd : isDelimTok t with
    | true =>
      obtain ⟨c, rfl, hc⟩ : ∃ c, t = [c] ∧ Gen.delimiters.contains c = true := by
        match t, hd with
        | [c], hd => exact ⟨c, rfl, by simpa [isDelimTok] using hd⟩
      rw [go_tok_delim g c _ cur hgws hc, go_spread ts gs tail [] htoks' hlen' hrest htail (Or.inl rfl)]
      rfl
    | false =>
      have hw : isWordTok t = true := by
        rcases htoks t (by simp) with h | h
        · exact h
        · simp [hd] at h
      have hne : cur = [] ∨ g ≠ [] := by
        rcases hcur with h | h
        · exact Or.inl h
        · rcases h with h | h
          · simp [hd] at h
          · exact Or.inr h
      rw [go_tok_word g t _ cur hgws hw hne,
        go_spread ts gs tail t.reverse htoks' hlen' hrest htail (Or.inr (hsep hd))]
      have : t.reverse.isEmpty = false := by simpa using (wordTok_chars hw).1
      simp [flush, this]

theorem gapsOK_len : ∀ (toks gaps : List Str), GapsOK toks gaps = true →
    toks.length ≤ gaps.length ∨ ∃ t, toks = [t] ∧ gaps = []
  | [], _, _ => Or.inl (by simp)
  | [t], [], _ => Or.inr ⟨t, rfl, rfl⟩
  | [t], g :: gs, _ => Or.inl (by simp)
  | t :: u :: ts, [], h => by simp [GapsOK] at h
  | t :: u :: ts, [g], h => by simp [GapsOK] at h
  | t :: u :: ts, g :: g' :: gs, h => by
    simp only [GapsOK, Bool.and_eq_true] at h
    rcases gapsOK_len (u :: ts) (g' :: gs) h.2 with h' | ⟨_, _, h'⟩
    · left; simpa using h'
    · cases h'

theorem delimTok_facts : isDelimTok ['{'] = true ∧ isDelimTok ['}'] = true ∧ isDelimTok ['('] = true ∧
    isDelimTok [')'] = true ∧ isDelimTok [';'] = true := by decide

/-! ## theorems -/

/-! ### A. levels -/

mutual
  theorem levels_toksV : ∀ (v : Val) (lvl : Int) (rest : List Str), TokWFV v = true →
      levels lvl (toksV v ++ rest) = ltoksV lvl v ++ levels lvl rest
    | .leaf x, lvl, rest, h => by
      cases x with
      | str w =>
        simp only [TokWFV, Bool.and_eq_true] at h
        simp only [toksV, ltoksV, List.cons_append, List.nil_append]
        exact levels_word lvl rest h.1
      | _ => simp [TokWFV] at h
    | .dict es, lvl, rest, h => by
      simp only [TokWFV] at h
      simp only [toksV, ltoksV, List.cons_append, List.append_assoc, List.nil_append]
      rw [levels_open lvl '{' _ (by decide), levels_toksEs es (lvl + 1) _ h,
        levels_close lvl '}' _ (by decide) (by decide)]
    | .list xs, lvl, rest, h => by
      simp only [TokWFV] at h
      simp only [toksV, ltoksV, List.cons_append, List.append_assoc, List.nil_append]
      rw [levels_open lvl '(' _ (by decide), levels_toksXs xs (lvl + 1) _ h,
        levels_close lvl ')' _ (by decide) (by decide)]
  theorem levels_toksEs : ∀ (es : Entries) (lvl : Int) (rest : List Str), TokWFEs es = true →
      levels lvl (toksEs es ++ rest) = ltoksEs lvl es ++ levels lvl rest
    | [], lvl, rest, _ => by simp [toksEs, ltoksEs]
    | (.int z, v) :: es, lvl, rest, h => by simp [TokWFEs] at h
    | (.str k, .leaf x) :: es, lvl, rest, h => by
      cases x with
      | str w =>
        simp only [TokWFEs, Bool.and_eq_true] at h
        obtain ⟨h1, hes⟩ := h
        simp only [toksEs, ltoksEs]
        by_cases hp : isPhTok k = true
        · simp only [hp, if_true, Bool.and_eq_true] at h1 ⊢
          simp only [List.cons_append, List.nil_append]
          rw [levels_word lvl _ h1.1, levels_toksEs es lvl rest hes]
        · simp only [hp, if_false, Bool.and_eq_true, Bool.false_eq_true] at h1 ⊢
          simp only [List.cons_append, List.nil_append]
          rw [levels_word lvl _ h1.1.1.1, levels_word lvl _ h1.1.2, levels_semi, levels_toksEs es lvl rest hes]
      | _ => simp [TokWFEs, TokWFV] at h
    | (.str k, .dict d) :: es, lvl, rest, h => by
      simp only [TokWFEs, TokWFV, Bool.and_eq_true] at h
      obtain ⟨⟨⟨⟨hk, _⟩, _⟩, hd⟩, hes⟩ := h
      simp only [toksEs, ltoksEs, List.cons_append, List.append_assoc, List.nil_append]
      rw [levels_word lvl _ hk, levels_open lvl '{' _ (by decide), levels_toksEs d (lvl + 1) _ hd,
        levels_close lvl '}' _ (by decide) (by decide), levels_toksEs es lvl rest hes]
    | (.str k, .list l) :: es, lvl, rest, h => by
      simp only [TokWFEs, TokWFV, Bool.and_eq_true] at h
      obtain ⟨⟨⟨⟨hk, _⟩, _⟩, hd⟩, hes⟩ := h
      simp only [toksEs, ltoksEs, List.cons_append, List.append_assoc, List.nil_append]
      rw [levels_word lvl _ hk, levels_open lvl '(' _ (by decide), levels_toksXs l (lvl + 1) _ hd,
        levels_close lvl ')' _ (by decide) (by decide), levels_semi, levels_toksEs es lvl rest hes]
  theorem levels_toksXs : ∀ (xs : List Val) (lvl : Int) (rest : List Str), TokWFXs xs = true →
      levels lvl (toksXs xs ++ rest) = ltoksXs lvl xs ++ levels lvl rest
    | [], lvl, rest, _ => by simp [toksXs, ltoksXs]
    | v :: xs, lvl, rest, h => by
      simp only [TokWFXs, Bool.and_eq_true] at h
      simp only [toksXs, ltoksXs, List.append_assoc]
      rw [levels_toksV v lvl _ h.1, levels_toksXs xs lvl rest h.2]
end

/-- **A.** the level annotation of a generated token stream is the nesting depth -/
theorem levels_toks (es : Entries) (lvl : Int) (rest : List Str) (h : TokWFEs es = true) :
    levels lvl (toksEs es ++ rest) = ltoksEs lvl es ++ levels lvl rest := levels_toksEs es lvl rest h

theorem levels_toks_nil (es : Entries) (lvl : Int) (h : TokWFEs es = true) :
    levels lvl (toksEs es) = ltoksEs lvl es := by
  simpa [levels] using levels_toks es lvl [] h

/-! ### B. the scanner computes the denotation -/

mutual
  /-- the scanner invariant over the entries of one dict level -/
  theorem scanEs : ∀ (es : Entries) (top : Bool) (lvl : Int) (prev rest : List Tok) (acc : Entries),
      TokWFEs es = true → Boundary lvl prev →
      parseDictToks top prev (ltoksEs lvl es ++ rest) acc =
        parseDictToks top ((ltoksEs lvl es).reverse ++ prev) rest (denEs es acc)
    | [], top, lvl, prev, rest, acc, _, _ => by simp [ltoksEs, denEs]
    | (.int z, v) :: es, _, _, _, _, _, h, _ => by simp [TokWFEs] at h
    | (.str k, .leaf x) :: es, top, lvl, prev, rest, acc, h, hB => by
      cases x with
      | str w =>
        simp only [TokWFEs, Bool.and_eq_true] at h
        obtain ⟨h1, hes⟩ := h
        simp only [ltoksEs, denEs]
        by_cases hp : isPhTok k = true
        · simp only [hp, if_true, Bool.and_eq_true] at h1 ⊢
          simp only [List.cons_append, List.nil_append]
          rw [pd_ph top prev lvl k _ acc h1.1 hp,
            scanEs es top lvl _ rest _ hes (boundary_ph lvl k prev hp)]
          simp
        · have hp' : isPhTok k = false := by simpa using hp
          simp only [hp, if_false, Bool.and_eq_true, Bool.false_eq_true, Bool.not_eq_true',
            Option.isSome_iff_exists] at h1 ⊢
          obtain ⟨⟨⟨hk, key, hkey⟩, hw⟩, hwp⟩ := h1
          simp only [List.cons_append, List.nil_append, hkey]
          have hkv : kvBefore lvl ((lvl, w) :: (lvl, k) :: prev) = [w, k] := by
            rw [kvBefore_word lvl w _ hw hwp, kvBefore_word lvl k _ hk hp', hB]
          rw [pd_word top prev lvl k _ acc hk hp', pd_word top _ lvl w _ acc hw hwp,
            pd_semi_kv top _ _ lvl _ acc w k key (wordTok_ne_rparenTok hw) hkv hkey,
            scanEs es top lvl _ rest _ hes (boundary_semi lvl _)]
          simp
      | _ => simp [TokWFEs, TokWFV] at h
    | (.str k, .dict d) :: es, top, lvl, prev, rest, acc, h, hB => by
      simp only [TokWFEs, TokWFV, Bool.and_eq_true, Bool.not_eq_true', Option.isSome_iff_exists] at h
      obtain ⟨⟨⟨⟨hk, hkp⟩, key, hkey⟩, hd⟩, hes⟩ := h
      simp only [ltoksEs, denEs, denV, hkey, List.cons_append, List.append_assoc, List.nil_append]
      have hsplit := splitGroup_skip ['}'] lvl (ltoksEs (lvl + 1) d) (ltoksEs lvl es ++ rest)
        (fun t ht => by have := ltoksEs_ge d (lvl + 1) t ht; omega)
      have hinner : parseDictToks false [] (ltoksEs (lvl + 1) d) [] = .ok (denEs d []) := by
        have := scanEs d false (lvl + 1) [] [] [] hd (boundary_nil _)
        simpa [pd_nil] using this
      rw [pd_word top prev lvl k _ acc hk hkp,
        pd_brace top _ lvl _ _ _ acc k key _ (keyBefore_word lvl k prev hkp) hsplit hkey hinner,
        scanEs es top lvl _ rest _ hes (boundary_rbrace lvl _)]
      simp
    | (.str k, .list l) :: es, top, lvl, prev, rest, acc, h, hB => by
      simp only [TokWFEs, TokWFV, Bool.and_eq_true, Bool.not_eq_true', Option.isSome_iff_exists] at h
      obtain ⟨⟨⟨⟨hk, hkp⟩, key, hkey⟩, hl⟩, hes⟩ := h
      simp only [ltoksEs, denEs, denV, hkey, List.cons_append, List.append_assoc, List.nil_append]
      have hsplit := splitGroup_skip [')'] lvl (ltoksXs (lvl + 1) l) ((lvl, [';']) :: (ltoksEs lvl es ++ rest))
        (fun t ht => by have := ltoksXs_ge l (lvl + 1) t ht; omega)
      have hinner : parseListToks (lvl + 1) (ltoksXs (lvl + 1) l) [] = .ok (denXs l) := by
        have := scanXs l (lvl + 1) (lvl + 1) [] [] hl
        simpa [pl_nil] using this
      rw [pd_word top prev lvl k _ acc hk hkp,
        pd_paren top _ lvl _ _ _ _ acc k key _ (keyBefore_word lvl k prev hkp) hsplit hkey hinner,
        pd_semi_rparen top _ _ lvl _ _ rfl,
        scanEs es top lvl _ rest _ hes (boundary_semi lvl _)]
      simp
  /-- the scanner invariant over the items of a list -/
  theorem scanXs : ∀ (xs : List Val) (lvl' lvl : Int) (rest : List Tok) (acc : List Val),
      TokWFXs xs = true →
      parseListToks lvl' (ltoksXs lvl xs ++ rest) acc = parseListToks lvl' rest (acc ++ denXs xs)
    | [], _, _, _, _, _ => by simp [ltoksXs, denXs]
    | .leaf x :: xs, lvl', lvl, rest, acc, h => by
      cases x with
      | str w =>
        simp only [TokWFXs, TokWFV, Bool.and_eq_true] at h
        simp only [ltoksXs, ltoksV, denXs, denV, List.cons_append, List.nil_append]
        rw [pl_word lvl' lvl w _ acc h.1.1, scanXs xs lvl' lvl rest _ h.2]
        simp
      | _ => simp [TokWFXs, TokWFV] at h
    | .dict d :: xs, lvl', lvl, rest, acc, h => by
      simp only [TokWFXs, TokWFV, Bool.and_eq_true] at h
      simp only [ltoksXs, ltoksV, denXs, denV, List.cons_append, List.append_assoc, List.nil_append]
      have hsplit := splitGroup_skip ['}'] lvl (ltoksEs (lvl + 1) d) (ltoksXs lvl xs ++ rest)
        (fun t ht => by have := ltoksEs_ge d (lvl + 1) t ht; omega)
      have hinner : parseDictToks false [] (ltoksEs (lvl + 1) d) [] = .ok (denEs d []) := by
        have := scanEs d false (lvl + 1) [] [] [] h.1 (boundary_nil _)
        simpa [pd_nil] using this
      rw [pl_brace lvl' lvl _ _ _ acc _ hsplit hinner, scanXs xs lvl' lvl rest _ h.2]
      simp
    | .list l :: xs, lvl', lvl, rest, acc, h => by
      simp only [TokWFXs, TokWFV, Bool.and_eq_true] at h
      simp only [ltoksXs, ltoksV, denXs, denV, List.cons_append, List.append_assoc, List.nil_append]
      have hsplit := splitGroup_skip [')'] lvl (ltoksXs (lvl + 1) l) (ltoksXs lvl xs ++ rest)
        (fun t ht => by have := ltoksXs_ge l (lvl + 1) t ht; omega)
      have hinner : parseListToks (lvl + 1) (ltoksXs (lvl + 1) l) [] = .ok (denXs l) := by
        have := scanXs l (lvl + 1) (lvl + 1) [] [] h.1
        simpa [pl_nil] using this
      rw [pl_paren lvl' lvl _ _ _ acc _ hsplit hinner, scanXs xs lvl' lvl rest _ h.2]
      simp
end

/-- **B (dict).** on the tokens of a well-formed token tree the dict scanner computes the denotation.
    `Boundary lvl prev0` (decidable; true for `prev0 = []`, the only call pattern of the reader) is needed: see
    `scan_dict_needs_boundary`. -/
theorem scan_dict (es : Entries) (top : Bool) (lvl : Int) (prev0 : List Tok) (acc : Entries)
    (h : TokWFEs es = true) (hB : Boundary lvl prev0) :
    parseDictToks top prev0 (ltoksEs lvl es) acc = .ok (denEs es acc) := by
  have := scanEs es top lvl prev0 [] acc h hB
  simpa [pd_nil] using this

/-- Without `Boundary` the statement is false: a stray word of the same level right before the first entry is
    swept up by the backward scan from `;`, which then finds three tokens instead of two and drops the entry.
    (`prev0 = [(0, x)]`, entries `k w ;`: the scanner returns `{}`, the denotation is `{k: w}`.)
    The reader never calls the scanner this way: it starts with `prev = []`. -/
theorem scan_dict_needs_boundary :
    ¬ ∀ (es : Entries) (top : Bool) (lvl : Int) (prev0 : List Tok) (acc : Entries), TokWFEs es = true →
      parseDictToks top prev0 (ltoksEs lvl es) acc = .ok (denEs es acc) := by
  intro h
  have h1 := h [(.str ['k'], .leaf (.str ['w']))] true 0 [(0, ['x'])] [] (by decide)
  have e : ltoksEs 0 [(.str ['k'], .leaf (.str ['w']))] = [(0, ['k']), (0, ['w']), (0, [';'])] := by decide
  have hkv : kvBefore 0 [(0, ['w']), (0, ['k']), (0, ['x'])] = [['w'], ['k'], ['x']] := by decide
  have hd : denEs [(.str ['k'], .leaf (.str ['w']))] [] = [(.str ['k'], .leaf (.str ['w']))] := by decide
  rw [e, hd, pd_word _ _ _ _ _ _ (by decide) (by decide), pd_word _ _ _ _ _ _ (by decide) (by decide),
    parseDictToks.eq_def] at h1
  simp [Gen.openingBrackets, hkv, pd_nil] at h1

/-- **B (list).** on the tokens of a well-formed item list the list scanner computes the denotation -/
theorem scan_list (xs : List Val) (lvl' lvl : Int) (acc : List Val) (h : TokWFXs xs = true) :
    parseListToks lvl' (ltoksXs lvl xs) acc = .ok (acc ++ denXs xs) := by
  have := scanXs xs lvl' lvl [] acc h
  simpa [pl_nil] using this

theorem C02_scan (es : Entries) (h : TokWFEs es = true) :
    parseDictToks true [] (levels 0 (toksEs es)) [] = .ok (denEs es []) := by
  rw [levels_toks_nil es 0 h]
  exact scan_dict es true 0 [] [] h (boundary_nil 0)

/-! ### C. layout -/

/-- **C.** delimiter separation followed by white-space splitting recovers the token list of any admissible
    layout, whatever the amount and kind of white space. -/
theorem tokenize_spread (toks gaps : List Str) (tail : Str)
    (htoks : ∀ t ∈ toks, isWordTok t = true ∨ isDelimTok t = true)
    (hg : GapsOK toks gaps = true) (htail : tail.all isWs = true) :
    tokenize (spread toks gaps tail) = toks := by
  rw [tokenize_eq]
  rcases gapsOK_len toks gaps hg with hlen | ⟨t, rfl, rfl⟩
  · simpa [flush] using go_spread toks gaps tail [] htoks hlen hg htail (Or.inl rfl)
  · have : spread [t] [] tail = spread [t] [[]] tail := by simp [spread]
    rw [this]
    simpa [flush] using go_spread [t] [[]] tail [] htoks (by simp) (by simp [GapsOK]) htail (Or.inl rfl)

mutual
  theorem toksV_word_or_delim : ∀ (v : Val), TokWFV v = true →
      ∀ t ∈ toksV v, isWordTok t = true ∨ isDelimTok t = true
    | .leaf x, h, t, ht => by
      cases x with
      | str w =>
        simp only [TokWFV, Bool.and_eq_true] at h
        simp only [toksV, List.mem_singleton] at ht
        subst ht; exact Or.inl h.1
      | _ => simp [TokWFV] at h
    | .dict es, h, t, ht => by
      simp only [TokWFV] at h
      simp only [toksV, List.mem_cons, List.mem_append, List.not_mem_nil, or_false, or_assoc] at ht
      rcases ht with rfl | ht | rfl
      · exact Or.inr delimTok_facts.1
      · exact toksEs_word_or_delim es h t ht
      · exact Or.inr delimTok_facts.2.1
    | .list xs, h, t, ht => by
      simp only [TokWFV] at h
      simp only [toksV, List.mem_cons, List.mem_append, List.not_mem_nil, or_false, or_assoc] at ht
      rcases ht with rfl | ht | rfl
      · exact Or.inr delimTok_facts.2.2.1
      · exact toksXs_word_or_delim xs h t ht
      · exact Or.inr delimTok_facts.2.2.2.1
  theorem toksEs_word_or_delim : ∀ (es : Entries), TokWFEs es = true →
      ∀ t ∈ toksEs es, isWordTok t = true ∨ isDelimTok t = true
    | [], _, t, ht => by simp [toksEs] at ht
    | (.int z, v) :: es, h, _, _ => by simp [TokWFEs] at h
    | (.str k, .leaf x) :: es, h, t, ht => by
      cases x with
      | str w =>
        simp only [TokWFEs, Bool.and_eq_true] at h
        obtain ⟨h1, hes⟩ := h
        simp only [toksEs, List.mem_append] at ht
        rcases ht with ht | ht
        · by_cases hp : isPhTok k = true
          · simp only [hp, if_true, Bool.and_eq_true, List.mem_singleton] at h1 ht
            subst ht; exact Or.inl h1.1
          · simp only [hp, if_false, Bool.and_eq_true, Bool.false_eq_true, List.mem_cons, List.not_mem_nil,
              or_false] at h1 ht
            rcases ht with rfl | rfl | rfl
            · exact Or.inl h1.1.1.1
            · exact Or.inl h1.1.2
            · exact Or.inr delimTok_facts.2.2.2.2
        · exact toksEs_word_or_delim es hes t ht
      | _ => simp [TokWFEs, TokWFV] at h
    | (.str k, .dict d) :: es, h, t, ht => by
      simp only [TokWFEs, TokWFV, Bool.and_eq_true] at h
      obtain ⟨⟨⟨⟨hk, _⟩, _⟩, hd⟩, hes⟩ := h
      simp only [toksEs, List.mem_cons, List.mem_append, List.not_mem_nil, or_false, or_assoc] at ht
      rcases ht with rfl | rfl | ht | rfl | ht
      · exact Or.inl hk
      · exact Or.inr delimTok_facts.1
      · exact toksEs_word_or_delim d hd t ht
      · exact Or.inr delimTok_facts.2.1
      · exact toksEs_word_or_delim es hes t ht
    | (.str k, .list l) :: es, h, t, ht => by
      simp only [TokWFEs, TokWFV, Bool.and_eq_true] at h
      obtain ⟨⟨⟨⟨hk, _⟩, _⟩, hl⟩, hes⟩ := h
      simp only [toksEs, List.mem_cons, List.mem_append, List.not_mem_nil, or_false, or_assoc] at ht
      rcases ht with rfl | rfl | ht | rfl | rfl | ht
      · exact Or.inl hk
      · exact Or.inr delimTok_facts.2.2.1
      · exact toksXs_word_or_delim l hl t ht
      · exact Or.inr delimTok_facts.2.2.2.1
      · exact Or.inr delimTok_facts.2.2.2.2
      · exact toksEs_word_or_delim es hes t ht
  theorem toksXs_word_or_delim : ∀ (xs : List Val), TokWFXs xs = true →
      ∀ t ∈ toksXs xs, isWordTok t = true ∨ isDelimTok t = true
    | [], _, t, ht => by simp [toksXs] at ht
    | v :: xs, h, t, ht => by
      simp only [TokWFXs, Bool.and_eq_true] at h
      simp only [toksXs, List.mem_append] at ht
      rcases ht with ht | ht
      · exact toksV_word_or_delim v h.1 t ht
      · exact toksXs_word_or_delim xs h.2 t ht
end

/-- every token of a well-formed token tree is a word token or a delimiter token -/
theorem toks_all_word_or_delim (es : Entries) (h : TokWFEs es = true) :
    ∀ t ∈ toksEs es, isWordTok t = true ∨ isDelimTok t = true := toksEs_word_or_delim es h

/-! ### D. layout tolerance -/

/-- **C02 (token level).** Whatever white space separates the tokens of a well-formed token tree, the
    reader's token pipeline (tokenize → hierarchy → scanner) returns the documented denotation. -/
theorem C02_layout_tolerant_tokens (es : Entries) (gaps : List Str) (tail : Str)
    (h : TokWFEs es = true) (hg : GapsOK (toksEs es) gaps = true) (ht : tail.all isWs = true) :
    parseDictToks true [] (levels 0 (tokenize (spread (toksEs es) gaps tail))) [] = .ok (denEs es []) := by
  rw [tokenize_spread _ _ _ (toks_all_word_or_delim es h) hg ht]
  exact C02_scan es h

/-- two admissible layouts of the same token tree scan to the same result, and the scan does not fail -/
theorem C02_layout_independent (es : Entries) (gaps₁ gaps₂ : List Str) (tail₁ tail₂ : Str)
    (h : TokWFEs es = true)
    (hg₁ : GapsOK (toksEs es) gaps₁ = true) (ht₁ : tail₁.all isWs = true)
    (hg₂ : GapsOK (toksEs es) gaps₂ = true) (ht₂ : tail₂.all isWs = true) :
    parseDictToks true [] (levels 0 (tokenize (spread (toksEs es) gaps₁ tail₁))) [] =
      parseDictToks true [] (levels 0 (tokenize (spread (toksEs es) gaps₂ tail₂))) [] ∧
    ∃ d, parseDictToks true [] (levels 0 (tokenize (spread (toksEs es) gaps₁ tail₁))) [] = .ok d := by
  rw [C02_layout_tolerant_tokens es gaps₁ tail₁ h hg₁ ht₁, C02_layout_tolerant_tokens es gaps₂ tail₂ h hg₂ ht₂]
  exact ⟨rfl, _, rfl⟩

/-! ### E. a concrete instance -/

/-- `a 1; sub { x y; l ( 1 ( 2 ) { q r; } ); } 7 z;` -/
def exTree : Entries :=
  [ (.str ['a'], .leaf (.str ['1'])),
    (.str ['s', 'u', 'b'], .dict
      [ (.str ['x'], .leaf (.str ['y'])),
        (.str ['l'], .list [.leaf (.str ['1']), .list [.leaf (.str ['2'])], .dict [(.str ['q'], .leaf (.str ['r']))]]) ]),
    (.str ['7'], .leaf (.str ['z'])) ]

theorem exTree_wf : TokWFEs exTree = true := by decide

theorem exTree_toks : toksEs exTree =
    [['a'], ['1'], [';'], ['s', 'u', 'b'], ['{'], ['x'], ['y'], [';'], ['l'], ['('], ['1'], ['('], ['2'], [')'],
     ['{'], ['q'], ['r'], [';'], ['}'], [')'], [';'], ['}'], ['7'], ['z'], [';']] := by decide

theorem exTree_den : denEs exTree [] =
    [ (.str ['a'], .leaf (.int 1)),
      (.str ['s', 'u', 'b'], .dict
        [ (.str ['x'], .leaf (.str ['y'])),
          (.str ['l'], .list [.leaf (.int 1), .list [.leaf (.int 2)], .dict [(.str ['q'], .leaf (.str ['r']))]]) ]),
      (.int 7, .leaf (.str ['z'])) ] := by decide

/-- everything glued where the grammar allows it -/
def exGapsGlued : List Str :=
  [[], [' '], [], [], [], [], [' '], [], [], [], [], [], [], [], [], [], [' '], [], [], [], [], [], [], [' '], []]

/-- tabs, line feeds, CRLF, a no-break space, runs of blanks -/
def exGapsLoose : List Str :=
  [['\t'], ['\t', '\t'], [' '], ['\r', '\n'], ['\r', '\n'], ['\r', '\n', ' ', ' '], [' ', ' ', ' '], [], ['\r', '\n', ' ', ' '],
   [' '], [' '], [' '], [], [], [' '], [], [' '], [], [], [' '], ['\n'], ['\r', '\n'], ['\r', '\n'], ['\u00a0'], ['\t']]

theorem exGapsGlued_ok : GapsOK (toksEs exTree) exGapsGlued = true := by decide
theorem exGapsLoose_ok : GapsOK (toksEs exTree) exGapsLoose = true := by decide

theorem exGlued_text : spread (toksEs exTree) exGapsGlued [] = "a 1;sub{x y;l(1(2){q r;});}7 z;".toList := by decide

theorem exLoose_text : spread (toksEs exTree) exGapsLoose ['\r', '\n'] =
    "\ta\t\t1 ;\r\nsub\r\n{\r\n  x   y;\r\n  l ( 1 (2) {q r;} )\n;\r\n}\r\n7\u00a0z\t;\r\n".toList := by decide

theorem ex_glued : parseDictToks true [] (levels 0 (tokenize "a 1;sub{x y;l(1(2){q r;});}7 z;".toList)) [] =
    .ok (denEs exTree []) := by
  rw [← exGlued_text]
  exact C02_layout_tolerant_tokens exTree exGapsGlued [] exTree_wf exGapsGlued_ok rfl

theorem ex_loose : parseDictToks true [] (levels 0 (tokenize
      "\ta\t\t1 ;\r\nsub\r\n{\r\n  x   y;\r\n  l ( 1 (2) {q r;} )\n;\r\n}\r\n7\u00a0z\t;\r\n".toList)) [] =
    .ok (denEs exTree []) := by
  rw [← exLoose_text]
  exact C02_layout_tolerant_tokens exTree exGapsLoose ['\r', '\n'] exTree_wf exGapsLoose_ok (by decide)

/-! ### remark: why `TokWF` excludes placeholder words as keys and scalars

  The scanner recognises comment / include placeholders by *substring* (`isCommentTok`, `isIncludeTok`), so an
  ordinary word that merely contains `COMMENT` or `INCLUDE` is taken for a placeholder: in `k MYINCLUDE;` the
  value is stored as an entry of its own and the backward scan from `;` stops at it, so `k` is lost.
  `TokWF` (Grammar) therefore demands `!isPhTok` of keys and scalars; the witness shows the demand is needed. -/
theorem ph_word_not_denoted :
    parseDictToks true [] (levels 0 (tokenize "k MYINCLUDE;".toList)) [] =
      .ok [(.str ['M', 'Y', 'I', 'N', 'C', 'L', 'U', 'D', 'E'], .leaf (.str ['M', 'Y', 'I', 'N', 'C', 'L', 'U', 'D', 'E']))] := by
  have e : levels 0 (tokenize "k MYINCLUDE;".toList) =
      [(0, ['k']), (0, ['M', 'Y', 'I', 'N', 'C', 'L', 'U', 'D', 'E']), (0, [';'])] := by decide
  have hkv : kvBefore 0 [(0, ['M', 'Y', 'I', 'N', 'C', 'L', 'U', 'D', 'E']), (0, ['k'])] = [] := by decide
  rw [e, pd_word _ _ _ _ _ _ (by decide) (by decide), pd_ph _ _ _ _ _ _ (by decide) (by decide),
    parseDictToks.eq_def]
  simp [Gen.openingBrackets, hkv, pd_nil, setKey]

end DictIO.C02
