/-
  C02 — layout tolerance of the native reader, at token level.

  For every well-formed token tree (`TokWFEs`), whatever white space is put between its tokens
  (`spread … gaps tail` with `GapsOK`), the pipeline   tokenize → levels → parseDictToks   yields exactly
  the tree's documented denotation `denEs`.

    A  `levels_toks`      the hierarchy annotation of a generated token stream is the nesting depth
    B  `scan_dict/list`   the index-based scanner computes the denotation of the token tree
    C  `tokenize_spread`  delimiter separation + white-space splitting recovers the token list of any layout
    D  `C02_layout_tolerant_tokens`, `C02_layout_independent`
    E  a concrete instance (non-vacuity)
-/
import DictIO.Model.Grammar

namespace DictIO.C02
open DictIO

/-! ### level-annotated token streams of token trees -/

mutual
  /-- `toksV` with every token paired with its nesting level: brackets carry the level of their
      surroundings, the tokens between them are one deeper -/
  def ltoksV (lvl : Int) : Val → List Tok
    | .leaf (.str w) => [(lvl, w)]
    | .leaf _ => []
    | .dict es => (lvl, ['{']) :: ltoksEs (lvl + 1) es ++ [(lvl, ['}'])]
    | .list xs => (lvl, ['(']) :: ltoksXs (lvl + 1) xs ++ [(lvl, [')'])]
  def ltoksEs (lvl : Int) : Entries → List Tok
    | [] => []
    | (.str k, .leaf (.str w)) :: es =>
      (if isPhTok k then [(lvl, k)] else [(lvl, k), (lvl, w), (lvl, [';'])]) ++ ltoksEs lvl es
    | (.str k, .dict d) :: es =>
      (lvl, k) :: (lvl, ['{']) :: ltoksEs (lvl + 1) d ++ [(lvl, ['}'])] ++ ltoksEs lvl es
    | (.str k, .list l) :: es =>
      (lvl, k) :: (lvl, ['(']) :: ltoksXs (lvl + 1) l ++ [(lvl, [')']), (lvl, [';'])] ++ ltoksEs lvl es
    | _ :: es => ltoksEs lvl es
  def ltoksXs (lvl : Int) : List Val → List Tok
    | [] => []
    | v :: xs => ltoksV lvl v ++ ltoksXs lvl xs
end

/-- `prev` (the tokens already passed, nearest first) ends a statement of level `lvl`: the backward scan
    from a `;` stops immediately (nothing there, or `;`, `}`, a placeholder token, or a token of another level). -/
def Boundary (lvl : Int) (prev : List Tok) : Prop := kvBefore lvl prev = []

instance (lvl : Int) (prev : List Tok) : Decidable (Boundary lvl prev) := by
  unfold Boundary; infer_instance

/-! ## helper lemmas -/

/-! ### character facts -/

theorem isWs_space : isWs ' ' = true := by decide

theorem delim_not_ws : ∀ c ∈ Gen.delimiters, isWs c = false := by decide

theorem ws_not_delim {c : Char} (h : isWs c = true) : Gen.delimiters.contains c = false := by
  cases hd : Gen.delimiters.contains c with
  | false => rfl
  | true =>
    have := delim_not_ws c (by simpa using hd)
    simp [h] at this

/-! ### word tokens are transparent for every single-character test of the scanner -/

theorem wordTok_single {c : Char} (h : isWordTok [c] = true) :
    Gen.openingBrackets.contains c = false ∧ Gen.closingBrackets.contains c = false ∧
      Gen.delimiters.contains c = false := by
  simp [isWordTok] at h
  simp [h]

theorem wordTok_not_open {c : Char} (h : isWordTok [c] = true) : Gen.openingBrackets.contains c = false :=
  (wordTok_single h).1

theorem wordTok_not_close {c : Char} (h : isWordTok [c] = true) : Gen.closingBrackets.contains c = false :=
  (wordTok_single h).2.1

theorem wordTok_ne_semi {c : Char} (h : isWordTok [c] = true) : (c == ';') = false := by
  have := (wordTok_single h).2.2
  simp [Gen.delimiters] at this
  simp [this]

theorem wordTok_ne_parens {c : Char} (h : isWordTok [c] = true) : (c == '(' || c == ')' || c == ';') = false := by
  have := (wordTok_single h).2.2
  simp [Gen.delimiters] at this
  simp [this]

theorem wordTok_ne_delimTok {w : Str} (h : isWordTok w = true) {c : Char} (hc : Gen.delimiters.contains c = true) :
    w ≠ [c] := by
  rintro rfl
  rw [(wordTok_single h).2.2] at hc
  cases hc

theorem wordTok_ne_semiTok {w : Str} (h : isWordTok w = true) : (w != [';']) = true := by
  simpa using wordTok_ne_delimTok h (c := ';') (by decide)

theorem wordTok_ne_rbraceTok {w : Str} (h : isWordTok w = true) : (w != ['}']) = true := by
  simpa using wordTok_ne_delimTok h (c := '}') (by decide)

theorem wordTok_ne_rparenTok {w : Str} (h : isWordTok w = true) : (w == [')']) = false := by
  simpa using wordTok_ne_delimTok h (c := ')') (by decide)

theorem notPh {w : Str} (h : isPhTok w = false) : isCommentTok w = false ∧ isIncludeTok w = false := by
  simpa [isPhTok] using h

/-! ### `levels` on single tokens -/

theorem levels_word (lvl : Int) {w : Str} (ts : List Str) (h : isWordTok w = true) :
    levels lvl (w :: ts) = (lvl, w) :: levels lvl ts := by
  match w, h with
  | [], _ => rfl
  | [c], h => simp only [levels, wordTok_not_open h, wordTok_not_close h, Bool.false_eq_true, if_false]
  | _ :: _ :: _, _ => rfl

theorem levels_open (lvl : Int) (c : Char) (ts : List Str) (h : Gen.openingBrackets.contains c = true) :
    levels lvl ([c] :: ts) = (lvl, [c]) :: levels (lvl + 1) ts := by
  simp only [levels, h, if_true]

theorem levels_close (lvl : Int) (c : Char) (ts : List Str) (h : Gen.closingBrackets.contains c = true)
    (h' : Gen.openingBrackets.contains c = false) :
    levels (lvl + 1) ([c] :: ts) = (lvl, [c]) :: levels lvl ts := by
  simp only [levels, h, h', if_true, Bool.false_eq_true, if_false, Int.add_sub_cancel]

theorem levels_semi (lvl : Int) (ts : List Str) : levels lvl ([';'] :: ts) = (lvl, [';']) :: levels lvl ts := by
  have h1 : Gen.openingBrackets.contains ';' = false := by decide
  have h2 : Gen.closingBrackets.contains ';' = false := by decide
  simp only [levels, h1, h2, Bool.false_eq_true, if_false]

/-! ### scanner steps of `parseDictToks` -/

/-- a word token that is not a placeholder is passed over -/
theorem pd_word (top : Bool) (prev : List Tok) (l : Int) (w : Str) (rest : List Tok) (acc : Entries)
    (hw : isWordTok w = true) (hp : isPhTok w = false) :
    parseDictToks top prev ((l, w) :: rest) acc = parseDictToks top ((l, w) :: prev) rest acc := by
  conv => lhs; rw [parseDictToks.eq_def]
  simp only [isPhTok] at hp
  simp only []
  split
  · simp only [wordTok_not_open hw, wordTok_ne_semi hw, hp, Bool.false_eq_true, if_false]
  · simp [hp]

/-- (v) a placeholder token is stored as `ph ↦ ph` -/
theorem pd_ph (top : Bool) (prev : List Tok) (l : Int) (w : Str) (rest : List Tok) (acc : Entries)
    (hw : isWordTok w = true) (hp : isPhTok w = true) :
    parseDictToks top prev ((l, w) :: rest) acc =
      parseDictToks top ((l, w) :: prev) rest (setKey (.str w) (.leaf (.str w)) acc) := by
  conv => lhs; rw [parseDictToks.eq_def]
  simp only [isPhTok] at hp
  simp only []
  split
  · simp only [wordTok_not_open hw, wordTok_ne_semi hw, hp, Bool.false_eq_true, if_false, if_true]
  · simp [hp]

/-- (iv) the `;` after `)` is skipped -/
theorem pd_semi_rparen (top : Bool) (p : Tok) (prev : List Tok) (l : Int) (rest : List Tok) (acc : Entries)
    (hp : p.2 = [')']) :
    parseDictToks top (p :: prev) ((l, [';']) :: rest) acc = parseDictToks top ((l, [';']) :: p :: prev) rest acc := by
  conv => lhs; rw [parseDictToks.eq_def]
  simp only [hp]
  simp [Gen.openingBrackets]

/-- (i) the `;` of `k w ;` stores the pair found by the backward scan -/
theorem pd_semi_kv (top : Bool) (p : Tok) (prev : List Tok) (l : Int) (rest : List Tok) (acc : Entries)
    (v ktxt : Str) (key : Key)
    (hp : (p.2 == [')']) = false) (hkv : kvBefore l (p :: prev) = [v, ktxt])
    (hkey : keyOfScalar (parseKey ktxt) = some key) :
    parseDictToks top (p :: prev) ((l, [';']) :: rest) acc =
      parseDictToks top ((l, [';']) :: p :: prev) rest (setKey key (.leaf (parseValue v)) acc) := by
  conv => lhs; rw [parseDictToks.eq_def]
  simp only [hp, hkv, hkey]
  simp [Gen.openingBrackets]

/-- (ii) the forward scan finds the closing bracket right after a body whose tokens are all off-level -/
theorem splitGroup_skip (cl : Str) (lvl : Int) (body after : List Tok) (h : ∀ t ∈ body, t.1 ≠ lvl) :
    splitGroup cl lvl (body ++ (lvl, cl) :: after) = some (body, after) := by
  induction body with
  | nil => simp [splitGroup]
  | cons t body ih =>
    have h1 : t.1 ≠ lvl := h t (by simp)
    have := ih (fun t ht => h t (by simp [ht]))
    simp [splitGroup, h1, this]

/-- `k { body }` -/
theorem pd_brace (top : Bool) (prev : List Tok) (l : Int) (rest inside after : List Tok) (acc : Entries)
    (k : Str) (key : Key) (d : Entries)
    (hk : keyBefore prev = some k) (hs : splitGroup ['}'] l rest = some (inside, after))
    (hkey : keyOfScalar (parseKey k) = some key)
    (hd : parseDictToks false [] inside [] = .ok d) :
    parseDictToks top prev ((l, ['{']) :: rest) acc =
      parseDictToks top ((l, ['}']) :: (inside.reverse ++ (l, ['{']) :: prev)) after (setKey key (.dict d) acc) := by
  conv => lhs; rw [parseDictToks.eq_def]
  have hc : companion '{' = some '}' := by decide
  have ho : Gen.openingBrackets.contains '{' = true := by decide
  simp only [ho, hk, hc, if_true]
  split
  · rename_i heq; rw [hs] at heq; cases heq
  · rename_i inside' after' heq
    rw [hs] at heq; cases heq
    simp [hkey, hd]

/-- `k ( body ) …` with at least one token after `)` ((vi): the look-ahead guard does not fire) -/
theorem pd_paren (top : Bool) (prev : List Tok) (l : Int) (rest inside : List Tok) (a : Tok) (after : List Tok)
    (acc : Entries) (k : Str) (key : Key) (xs : List Val)
    (hk : keyBefore prev = some k) (hs : splitGroup [')'] l rest = some (inside, a :: after))
    (hkey : keyOfScalar (parseKey k) = some key)
    (hd : parseListToks (l + 1) inside [] = .ok xs) :
    parseDictToks top prev ((l, ['(']) :: rest) acc =
      parseDictToks top ((l, [')']) :: (inside.reverse ++ (l, ['(']) :: prev)) (a :: after)
        (setKey key (.list xs) acc) := by
  conv => lhs; rw [parseDictToks.eq_def]
  have hc : companion '(' = some ')' := by decide
  have ho : Gen.openingBrackets.contains '(' = true := by decide
  simp only [ho, hk, hc, if_true]
  split
  · rename_i heq; rw [hs] at heq; cases heq
  · rename_i inside' after' heq
    rw [hs] at heq; cases heq
    simp only [hkey]
    cases inside with
    | nil =>
      rw [parseListToks.eq_def] at hd
      simp at hd; subst hd; simp
    | cons i is => simp [hd]

/-! ### scanner steps of `parseListToks` -/

theorem pl_word (lvl l : Int) (w : Str) (rest : List Tok) (acc : List Val) (hw : isWordTok w = true) :
    parseListToks lvl ((l, w) :: rest) acc = parseListToks lvl rest (acc ++ [.leaf (parseValue w)]) := by
  conv => lhs; rw [parseListToks.eq_def]
  simp only []
  split
  · simp only [wordTok_not_open hw, wordTok_ne_parens hw, Bool.false_eq_true, if_false]
  · rfl

theorem pl_brace (lvl l : Int) (rest inside after : List Tok) (acc : List Val) (d : Entries)
    (hs : splitGroup ['}'] l rest = some (inside, after))
    (hd : parseDictToks false [] inside [] = .ok d) :
    parseListToks lvl ((l, ['{']) :: rest) acc = parseListToks lvl after (acc ++ [.dict d]) := by
  conv => lhs; rw [parseListToks.eq_def]
  have hc : companion '{' = some '}' := by decide
  have ho : Gen.openingBrackets.contains '{' = true := by decide
  simp only [ho, hc, if_true]
  split
  · rename_i heq; rw [hs] at heq; cases heq
  · rename_i inside' after' heq
    rw [hs] at heq; cases heq
    simp [hd]

theorem pl_paren (lvl l : Int) (rest inside after : List Tok) (acc : List Val) (xs : List Val)
    (hs : splitGroup [')'] l rest = some (inside, after))
    (hd : parseListToks (l + 1) inside [] = .ok xs) :
    parseListToks lvl ((l, ['(']) :: rest) acc = parseListToks lvl after (acc ++ [.list xs]) := by
  conv => lhs; rw [parseListToks.eq_def]
  have hc : companion '(' = some ')' := by decide
  have ho : Gen.openingBrackets.contains '(' = true := by decide
  simp only [ho, hc, if_true]
  split
  · rename_i heq; rw [hs] at heq; cases heq
  · rename_i inside' after' heq
    rw [hs] at heq; cases heq
    cases inside with
    | nil =>
      rw [parseListToks.eq_def] at hd
      simp at hd; subst hd; simp
    | cons i is => simp [hd]

end DictIO.C02
