/-
  C09 (mixed) -- the equivalence of Props/C09equiv.lean for MIXED include graphs: every file of a model document is
  rendered independently in native or in JSON syntax.

  A rendering is given by a choice function `syn : Comps → Bool` on the (resolved) file paths, `true` = JSON
  (`renderMixed syn doc`; only files of the document count: `eff`).  The file `p` is written to `p` (native text
  `nativeText`) or to `jsonPathOf p` (JSON, the content tree as it is); an include name `n` in a file of directory `d` is
  spelled `n.json` exactly when its target `resolveSpelled (spellJoin d n)` is a JSON-rendered file (`rn`, `renameC`).

    `C09_equiv_mixed`          any two renderings `synA`, `synB` of a well-formed document read to equal data up to the
                               placeholder entries (general form `C09_equiv_mixed_choice`: also `stripEs` at every level)
    `C09_equiv_mixed_native`   any rendering against `renderNative doc` of Props/C09.lean (`renderMixed_native`: the
                               all-native choice IS that rendering); with `C09_equiv_includes` also against `renderJson`
    `rec_congrM`               the congruence of `_merge_includes_recursive` with a per-file path map (`pathM`)
    `parse_M`                  `parse_file` on a file of a mixed rendering (`native_file`, `json_fileRaw`)
    `ExM.exM_equiv`            non-vacuity: `Ex.exDoc` with `main` native, `a` JSON, `sub/b` native, evaluated in the kernel

  Hypotheses beyond `DocWF` of C09equiv: `NoClash doc` -- no file path and no include target of the document is the JSON
  path `q.json` of a file `q` of the document.  Without it (argued, no witness proved here) two files can be rendered to one path
  (`/w/a` in JSON and a native `/w/a.json`), and a missing target `a.json` is found in the renderings that put `/w/a` in
  JSON and missing in the others.  `root ∈ doc.map (·.1)`, no `.`/`..` in `root`, valid counters: as before.
-/
import DictIO.Props.C09equiv

namespace DictIO.C09.Mixed
open DictIO DictIO.C07 DictIO.C06 DictIO.C06fold DictIO.C09

set_option linter.unusedSimpArgs false
set_option linter.unusedVariables false

/-! ## 0. mixed renderings -/

/-- the resolved target of the include name `n` written in a file of directory `d` -/
def targetOf (d : Comps) (n : Str) : Comps := resolveSpelled (spellJoin d n)

/-- the path of the rendering of the file `p`: `.json` is appended exactly for the JSON-rendered files -/
def pathM (s : Comps → Bool) (p : Comps) : Comps := if s p then jsonPathOf p else p

/-- an include name, spelled to match the rendering of its target -/
def rn (s : Comps → Bool) (d : Comps) (n : Str) : Str := if s (targetOf d n) then n ++ ".json".toList else n

/-- a content tree with its include names spelled for the rendering -/
def renameC (s : Comps → Bool) (d : Comps) (es : Entries) : Entries :=
  es.map fun e => if isInclEntry e then (e.1, .leaf (.str (rn s d (inclName e)))) else e

/-- the body of the rendering of a file: JSON (the tree as it is) or native text -/
def bodyM (s : Comps → Bool) (f : Comps × Entries) : FileBody :=
  if s f.1 then .json (renameC s f.1.dropLast f.2) else .native (nativeText (renameC s f.1.dropLast f.2))

/-- the file system of a mixed rendering -/
def renderM (s : Comps → Bool) (doc : Doc) : FS := doc.map fun f => (pathM s f.1, bodyM s f)

/-- the effective choice: only files of the document are rendered -/
def eff (doc : Doc) (syn : Comps → Bool) (t : Comps) : Bool := doc.any (fun f => f.1 == t) && syn t

/-- a choice that renders files of the document only -/
def Choice (doc : Doc) (s : Comps → Bool) : Prop := ∀ t, s t = true → t ∈ doc.map (·.1)

theorem eff_choice (doc : Doc) (syn : Comps → Bool) : Choice doc (eff doc syn) := by
  intro t h
  simp only [eff, Bool.and_eq_true, List.any_eq_true, beq_iff_eq] at h
  obtain ⟨⟨f, hf, rfl⟩, _⟩ := h
  exact List.mem_map_of_mem hf

theorem renameC_names (s : Comps → Bool) (d : Comps) : ∀ es : Entries,
    inclNames (renameC s d es) = (inclNames es).map (rn s d) ∧ restOf (renameC s d es) = restOf es
  | [] => ⟨rfl, rfl⟩
  | e :: es => by
    obtain ⟨i1, i2⟩ := renameC_names s d es
    unfold renameC at i1 i2 ⊢
    cases he : isInclEntry e with
    | true =>
      obtain ⟨k, n, rfl, hk⟩ := isInclEntry_iff.mp he
      have he' : isInclEntry ((Key.str k, Val.leaf (Scalar.str (rn s d n))) : Key × Val) = true :=
        isInclEntry_iff.mpr ⟨k, _, rfl, hk⟩
      simp only [List.map_cons, he, if_true, inclNames, restOf, List.filter_cons, inclName, he', Bool.not_true,
        Bool.false_eq_true, if_false] at i1 i2 ⊢
      exact ⟨by rw [i1], i2⟩
    | false =>
      simp only [List.map_cons, he, Bool.false_eq_true, if_false, inclNames, restOf, List.filter_cons, Bool.not_false,
        if_true] at i1 i2 ⊢
      exact ⟨i1, by rw [i2]⟩


/-! ## 1. the renamed content tree of a file is well formed -/

/-- `t` is not the JSON path of a file of the document -/
def ClashFree (doc : Doc) (t : Comps) : Prop := ∀ g ∈ doc, t ≠ jsonPathOf g.1

/-- no file path and no include target of the document is the JSON path of a file of the document: the renderings of
    two files never get the same path, and a missing target stays missing in every rendering -/
structure NoClash (doc : Doc) : Prop where
  paths : ∀ f ∈ doc, ClashFree doc f.1
  targets : ∀ f ∈ doc, ∀ n ∈ inclNames f.2, ClashFree doc (targetOf f.1.dropLast n)

theorem nameOK_json {n : Str} (h : nameOK n = true) : nameOK (n ++ ".json".toList) = true := by
  have hc := nameOK_chars h
  have hss := nameOK_noSS h
  obtain ⟨_, hhead, _⟩ := name_comps h
  have hj : ∀ x ∈ ".json".toList, (x == '/') = false := by decide
  obtain ⟨I, L, h1, h2⟩ := splitOnP_append_noSep (fun x => x == '/') ".json".toList hj n
  have hsplit : n.splitOn '/' = I ++ [L] := h1
  have hsplitJ : (n ++ ".json".toList).splitOn '/' = I ++ [L ++ ".json".toList] := h2
  have hlast : (match (n.splitOn '/').getLast? with | some l => !l.isEmpty && !isDots l | none => false) = true := by
    unfold nameOK at h
    rw [Bool.and_eq_true] at h
    exact h.2
  unfold nameOK
  rw [hsplitJ, List.getLast?_concat]
  have e1 : (n ++ ".json".toList).all (fun c => !isQuote c && !isLineBreak c) = true := by
    rw [List.all_eq_true]
    intro c hm
    rcases List.mem_append.mp hm with hm | hm
    · simp [(hc c hm).1, (hc c hm).2]
    · have : ∀ c ∈ ".json".toList, (!isQuote c && !isLineBreak c) = true := by decide
      exact this c hm
  have e2 : isInfix ['/', '/'] (n ++ ".json".toList) = false :=
    C02.Main.infix2_append hss (by decide) (fun _ hb => by revert hb; decide)
  have e3 : ((n ++ ".json".toList).head? == some '/') = false := by simpa using hhead
  have e4 : (L ++ ".json".toList).isEmpty = false := by simp
  rw [e1, e2, e3]
  simp only [e4, isDots_json, Bool.not_false, Bool.and_self]

theorem rn_ok (s : Comps → Bool) (d : Comps) {n : Str} (h : nameOK n = true) : nameOK (rn s d n) = true := by
  unfold rn
  split
  · exact nameOK_json h
  · exact h

/-- the target of a spelled name is the rendering of the target of the name -/
theorem rn_target (s : Comps → Bool) (d : Comps) {n : Str} (h : nameOK n = true) :
    targetOf d (rn s d n) = pathM s (targetOf d n) ∧ (spellJoin d (rn s d n)).dropLast = (spellJoin d n).dropLast := by
  unfold rn pathM
  cases hs : s (targetOf d n) with
  | true => simp only [if_true]; exact ⟨(spell_json d h).2.1, (spell_json d h).1⟩
  | false => simp only [Bool.false_eq_true, if_false, and_self]

theorem rn_inj {doc : Doc} {s : Comps → Bool} (hs : Choice doc s) (d : Comps) {n m : Str} (hn : nameOK n = true)
    (hm : nameOK m = true) (cn : ClashFree doc (targetOf d n)) (cm : ClashFree doc (targetOf d m))
    (h : rn s d n = rn s d m) : n = m := by
  have key : ∀ {a b : Str}, nameOK a = true → s (targetOf d a) = true → ClashFree doc (targetOf d b) →
      a ++ ".json".toList = b → False := by
    intro a b ha hsa cb e
    obtain ⟨g, hg, hg1⟩ := List.mem_map.mp (hs _ hsa)
    apply cb g hg
    rw [hg1, ← e]
    exact (spell_json d ha).2.1
  unfold rn at h
  cases h1 : s (targetOf d n) <;> cases h2 : s (targetOf d m) <;> simp only [h1, h2, if_true, Bool.false_eq_true, if_false] at h
  · exact h
  · exact (key hm h2 cn h.symm).elim
  · exact (key hn h1 cm h).elim
  · exact List.append_cancel_right h

theorem renamed_wf {doc : Doc} {s : Comps → Bool} (hs : Choice doc s) (d : Comps) {es : Entries} (hw : ContentWF es)
    (hc : ∀ n ∈ inclNames es, ClashFree doc (targetOf d n)) : ContentWF (renameC s d es) := by
  obtain ⟨e1, e2⟩ := renameC_names s d es
  refine ⟨by rw [e2]; exact hw.dom, by rw [e2]; exact hw.norm, by rw [e2]; exact hw.doc, by rw [e2]; exact hw.cnt,
    by rw [e1, List.length_map]; exact hw.ninc, ?_, ?_⟩
  · intro n hn
    rw [e1] at hn
    obtain ⟨m, hm, rfl⟩ := List.mem_map.mp hn
    exact rn_ok s d (hw.names m hm)
  · rw [e1]
    exact nodup_map_of_inj_on _ _ hw.dist fun a ha b hb h =>
      rn_inj hs d (hw.names a ha) (hw.names b hb) (hc a ha) (hc b hb) h

/-! ## 2. the JSON parser on a content tree whose include names are taken as they are -/

/-- the table entry the JSON parser makes for the include of `n` in directory `dir` -/
def rawEntry (dir : Comps) (n : Str) : InclEntry :=
  { directive := "#include '".toList ++ doubleBackslashes n ++ ['\''], file := n, path := pathStr (spellJoin dir n) }

theorem jfoldRaw (dir : Comps) : ∀ (es : Entries) (c : Counter) (tbl : Tbl InclEntry) (phs rest : Entries),
    RestNotIncl es → (∀ n ∈ inclNames es, ∀ ch ∈ n, isQuote ch = false) →
    es.foldl (jstep dir) (c, tbl, phs, rest) =
      (C02.adv Gen.counterLimit (inclNames es).length c,
       C12.setAllI tbl (List.zip (alloc Gen.counterLimit (inclNames es).length c) ((inclNames es).map (rawEntry dir))),
       updateD phs ((alloc Gen.counterLimit (inclNames es).length c).map phEntry),
       rest ++ restOf es)
  | [], c, tbl, phs, rest, _, _ => by simp [inclNames, restOf, C02.adv, alloc, C12.setAllI, updateD]
  | e :: es, c, tbl, phs, rest, hr, hq => by
    have hr' : RestNotIncl es := fun e' he' => hr e' (List.mem_cons_of_mem _ he')
    cases he : isInclEntry e with
    | true =>
      obtain ⟨k, n, rfl, hk⟩ := isInclEntry_iff.mp he
      have hnames : inclNames ((.str k, .leaf (.str n)) :: es) = n :: inclNames es := by
        simp [inclNames, List.filter_cons, he, inclName]
      have hrest : restOf ((.str k, .leaf (.str n)) :: es) = restOf es := by
        simp [restOf, List.filter_cons, he]
      have hq' : ∀ n' ∈ inclNames es, ∀ ch ∈ n', isQuote ch = false := fun n' hn' => hq n' (by rw [hnames]; exact List.mem_cons_of_mem _ hn')
      have hqn : ∀ ch ∈ n, isQuote ch = false := hq n (by rw [hnames]; exact List.mem_cons_self)
      rw [List.foldl_cons]
      have hstep : jstep dir (c, tbl, phs, rest) (.str k, .leaf (.str n)) =
          ((Counter.next Gen.counterLimit c).2, tbl.set (Counter.next Gen.counterLimit c).1 (rawEntry dir n),
            setKey (phEntry (Counter.next Gen.counterLimit c).1).1 (phEntry (Counter.next Gen.counterLimit c).1).2 phs, rest) := by
        simp only [jstep, hk, if_true, pyStrScalar, removeQuotes_id hqn]
        rfl
      rw [hstep, jfoldRaw dir es _ _ _ _ hr' hq', hnames, hrest]
      simp only [List.length_cons, C02.adv, alloc, List.map_cons, List.zip_cons_cons, C12.setAllI, List.foldl_cons, updateD]
    | false =>
      have hnames : inclNames (e :: es) = inclNames es := by simp [inclNames, List.filter_cons, he]
      have hrest : restOf (e :: es) = e :: restOf es := by simp [restOf, List.filter_cons, he]
      have hq' : ∀ n' ∈ inclNames es, ∀ ch ∈ n', isQuote ch = false := fun n' hn' => hq n' (by rw [hnames]; exact hn')
      have hnot := hr e List.mem_cons_self he
      have hstep : jstep dir (c, tbl, phs, rest) e = (c, tbl, phs, rest ++ [e]) := by
        obtain ⟨k, v⟩ := e
        cases k with
        | int z => rfl
        | str s =>
          cases v with
          | leaf x => simp only at hnot; simp only [jstep, hnot]; rfl
          | dict d => rfl
          | list l => rfl
      rw [List.foldl_cons, hstep, jfoldRaw dir es _ _ _ _ hr' hq', hnames, hrest]
      simp

/-- **the JSON parser on a well-formed content tree, include names as they are** -/
theorem json_fileRaw (dir : Comps) (c : Counter) (es : Entries) (hw : ContentWF es) (hc : Valid c) :
    ∃ sd, parseJson dir c es = (sd, C02.adv Gen.counterLimit (inclNames es).length c) ∧ Good sd ∧
      S sd = restOf es ∧ sd.incl.map (·.2.file) = inclNames es := by
  have hq : ∀ n ∈ inclNames es, ∀ ch ∈ n, isQuote ch = false := fun n hn ch hch => (nameOK_chars (hw.names n hn) ch hch).1
  obtain ⟨hRp, hRn⟩ := hw.inv
  have hlen : (alloc Gen.counterLimit (inclNames es).length c).length = ((inclNames es).map (rawEntry dir)).length := by
    rw [C13.alloc_length, List.length_map]
  have hidn : (alloc Gen.counterLimit (inclNames es).length c).Nodup := C13.alloc_nodup hw.ninc hc
  have hidlt : ∀ i ∈ alloc Gen.counterLimit (inclNames es).length c, i < 1000000 := fun i hi => by
    have := C13.alloc_le hc _ i hi
    have e : Gen.counterLimit = 999999 := rfl
    omega
  have hfst := zip_map_fst _ _ hlen
  have hsnd := zip_map_snd _ _ hlen
  generalize hT : List.zip (alloc Gen.counterLimit (inclNames es).length c) ((inclNames es).map (rawEntry dir)) = T at hfst hsnd
  have hTn : (T.map (·.1)).Nodup := by rw [hfst]; exact hidn
  have hvals : ((inclNames es).map (rawEntry dir)).Nodup := by
    apply C12.Incl.nodup_of_map (fun e : InclEntry => e.file)
    rw [List.map_map]
    exact nodup_map_of_inj_on _ _ hw.dist fun a _ b _ h => h
  have hTinj : C12.Incl.TblInj T := by rw [← hT]; exact C12.Incl.tblInj_zip _ _ hvals
  have hset : C12.setAllI [] T = T := by
    rw [C12.setAllI_nodup T [] (by simpa using hTn)]; rfl
  generalize hP : (alloc Gen.counterLimit (inclNames es).length c).map phEntry = P
  have hPmem : ∀ e ∈ P, ∃ i, i < 1000000 ∧ e = phEntry i := by
    intro e he
    rw [← hP] at he
    obtain ⟨i, hi, rfl⟩ := List.mem_map.mp he
    exact ⟨i, hidlt i hi, rfl⟩
  have hPn : (keys P).Nodup := by
    rw [← hP]
    show ((List.map phEntry _).map (·.1)).Nodup
    rw [List.map_map]
    refine nodup_map_of_inj_on _ _ hidn fun a ha b hb h => ?_
    have : inclPh a = inclPh b := by simpa [phEntry] using h
    exact C12.Incl.inclPh_inj (hidlt a ha) (hidlt b hb) this
  obtain ⟨h1, h2, h3, h4, h5, h6⟩ := json_updates_incl T P (restOf es) hPmem hPn hTinj hTn hRp hRn (dom_noDollar hw.dom)
  unfold parseJson
  rw [foldl_fun_congr (g := jstep dir) ?h, jfoldRaw dir es c [] [] [] hw.restNotIncl hq, hT, hP, hset, updateD_nil_left P hPn]
  case h =>
    intro acc e
    obtain ⟨c, tbl, phs, rest⟩ := acc
    obtain ⟨k, v⟩ := e
    cases k <;> cases v <;> rfl
  simp only [List.nil_append]
  generalize (({ data := [], incl := T } : SD).update (.plain P)).update (.sd { data := restOf es, incl := T }) = s at h1 h2 h3 h4 h5 h6 ⊢
  rw [jsonExprEs_id _ _ h6]
  refine ⟨_, rfl, ⟨h1, rfl, ?_, h4⟩, h3, ?_⟩
  · show safeEs [] (stripEs _) = true
    rw [h3]; exact hw.safe
  · show List.map (fun x => x.2.file) (SD.incl _) = _
    rw [h5]
    have : List.map (fun x : Nat × InclEntry => x.2.file) T = (T.map (·.2)).map (fun e : InclEntry => e.file) := by
      rw [List.map_map]; rfl
    rw [this, hsnd, List.map_map]
    exact List.map_id' _

/-! ## 3. paths of a mixed rendering -/

theorem pathM_beq {doc : Doc} {s : Comps → Bool} (hs : Choice doc s) (hne : ∀ f ∈ doc, f.1 ≠ []) (hcl : ∀ f ∈ doc, ClashFree doc f.1)
    {p t : Comps} (hp : p ∈ doc.map (·.1)) (ht : t ≠ []) (ct : ClashFree doc t) :
    (pathM s p == pathM s t) = (p == t) := by
  obtain ⟨g, hg, rfl⟩ := List.mem_map.mp hp
  unfold pathM
  cases h1 : s g.1 <;> cases h2 : s t <;> simp only [if_true, Bool.false_eq_true, if_false]
  · have a1 : g.1 ≠ t := fun e => by rw [e, h2] at h1; cases h1
    obtain ⟨g', hg', e'⟩ := List.mem_map.mp (hs t h2)
    have a2 : g.1 ≠ jsonPathOf t := by rw [← e']; exact hcl g hg g' hg'
    rw [beq_eq_false_iff_ne.mpr a1, beq_eq_false_iff_ne.mpr a2]
  · have a1 : g.1 ≠ t := fun e => by rw [e, h2] at h1; cases h1
    have a2 : jsonPathOf g.1 ≠ t := fun e => ct g hg e.symm
    rw [beq_eq_false_iff_ne.mpr a1, beq_eq_false_iff_ne.mpr a2]
  · exact jsonPathOf_beq (hne g hg) ht

theorem get_M {doc : Doc} {s : Comps → Bool} (hs : Choice doc s) (hne : ∀ f ∈ doc, f.1 ≠ []) (hcl : ∀ f ∈ doc, ClashFree doc f.1)
    {t : Comps} (ht : t ≠ []) (ct : ClashFree doc t) :
    (renderM s doc).get (pathM s t) = (doc.find? fun f => f.1 == t).map (bodyM s) := by
  unfold renderM FS.get
  suffices H : ∀ l : Doc, (∀ g ∈ l, g ∈ doc) →
      (List.find? (fun e => e.1 == pathM s t) (l.map fun f => (pathM s f.1, bodyM s f))).map (·.2) =
        (l.find? fun f => f.1 == t).map (bodyM s) from H doc fun _ h => h
  intro l
  induction l with
  | nil => intro _; rfl
  | cons f l ih =>
    intro hl
    simp only [List.map_cons, List.find?_cons]
    rw [pathM_beq hs hne hcl (List.mem_map_of_mem (hl f List.mem_cons_self)) ht ct]
    cases hfp : f.1 == t with
    | true => rfl
    | false => exact ih fun g hg => hl g (List.mem_cons_of_mem _ hg)

theorem contains_M {doc : Doc} {s : Comps → Bool} (hs : Choice doc s) (hne : ∀ f ∈ doc, f.1 ≠ []) (hcl : ∀ f ∈ doc, ClashFree doc f.1)
    {t : Comps} (ht : t ≠ []) (ct : ClashFree doc t) : ∀ (anc : List Comps), (∀ a ∈ anc, a ∈ doc.map (·.1)) →
    (anc.map (pathM s)).contains (pathM s t) = anc.contains t
  | [], _ => rfl
  | a :: anc, h => by
    simp only [List.map_cons, List.contains_cons]
    rw [contains_M hs hne hcl ht ct anc fun x hx => h x (List.mem_cons_of_mem _ hx)]
    have key := pathM_beq hs hne hcl (h a List.mem_cons_self) ht ct
    have e : (pathM s t == pathM s a) = (t == a) := by
      by_cases h1 : t = a
      · subst h1; simp
      · have h2 : (a == t) = false := beq_eq_false_iff_ne.mpr (Ne.symm h1)
        rw [h2] at key
        have h3 : pathM s a ≠ pathM s t := beq_eq_false_iff_ne.mp key
        rw [beq_eq_false_iff_ne.mpr h1, beq_eq_false_iff_ne.mpr (Ne.symm h3)]
    rw [e]

theorem joinNorm_result_noDots : ∀ (l a : Comps), (∀ c ∈ a, isDots c = false) → ∀ c ∈ joinNorm a l, isDots c = false
  | [], a, h => by simpa [joinNorm_nil] using h
  | x :: l, a, h => by
    rw [joinNorm_cons]
    apply joinNorm_result_noDots l
    split
    · exact fun c hc => h c (C12.Incl.mem_of_dropLast hc)
    · split
      · exact h
      · rename_i h2 h1
        intro c hc
        rcases List.mem_append.mp hc with hc | hc
        · exact h c hc
        · simp only [List.mem_singleton] at hc
          subst hc
          simp only [isDots, Bool.or_eq_false_iff]
          exact ⟨by simpa using h1, by simpa using h2⟩

theorem joinNorm_idem (l : Comps) : joinNorm [] (joinNorm [] l) = joinNorm [] l := by
  have := joinNorm_noDots (joinNorm [] l) [] (joinNorm_result_noDots l [] (fun _ h => by cases h))
  simpa using this

/-- the includes of an included file are anchored at its directory: as spelled, or resolved — the targets are the same -/
theorem target_dir (dir : Comps) {n : Str} (hn : nameOK n = true) {m : Str} (hm : nameOK m = true) :
    targetOf (spellJoin dir n).dropLast m = targetOf (targetOf dir n).dropLast m := by
  obtain ⟨h1, _, init, last, e1, _, hd⟩ := name_comps hn
  obtain ⟨k1, _⟩ := name_comps hm
  unfold targetOf
  rw [spellJoin_rel dir n h1, e1, ← List.append_assoc, List.dropLast_concat]
  rw [show resolveSpelled (dir ++ init ++ [last]) = joinNorm [] (dir ++ init) ++ [last] from joinNorm_snoc _ _ _ hd,
    List.dropLast_concat, spellJoin_rel _ m k1, spellJoin_rel _ m k1]
  unfold resolveSpelled
  generalize dir ++ init = D
  generalize List.filter (fun c => c != ['.']) (splitSlash m) = cs
  rw [joinNorm_append [] D, joinNorm_append [] (joinNorm [] D), joinNorm_idem]

/-! ## 4. `parse_file` on a file of a mixed rendering -/

theorem parse_M {doc : Doc} {s : Comps → Bool} (hd : DocWF doc) (hn : NoClash doc) (hs : Choice doc s)
    {c : Counter} {sp t : Comps} {x : SD} {c1 : Counter} (hc : Valid c) (ht : t ≠ []) (ct : ClashFree doc t)
    (hres : resolveSpelled sp = pathM s t) (h : parseFile (renderM s doc) true c sp = .ok (x, c1)) :
    ∃ f, (doc.find? fun g => g.1 == t) = some f ∧ Good x ∧ S x = restOf f.2 ∧
      filesOf x = (inclNames f.2).map (rn s f.1.dropLast) ∧ Valid c1 := by
  unfold parseFile at h
  rw [hres, get_M hs hd.paths hn.paths ht ct] at h
  cases hx : isXmlPath sp with
  | true => rw [hx] at h; simp at h
  | false =>
    rw [hx] at h
    simp only [Bool.false_eq_true, if_false] at h
    cases hf : doc.find? (fun g => g.1 == t) with
    | none => rw [hf] at h; simp at h
    | some f =>
      rw [hf] at h
      simp only [Option.map_some] at h
      have hfm : f ∈ doc := List.mem_of_find?_eq_some hf
      have hw := renamed_wf hs f.1.dropLast (s := s) (hd.content f hfm) (hn.targets f hfm)
      obtain ⟨e1, e2⟩ := renameC_names s f.1.dropLast f.2
      cases hsf : s f.1 with
      | false =>
        simp only [bodyM, hsf, Bool.false_eq_true, if_false] at h
        cases hj : isJsonPath sp with
        | true => rw [hj] at h; simp at h
        | false =>
          rw [hj] at h
          simp only [Bool.false_eq_true, if_false] at h
          obtain ⟨sd, c', hp, hv, hg, hS, hi⟩ := native_file (pathStr sp.dropLast) c _ hw hc
          rw [hp] at h
          simp only [Except.ok.injEq, Prod.mk.injEq] at h
          obtain ⟨rfl, rfl⟩ := h
          refine ⟨f, rfl, ⟨hg.nodup, hg.exprs, hg.safe, hg.vals⟩, by rw [← e2]; exact hS, ?_, hv⟩
          show List.map (fun e : Nat × InclEntry => e.2.file) (List.map _ sd.incl) = _
          rw [List.map_map, ← e1]
          exact hi
      | true =>
        simp only [bodyM, hsf, if_true] at h
        cases hj : isJsonPath sp with
        | false => rw [hj] at h; simp at h
        | true =>
          rw [hj] at h
          simp only [if_true, Except.ok.injEq] at h
          obtain ⟨sd, hpj, hg, hS, hi⟩ := json_fileRaw sp.dropLast c _ hw hc
          rw [hpj] at h
          simp only [Prod.mk.injEq] at h
          obtain ⟨rfl, rfl⟩ := h
          exact ⟨f, rfl, hg, by rw [← e2]; exact hS, by rw [← e1]; exact hi, C02.adv_valid _ hc⟩

/-! ## 5. the include merge on two mixed renderings -/

/-- what the induction proves for one amount of fuel: the dicts `x`, `y` are what two renderings give for one file whose
    include names are `names`, read in the directory `dir` -/
def RecCongrM (doc : Doc) (sA sB : Comps → Bool) (fuel : Nat) : Prop :=
  ∀ (anc : List Comps) (x y : SD) (dir : Comps) (c c' : Counter) (r r' : SD) (c1 c1' : Counter) (names : List Str),
    (∀ a ∈ anc, a ∈ doc.map (·.1)) → Good x → Good y → S x = S y →
    (∀ n ∈ names, nameOK n = true) → (∀ n ∈ names, ClashFree doc (targetOf dir n)) →
    filesOf x = names.map (rn sA dir) → filesOf y = names.map (rn sB dir) → Valid c → Valid c' →
    mergeIncludesRec (renderM sA doc) true fuel (anc.map (pathM sA)) x dir c = .ok (r, c1) →
    mergeIncludesRec (renderM sB doc) true fuel (anc.map (pathM sB)) y dir c' = .ok (r', c1') →
    Out r r' c1 c1'

theorem step_congrM {doc : Doc} {sA sB : Comps → Bool} (hd : DocWF doc) (hnc : NoClash doc) (hsA : Choice doc sA)
    (hsB : Choice doc sB) (fuel : Nat) (hrec : RecCongrM doc sA sB fuel) (anc : List Comps) (dir : Comps)
    (hanc : ∀ a ∈ anc, a ∈ doc.map (·.1)) (e e' : Nat × InclEntry) (n : Str) (hn : nameOK n = true)
    (cn : ClashFree doc (targetOf dir n)) (he : e.2.file = rn sA dir n) (he' : e'.2.file = rn sB dir n)
    (temp temp' : SD) (c c' : Counter) (t t' : SD) (c1 c1' : Counter)
    (hg : Good temp) (hg' : Good temp') (hs : S temp = S temp') (hc : Valid c) (hc' : Valid c')
    (h : inclStep (renderM sA doc) true (mergeIncludesRec (renderM sA doc) true fuel) (anc.map (pathM sA)) dir (temp, c) e = .ok (t, c1))
    (h' : inclStep (renderM sB doc) true (mergeIncludesRec (renderM sB doc) true fuel) (anc.map (pathM sB)) dir (temp', c') e' = .ok (t', c1')) :
    Out t t' c1 c1' := by
  have hne : targetOf dir n ≠ [] := (spell_json dir hn).2.2
  obtain ⟨rA1, rA2⟩ := rn_target sA dir hn
  obtain ⟨rB1, rB2⟩ := rn_target sB dir hn
  have hresA : resolveSpelled (spellJoin dir e.2.file) = pathM sA (targetOf dir n) := by rw [he]; exact rA1
  have hresB : resolveSpelled (spellJoin dir e'.2.file) = pathM sB (targetOf dir n) := by rw [he']; exact rB1
  have hdlA : (spellJoin dir e.2.file).dropLast = (spellJoin dir n).dropLast := by rw [he]; exact rA2
  have hdlB : (spellJoin dir e'.2.file).dropLast = (spellJoin dir n).dropLast := by rw [he']; exact rB2
  have hcontA := contains_M hsA hd.paths hnc.paths hne cn anc hanc
  have hcontB := contains_M hsB hd.paths hnc.paths hne cn anc hanc
  have hgetA := get_M hsA hd.paths hnc.paths hne cn
  have hgetB := get_M hsB hd.paths hnc.paths hne cn
  rw [← hresA] at hcontA hgetA
  rw [← hresB] at hcontB hgetB
  have hcut : (anc.contains (targetOf dir n) = true ∨ (doc.find? fun g => g.1 == targetOf dir n) = none) → Out t t' c1 c1' := by
    intro hc0
    have k1 : (anc.map (pathM sA)).contains (resolveSpelled (spellJoin dir e.2.file)) = true ∨
        (renderM sA doc).get (resolveSpelled (spellJoin dir e.2.file)) = none := by
      rcases hc0 with h0 | h0
      · exact Or.inl (by rw [hcontA]; exact h0)
      · exact Or.inr (by rw [hgetA, h0]; rfl)
    have k2 : (anc.map (pathM sB)).contains (resolveSpelled (spellJoin dir e'.2.file)) = true ∨
        (renderM sB doc).get (resolveSpelled (spellJoin dir e'.2.file)) = none := by
      rcases hc0 with h0 | h0
      · exact Or.inl (by rw [hcontB]; exact h0)
      · exact Or.inr (by rw [hgetB, h0]; rfl)
    rw [C06_cut_edge _ _ _ _ _ _ _ k1] at h
    rw [C06_cut_edge _ _ _ _ _ _ _ k2] at h'
    simp only [pure, Except.pure, Except.ok.injEq, Prod.mk.injEq] at h h'
    obtain ⟨rfl, rfl⟩ := h
    obtain ⟨rfl, rfl⟩ := h'
    exact ⟨hg, hg', hs, hc, hc'⟩
  cases h1 : anc.contains (targetOf dir n) with
  | true => exact hcut (Or.inl h1)
  | false =>
    cases hf : doc.find? (fun g => g.1 == targetOf dir n) with
    | none => exact hcut (Or.inr hf)
    | some f =>
      clear hcut
      have h1A : (anc.map (pathM sA)).contains (resolveSpelled (spellJoin dir e.2.file)) = false := by rw [hcontA]; exact h1
      have h1B : (anc.map (pathM sB)).contains (resolveSpelled (spellJoin dir e'.2.file)) = false := by rw [hcontB]; exact h1
      rw [hf] at hgetA hgetB
      rw [inclStep_live _ _ _ _ _ _ _ h1A hgetA] at h
      rw [inclStep_live _ _ _ _ _ _ _ h1B hgetB] at h'
      cases hp : parseFile (renderM sA doc) true c (spellJoin dir e.2.file) with
      | error z => rw [hp] at h; cases h
      | ok r1 =>
        cases hp' : parseFile (renderM sB doc) true c' (spellJoin dir e'.2.file) with
        | error z => rw [hp'] at h'; cases h'
        | ok r1' =>
          rw [hp] at h
          rw [hp'] at h'
          simp only [Except.bind] at h h'
          obtain ⟨x1, d1⟩ := r1
          obtain ⟨y1, d1'⟩ := r1'
          obtain ⟨f0, hf0, gx, sx, ix, vx⟩ := parse_M hd hnc hsA hc hne cn hresA hp
          rw [hf] at hf0
          cases hf0
          obtain ⟨f0, hf0, gy, sy, iy, vy⟩ := parse_M hd hnc hsB hc' hne cn hresB hp'
          rw [hf] at hf0
          cases hf0
          have hfm : f ∈ doc := List.mem_of_find?_eq_some hf
          have hf1 : f.1 = targetOf dir n := by
            have := List.find?_some hf
            simpa using this
          -- the names of the included file, read in its directory as spelled
          have htd : ∀ m ∈ inclNames f.2, targetOf (spellJoin dir n).dropLast m = targetOf f.1.dropLast m := by
            intro m hm
            rw [hf1]
            exact target_dir dir hn ((hd.content f hfm).names m hm)
          have hrnA : (inclNames f.2).map (rn sA f.1.dropLast) = (inclNames f.2).map (rn sA (spellJoin dir n).dropLast) := by
            apply List.map_congr_left
            intro m hm
            unfold rn
            rw [htd m hm]
          have hrnB : (inclNames f.2).map (rn sB f.1.dropLast) = (inclNames f.2).map (rn sB (spellJoin dir n).dropLast) := by
            apply List.map_congr_left
            intro m hm
            unfold rn
            rw [htd m hm]
          rw [hrnA] at ix
          rw [hrnB] at iy
          have hemp : y1.incl.isEmpty = x1.incl.isEmpty := by
            have e1 : (filesOf y1).length = (filesOf x1).length := by rw [iy, ix, List.length_map, List.length_map]
            simp only [filesOf, List.length_map] at e1
            cases hx : x1.incl with
            | nil => rw [hx] at e1; cases hy : y1.incl with
              | nil => rfl
              | cons _ _ => rw [hy] at e1; simp at e1
            | cons _ _ => rw [hx] at e1; cases hy : y1.incl with
              | nil => rw [hy] at e1; simp at e1
              | cons _ _ => rfl
          simp only at h h'
          rw [hemp] at h'
          cases hi : x1.incl.isEmpty with
          | true =>
            simp only [hi, if_true, pure, Except.pure, Except.ok.injEq, Prod.mk.injEq] at h h'
            obtain ⟨rfl, rfl⟩ := h
            obtain ⟨rfl, rfl⟩ := h'
            obtain ⟨m1, m2⟩ := Good.merge hg gx
            obtain ⟨m1', m2'⟩ := Good.merge hg' gy
            exact ⟨m1, m1', by rw [m2, m2', hs, sx, sy], vx, vy⟩
          | false =>
            simp only [hi, Bool.false_eq_true, if_false] at h h'
            rw [hresA, hdlA] at h
            rw [hresB, hdlB] at h'
            cases hm : mergeIncludesRec (renderM sA doc) true fuel (anc.map (pathM sA) ++ [pathM sA (targetOf dir n)]) x1
                (spellJoin dir n).dropLast d1 with
            | error z => rw [hm] at h; cases h
            | ok nn =>
              cases hm' : mergeIncludesRec (renderM sB doc) true fuel (anc.map (pathM sB) ++ [pathM sB (targetOf dir n)]) y1
                  (spellJoin dir n).dropLast d1' with
              | error z => rw [hm'] at h'; cases h'
              | ok nn' =>
                rw [hm] at h
                rw [hm'] at h'
                simp only [pure, Except.pure, Except.ok.injEq, Prod.mk.injEq] at h h'
                obtain ⟨rfl, rfl⟩ := h
                obtain ⟨rfl, rfl⟩ := h'
                have hanc' : ∀ a ∈ anc ++ [targetOf dir n], a ∈ doc.map (·.1) := by
                  intro a ha
                  rcases List.mem_append.mp ha with ha | ha
                  · exact hanc a ha
                  · simp only [List.mem_singleton] at ha; rw [ha, ← hf1]; exact List.mem_map_of_mem hfm
                have hmapA : (anc ++ [targetOf dir n]).map (pathM sA) = anc.map (pathM sA) ++ [pathM sA (targetOf dir n)] := by
                  rw [List.map_append, List.map_singleton]
                have hmapB : (anc ++ [targetOf dir n]).map (pathM sB) = anc.map (pathM sB) ++ [pathM sB (targetOf dir n)] := by
                  rw [List.map_append, List.map_singleton]
                rw [← hmapA] at hm
                rw [← hmapB] at hm'
                have o := hrec _ x1 y1 _ d1 d1' nn.1 nn'.1 nn.2 nn'.2 (inclNames f.2) hanc' gx gy (sx.trans sy.symm)
                  (hd.content f hfm).names
                  (fun m hm0 => by rw [htd m hm0]; exact hnc.targets f hfm m hm0) ix iy vx vy hm hm'
                obtain ⟨a1, a2⟩ := Good.merge hg o.good
                obtain ⟨b1, b2⟩ := Good.merge a1 o.good
                obtain ⟨a1', a2'⟩ := Good.merge hg' o.good'
                obtain ⟨b1', b2'⟩ := Good.merge a1' o.good'
                exact ⟨b1, b1', by rw [b2, b2', a2, a2', hs, o.eq], o.valid, o.valid'⟩

theorem fold_congrM {doc : Doc} {sA sB : Comps → Bool} (hd : DocWF doc) (hnc : NoClash doc) (hsA : Choice doc sA)
    (hsB : Choice doc sB) (fuel : Nat) (hrec : RecCongrM doc sA sB fuel) (anc : List Comps) (dir : Comps)
    (hanc : ∀ a ∈ anc, a ∈ doc.map (·.1)) : ∀ (names : List Str) (l l' : List (Nat × InclEntry)),
    (l.map fun e => e.2.file) = names.map (rn sA dir) → (l'.map fun e => e.2.file) = names.map (rn sB dir) →
    (∀ n ∈ names, nameOK n = true) → (∀ n ∈ names, ClashFree doc (targetOf dir n)) →
    ∀ (temp temp' : SD) (c c' : Counter) (t t' : SD) (c1 c1' : Counter),
    Good temp → Good temp' → S temp = S temp' → Valid c → Valid c' →
    l.foldlM (inclStep (renderM sA doc) true (mergeIncludesRec (renderM sA doc) true fuel) (anc.map (pathM sA)) dir) (temp, c) = .ok (t, c1) →
    l'.foldlM (inclStep (renderM sB doc) true (mergeIncludesRec (renderM sB doc) true fuel) (anc.map (pathM sB)) dir) (temp', c') = .ok (t', c1') →
    Out t t' c1 c1'
  | [], [], [], _, _, _, _, temp, temp', c, c', t, t', c1, c1', hg, hg', hs, hc, hc', h, h' => by
    simp only [List.foldlM_nil, pure, Except.pure, Except.ok.injEq, Prod.mk.injEq] at h h'
    obtain ⟨rfl, rfl⟩ := h
    obtain ⟨rfl, rfl⟩ := h'
    exact ⟨hg, hg', hs, hc, hc'⟩
  | [], _ :: _, _, hl, _, _, _, _, _, _, _, _, _, _, _, _, _, _, _, _, _, _ => by simp at hl
  | [], [], _ :: _, _, hl, _, _, _, _, _, _, _, _, _, _, _, _, _, _, _, _, _ => by simp at hl
  | _ :: _, [], _, hl, _, _, _, _, _, _, _, _, _, _, _, _, _, _, _, _, _, _ => by simp at hl
  | _ :: _, _ :: _, [], _, hl, _, _, _, _, _, _, _, _, _, _, _, _, _, _, _, _, _ => by simp at hl
  | n :: names, e :: l, e' :: l', hl, hl', hn, hcn, temp, temp', c, c', t, t', c1, c1', hg, hg', hs, hc, hc', h, h' => by
    simp only [List.map_cons, List.cons.injEq] at hl hl'
    rw [List.foldlM_cons] at h h'
    cases hst : inclStep (renderM sA doc) true (mergeIncludesRec (renderM sA doc) true fuel) (anc.map (pathM sA)) dir (temp, c) e with
    | error z => rw [hst] at h; cases h
    | ok r1 =>
      cases hst' : inclStep (renderM sB doc) true (mergeIncludesRec (renderM sB doc) true fuel) (anc.map (pathM sB)) dir (temp', c') e' with
      | error z => rw [hst'] at h'; cases h'
      | ok r1' =>
        rw [hst] at h
        rw [hst'] at h'
        have o := step_congrM hd hnc hsA hsB fuel hrec anc dir hanc e e' n (hn n List.mem_cons_self) (hcn n List.mem_cons_self)
          hl.1 hl'.1 temp temp' c c' r1.1 r1'.1 r1.2 r1'.2 hg hg' hs hc hc' hst hst'
        exact fold_congrM hd hnc hsA hsB fuel hrec anc dir hanc names l l' hl.2 hl'.2
          (fun x hx => hn x (List.mem_cons_of_mem _ hx)) (fun x hx => hcn x (List.mem_cons_of_mem _ hx))
          r1.1 r1'.1 r1.2 r1'.2 t t' c1 c1' o.good o.good' o.eq o.valid o.valid' h h'

/-- **the congruence lemma for `_merge_includes_recursive` on two mixed renderings**, by induction on the fuel -/
theorem rec_congrM {doc : Doc} {sA sB : Comps → Bool} (hd : DocWF doc) (hnc : NoClash doc) (hsA : Choice doc sA)
    (hsB : Choice doc sB) : ∀ fuel, RecCongrM doc sA sB fuel
  | 0 => by
    intro anc x y dir c c' r r' c1 c1' names _ gx gy hs _ _ _ _ hc hc' h h'
    rw [mergeIncludesRec_zero] at h h'
    simp only [Except.ok.injEq, Prod.mk.injEq] at h h'
    obtain ⟨rfl, rfl⟩ := h
    obtain ⟨rfl, rfl⟩ := h'
    exact ⟨gx, gy, hs, hc, hc'⟩
  | fuel + 1 => by
    intro anc x y dir c c' r r' c1 c1' names hanc gx gy hs hnames hcn hfx hfy hc hc' h h'
    rw [mergeIncludesRec_succ] at h h'
    cases hf : x.incl.foldlM (inclStep (renderM sA doc) true (mergeIncludesRec (renderM sA doc) true fuel) (anc.map (pathM sA)) dir)
        (({} : SD), c) with
    | error z => rw [hf] at h; cases h
    | ok t =>
      cases hf' : y.incl.foldlM (inclStep (renderM sB doc) true (mergeIncludesRec (renderM sB doc) true fuel) (anc.map (pathM sB)) dir)
          (({} : SD), c') with
      | error z => rw [hf'] at h'; cases h'
      | ok t' =>
        rw [hf] at h
        rw [hf'] at h'
        simp only [Except.map, Except.ok.injEq, Prod.mk.injEq] at h h'
        obtain ⟨rfl, rfl⟩ := h
        obtain ⟨rfl, rfl⟩ := h'
        have o := fold_congrM hd hnc hsA hsB fuel (rec_congrM hd hnc hsA hsB fuel) anc dir hanc names x.incl y.incl hfx hfy
          hnames hcn {} {} c c' t.1 t'.1 t.2 t'.2 Good.empty Good.empty rfl hc hc' hf hf'
        obtain ⟨m1, m2⟩ := Good.merge gx o.good
        obtain ⟨m1', m2'⟩ := Good.merge gy o.good'
        exact ⟨m1, m1', by rw [m2, m2', hs, o.eq], o.valid, o.valid'⟩

/-! ## 6. the whole reader -/

theorem pathM_root {s : Comps → Bool} {root : Comps} (hroot : ∀ comp ∈ root, isDots comp = false) :
    resolveSpelled (pathM s root) = pathM s root ∧ (pathM s root).dropLast = root.dropLast := by
  obtain ⟨r1, r2⟩ := resolve_jsonPathOf hroot
  unfold pathM
  split
  · exact ⟨r2, dropLast_jsonPathOf root⟩
  · exact ⟨r1, rfl⟩

/-- **C09, equivalence of mixed renderings** (effective choices).  Any two renderings of a well-formed model document in
    which every file is rendered in native or in JSON syntax, the include names spelled to match, read to equal data up
    to the comment / include placeholder entries -/
theorem C09_equiv_mixed_choice (ev : Str → EvalResult) (doc : Doc) (root : Comps) (sA sB : Comps → Bool) (c c' : Counter)
    (hd : DocWF doc) (hnc : NoClash doc) (hsA : Choice doc sA) (hsB : Choice doc sB)
    (hr : root ∈ doc.map (·.1)) (hroot : ∀ comp ∈ root, isDots comp = false) (hc : Valid c) (hc' : Valid c') :
    ∀ sdA cA sdB cB,
      readFile ev (renderM sA doc) {} c (pathM sA root) = .ok (.ok sdA cA) →
      readFile ev (renderM sB doc) {} c' (pathM sB root) = .ok (.ok sdB cB) →
      C01.dropPhEntries sdA.data = C01.dropPhEntries sdB.data ∧ stripEs sdA.data = stripEs sdB.data := by
  intro sdA cA sdB cB h h'
  obtain ⟨x, c1, m, hp, hm, he⟩ := readFile_default ev _ c _ sdA cA h
  obtain ⟨y, c1', m', hp', hm', he'⟩ := readFile_default ev _ c' _ sdB cB h'
  obtain ⟨g, hg, hg1⟩ := List.mem_map.mp hr
  have hne : root ≠ [] := by rw [← hg1]; exact hd.paths g hg
  have hcl : ClashFree doc root := by rw [← hg1]; exact hnc.paths g hg
  obtain ⟨f, hf, gx, sx, ix, vx⟩ := parse_M hd hnc hsA hc hne hcl (pathM_root hroot).1 hp
  obtain ⟨f0, hf0, gy, sy, iy, vy⟩ := parse_M hd hnc hsB hc' hne hcl (pathM_root hroot).1 hp'
  rw [hf] at hf0
  cases hf0
  have hfm : f ∈ doc := List.mem_of_find?_eq_some hf
  have hf1 : f.1 = root := by
    have := List.find?_some hf
    simpa using this
  have hlenA : (renderM sA doc).length = doc.length := by unfold renderM; rw [List.length_map]
  have hlenB : (renderM sB doc).length = doc.length := by unfold renderM; rw [List.length_map]
  rw [hlenA, (pathM_root hroot).2, ← hf1] at hm
  rw [hlenB, (pathM_root hroot).2, ← hf1] at hm'
  have o := rec_congrM hd hnc hsA hsB _ [] x y _ c1 c1' m m' cA cB (inclNames f.2) (fun _ h => by cases h) gx gy
    (sx.trans sy.symm) (hd.content f hfm).names (hnc.targets f hfm) ix iy vx vy hm hm'
  obtain ⟨a1, a2⟩ := Good.merge o.good o.good
  obtain ⟨a1', a2'⟩ := Good.merge o.good' o.good'
  rw [C01.evalExpressions_noexpr ev _ a1.exprs] at he
  rw [C01.evalExpressions_noexpr ev _ a1'.exprs] at he'
  cases he
  cases he'
  have e : stripEs (m.merge (.sd m)).data = stripEs (m'.merge (.sd m')).data := by
    show S _ = S _
    rw [a2, a2', o.eq]
  exact ⟨by rw [← valsNoPh_strip_eq _ a1.vals, ← valsNoPh_strip_eq _ a1'.vals, e], e⟩

/-- the mixed rendering of a document for a choice function `syn : Comps → Bool` (`true`: JSON) on its files -/
abbrev renderMixed (syn : Comps → Bool) (doc : Doc) : FS := renderM (eff doc syn) doc

/-- the path of the rendering of a file of the document -/
abbrev pathMixed (syn : Comps → Bool) (doc : Doc) (p : Comps) : Comps := pathM (eff doc syn) p

/-- **C09, equivalence, mixed include graphs.**  For any two choice functions: the two renderings of a well-formed
    document without expressions read to equal data up to the placeholder entries -/
theorem C09_equiv_mixed (ev : Str → EvalResult) (doc : Doc) (root : Comps) (synA synB : Comps → Bool) (c c' : Counter)
    (hd : DocWF doc) (hnc : NoClash doc) (hr : root ∈ doc.map (·.1)) (hroot : ∀ comp ∈ root, isDots comp = false)
    (hc : Valid c) (hc' : Valid c') :
    ∀ sdA cA sdB cB,
      readFile ev (renderMixed synA doc) {} c (pathMixed synA doc root) = .ok (.ok sdA cA) →
      readFile ev (renderMixed synB doc) {} c' (pathMixed synB doc root) = .ok (.ok sdB cB) →
      C01.dropPhEntries sdA.data = C01.dropPhEntries sdB.data :=
  fun sdA cA sdB cB h h' =>
    (C09_equiv_mixed_choice ev doc root _ _ c c' hd hnc (eff_choice doc synA) (eff_choice doc synB) hr hroot hc hc'
      sdA cA sdB cB h h').1

/-! ## 7. the all-native choice is the native rendering of C09.lean -/

theorem renameC_false (d : Comps) : ∀ es : Entries, renameC (fun _ => false) d es = es
  | [] => rfl
  | e :: es => by
    have ih := renameC_false d es
    unfold renameC at ih ⊢
    rw [List.map_cons, ih]
    cases he : isInclEntry e with
    | false => simp
    | true =>
      obtain ⟨k, n, rfl, _⟩ := isInclEntry_iff.mp he
      simp [rn, inclName]

theorem renderMixed_native (doc : Doc) : renderMixed (fun _ => false) doc = renderNative doc := by
  have e : eff doc (fun _ => false) = fun _ => false := by funext t; simp [eff]
  unfold renderMixed
  rw [e, renderNative_eq]
  unfold renderM
  apply List.map_congr_left
  intro f _
  simp [pathM, bodyM, renameC_false]

theorem pathMixed_native (doc : Doc) (p : Comps) : pathMixed (fun _ => false) doc p = p := by
  simp [pathMixed, pathM, eff]

/-- any mixed rendering against the native rendering of Props/C09.lean -/
theorem C09_equiv_mixed_native (ev : Str → EvalResult) (doc : Doc) (root : Comps) (syn : Comps → Bool) (c c' : Counter)
    (hd : DocWF doc) (hnc : NoClash doc) (hr : root ∈ doc.map (·.1)) (hroot : ∀ comp ∈ root, isDots comp = false)
    (hc : Valid c) (hc' : Valid c') :
    ∀ sdM cM sdN cN,
      readFile ev (renderMixed syn doc) {} c (pathMixed syn doc root) = .ok (.ok sdM cM) →
      readFile ev (renderNative doc) {} c' root = .ok (.ok sdN cN) →
      C01.dropPhEntries sdM.data = C01.dropPhEntries sdN.data := by
  intro sdM cM sdN cN h h'
  rw [← renderMixed_native doc, ← pathMixed_native doc root] at h'
  exact C09_equiv_mixed ev doc root syn (fun _ => false) c c' hd hnc hr hroot hc hc' sdM cM sdN cN h h'

/-! ## 8. non-vacuity: `Ex.exDoc` with `main` native, `a` JSON, `sub/b` native -/

namespace ExM
open DictIO.C09.Ex

/-- `/w/a` in JSON, the other files native -/
def synEx : Comps → Bool := fun p => p == ["w".toList, "a".toList]

def mainC' : Entries :=
  [(sk "#include", sv "a.json"), (sk "x", .leaf (.int 1)), (sk "#include 2", sv "sub/b"), (sk "d", .dict [(sk "p", sv "main")])]

def bC' : Entries :=
  [(sk "#include", sv "../a.json"), (sk "z", sv "hello world"), (sk "d", .dict [(sk "r", .leaf (.float "1.5".toList))]),
   (sk "#include 2", sv "nothere")]

theorem mainC'_text : nativeText mainC' = C01.unlines
    ["#include 'a.json'", "#include 'sub/b'", "x                             1;", "d", "{", "    p                         main;", "}"] := by
  have e1 : inclNames mainC' = ["a.json".toList, "sub/b".toList] := by decide +kernel
  have e2 : restOf mainC' = [(sk "x", .leaf (.int 1)), (sk "d", .dict [(sk "p", sv "main")])] := by decide +kernel
  have e3 : hoistPlaceholders [(sk "x", .leaf (.int 1)), (sk "d", .dict [(sk "p", sv "main")])] =
      [(sk "x", .leaf (.int 1)), (sk "d", .dict [(sk "p", sv "main")])] := by decide +kernel
  unfold nativeText
  rw [e1, e2]
  show _ ++ removeTrailingSpaces (fmtEntries .native 0 (hoistPlaceholders _)) = _
  rw [e3]
  simp only [sk, sv, fmtEntries, fmtList, fmtItems, formatKey, keyStr, formatScalar]
  decide +kernel

theorem bC'_text : nativeText bC' = C01.unlines
    ["#include '../a.json'", "#include 'nothere'", "z                             'hello world';", "d", "{",
     "    r                         1.5;", "}"] := by
  have e1 : inclNames bC' = ["../a.json".toList, "nothere".toList] := by decide +kernel
  have e2 : restOf bC' = [(sk "z", sv "hello world"), (sk "d", .dict [(sk "r", .leaf (.float "1.5".toList))])] := by
    decide +kernel
  have e3 : hoistPlaceholders [(sk "z", sv "hello world"), (sk "d", .dict [(sk "r", .leaf (.float "1.5".toList))])] =
      [(sk "z", sv "hello world"), (sk "d", .dict [(sk "r", .leaf (.float "1.5".toList))])] := by decide +kernel
  unfold nativeText
  rw [e1, e2]
  show _ ++ removeTrailingSpaces (fmtEntries .native 0 (hoistPlaceholders _)) = _
  rw [e3]
  simp only [sk, sv, fmtEntries, fmtList, fmtItems, formatKey, keyStr, formatScalar]
  decide +kernel

/-- the mixed rendering of the example: `/w/main` and `/w/sub/b` as native texts (their includes of `a` spelled `a.json`,
    `../a.json`), `/w/a.json` as JSON -/
def exFsM : FS :=
  [(["w".toList, "main".toList], .native (C01.unlines
      ["#include 'a.json'", "#include 'sub/b'", "x                             1;", "d", "{", "    p                         main;", "}"])),
   (["w".toList, "a.json".toList], .json aC),
   (["w".toList, "sub".toList, "b".toList], .native (C01.unlines
      ["#include '../a.json'", "#include 'nothere'", "z                             'hello world';", "d", "{",
       "    r                         1.5;", "}"]))]

theorem exM_fs : renderMixed synEx exDoc = exFsM := by
  have s1 : eff exDoc synEx ["w".toList, "main".toList] = false := by decide +kernel
  have s2 : eff exDoc synEx ["w".toList, "a".toList] = true := by decide +kernel
  have s3 : eff exDoc synEx ["w".toList, "sub".toList, "b".toList] = false := by decide +kernel
  have r1 : renameC (eff exDoc synEx) ["w".toList] mainC = mainC' := by decide +kernel
  have r2 : renameC (eff exDoc synEx) ["w".toList] aC = aC := by decide +kernel
  have r3 : renameC (eff exDoc synEx) ["w".toList, "sub".toList] bC = bC' := by decide +kernel
  have j : jsonPathOf ["w".toList, "a".toList] = ["w".toList, "a.json".toList] := by decide +kernel
  have d1 : (["w".toList, "main".toList] : Comps).dropLast = ["w".toList] := rfl
  have d2 : (["w".toList, "a".toList] : Comps).dropLast = ["w".toList] := rfl
  have d3 : (["w".toList, "sub".toList, "b".toList] : Comps).dropLast = ["w".toList, "sub".toList] := rfl
  unfold renderMixed renderM
  generalize eff exDoc synEx = s at s1 s2 s3 r1 r2 r3
  simp only [exDoc, List.map_cons, List.map_nil, pathM, bodyM, s1, s2, s3, if_true, Bool.false_eq_true, if_false,
    d1, d2, d3, r1, r2, r3, mainC'_text, bC'_text, j]
  rfl

theorem exM_noClash : NoClash exDoc := by
  refine ⟨?_, ?_⟩
  · show ∀ f ∈ exDoc, ∀ g ∈ exDoc, f.1 ≠ jsonPathOf g.1
    decide +kernel
  · show ∀ f ∈ exDoc, ∀ n ∈ inclNames f.2, ∀ g ∈ exDoc, resolveSpelled (spellJoin f.1.dropLast n) ≠ jsonPathOf g.1
    decide +kernel

set_option synthInstance.maxSize 1000 in
theorem exM_read : (Ex.dataOf (readFile evalInt (renderMixed synEx exDoc) {} none (pathMixed synEx exDoc exRoot))).map
    C01.dropPhEntries = some exExpected := by
  rw [exM_fs]
  have : pathMixed synEx exDoc exRoot = exRoot := by decide +kernel
  rw [this]
  decide +kernel

/-- the theorem on the example: the mixed read and the all-native read both succeed and agree up to placeholder entries -/
theorem exM_equiv : ∃ sdM cM sdN cN,
    readFile evalInt (renderMixed synEx exDoc) {} none (pathMixed synEx exDoc exRoot) = .ok (.ok sdM cM) ∧
    readFile evalInt (renderNative exDoc) {} none exRoot = .ok (.ok sdN cN) ∧
    C01.dropPhEntries sdM.data = C01.dropPhEntries sdN.data ∧ C01.dropPhEntries sdM.data = exExpected := by
  have h1 := exM_read
  have h2 := exDoc_native
  cases hM : readFile evalInt (renderMixed synEx exDoc) {} none (pathMixed synEx exDoc exRoot) with
  | error z => rw [hM] at h1; cases h1
  | ok rM =>
    cases rM with
    | exit1 => rw [hM] at h1; cases h1
    | ok sdM cM =>
      cases hN : readFile evalInt (renderNative exDoc) {} none exRoot with
      | error z => rw [hN] at h2; cases h2
      | ok rN =>
        cases rN with
        | exit1 => rw [hN] at h2; cases h2
        | ok sdN cN =>
          refine ⟨sdM, cM, sdN, cN, rfl, rfl, ?_, ?_⟩
          · exact C09_equiv_mixed_native evalInt exDoc exRoot synEx none none exDoc_wf exM_noClash (by decide) (by decide)
              (Or.inl rfl) (Or.inl rfl) sdM cM sdN cN hM hN
          · rw [hM] at h1
            simpa [Ex.dataOf] using h1

end ExM
end DictIO.C09.Mixed
