/-
  C11 -- XML: the dict ↔ element-tree mapping of `XmlParser._parse_nodes` and `XmlFormatter.populate_into_element`.
  Model: `xmlEach`, `xmlToDict`, `dictToXml`, `dictChildren`, `numberedKey`, `stripNumbering` (Model/Xml.lean).
  XML text ↔ tree (lxml in, ElementTree + minidom out), namespaces and prefix stripping are not in the model
  (correspondence check only).  Single file: vocabulary, helper lemmas, the property theorems, examples.

  Proved in full (no `sorry`, axioms: propext / Classical.choice / Quot.sound only):

  (a) reading
      `C11_faithful`          keys of `xmlEach c ids kids` = `zipWith (fun i k => numberedKey i k.tag) ids kids`: one entry per
                              child element, in document order (no length hypothesis needed); `C11_length`
      `C11_values_dict`       every value is a dict
      `C11_entry`, `C11_entry_leaf`, `elemBody_eq`
                              the entry of one element, explicitly: children entries (or `_content`), then `_attributes`
      `C11_lookup_content`, `C11_has_content_iff`
                              `_content` is present iff the element has no children and non-blank text, and is then
                              `xmlType (xmlText text)`
      `C11_lookup_attributes`, `C11_has_attributes_iff`
                              `_attributes` is present iff some attribute value is non-empty, and is then the dict of
                              exactly the non-empty ones, typed, in document order
      `C11_entry_at`          the same for the `j`-th element of a list of siblings
  (b) numbering
      `C11_numberedKey_eq`    `numberedKey i tag = padSix i ++ "_" ++ tag`
      `padSix_length`, `padSix_digits`
                              six characters for `i ≤ 999999`, all ASCII digits
      `C11_strip_number`      `i ≤ 999999 → stripNumbering (numberedKey i tag) = tag` (bound needed: example at the end;
                              every number the counter hands out satisfies it: `alloc_le`)
  (c) writing back and reading again
      `C11_written`, `C11_written_each`
                              `dictChildren (xmlToDict c root).1 = root.children.map norm`: the written tree is the tree read,
                              normalised (`norm`: tags, order and nesting kept; text typed and printed with `str()`, blank
                              text and text next to children dropped; empty attributes dropped, attribute values typed and
                              printed, `True`/`False` spelled `true`/`false`) -- all elements, attributes included
      `C11_roundtrip_leaf_str`, `C11_roundtrip_leaf`, `C11_blank_leaf`
                              the leaf cases.  Right-hand side worked out on examples first: the entry's value is the dict
                              `{'_content': x}`, so the text is `str(x)` for *every* scalar (`None` prints `None`); the
                              hypothesis `xmlType (xmlText t) ≠ .none` suggested in the task is therefore NOT needed.
                              Hypotheses kept: `i ≤ 999999`, text not blank, `xmlStr (xmlType (xmlText t)) = xmlText t`
      `C11_counter_independent`
                              the dict read, numbers stripped at every level (`stripEs`), does not depend on the counter
      `C11_roundtrip : C11_roundtrip_statement`
                              general tree statement: tree → dict → tree → dict gives the same dict up to numbers, for every
                              document whose recorded texts and attribute values are stable under typing + printing
                              (`stableL`, a decidable Bool).  Hypothesis needed: `C11_roundtrip_unrestricted_false` (text `''`).
  (d) examples by `decide +kernel` (via `eachS`, a structurally recursive copy of `xmlEach` proved equal to it, because
      `xmlEach` is compiled by well-founded recursion): two-level document with repeated tags, empty attribute value,
      white-space-only element, multi-line text, instantiations of (b) and (c).

  Partial / not covered: nothing of a-d is left as a bare statement.  Outside the model (correspondence only): XML text,
  namespaces, `_parse_nodes` on the root's own attributes (ignored by the model as by the code).
-/
import DictIO.Model.Xml
import DictIO.Props.C04

namespace DictIO.C11
open DictIO

/-! ## specification vocabulary -/

/-- the key under which the text of a leaf element is stored -/
def contentKey : Key := .str "_content".toList
/-- the key under which the attributes of an element are stored -/
def attrsKey : Key := .str "_attributes".toList

/-- the attributes that are recorded: those with a non-empty value -/
def keptAttrs (attrs : List (Str × Str)) : List (Str × Str) := attrs.filter fun a => !a.2.isEmpty

/-- the `_attributes` dict: the recorded attributes in document order, values typed -/
def attrsVal (attrs : List (Str × Str)) : Val :=
  .dict ((keptAttrs attrs).map fun a => (Key.str a.1, Val.leaf (xmlType a.2)))

/-- `node_dict["_attributes"] = …` when there is something to record -/
def withAttrs (attrs : List (Str × Str)) (body : Entries) : Entries :=
  if (keptAttrs attrs).isEmpty then body else setKey attrsKey (attrsVal attrs) body

/-- the `_content` entry of a leaf element (nothing for blank text) -/
def contentEntries (text : Option Str) : Entries :=
  if isBlankText text then [] else [(contentKey, .leaf (xmlType (xmlText (text.getD []))))]

/-- the entries of an element before the attributes are added, and the counter afterwards -/
def kidsBody (c : Counter) (text : Option Str) (kids : List XElem) : Entries × Counter :=
  if !kids.isEmpty then xmlEach (advance kids.length c) (alloc Gen.counterLimit kids.length c) kids
  else (contentEntries text, c)

/-- the dict stored for an element visited in counter state `c` -/
def elemBody (c : Counter) : XElem → Entries
  | .mk _ attrs text kids => withAttrs attrs (kidsBody c text kids).1

/-- the counter state after an element has been visited -/
def elemCounter (c : Counter) : XElem → Counter
  | .mk _ _ text kids => (kidsBody c text kids).2

/-- what `d.get("_content")` of the element's dict is -/
def contentOf : XElem → Option Val
  | .mk _ _ text kids =>
    if kids.isEmpty && !isBlankText text then some (.leaf (xmlType (xmlText (text.getD [])))) else none

/-- what `d.get("_attributes")` of the element's dict is -/
def attrsOf : XElem → Option Val
  | .mk _ attrs _ _ => if (keptAttrs attrs).isEmpty then none else some (attrsVal attrs)

/-! ## helper lemmas -/

/-! ##### unfolding `xmlEach` -/

theorem xmlEach_nil_ids (c : Counter) (kids : List XElem) : xmlEach c [] kids = ([], c) := by
  rw [xmlEach.eq_2]; intros; contradiction

theorem xmlEach_nil_kids (c : Counter) (ids : List Nat) : xmlEach c ids [] = ([], c) := by
  rw [xmlEach.eq_2]; intros; contradiction

theorem xmlEach_cons (c : Counter) (i : Nat) (ids : List Nat) (el : XElem) (rest : List XElem) :
    xmlEach c (i :: ids) (el :: rest) =
      ((Key.str (numberedKey i el.tag), Val.dict (elemBody c el)) :: (xmlEach (elemCounter c el) ids rest).1,
       (xmlEach (elemCounter c el) ids rest).2) := by
  cases el with
  | mk tag attrs text kids =>
    rw [xmlEach.eq_1]
    simp only [elemBody, elemCounter, kidsBody, withAttrs, keptAttrs, attrsVal, contentEntries, attrsKey, contentKey, XElem.tag]
    cases hk : kids.isEmpty <;> cases hb : isBlankText text <;>
      simp only [Bool.not_true, Bool.not_false, if_false, Bool.false_eq_true, if_pos]

/-! ##### six-digit numbers -/

/-- an ASCII digit `0`..`9`, as the regex class `\d` of `stripNumbering` tests it -/
def isNum (ch : Char) : Bool := decide ('0' ≤ ch ∧ ch ≤ '9')

theorem isNum_of_ascii : ∀ c, C04.IsAsciiDigit c → isNum c = true := by
  unfold C04.IsAsciiDigit; decide

theorem natDigits_length : ∀ (k n : Nat), n < 10 ^ (k + 1) → (natDigits n).length ≤ k + 1
  | 0, n, h => by
    rw [natDigits, dif_pos (by simpa using h)]; simp
  | k + 1, n, h => by
    rw [natDigits]
    split
    · simp
    · have := natDigits_length k (n / 10) (by rw [Nat.pow_succ] at h; omega)
      simp only [List.length_append, List.length_singleton]; omega

/-- (b) `padSix i` has exactly six characters for every number the counter can hand out -/
theorem padSix_length {i : Nat} (h : i ≤ 999999) : (padSix i).length = 6 := by
  have := natDigits_length 5 i (by omega)
  simp only [padSix, List.length_append, List.length_replicate]
  omega

/-- `padSix i` is never shorter than six characters (it is longer for `i > 999999`) -/
theorem padSix_length_ge (i : Nat) : 6 ≤ (padSix i).length := by
  simp only [padSix, List.length_append, List.length_replicate]
  omega

/-- (b) … and all of them are ASCII digits (no bound needed) -/
theorem padSix_digits (i : Nat) : ∀ ch ∈ padSix i, isNum ch = true := by
  intro ch hc
  simp only [padSix, List.mem_append, List.mem_replicate] at hc
  rcases hc with ⟨_, rfl⟩ | hc
  · decide
  · exact isNum_of_ascii ch (C04.natDigits_ascii i ch hc)

theorem padSix_ne_nil (i : Nat) : padSix i ≠ [] := by
  intro h
  have := padSix_length_ge i
  rw [h] at this
  simp at this

/-- (b) the numbered key is the six-digit number, an underscore, the tag -/
theorem C11_numberedKey_eq (i : Nat) (tag : Str) : numberedKey i tag = padSix i ++ "_".toList ++ tag := rfl

/-- a numbered key starts with an ASCII digit -/
theorem numberedKey_head (i : Nat) (tag : Str) : ∃ d r, numberedKey i tag = d :: r ∧ isNum d = true := by
  cases h : padSix i with
  | nil => exact absurd h (padSix_ne_nil i)
  | cons d r =>
    refine ⟨d, r ++ ['_'] ++ tag, by simp [numberedKey, h], padSix_digits i d (by simp [h])⟩

theorem takeWhile_append_stop {p : Char → Bool} {c : Char} : ∀ (ds r : Str), (∀ x ∈ ds, p x = true) → p c = false →
    (ds ++ c :: r).takeWhile p = ds
  | [], r, _, hc => by simp [hc]
  | d :: ds, r, hd, hc => by
    have h1 : p d = true := hd d List.mem_cons_self
    have ih := takeWhile_append_stop ds r (fun x hx => hd x (List.mem_cons_of_mem _ hx)) hc
    simp [h1, ih]

/-- (b) `re.sub(r"^\d{1,6}_", "", key)` undoes the numbering, for every number the counter can hand out -/
theorem C11_strip_number {i : Nat} (tag : Str) (hi : i ≤ 999999) : stripNumbering (numberedKey i tag) = tag := by
  have htw : (numberedKey i tag).takeWhile (fun ch => decide ('0' ≤ ch ∧ ch ≤ '9')) = padSix i := by
    rw [numberedKey, List.append_assoc]
    exact takeWhile_append_stop (padSix i) tag (padSix_digits i) (by decide)
  have hdrop : (numberedKey i tag).drop (padSix i).length = '_' :: tag := by
    rw [numberedKey, List.append_assoc, List.drop_left]; rfl
  rw [padSix_length hi] at hdrop
  unfold stripNumbering
  simp only [htw, padSix_length hi, hdrop]
  exact if_pos (by decide)

/-! ##### association lists -/

theorem lookup_setKey_self (k : Key) (x : Val) : ∀ es : Entries, lookup k (setKey k x es) = some x
  | [] => by simp [setKey, lookup]
  | (k', v) :: es => by
    by_cases h : k' = k
    · simp [setKey, lookup, h]
    · simp [setKey, lookup, h, lookup_setKey_self k x es]

theorem lookup_setKey_ne {k k' : Key} (x : Val) (h : k' ≠ k) : ∀ es : Entries, lookup k' (setKey k x es) = lookup k' es
  | [] => by
    have h' : ¬ k = k' := fun e => h e.symm
    simp [setKey, lookup, h']
  | (k0, v) :: es => by
    by_cases h0 : k0 = k
    · have h' : ¬ k = k' := fun e => h e.symm
      subst h0
      simp [setKey, lookup, h']
    · by_cases h1 : k0 = k'
      · subst h1
        simp [setKey, lookup, h0]
      · simp [setKey, lookup, h0, h1, lookup_setKey_ne x h es]

theorem setKey_of_not_mem {k : Key} (x : Val) : ∀ {es : Entries}, k ∉ keys es → setKey k x es = es ++ [(k, x)]
  | [], _ => rfl
  | (k0, v0) :: es, h => by
    have h0 : ¬ k0 = k := fun e => h (by simp [e])
    have h1 : k ∉ keys es := fun hm => h (by simp only [keys, List.map_cons, List.mem_cons]; exact Or.inr hm)
    simp [setKey, h0, setKey_of_not_mem x h1]

theorem lookup_of_not_mem {k : Key} : ∀ {es : Entries}, k ∉ keys es → lookup k es = none
  | [], _ => rfl
  | (k0, v0) :: es, h => by
    have h0 : ¬ k0 = k := fun e => h (by simp [e])
    have h1 : k ∉ keys es := fun hm => h (by simp only [keys, List.map_cons, List.mem_cons]; exact Or.inr hm)
    simp [lookup, h0, lookup_of_not_mem h1]

/-! ## the property -/

/-! #### (a) one entry per child element, in document order -/

/-- (a) the keys of the dict read from a list of sibling elements: one per element, in document order, the element's
    tag prefixed by the number drawn for it.  (No hypothesis on the lengths: `xmlEach` and `zipWith` both stop at the
    end of the shorter list; `xmlToDict` always supplies as many numbers as there are children.) -/
theorem C11_faithful : ∀ (kids : List XElem) (c : Counter) (ids : List Nat),
    (xmlEach c ids kids).1.map (·.1) = List.zipWith (fun i k => Key.str (numberedKey i k.tag)) ids kids
  | [], c, ids => by rw [xmlEach_nil_kids]; simp
  | el :: rest, c, [] => by rw [xmlEach_nil_ids]; simp
  | el :: rest, c, i :: ids => by
    rw [xmlEach_cons]
    simp only [List.map_cons, List.zipWith_cons_cons, C11_faithful rest (elemCounter c el) ids]

/-- (a) … so there are as many entries as elements -/
theorem C11_length (kids : List XElem) (c : Counter) (ids : List Nat) (h : ids.length = kids.length) :
    (xmlEach c ids kids).1.length = kids.length := by
  have := congrArg List.length (C11_faithful kids c ids)
  simp only [List.length_map, List.length_zipWith, h, Nat.min_self] at this
  exact this

/-- (a) every value is a dict -/
theorem C11_values_dict : ∀ (kids : List XElem) (c : Counter) (ids : List Nat), ∀ e ∈ (xmlEach c ids kids).1, e.2.isDict = true
  | [], c, ids => by rw [xmlEach_nil_kids]; simp
  | el :: rest, c, [] => by rw [xmlEach_nil_ids]; simp
  | el :: rest, c, i :: ids => by
    rw [xmlEach_cons]
    intro e he
    rcases List.mem_cons.mp he with rfl | he
    · rfl
    · exact C11_values_dict rest _ ids e he

/-- no numbered key starts with an underscore -/
theorem numberedKey_ne_underscore (i : Nat) (tag r : Str) : numberedKey i tag ≠ '_' :: r := by
  obtain ⟨d, r', h, hd⟩ := numberedKey_head i tag
  rw [h]
  intro e
  cases e
  revert hd
  decide

/-- the keys `_content`, `_attributes` are not among the numbered keys -/
theorem underscore_not_mem (r : Str) : ∀ (kids : List XElem) (c : Counter) (ids : List Nat),
    Key.str ('_' :: r) ∉ keys (xmlEach c ids kids).1
  | [], c, ids => by rw [xmlEach_nil_kids]; simp
  | el :: rest, c, [] => by rw [xmlEach_nil_ids]; simp
  | el :: rest, c, i :: ids => by
    rw [xmlEach_cons]
    simp only [keys, List.map_cons, List.mem_cons, Key.str.injEq, not_or]
    exact ⟨fun e => numberedKey_ne_underscore i el.tag r e.symm, underscore_not_mem r rest _ ids⟩

theorem contentKey_ne_attrsKey : contentKey ≠ attrsKey := by decide

theorem contentKey_eq : contentKey = .str ('_' :: "content".toList) := rfl
theorem attrsKey_eq : attrsKey = .str ('_' :: "attributes".toList) := rfl

/-- the attributes key is not a key of an element's entries before the attributes are added -/
theorem attrsKey_not_mem_kidsBody (c : Counter) (text : Option Str) (kids : List XElem) :
    attrsKey ∉ keys (kidsBody c text kids).1 := by
  unfold kidsBody
  split
  · rw [attrsKey_eq]; exact underscore_not_mem _ _ _ _
  · unfold contentEntries
    split
    · simp
    · simp only [keys, List.map_cons, List.map_nil, List.mem_singleton]
      exact fun e => contentKey_ne_attrsKey e.symm

/-- (a) the attributes are appended after the children / the content -/
theorem elemBody_eq (c : Counter) (tag : Str) (attrs : List (Str × Str)) (text : Option Str) (kids : List XElem) :
    elemBody c (.mk tag attrs text kids) =
      (kidsBody c text kids).1 ++ (if (keptAttrs attrs).isEmpty then [] else [(attrsKey, attrsVal attrs)]) := by
  simp only [elemBody, withAttrs]
  split
  · simp
  · exact setKey_of_not_mem _ (attrsKey_not_mem_kidsBody c text kids)

theorem lookup_content_kidsBody (c : Counter) (text : Option Str) (kids : List XElem) :
    lookup contentKey (kidsBody c text kids).1 =
      if kids.isEmpty && !isBlankText text then some (.leaf (xmlType (xmlText (text.getD [])))) else none := by
  unfold kidsBody
  cases hk : kids.isEmpty
  · simp only [Bool.not_false, if_true, Bool.false_and, Bool.false_eq_true, if_false]
    rw [contentKey_eq]
    exact lookup_of_not_mem (underscore_not_mem _ _ _ _)
  · cases hb : isBlankText text <;> simp [contentEntries, hb, lookup]

/-- (a) the dict of an element has `_content` iff the element has no children and non-blank text, and then the
    content is the typed normalised text -/
theorem C11_lookup_content (c : Counter) (el : XElem) : lookup contentKey (elemBody c el) = contentOf el := by
  cases el with
  | mk tag attrs text kids =>
    simp only [elemBody, withAttrs, contentOf]
    split
    · exact lookup_content_kidsBody c text kids
    · rw [lookup_setKey_ne _ contentKey_ne_attrsKey]; exact lookup_content_kidsBody c text kids

/-- (a) the dict of an element has `_attributes` iff some attribute value is non-empty, and then it holds exactly the
    non-empty ones, typed, in document order -/
theorem C11_lookup_attributes (c : Counter) (el : XElem) : lookup attrsKey (elemBody c el) = attrsOf el := by
  cases el with
  | mk tag attrs text kids =>
    simp only [elemBody, withAttrs, attrsOf]
    split
    · exact lookup_of_not_mem (attrsKey_not_mem_kidsBody c text kids)
    · exact lookup_setKey_self _ _ _

theorem C11_has_content_iff (c : Counter) (el : XElem) :
    hasKey contentKey (elemBody c el) = true ↔ el.children = [] ∧ isBlankText el.text = false := by
  cases el with
  | mk tag attrs text kids =>
    rw [hasKey, C11_lookup_content, contentOf]
    cases kids <;> cases hb : isBlankText text <;> simp [XElem.children, XElem.text, hb]

theorem C11_has_attributes_iff (c : Counter) (el : XElem) :
    hasKey attrsKey (elemBody c el) = true ↔ ∃ a ∈ el.attrs, a.2 ≠ [] := by
  cases el with
  | mk tag attrs text kids =>
    rw [hasKey, C11_lookup_attributes, attrsOf]
    have : (keptAttrs attrs).isEmpty = false ↔ ∃ a ∈ attrs, a.2 ≠ [] := by
      simp [keptAttrs, List.isEmpty_eq_false_iff, List.filter_eq_nil_iff]
    show _ ↔ ∃ a ∈ attrs, a.2 ≠ []
    rw [← this]
    cases (keptAttrs attrs).isEmpty <;> simp

/-- (a) the one-element case: the entry written for an element -/
theorem C11_entry (c : Counter) (i : Nat) (el : XElem) :
    (xmlEach c [i] [el]).1 = [(Key.str (numberedKey i el.tag), Val.dict (elemBody c el))] := by
  rw [xmlEach_cons, xmlEach_nil_kids]

/-- (a) the one-element case for an element without children, spelled out -/
theorem C11_entry_leaf (c : Counter) (i : Nat) (tag : Str) (attrs : List (Str × Str)) (text : Option Str) :
    (xmlEach c [i] [.mk tag attrs text []]).1 =
      [(Key.str (numberedKey i tag), Val.dict (
          (if isBlankText text then [] else [(contentKey, Val.leaf (xmlType (xmlText (text.getD []))))]) ++
          (if (keptAttrs attrs).isEmpty then [] else [(attrsKey, attrsVal attrs)])))] := by
  rw [C11_entry, elemBody_eq]
  rfl

/-- (a) the general case, position by position: the `j`-th entry belongs to the `j`-th element -/
theorem C11_entry_at : ∀ (kids : List XElem) (c : Counter) (ids : List Nat) (j : Nat) (hi : j < ids.length) (hk : j < kids.length),
    ∃ b, (xmlEach c ids kids).1[j]? = some (Key.str (numberedKey ids[j] kids[j].tag), Val.dict b) ∧
      lookup contentKey b = contentOf kids[j] ∧ lookup attrsKey b = attrsOf kids[j]
  | [], _, _, _, _, hk => by simp at hk
  | _ :: _, _, [], _, hi, _ => by simp at hi
  | el :: rest, c, i :: ids, 0, _, _ => by
    rw [xmlEach_cons]
    exact ⟨elemBody c el, rfl, C11_lookup_content c el, C11_lookup_attributes c el⟩
  | el :: rest, c, i :: ids, j + 1, hi, hk => by
    rw [xmlEach_cons]
    simpa using C11_entry_at rest (elemCounter c el) ids j (by simpa using hi) (by simpa using hk)

/-! #### (c) writing the dict back as a tree -/

theorem isNum_ne {d : Char} (h : isNum d = true) : d ≠ '_' ∧ d ≠ 'I' ∧ d ≠ 'B' ∧ d ≠ 'L' := by
  refine ⟨?_, ?_, ?_, ?_⟩ <;> (rintro rfl; revert h; decide)

/-- `populate_into_element` does not skip a key that starts with a digit -/
theorem skip_false {d : Char} (r : Str) (h : isNum d = true) :
    ("_content".toList.isPrefixOf (d :: r) || "_attrib".toList.isPrefixOf (d :: r) || isOptsKey (d :: r)) = false := by
  obtain ⟨h1, h2, h3, h4⟩ := isNum_ne h
  have e1 : ('_' == d) = false := by simpa using fun e => h1 e.symm
  have e2 : ('I' == d) = false := by simpa using fun e => h2 e.symm
  have e3 : ('B' == d) = false := by simpa using fun e => h3 e.symm
  have e4 : ('L' == d) = false := by simpa using fun e => h4 e.symm
  simp only [isOptsKey]
  simp [List.isPrefixOf, e1, e2, e3, e4]
  split
  · rename_i heq; cases heq; exact absurd rfl h1
  · rfl

/-- `populate_into_element` on a numbered entry: the element gets the tag back -/
theorem dictChildren_numbered {i : Nat} (tag : Str) (v : Val) (es : Entries) (hi : i ≤ 999999) :
    dictChildren ((Key.str (numberedKey i tag), v) :: es) = dictToXml tag v :: dictChildren es := by
  obtain ⟨d, r, hk, hd⟩ := numberedKey_head i tag
  have hs := C11_strip_number tag hi
  rw [hk] at hs
  rw [dictChildren.eq_2, hk, skip_false r hd, hs]
  simp

/-- the `_attributes` entry produces no child element -/
theorem dictChildren_append_attrs (v : Val) : ∀ es : Entries, dictChildren (es ++ [(attrsKey, v)]) = dictChildren es
  | [] => by
    rw [List.nil_append, attrsKey, dictChildren.eq_2, if_pos (by decide)]
  | (.str k, w) :: es => by
    rw [List.cons_append, dictChildren.eq_2, dictChildren.eq_2, dictChildren_append_attrs v es]
  | (.int z, w) :: es => by
    rw [List.cons_append, dictChildren.eq_3, dictChildren.eq_3, dictChildren_append_attrs v es]

/-- the `_content` entry produces no child element -/
theorem dictChildren_contentEntries (text : Option Str) : dictChildren (contentEntries text) = [] := by
  unfold contentEntries
  split
  · rfl
  · rw [contentKey, dictChildren.eq_2, if_pos (by decide)]; rfl

/-- `"true"` / `"false"` for the strings `"True"` / `"False"` (attribute values only) -/
def tfSpell (s : Str) : Str :=
  if s == "True".toList then "true".toList else if s == "False".toList then "false".toList else s

/-- the attribute written for a recorded attribute (none when the typed value prints as the empty string) -/
def writtenAttr (a : Str × Str) : Option (Str × Str) :=
  let s := xmlStr (xmlType a.2)
  if s.isEmpty then none else some (a.1, tfSpell s)

/-- the attributes of the element written back -/
def normAttrs (attrs : List (Str × Str)) : List (Str × Str) := (keptAttrs attrs).filterMap writtenAttr

/-- the text of the (childless) element written back -/
def normText (text : Option Str) : Option Str :=
  if isBlankText text then none else some (xmlStr (xmlType (xmlText (text.getD []))))

mutual
  /-- the element that is written back for an element that was read -/
  def norm : XElem → XElem
    | .mk tag attrs text kids => .mk tag (normAttrs attrs) (if kids.isEmpty then normText text else none) (normL kids)
  def normL : List XElem → List XElem
    | [] => []
    | el :: rest => norm el :: normL rest
end

theorem normL_eq_map : ∀ kids : List XElem, normL kids = kids.map norm
  | [] => rfl
  | el :: rest => by simp [normL, normL_eq_map rest]

/-- `populate_into_element` on the dict of an element -/
theorem dictToXml_elemBody (c : Counter) (tag' tag : Str) (attrs : List (Str × Str)) (text : Option Str) (kids : List XElem) :
    dictToXml tag' (.dict (elemBody c (.mk tag attrs text kids))) =
      .mk tag' (normAttrs attrs) (if kids.isEmpty then normText text else none) (dictChildren (kidsBody c text kids).1) := by
  have h1 := C11_lookup_content c (.mk tag attrs text kids)
  have h2 := C11_lookup_attributes c (.mk tag attrs text kids)
  simp only [contentKey, attrsKey] at h1 h2
  rw [dictToXml.eq_4, h1, h2]
  congr 1
  · simp only [attrsOf, normAttrs]
    cases he : (keptAttrs attrs).isEmpty
    · simp only [Bool.false_eq_true, if_false, attrsVal, List.filterMap_map]
      rfl
    · rw [List.isEmpty_iff.mp he]; rfl
  · simp only [contentOf, normText]
    cases kids.isEmpty <;> cases isBlankText text <;> rfl
  · rw [elemBody_eq]
    split
    · rw [List.append_nil]
    · exact dictChildren_append_attrs _ _

theorem alloc_length (limit : Nat) : ∀ (n : Nat) (c : Counter), (alloc limit n c).length = n
  | 0, _ => rfl
  | n + 1, c => by simp [alloc, alloc_length limit n]

theorem next_le (limit : Nat) (c : Counter) : (Counter.next limit c).1 ≤ limit := by
  cases c with
  | none => simp [Counter.next]
  | some n =>
    simp only [Counter.next]
    split
    · simp
    · simp only; omega

/-- every number the counter hands out is at most the limit -/
theorem alloc_le (limit : Nat) : ∀ (n : Nat) (c : Counter), ∀ i ∈ alloc limit n c, i ≤ limit
  | 0, _, i, h => by simp [alloc] at h
  | n + 1, c, i, h => by
    simp only [alloc, List.mem_cons] at h
    rcases h with rfl | h
    · exact next_le limit c
    · exact alloc_le limit n _ i h

mutual
  /-- (c) the tree written back for the dict of an element is the normalised element (under whatever tag) -/
  theorem written_elem : ∀ (el : XElem) (c : Counter) (tag' : Str),
      dictToXml tag' (.dict (elemBody c el)) = .mk tag' (norm el).attrs (norm el).text (norm el).children
    | .mk tag attrs text kids, c, tag' => by
      rw [dictToXml_elemBody, norm]
      simp only [XElem.attrs, XElem.text, XElem.children]
      congr 1
      unfold kidsBody
      split
      · exact written_list kids _ _ (by rw [alloc_length]) (alloc_le _ _ _)
      · rename_i hk
        have : kids = [] := by simpa using hk
        subst this
        exact dictChildren_contentEntries text
  /-- (c) the trees written back for the dict read from sibling elements are the normalised elements -/
  theorem written_list : ∀ (kids : List XElem) (c : Counter) (ids : List Nat), ids.length = kids.length →
      (∀ i ∈ ids, i ≤ 999999) → dictChildren (xmlEach c ids kids).1 = normL kids
    | [], c, ids, _, _ => by rw [xmlEach_nil_kids]; rfl
    | el :: rest, c, [], hl, _ => by simp at hl
    | el :: rest, c, i :: ids, hl, hi => by
      rw [xmlEach_cons, dictChildren_numbered _ _ _ (hi i List.mem_cons_self), written_elem el c el.tag,
        written_list rest _ ids (by simpa using hl) (fun j hj => hi j (List.mem_cons_of_mem _ hj)), normL]
      cases el with
      | mk tag attrs text kids => simp only [norm, XElem.tag, XElem.attrs, XElem.text, XElem.children]
end

/-- (c) the children written back for the dict read from sibling elements: the elements, normalised -/
theorem C11_written_each (c : Counter) (ids : List Nat) (kids : List XElem) (hl : ids.length = kids.length)
    (hi : ∀ i ∈ ids, i ≤ 999999) : dictChildren (xmlEach c ids kids).1 = kids.map norm := by
  rw [written_list kids c ids hl hi, normL_eq_map]

/-- (c) the children written back for the dict read from a document: the children of the root, normalised
    (tags and order kept; text typed and printed; empty attributes dropped; text next to children dropped) -/
theorem C11_written (c : Counter) (root : XElem) : dictChildren (xmlToDict c root).1 = root.children.map norm :=
  C11_written_each _ _ _ (by rw [alloc_length]) (alloc_le _ _ _)

/-- (c) leaf element, general form: the text written back is `str()` of the typed normalised text.
    No hypothesis `xmlType (xmlText t) ≠ .none` is needed: the entry's value is the dict `{'_content': x}`, so the
    text is written by the `_content` branch of `populate_into_element`, which is `str(x)` for every scalar, `None`
    included (text `None` is written back as `None`); the special case "`None` is written as empty text" only applies
    to a value that *is* a bare `None` leaf, which `_parse_nodes` never produces. -/
theorem C11_roundtrip_leaf_str {i : Nat} (c : Counter) (tag t : Str) (hi : i ≤ 999999) (hb : isBlankText (some t) = false) :
    dictChildren (xmlEach c [i] [.mk tag [] (some t) []]).1 = [.mk tag [] (some (xmlStr (xmlType (xmlText t)))) []] := by
  rw [C11_written_each c [i] _ rfl (by simpa using hi)]
  simp [norm, normL, normAttrs, keptAttrs, normText, hb]

/-- (c) a leaf element whose text is not blank and whose typed value prints back to the normalised text is written
    back with exactly the normalised text.  Hypotheses: `i ≤ 999999` (the counter never hands out more, `alloc_le`;
    a seven-digit number would not be stripped by `\d{1,6}_`), `hb` (blank text is not recorded at all, see
    `C11_blank_leaf`), `hp` (typing is lossy: `+1`, `on`, `'x'` print back as `1`, `True`, `x`). -/
theorem C11_roundtrip_leaf {i : Nat} (c : Counter) (tag t : Str) (hi : i ≤ 999999) (hb : isBlankText (some t) = false)
    (hp : xmlStr (xmlType (xmlText t)) = xmlText t) :
    dictChildren (xmlEach c [i] [.mk tag [] (some t) []]).1 = [.mk tag [] (some (xmlText t)) []] := by
  rw [C11_roundtrip_leaf_str c tag t hi hb, hp]

/-- (c) a leaf element with blank (or no) text is read as the empty dict and written back without text -/
theorem C11_blank_leaf {i : Nat} (c : Counter) (tag : Str) (text : Option Str) (hi : i ≤ 999999) (hb : isBlankText text = true) :
    (xmlEach c [i] [.mk tag [] text []]).1 = [(.str (numberedKey i tag), .dict [])] ∧
    dictChildren (xmlEach c [i] [.mk tag [] text []]).1 = [.mk tag [] none []] := by
  refine ⟨?_, ?_⟩
  · rw [C11_entry_leaf]; simp [hb, keptAttrs]
  · rw [C11_written_each c [i] _ rfl (by simpa using hi)]
    simp [norm, normL, normAttrs, keptAttrs, normText, hb]

/-! ##### re-reading the written tree -/

mutual
  /-- `stripNumbering` applied to the str keys at every level -/
  def stripV : Val → Val
    | .leaf x => .leaf x
    | .dict es => .dict (stripEs es)
    | .list xs => .list (stripXs xs)
  def stripEs : Entries → Entries
    | [] => []
    | (.str k, v) :: es => (.str (stripNumbering k), stripV v) :: stripEs es
    | (.int z, v) :: es => (.int z, stripV v) :: stripEs es
  def stripXs : List Val → List Val
    | [] => []
    | v :: xs => stripV v :: stripXs xs
end

theorem stripEs_append : ∀ (a b : Entries), stripEs (a ++ b) = stripEs a ++ stripEs b
  | [], b => rfl
  | (.str k, v) :: a, b => by simp [stripEs, stripEs_append a b]
  | (.int z, v) :: a, b => by simp [stripEs, stripEs_append a b]

theorem stripEs_contentEntries (text : Option Str) : stripEs (contentEntries text) = contentEntries text := by
  unfold contentEntries
  split
  · rfl
  · simp only [contentKey, stripEs, stripV]
    have : stripNumbering "_content".toList = "_content".toList := by decide
    rw [this]

theorem stripNumbering_attrs : stripNumbering "_attributes".toList = "_attributes".toList := by decide

mutual
  /-- the dict of an element with the numbers removed: determined by the element alone (no counter) -/
  def shapeBody : XElem → Entries
    | .mk _ attrs text kids =>
      (if kids.isEmpty then contentEntries text else shapeL kids) ++
        (if (keptAttrs attrs).isEmpty then [] else [(attrsKey, stripV (attrsVal attrs))])
  def shapeL : List XElem → Entries
    | [] => []
    | el :: rest => (.str el.tag, .dict (shapeBody el)) :: shapeL rest
end

mutual
  theorem strip_elem : ∀ (el : XElem) (c : Counter), stripEs (elemBody c el) = shapeBody el
    | .mk tag attrs text kids, c => by
      rw [elemBody_eq, stripEs_append, shapeBody]
      congr 1
      · unfold kidsBody
        cases hk : kids.isEmpty
        · simp only [Bool.not_false, if_true, Bool.false_eq_true, if_false]
          exact strip_list kids _ _ (by rw [alloc_length]) (alloc_le _ _ _)
        · simp only [Bool.not_true, Bool.false_eq_true, if_false, if_true]
          exact stripEs_contentEntries text
      · split
        · rfl
        · simp only [attrsKey, stripEs, stripNumbering_attrs]
  /-- the dict read from sibling elements, numbers removed, does not depend on the counter -/
  theorem strip_list : ∀ (kids : List XElem) (c : Counter) (ids : List Nat), ids.length = kids.length →
      (∀ i ∈ ids, i ≤ 999999) → stripEs (xmlEach c ids kids).1 = shapeL kids
    | [], c, ids, _, _ => by rw [xmlEach_nil_kids]; rfl
    | el :: rest, c, [], hl, _ => by simp at hl
    | el :: rest, c, i :: ids, hl, hi => by
      rw [xmlEach_cons, stripEs, C11_strip_number _ (hi i List.mem_cons_self), stripV, strip_elem el c,
        strip_list rest _ ids (by simpa using hl) (fun j hj => hi j (List.mem_cons_of_mem _ hj)), shapeL]
end

/-- the dict read from a document, numbers removed, is the same whatever the counter state -/
theorem C11_counter_independent (c c' : Counter) (root : XElem) :
    stripEs (xmlToDict c root).1 = stripEs (xmlToDict c' root).1 := by
  have h := fun c => strip_list root.children (advance root.children.length c)
    (alloc Gen.counterLimit root.children.length c) (alloc_length _ _ _) (alloc_le Gen.counterLimit _ _)
  simp only [xmlToDict, h]

/-! ##### stability: what survives typing and printing -/

/-- the text of a leaf element is blank, or its typed value prints as a non-blank text that is typed the same again -/
def stableText (text : Option Str) : Bool :=
  isBlankText text ||
    (let s := xmlStr (xmlType (xmlText (text.getD [])))
     !isBlankText (some s) && decide (xmlType (xmlText s) = xmlType (xmlText (text.getD []))))

/-- the typed attribute value prints as a non-empty string that is typed the same again -/
def stableAttr (a : Str × Str) : Bool :=
  let s := xmlStr (xmlType a.2)
  !s.isEmpty && decide (xmlType (tfSpell s) = xmlType a.2)

mutual
  /-- every recorded attribute and every recorded text in the tree is stable -/
  def stableE : XElem → Bool
    | .mk _ attrs text kids => (keptAttrs attrs).all stableAttr && (!kids.isEmpty || stableText text) && stableL kids
  def stableL : List XElem → Bool
    | [] => true
    | el :: rest => stableE el && stableL rest
end

theorem tfSpell_ne_nil {s : Str} (h : s ≠ []) : tfSpell s ≠ [] := by
  unfold tfSpell
  split
  · decide
  · split
    · decide
    · exact h

theorem stable_attrs : ∀ (l : List (Str × Str)), l.all stableAttr = true →
    keptAttrs (l.filterMap writtenAttr) = l.filterMap writtenAttr ∧
    (l.filterMap writtenAttr).map (fun a => (Key.str a.1, Val.leaf (xmlType a.2))) =
      l.map (fun a => (Key.str a.1, Val.leaf (xmlType a.2))) ∧
    (l.filterMap writtenAttr).isEmpty = l.isEmpty
  | [], _ => ⟨rfl, rfl, rfl⟩
  | a :: l, h => by
    simp only [List.all_cons, Bool.and_eq_true] at h
    obtain ⟨ih1, ih2, _⟩ := stable_attrs l h.2
    have ha := h.1
    simp only [stableAttr, Bool.and_eq_true, Bool.not_eq_true', decide_eq_true_eq] at ha
    have hw : writtenAttr a = some (a.1, tfSpell (xmlStr (xmlType a.2))) := by
      simp only [writtenAttr, ha.1, Bool.false_eq_true, if_false]
    have hne : (tfSpell (xmlStr (xmlType a.2))).isEmpty = false := by
      have := tfSpell_ne_nil (s := xmlStr (xmlType a.2)) (by simpa using ha.1)
      simpa using this
    simp only [keptAttrs] at ih1
    refine ⟨?_, ?_, ?_⟩
    · simp only [keptAttrs, List.filterMap_cons, hw, List.filter_cons, hne, Bool.not_false, if_true, ih1]
    · simp only [List.filterMap_cons, hw, List.map_cons, ha.2, ih2]
    · simp only [List.filterMap_cons, hw, List.isEmpty_cons]

theorem stable_contentEntries {text : Option Str} (h : stableText text = true) :
    contentEntries (normText text) = contentEntries text := by
  unfold stableText at h
  cases hb : isBlankText text
  · simp only [hb, Bool.false_or, Bool.and_eq_true, Bool.not_eq_true', decide_eq_true_eq] at h
    simp only [normText, hb, Bool.false_eq_true, if_false, contentEntries, h.1, Option.getD_some, h.2]
  · simp only [normText, hb, if_true, contentEntries]
    rfl

theorem normL_isEmpty : ∀ kids : List XElem, (normL kids).isEmpty = kids.isEmpty
  | [] => rfl
  | _ :: _ => rfl

mutual
  theorem shape_norm_elem : ∀ (el : XElem), stableE el = true → shapeBody (norm el) = shapeBody el
    | .mk tag attrs text kids, h => by
      simp only [stableE, Bool.and_eq_true, Bool.or_eq_true, Bool.not_eq_true'] at h
      obtain ⟨⟨ha, ht⟩, hk⟩ := h
      obtain ⟨a1, a2, a3⟩ := stable_attrs (keptAttrs attrs) ha
      have hv : attrsVal (normAttrs attrs) = attrsVal attrs := by
        simp only [attrsVal, normAttrs, a1, a2]
      have he : (keptAttrs (normAttrs attrs)).isEmpty = (keptAttrs attrs).isEmpty := by
        simp only [normAttrs, a1, a3]
      simp only [norm, shapeBody, normL_isEmpty, hv, he]
      congr 1
      cases hke : kids.isEmpty
      · simp only [Bool.false_eq_true, if_false]
        exact shape_norm_list kids hk
      · simp only [if_true]
        rcases ht with ht | ht
        · rw [hke] at ht; cases ht
        · exact stable_contentEntries ht
  theorem shape_norm_list : ∀ (kids : List XElem), stableL kids = true → shapeL (normL kids) = shapeL kids
    | [], _ => rfl
    | el :: rest, h => by
      simp only [stableL, Bool.and_eq_true] at h
      rw [normL, shapeL, shapeL, shape_norm_elem el h.1, shape_norm_list rest h.2]
      cases el with
      | mk tag attrs text kids => simp only [norm, XElem.tag]
end

/-- (c) the general tree statement: read a document, write the dict back as a tree, read that tree again (in any
    counter state): the same dict comes out, up to the numbers in the keys (`stripNumbering` applied to the keys at
    every level) -- for documents in which every recorded text and attribute value is stable under typing and
    printing (`stableL`, decidable).  Proved below (`C11_roundtrip`); the same statement on real XML text (lxml in,
    ElementTree + minidom out) is decided by the correspondence check. -/
def C11_roundtrip_statement : Prop :=
  ∀ (c c' : Counter) (root : XElem), stableL root.children = true →
    stripEs (xmlToDict c' (dictToXml root.tag (.dict (xmlToDict c root).1))).1 = stripEs (xmlToDict c root).1

/-- the same without the stability hypothesis: false (`C11_roundtrip_unrestricted_false`) -/
def C11_roundtrip_unrestricted : Prop :=
  ∀ (c c' : Counter) (root : XElem),
    stripEs (xmlToDict c' (dictToXml root.tag (.dict (xmlToDict c root).1))).1 = stripEs (xmlToDict c root).1

theorem dictToXml_children (tag : Str) (es : Entries) : (dictToXml tag (.dict es)).children = dictChildren es := by
  rw [dictToXml.eq_4]; rfl

theorem C11_roundtrip : C11_roundtrip_statement := by
  intro c c' root hs
  have h := fun (c : Counter) (kids : List XElem) => strip_list kids (advance kids.length c)
    (alloc Gen.counterLimit kids.length c) (alloc_length _ _ _) (alloc_le Gen.counterLimit _ _)
  have hw := C11_written c root
  rw [← normL_eq_map] at hw
  rw [xmlToDict, dictToXml_children, h, hw, shape_norm_list _ hs, xmlToDict, h]

/-! #### (d) examples -/

/-! ##### evaluation: `xmlEach` is defined by well-founded recursion, which `decide` does not unfold; `eachS` is the same
    function by structural recursion, and element trees get a decidable equality -/

mutual
  def elemS : XElem → Counter → Entries × Counter
    | .mk _ attrs text kids, c =>
      let r : Entries × Counter :=
        if !kids.isEmpty then eachS kids (advance kids.length c) (alloc Gen.counterLimit kids.length c)
        else (contentEntries text, c)
      (withAttrs attrs r.1, r.2)
  def eachS : List XElem → Counter → List Nat → Entries × Counter
    | [], c, _ => ([], c)
    | _ :: _, c, [] => ([], c)
    | el :: rest, c, i :: ids =>
      ((Key.str (numberedKey i el.tag), Val.dict (elemS el c).1) :: (eachS rest (elemS el c).2 ids).1,
       (eachS rest (elemS el c).2 ids).2)
end

mutual
  theorem elemS_eq : ∀ (el : XElem) (c : Counter), elemS el c = (elemBody c el, elemCounter c el)
    | .mk _ attrs text kids, c => by
      simp only [elemS, eachS_eq kids, elemBody, elemCounter, kidsBody]
  theorem eachS_eq : ∀ (kids : List XElem) (c : Counter) (ids : List Nat), eachS kids c ids = xmlEach c ids kids
    | [], c, ids => by rw [xmlEach_nil_kids, eachS]
    | el :: rest, c, [] => by rw [xmlEach_nil_ids, eachS]
    | el :: rest, c, i :: ids => by
      rw [xmlEach_cons, eachS, elemS_eq el c, eachS_eq rest]
end

/-- `_parse_nodes(root)`, evaluable -/
def toDictS (c : Counter) (root : XElem) : Entries × Counter :=
  eachS root.children (advance root.children.length c) (alloc Gen.counterLimit root.children.length c)

theorem xmlToDict_eq (c : Counter) (root : XElem) : xmlToDict c root = toDictS c root := by
  rw [xmlToDict, toDictS, eachS_eq]

mutual
  def beqE : XElem → XElem → Bool
    | .mk t a x k, .mk t' a' x' k' => decide (t = t') && decide (a = a') && decide (x = x') && beqL k k'
  def beqL : List XElem → List XElem → Bool
    | [], [] => true
    | e :: es, e' :: es' => beqE e e' && beqL es es'
    | _, _ => false
end

mutual
  theorem beqE_iff : ∀ a b : XElem, beqE a b = true ↔ a = b
    | .mk t a x k, .mk t' a' x' k' => by simp [beqE, beqL_iff k k', and_assoc]
  theorem beqL_iff : ∀ a b : List XElem, beqL a b = true ↔ a = b
    | [], [] => by simp [beqL]
    | [], _ :: _ => by simp [beqL]
    | _ :: _, [] => by simp [beqL]
    | e :: es, e' :: es' => by simp [beqL, beqE_iff e e', beqL_iff es es']
end

instance : DecidableEq XElem := fun a b => decidable_of_iff _ (beqE_iff a b)

/-- a leaf element -/
def leafEl (tag text : String) : XElem := .mk tag.toList [] (some text.toList) []

/-- (d1) a two-level document with repeated tags: every element gets its own numbered key, siblings first
    (`0`, `1`), then the children of the first sibling (`2`, `3`) -/
example : (xmlToDict none (.mk "root".toList [] none
      [.mk "a".toList [] none [leafEl "b" "1", leafEl "b" "2"], leafEl "a" "z"])).1 =
    [(.str "000000_a".toList, .dict [(.str "000002_b".toList, .dict [(contentKey, .leaf (.int 1))]),
                                      (.str "000003_b".toList, .dict [(contentKey, .leaf (.int 2))])]),
     (.str "000001_a".toList, .dict [(contentKey, .leaf (.str "z".toList))])] := by
  rw [xmlToDict_eq]; decide +kernel

/-- (d2) an attribute with an empty value is not recorded; the others are, typed, after the content -/
example : (xmlEach none [7] [.mk "p".toList [("k".toList, "".toList), ("n".toList, "3".toList), ("f".toList, "ON".toList)]
      (some "x".toList) []]).1 =
    [(.str "000007_p".toList, .dict [(contentKey, .leaf (.str "x".toList)),
      (attrsKey, .dict [(.str "n".toList, .leaf (.int 3)), (.str "f".toList, .leaf (.bool true))])])] := by
  rw [← eachS_eq]; decide +kernel

/-- (d2') … and when all values are empty there is no `_attributes` key at all -/
example : (xmlEach none [7] [.mk "p".toList [("k".toList, "".toList)] (some "x".toList) []]).1 =
    [(.str "000007_p".toList, .dict [(contentKey, .leaf (.str "x".toList))])] := by
  rw [← eachS_eq]; decide +kernel

/-- (d3) a white-space-only element (and one without text) is the empty dict -/
example : (xmlEach (some 41) [42, 43] [leafEl "w" " \n\t  ", .mk "e".toList [] none []]).1 =
    [(.str "000042_w".toList, .dict []), (.str "000043_e".toList, .dict [])] := by
  rw [← eachS_eq]; decide +kernel

/-- (d4) multi-line text: every line stripped, lines joined by `\n`, the whole stripped; then typed (a str here) -/
example : (xmlEach none [0] [leafEl "text" "  first line  \n\n   second line\n"]).1 =
    [(.str "000000_text".toList, .dict [(contentKey, .leaf (.str "first line\n\nsecond line".toList))])] := by
  rw [← eachS_eq]; decide +kernel

/-- (d4') multi-line text that types as a number after normalisation -/
example : (xmlEach none [0] [leafEl "n" "\n   +12\n"]).1 =
    [(.str "000000_n".toList, .dict [(contentKey, .leaf (.int 12))])] := by
  rw [← eachS_eq]; decide +kernel

/-- a document with attributes on the root (ignored) and on an inner element, text next to children (ignored), an
    empty attribute, a white-space-only element, a signed number and a multi-line text -/
def doc1 : XElem := .mk "root".toList [("v".toList, "1".toList)] (some "\n  ".toList)
  [.mk "a".toList [("k".toList, "".toList), ("on".toList, "ON".toList)] (some "ignored".toList)
      [leafEl "b" "1", leafEl "b" " +2 "],
   .mk "a".toList [("e".toList, "".toList)] (some " \n\t ".toList) [],
   leafEl "text" "  first line  \n\n   second line\n"]

/-- (c) instantiated: what is written back for `doc1` (`ON` comes back as `true`, `+2` as `2`) -/
example : dictChildren (xmlToDict none doc1).1 =
    [.mk "a".toList [("on".toList, "true".toList)] none [leafEl "b" "1", leafEl "b" "2"],
     .mk "a".toList [] none [],
     leafEl "text" "first line\n\nsecond line"] := by
  rw [C11_written]; decide +kernel

/-- (c) `C11_roundtrip` instantiated (the hypothesis is satisfiable on a non-trivial document) -/
example : stripEs (xmlToDict (some 5) (dictToXml doc1.tag (.dict (xmlToDict none doc1).1))).1 = stripEs (xmlToDict none doc1).1 :=
  C11_roundtrip none (some 5) doc1 (by decide +kernel)

/-- (c) `C11_roundtrip_leaf` instantiated -/
example : dictChildren (xmlEach none [3] [.mk "t".toList [] (some "  hello \n world ".toList) []]).1 =
    [.mk "t".toList [] (some "hello\nworld".toList) []] :=
  C11_roundtrip_leaf none _ _ (by decide) (by decide) (by decide)

/-- (c) the print-back hypothesis of `C11_roundtrip_leaf` is needed: `on` is typed `True` and written `True` -/
example : dictChildren (xmlEach none [3] [.mk "t".toList [] (some "on".toList) []]).1 =
    [.mk "t".toList [] (some "True".toList) []] := by
  rw [C11_roundtrip_leaf_str none _ _ (by decide) (by decide)]; decide

/-- (c) the stability hypothesis of `C11_roundtrip_statement` is needed: the text `''` is recorded as the empty string,
    which is written as empty text, which is read as "no content" -/
theorem C11_roundtrip_unrestricted_false : ¬ C11_roundtrip_unrestricted := by
  intro h
  have := h none none (.mk "r".toList [] none [leafEl "q" "''"])
  rw [xmlToDict_eq, xmlToDict_eq] at this
  revert this
  decide +kernel

/-- (b) the bound of `C11_strip_number` is needed: a seven-digit number is not removed by `\d{1,6}_` -/
example : stripNumbering (numberedKey 1000000 "a".toList) ≠ "a".toList := by decide +kernel

/-- (b) instantiated; a tag that itself looks numbered keeps its own number -/
example : stripNumbering (numberedKey 12 "7_x".toList) = "7_x".toList := C11_strip_number _ (by decide)

end DictIO.C11
