/-
  C01, route 3 -- `SDict(d).dump(f)` then `SDict().load(f)`: the statement `C01_roundtrip_dump_statement` of
  Props/C01.lean, proved.

  `dump` writes `fmtSD .native { data := normEs d }` = the header block comment followed by the plain text of
  `normEs d` (`C12.fmtSD_text`).  `load` reads that file with comments on: the header comes back as block comment 0
  and one placeholder entry in front of the data (`C12.read_dumped`); the reader stages above the parser
  (`_merge_includes`, `_eval_expressions`) change nothing (`mergeIncludes_clean`, `evalExpressions_noexpr`).

    `merge_empty_clean`, `merge_self_clean`, `mergeIncludes_clean`   (a1) of Props/C01.lean for any SDict on which
                                                                     `_clean` is the identity
    `readFile_of_parse_hdr`, `readFile_dumped`   `DictReader.read` on a file with header / on a dumped file,
                                                 counter valid afterwards
    `dropPh_hdr`             removing the placeholder entries gives the data back
    `C01_roundtrip_dump`     the statement
-/
import DictIO.Props.C12hdr

namespace DictIO.C01
open DictIO

attribute [local irreducible] nativeHeader
set_option linter.unusedSimpArgs false

/-! ## the reader stages above the parser, on an SDict that `_clean` leaves alone -/

/-- `sd.merge(SDict())` -/
theorem merge_empty_clean (sd : SD) (hcl : sd.clean = sd) : sd.merge (.sd {}) = sd := by
  have h : ({ sd with data := mergeD true sd.exprs sd.data (Arg.sd {}).data } : SD).postMerge (.sd {}) = sd := by
    cases sd; simp [SD.postMerge, Arg.data, C07.mergeD_nil, tbl_merge_nil]
  unfold SD.merge
  rw [h, hcl]

/-- `sd.merge(sd)` -/
theorem merge_self_clean (sd : SD) (hcl : sd.clean = sd) (hn : NodupKeysV (.dict sd.data)) :
    sd.merge (.sd sd) = sd := by
  have h : ({ sd with data := mergeD true sd.exprs sd.data (Arg.sd sd).data } : SD).postMerge (.sd sd) = sd := by
    cases sd
    simp only [SD.postMerge, Arg.data, tbl_merge_self]
    rw [mergeD_self_top _ _ hn]
  unfold SD.merge
  rw [h, hcl]

/-- `_merge_includes` on a dict without include entries on which `_clean` is the identity -/
theorem mergeIncludes_clean (fs : FS) (comments : Bool) (sd : SD) (dir : Comps) (c : Counter)
    (hi : sd.incl = []) (hcl : sd.clean = sd) (hn : NodupKeysV (.dict sd.data)) :
    mergeIncludes fs comments sd dir c = .ok (sd, c) := by
  have hrec : mergeIncludesRec fs comments (fs.length + 1) [] sd dir c = .ok (sd, c) := by
    simp only [mergeIncludesRec, hi, List.foldlM_nil, bind, Except.bind, pure, Except.pure]
    rw [merge_empty_clean sd hcl]
  simp only [mergeIncludes, hrec, bind, Except.bind, pure, Except.pure]
  rw [merge_self_clean sd hcl hn]

/-! ## reading a dumped file -/

/-- removing the placeholder entries from what `load` returns gives the data back -/
theorem dropPh_hdr {D : Entries} (hp : C07.NoPhEs D) : dropPhEntries (C12.hdrSD D).data = D := by
  have hk := C12.noPh_keys hp
  show List.filter _ (C12.hdrEntry :: D) = D
  rw [List.filter_cons]
  have : (!C07.isPhKey C12.hdrEntry.1) = false := by
    show (!C07.isPhKey (.str C12.hdrPh)) = false
    rw [C12.hdrPh_isPh]; rfl
  rw [this]
  simp only [Bool.false_eq_true, if_false]
  exact List.filter_eq_self.mpr fun e he => by rw [hk e.1 (List.mem_map_of_mem he)]; rfl

/-- `DictReader.read` with default options on a native file whose text parses to a dict with the header placeholder
    entry and the header comment: the stages above the parser change nothing -/
theorem readFile_of_parse_hdr {D : Entries} {c c' : Counter} (ev : Str → EvalResult) (p : Comps) (text : Str)
    (hparse : parseNative true (pathStr p.dropLast) c text = .ok (C12.hdrSD D, c'))
    (hp : C07.NoPhEs D) (hn : NodupKeysV (.dict D))
    (hj : isJsonPath p = false) (hx : isXmlPath p = false) (hr : resolveSpelled p = p) :
    readFile ev [(p, .native text)] {} c p = .ok (.ok (C12.hdrSD D) c') := by
  have hcl : (C12.hdrSD D).clean = C12.hdrSD D := C12.clean_single_header _ C12.hdrComment D rfl rfl hp hn
  have hmi := mergeIncludes_clean [(p, .native text)] true (C12.hdrSD D) p.dropLast c' rfl hcl (C12.hdr_nodup hp hn)
  have hev := evalExpressions_noexpr ev (C12.hdrSD D) rfl
  have hpf : parseFile [(p, .native text)] true c p = .ok (C12.hdrSD D, c') := by
    simp only [parseFile, hx, hr, fs_get_single, hj, hparse]
    rfl
  simp only [readFile, hpf, bind, Except.bind, pure, Except.pure]
  simp only [if_true, hmi, hev]
  rfl

/-- `DictReader.read` (default options: comments on, includes on) of a file that holds the text `dump` writes for a
    normalised dict `D` of the value domain: `D` with the header placeholder entry in front and the header comment in
    the block-comment table; the counter afterwards is one that can occur -/
theorem readFile_dumped {D : Entries} {c : Counter} (ev : Str → EvalResult) (target : Comps)
    (hdom : DomC01 .native D = true) (hnorm : normEs D = D) (hd : DocKeysAbsent' D)
    (hn : C02.countQuotedEs (srcOfEs .native D) ≤ Gen.counterLimit + 1) (hc : C13.ValidCounter Gen.counterLimit c)
    (hj : isJsonPath target = false) (hx : isXmlPath target = false) (hr : resolveSpelled target = target) :
    ∃ c', C13.ValidCounter Gen.counterLimit c' ∧
      readFile ev [(target, .native (nativeHeader ++ fmtPlain .native D))] {} c target =
        .ok (.ok (C12.hdrSD D) c') := by
  obtain ⟨c', hv, hparse⟩ := C12.read_dumped (c := c) (pathStr target.dropLast) hdom hnorm hd hn hc
  have hinv := norm_invariants hdom
  rw [hnorm] at hinv
  exact ⟨c', hv, readFile_of_parse_hdr ev target _ hparse hinv.1 hinv.2 hj hx hr⟩

/-! ## the property -/

/-- **C01, route 3** (`SDict(d).dump(f)` then `SDict().load(f)`).  `dump` writes the default header in front of the
    dict; `load` reads the file with comments on, so the header comes back as a block-comment table entry and one
    placeholder entry in the data.  Apart from that placeholder entry the data read is `normEs d`.
    (`text` is `nativeHeader ++ fmtPlain .native (normEs d)`, `sd` is `C12.hdrSD (normEs d)`.) -/
theorem C01_roundtrip_dump : C01_roundtrip_dump_statement := by
  intro ev d c target hdom hd hn hc hj hx hr
  have hd' : DocKeysAbsent' (normEs d) := by
    intro e he
    have hk : e.1 ∈ keys d := by rw [← keys_normEs]; exact List.mem_map_of_mem (f := (·.1)) he
    obtain ⟨e', he', hk'⟩ := List.mem_map.mp hk
    rw [← hk']; exact hd e' he'
  obtain ⟨c', _, hread⟩ := readFile_dumped (c := c) ev target hdom (normEs_idem d) hd' hn hc hj hx hr
  have hp := (norm_invariants hdom).1
  rw [normEs_idem] at hp
  exact ⟨nativeHeader ++ fmtPlain .native (normEs d), C12.hdrSD (normEs d), c', C12.fmtSD_text (normEs d), hread,
    dropPh_hdr hp⟩

/-- the explicit form: what is written and what is read -/
theorem C01_roundtrip_dump_explicit {d : Entries} {c : Counter} (ev : Str → EvalResult) (target : Comps)
    (hdom : DomC01 .native (normEs d) = true) (hd : DocKeysAbsent' d)
    (hn : C02.countQuotedEs (srcOfEs .native (normEs d)) ≤ Gen.counterLimit + 1)
    (hc : C13.ValidCounter Gen.counterLimit c)
    (hj : isJsonPath target = false) (hx : isXmlPath target = false) (hr : resolveSpelled target = target) :
    fmtSD .native { data := normEs d } = some (nativeHeader ++ fmtPlain .native (normEs d)) ∧
    ∃ c', readFile ev [(target, .native (nativeHeader ++ fmtPlain .native (normEs d)))] {} c target =
      .ok (.ok { data := (Key.str C12.hdrPh, Val.leaf (.str C12.hdrPh)) :: normEs d,
                 blockC := [(0, C12.hdrComment)] } c') := by
  have hd' : DocKeysAbsent' (normEs d) := by
    intro e he
    have hk : e.1 ∈ keys d := by rw [← keys_normEs]; exact List.mem_map_of_mem (f := (·.1)) he
    obtain ⟨e', he', hk'⟩ := List.mem_map.mp hk
    rw [← hk']; exact hd e' he'
  obtain ⟨c', _, hread⟩ := readFile_dumped (c := c) ev target hdom (normEs_idem d) hd' hn hc hj hx hr
  exact ⟨C12.fmtSD_text (normEs d), c', hread⟩

/-! ## non-vacuity: the example dict of `C01fmt` -/

theorem exDict_route3 (ev : Str → EvalResult) :
    ∃ text sd c', fmtSD .native { data := exDict } = some text ∧
      readFile ev [(["w".toList, "dict".toList], .native text)] {} none ["w".toList, "dict".toList] = .ok (.ok sd c') ∧
      dropPhEntries sd.data = exDict := by
  have h := C01_roundtrip_dump ev exDict none ["w".toList, "dict".toList]
    (by rw [exDict_norm]; exact exDict_dom) exDict_docKeys (by rw [exDict_norm, exDict_count]; decide) (Or.inl rfl)
    (by decide) (by decide) (by decide)
  rwa [exDict_norm] at h

end DictIO.C01
