/-
  C10 -- OpenFOAM output keeps content, drops private keys, carries the Foam header.
-/
import DictIO.Model.NativeFormat
import DictIO.Props.C04
import DictIO.Props.C01fmt

namespace DictIO.C10
open DictIO

set_option linter.unusedSimpArgs false

/-! ## (a) no key starting with `_` survives, at any depth, also inside lists -/

mutual
  /-- every key `k` of every dict reached through dicts and lists is written without a leading `_` -/
  def NoUnderscoreV : Val → Prop
    | .leaf _ => True
    | .dict es => NoUnderscoreEs es
    | .list xs => NoUnderscoreXs xs
  def NoUnderscoreEs : Entries → Prop
    | [] => True
    | (k, v) :: es => (formatKey .foam k).head? ≠ some '_' ∧ NoUnderscoreV v ∧ NoUnderscoreEs es
  def NoUnderscoreXs : List Val → Prop
    | [] => True
    | v :: xs => NoUnderscoreV v ∧ NoUnderscoreXs xs
end

mutual
  theorem C10_underscoreV : ∀ v : Val, NoUnderscoreV (dropUnderscoreV .foam v)
    | .leaf _ => by simp [dropUnderscoreV, NoUnderscoreV]
    | .dict es => by simp only [dropUnderscoreV, NoUnderscoreV]; exact C10_underscore es
    | .list xs => by simp only [dropUnderscoreV, NoUnderscoreV]; exact C10_underscoreXs xs
  /-- after `remove_underscore_keys_recursive` no dict at any depth has a key written with a leading `_` -/
  theorem C10_underscore : ∀ es : Entries, NoUnderscoreEs (dropUnderscoreEs .foam es)
    | [] => by simp [dropUnderscoreEs, NoUnderscoreEs]
    | (k, v) :: es => by
      simp only [dropUnderscoreEs]
      split
      · exact C10_underscore es
      · next h =>
        refine ⟨?_, C10_underscoreV v, C10_underscore es⟩
        intro h'; exact h (by simp [h'])
  theorem C10_underscoreXs : ∀ xs : List Val, NoUnderscoreXs (dropUnderscoreXs .foam xs)
    | [] => by simp [dropUnderscoreXs, NoUnderscoreXs]
    | v :: xs => by
      simp only [dropUnderscoreXs, NoUnderscoreXs]
      exact ⟨C10_underscoreV v, C10_underscoreXs xs⟩
end

/-! ## (b) only underscore keys are dropped -/

/-- the entry survives: its key is not written with a leading `_` -/
def keep (e : Key × Val) : Bool := !((formatKey .foam e.1).head? == some '_')

/-- entries whose key does not start with `_` are kept, in order, their values processed recursively -/
theorem C10_drop_only_underscore : ∀ es : Entries,
    dropUnderscoreEs .foam es = (es.filter keep).map (fun e => (e.1, dropUnderscoreV .foam e.2))
  | [] => by simp [dropUnderscoreEs]
  | (k, v) :: es => by
    simp only [dropUnderscoreEs, List.filter_cons, keep]
    by_cases h : ((formatKey .foam k).head? == some '_') = true
    · simp only [h, if_true, Bool.not_true, Bool.false_eq_true, if_false]
      exact C10_drop_only_underscore es
    · simp only [h, Bool.not_eq_true] at *
      simp only [Bool.not_false, if_true, List.map_cons]
      rw [C10_drop_only_underscore es]; rfl

/-- lists keep all their items, in order -/
theorem C10_drop_list (xs : List Val) : dropUnderscoreXs .foam xs = xs.map (dropUnderscoreV .foam) := by
  induction xs with
  | nil => rfl
  | cons v xs ih => simp [dropUnderscoreXs, ih]

mutual
  theorem C10_drop_idV : ∀ v : Val, NoUnderscoreV v → dropUnderscoreV .foam v = v
    | .leaf _, _ => rfl
    | .dict es, h => by simp only [dropUnderscoreV]; rw [C10_drop_id es h]
    | .list xs, h => by simp only [dropUnderscoreV]; rw [C10_drop_idXs xs h]
  /-- nothing to drop: the dict is returned as it is -/
  theorem C10_drop_id : ∀ es : Entries, NoUnderscoreEs es → dropUnderscoreEs .foam es = es
    | [], _ => rfl
    | (k, v) :: es, h => by
      obtain ⟨hk, hv, hes⟩ := h
      have : ((formatKey .foam k).head? == some '_') = false := by simpa using hk
      simp only [dropUnderscoreEs, this, Bool.false_eq_true, if_false]
      rw [C10_drop_idV v hv, C10_drop_id es hes]
  theorem C10_drop_idXs : ∀ xs : List Val, NoUnderscoreXs xs → dropUnderscoreXs .foam xs = xs
    | [], _ => rfl
    | v :: xs, h => by
      simp only [dropUnderscoreXs]
      rw [C10_drop_idV v h.1, C10_drop_idXs xs h.2]
end

/-- dropping twice = dropping once -/
theorem C10_drop_idem (es : Entries) :
    dropUnderscoreEs .foam (dropUnderscoreEs .foam es) = dropUnderscoreEs .foam es :=
  C10_drop_id _ (C10_underscore es)

theorem C10_drop_idemV (v : Val) : dropUnderscoreV .foam (dropUnderscoreV .foam v) = dropUnderscoreV .foam v :=
  C10_drop_idV _ (C10_underscoreV v)

/-! ## (c) the Foam formatter never adds a single quote -/

theorem formatString_foam_three (s : Str) :
    formatString .foam s = s ∨ formatString .foam s = dq s ∨ formatString .foam s = dq (escapeDq s) := by
  rw [C04.formatString_def]
  by_cases h1 : s.contains '$' = true
  · by_cases h2 : isReferenceString s = true <;> simp only [h1, h2, if_true, if_false] <;> simp
  · by_cases h3 : s.isEmpty = true
    · simp only [h1, h3, if_true, if_false]; simp
    · by_cases h4 : s.any isQuote = true
      · by_cases h5 : s.contains '"' = true <;> simp only [h1, h3, h4, h5, if_true, if_false] <;> simp
      · by_cases h6 : s.any isComplexChar = true <;> simp only [h1, h3, h4, h6, if_true, if_false] <;> simp

theorem apos_escapeDq : ∀ s : Str, '\'' ∉ s → '\'' ∉ escapeDq s
  | [], _ => by simp [escapeDq]
  | c :: r, h => by
    have hc : '\'' ≠ c := fun e => h (by rw [e]; exact List.mem_cons_self)
    have hr : '\'' ∉ r := fun e => h (by simp [e])
    have ih := apos_escapeDq r hr
    by_cases hq : c = '"'
    · subst hq; simp [escapeDq, ih]
    · rw [escapeDq]
      · simp [hc, ih]
      · exact hq

theorem apos_dq {s : Str} (h : '\'' ∉ s) : '\'' ∉ dq s := by
  simp [dq, h]

/-- `format_string` (Foam) adds no single quote -/
theorem C10_no_single_quote {s : Str} (h : '\'' ∉ s) : '\'' ∉ formatString .foam s := by
  rcases formatString_foam_three s with e | e | e <;> rw [e]
  · exact h
  · exact apos_dq h
  · exact apos_dq (apos_escapeDq s h)

theorem apos_natDigits (n : Nat) : '\'' ∉ natDigits n := fun h => by
  have := C04.natDigits_ascii n _ h
  revert this; decide

theorem apos_intRepr : ∀ z : Int, '\'' ∉ intRepr z
  | .ofNat n => by simpa [intRepr] using apos_natDigits n
  | .negSucc n => by simpa [intRepr] using apos_natDigits (n + 1)

/-- the string content of a scalar (float: its lexeme) has no single quote -/
def NoAposScalar : Scalar → Prop
  | .str s => '\'' ∉ s
  | .float l => '\'' ∉ l
  | _ => True

def NoAposKey : Key → Prop
  | .str s => '\'' ∉ s
  | .int _ => True

/-- `format_value` (Foam) adds no single quote -/
theorem C10_no_single_quote_scalar : ∀ {x : Scalar}, NoAposScalar x → '\'' ∉ formatScalar .foam x
  | .str _, h => C10_no_single_quote h
  | .float l, h => h
  | .int z, _ => apos_intRepr z
  | .bool true, _ => by decide
  | .bool false, _ => by decide
  | .none, _ => by decide

theorem apos_formatKey : ∀ {k : Key}, NoAposKey k → '\'' ∉ formatKey .foam k
  | .str _, h => C10_no_single_quote h
  | .int z, _ => apos_intRepr z

theorem apos_keyStr : ∀ {k : Key}, NoAposKey k → '\'' ∉ keyStr k
  | .str _, h => h
  | .int z, _ => apos_intRepr z

mutual
  /-- no string leaf, no float lexeme and no key contains `'` -/
  def NoAposV : Val → Prop
    | .leaf x => NoAposScalar x
    | .dict es => NoAposEs es
    | .list xs => NoAposXs xs
  def NoAposEs : Entries → Prop
    | [] => True
    | (k, v) :: es => NoAposKey k ∧ NoAposV v ∧ NoAposEs es
  def NoAposXs : List Val → Prop
    | [] => True
    | v :: xs => NoAposV v ∧ NoAposXs xs
end

theorem apos_spaces (n : Nat) : '\'' ∉ spaces n := by
  simp [spaces]

theorem apos_fline {level : Nat} {x : Str} (nl : Bool) (h : '\'' ∉ x) : '\'' ∉ fline level x nl := by
  cases nl <;> simp [fline, apos_spaces, h]

mutual
  theorem apos_fmtList : ∀ (level : Nat) (inList : Bool) (xs : List Val), NoAposXs xs →
      '\'' ∉ fmtList .foam level inList xs
    | level, inList, xs, h => by
      unfold fmtList
      have h1 := apos_fmtItems level xs.length 0 true xs h
      have h2 : '\'' ∉ fline level ['('] := apos_fline true (by decide)
      have h3 : '\'' ∉ fline level (if inList then [')'] else [')', ';']) :=
        apos_fline true (by cases inList <;> decide)
      simp [h1, h2, h3]
  theorem apos_fmtItems : ∀ (level n idx : Nat) (first : Bool) (xs : List Val), NoAposXs xs →
      '\'' ∉ fmtItems .foam level n idx first xs
    | _, _, _, _, [], _ => by simp [fmtItems]
    | level, n, idx, first, .list ys :: rest, h => by
      unfold fmtItems
      have h1 := apos_fmtList (level + 1) true ys h.1
      have h2 := apos_fmtItems level n (idx + 1) first rest h.2
      simp [h1, h2]
    | level, n, idx, first, .dict es :: rest, h => by
      unfold fmtItems
      have h1 := C10_no_single_quote_text (level + 2) es h.1
      have h2 := apos_fmtItems level n (idx + 1) true rest h.2
      have h3 : '\'' ∉ fline (level + 1) [] := apos_fline true (by decide)
      have h4 : '\'' ∉ fline (level + 1) ['{'] := apos_fline true (by decide)
      have h5 : '\'' ∉ fline (level + 1) ['}'] := apos_fline true (by decide)
      simp [h1, h2, h3, h4, h5]
    | level, n, idx, first, .leaf x :: rest, h => by
      unfold fmtItems
      have hx : '\'' ∉ formatScalar .foam x := C10_no_single_quote_scalar h.1
      have h1 := apos_fmtItems level n (idx + 1) true rest h.2
      have h2 := apos_fmtItems level n (idx + 1) false rest h.2
      simp only []
      split
      · have := apos_fline (level := if first = true then level + 1 else 1) true hx
        simp [h1, this]
      · have := apos_fline (level := if first = true then level + 1 else 1)
          (x := formatScalar .foam x ++ spaces (14 - (formatScalar .foam x).length)) false (by simp [hx, apos_spaces])
        simp [h2, this]
  /-- the Foam text of a dict without `'` in keys and string content contains no `'` -/
  theorem C10_no_single_quote_text : ∀ (level : Nat) (es : Entries), NoAposEs es →
      '\'' ∉ fmtEntries .foam level es
    | _, [], _ => by simp [fmtEntries]
    | level, (k, .dict d) :: rest, h => by
      unfold fmtEntries
      have h1 := C10_no_single_quote_text (level + 1) d h.2.1
      have h2 := C10_no_single_quote_text level rest h.2.2
      have h3 : '\'' ∉ fline level (keyStr k) := apos_fline true (apos_keyStr h.1)
      have h4 : '\'' ∉ fline level ['{'] := apos_fline true (by decide)
      have h5 : '\'' ∉ fline level ['}'] := apos_fline true (by decide)
      simp [h1, h2, h3, h4, h5]
    | level, (k, .list xs) :: rest, h => by
      unfold fmtEntries
      have h1 := apos_fmtList level false xs h.2.1
      have h2 := C10_no_single_quote_text level rest h.2.2
      have h3 : '\'' ∉ fline level (keyStr k) := apos_fline true (apos_keyStr h.1)
      simp [h1, h2, h3]
    | level, (k, .leaf x) :: rest, h => by
      unfold fmtEntries
      have hx : '\'' ∉ formatScalar .foam x := C10_no_single_quote_scalar h.2.1
      have hk : '\'' ∉ formatKey .foam k := apos_formatKey h.1
      have h2 := C10_no_single_quote_text level rest h.2.2
      have h3 := apos_fline (level := level) (x := formatKey .foam k ++
        spaces (max 8 (30 - (formatKey .foam k).length - 4 * level)) ++ formatScalar .foam x ++ [';']) true
        (by simp [hx, hk, apos_spaces])
      simp only [List.append_assoc] at h3
      simp [h2, h3]
end


/-! ## (d) the OpenFOAM banner -/

/-- the characters of `Gen.foamHeader`, spelled out (the kernel evaluates `String.toList` on a long literal very
    slowly; a literal is definitionally `String.ofList` of its characters, which is checked at once) -/
def foamHeaderChars : List Char :=
  ['/', '*', '-', '-', '-', '-', '-', '-', '-', '-', '-', '-', '-', '-', '-', '-', '-', '-', '-', '-', '-', '-', '-', '-', '-', '-', '-', '-', '-', '-', '-', '-', '-', '-', '*', '-', ' ', 'C', '+', '+', ' ', '-', '*', '-', '-', '-', '-', '-', '-', '-', '-', '-', '-', '-', '-', '-', '-', '-', '-', '-', '-', '-', '-', '-', '-', '-', '-', '-', '-', '-', '-', '-', '-', '-', '-', '-', '-', '*', '\\', '\n',
  '|', ' ', '=', '=', '=', '=', '=', '=', '=', '=', '=', ' ', ' ', ' ', ' ', ' ', ' ', ' ', ' ', ' ', ' ', ' ', ' ', ' ', ' ', ' ', ' ', ' ', '|', ' ', ' ', ' ', ' ', ' ', ' ', ' ', ' ', ' ', ' ', ' ', ' ', ' ', ' ', ' ', ' ', ' ', ' ', ' ', ' ', ' ', ' ', ' ', ' ', ' ', ' ', ' ', ' ', ' ', ' ', ' ', ' ', ' ', ' ', ' ', ' ', ' ', ' ', ' ', ' ', ' ', ' ', ' ', ' ', ' ', ' ', ' ', ' ', ' ', '|', '\n',
  '|', ' ', '\\', '\\', ' ', ' ', ' ', ' ', ' ', ' ', '/', ' ', ' ', 'F', ' ', 'i', 'e', 'l', 'd', ' ', ' ', ' ', ' ', ' ', ' ', ' ', ' ', ' ', '|', ' ', 'O', 'p', 'e', 'n', 'F', 'O', 'A', 'M', ':', ' ', 'T', 'h', 'e', ' ', 'O', 'p', 'e', 'n', ' ', 'S', 'o', 'u', 'r', 'c', 'e', ' ', 'C', 'F', 'D', ' ', 'T', 'o', 'o', 'l', 'b', 'o', 'x', ' ', ' ', ' ', ' ', ' ', ' ', ' ', ' ', ' ', ' ', ' ', '|', '\n',
  '|', ' ', ' ', '\\', '\\', ' ', ' ', ' ', ' ', '/', ' ', ' ', ' ', 'O', ' ', 'p', 'e', 'r', 'a', 't', 'i', 'o', 'n', ' ', ' ', ' ', ' ', ' ', '|', ' ', 'V', 'e', 'r', 's', 'i', 'o', 'n', ':', ' ', ' ', 'd', 'e', 'v', ' ', ' ', ' ', ' ', ' ', ' ', ' ', ' ', ' ', ' ', ' ', ' ', ' ', ' ', ' ', ' ', ' ', ' ', ' ', ' ', ' ', ' ', ' ', ' ', ' ', ' ', ' ', ' ', ' ', ' ', ' ', ' ', ' ', ' ', ' ', '|', '\n',
  '|', ' ', ' ', ' ', '\\', '\\', ' ', ' ', '/', ' ', ' ', ' ', ' ', 'A', ' ', 'n', 'd', ' ', ' ', ' ', ' ', ' ', ' ', ' ', ' ', ' ', ' ', ' ', '|', ' ', 'W', 'e', 'b', ':', ' ', ' ', ' ', ' ', ' ', ' ', 'w', 'w', 'w', '.', 'O', 'p', 'e', 'n', 'F', 'O', 'A', 'M', '.', 'c', 'o', 'm', ' ', ' ', ' ', ' ', ' ', ' ', ' ', ' ', ' ', ' ', ' ', ' ', ' ', ' ', ' ', ' ', ' ', ' ', ' ', ' ', ' ', ' ', '|', '\n',
  '|', ' ', ' ', ' ', ' ', '\\', '\\', '/', ' ', ' ', ' ', ' ', ' ', 'M', ' ', 'a', 'n', 'i', 'p', 'u', 'l', 'a', 't', 'i', 'o', 'n', ' ', ' ', '|', ' ', ' ', ' ', ' ', ' ', ' ', ' ', ' ', ' ', ' ', ' ', ' ', ' ', ' ', ' ', ' ', ' ', ' ', ' ', ' ', ' ', ' ', ' ', ' ', ' ', ' ', ' ', ' ', ' ', ' ', ' ', ' ', ' ', ' ', ' ', ' ', ' ', ' ', ' ', ' ', ' ', ' ', ' ', ' ', ' ', ' ', ' ', ' ', ' ', '|', '\n',
  '\\', '*', '-', '-', '-', '-', '-', '-', '-', '-', '-', '-', '-', '-', '-', '-', '-', '-', '-', '-', '-', '-', '-', '-', '-', '-', '-', '-', '-', '-', '-', '-', '-', '-', '-', '-', '-', '-', '-', '-', '-', '-', '-', '-', '-', '-', '-', '-', '-', '-', '-', '-', '-', '-', '-', '-', '-', '-', '-', '-', '-', '-', '-', '-', '-', '-', '-', '-', '-', '-', '-', '-', '-', '-', '-', '-', '-', '*', '/', '\n',
  'F', 'o', 'a', 'm', 'F', 'i', 'l', 'e', '\n',
  '{', '\n',
  ' ', ' ', ' ', ' ', 'v', 'e', 'r', 's', 'i', 'o', 'n', ' ', ' ', ' ', ' ', ' ', ' ', ' ', ' ', ' ', ' ', ' ', ' ', ' ', ' ', ' ', ' ', ' ', ' ', ' ', '2', '.', '0', ';', '\n',
  ' ', ' ', ' ', ' ', 'f', 'o', 'r', 'm', 'a', 't', ' ', ' ', ' ', ' ', ' ', ' ', ' ', ' ', ' ', ' ', ' ', ' ', ' ', ' ', ' ', ' ', ' ', ' ', ' ', ' ', 'a', 's', 'c', 'i', 'i', ';', '\n',
  ' ', ' ', ' ', ' ', 'c', 'l', 'a', 's', 's', ' ', ' ', ' ', ' ', ' ', ' ', ' ', ' ', ' ', ' ', ' ', ' ', ' ', ' ', ' ', ' ', ' ', ' ', ' ', ' ', ' ', 'd', 'i', 'c', 't', 'i', 'o', 'n', 'a', 'r', 'y', ';', '\n',
  ' ', ' ', ' ', ' ', 'o', 'b', 'j', 'e', 'c', 't', ' ', ' ', ' ', ' ', ' ', ' ', ' ', ' ', ' ', ' ', ' ', ' ', ' ', ' ', ' ', ' ', ' ', ' ', ' ', ' ', 'f', 'o', 'a', 'm', 'D', 'i', 'c', 't', ';', '\n',
  '}', '\n',
  '/', '/', ' ', '*', ' ', '*', ' ', '*', ' ', '*', ' ', '*', ' ', '*', ' ', '*', ' ', '*', ' ', '*', ' ', '*', ' ', '*', ' ', '*', ' ', '*', ' ', '*', ' ', '*', ' ', '*', ' ', '*', ' ', '*', ' ', '*', ' ', '*', ' ', '*', ' ', '*', ' ', '*', ' ', '*', ' ', '*', ' ', '*', ' ', '*', ' ', '*', ' ', '*', ' ', '*', ' ', '*', ' ', '*', ' ', '*', ' ', '*', ' ', '*', ' ', '*', ' ', '*', ' ', '/', '/', '\n']

set_option maxRecDepth 100000 in
theorem foamHeader_eq : foamHeader = foamHeaderChars :=
  (congrArg String.toList (rfl : Gen.foamHeader = String.ofList foamHeaderChars)).trans String.toList_ofList

attribute [local irreducible] foamHeader

/-- the header contains the `FoamFile` block … -/
theorem foamHeader_foamFile : isInfix "FoamFile".toList foamHeader = true := by rw [foamHeader_eq]; decide +kernel
/-- … names OpenFOAM … -/
theorem foamHeader_openfoam : isInfix "OpenFOAM".toList foamHeader = true := by rw [foamHeader_eq]; decide +kernel
/-- … and carries the ` C++ ` marker -/
theorem foamHeader_cpp : containsCpp foamHeader = true := by rw [foamHeader_eq]; decide +kernel

theorem isInfix_append_right {p a : Str} (b : Str) (h : isInfix p a = true) : isInfix p (a ++ b) = true := by
  rw [C01.isInfix_iff] at *
  obtain ⟨x, y, rfl⟩ := h
  exact ⟨x, y ++ b, by simp⟩

/-- no comment at all: the default block comment is the Foam header -/
theorem makeDefault_foam_nil : makeDefaultBlockComment .foam [] = foamHeader := by
  unfold makeDefaultBlockComment
  simp only [containsCpp, Bool.false_eq_true, if_false, List.append_nil, ite_self]

/-- a first comment without ` C++ ` marker gets the Foam header in front -/
theorem makeDefault_foam_of_not_cpp {bc : Str} (h : containsCpp bc = false) :
    makeDefaultBlockComment .foam bc = foamHeader ++ bc := by
  unfold makeDefaultBlockComment
  simp only [h, Bool.false_eq_true, if_false, isInfix_append_right bc foamHeader_openfoam, if_true]

/-- a first comment with ` C++ ` marker that names OpenFOAM is kept; one that does not is *replaced* by the header -/
theorem makeDefault_foam_of_cpp {bc : Str} (h : containsCpp bc = true) :
    makeDefaultBlockComment .foam bc = if isInfix "OpenFOAM".toList bc then bc else foamHeader := by
  unfold makeDefaultBlockComment
  simp only [h, if_true]

/-- whatever the first comment is, what is inserted for it contains the FoamFile block … unless it is an own
    ` C++ ` header that names OpenFOAM -/
theorem makeDefault_foam_cases (bc : Str) :
    makeDefaultBlockComment .foam bc = foamHeader ++ bc ∨ makeDefaultBlockComment .foam bc = foamHeader ∨
      (makeDefaultBlockComment .foam bc = bc ∧ containsCpp bc = true ∧ isInfix "OpenFOAM".toList bc = true) := by
  cases h : containsCpp bc
  · exact Or.inl (makeDefault_foam_of_not_cpp h)
  · rw [makeDefault_foam_of_cpp h]
    cases h2 : isInfix "OpenFOAM".toList bc <;> simp

/-- no block comment in the table: the text is preceded by exactly the Foam header -/
theorem C10_banner_raw (txt : Str) : insertBlockComments .foam [] txt = foamHeader ++ txt := by
  simp [insertBlockComments, makeDefault_foam_nil]

/-! the found-flag of `substPh` does not depend on the replacement text -/

theorem matchPhEntry_lt {ph s rest : Str} (h : matchPhEntry ph s = some rest) : rest.length < s.length := by
  unfold matchPhEntry at h
  split at h
  · simp only [] at h
    split at h
    · next hc =>
      split at h
      · next r2 e =>
        simp only [Option.some.injEq] at h
        subst h
        have h1 := congrArg List.length e
        simp only [List.length_drop, List.length_cons, Bool.and_eq_true, decide_eq_true_eq] at h1 hc
        omega
      · cases h
    · cases h
  · cases h

theorem substFuel_flag (ph r1 r2 : Str) : ∀ (fuel : Nat) (s : Str),
    (substPhEntryFuel ph r1 fuel s).2 = (substPhEntryFuel ph r2 fuel s).2
  | 0, _ => rfl
  | _ + 1, [] => rfl
  | fuel + 1, c :: r => by
    simp only [substPhEntryFuel]
    split
    · rfl
    · exact substFuel_flag ph r1 r2 fuel r

theorem substPh_flag (kw : Str) (i : Nat) (r1 r2 s : Str) : (substPh kw i r1 s).2 = (substPh kw i r2 s).2 :=
  substFuel_flag _ _ _ _ _

/-- one comment in the table, its placeholder entry present in the text: it is replaced by the (completed) comment -/
theorem insertBlock_single (fl : Flavor) (i : Nat) (bc txt : Str)
    (hfound : (substPh kwBlock i [] txt).2 = true) (hne : makeDefaultBlockComment fl bc ≠ []) :
    insertBlockComments fl [(i, bc)] txt = (substPh kwBlock i (makeDefaultBlockComment fl bc) txt).1 := by
  have hinf : isInfix (makeDefaultBlockComment fl bc) [] = false := by
    cases hm : makeDefaultBlockComment fl bc with
    | nil => exact absurd hm hne
    | cons c r => simp [isInfix, tails, List.isPrefixOf]
  have hf : (substPh kwBlock i (makeDefaultBlockComment fl bc) txt).2 = true := by
    rw [substPh_flag kwBlock i _ [] txt]; exact hfound
  have hemp : (makeDefaultBlockComment fl bc).isEmpty = false := by
    cases hm : makeDefaultBlockComment fl bc with
    | nil => exact absurd hm hne
    | cons c r => rfl
  simp only [insertBlockComments, List.foldl_cons, List.foldl_nil, if_true, hinf, Bool.false_eq_true, if_false]
  rcases hs : substPh kwBlock i (makeDefaultBlockComment fl bc) txt with ⟨s', found⟩
  rw [hs] at hf
  simp only [] at hf
  subst hf
  simp [hemp]

/-- the first comment has no ` C++ ` marker and its placeholder entry stands in the text: what is put there
    starts with the Foam header -/
theorem C10_banner_first_comment (i : Nat) (bc txt : Str) (hfound : (substPh kwBlock i [] txt).2 = true)
    (hcpp : containsCpp bc = false) :
    insertBlockComments .foam [(i, bc)] txt = (substPh kwBlock i (foamHeader ++ bc) txt).1 := by
  have h := makeDefault_foam_of_not_cpp hcpp
  rw [insertBlock_single .foam i bc txt hfound, h]
  rw [h]
  intro e
  have := congrArg List.length e
  have hl : 0 < foamHeader.length := by rw [foamHeader_eq]; decide +kernel
  simp only [List.length_append, List.length_nil] at this
  omega

/-! ### the header survives include / line-comment insertion and trailing-space removal -/

theorem substFuel_skip {ph : Str} (repl : Str) {c : Char} {ph' : Str} (hph : ph = c :: ph') :
    ∀ (h : Str) (fuel : Nat) (s : Str), c ∉ h →
      substPhEntryFuel ph repl (fuel + h.length) (h ++ s) =
        (h ++ (substPhEntryFuel ph repl fuel s).1, (substPhEntryFuel ph repl fuel s).2)
  | [], fuel, s, _ => by simp
  | x :: h, fuel, s, hc => by
    have hx : c ≠ x := fun e => hc (by rw [e]; exact List.mem_cons_self)
    have hh : c ∉ h := fun e => hc (List.mem_cons_of_mem _ e)
    have hm : matchPhEntry ph (x :: (h ++ s)) = none := by
      simp [matchPhEntry, hph, List.isPrefixOf, hx]
    have : fuel + (x :: h).length = (fuel + h.length) + 1 := by simp; omega
    rw [this, List.cons_append, substPhEntryFuel, hm]
    simp only []
    rw [substFuel_skip repl hph h fuel s hh]
    simp

theorem substPh_skip {kw : Str} (i : Nat) (repl : Str) {c : Char} {kw' : Str} (hkw : kw = c :: kw')
    (h s : Str) (hc : c ∉ h) :
    substPh kw i repl (h ++ s) = (h ++ (substPh kw i repl s).1, (substPh kw i repl s).2) := by
  unfold substPh
  have : (h ++ s).length + 1 = (s.length + 1) + h.length := by simp; omega
  rw [this]
  exact substFuel_skip repl (ph' := kw' ++ padSix i) (by rw [hkw]; rfl) h _ s hc

/-- one step of `insert_includes` -/
def inclStep (acc : Option Str) (e : Nat × InclEntry) : Option Str :=
  match acc with
  | none => none
  | some s => match includeLineFl .foam e.2.file with
    | some line => some (substPh kwIncl e.1 line s).1
    | none => none

theorem insertIncludes_eq (tbl : Tbl InclEntry) (s : Str) :
    insertIncludes .foam tbl s = tbl.foldl inclStep (some s) := rfl

theorem inclStep_none : ∀ tbl : Tbl InclEntry, tbl.foldl inclStep none = none
  | [] => rfl
  | _ :: tbl => by simp only [List.foldl_cons, inclStep]; exact inclStep_none tbl

theorem insertIncludes_skip (h : Str) (hI : 'I' ∉ h) : ∀ (tbl : Tbl InclEntry) (s t : Str),
    insertIncludes .foam tbl (h ++ s) = some t → ∃ r, t = h ++ r
  | [], s, t, e => by
    simp only [insertIncludes_eq, List.foldl_nil, Option.some.injEq] at e
    exact ⟨s, e.symm⟩
  | e :: tbl, s, t, ht => by
    simp only [insertIncludes_eq, List.foldl_cons, inclStep] at ht
    cases hl : includeLineFl .foam e.2.file with
    | none => rw [hl] at ht; simp only [] at ht; rw [inclStep_none] at ht; cases ht
    | some line =>
      rw [hl] at ht
      simp only [] at ht
      rw [substPh_skip (kw := kwIncl) e.1 line (c := 'I') (kw' := "NCLUDE".toList) (by decide) h s hI] at ht
      rw [← insertIncludes_eq] at ht
      exact insertIncludes_skip h hI tbl _ t ht

theorem insertLineComments_skip (h : Str) (hL : 'L' ∉ h) : ∀ (tbl : Tbl Str) (s : Str),
    ∃ r, insertLineComments tbl (h ++ s) = h ++ r := by
  intro tbl
  induction tbl with
  | nil => intro s; exact ⟨s, rfl⟩
  | cons e tbl ih =>
    intro s
    simp only [insertLineComments, List.foldl_cons]
    rw [substPh_skip (kw := kwLine) e.1 e.2 (c := 'L') (kw' := "INECOMMENT".toList) (by decide) h s hL]
    exact ih _

theorem blankHead_nl (r : Str) : C01.blankHead ('\n' :: r) = true := by
  simp [C01.blankHead, splitNl]

theorem blankHead_line (r r' : Str) : ∀ a : Str, C01.blankHead (a ++ '\n' :: r) = C01.blankHead (a ++ '\n' :: r')
  | [] => by simp [blankHead_nl]
  | c :: a => by
    by_cases hc : c = '\n'
    · subst hc; simp [blankHead_nl]
    · simp only [List.cons_append, C01.blankHead_cons hc, blankHead_line r r' a]

/-- trailing-space removal works line by line: a text that ends a line can be split off -/
theorem rts_line (r : Str) : ∀ a : Str, C01.rts (a ++ '\n' :: r) = C01.rts (a ++ ['\n']) ++ C01.rts r
  | [] => by simp [C01.rts_nl, C01.rts_nil]
  | c :: a => by
    by_cases hc : c = '\n'
    · subst hc; simp only [List.cons_append, C01.rts_nl, rts_line r a]
    · simp only [List.cons_append, C01.rts_cons hc, rts_line r a, blankHead_line r [] a]
      split <;> simp

theorem removeTrailingSpaces_line (a r : Str) (ha : ∀ c ∈ a, c ≠ '\r') :
    removeTrailingSpaces (a ++ '\n' :: r) = removeTrailingSpaces (a ++ ['\n']) ++ removeTrailingSpaces r := by
  have h1 : ∀ c ∈ a ++ ['\n'], c ≠ '\r' := by
    intro c hc
    rcases List.mem_append.mp hc with h | h
    · exact ha c h
    · simp at h; subst h; decide
  have e : a ++ '\n' :: r = (a ++ ['\n']) ++ r := by simp
  have e2 : a ++ ['\n'] = (a ++ ['\n']) ++ [] := by simp
  rw [C01.removeTrailingSpaces_eq, C01.removeTrailingSpaces_eq, C01.removeTrailingSpaces_eq, e,
    C01.universalNl_solid _ _ h1]
  conv => rhs; rw [e2, C01.universalNl_solid _ _ h1]
  simp only [universalNl, List.append_nil, List.append_assoc, List.singleton_append]
  exact rts_line _ a

theorem foamHeader_chars : 'I' ∉ foamHeader ∧ 'L' ∉ foamHeader ∧ (∀ c ∈ foamHeader.dropLast, c ≠ '\r') ∧
    foamHeader = foamHeader.dropLast ++ ['\n'] := by rw [foamHeader_eq]; decide +kernel

/-- **C10_banner**: an `SDict` without block comments written in Foam flavour begins with the OpenFOAM banner
    (which contains the `FoamFile` block: `foamHeader_foamFile`), trailing spaces removed -/
theorem C10_banner (s : SD) (hb : s.blockC = []) (t : Str) (h : fmtSD .foam s = some t) :
    removeTrailingSpaces foamHeader <+: t := by
  obtain ⟨hI, hL, hr, hlast⟩ := foamHeader_chars
  simp only [fmtSD, hb, C10_banner_raw] at h
  split at h
  · cases h
  · next t1 h1 =>
    obtain ⟨r1, rfl⟩ := insertIncludes_skip foamHeader hI _ _ _ h1
    obtain ⟨r2, e2⟩ := insertLineComments_skip foamHeader hL s.lineC r1
    simp only [Option.some.injEq] at h
    rw [e2] at h
    subst h
    refine ⟨removeTrailingSpaces r2, ?_⟩
    conv => rhs; rw [hlast, List.append_assoc, List.singleton_append, removeTrailingSpaces_line _ _ hr, ← hlast]

/-! ## (e) the input is not changed

  In the functional model this is immediate: `fmtPlain .foam es` (and `fmtSD .foam s`) are *functions* of their
  argument; the private keys are dropped in a local copy (`dropUnderscoreEs .foam es`), `es` itself is never
  rebound.  What the model can say is that the text depends on `es` only through that copy: -/

theorem C10_input_unchanged (es : Entries) :
    fmtPlain .foam es = removeTrailingSpaces (fmtEntries .foam 0 (hoistPlaceholders (dropUnderscoreEs .foam es))) := rfl

/-- … hence a dict and its private-key-free copy are written alike -/
theorem C10_fmtPlain_drop (es : Entries) : fmtPlain .foam (dropUnderscoreEs .foam es) = fmtPlain .foam es := by
  simp only [fmtPlain, C10_drop_idem]

/-! ## (g) non-vacuity: `{'a': [{'_z': 1, 'y': "it's"}], '_b': 1, 'k': 'x y'}` -/

def exDict : Entries :=
  [(.str "a".toList, .list [.dict [(.str "_z".toList, .leaf (.int 1)), (.str "y".toList, .leaf (.str "it's".toList))]]),
   (.str "_b".toList, .leaf (.int 1)),
   (.str "k".toList, .leaf (.str "x y".toList))]

def exDropped : Entries :=
  [(.str "a".toList, .list [.dict [(.str "y".toList, .leaf (.str "it's".toList))]]),
   (.str "k".toList, .leaf (.str "x y".toList))]

/-- (a), (b): `_b` on top and `_z` inside the list are dropped, everything else is kept in order -/
theorem exDict_dropped : dropUnderscoreEs .foam exDict = exDropped := by decide +kernel

theorem exDict_has_underscore : ¬ NoUnderscoreEs exDict := by
  simp only [exDict, NoUnderscoreEs, NoUnderscoreV, NoUnderscoreXs]
  intro h
  exact absurd h.2.2.1 (by decide +kernel)

theorem exDropped_noUnderscore : NoUnderscoreEs exDropped := by
  simp only [exDropped, NoUnderscoreEs, NoUnderscoreV, NoUnderscoreXs, and_true, true_and]
  decide +kernel

example : dropUnderscoreEs .foam exDropped = exDropped := C10_drop_id _ exDropped_noUnderscore

example : exDict.filter keep = [exDict[0], exDict[2]] := by decide +kernel

/-- (c): a string with `'` keeps it (it is not *added*); the Foam text of `'x y'` uses `"`, where the native one uses `'` -/
example : formatString .foam "it's".toList = "\"it's\"".toList := by decide +kernel
example : formatString .foam "x y".toList = "\"x y\"".toList ∧ formatString .native "x y".toList = "'x y'".toList := by
  decide +kernel

def exNoApos : Entries :=
  [(.str "a".toList, .list [.dict [(.str "y".toList, .leaf (.str "say \"hi\"".toList))]]),
   (.str "k".toList, .leaf (.str "x y".toList)), (.int (-3), .leaf (.float "1.5".toList))]

theorem exNoApos_ok : NoAposEs exNoApos := by
  simp only [exNoApos, NoAposEs, NoAposV, NoAposXs, NoAposKey, NoAposScalar, and_true, true_and]
  decide +kernel

example : '\'' ∉ fmtEntries .foam 0 exNoApos := C10_no_single_quote_text 0 _ exNoApos_ok

/-- the hypothesis is not vacuous the other way either: `exDropped` has a `'` in a leaf, and it is written -/
example : ¬ NoAposEs exDropped := by
  simp only [exDropped, NoAposEs, NoAposV, NoAposXs, NoAposKey, NoAposScalar, and_true, true_and]
  decide +kernel

/-- (d): the example written as an `SDict` starts with the banner -/
example : ∃ t, fmtSD .foam { data := exDict } = some t ∧ removeTrailingSpaces foamHeader <+: t := by
  refine ⟨_, rfl, C10_banner { data := exDict } rfl _ rfl⟩

example (txt : Str) : insertBlockComments .foam [] txt = foamHeader ++ txt := C10_banner_raw txt

end DictIO.C10
