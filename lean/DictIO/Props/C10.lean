/-
  C10 -- OpenFOAM output keeps content, drops private keys, carries the Foam header.

    (a) `NoUnderscoreV/Es/Xs`, `C10_underscore` (+V, Xs)     after `remove_underscore_keys_recursive` no dict at any depth,
                                                             also inside lists, has a key written with a leading `_`
    (b) `C10_drop_only_underscore`, `C10_drop_list`          exactly the `_` entries go; the others stay, in order,
        `C10_drop_id` (+V, Xs), `C10_drop_idem` (+V)         values processed recursively; identity without `_` keys; idempotent
    (c) `C10_no_single_quote`, `C10_no_single_quote_scalar`  the Foam formatter never adds a `'`: per string, per scalar,
        `NoAposV/Es/Xs`, `C10_no_single_quote_text`          and for the whole text of a dict (any indentation level)
    (d) `foamHeader_foamFile/_openfoam/_cpp`,                the header contains `FoamFile`, `OpenFOAM`, ` C++ `
        `makeDefault_foam_nil/_of_not_cpp/_of_cpp/_cases`    `make_default_block_comment` (Foam), all cases
        `C10_banner_raw`, `C10_banner_first_comment`         no comment: header ++ text; first comment without ` C++ `: header ++ comment
        `C10_banner`                                         `fmtSD .foam s = some t` (no block comments) ⇒ `removeTrailingSpaces foamHeader <+: t`
    (e) `C10_input_unchanged`, `C10_fmtPlain_drop`           the text is a function of the private-key-free copy
    (f) `C10_roundtrip_string`, `C10_roundtrip_string_dropped`   Foam writer → native reader gives `normEs es` on `DomC01 .foam`
    (g) `exDict…`                                            `{'a': [{'_z': 1, 'y': "it's"}], '_b': 1, 'k': 'x y'}`

  Added hypotheses.  (c) float leaves: `'\'' ∉ lexeme` (part of `NoAposScalar`), as asked.  (d) `C10_banner`: `s.blockC = []`, as
  asked; `C10_banner_first_comment`: the placeholder entry of the comment occurs in the text (flag of `substPh`, which does not
  depend on the replacement: `substPh_flag`).  (f) exactly those of `C01.C01_roundtrip_string`, plus `NoUnderscoreEs es`
  (`C10_roundtrip_string_dropped` replaces it by stating the result for the private-key-free copy).

  Technical note: the kernel evaluates `String.toList` on a long literal very slowly (superlinear); `foamHeader_eq` spells the
  header's characters out once (checked by `rfl` against the generated string: a literal is definitionally `String.ofList` of
  its characters) and `foamHeader` is made locally irreducible, so that no tactic unfolds it by accident.
-/
import DictIO.Props.C02main

namespace DictIO.C10
open DictIO

set_option linter.unusedSimpArgs false

/-! ## (a) no key starting with `_` survives, at any depth, also inside lists -/

mutual
  /-- every key `k` of every dict reached through dicts and lists is written without a leading `_` -/
  def NoUnderscoreV : Val → Prop
    | .leaf _ => True
    | .dict es => NoUnderscoreEs es
    | .list xs => NoUnderscoreXs xs
  def NoUnderscoreEs : Entries → Prop
    | [] => True
    | (k, v) :: es => (formatKey .foam k).head? ≠ some '_' ∧ NoUnderscoreV v ∧ NoUnderscoreEs es
  def NoUnderscoreXs : List Val → Prop
    | [] => True
    | v :: xs => NoUnderscoreV v ∧ NoUnderscoreXs xs
end

mutual
  theorem C10_underscoreV : ∀ v : Val, NoUnderscoreV (dropUnderscoreV .foam v)
    | .leaf _ => by simp [dropUnderscoreV, NoUnderscoreV]
    | .dict es => by simp only [dropUnderscoreV, NoUnderscoreV]; exact C10_underscore es
    | .list xs => by simp only [dropUnderscoreV, NoUnderscoreV]; exact C10_underscoreXs xs
  /-- after `remove_underscore_keys_recursive` no dict at any depth has a key written with a leading `_` -/
  theorem C10_underscore : ∀ es : Entries, NoUnderscoreEs (dropUnderscoreEs .foam es)
    | [] => by simp [dropUnderscoreEs, NoUnderscoreEs]
    | (k, v) :: es => by
      simp only [dropUnderscoreEs]
      split
      · exact C10_underscore es
      · next h =>
        refine ⟨?_, C10_underscoreV v, C10_underscore es⟩
        intro h'; exact h (by simp [h'])
  theorem C10_underscoreXs : ∀ xs : List Val, NoUnderscoreXs (dropUnderscoreXs .foam xs)
    | [] => by simp [dropUnderscoreXs, NoUnderscoreXs]
    | v :: xs => by
      simp only [dropUnderscoreXs, NoUnderscoreXs]
      exact ⟨C10_underscoreV v, C10_underscoreXs xs⟩
end

/-! ## (b) only underscore keys are dropped -/

/-- the entry survives: its key is not written with a leading `_` -/
def keep (e : Key × Val) : Bool := !((formatKey .foam e.1).head? == some '_')

/-- entries whose key does not start with `_` are kept, in order, their values processed recursively -/
theorem C10_drop_only_underscore : ∀ es : Entries,
    dropUnderscoreEs .foam es = (es.filter keep).map (fun e => (e.1, dropUnderscoreV .foam e.2))
  | [] => by simp [dropUnderscoreEs]
  | (k, v) :: es => by
    simp only [dropUnderscoreEs, List.filter_cons, keep]
    by_cases h : ((formatKey .foam k).head? == some '_') = true
    · simp only [h, if_true, Bool.not_true, Bool.false_eq_true, if_false]
      exact C10_drop_only_underscore es
    · simp only [h, Bool.not_eq_true] at *
      simp only [Bool.not_false, if_true, List.map_cons]
      rw [C10_drop_only_underscore es]; rfl

/-- lists keep all their items, in order -/
theorem C10_drop_list (xs : List Val) : dropUnderscoreXs .foam xs = xs.map (dropUnderscoreV .foam) := by
  induction xs with
  | nil => rfl
  | cons v xs ih => simp [dropUnderscoreXs, ih]

mutual
  theorem C10_drop_idV : ∀ v : Val, NoUnderscoreV v → dropUnderscoreV .foam v = v
    | .leaf _, _ => rfl
    | .dict es, h => by simp only [dropUnderscoreV]; rw [C10_drop_id es h]
    | .list xs, h => by simp only [dropUnderscoreV]; rw [C10_drop_idXs xs h]
  /-- nothing to drop: the dict is returned as it is -/
  theorem C10_drop_id : ∀ es : Entries, NoUnderscoreEs es → dropUnderscoreEs .foam es = es
    | [], _ => rfl
    | (k, v) :: es, h => by
      obtain ⟨hk, hv, hes⟩ := h
      have : ((formatKey .foam k).head? == some '_') = false := by simpa using hk
      simp only [dropUnderscoreEs, this, Bool.false_eq_true, if_false]
      rw [C10_drop_idV v hv, C10_drop_id es hes]
  theorem C10_drop_idXs : ∀ xs : List Val, NoUnderscoreXs xs → dropUnderscoreXs .foam xs = xs
    | [], _ => rfl
    | v :: xs, h => by
      simp only [dropUnderscoreXs]
      rw [C10_drop_idV v h.1, C10_drop_idXs xs h.2]
end

/-- dropping twice = dropping once -/
theorem C10_drop_idem (es : Entries) :
    dropUnderscoreEs .foam (dropUnderscoreEs .foam es) = dropUnderscoreEs .foam es :=
  C10_drop_id _ (C10_underscore es)

theorem C10_drop_idemV (v : Val) : dropUnderscoreV .foam (dropUnderscoreV .foam v) = dropUnderscoreV .foam v :=
  C10_drop_idV _ (C10_underscoreV v)

/-! ## (c) the Foam formatter never adds a single quote -/

theorem formatString_foam_three (s : Str) :
    formatString .foam s = s ∨ formatString .foam s = dq s ∨ formatString .foam s = dq (escapeDq s) := by
  rw [C04.formatString_def]
  by_cases h1 : s.contains '$' = true
  · by_cases h2 : isReferenceString s = true <;> simp only [h1, h2, if_true, if_false] <;> simp
  · by_cases h3 : s.isEmpty = true
    · simp only [h1, h3, if_true, if_false]; simp
    · by_cases h4 : s.any isQuote = true
      · by_cases h5 : s.contains '"' = true <;> simp only [h1, h3, h4, h5, if_true, if_false] <;> simp
      · by_cases h6 : s.any isComplexChar = true <;> by_cases h7 : startsInclude s = true <;>
          simp only [h1, h3, h4, h6, h7, if_true, if_false] <;> simp

theorem apos_escapeDq : ∀ s : Str, '\'' ∉ s → '\'' ∉ escapeDq s
  | [], _ => by simp [escapeDq]
  | c :: r, h => by
    have hc : '\'' ≠ c := fun e => h (by rw [e]; exact List.mem_cons_self)
    have hr : '\'' ∉ r := fun e => h (by simp [e])
    have ih := apos_escapeDq r hr
    by_cases hq : c = '"'
    · subst hq; simp [escapeDq, ih]
    · rw [escapeDq]
      · simp [hc, ih]
      · exact hq

theorem apos_dq {s : Str} (h : '\'' ∉ s) : '\'' ∉ dq s := by
  simp [dq, h]

/-- `format_string` (Foam) adds no single quote -/
theorem C10_no_single_quote {s : Str} (h : '\'' ∉ s) : '\'' ∉ formatString .foam s := by
  rcases formatString_foam_three s with e | e | e <;> rw [e]
  · exact h
  · exact apos_dq h
  · exact apos_dq (apos_escapeDq s h)

theorem apos_natDigits (n : Nat) : '\'' ∉ natDigits n := fun h => by
  have := C04.natDigits_ascii n _ h
  revert this; decide

theorem apos_intRepr : ∀ z : Int, '\'' ∉ intRepr z
  | .ofNat n => by simpa [intRepr] using apos_natDigits n
  | .negSucc n => by simpa [intRepr] using apos_natDigits (n + 1)

/-- the string content of a scalar (float: its lexeme) has no single quote -/
def NoAposScalar : Scalar → Prop
  | .str s => '\'' ∉ s
  | .float l => '\'' ∉ l
  | _ => True

def NoAposKey : Key → Prop
  | .str s => '\'' ∉ s
  | .int _ => True

/-- `format_value` (Foam) adds no single quote -/
theorem C10_no_single_quote_scalar : ∀ {x : Scalar}, NoAposScalar x → '\'' ∉ formatScalar .foam x
  | .str _, h => C10_no_single_quote h
  | .float l, h => h
  | .int z, _ => apos_intRepr z
  | .bool true, _ => by decide
  | .bool false, _ => by decide
  | .none, _ => by decide

theorem apos_formatKey : ∀ {k : Key}, NoAposKey k → '\'' ∉ formatKey .foam k
  | .str _, h => C10_no_single_quote h
  | .int z, _ => apos_intRepr z

theorem apos_keyStr : ∀ {k : Key}, NoAposKey k → '\'' ∉ keyStr k
  | .str _, h => h
  | .int z, _ => apos_intRepr z

mutual
  /-- no string leaf, no float lexeme and no key contains `'` -/
  def NoAposV : Val → Prop
    | .leaf x => NoAposScalar x
    | .dict es => NoAposEs es
    | .list xs => NoAposXs xs
  def NoAposEs : Entries → Prop
    | [] => True
    | (k, v) :: es => NoAposKey k ∧ NoAposV v ∧ NoAposEs es
  def NoAposXs : List Val → Prop
    | [] => True
    | v :: xs => NoAposV v ∧ NoAposXs xs
end

theorem apos_spaces (n : Nat) : '\'' ∉ spaces n := by
  simp [spaces]

theorem apos_fline {level : Nat} {x : Str} (nl : Bool) (h : '\'' ∉ x) : '\'' ∉ fline level x nl := by
  cases nl <;> simp [fline, apos_spaces, h]

mutual
  theorem apos_fmtList : ∀ (level : Nat) (inList : Bool) (xs : List Val), NoAposXs xs →
      '\'' ∉ fmtList .foam level inList xs
    | level, inList, xs, h => by
      unfold fmtList
      have h1 := apos_fmtItems level xs.length 0 true xs h
      have h2 : '\'' ∉ fline level ['('] := apos_fline true (by decide)
      have h3 : '\'' ∉ fline level (if inList then [')'] else [')', ';']) :=
        apos_fline true (by cases inList <;> decide)
      simp [h1, h2, h3]
  theorem apos_fmtItems : ∀ (level n idx : Nat) (first : Bool) (xs : List Val), NoAposXs xs →
      '\'' ∉ fmtItems .foam level n idx first xs
    | _, _, _, _, [], _ => by simp [fmtItems]
    | level, n, idx, first, .list ys :: rest, h => by
      unfold fmtItems
      have h1 := apos_fmtList (level + 1) true ys h.1
      have h2 := apos_fmtItems level n (idx + 1) first rest h.2
      simp [h1, h2]
    | level, n, idx, first, .dict es :: rest, h => by
      unfold fmtItems
      have h1 := C10_no_single_quote_text (level + 2) es h.1
      have h2 := apos_fmtItems level n (idx + 1) true rest h.2
      have h3 : '\'' ∉ fline (level + 1) [] := apos_fline true (by decide)
      have h4 : '\'' ∉ fline (level + 1) ['{'] := apos_fline true (by decide)
      have h5 : '\'' ∉ fline (level + 1) ['}'] := apos_fline true (by decide)
      simp [h1, h2, h3, h4, h5]
    | level, n, idx, first, .leaf x :: rest, h => by
      unfold fmtItems
      have hx : '\'' ∉ formatScalar .foam x := C10_no_single_quote_scalar h.1
      have h1 := apos_fmtItems level n (idx + 1) true rest h.2
      have h2 := apos_fmtItems level n (idx + 1) false rest h.2
      simp only []
      split
      · have := apos_fline (level := if first = true then level + 1 else 1) true hx
        simp [h1, this]
      · have := apos_fline (level := if first = true then level + 1 else 1)
          (x := formatScalar .foam x ++ spaces (14 - (formatScalar .foam x).length)) false (by simp [hx, apos_spaces])
        simp [h2, this]
  /-- the Foam text of a dict without `'` in keys and string content contains no `'` -/
  theorem C10_no_single_quote_text : ∀ (level : Nat) (es : Entries), NoAposEs es →
      '\'' ∉ fmtEntries .foam level es
    | _, [], _ => by simp [fmtEntries]
    | level, (k, .dict d) :: rest, h => by
      unfold fmtEntries
      have h1 := C10_no_single_quote_text (level + 1) d h.2.1
      have h2 := C10_no_single_quote_text level rest h.2.2
      have h3 : '\'' ∉ fline level (keyStr k) := apos_fline true (apos_keyStr h.1)
      have h4 : '\'' ∉ fline level ['{'] := apos_fline true (by decide)
      have h5 : '\'' ∉ fline level ['}'] := apos_fline true (by decide)
      simp [h1, h2, h3, h4, h5]
    | level, (k, .list xs) :: rest, h => by
      unfold fmtEntries
      have h1 := apos_fmtList level false xs h.2.1
      have h2 := C10_no_single_quote_text level rest h.2.2
      have h3 : '\'' ∉ fline level (keyStr k) := apos_fline true (apos_keyStr h.1)
      simp [h1, h2, h3]
    | level, (k, .leaf x) :: rest, h => by
      unfold fmtEntries
      have hx : '\'' ∉ formatScalar .foam x := C10_no_single_quote_scalar h.2.1
      have hk : '\'' ∉ formatKey .foam k := apos_formatKey h.1
      have h2 := C10_no_single_quote_text level rest h.2.2
      have h3 := apos_fline (level := level) (x := formatKey .foam k ++
        spaces (max 8 (30 - (formatKey .foam k).length - 4 * level)) ++ formatScalar .foam x ++ [';']) true
        (by simp [hx, hk, apos_spaces])
      simp only [List.append_assoc] at h3
      simp [h2, h3]
end


/-! ## (d) the OpenFOAM banner -/

/-- the characters of `Gen.foamHeader`, spelled out (the kernel evaluates `String.toList` on a long literal very
    slowly; a literal is definitionally `String.ofList` of its characters, which is checked at once) -/
def foamHeaderChars : List Char :=
  ['/', '*', '-', '-', '-', '-', '-', '-', '-', '-', '-', '-', '-', '-', '-', '-', '-', '-', '-', '-', '-', '-', '-', '-', '-', '-', '-', '-', '-', '-', '-', '-', '-', '-', '*', '-', ' ', 'C', '+', '+', ' ', '-', '*', '-', '-', '-', '-', '-', '-', '-', '-', '-', '-', '-', '-', '-', '-', '-', '-', '-', '-', '-', '-', '-', '-', '-', '-', '-', '-', '-', '-', '-', '-', '-', '-', '-', '-', '*', '\\', '\n',
  '|', ' ', '=', '=', '=', '=', '=', '=', '=', '=', '=', ' ', ' ', ' ', ' ', ' ', ' ', ' ', ' ', ' ', ' ', ' ', ' ', ' ', ' ', ' ', ' ', ' ', '|', ' ', ' ', ' ', ' ', ' ', ' ', ' ', ' ', ' ', ' ', ' ', ' ', ' ', ' ', ' ', ' ', ' ', ' ', ' ', ' ', ' ', ' ', ' ', ' ', ' ', ' ', ' ', ' ', ' ', ' ', ' ', ' ', ' ', ' ', ' ', ' ', ' ', ' ', ' ', ' ', ' ', ' ', ' ', ' ', ' ', ' ', ' ', ' ', ' ', '|', '\n',
  '|', ' ', '\\', '\\', ' ', ' ', ' ', ' ', ' ', ' ', '/', ' ', ' ', 'F', ' ', 'i', 'e', 'l', 'd', ' ', ' ', ' ', ' ', ' ', ' ', ' ', ' ', ' ', '|', ' ', 'O', 'p', 'e', 'n', 'F', 'O', 'A', 'M', ':', ' ', 'T', 'h', 'e', ' ', 'O', 'p', 'e', 'n', ' ', 'S', 'o', 'u', 'r', 'c', 'e', ' ', 'C', 'F', 'D', ' ', 'T', 'o', 'o', 'l', 'b', 'o', 'x', ' ', ' ', ' ', ' ', ' ', ' ', ' ', ' ', ' ', ' ', ' ', '|', '\n',
  '|', ' ', ' ', '\\', '\\', ' ', ' ', ' ', ' ', '/', ' ', ' ', ' ', 'O', ' ', 'p', 'e', 'r', 'a', 't', 'i', 'o', 'n', ' ', ' ', ' ', ' ', ' ', '|', ' ', 'V', 'e', 'r', 's', 'i', 'o', 'n', ':', ' ', ' ', 'd', 'e', 'v', ' ', ' ', ' ', ' ', ' ', ' ', ' ', ' ', ' ', ' ', ' ', ' ', ' ', ' ', ' ', ' ', ' ', ' ', ' ', ' ', ' ', ' ', ' ', ' ', ' ', ' ', ' ', ' ', ' ', ' ', ' ', ' ', ' ', ' ', ' ', '|', '\n',
  '|', ' ', ' ', ' ', '\\', '\\', ' ', ' ', '/', ' ', ' ', ' ', ' ', 'A', ' ', 'n', 'd', ' ', ' ', ' ', ' ', ' ', ' ', ' ', ' ', ' ', ' ', ' ', '|', ' ', 'W', 'e', 'b', ':', ' ', ' ', ' ', ' ', ' ', ' ', 'w', 'w', 'w', '.', 'O', 'p', 'e', 'n', 'F', 'O', 'A', 'M', '.', 'c', 'o', 'm', ' ', ' ', ' ', ' ', ' ', ' ', ' ', ' ', ' ', ' ', ' ', ' ', ' ', ' ', ' ', ' ', ' ', ' ', ' ', ' ', ' ', ' ', '|', '\n',
  '|', ' ', ' ', ' ', ' ', '\\', '\\', '/', ' ', ' ', ' ', ' ', ' ', 'M', ' ', 'a', 'n', 'i', 'p', 'u', 'l', 'a', 't', 'i', 'o', 'n', ' ', ' ', '|', ' ', ' ', ' ', ' ', ' ', ' ', ' ', ' ', ' ', ' ', ' ', ' ', ' ', ' ', ' ', ' ', ' ', ' ', ' ', ' ', ' ', ' ', ' ', ' ', ' ', ' ', ' ', ' ', ' ', ' ', ' ', ' ', ' ', ' ', ' ', ' ', ' ', ' ', ' ', ' ', ' ', ' ', ' ', ' ', ' ', ' ', ' ', ' ', ' ', '|', '\n',
  '\\', '*', '-', '-', '-', '-', '-', '-', '-', '-', '-', '-', '-', '-', '-', '-', '-', '-', '-', '-', '-', '-', '-', '-', '-', '-', '-', '-', '-', '-', '-', '-', '-', '-', '-', '-', '-', '-', '-', '-', '-', '-', '-', '-', '-', '-', '-', '-', '-', '-', '-', '-', '-', '-', '-', '-', '-', '-', '-', '-', '-', '-', '-', '-', '-', '-', '-', '-', '-', '-', '-', '-', '-', '-', '-', '-', '-', '*', '/', '\n',
  'F', 'o', 'a', 'm', 'F', 'i', 'l', 'e', '\n',
  '{', '\n',
  ' ', ' ', ' ', ' ', 'v', 'e', 'r', 's', 'i', 'o', 'n', ' ', ' ', ' ', ' ', ' ', ' ', ' ', ' ', ' ', ' ', ' ', ' ', ' ', ' ', ' ', ' ', ' ', ' ', ' ', '2', '.', '0', ';', '\n',
  ' ', ' ', ' ', ' ', 'f', 'o', 'r', 'm', 'a', 't', ' ', ' ', ' ', ' ', ' ', ' ', ' ', ' ', ' ', ' ', ' ', ' ', ' ', ' ', ' ', ' ', ' ', ' ', ' ', ' ', 'a', 's', 'c', 'i', 'i', ';', '\n',
  ' ', ' ', ' ', ' ', 'c', 'l', 'a', 's', 's', ' ', ' ', ' ', ' ', ' ', ' ', ' ', ' ', ' ', ' ', ' ', ' ', ' ', ' ', ' ', ' ', ' ', ' ', ' ', ' ', ' ', 'd', 'i', 'c', 't', 'i', 'o', 'n', 'a', 'r', 'y', ';', '\n',
  ' ', ' ', ' ', ' ', 'o', 'b', 'j', 'e', 'c', 't', ' ', ' ', ' ', ' ', ' ', ' ', ' ', ' ', ' ', ' ', ' ', ' ', ' ', ' ', ' ', ' ', ' ', ' ', ' ', ' ', 'f', 'o', 'a', 'm', 'D', 'i', 'c', 't', ';', '\n',
  '}', '\n',
  '/', '/', ' ', '*', ' ', '*', ' ', '*', ' ', '*', ' ', '*', ' ', '*', ' ', '*', ' ', '*', ' ', '*', ' ', '*', ' ', '*', ' ', '*', ' ', '*', ' ', '*', ' ', '*', ' ', '*', ' ', '*', ' ', '*', ' ', '*', ' ', '*', ' ', '*', ' ', '*', ' ', '*', ' ', '*', ' ', '*', ' ', '*', ' ', '*', ' ', '*', ' ', '*', ' ', '*', ' ', '*', ' ', '*', ' ', '*', ' ', '*', ' ', '*', ' ', '*', ' ', '*', ' ', '/', '/', '\n']

set_option maxRecDepth 100000 in
theorem foamHeader_eq : foamHeader = foamHeaderChars :=
  (congrArg String.toList (rfl : Gen.foamHeader = String.ofList foamHeaderChars)).trans String.toList_ofList

attribute [local irreducible] foamHeader

/-- the header contains the `FoamFile` block … -/
theorem foamHeader_foamFile : isInfix "FoamFile".toList foamHeader = true := by rw [foamHeader_eq]; decide +kernel
/-- … names OpenFOAM … -/
theorem foamHeader_openfoam : isInfix "OpenFOAM".toList foamHeader = true := by rw [foamHeader_eq]; decide +kernel
/-- … and carries the ` C++ ` marker -/
theorem foamHeader_cpp : containsCpp foamHeader = true := by rw [foamHeader_eq]; decide +kernel

theorem isInfix_append_right {p a : Str} (b : Str) (h : isInfix p a = true) : isInfix p (a ++ b) = true := by
  rw [C01.isInfix_iff] at *
  obtain ⟨x, y, rfl⟩ := h
  exact ⟨x, y ++ b, by simp⟩

/-- no comment at all: the default block comment is the Foam header -/
theorem makeDefault_foam_nil : makeDefaultBlockComment .foam [] = foamHeader := by
  unfold makeDefaultBlockComment
  simp only [containsCpp, Bool.false_eq_true, if_false, List.append_nil, ite_self]

/-- a first comment without ` C++ ` marker gets the Foam header in front -/
theorem makeDefault_foam_of_not_cpp {bc : Str} (h : containsCpp bc = false) :
    makeDefaultBlockComment .foam bc = foamHeader ++ bc := by
  unfold makeDefaultBlockComment
  simp only [h, Bool.false_eq_true, if_false, isInfix_append_right bc foamHeader_openfoam, if_true]

/-- a first comment with ` C++ ` marker that names OpenFOAM is kept; one that does not is *replaced* by the header -/
theorem makeDefault_foam_of_cpp {bc : Str} (h : containsCpp bc = true) :
    makeDefaultBlockComment .foam bc = if isInfix "OpenFOAM".toList bc then bc else foamHeader := by
  unfold makeDefaultBlockComment
  simp only [h, if_true]

/-- whatever the first comment is, what is inserted for it contains the FoamFile block … unless it is an own
    ` C++ ` header that names OpenFOAM -/
theorem makeDefault_foam_cases (bc : Str) :
    makeDefaultBlockComment .foam bc = foamHeader ++ bc ∨ makeDefaultBlockComment .foam bc = foamHeader ∨
      (makeDefaultBlockComment .foam bc = bc ∧ containsCpp bc = true ∧ isInfix "OpenFOAM".toList bc = true) := by
  cases h : containsCpp bc
  · exact Or.inl (makeDefault_foam_of_not_cpp h)
  · rw [makeDefault_foam_of_cpp h]
    cases h2 : isInfix "OpenFOAM".toList bc <;> simp

/-- no block comment in the table: the text is preceded by exactly the Foam header -/
theorem C10_banner_raw (txt : Str) : insertBlockComments .foam [] txt = foamHeader ++ txt := by
  simp [insertBlockComments, makeDefault_foam_nil]

/-! the found-flag of `substPh` does not depend on the replacement text -/

theorem matchPhEntry_lt {ph s rest : Str} (h : matchPhEntry ph s = some rest) : rest.length < s.length := by
  unfold matchPhEntry at h
  split at h
  · simp only [] at h
    split at h
    · next hc =>
      split at h
      · next r2 e =>
        simp only [Option.some.injEq] at h
        subst h
        have h1 := congrArg List.length e
        simp only [List.length_drop, List.length_cons, Bool.and_eq_true, decide_eq_true_eq] at h1 hc
        omega
      · cases h
    · cases h
  · cases h

theorem substFuel_flag (ph r1 r2 : Str) : ∀ (fuel : Nat) (s : Str),
    (substPhEntryFuel ph r1 fuel s).2 = (substPhEntryFuel ph r2 fuel s).2
  | 0, _ => rfl
  | _ + 1, [] => rfl
  | fuel + 1, c :: r => by
    simp only [substPhEntryFuel]
    split
    · rfl
    · exact substFuel_flag ph r1 r2 fuel r

theorem substPh_flag (kw : Str) (i : Nat) (r1 r2 s : Str) : (substPh kw i r1 s).2 = (substPh kw i r2 s).2 :=
  substFuel_flag _ _ _ _ _

/-- one comment in the table, its placeholder entry present in the text: it is replaced by the (completed) comment -/
theorem insertBlock_single (fl : Flavor) (i : Nat) (bc txt : Str)
    (hfound : (substPh kwBlock i [] txt).2 = true) (hne : makeDefaultBlockComment fl bc ≠ []) :
    insertBlockComments fl [(i, bc)] txt = (substPh kwBlock i (makeDefaultBlockComment fl bc) txt).1 := by
  have hinf : isInfix (makeDefaultBlockComment fl bc) [] = false := by
    cases hm : makeDefaultBlockComment fl bc with
    | nil => exact absurd hm hne
    | cons c r => simp [isInfix, tails, List.isPrefixOf]
  have hf : (substPh kwBlock i (makeDefaultBlockComment fl bc) txt).2 = true := by
    rw [substPh_flag kwBlock i _ [] txt]; exact hfound
  have hemp : (makeDefaultBlockComment fl bc).isEmpty = false := by
    cases hm : makeDefaultBlockComment fl bc with
    | nil => exact absurd hm hne
    | cons c r => rfl
  simp only [insertBlockComments, List.foldl_cons, List.foldl_nil, if_true, hinf, Bool.false_eq_true, if_false]
  rcases hs : substPh kwBlock i (makeDefaultBlockComment fl bc) txt with ⟨s', found⟩
  rw [hs] at hf
  simp only [] at hf
  subst hf
  simp [hemp]

/-- the first comment has no ` C++ ` marker and its placeholder entry stands in the text: what is put there
    starts with the Foam header -/
theorem C10_banner_first_comment (i : Nat) (bc txt : Str) (hfound : (substPh kwBlock i [] txt).2 = true)
    (hcpp : containsCpp bc = false) :
    insertBlockComments .foam [(i, bc)] txt = (substPh kwBlock i (foamHeader ++ bc) txt).1 := by
  have h := makeDefault_foam_of_not_cpp hcpp
  rw [insertBlock_single .foam i bc txt hfound, h]
  rw [h]
  intro e
  have := congrArg List.length e
  have hl : 0 < foamHeader.length := by rw [foamHeader_eq]; decide +kernel
  simp only [List.length_append, List.length_nil] at this
  omega

/-! ### the header survives include / line-comment insertion and trailing-space removal -/

theorem substFuel_skip {ph : Str} (repl : Str) {c : Char} {ph' : Str} (hph : ph = c :: ph') :
    ∀ (h : Str) (fuel : Nat) (s : Str), c ∉ h →
      substPhEntryFuel ph repl (fuel + h.length) (h ++ s) =
        (h ++ (substPhEntryFuel ph repl fuel s).1, (substPhEntryFuel ph repl fuel s).2)
  | [], fuel, s, _ => by simp
  | x :: h, fuel, s, hc => by
    have hx : c ≠ x := fun e => hc (by rw [e]; exact List.mem_cons_self)
    have hh : c ∉ h := fun e => hc (List.mem_cons_of_mem _ e)
    have hm : matchPhEntry ph (x :: (h ++ s)) = none := by
      simp [matchPhEntry, hph, List.isPrefixOf, hx]
    have : fuel + (x :: h).length = (fuel + h.length) + 1 := by simp; omega
    rw [this, List.cons_append, substPhEntryFuel, hm]
    simp only []
    rw [substFuel_skip repl hph h fuel s hh]
    simp

theorem substPh_skip {kw : Str} (i : Nat) (repl : Str) {c : Char} {kw' : Str} (hkw : kw = c :: kw')
    (h s : Str) (hc : c ∉ h) :
    substPh kw i repl (h ++ s) = (h ++ (substPh kw i repl s).1, (substPh kw i repl s).2) := by
  unfold substPh
  have : (h ++ s).length + 1 = (s.length + 1) + h.length := by simp; omega
  rw [this]
  exact substFuel_skip repl (ph' := kw' ++ padSix i) (by rw [hkw]; rfl) h _ s hc

/-- one step of `insert_includes` -/
def inclStep (acc : Option Str) (e : Nat × InclEntry) : Option Str :=
  match acc with
  | none => none
  | some s => match includeLineFl .foam e.2.file with
    | some line => some (substPh kwIncl e.1 line s).1
    | none => none

theorem insertIncludes_eq (tbl : Tbl InclEntry) (s : Str) :
    insertIncludes .foam tbl s = tbl.foldl inclStep (some s) := rfl

theorem inclStep_none : ∀ tbl : Tbl InclEntry, tbl.foldl inclStep none = none
  | [] => rfl
  | _ :: tbl => by simp only [List.foldl_cons, inclStep]; exact inclStep_none tbl

theorem insertIncludes_skip (h : Str) (hI : 'I' ∉ h) : ∀ (tbl : Tbl InclEntry) (s t : Str),
    insertIncludes .foam tbl (h ++ s) = some t → ∃ r, t = h ++ r
  | [], s, t, e => by
    simp only [insertIncludes_eq, List.foldl_nil, Option.some.injEq] at e
    exact ⟨s, e.symm⟩
  | e :: tbl, s, t, ht => by
    simp only [insertIncludes_eq, List.foldl_cons, inclStep] at ht
    cases hl : includeLineFl .foam e.2.file with
    | none => rw [hl] at ht; simp only [] at ht; rw [inclStep_none] at ht; cases ht
    | some line =>
      rw [hl] at ht
      simp only [] at ht
      rw [substPh_skip (kw := kwIncl) e.1 line (c := 'I') (kw' := "NCLUDE".toList) (by decide) h s hI] at ht
      rw [← insertIncludes_eq] at ht
      exact insertIncludes_skip h hI tbl _ t ht

theorem insertLineComments_skip (h : Str) (hL : 'L' ∉ h) : ∀ (tbl : Tbl Str) (s : Str),
    ∃ r, insertLineComments tbl (h ++ s) = h ++ r := by
  intro tbl
  induction tbl with
  | nil => intro s; exact ⟨s, rfl⟩
  | cons e tbl ih =>
    intro s
    simp only [insertLineComments, List.foldl_cons]
    rw [substPh_skip (kw := kwLine) e.1 e.2 (c := 'L') (kw' := "INECOMMENT".toList) (by decide) h s hL]
    exact ih _

theorem blankHead_nl (r : Str) : C01.blankHead ('\n' :: r) = true := by
  simp [C01.blankHead, splitNl]

theorem blankHead_line (r r' : Str) : ∀ a : Str, C01.blankHead (a ++ '\n' :: r) = C01.blankHead (a ++ '\n' :: r')
  | [] => by simp [blankHead_nl]
  | c :: a => by
    by_cases hc : c = '\n'
    · subst hc; simp [blankHead_nl]
    · simp only [List.cons_append, C01.blankHead_cons hc, blankHead_line r r' a]

/-- trailing-space removal works line by line: a text that ends a line can be split off -/
theorem rts_line (r : Str) : ∀ a : Str, C01.rts (a ++ '\n' :: r) = C01.rts (a ++ ['\n']) ++ C01.rts r
  | [] => by simp [C01.rts_nl, C01.rts_nil]
  | c :: a => by
    by_cases hc : c = '\n'
    · subst hc; simp only [List.cons_append, C01.rts_nl, rts_line r a]
    · simp only [List.cons_append, C01.rts_cons hc, rts_line r a, blankHead_line r [] a]
      split <;> simp

theorem removeTrailingSpaces_line (a r : Str) (ha : ∀ c ∈ a, c ≠ '\r') :
    removeTrailingSpaces (a ++ '\n' :: r) = removeTrailingSpaces (a ++ ['\n']) ++ removeTrailingSpaces r := by
  have h1 : ∀ c ∈ a ++ ['\n'], c ≠ '\r' := by
    intro c hc
    rcases List.mem_append.mp hc with h | h
    · exact ha c h
    · simp at h; subst h; decide
  have e : a ++ '\n' :: r = (a ++ ['\n']) ++ r := by simp
  have e2 : a ++ ['\n'] = (a ++ ['\n']) ++ [] := by simp
  rw [C01.removeTrailingSpaces_eq, C01.removeTrailingSpaces_eq, C01.removeTrailingSpaces_eq, e,
    C01.universalNl_solid _ _ h1]
  conv => rhs; rw [e2, C01.universalNl_solid _ _ h1]
  simp only [universalNl, List.append_nil, List.append_assoc, List.singleton_append]
  exact rts_line _ a

theorem foamHeader_chars : 'I' ∉ foamHeader ∧ 'L' ∉ foamHeader ∧ (∀ c ∈ foamHeader.dropLast, c ≠ '\r') ∧
    foamHeader = foamHeader.dropLast ++ ['\n'] := by rw [foamHeader_eq]; decide +kernel

/-- **C10_banner**: an `SDict` without block comments written in Foam flavour begins with the OpenFOAM banner
    (which contains the `FoamFile` block: `foamHeader_foamFile`), trailing spaces removed -/
theorem C10_banner (s : SD) (hb : s.blockC = []) (t : Str) (h : fmtSD .foam s = some t) :
    removeTrailingSpaces foamHeader <+: t := by
  obtain ⟨hI, hL, hr, hlast⟩ := foamHeader_chars
  simp only [fmtSD, hb, C10_banner_raw] at h
  split at h
  · cases h
  · next t1 h1 =>
    obtain ⟨r1, rfl⟩ := insertIncludes_skip foamHeader hI _ _ _ h1
    obtain ⟨r2, e2⟩ := insertLineComments_skip foamHeader hL s.lineC r1
    simp only [Option.some.injEq] at h
    rw [e2] at h
    subst h
    refine ⟨removeTrailingSpaces r2, ?_⟩
    conv => rhs; rw [hlast, List.append_assoc, List.singleton_append, removeTrailingSpaces_line _ _ hr, ← hlast]

/-! ## (e) the input is not changed

  In the functional model this is immediate: `fmtPlain .foam es` (and `fmtSD .foam s`) are *functions* of their
  argument; the private keys are dropped in a local copy (`dropUnderscoreEs .foam es`), `es` itself is never
  rebound.  What the model can say is that the text depends on `es` only through that copy: -/

theorem C10_input_unchanged (es : Entries) :
    fmtPlain .foam es = removeTrailingSpaces (fmtEntries .foam 0 (hoistPlaceholders (dropUnderscoreEs .foam es))) := rfl

/-- … hence a dict and its private-key-free copy are written alike -/
theorem C10_fmtPlain_drop (es : Entries) : fmtPlain .foam (dropUnderscoreEs .foam es) = fmtPlain .foam es := by
  simp only [fmtPlain, C10_drop_idem]

/-! ## (f) Foam string round trip

  The layout proof of `C01fmt` re-run for the Foam flavour on `DomC01 .foam` (strings without `"`: `escapeDq` never
  acts, every quoted string is `dq s`). -/

namespace Foam
open DictIO.C01

/-! #### how the Foam writer spells scalars (the flavour-dependent part) -/

/-- on strings without `$` and `"` the Foam writer writes bare or in double quotes, nothing else -/
theorem formatString_foam_cases {s : Str} (hd : s.contains '$' = false) (hq : s.contains '"' = false) :
    (formatString .foam s = s ∧ s ≠ [] ∧ s.all (fun c => !isQuote c && !isComplexChar c) = true ∧
      startsInclude s = false) ∨
    formatString .foam s = dq s := by
  rw [C04.formatString_def]
  by_cases hne : s = []
  · subst hne; exact Or.inr rfl
  · have he : s.isEmpty = false := by simpa using hne
    cases hqq : s.any isQuote with
    | true => right; simp only [hd, he, hq, Bool.false_eq_true, if_false, if_true]
    | false =>
      cases hc : s.any isComplexChar with
      | true => right; simp only [hd, he, Bool.true_or, Bool.false_eq_true, if_false, if_true]
      | false =>
        cases hi : startsInclude s with
        | true => right; simp only [hd, he, Bool.or_true, Bool.false_eq_true, if_false, if_true]
        | false =>
          left
          refine ⟨by simp only [hd, he, Bool.or_self, Bool.false_eq_true, if_false], hne,
            (C04.all_plain_iff s).mpr ⟨hqq, hc⟩, rfl⟩

theorem writtenLit_str_bare_f {s : Str} (h : formatString .foam s = s) : writtenLit .foam (.str s) = .bare s := by
  simp [writtenLit, formatScalar, h]

theorem writtenLit_str_dq_f {s b : Str} (h : formatString .foam s = dq b) (hne : dq b ≠ s) :
    writtenLit .foam (.str s) = .quoted '"' b := by
  have hne : (dq b == s) = false := by simpa using hne
  simp only [writtenLit, formatScalar, h, hne]
  simp [dq]

theorem isDomStr_foam {s : Str} (h : isDomStr .foam s = true) : isDomStr .native s = true ∧ s.contains '"' = false := by
  simp only [isDomStr, Bool.and_eq_true, Bool.not_eq_true'] at h ⊢
  obtain ⟨⟨a, c⟩, d⟩ := h
  exact ⟨⟨⟨a, trivial⟩, d⟩, c⟩

/-- the text of the written literal is what `format_value` produces — for every scalar -/
theorem writtenLit_text_f (x : Scalar) : (writtenLit .foam x).tok.text = formatScalar .foam x := by
  cases x with
  | str s =>
    rcases formatString_foam_three s with hf | hf | hf
    · rw [writtenLit_str_bare_f hf]; simp [Lit.tok, STok.text, formatScalar, hf]
    · rw [writtenLit_str_dq_f hf (C04.dq_ne s)]; simp [Lit.tok, STok.text, formatScalar, hf, dq]
    · rw [writtenLit_str_dq_f hf (C04.dq_escape_ne s)]; simp [Lit.tok, STok.text, formatScalar, hf, dq]
  | int z => rfl
  | float l => rfl
  | bool b => rfl
  | none => rfl

/-- leaves: the written literal means the normalised scalar -/
theorem den_writtenLit_f {x : Scalar} (h : isDomScalar .foam x = true) : (writtenLit .foam x).den = normScalar x := by
  cases x with
  | int z => exact C04.C04_format_parse_int .foam z
  | float l => exact C04.C04_format_parse_float .foam (pyFloatRepr_bridge h)
  | bool b => exact C04.C04_format_parse_bool (Or.inr rfl) b
  | none => exact C04.C04_format_parse_none (Or.inr rfl)
  | str s =>
    obtain ⟨hn, hq⟩ := isDomStr_foam h
    rcases formatString_foam_cases (domStr_no_dollar hn) hq with ⟨hf, _, hall, _⟩ | hf
    · rw [writtenLit_str_bare_f hf]
      obtain ⟨hq, _⟩ := (C04.all_plain_iff s).mp hall
      have hq' : ∀ c ∈ s, isQuote c = false := fun c hc => by
        cases hqc : isQuote c with
        | false => rfl
        | true => rw [List.any_eq_true.mpr ⟨c, hc, hqc⟩] at hq; cases hq
      simp only [Lit.den, normScalar]
      cases hp : parseValue s with
      | str t => rw [C04.C04_idem hp hq']
      | int z => rfl
      | float l => rfl
      | bool b => rfl
      | none => rfl
    · rw [writtenLit_str_dq_f hf (C04.dq_ne s)]; rfl

/-- on the domain the written literal is an admissible source literal -/
theorem written_ok_f {x : Scalar} (h : isDomScalar .foam x = true) : (writtenLit .foam x).ok = true := by
  cases x with
  | int z => exact isSrcWord_intRepr z
  | float l =>
    have := pyFloatRepr_numChars (pyFloatRepr_bridge h)
    exact isSrcWord_of_numChars this.1 this.2
  | bool b => cases b <;> decide
  | none => decide
  | str s =>
    obtain ⟨hn, hdq⟩ := isDomStr_foam h
    obtain ⟨_, _, _, _, _, _, _, _, hlast⟩ := isDomStr_iff.mp hn
    rcases formatString_foam_cases (domStr_no_dollar hn) hdq with ⟨hf, hne, hall, hinc⟩ | hf
    · rw [writtenLit_str_bare_f hf]
      obtain ⟨hq, hcx⟩ := (C04.all_plain_iff s).mp hall
      rcases hlast with h1 | h1 | h1 | h1 | h1
      · exact absurd (by simpa using h1) hne
      · rw [hq] at h1; cases h1
      · rw [hcx] at h1; cases h1
      · exact h1
      · rw [hinc] at h1; cases h1
    · rw [writtenLit_str_dq_f hf (C04.dq_ne s)]
      exact domStr_quoted hn (by decide) hdq

/-! #### the three structural inductions of `C01fmt` and the assembly, re-run for `.foam`

  (word for word the native proofs; the only flavour-dependent inputs are the four lemmas above and
  `formatKey_eq_keyStr_f`) -/

/-- the key identity: on the domain `format_key(k)` is `str(k)` -/
theorem formatKey_eq_keyStr_f {k : Key} (h : isDomKey k = true) : formatKey .foam k = keyStr k := by
  cases k with
  | int z => rfl
  | str s =>
    simp only [isDomKey, Bool.and_eq_true, Bool.not_eq_true'] at h
    obtain ⟨hw, _, _, _, _, hch, _⟩ := isSrcWord_iff.mp h.1.1
    simp only [formatKey, keyStr]
    have hhash := (isSrcWord_iff.mp h.1.1).2.2.2.2.2.2.2.2
    refine C04.formatString_of_bare ⟨?_, ?_, ?_, startsInclude_of_head hhash⟩
    · intro hs; subst hs; simp [isWordTok] at hw
    · cases hc : s.contains '$' with
      | false => rfl
      | true => exact absurd rfl (hch _ (List.contains_iff_mem.mp hc)).2.1
    · refine (C04.all_plain_iff s).mpr ⟨?_, h.2⟩
      cases hq : s.any isQuote with
      | false => rfl
      | true =>
        obtain ⟨c, hc, hq⟩ := List.any_eq_true.mp hq
        rw [(hch c hc).1] at hq; cases hq


mutual
  theorem den_srcOfV_f : ∀ (d : Nat) (v : Val), domV .foam d v = true → denSrcV (srcOfV .foam v) = normV v
    | d, .leaf x, h => by
      simp only [domV, Bool.and_eq_true] at h
      simp only [srcOfV, denSrcV, normV, den_writtenLit_f h.1]
    | d, .dict es, h => by
      simp only [domV, Bool.and_eq_true, decide_eq_true_eq] at h
      simp only [srcOfV, denSrcV, normV]
      rw [den_srcOfEs_f (d + 1) es [] h.1 h.2 (fun _ _ hk => by cases hk)]
      rfl
    | d, .list xs, h => by
      simp only [domV] at h
      simp only [srcOfV, denSrcV, normV, den_srcOfXs_f (d + 1) xs h]
  theorem den_srcOfEs_f : ∀ (d : Nat) (es acc : Entries), domEs .foam d es = true → (keys es).Nodup →
      (∀ k ∈ keys es, k ∉ keys acc) → denSrcEs (srcOfEs .foam es) acc = acc ++ normEs es
    | _, [], acc, _, _, _ => by simp [srcOfEs, denSrcEs, normEs]
    | d, (k, v) :: es, acc, h, hn, hdis => by
      simp only [domEs, Bool.and_eq_true] at h
      simp only [keys, List.map_cons, List.nodup_cons] at hn
      simp only [srcOfEs, denSrcEs, domKey_types_back h.1.1, den_srcOfV_f d v h.1.2]
      have hk : k ∉ keys acc := hdis k (by simp [keys])
      rw [C07.setKey_of_not_mem k (normV v) acc hk]
      rw [den_srcOfEs_f d es (acc ++ [(k, normV v)]) h.2 hn.2]
      · simp [normEs]
      · intro k' hk' hmem
        simp only [keys, List.map_append, List.map_cons, List.map_nil, List.mem_append, List.mem_singleton] at hmem
        rcases hmem with hmem | rfl
        · exact hdis k' (by simp only [keys, List.map_cons, List.mem_cons]; exact Or.inr hk') hmem
        · exact hn.1 hk'
  theorem den_srcOfXs_f : ∀ (d : Nat) (xs : List Val), domXs .foam d xs = true → denSrcXs (srcOfXs .foam xs) = normXs xs
    | _, [], _ => by simp [srcOfXs, denSrcXs, normXs]
    | d, v :: xs, h => by
      simp only [domXs, Bool.and_eq_true] at h
      simp only [srcOfXs, denSrcXs, normXs, den_srcOfV_f d v h.1, den_srcOfXs_f d xs h.2]
end

theorem entries_lastDelim_f : ∀ (es : Entries), lastDelim true (srcToksEs (srcOfEs .foam es)) = true
  | [] => rfl
  | (k, .leaf x) :: es => by
    have := entries_lastDelim_f es
    simp only [srcOfEs, srcOfV, srcToksEs]
    rw [show ∀ (a b c : STok) l, a :: b :: c :: l = [a, b, c] ++ l from fun _ _ _ _ => rfl, lastDelim_append]
    simpa [lastDelim, delim_facts] using this
  | (k, .dict d) :: es => by
    have := entries_lastDelim_f es
    simp only [srcOfEs, srcOfV, srcToksEs]
    rw [show ∀ (a b : STok) l m n, a :: b :: l ++ m ++ n = (a :: b :: l ++ m) ++ n from fun _ _ _ _ _ => by simp,
      lastDelim_append, show ∀ (a b : STok) l m, a :: b :: l ++ m = (a :: b :: l) ++ m from fun _ _ _ _ => by simp,
      lastDelim_append]
    simpa [lastDelim, delim_facts] using this
  | (k, .list l) :: es => by
    have := entries_lastDelim_f es
    simp only [srcOfEs, srcOfV, srcToksEs]
    rw [show ∀ (a b : STok) l m n, a :: b :: l ++ m ++ n = (a :: b :: l ++ m) ++ n from fun _ _ _ _ _ => by simp,
      lastDelim_append, show ∀ (a b : STok) l m, a :: b :: l ++ m = (a :: b :: l) ++ m from fun _ _ _ _ => by simp,
      lastDelim_append]
    simpa [lastDelim, delim_facts] using this

/-- a list, given its items -/
theorem lays_list_f {toks : List STok} (pd : Bool) (level : Nat) (inList : Bool) (xs : List Val)
    (h : Lays false toks (fmtItems .foam level xs.length 0 true xs)) :
    Lays pd (.word ['('] :: toks ++ (if inList then [.word [')']] else [.word [')'], .word [';']]))
      (fmtList .foam level inList xs) := by
  have h1 := lays_line pd level (.word ['(']) (Or.inr (Or.inl delim_facts.2.2.1))
  have h2 := h1.append h (fun h => by cases h)
  rw [fmtList]
  cases inList with
  | true =>
    have h3 := h2.append (lays_line false level (.word [')']) (Or.inr (Or.inl delim_facts.2.2.2.1))) (fun h => by cases h)
    simpa [STok.text] using h3
  | false =>
    have h3 := Lays.tok false (g := spaces (4 * level)) (tail := []) (.word [')']) (spaces_ws _) nil_ws
      (Or.inr (Or.inl delim_facts.2.2.2.1))
    have h4 := Lays.tok false (g := []) (tail := ['\n']) (.word [';']) nil_ws nl_ws
      (Or.inr (Or.inl delim_facts.2.2.2.2))
    have h5 := (h2.append h3 (fun h => by cases h)).append h4 (fun h => by cases h)
    simpa [STok.text, fline] using h5

mutual
  theorem lays_items_f : ∀ (d level n idx : Nat) (first : Bool) (xs : List Val), domXs .foam d xs = true →
      Lays false (srcToksXs (srcOfXs .foam xs)) (fmtItems .foam level n idx first xs)
    | _, _, _, _, _, [], _ => by
      simp only [srcOfXs, srcToksXs, fmtItems]
      exact Lays.ws false nil_ws
    | d, level, n, idx, first, .list ys :: rest, h => by
      simp only [domXs, domV, Bool.and_eq_true] at h
      have h1 := lays_list_f false (level + 1) true ys (lays_items_f (d + 1) (level + 1) ys.length 0 true ys h.1)
      have h2 := h1.append (lays_items_f d level n (idx + 1) first rest h.2) (fun h => by cases h)
      simpa [srcOfXs, srcOfV, srcToksXs, srcToksV, fmtItems] using h2
    | d, level, n, idx, first, .dict es :: rest, h => by
      simp only [domXs, domV, Bool.and_eq_true] at h
      have h0 : Lays false [] (fline (level + 1) []) := Lays.ws false (by simp [fline, spaces_ws, isWs_nl])
      have h1 := lays_line false (level + 1) (.word ['{']) (Or.inr (Or.inl delim_facts.1))
      have h2 := lays_entries_f (d + 1) (level + 2) es h.1.1
      have h3 := lays_line false (level + 1) (.word ['}']) (Or.inr (Or.inl delim_facts.2.1))
      have h4 := lays_items_f d level n (idx + 1) true rest h.2
      have h5 := (((h0.append h1 (fun h => by cases h)).append h2 (fun _ => by simp [lastDelim, delim_facts])).append h3
        (fun h => by cases h)).append h4 (fun h => by cases h)
      simpa [srcOfXs, srcOfV, srcToksXs, srcToksV, fmtItems, text_word] using h5
    | d, level, n, idx, first, .leaf x :: rest, h => by
      simp only [domXs, Bool.and_eq_true] at h
      simp only [srcOfXs, srcOfV, srcToksXs, srcToksV, fmtItems]
      have hlev : 0 < (if first = true then level + 1 else 1) := by split <;> omega
      split
      · have h1 := lays_line false (if first = true then level + 1 else 1) (writtenLit .foam x).tok (Or.inr (Or.inr hlev))
        have h2 := h1.append (lays_items_f d level n (idx + 1) true rest h.2) (fun h => by cases h)
        simpa [writtenLit_text_f] using h2
      · have h1 := Lays.tok false (g := spaces (4 * (if first = true then level + 1 else 1)))
          (tail := spaces (14 - (formatScalar .foam x).length)) (writtenLit .foam x).tok (spaces_ws _) (spaces_ws _)
          (Or.inr (Or.inr (spaces_ne (by omega))))
        have h2 := h1.append (lays_items_f d level n (idx + 1) false rest h.2) (fun h => by cases h)
        simpa [writtenLit_text_f, fline] using h2
  theorem lays_entries_f : ∀ (d level : Nat) (es : Entries), domEs .foam d es = true →
      Lays true (srcToksEs (srcOfEs .foam es)) (fmtEntries .foam level es)
    | _, _, [], _ => by
      simp only [srcOfEs, srcToksEs, fmtEntries]
      exact Lays.ws true nil_ws
    | d, level, (k, .dict es) :: rest, h => by
      simp only [domEs, domV, Bool.and_eq_true] at h
      have h0 := lays_line true level (.word (keyStr k)) (Or.inl rfl)
      have h1 := lays_line false level (.word ['{']) (Or.inr (Or.inl delim_facts.1))
      have h2 := lays_entries_f (d + 1) (level + 1) es h.1.2.1
      have h3 := lays_line false level (.word ['}']) (Or.inr (Or.inl delim_facts.2.1))
      have h4 := lays_entries_f d level rest h.2
      have h5 := (((h0.append h1 (fun h => by cases h)).append h2 (fun _ => by simp [lastDelim, delim_facts])).append h3
        (fun h => by cases h)).append h4 (fun _ => by simp [lastDelim_append, lastDelim, delim_facts])
      simpa [srcOfEs, srcOfV, srcToksEs, fmtEntries, text_word] using h5
    | d, level, (k, .list xs) :: rest, h => by
      simp only [domEs, domV, Bool.and_eq_true] at h
      have h0 := lays_line true level (.word (keyStr k)) (Or.inl rfl)
      have h1 := lays_list_f false level false xs (lays_items_f (d + 1) level xs.length 0 true xs h.1.2)
      have h4 := lays_entries_f d level rest h.2
      have h5 := (h0.append h1 (fun h => by cases h)).append h4 (fun _ => by simp [lastDelim_append, lastDelim, delim_facts])
      simpa [srcOfEs, srcOfV, srcToksEs, fmtEntries, text_word] using h5
    | d, level, (k, .leaf x) :: rest, h => by
      simp only [domEs, Bool.and_eq_true] at h
      have h0 := Lays.tok true (g := spaces (4 * level)) (tail := []) (.word (keyStr k)) (spaces_ws _) nil_ws (Or.inl rfl)
      have h1 := Lays.tok false (g := spaces (max 8 (30 - (keyStr k).length - 4 * level))) (tail := [])
        (writtenLit .foam x).tok (spaces_ws _) nil_ws (Or.inr (Or.inr (spaces_ne (by omega))))
      have h2 := Lays.tok false (g := []) (tail := ['\n']) (.word [';']) nil_ws nl_ws (Or.inr (Or.inl delim_facts.2.2.2.2))
      have h4 := lays_entries_f d level rest h.2
      have h5 := ((h0.append h1 (fun h => by cases h)).append h2 (fun h => by cases h)).append h4
        (fun _ => by simp [lastDelim, delim_facts])
      simpa [srcOfEs, srcOfV, srcToksEs, fmtEntries, text_word, fline, writtenLit_text_f, formatKey_eq_keyStr_f h.1.1] using h5
end

/-- (1) the writer's top-level reordering does nothing on the domain -/
theorem hoist_id_f {es : Entries} (h : DomC01 .foam es = true) : hoistPlaceholders es = es := by
  simp only [DomC01, Bool.and_eq_true] at h
  have hk := domEs_keys h.1
  unfold hoistPlaceholders
  refine filter3_id _ _ es ?_ ?_
  · intro e he
    have := hk e he
    split
    · next s hs => rw [hs] at this; exact (domKey_not_ph this).1
    · rfl
  · intro e he
    have := hk e he
    split
    · next s hs => rw [hs] at this; exact (domKey_not_ph this).2
    · rfl

/-! ### (2) how scalars and keys are spelled; the written document is well formed -/


mutual
  theorem srcOfV_wf_f : ∀ (d : Nat) (v : Val), domV .foam d v = true → SrcWFV d (srcOfV .foam v) = true
    | d, .leaf x, h => by
      simp only [domV, Bool.and_eq_true] at h
      simp only [srcOfV, SrcWFV, Bool.and_eq_true]
      exact ⟨written_ok_f h.1, h.2⟩
    | d, .dict es, h => by
      simp only [domV, Bool.and_eq_true] at h
      simp only [srcOfV, SrcWFV]
      exact srcOf_wf_f (d + 1) es h.1
    | d, .list xs, h => by
      simp only [domV] at h
      simp only [srcOfV, SrcWFV]
      exact srcOfXs_wf_f (d + 1) xs h
  /-- (2c) the written document is a well-formed source document -/
  theorem srcOf_wf_f : ∀ (d : Nat) (es : Entries), domEs .foam d es = true → SrcWFEs d (srcOfEs .foam es) = true
    | _, [], _ => by simp [srcOfEs, SrcWFEs]
    | d, (k, v) :: es, h => by
      simp only [domEs, Bool.and_eq_true] at h
      simp only [srcOfEs, SrcWFEs, Bool.and_eq_true]
      exact ⟨⟨⟨domKey_word h.1.1, by rw [domKey_types_back h.1.1]; rfl⟩, srcOfV_wf_f d v h.1.2⟩, srcOf_wf_f d es h.2⟩
  theorem srcOfXs_wf_f : ∀ (d : Nat) (xs : List Val), domXs .foam d xs = true → SrcWFXs d (srcOfXs .foam xs) = true
    | _, [], _ => by simp [srcOfXs, SrcWFXs]
    | d, v :: xs, h => by
      simp only [domXs, Bool.and_eq_true] at h
      simp only [srcOfXs, SrcWFXs, Bool.and_eq_true]
      exact ⟨srcOfV_wf_f d v h.1, srcOfXs_wf_f d xs h.2⟩
end

theorem den_written_f {es : Entries} (h : DomC01 .foam es = true) : denSrcEs (srcOfEs .foam es) [] = normEs es := by
  simp only [DomC01, Bool.and_eq_true, decide_eq_true_eq] at h
  rw [den_srcOfEs_f 1 es [] h.1 h.2 (fun _ _ hk => by cases hk)]
  rfl

theorem fmt_is_layout_f {es : Entries} (h : DomC01 .foam es = true) :
    ∃ gaps tail, fmtEntries .foam 0 es = spreadS (srcToksEs (srcOfEs .foam es)) gaps tail ∧
      GapsOKS (srcToksEs (srcOfEs .foam es)) gaps = true ∧ tail.all isWs = true := by
  simp only [DomC01, Bool.and_eq_true] at h
  exact (lays_entries_f 1 0 es h.1).to_spread


/-- the Foam writer's text for a dict of the domain without private keys is an admissible layout of the tokens of
    the written document -/
theorem fmtPlain_is_layout_f {es : Entries} (h : DomC01 .foam es = true) (hu : NoUnderscoreEs es) :
    ∃ gaps tail, fmtPlain .foam es = spreadS (srcToksEs (srcOfEs .foam es)) gaps tail ∧
      GapsOKS (srcToksEs (srcOfEs .foam es)) gaps = true ∧ tail.all isWs = true := by
  obtain ⟨gaps, tail, e, ok, ht⟩ := fmt_is_layout_f h
  have hd : domEs .foam 1 es = true := by
    simp only [DomC01, Bool.and_eq_true] at h; exact h.1
  rw [C10_input_unchanged, C10_drop_id es hu, hoist_id_f h, e]
  exact rts_layout _ gaps tail (toksEs_good 1 _ (srcOf_wf_f 1 es hd)) ok ht

end Foam

/-- **C10 (strings, Foam).**  For a dict of the value domain (`DomC01 .foam`: in particular no string leaf contains
    `"`) without private keys, the text the Foam writer produces (`fmtPlain`: no header) is read back by the native
    reader — with `comments` on or off — as the dict with the documented element-type normalisation, all side
    tables empty.  Hypotheses as in `C01.C01_roundtrip_string`. -/
theorem C10_roundtrip_string {es : Entries} {c : Counter} (comments : Bool) (dir : Str) :
    DomC01 .foam es = true → NoUnderscoreEs es → C01.DocKeysAbsent' es →
    C02.countQuotedEs (srcOfEs .foam es) ≤ Gen.counterLimit + 1 → C13.ValidCounter Gen.counterLimit c →
    ∃ c', parseNative comments dir c (fmtPlain .foam es) = .ok ({ data := normEs es }, c') := by
  intro h hu hd hn hc
  have hdom : domEs .foam 1 es = true := by
    simp only [DomC01, Bool.and_eq_true] at h; exact h.1
  have hwf := Foam.srcOf_wf_f 1 es hdom
  have hden := Foam.den_written_f h
  obtain ⟨gaps, tail, e, hg, ht⟩ := Foam.fmtPlain_is_layout_f h hu
  refine ⟨(labelEs { counter := c } (srcOfEs .foam es)).1.counter, ?_⟩
  rw [e, ← hden]
  refine C02.C02_layout_tolerant_gen comments dir hwf hg ht hc hn ?_ ?_
  · rw [hden]; exact C01.norm_lookup_none fun e he => (hd e he).1
  · rw [hden]; exact C01.norm_lookup_none fun e he => (hd e he).2

/-- with private keys in the dict, what comes back is the normalised dict *without* them -/
theorem C10_roundtrip_string_dropped {es : Entries} {c : Counter} (comments : Bool) (dir : Str)
    (h : DomC01 .foam (dropUnderscoreEs .foam es) = true) (hd : C01.DocKeysAbsent' (dropUnderscoreEs .foam es))
    (hn : C02.countQuotedEs (srcOfEs .foam (dropUnderscoreEs .foam es)) ≤ Gen.counterLimit + 1)
    (hc : C13.ValidCounter Gen.counterLimit c) :
    ∃ c', parseNative comments dir c (fmtPlain .foam es) =
      .ok ({ data := normEs (dropUnderscoreEs .foam es) }, c') := by
  rw [← C10_fmtPlain_drop]
  exact C10_roundtrip_string comments dir h (C10_underscore es) hd hn hc

/-! ## (g) non-vacuity: `{'a': [{'_z': 1, 'y': "it's"}], '_b': 1, 'k': 'x y'}` -/

def exDict : Entries :=
  [(.str "a".toList, .list [.dict [(.str "_z".toList, .leaf (.int 1)), (.str "y".toList, .leaf (.str "it's".toList))]]),
   (.str "_b".toList, .leaf (.int 1)),
   (.str "k".toList, .leaf (.str "x y".toList))]

def exDropped : Entries :=
  [(.str "a".toList, .list [.dict [(.str "y".toList, .leaf (.str "it's".toList))]]),
   (.str "k".toList, .leaf (.str "x y".toList))]

/-- (a), (b): `_b` on top and `_z` inside the list are dropped, everything else is kept in order -/
theorem exDict_dropped : dropUnderscoreEs .foam exDict = exDropped := by decide +kernel

theorem exDict_has_underscore : ¬ NoUnderscoreEs exDict := by
  simp only [exDict, NoUnderscoreEs, NoUnderscoreV, NoUnderscoreXs]
  intro h
  exact absurd h.2.2.1 (by decide +kernel)

theorem exDropped_noUnderscore : NoUnderscoreEs exDropped := by
  simp only [exDropped, NoUnderscoreEs, NoUnderscoreV, NoUnderscoreXs, and_true, true_and]
  decide +kernel

example : dropUnderscoreEs .foam exDropped = exDropped := C10_drop_id _ exDropped_noUnderscore

example : exDict.filter keep = [exDict[0], exDict[2]] := by decide +kernel

/-- (c): a string with `'` keeps it (it is not *added*); the Foam text of `'x y'` uses `"`, where the native one uses `'` -/
example : formatString .foam "it's".toList = "\"it's\"".toList := by decide +kernel
example : formatString .foam "x y".toList = "\"x y\"".toList ∧ formatString .native "x y".toList = "'x y'".toList := by
  decide +kernel

def exNoApos : Entries :=
  [(.str "a".toList, .list [.dict [(.str "y".toList, .leaf (.str "say \"hi\"".toList))]]),
   (.str "k".toList, .leaf (.str "x y".toList)), (.int (-3), .leaf (.float "1.5".toList))]

theorem exNoApos_ok : NoAposEs exNoApos := by
  simp only [exNoApos, NoAposEs, NoAposV, NoAposXs, NoAposKey, NoAposScalar, and_true, true_and]
  decide +kernel

example : '\'' ∉ fmtEntries .foam 0 exNoApos := C10_no_single_quote_text 0 _ exNoApos_ok

/-- the hypothesis is not vacuous the other way either: `exDropped` has a `'` in a leaf, and it is written -/
example : ¬ NoAposEs exDropped := by
  simp only [exDropped, NoAposEs, NoAposV, NoAposXs, NoAposKey, NoAposScalar, and_true, true_and]
  decide +kernel

/-- (d): the example written as an `SDict` starts with the banner -/
example : ∃ t, fmtSD .foam { data := exDict } = some t ∧ removeTrailingSpaces foamHeader <+: t := by
  refine ⟨_, rfl, C10_banner { data := exDict } rfl _ rfl⟩

example (txt : Str) : insertBlockComments .foam [] txt = foamHeader ++ txt := C10_banner_raw txt

/-- (f): the example (private keys and all) is written as this text — double quotes where the native writer uses
    single ones — and read back as the dict without its private keys -/
theorem exDropped_dom : DomC01 .foam exDropped = true := by decide +kernel

/-- the raw text (before trailing-space removal: the line in front of `{` consists of blanks) -/
theorem exDropped_raw : fmtEntries .foam 0 exDropped = C01.unlines
    ["a",
     "(",
     "    ",
     "    {",
     "        y                     \"it's\";",
     "    }",
     ");",
     "k                             \"x y\";"] := by
  simp only [exDropped, fmtEntries, fmtList, fmtItems, formatKey, keyStr, formatScalar]
  decide +kernel

theorem exDict_text : fmtPlain .foam exDict = C01.unlines
    ["a",
     "(",
     "",
     "    {",
     "        y                     \"it's\";",
     "    }",
     ");",
     "k                             \"x y\";"] := by
  rw [← C10_fmtPlain_drop, exDict_dropped, C10_input_unchanged, C10_drop_id _ exDropped_noUnderscore,
    Foam.hoist_id_f exDropped_dom, exDropped_raw]
  decide +kernel

theorem exDict_roundtrip (comments : Bool) (dir : Str) :
    ∃ c', parseNative comments dir none (fmtPlain .foam exDict) = .ok ({ data := exDropped }, c') := by
  have h := C10_roundtrip_string_dropped (es := exDict) (c := none) comments dir
    (by rw [exDict_dropped]; exact exDropped_dom) (by rw [exDict_dropped]; decide)
    (by rw [exDict_dropped]; decide +kernel) (Or.inl rfl)
  rw [exDict_dropped] at h
  rwa [show normEs exDropped = exDropped by decide +kernel] at h

end DictIO.C10
