/-
  C08 -- History independence: what a read returns does not depend on what the process did before
  (the state of the global `BorgCounter`, the spelling of the path given), as far as the model carries it.

    a  `C08_ids_distinct`, `C08_canon_renaming`, `C08_canon_counter_independent`
                              the placeholder ids drawn by one read are pairwise distinct (up to `counterLimit + 1` of them,
                              across the wrap-around too); ids enter the canonical form (`rankCanon`) only through equality;
                              the canonical form of freshly drawn ids does not depend on the counter state      (from C13)
    b  `C08_data_counter_independent`
                              for comment-free sources (well-formed documents in any admissible layout) the *data* read
                              does not depend on the counter at all                                            (from C02)
       `C08_data_counter_independent'`  … and neither do the side tables: the whole `SDict` is the same
    c  `C08_order_wrap` / `C08_order_nowrap` / `C08_alloc_wrap`   known finding D18 as a proved negative: `order=True` sorts
                              the side tables by id, so ids drawn across the wrap-around come out in the other order
       `C08_order_not_canon_invariant`  the same, stated against the canonical form: two tables with the same canonical ids
                              and the same texts are ordered differently
    d  `C08_lookup_by_resolved`, `C08_parseFile_spelling`, `C08_spelling_*`
                              a file is looked up by its normalised path: spellings with `./`, `../` reach the same file

  Not carried by the model: the effect of earlier reads on anything but the counter (the reader has no other global state;
  that is a correspondence-level fact about the Python code).
-/
import DictIO.Model.Reader
import DictIO.Model.Order
import DictIO.Props.C13name
import DictIO.Props.C02main

namespace DictIO.C08
open DictIO

/-! ## a. placeholder ids -/

/-- up to `limit + 1` successive ids are pairwise distinct, whatever the counter state was, even across the
    wrap-around: two placeholders of one read never collide -/
theorem C08_ids_distinct {limit k : Nat} {c : Counter} (hk : k ≤ limit + 1) (hc : C13.ValidCounter limit c) :
    (alloc limit k c).Nodup :=
  C13.alloc_nodup hk hc

/-- the ids drawn are the window `start, start+1, …` modulo `limit + 1` -/
theorem C08_ids_window {limit : Nat} {c : Counter} (hc : C13.ValidCounter limit c) (k : Nat) :
    alloc limit k c = (List.range k).map fun j => (C13.startOf c + j) % (limit + 1) :=
  C13.alloc_eq_range hc k

/-- every id handed out is within the limit (six digits at the generated limit) -/
theorem C08_id_le {limit : Nat} {c : Counter} (hc : C13.ValidCounter limit c) : (Counter.next limit c).1 ≤ limit :=
  C13.next_le hc

/-- the canonical form (rank of first appearance) is invariant under every injective renaming of the ids:
    ids enter it only through equality -/
theorem C08_canon_renaming {f : Nat → Nat} (hf : Function.Injective f) (ids : List Nat) :
    rankCanon (ids.map f) = rankCanon ids :=
  C13.rankCanon_map_injective hf ids

/-- the canonical form of the ids a read draws does not depend on where the counter stood before the read -/
theorem C08_canon_counter_independent {limit k : Nat} {c c' : Counter} (hk : k ≤ limit + 1)
    (hc : C13.ValidCounter limit c) (hc' : C13.ValidCounter limit c') :
    rankCanon (alloc limit k c) = rankCanon (alloc limit k c') :=
  C13.rankCanon_alloc_indep hk hc hc'

/-! ## b. comment-free sources: the data does not depend on the counter -/

/-- for a well-formed source document (quoted strings allowed; no comments, includes, `$`) in any admissible layout,
    the data read is the same whatever the counter state: the ids of the string-literal placeholders are gone once the
    literals are put back.  Hypotheses: those of `C02_layout_tolerant`, for both counters. -/
theorem C08_data_counter_independent {es : SrcEntries} {gaps : List Str} {tail : Str} {c₁ c₂ : Counter}
    (comments : Bool) (dir : Str)
    (hwf : SrcWFEs 1 es = true) (hg : GapsOKS (srcToksEs es) gaps = true) (ht : tail.all isWs = true)
    (hc₁ : C13.ValidCounter Gen.counterLimit c₁) (hc₂ : C13.ValidCounter Gen.counterLimit c₂)
    (hn : C02.countQuotedEs es ≤ Gen.counterLimit + 1) (hd : C02.DocKeysAbsent es) :
    (parseNative comments dir c₁ (spreadS (srcToksEs es) gaps tail)).map (·.1.data) =
      (parseNative comments dir c₂ (spreadS (srcToksEs es) gaps tail)).map (·.1.data) := by
  obtain ⟨c₁', h₁⟩ := C02.C02_layout_tolerant comments dir hwf hg ht hc₁ hn hd
  obtain ⟨c₂', h₂⟩ := C02.C02_layout_tolerant comments dir hwf hg ht hc₂ hn hd
  rw [h₁, h₂]; rfl

/-- … and the data is the documented meaning of the document -/
theorem C08_data_is_meaning {es : SrcEntries} {gaps : List Str} {tail : Str} {c : Counter}
    (comments : Bool) (dir : Str)
    (hwf : SrcWFEs 1 es = true) (hg : GapsOKS (srcToksEs es) gaps = true) (ht : tail.all isWs = true)
    (hc : C13.ValidCounter Gen.counterLimit c)
    (hn : C02.countQuotedEs es ≤ Gen.counterLimit + 1) (hd : C02.DocKeysAbsent es) :
    (parseNative comments dir c (spreadS (srcToksEs es) gaps tail)).map (·.1.data) = .ok (denSrcEs es []) := by
  obtain ⟨c', h⟩ := C02.C02_layout_tolerant comments dir hwf hg ht hc hn hd
  rw [h]; rfl

/-- the whole `SDict` (data and the four side tables, which are empty) is independent of the counter -/
theorem C08_data_counter_independent' {es : SrcEntries} {gaps : List Str} {tail : Str} {c₁ c₂ : Counter}
    (comments : Bool) (dir : Str)
    (hwf : SrcWFEs 1 es = true) (hg : GapsOKS (srcToksEs es) gaps = true) (ht : tail.all isWs = true)
    (hc₁ : C13.ValidCounter Gen.counterLimit c₁) (hc₂ : C13.ValidCounter Gen.counterLimit c₂)
    (hn : C02.countQuotedEs es ≤ Gen.counterLimit + 1) (hd : C02.DocKeysAbsent es) :
    ∃ sd c₁' c₂', parseNative comments dir c₁ (spreadS (srcToksEs es) gaps tail) = .ok (sd, c₁') ∧
      parseNative comments dir c₂ (spreadS (srcToksEs es) gaps tail) = .ok (sd, c₂') := by
  obtain ⟨c₁', h₁⟩ := C02.C02_layout_tolerant comments dir hwf hg ht hc₁ hn hd
  obtain ⟨c₂', h₂⟩ := C02.C02_layout_tolerant comments dir hwf hg ht hc₂ hn hd
  exact ⟨_, c₁', c₂', h₁, h₂⟩

/-! ## c. known finding D18: `order=True` sorts the side tables by id -/

/-- two ids drawn across the wrap-around … -/
theorem C08_alloc_wrap : alloc Gen.counterLimit 2 (some 999998) = [999999, 0] := by decide

/-- … and two ids drawn anywhere else -/
theorem C08_alloc_nowrap : alloc Gen.counterLimit 2 (some 4) = [5, 6] := by decide

/-- `Tbl.order` puts the comment drawn second in front of the one drawn first when the counter wrapped in between … -/
theorem C08_order_wrap {α} (a b : α) : Tbl.order [(999999, a), (0, b)] = [(0, b), (999999, a)] := by
  simp [Tbl.order, sortBy, insertBy]

/-- … and keeps the order of drawing otherwise -/
theorem C08_order_nowrap {α} (a b : α) : Tbl.order [(5, a), (6, b)] = [(5, a), (6, b)] := by
  simp [Tbl.order, sortBy, insertBy]

/-- **D18 (negative).** the order of a side table after `order=True` is *not* a function of the canonical form of its
    ids and its texts: the same two comments, read at two counter states, have the same canonical ids (`[0, 1]`) but come
    out in opposite orders. -/
theorem C08_order_not_canon_invariant :
    ∃ (t₁ t₂ : Tbl Str), rankCanon (t₁.map (·.1)) = rankCanon (t₂.map (·.1)) ∧ t₁.map (·.2) = t₂.map (·.2) ∧
      (Tbl.order t₁).map (·.2) ≠ (Tbl.order t₂).map (·.2) :=
  ⟨(alloc Gen.counterLimit 2 (some 999998)).zip [['a'], ['b']], (alloc Gen.counterLimit 2 (some 4)).zip [['a'], ['b']],
    by decide, by decide, by decide⟩

/-! ## d. path spelling -/

/-- the file system is consulted with the normalised path only -/
theorem C08_lookup_by_resolved (fs : FS) {p q : Comps} (h : resolveSpelled p = resolveSpelled q) :
    fs.get (resolveSpelled p) = fs.get (resolveSpelled q) := by rw [h]

/-- `parse_file` on a native file: two spellings of the same file with the same directory spelling and name give the
    same result; in general the spelling enters only through `p.dropLast` (the `path` entries of include directives,
    which keep pathlib's spelling) and the suffix tests on the last component. -/
theorem C08_parseFile_spelling (fs : FS) (comments : Bool) (c : Counter) {p q : Comps}
    (h : resolveSpelled p = resolveSpelled q) (hd : p.dropLast = q.dropLast) (hl : p.getLast? = q.getLast?) :
    parseFile fs comments c p = parseFile fs comments c q := by
  unfold parseFile isXmlPath isJsonPath
  rw [h, hd, hl]

/-- `..` pops a component: `/a/b` + `../c/f` is `/a/c/f` -/
theorem C08_spelling_dotdot :
    resolveSpelled (spellJoin ["a".toList, "b".toList] "../c/f".toList) = ["a".toList, "c".toList, "f".toList] := by decide

/-- `.` is dropped: `/a/b` + `./f` is `/a/b/f`, as is `/a/b` + `f` and `/a/b` + `.//f` -/
theorem C08_spelling_dot :
    resolveSpelled (spellJoin ["a".toList, "b".toList] "./f".toList) = ["a".toList, "b".toList, "f".toList] ∧
    resolveSpelled (spellJoin ["a".toList, "b".toList] "f".toList) = ["a".toList, "b".toList, "f".toList] ∧
    resolveSpelled (spellJoin ["a".toList, "b".toList] ".//f".toList) = ["a".toList, "b".toList, "f".toList] := by decide

/-- a detour through a sibling directory: `/a/b` + `../b/./f` is `/a/b/f` -/
theorem C08_spelling_detour :
    resolveSpelled (spellJoin ["a".toList, "b".toList] "../b/./f".toList) =
      resolveSpelled ["a".toList, "b".toList, "f".toList] := by decide

/-- an absolute name ignores the directory -/
theorem C08_spelling_abs :
    resolveSpelled (spellJoin ["x".toList] "/a/b/../b/f".toList) = ["a".toList, "b".toList, "f".toList] := by decide

/-- the spellings reach the same file of a file system -/
example (body : FileBody) :
    let fs : FS := [(["a".toList, "b".toList, "f".toList], body)]
    (fs.get (resolveSpelled (spellJoin ["a".toList, "b".toList] "../b/./f".toList))).isSome = true ∧
    (fs.get (resolveSpelled (spellJoin ["a".toList, "c".toList] "../b/f".toList))).isSome = true := by
  simp [FS.get, resolveSpelled, joinNorm]
  decide

end DictIO.C08
