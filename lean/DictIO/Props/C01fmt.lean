/-
  C01 (writer side) — what the native writer produces for a dict of the value domain `DomC01`, seen as a source
  document of the documented grammar (`Grammar.lean`, second half).  This connects the writer model
  (`NativeFormat.lean`) to the reader-side theorems, which are stated for texts `spreadS (srcToksEs doc) gaps tail`.

    (1) `hoist_id`             on the domain the top-level reordering of placeholder keys is the identity
    (2) `written_text`         the token written for a scalar has exactly the text `format_value` produces (all scalars)
        `written_ok`           … and is an admissible source literal (bare source word / single-line quoted string)
        `srcOf_wf` (+V, Xs)    the written document `srcOfEs es` is a well-formed source document
    (5) `den_written`          it denotes the normalised dict:   denSrcEs (srcOfEs es) [] = normEs es
    (3) `fmt_is_layout`        `fmtEntries .native 0 es` (raw output) is `spreadS` of the document's tokens with
                               admissible gaps (`GapsOKS`) and a white-space tail
    (4) `rts_layout`           `remove_trailing_spaces` maps any admissible layout of "good" tokens (`TokGood`: non-empty,
                               last character not white space, no `\n`/`\r` inside) to an admissible layout of the
                               same tokens — for arbitrary white-space gaps, `\r` and `\r\n` included
        `fmtPlain_is_layout`   hence `fmtPlain .native es` is an admissible layout of the document's tokens
        `C01_writer`           (2c) + (5) + (4) in one statement
    (6) `exDict…`              a concrete dict of the domain, its raw and final text, its tokens, the theorems instantiated

  Hypotheses.  (1)–(3), (5) are stated with `DomC01 .native es` (resp. `isDomScalar`, `domEs`) exactly as asked;
  `written_text` needs no hypothesis at all.  `rts_layout` has the added (decidable, `tokGoodB_iff`) hypothesis
  `∀ t ∈ ts, TokGood t`; `rts_layout_needs_nonblank_end` and `rts_layout_needs_no_nl` refute the statement without
  either half of it.  `hoist_id_needs_dom` and `fmt_is_layout_needs_dom` show that the domain restriction on keys is
  needed for (1) and (3).

  Proof idea of (3): a layout is a list of (gap, token) pairs (`layP`, `okFrom`); `Lays pd ts txt` says `txt` is an
  admissible layout of `ts` given whether a delimiter (or nothing) stands in front.  `Lays.append` glues two texts (the
  tail of the first joins the first gap of the second); every line of `format_dict` is a `Lays.tok` / `lays_line`.
  In the writer's output every token is preceded by white space except a key at indentation 0 (preceded by `;`, `}`,
  `{` or nothing) and the glued `;` — a delimiter.
  Proof idea of (4): `rts` (= join ∘ map rstrip ∘ split) is characterised character by character (`rts_nl`,
  `rts_cons`); a token is "solid" (`rts_solid`), a gap in front of a token stays a non-empty gap (`rts_gap`).
-/
import DictIO.Model.Written
import DictIO.Props.C04
import DictIO.Props.C07

namespace DictIO.C01
open DictIO

/-! ## helper lemmas -/

/-! ### suffixes and substrings -/

theorem mem_tails {α} {t : List α} : ∀ {s : List α}, t ∈ tails s ↔ ∃ a, s = a ++ t
  | [] => by
    simp only [tails, List.mem_singleton]
    constructor
    · rintro rfl; exact ⟨[], rfl⟩
    · rintro ⟨a, h⟩
      have := congrArg List.length h
      simp at this
      exact List.eq_nil_of_length_eq_zero (by omega)
  | x :: s => by
    simp only [tails, List.mem_cons, mem_tails (s := s)]
    constructor
    · rintro (rfl | ⟨a, rfl⟩)
      · exact ⟨[], rfl⟩
      · exact ⟨x :: a, rfl⟩
    · rintro ⟨a, h⟩
      cases a with
      | nil => exact Or.inl h.symm
      | cons y a =>
        simp only [List.cons_append, List.cons.injEq] at h
        exact Or.inr ⟨a, h.2⟩

theorem isInfix_iff {p s : Str} : isInfix p s = true ↔ ∃ a b, s = a ++ p ++ b := by
  simp only [isInfix, List.any_eq_true, mem_tails, List.isPrefixOf_iff_prefix]
  constructor
  · rintro ⟨t, ⟨a, rfl⟩, b, rfl⟩
    exact ⟨a, b, by simp⟩
  · rintro ⟨a, b, rfl⟩
    exact ⟨p ++ b, ⟨a, by simp⟩, b, rfl⟩

theorem isInfix_false_iff {p s : Str} : isInfix p s = false ↔ ¬ ∃ a b, s = a ++ p ++ b := by
  rw [← isInfix_iff]; simp

theorem isInfix_cons_mem {c : Char} {p w : Str} (h : isInfix (c :: p) w = true) : c ∈ w := by
  obtain ⟨a, b, rfl⟩ := isInfix_iff.mp h
  simp

theorem isInfix_of_append {p q s : Str} (h : isInfix (p ++ q) s = true) : isInfix q s = true := by
  obtain ⟨a, b, rfl⟩ := isInfix_iff.mp h
  exact isInfix_iff.mpr ⟨a ++ p, b, by simp⟩

theorem containsPh_infix {kw s : Str} (h : containsPh kw s = true) : isInfix kw s = true := by
  simp only [containsPh, List.any_eq_true, Bool.and_eq_true] at h
  obtain ⟨t, ht, hp, _⟩ := h
  exact List.any_eq_true.mpr ⟨t, ht, hp⟩

theorem isSrcWord_iff {w : Str} : isSrcWord w = true ↔
    isWordTok w = true ∧ isInfix "COMMENT".toList w = false ∧ isInfix "INCLUDE".toList w = false ∧
    isInfix kwLit w = false ∧ isInfix kwExpr w = false ∧
    (∀ x ∈ w, isQuote x = false ∧ x ≠ '$' ∧ x ≠ '\\') ∧
    isInfix ['/', '/'] w = false ∧ isInfix ['/', '*'] w = false ∧ w.head? ≠ some '#' := by
  simp only [isSrcWord, isPhTok, isCommentTok, isIncludeTok, Bool.and_eq_true, Bool.not_eq_true',
    Bool.or_eq_false_iff, List.all_eq_true, bne_iff_ne, ne_eq, beq_eq_false_iff_ne, and_assoc]

/-- a word that does not begin with `#` does not start like an include directive -/
theorem startsInclude_of_head {w : Str} (h : w.head? ≠ some '#') : startsInclude w = false := by
  cases w with
  | nil => rfl
  | cons c r =>
    have hc : c ≠ '#' := fun e => h (by simp [e])
    have : ('#' == c) = false := by simpa using fun e : '#' = c => hc e.symm
    simp [startsInclude, List.isPrefixOf, this, hc]

/-! ### domain keys are no placeholder look-alikes -/

theorem domKey_not_ph {s : Str} (h : isDomKey (.str s) = true) :
    containsPh kwBlock s = false ∧ containsPh kwIncl s = false := by
  simp only [isDomKey, Bool.and_eq_true] at h
  obtain ⟨_, hc, hi, _⟩ := isSrcWord_iff.mp h.1.1
  constructor
  · cases hb : containsPh kwBlock s with
    | false => rfl
    | true =>
      have := containsPh_infix hb
      have : isInfix "COMMENT".toList s = true := isInfix_of_append (p := "BLOCK".toList) this
      rw [hc] at this; cases this
  · cases hb : containsPh kwIncl s with
    | false => rfl
    | true =>
      have := containsPh_infix hb
      rw [show kwIncl = "INCLUDE".toList from rfl, hi] at this; cases this

theorem domEs_keys {fl : Flavor} {d : Nat} : ∀ {es : Entries}, domEs fl d es = true → ∀ e ∈ es, isDomKey e.1 = true
  | [], _, e, he => by cases he
  | (k, v) :: es, h, e, he => by
    simp only [domEs, Bool.and_eq_true] at h
    rcases List.mem_cons.mp he with rfl | he
    · exact h.1.1
    · exact domEs_keys h.2 e he

theorem filter3_id {α} (isB isI : α → Bool) (es : List α) (hB : ∀ e ∈ es, isB e = false) (hI : ∀ e ∈ es, isI e = false) :
    es.filter isB ++ es.filter (fun e => !isB e && isI e) ++ es.filter (fun e => !isB e && !isI e) = es := by
  have e1 : es.filter isB = [] := List.filter_eq_nil_iff.mpr fun e he => by simp [hB e he]
  have e2 : es.filter (fun e => !isB e && isI e) = [] := List.filter_eq_nil_iff.mpr fun e he => by simp [hI e he]
  have e3 : es.filter (fun e => !isB e && !isI e) = es := List.filter_eq_self.mpr fun e he => by simp [hB e he, hI e he]
  rw [e1, e2, e3]; rfl

/-! ### words made of "number characters" are source words -/

/-- the characters of `str(int)` and `repr(float)` -/
def numChars : List Char := "0123456789-+.e".toList

theorem numChars_facts : ∀ c ∈ numChars,
    isWs c = false ∧ c ∉ Gen.delimiters ∧ c ∉ Gen.openingBrackets ∧
    c ∉ Gen.closingBrackets ∧ isQuote c = false ∧ c ≠ '$' ∧ c ≠ '\\' ∧ c ≠ '#' ∧ c ≠ '/' ∧
    c ≠ 'C' ∧ c ≠ 'I' ∧ c ≠ 'S' ∧ c ≠ 'E' := by decide

theorem not_infix_of_head {c : Char} {p w : Str} (h : c ∉ w) : isInfix (c :: p) w = false := by
  cases hi : isInfix (c :: p) w with
  | false => rfl
  | true => exact absurd (isInfix_cons_mem hi) h

theorem isSrcWord_of_numChars {w : Str} (hne : w ≠ []) (h : ∀ c ∈ w, c ∈ numChars) : isSrcWord w = true := by
  have hf := fun c hc => numChars_facts c (h c hc)
  have hnot : ∀ {x : Char}, (∀ c ∈ numChars, c ≠ x) → x ∉ w := fun hx hm => hx _ (h _ hm) rfl
  rw [isSrcWord_iff]
  refine ⟨?_, ?_, ?_, ?_, ?_, ?_, ?_, ?_, ?_⟩
  · simp only [isWordTok, Bool.and_eq_true, Bool.not_eq_true', List.all_eq_true]
    refine ⟨⟨by simpa using hne, fun c hc => by simp [(hf c hc).1, (hf c hc).2.1]⟩, ?_⟩
    match w, hf with
    | [], _ => rfl
    | [c], hf => simp [(hf c (by simp)).2.2.1, (hf c (by simp)).2.2.2.1]
    | _ :: _ :: _, _ => rfl
  · exact not_infix_of_head (hnot (by decide))
  · exact not_infix_of_head (hnot (by decide))
  · exact not_infix_of_head (c := 'S') (hnot (by decide))
  · exact not_infix_of_head (c := 'E') (hnot (by decide))
  · intro c hc
    exact ⟨(hf c hc).2.2.2.2.1, (hf c hc).2.2.2.2.2.1, (hf c hc).2.2.2.2.2.2.1⟩
  · exact not_infix_of_head (hnot (by decide))
  · exact not_infix_of_head (hnot (by decide))
  · cases w with
    | nil => exact absurd rfl hne
    | cons c w =>
      simp only [List.head?_cons, ne_eq, Option.some.injEq]
      exact (hf c (by simp)).2.2.2.2.2.2.2.1

theorem asciiDigit_numChar : ∀ c, C04.IsAsciiDigit c → c ∈ numChars := by
  unfold C04.IsAsciiDigit; decide

theorem intRepr_numChars (z : Int) : intRepr z ≠ [] ∧ ∀ c ∈ intRepr z, c ∈ numChars := by
  cases z with
  | ofNat n =>
    exact ⟨C04.natDigits_ne_nil n, fun c hc => asciiDigit_numChar c (C04.natDigits_ascii n c hc)⟩
  | negSucc n =>
    refine ⟨by simp [intRepr], fun c hc => ?_⟩
    simp only [intRepr, List.mem_cons] at hc
    rcases hc with rfl | hc
    · decide
    · exact asciiDigit_numChar c (C04.natDigits_ascii _ c hc)

theorem isSrcWord_intRepr (z : Int) : isSrcWord (intRepr z) = true :=
  isSrcWord_of_numChars (intRepr_numChars z).1 (intRepr_numChars z).2

/-! ### the Bool recogniser of `repr(float)` and the declarative one of C04 -/

theorem asciiDigit_of_le {c : Char} (h : '0' ≤ c ∧ c ≤ '9') : C04.IsAsciiDigit c := by
  have key : ∀ n, n < 58 → 48 ≤ n → C04.IsAsciiDigit (Char.ofNat n) := by
    unfold C04.IsAsciiDigit; decide
  have h1 : 48 ≤ c.toNat := by
    have := h.1; rw [Char.le_def] at this; exact UInt32.le_iff_toNat_le.mp this
  have h2 : c.toNat ≤ 57 := by
    have := h.2; rw [Char.le_def] at this; exact UInt32.le_iff_toNat_le.mp this
  have := key c.toNat (by omega) h1
  rwa [Char.ofNat_toNat] at this

theorem mem_takeWhile_imp' {α} {p : α → Bool} {c : α} : ∀ {l : List α}, c ∈ l.takeWhile p → p c = true
  | [], h => by cases h
  | x :: l, h => by
    rw [List.takeWhile_cons] at h
    split at h
    · next hx =>
      rcases List.mem_cons.mp h with rfl | h
      · exact hx
      · exact mem_takeWhile_imp' h
    · cases h

theorem asciiDigits_takeWhile (l : Str) : C04.AsciiDigits (l.takeWhile fun c => '0' ≤ c ∧ c ≤ '9') := by
  intro c hc
  have := mem_takeWhile_imp' hc
  exact asciiDigit_of_le (by simpa using this)

theorem asciiDigits_of_is {s : Str} (h : isAsciiDigits s = true) : s ≠ [] ∧ C04.AsciiDigits s := by
  simp only [isAsciiDigits, Bool.and_eq_true, Bool.not_eq_true', List.all_eq_true] at h
  exact ⟨by simpa using h.1, fun c hc => asciiDigit_of_le (by simpa using h.2 c hc)⟩

/-- the body of `isPyFloatRepr` after the optional sign -/
def pyBody (l : Str) : Bool :=
  let ip := l.takeWhile fun c => '0' ≤ c ∧ c ≤ '9'
  let r := l.dropWhile fun c => '0' ≤ c ∧ c ≤ '9'
  let expOK (e : Str) : Bool := match e with
    | 'e' :: s :: ds => (s == '+' || s == '-') && isAsciiDigits ds && ds.length ≥ 2
    | _ => false
  !ip.isEmpty &&
  (match r with
   | '.' :: r' =>
     let fp := r'.takeWhile fun c => '0' ≤ c ∧ c ≤ '9'
     let r'' := r'.dropWhile fun c => '0' ≤ c ∧ c ≤ '9'
     !fp.isEmpty && (r''.isEmpty || expOK r'')
   | _ => expOK r)

theorem isPyFloatRepr_eq (l : Str) : isPyFloatRepr l = pyBody (match l with | '-' :: r => r | r => r) := rfl

theorem expOK_spec {e : Str}
    (h : (match e with
      | 'e' :: s :: ds => (s == '+' || s == '-') && isAsciiDigits ds && decide (ds.length ≥ 2)
      | _ => false) = true) : C04.IsPyExp e := by
  split at h
  · next s ds =>
    simp only [Bool.and_eq_true, Bool.or_eq_true, beq_iff_eq, decide_eq_true_eq] at h
    exact .mk s ds h.1.1 h.2 (asciiDigits_of_is h.1.2).2
  · cases h

theorem pyBody_spec {l neg : Str} (hn : neg = [] ∨ neg = ['-']) (h : pyBody l = true) : C04.IsPyFloatRepr (neg ++ l) := by
  have hsplit := (List.takeWhile_append_dropWhile (p := fun c => decide ('0' ≤ c ∧ c ≤ '9')) (l := l)).symm
  have hip := asciiDigits_takeWhile l
  simp only [pyBody, Bool.and_eq_true, Bool.not_eq_true'] at h
  obtain ⟨hne, hr⟩ := h
  have hne' : (l.takeWhile fun c => decide ('0' ≤ c ∧ c ≤ '9')) ≠ [] := by simpa using hne
  generalize l.takeWhile (fun c => decide ('0' ≤ c ∧ c ≤ '9')) = ip at *
  generalize l.dropWhile (fun c => decide ('0' ≤ c ∧ c ≤ '9')) = r at *
  subst hsplit
  split at hr
  · next r' =>
    have hsplit' := (List.takeWhile_append_dropWhile (p := fun c => decide ('0' ≤ c ∧ c ≤ '9')) (l := r')).symm
    have hfp := asciiDigits_takeWhile r'
    simp only [Bool.and_eq_true, Bool.not_eq_true', Bool.or_eq_true] at hr
    obtain ⟨hfne, hrest⟩ := hr
    have hfne' : (r'.takeWhile fun c => decide ('0' ≤ c ∧ c ≤ '9')) ≠ [] := by simpa using hfne
    generalize r'.takeWhile (fun c => decide ('0' ≤ c ∧ c ≤ '9')) = fp at *
    generalize r'.dropWhile (fun c => decide ('0' ≤ c ∧ c ≤ '9')) = r'' at *
    subst hsplit'
    rcases hrest with he | he
    · have : r'' = [] := by simpa using he
      subst this
      have := C04.IsPyFloatRepr.frac neg ip fp hn hne' hip hfne' hfp
      simpa using this
    · have := C04.IsPyFloatRepr.fracExp neg ip fp r'' hn hne' hip hfne' hfp (expOK_spec he)
      simpa using this
  · have := C04.IsPyFloatRepr.exp neg ip r hn hne' hip (expOK_spec hr)
    simpa using this

theorem pyFloatRepr_bridge {l : Str} (h : isPyFloatRepr l = true) : C04.IsPyFloatRepr l := by
  rw [isPyFloatRepr_eq] at h
  split at h
  · next r => exact pyBody_spec (neg := ['-']) (Or.inr rfl) h
  · exact pyBody_spec (neg := []) (Or.inl rfl) h

theorem pyExp_numChars {e : Str} (h : C04.IsPyExp e) : ∀ c ∈ e, c ∈ numChars := by
  cases h with
  | mk sg ds hs hl hd =>
    intro c hc
    simp only [List.mem_cons] at hc
    rcases hc with rfl | rfl | hc
    · decide
    · rcases hs with rfl | rfl <;> decide
    · exact asciiDigit_numChar c (hd c hc)

theorem neg_numChars {neg : Str} (h : neg = [] ∨ neg = ['-']) : ∀ c ∈ neg, c ∈ numChars := by
  rcases h with rfl | rfl <;> decide

theorem pyFloatRepr_numChars {l : Str} (h : C04.IsPyFloatRepr l) : l ≠ [] ∧ ∀ c ∈ l, c ∈ numChars := by
  have hd := fun {ds : Str} (h : C04.AsciiDigits ds) c hc => asciiDigit_numChar c (h c hc)
  cases h with
  | frac neg ds fs hn hne hds hfne hfs =>
    refine ⟨by simp [hne], fun c hc => ?_⟩
    simp only [List.mem_append, List.mem_cons] at hc
    rcases hc with (hc | hc) | rfl | hc
    · exact neg_numChars hn c hc
    · exact hd hds c hc
    · decide
    · exact hd hfs c hc
  | fracExp neg ds fs e hn hne hds hfne hfs he =>
    refine ⟨by simp [hne], fun c hc => ?_⟩
    simp only [List.mem_append, List.mem_cons] at hc
    rcases hc with ((hc | hc) | rfl | hc) | hc
    · exact neg_numChars hn c hc
    · exact hd hds c hc
    · decide
    · exact hd hfs c hc
    · exact pyExp_numChars he c hc
  | exp neg ds e hn hne hds he =>
    refine ⟨by simp [hne], fun c hc => ?_⟩
    simp only [List.mem_append] at hc
    rcases hc with (hc | hc) | hc
    · exact neg_numChars hn c hc
    · exact hd hds c hc
    · exact pyExp_numChars he c hc

/-! ### how scalars and keys are spelled -/

/-- the native writer spells a string bare, in single quotes, or in double quotes (no domain restriction) -/
theorem formatString_native_three (s : Str) :
    formatString .native s = s ∨ formatString .native s = sq s ∨ formatString .native s = dq s := by
  rw [C04.formatString_def]
  cases s.contains '$' <;> cases isReferenceString s <;> cases s.isEmpty <;> cases s.any isQuote <;>
    cases s.contains '"' <;> cases s.any isComplexChar <;> cases startsInclude s <;> simp

theorem writtenLit_str_bare {s : Str} (h : formatString .native s = s) : writtenLit .native (.str s) = .bare s := by
  simp [writtenLit, formatScalar, h]

theorem writtenLit_str_sq {s : Str} (h : formatString .native s = sq s) :
    writtenLit .native (.str s) = .quoted '\'' s := by
  have hne : (sq s == s) = false := by simpa using C04.sq_ne s
  simp only [writtenLit, formatScalar, h, hne]
  simp [sq]

theorem writtenLit_str_dq {s : Str} (h : formatString .native s = dq s) :
    writtenLit .native (.str s) = .quoted '"' s := by
  have hne : (dq s == s) = false := by simpa using C04.dq_ne s
  simp only [writtenLit, formatScalar, h, hne]
  simp [dq]

/-- the text of the written literal is what `format_value` produces — for every scalar -/
theorem writtenLit_text (x : Scalar) : (writtenLit .native x).tok.text = formatScalar .native x := by
  cases x with
  | str s =>
    rcases formatString_native_three s with h | h | h
    · rw [writtenLit_str_bare h]; simp [Lit.tok, STok.text, formatScalar, h]
    · rw [writtenLit_str_sq h]; simp [Lit.tok, STok.text, formatScalar, h, sq]
    · rw [writtenLit_str_dq h]; simp [Lit.tok, STok.text, formatScalar, h, dq]
  | int z => rfl
  | float l => rfl
  | bool b => rfl
  | none => rfl

theorem isDomStr_iff {s : Str} : isDomStr .native s = true ↔
    (∀ c ∈ s, isLineBreak c = false ∧ c ≠ '$') ∧
    isInfix ['/', '/'] s = false ∧ isInfix ['/', '*'] s = false ∧ isInfix kwLit s = false ∧ isInfix kwExpr s = false ∧
    isInfix "COMMENT".toList s = false ∧ isInfix "INCLUDE".toList s = false ∧
    ¬ (s.contains '\'' = true ∧ s.contains '"' = true) ∧
    (s.isEmpty = true ∨ s.any isQuote = true ∨ s.any isComplexChar = true ∨ isSrcWord s = true ∨ startsInclude s = true) := by
  simp only [isDomStr, Bool.and_eq_true, Bool.not_eq_true', Bool.or_eq_true, List.all_eq_true, bne_iff_ne, ne_eq,
    and_assoc, Bool.and_eq_false_iff, and_true, not_and, Bool.not_eq_true, or_assoc]
  constructor
  · rintro ⟨a, b, c, d, e, f, g, h, i⟩
    refine ⟨a, b, c, d, e, f, g, ?_, i⟩
    intro h1; rcases h with h | h
    · rw [h1] at h; cases h
    · exact h
  · rintro ⟨a, b, c, d, e, f, g, h, i⟩
    refine ⟨a, b, c, d, e, f, g, ?_, i⟩
    cases h1 : s.contains '\'' with
    | false => exact Or.inl rfl
    | true => exact Or.inr (h h1)

theorem domStr_no_dollar {s : Str} (h : isDomStr .native s = true) : s.contains '$' = false := by
  obtain ⟨h, _⟩ := isDomStr_iff.mp h
  cases hc : s.contains '$' with
  | false => rfl
  | true => exact absurd rfl (h _ (List.contains_iff_mem.mp hc)).2

theorem domStr_quoted {s : Str} {q : Char} (h : isDomStr .native s = true) (hq : isQuote q = true)
    (hn : s.contains q = false) : isSrcQuoted q s = true := by
  obtain ⟨a, b, c, d, e, f, g, _, _⟩ := isDomStr_iff.mp h
  simp only [isSrcQuoted, hq, hn, b, c, d, e, f, g, Bool.not_false, Bool.and_true, Bool.true_and, List.all_eq_true,
    Bool.and_eq_true, Bool.not_eq_true', bne_iff_ne, ne_eq]
  exact a

/-- the key identity: on the domain `format_key(k)` is `str(k)` -/
theorem formatKey_eq_keyStr {k : Key} (h : isDomKey k = true) : formatKey .native k = keyStr k := by
  cases k with
  | int z => rfl
  | str s =>
    simp only [isDomKey, Bool.and_eq_true, Bool.not_eq_true'] at h
    obtain ⟨hw, _, _, _, _, hch, _⟩ := isSrcWord_iff.mp h.1.1
    simp only [formatKey, keyStr]
    have hhash := (isSrcWord_iff.mp h.1.1).2.2.2.2.2.2.2.2
    refine C04.formatString_of_bare ⟨?_, ?_, ?_, startsInclude_of_head hhash⟩
    · intro hs; subst hs; simp [isWordTok] at hw
    · cases hc : s.contains '$' with
      | false => rfl
      | true => exact absurd rfl (hch _ (List.contains_iff_mem.mp hc)).2.1
    · refine (C04.all_plain_iff s).mpr ⟨?_, h.2⟩
      cases hq : s.any isQuote with
      | false => rfl
      | true =>
        obtain ⟨c, hc, hq⟩ := List.any_eq_true.mp hq
        rw [(hch c hc).1] at hq; cases hq

theorem domKey_word {k : Key} (h : isDomKey k = true) : isSrcWord (keyStr k) = true := by
  cases k with
  | int z => exact isSrcWord_intRepr z
  | str s =>
    simp only [isDomKey, Bool.and_eq_true] at h
    exact h.1.1

/-- keys type back to themselves -/
theorem domKey_types_back {k : Key} (h : isDomKey k = true) : keyOfScalar (parseKey (keyStr k)) = some k := by
  cases k with
  | int z =>
    have := C04.C04_format_parse_int .native z
    simp only [formatScalar] at this
    simp only [keyStr, parseKey, this, keyOfScalar]
  | str s =>
    simp only [isDomKey, Bool.and_eq_true, beq_iff_eq] at h
    simp only [keyStr, h.1.2, keyOfScalar]

/-! ### denotation of the written document, by structural induction -/

/-- leaves: the written literal means the normalised scalar -/
theorem den_writtenLit {x : Scalar} (h : isDomScalar .native x = true) : (writtenLit .native x).den = normScalar x := by
  cases x with
  | int z => exact C04.C04_format_parse_int .native z
  | float l => exact C04.C04_format_parse_float .native (pyFloatRepr_bridge h)
  | bool b => exact C04.C04_format_parse_bool (Or.inl rfl) b
  | none => exact C04.C04_format_parse_none (Or.inl rfl)
  | str s =>
    have h : isDomStr .native s = true := h
    rcases C04.formatString_native_cases (domStr_no_dollar h) with ⟨hf, _, hall, _⟩ | ⟨hf, _⟩ | ⟨hf, _⟩
    · rw [writtenLit_str_bare hf]
      obtain ⟨hq, _⟩ := (C04.all_plain_iff s).mp hall
      have hq' : ∀ c ∈ s, isQuote c = false := fun c hc => by
        cases hqc : isQuote c with
        | false => rfl
        | true => rw [List.any_eq_true.mpr ⟨c, hc, hqc⟩] at hq; cases hq
      simp only [Lit.den, normScalar]
      cases hp : parseValue s with
      | str t => rw [C04.C04_idem hp hq']
      | int z => rfl
      | float l => rfl
      | bool b => rfl
      | none => rfl
    · rw [writtenLit_str_sq hf]; rfl
    · rw [writtenLit_str_dq hf]; rfl

theorem keys_normEs : ∀ es : Entries, keys (normEs es) = keys es
  | [] => rfl
  | (k, v) :: es => by simp only [normEs, keys, List.map_cons, List.cons.injEq, true_and]; exact keys_normEs es

mutual
  theorem den_srcOfV : ∀ (d : Nat) (v : Val), domV .native d v = true → denSrcV (srcOfV .native v) = normV v
    | d, .leaf x, h => by
      simp only [domV, Bool.and_eq_true] at h
      simp only [srcOfV, denSrcV, normV, den_writtenLit h.1]
    | d, .dict es, h => by
      simp only [domV, Bool.and_eq_true, decide_eq_true_eq] at h
      simp only [srcOfV, denSrcV, normV]
      rw [den_srcOfEs (d + 1) es [] h.1 h.2 (fun _ _ hk => by cases hk)]
      rfl
    | d, .list xs, h => by
      simp only [domV] at h
      simp only [srcOfV, denSrcV, normV, den_srcOfXs (d + 1) xs h]
  theorem den_srcOfEs : ∀ (d : Nat) (es acc : Entries), domEs .native d es = true → (keys es).Nodup →
      (∀ k ∈ keys es, k ∉ keys acc) → denSrcEs (srcOfEs .native es) acc = acc ++ normEs es
    | _, [], acc, _, _, _ => by simp [srcOfEs, denSrcEs, normEs]
    | d, (k, v) :: es, acc, h, hn, hdis => by
      simp only [domEs, Bool.and_eq_true] at h
      simp only [keys, List.map_cons, List.nodup_cons] at hn
      simp only [srcOfEs, denSrcEs, domKey_types_back h.1.1, den_srcOfV d v h.1.2]
      have hk : k ∉ keys acc := hdis k (by simp [keys])
      rw [C07.setKey_of_not_mem k (normV v) acc hk]
      rw [den_srcOfEs d es (acc ++ [(k, normV v)]) h.2 hn.2]
      · simp [normEs]
      · intro k' hk' hmem
        simp only [keys, List.map_append, List.map_cons, List.map_nil, List.mem_append, List.mem_singleton] at hmem
        rcases hmem with hmem | rfl
        · exact hdis k' (by simp only [keys, List.map_cons, List.mem_cons]; exact Or.inr hk') hmem
        · exact hn.1 hk'
  theorem den_srcOfXs : ∀ (d : Nat) (xs : List Val), domXs .native d xs = true → denSrcXs (srcOfXs .native xs) = normXs xs
    | _, [], _ => by simp [srcOfXs, denSrcXs, normXs]
    | d, v :: xs, h => by
      simp only [domXs, Bool.and_eq_true] at h
      simp only [srcOfXs, denSrcXs, normXs, den_srcOfV d v h.1, den_srcOfXs d xs h.2]
end

/-! ### layouts as lists of (gap, token) pairs -/

/-- the text of a layout: every token preceded by its gap, `tail` at the end -/
def layP : List (Str × STok) → Str → Str
  | [], tail => tail
  | (g, t) :: l, tail => g ++ t.text ++ layP l tail

/-- admissibility of a layout; `pd` = "the token in front (if any) is a delimiter, or there is none" -/
def okFrom (pd : Bool) : List (Str × STok) → Bool
  | [] => true
  | (g, t) :: l => g.all isWs && (pd || isDelimSTok t || !g.isEmpty) && okFrom (isDelimSTok t) l

/-- is the last token a delimiter (`pd` when there is no token) -/
def lastDelim (pd : Bool) : List STok → Bool
  | [] => pd
  | t :: ts => lastDelim (isDelimSTok t) ts

/-- pair tokens with gaps exactly as `spread` does (missing gaps are empty) -/
def pairUp : List STok → List Str → List (Str × STok)
  | [], _ => []
  | t :: ts, g :: gs => (g, t) :: pairUp ts gs
  | t :: ts, [] => ([], t) :: pairUp ts []

theorem pairUp_toks : ∀ (ts : List STok) (gs : List Str), (pairUp ts gs).map Prod.snd = ts
  | [], _ => rfl
  | t :: ts, g :: gs => by simp [pairUp, pairUp_toks ts gs]
  | t :: ts, [] => by simp [pairUp, pairUp_toks ts []]

theorem spreadS_pairUp : ∀ (ts : List STok) (gs : List Str) (tail : Str), spreadS ts gs tail = layP (pairUp ts gs) tail
  | [], _, _ => by simp [spreadS, spread, pairUp, layP]
  | t :: ts, g :: gs, tail => by
    have := spreadS_pairUp ts gs tail
    simp only [spreadS] at this
    simp [spreadS, spread, pairUp, layP, this]
  | t :: ts, [], tail => by
    have := spreadS_pairUp ts [] tail
    simp only [spreadS] at this
    simp [spreadS, spread, pairUp, layP, this]

theorem spreadS_of_pairs : ∀ (l : List (Str × STok)) (tail : Str),
    spreadS (l.map Prod.snd) (l.map Prod.fst) tail = layP l tail
  | [], _ => by simp [spreadS, spread, layP]
  | (g, t) :: l, tail => by
    have := spreadS_of_pairs l tail
    simp only [spreadS] at this
    show spread (t.text :: (l.map Prod.snd).map STok.text) (g :: l.map Prod.fst) tail = _
    simp only [spread, layP, this, List.append_assoc]

theorem okFrom_mono {pd : Bool} : ∀ {l : List (Str × STok)}, okFrom false l = true → okFrom pd l = true
  | [], _ => rfl
  | (g, t) :: l, h => by
    simp only [okFrom, Bool.and_eq_true, Bool.or_eq_true, Bool.false_or] at h ⊢
    refine ⟨⟨h.1.1, ?_⟩, h.2⟩
    rcases h.1.2 with h1 | h1
    · exact Or.inl (Or.inr h1)
    · exact Or.inr h1

theorem gapsOKS_of_okFrom : ∀ (l : List (Str × STok)) (pd : Bool), okFrom pd l = true →
    GapsOKS (l.map Prod.snd) (l.map Prod.fst) = true
  | [], _, _ => rfl
  | [(g, t)], pd, h => by
    simp only [okFrom, Bool.and_eq_true] at h
    simpa [GapsOKS] using h.1.1
  | (g, t) :: (g', u) :: l, pd, h => by
    have ih := gapsOKS_of_okFrom ((g', u) :: l) (isDelimSTok t)
    simp only [okFrom, Bool.and_eq_true, Bool.or_eq_true] at h ih
    simp only [List.map_cons, GapsOKS, Bool.and_eq_true, Bool.or_eq_true]
    refine ⟨⟨h.1.1, ?_⟩, ih h.2⟩
    rcases h.2.1.2 with (h1 | h1) | h1
    · exact Or.inl (Or.inl h1)
    · exact Or.inl (Or.inr h1)
    · exact Or.inr h1

theorem okFrom_of_gapsOKS : ∀ (ts : List STok) (gs : List Str), GapsOKS ts gs = true → okFrom true (pairUp ts gs) = true
  | [], _, _ => rfl
  | [t], [], _ => by simp [pairUp, okFrom]
  | [t], g :: gs, h => by
    simp only [GapsOKS] at h
    simp [pairUp, okFrom, h]
  | t :: u :: ts, [], h => by simp [GapsOKS] at h
  | t :: u :: ts, [g], h => by simp [GapsOKS] at h
  | t :: u :: ts, g :: g' :: gs, h => by
    simp only [GapsOKS, Bool.and_eq_true, Bool.or_eq_true] at h
    have ih := okFrom_of_gapsOKS (u :: ts) (g' :: gs) h.2
    simp only [pairUp, okFrom, Bool.and_eq_true, Bool.or_eq_true, Bool.true_or, and_true] at ih ⊢
    exact ⟨h.1.1, ⟨ih.1, h.1.2⟩, ih.2⟩

theorem layP_tail : ∀ (l : List (Str × STok)) (tail : Str), layP l tail = layP l [] ++ tail
  | [], _ => rfl
  | (g, t) :: l, tail => by simp only [layP, layP_tail l tail, List.append_assoc]

theorem layP_append (l1 l2 : List (Str × STok)) (tail : Str) : layP (l1 ++ l2) tail = layP l1 [] ++ layP l2 tail := by
  induction l1 with
  | nil => rfl
  | cons p l1 ih => obtain ⟨g, t⟩ := p; simp only [List.cons_append, layP, ih, List.append_assoc]

theorem lastDelim_append (pd : Bool) (ts us : List STok) : lastDelim pd (ts ++ us) = lastDelim (lastDelim pd ts) us := by
  induction ts generalizing pd with
  | nil => rfl
  | cons t ts ih => simp only [List.cons_append, lastDelim, ih]

theorem okFrom_append (pd : Bool) (l1 l2 : List (Str × STok)) :
    okFrom pd (l1 ++ l2) = (okFrom pd l1 && okFrom (lastDelim pd (l1.map Prod.snd)) l2) := by
  induction l1 generalizing pd with
  | nil => simp [okFrom, lastDelim]
  | cons p l1 ih => obtain ⟨g, t⟩ := p; simp only [List.cons_append, okFrom, ih, List.map_cons, lastDelim, Bool.and_assoc]

/-- `txt` is an admissible layout of the tokens `ts` (given what stands in front: `pd`) -/
def Lays (pd : Bool) (ts : List STok) (txt : Str) : Prop :=
  ∃ l tail, l.map Prod.snd = ts ∧ txt = layP l tail ∧ okFrom pd l = true ∧ tail.all isWs = true

theorem Lays.ws (pd : Bool) {tail : Str} (h : tail.all isWs = true) : Lays pd [] tail :=
  ⟨[], tail, rfl, rfl, rfl, h⟩

theorem Lays.tok (pd : Bool) {g tail : Str} (t : STok) (hg : g.all isWs = true) (ht : tail.all isWs = true)
    (hsep : pd = true ∨ isDelimSTok t = true ∨ g ≠ []) : Lays pd [t] (g ++ t.text ++ tail) := by
  refine ⟨[(g, t)], tail, rfl, rfl, ?_, ht⟩
  simp only [okFrom, Bool.and_eq_true, Bool.or_eq_true, Bool.not_eq_true', and_true]
  refine ⟨hg, ?_⟩
  rcases hsep with h | h | h
  · exact Or.inl (Or.inl h)
  · exact Or.inl (Or.inr h)
  · exact Or.inr (by simpa using h)

theorem Lays.mono {pd : Bool} {ts : List STok} {txt : Str} (h : Lays false ts txt) : Lays pd ts txt := by
  obtain ⟨l, tail, h1, h2, h3, h4⟩ := h
  exact ⟨l, tail, h1, h2, okFrom_mono h3, h4⟩

/-- concatenation: the tail of the first text joins the first gap of the second -/
theorem Lays.append {pd pd' : Bool} {ts us : List STok} {a b : Str} (ha : Lays pd ts a) (hb : Lays pd' us b)
    (hsep : pd' = true → lastDelim pd ts = true) : Lays pd (ts ++ us) (a ++ b) := by
  obtain ⟨l1, tail1, rfl, rfl, ok1, ht1⟩ := ha
  obtain ⟨l2, tail2, rfl, rfl, ok2, ht2⟩ := hb
  cases l2 with
  | nil =>
    refine ⟨l1, tail1 ++ tail2, by simp, ?_, ok1, by simp [ht1, ht2]⟩
    rw [layP_tail l1 tail1, layP_tail l1 (tail1 ++ tail2)]
    simp [layP]
  | cons p l2 =>
    obtain ⟨g, t⟩ := p
    refine ⟨l1 ++ (tail1 ++ g, t) :: l2, tail2, by simp, ?_, ?_, ht2⟩
    · rw [layP_append, layP_tail l1 tail1]
      simp [layP]
    · rw [okFrom_append, ok1, Bool.true_and]
      simp only [okFrom, Bool.and_eq_true, Bool.or_eq_true, Bool.not_eq_true', List.all_append] at ok2 ⊢
      refine ⟨⟨⟨ht1, ok2.1.1⟩, ?_⟩, ok2.2⟩
      rcases ok2.1.2 with (h | h) | h
      · exact Or.inl (Or.inl (hsep h))
      · exact Or.inl (Or.inr h)
      · refine Or.inr ?_
        have : g ≠ [] := by simpa using h
        cases tail1 <;> simp_all

theorem Lays.to_spread {ts : List STok} {txt : Str} (h : Lays true ts txt) :
    ∃ gaps tail, txt = spreadS ts gaps tail ∧ GapsOKS ts gaps = true ∧ tail.all isWs = true := by
  obtain ⟨l, tail, rfl, rfl, ok, ht⟩ := h
  exact ⟨l.map Prod.fst, tail, (spreadS_of_pairs l tail).symm, gapsOKS_of_okFrom l true ok, ht⟩

theorem spaces_ws (n : Nat) : (spaces n).all isWs = true := by
  simp only [spaces, List.all_eq_true, List.mem_replicate]
  rintro c ⟨_, rfl⟩; decide

theorem spaces_ne {n : Nat} (h : 0 < n) : spaces n ≠ [] := by
  cases n with
  | zero => omega
  | succ n => simp [spaces, List.replicate_succ]

/-! ### the writer's lines as layouts, by structural induction -/

theorem isWs_nl : isWs '\n' = true := by decide
theorem text_word (w : Str) : (STok.word w).text = w := rfl
theorem nl_ws : (['\n'] : Str).all isWs = true := by decide
theorem nil_ws : ([] : Str).all isWs = true := rfl

theorem delim_facts : isDelimSTok (.word ['{']) = true ∧ isDelimSTok (.word ['}']) = true ∧
    isDelimSTok (.word ['(']) = true ∧ isDelimSTok (.word [')']) = true ∧ isDelimSTok (.word [';']) = true := by decide

/-- a line holding one token -/
theorem lays_line (pd : Bool) (level : Nat) (t : STok) (h : pd = true ∨ isDelimSTok t = true ∨ 0 < level) :
    Lays pd [t] (fline level t.text) := by
  have := Lays.tok pd (g := spaces (4 * level)) (tail := ['\n']) t (spaces_ws _) nl_ws
    (by rcases h with h | h | h
        · exact Or.inl h
        · exact Or.inr (Or.inl h)
        · exact Or.inr (Or.inr (spaces_ne (by omega))))
  simpa [fline] using this

theorem entries_lastDelim : ∀ (es : Entries), lastDelim true (srcToksEs (srcOfEs .native es)) = true
  | [] => rfl
  | (k, .leaf x) :: es => by
    have := entries_lastDelim es
    simp only [srcOfEs, srcOfV, srcToksEs]
    rw [show ∀ (a b c : STok) l, a :: b :: c :: l = [a, b, c] ++ l from fun _ _ _ _ => rfl, lastDelim_append]
    simpa [lastDelim, delim_facts] using this
  | (k, .dict d) :: es => by
    have := entries_lastDelim es
    simp only [srcOfEs, srcOfV, srcToksEs]
    rw [show ∀ (a b : STok) l m n, a :: b :: l ++ m ++ n = (a :: b :: l ++ m) ++ n from fun _ _ _ _ _ => by simp,
      lastDelim_append, show ∀ (a b : STok) l m, a :: b :: l ++ m = (a :: b :: l) ++ m from fun _ _ _ _ => by simp,
      lastDelim_append]
    simpa [lastDelim, delim_facts] using this
  | (k, .list l) :: es => by
    have := entries_lastDelim es
    simp only [srcOfEs, srcOfV, srcToksEs]
    rw [show ∀ (a b : STok) l m n, a :: b :: l ++ m ++ n = (a :: b :: l ++ m) ++ n from fun _ _ _ _ _ => by simp,
      lastDelim_append, show ∀ (a b : STok) l m, a :: b :: l ++ m = (a :: b :: l) ++ m from fun _ _ _ _ => by simp,
      lastDelim_append]
    simpa [lastDelim, delim_facts] using this

/-- a list, given its items -/
theorem lays_list {toks : List STok} (pd : Bool) (level : Nat) (inList : Bool) (xs : List Val)
    (h : Lays false toks (fmtItems .native level xs.length 0 true xs)) :
    Lays pd (.word ['('] :: toks ++ (if inList then [.word [')']] else [.word [')'], .word [';']]))
      (fmtList .native level inList xs) := by
  have h1 := lays_line pd level (.word ['(']) (Or.inr (Or.inl delim_facts.2.2.1))
  have h2 := h1.append h (fun h => by cases h)
  rw [fmtList]
  cases inList with
  | true =>
    have h3 := h2.append (lays_line false level (.word [')']) (Or.inr (Or.inl delim_facts.2.2.2.1))) (fun h => by cases h)
    simpa [STok.text] using h3
  | false =>
    have h3 := Lays.tok false (g := spaces (4 * level)) (tail := []) (.word [')']) (spaces_ws _) nil_ws
      (Or.inr (Or.inl delim_facts.2.2.2.1))
    have h4 := Lays.tok false (g := []) (tail := ['\n']) (.word [';']) nil_ws nl_ws
      (Or.inr (Or.inl delim_facts.2.2.2.2))
    have h5 := (h2.append h3 (fun h => by cases h)).append h4 (fun h => by cases h)
    simpa [STok.text, fline] using h5

mutual
  theorem lays_items : ∀ (d level n idx : Nat) (first : Bool) (xs : List Val), domXs .native d xs = true →
      Lays false (srcToksXs (srcOfXs .native xs)) (fmtItems .native level n idx first xs)
    | _, _, _, _, _, [], _ => by
      simp only [srcOfXs, srcToksXs, fmtItems]
      exact Lays.ws false nil_ws
    | d, level, n, idx, first, .list ys :: rest, h => by
      simp only [domXs, domV, Bool.and_eq_true] at h
      have h1 := lays_list false (level + 1) true ys (lays_items (d + 1) (level + 1) ys.length 0 true ys h.1)
      have h2 := h1.append (lays_items d level n (idx + 1) first rest h.2) (fun h => by cases h)
      simpa [srcOfXs, srcOfV, srcToksXs, srcToksV, fmtItems] using h2
    | d, level, n, idx, first, .dict es :: rest, h => by
      simp only [domXs, domV, Bool.and_eq_true] at h
      have h0 : Lays false [] (fline (level + 1) []) := Lays.ws false (by simp [fline, spaces_ws, isWs_nl])
      have h1 := lays_line false (level + 1) (.word ['{']) (Or.inr (Or.inl delim_facts.1))
      have h2 := lays_entries (d + 1) (level + 2) es h.1.1
      have h3 := lays_line false (level + 1) (.word ['}']) (Or.inr (Or.inl delim_facts.2.1))
      have h4 := lays_items d level n (idx + 1) true rest h.2
      have h5 := (((h0.append h1 (fun h => by cases h)).append h2 (fun _ => by simp [lastDelim, delim_facts])).append h3
        (fun h => by cases h)).append h4 (fun h => by cases h)
      simpa [srcOfXs, srcOfV, srcToksXs, srcToksV, fmtItems, text_word] using h5
    | d, level, n, idx, first, .leaf x :: rest, h => by
      simp only [domXs, Bool.and_eq_true] at h
      simp only [srcOfXs, srcOfV, srcToksXs, srcToksV, fmtItems]
      have hlev : 0 < (if first = true then level + 1 else 1) := by split <;> omega
      split
      · have h1 := lays_line false (if first = true then level + 1 else 1) (writtenLit .native x).tok (Or.inr (Or.inr hlev))
        have h2 := h1.append (lays_items d level n (idx + 1) true rest h.2) (fun h => by cases h)
        simpa [writtenLit_text] using h2
      · have h1 := Lays.tok false (g := spaces (4 * (if first = true then level + 1 else 1)))
          (tail := spaces (14 - (formatScalar .native x).length)) (writtenLit .native x).tok (spaces_ws _) (spaces_ws _)
          (Or.inr (Or.inr (spaces_ne (by omega))))
        have h2 := h1.append (lays_items d level n (idx + 1) false rest h.2) (fun h => by cases h)
        simpa [writtenLit_text, fline] using h2
  theorem lays_entries : ∀ (d level : Nat) (es : Entries), domEs .native d es = true →
      Lays true (srcToksEs (srcOfEs .native es)) (fmtEntries .native level es)
    | _, _, [], _ => by
      simp only [srcOfEs, srcToksEs, fmtEntries]
      exact Lays.ws true nil_ws
    | d, level, (k, .dict es) :: rest, h => by
      simp only [domEs, domV, Bool.and_eq_true] at h
      have h0 := lays_line true level (.word (keyStr k)) (Or.inl rfl)
      have h1 := lays_line false level (.word ['{']) (Or.inr (Or.inl delim_facts.1))
      have h2 := lays_entries (d + 1) (level + 1) es h.1.2.1
      have h3 := lays_line false level (.word ['}']) (Or.inr (Or.inl delim_facts.2.1))
      have h4 := lays_entries d level rest h.2
      have h5 := (((h0.append h1 (fun h => by cases h)).append h2 (fun _ => by simp [lastDelim, delim_facts])).append h3
        (fun h => by cases h)).append h4 (fun _ => by simp [lastDelim_append, lastDelim, delim_facts])
      simpa [srcOfEs, srcOfV, srcToksEs, fmtEntries, text_word] using h5
    | d, level, (k, .list xs) :: rest, h => by
      simp only [domEs, domV, Bool.and_eq_true] at h
      have h0 := lays_line true level (.word (keyStr k)) (Or.inl rfl)
      have h1 := lays_list false level false xs (lays_items (d + 1) level xs.length 0 true xs h.1.2)
      have h4 := lays_entries d level rest h.2
      have h5 := (h0.append h1 (fun h => by cases h)).append h4 (fun _ => by simp [lastDelim_append, lastDelim, delim_facts])
      simpa [srcOfEs, srcOfV, srcToksEs, fmtEntries, text_word] using h5
    | d, level, (k, .leaf x) :: rest, h => by
      simp only [domEs, Bool.and_eq_true] at h
      have h0 := Lays.tok true (g := spaces (4 * level)) (tail := []) (.word (keyStr k)) (spaces_ws _) nil_ws (Or.inl rfl)
      have h1 := Lays.tok false (g := spaces (max 8 (30 - (keyStr k).length - 4 * level))) (tail := [])
        (writtenLit .native x).tok (spaces_ws _) nil_ws (Or.inr (Or.inr (spaces_ne (by omega))))
      have h2 := Lays.tok false (g := []) (tail := ['\n']) (.word [';']) nil_ws nl_ws (Or.inr (Or.inl delim_facts.2.2.2.2))
      have h4 := lays_entries d level rest h.2
      have h5 := ((h0.append h1 (fun h => by cases h)).append h2 (fun h => by cases h)).append h4
        (fun _ => by simp [lastDelim, delim_facts])
      simpa [srcOfEs, srcOfV, srcToksEs, fmtEntries, text_word, fline, writtenLit_text, formatKey_eq_keyStr h.1.1] using h5
end

/-! ### trailing-space removal, character by character -/

theorem dropWhile_append_stop {α} (p : α → Bool) {z : α} (hz : p z = false) (y : List α) :
    ∀ x : List α, (x ++ z :: y).dropWhile p = x.dropWhile p ++ z :: y
  | [] => by simp [hz]
  | d :: x => by
    simp only [List.cons_append, List.dropWhile_cons]
    split
    · exact dropWhile_append_stop p hz y x
    · rfl

theorem rstripWs_append_nonws (a b : Str) {z : Char} (hz : isWs z = false) :
    rstripWs (a ++ z :: b) = a ++ z :: rstripWs b := by
  simp only [rstripWs, List.reverse_append, List.reverse_cons, List.append_assoc, List.singleton_append]
  rw [dropWhile_append_stop isWs hz]
  simp

theorem dropWhile_all {α} (p : α → Bool) : ∀ l : List α, (∀ x ∈ l, p x = true) → l.dropWhile p = []
  | [], _ => rfl
  | x :: l, h => by
    rw [List.dropWhile_cons, if_pos (h x List.mem_cons_self)]
    exact dropWhile_all p l (fun y hy => h y (List.mem_cons_of_mem _ hy))

theorem rstripWs_ws {b : Str} (h : b.all isWs = true) : rstripWs b = [] := by
  have : b.reverse.dropWhile isWs = [] :=
    dropWhile_all isWs _ fun c hc => List.all_eq_true.mp h c (List.mem_reverse.mp hc)
  simp [rstripWs, this]

theorem split_of_not_all {p : Char → Bool} {l : Str} (h : l.all p = false) : ∃ a z b, l = a ++ z :: b ∧ p z = false := by
  have : ∃ z ∈ l, p z = false := by
    simpa using h
  obtain ⟨z, hz, hp⟩ := this
  obtain ⟨a, b, rfl⟩ := List.append_of_mem hz
  exact ⟨a, z, b, rfl, hp⟩

theorem rstripWs_cons (c : Char) (h : Str) :
    rstripWs (c :: h) = if (isWs c && h.all isWs) = true then [] else c :: rstripWs h := by
  cases hall : h.all isWs with
  | true =>
    cases hc : isWs c with
    | true => simp only [Bool.and_self, if_true]; exact rstripWs_ws (by simp [hc, hall])
    | false => simpa using rstripWs_append_nonws [] h hc
  | false =>
    obtain ⟨a, z, b, rfl, hz⟩ := split_of_not_all hall
    simp only [Bool.and_false, Bool.false_eq_true, if_false]
    rw [rstripWs_append_nonws a b hz]
    exact rstripWs_append_nonws (c :: a) b hz

theorem splitNl_ne : ∀ s : Str, ∃ h rest, splitNl s = h :: rest
  | [] => ⟨[], [], rfl⟩
  | c :: r => by
    obtain ⟨h, rest, e⟩ := splitNl_ne r
    by_cases hc : c = '\n'
    · subst hc; exact ⟨[], splitNl r, by rw [splitNl]⟩
    · refine ⟨c :: h, rest, ?_⟩
      rw [splitNl, e]
      exact hc

theorem splitNl_cons {c : Char} (hc : c ≠ '\n') {r h : Str} {rest : List Str} (e : splitNl r = h :: rest) :
    splitNl (c :: r) = (c :: h) :: rest := by
  rw [splitNl, e]; exact hc

/-- `remove_trailing_spaces` after the newline translation -/
def rts (s : Str) : Str := ['\n'].intercalate ((splitNl s).map rstripWs)

theorem removeTrailingSpaces_eq (s : Str) : removeTrailingSpaces s = rts (universalNl s) := rfl

/-- the first line consists of white space only -/
def blankHead (s : Str) : Bool := match splitNl s with | h :: _ => h.all isWs | [] => true

theorem rts_nil : rts [] = [] := by simp [rts, splitNl, rstripWs, List.intercalate]

theorem rts_nl (s : Str) : rts ('\n' :: s) = '\n' :: rts s := by
  obtain ⟨h, rest, e⟩ := splitNl_ne s
  have : splitNl ('\n' :: s) = [] :: splitNl s := by rw [splitNl]
  simp [rts, this, e, rstripWs, List.intercalate]

theorem rts_cons {c : Char} (hc : c ≠ '\n') (s : Str) :
    rts (c :: s) = if (isWs c && blankHead s) = true then rts s else c :: rts s := by
  obtain ⟨h, rest, e⟩ := splitNl_ne s
  simp only [rts, blankHead, splitNl_cons hc e, e, List.map_cons, rstripWs_cons]
  cases rest with
  | nil =>
    split
    · next hh =>
      simp only [Bool.and_eq_true] at hh
      simp [List.intercalate, rstripWs_ws hh.2]
    · simp [List.intercalate]
  | cons h2 rest =>
    split
    · next hh =>
      simp only [Bool.and_eq_true] at hh
      simp [List.intercalate, rstripWs_ws hh.2]
    · simp [List.intercalate]

theorem blankHead_cons {c : Char} (hc : c ≠ '\n') (s : Str) : blankHead (c :: s) = (isWs c && blankHead s) := by
  obtain ⟨h, rest, e⟩ := splitNl_ne s
  simp [blankHead, splitNl_cons hc e, e]

theorem ne_nl_of_not_ws {c : Char} (h : isWs c = false) : c ≠ '\n' := by
  rintro rfl; rw [isWs_nl] at h; cases h

/-- a run of characters without line feed that ends in a non-blank survives as it is -/
theorem rts_solid {z : Char} (hz : isWs z = false) (s : Str) : ∀ a : Str, (∀ c ∈ a, c ≠ '\n') →
    blankHead (a ++ z :: s) = false ∧ rts (a ++ z :: s) = a ++ z :: rts s
  | [], _ => by
    simp only [List.nil_append]
    rw [blankHead_cons (ne_nl_of_not_ws hz), rts_cons (ne_nl_of_not_ws hz), hz]
    simp
  | c :: a, h => by
    have ih := rts_solid hz s a (fun x hx => h x (List.mem_cons_of_mem _ hx))
    have hc : c ≠ '\n' := h c List.mem_cons_self
    simp only [List.cons_append]
    rw [blankHead_cons hc, rts_cons hc, ih.1, ih.2]
    simp

/-- a gap in front of something solid stays a gap, and stays non-empty -/
theorem rts_gap {s : Str} (hs : blankHead s = false) : ∀ g : Str, g.all isWs = true →
    ∃ g', g'.all isWs = true ∧ (g ≠ [] → g' ≠ []) ∧ rts (g ++ s) = g' ++ rts s
  | [], _ => ⟨[], rfl, fun h => h, rfl⟩
  | c :: g, h => by
    simp only [List.all_cons, Bool.and_eq_true] at h
    obtain ⟨g', hg', hne, e⟩ := rts_gap hs g h.2
    by_cases hc : c = '\n'
    · subst hc
      exact ⟨'\n' :: g', by simp [hg', isWs_nl], fun _ => by simp, by simp [rts_nl, e]⟩
    · simp only [List.cons_append]
      rw [rts_cons hc, e]
      split
      · next hb =>
        simp only [Bool.and_eq_true] at hb
        refine ⟨g', hg', fun _ => hne ?_, rfl⟩
        rintro rfl
        rw [List.nil_append, hs] at hb
        exact absurd hb.2 (by simp)
      · exact ⟨c :: g', by simp [hg', h.1], fun _ => by simp, rfl⟩

theorem rts_ws : ∀ w : Str, w.all isWs = true → (rts w).all isWs = true
  | [], _ => by simp [rts_nil]
  | c :: w, h => by
    simp only [List.all_cons, Bool.and_eq_true] at h
    have ih := rts_ws w h.2
    by_cases hc : c = '\n'
    · subst hc; simp [rts_nl, ih, isWs_nl]
    · rw [rts_cons hc]
      split
      · exact ih
      · simp [ih, h.1]

/-- a token text the line-wise processing cannot hurt: non-empty, ends in a non-blank, holds no `\n` / `\r` -/
def TokGood (t : STok) : Prop :=
  ∃ a z, t.text = a ++ [z] ∧ isWs z = false ∧ ∀ c ∈ t.text, c ≠ '\n' ∧ c ≠ '\r'

theorem rts_layP : ∀ (l : List (Str × STok)) (pd : Bool) (tail : Str), okFrom pd l = true →
    (∀ p ∈ l, TokGood p.2) → tail.all isWs = true →
    ∃ l' tail', rts (layP l tail) = layP l' tail' ∧ l'.map Prod.snd = l.map Prod.snd ∧ okFrom pd l' = true ∧
      tail'.all isWs = true
  | [], _, tail, _, _, ht => ⟨[], rts tail, rfl, rfl, rfl, rts_ws tail ht⟩
  | (g, t) :: l, pd, tail, ok, hgood, ht => by
    simp only [okFrom, Bool.and_eq_true] at ok
    obtain ⟨l', tail', e, hm, ok', ht'⟩ := rts_layP l (isDelimSTok t) tail ok.2
      (fun p hp => hgood p (List.mem_cons_of_mem _ hp)) ht
    obtain ⟨a, z, htx, hz, hch⟩ := hgood (g, t) List.mem_cons_self
    have ha : ∀ c ∈ a, c ≠ '\n' := fun c hc => (hch c (by rw [htx]; simp [hc])).1
    have hsolid := rts_solid hz (layP l tail) a ha
    obtain ⟨g', hg', hne, eg⟩ := rts_gap hsolid.1 g ok.1.1
    refine ⟨(g', t) :: l', tail', ?_, by simp [hm], ?_, ht'⟩
    · simp only [layP, htx, List.append_assoc, List.singleton_append]
      rw [eg, hsolid.2, e]
    · simp only [okFrom, Bool.and_eq_true, ok', hg', and_true, true_and]
      have := ok.1.2
      simp only [Bool.or_eq_true, Bool.not_eq_true'] at this ⊢
      rcases this with h | h
      · exact Or.inl h
      · exact Or.inr (by simpa using hne (by simpa using h))

/-! #### the newline translation -/

theorem universalNl_cons {c : Char} (hc : c ≠ '\r') (s : Str) : universalNl (c :: s) = c :: universalNl s := by
  rw [universalNl]
  all_goals first | exact hc | (intro r h; exact absurd h hc)

theorem universalNl_cr {s : Str} (hs : s.head? ≠ some '\n') : universalNl ('\r' :: s) = '\n' :: universalNl s := by
  rw [universalNl]
  rintro r rfl
  simp at hs

theorem universalNl_append {s : Str} (hs : s.head? ≠ some '\n') : ∀ g : Str,
    universalNl (g ++ s) = universalNl g ++ universalNl s := by
  intro g
  induction g using universalNl.induct with
  | case1 => rfl
  | case2 r ih => simp only [List.cons_append, universalNl, ih]
  | case3 r hr ih =>
    have h1 : (r ++ s).head? ≠ some '\n' := by
      cases r with
      | nil => simpa using hs
      | cons c r => simp only [List.cons_append, List.head?_cons, ne_eq, Option.some.injEq]; rintro rfl; exact hr _ rfl
    have h2 : r.head? ≠ some '\n' := by
      cases r with
      | nil => simp
      | cons c r => simp only [List.head?_cons, ne_eq, Option.some.injEq]; rintro rfl; exact hr _ rfl
    simp only [List.cons_append, universalNl_cr h1, universalNl_cr h2, ih]
  | case4 c r _ hc' ih =>
    simp only [List.cons_append, universalNl_cons hc', ih]

theorem universalNl_solid (s : Str) : ∀ t : Str, (∀ c ∈ t, c ≠ '\r') → universalNl (t ++ s) = t ++ universalNl s
  | [], _ => rfl
  | c :: t, h => by
    simp only [List.cons_append]
    rw [universalNl_cons (h c List.mem_cons_self), universalNl_solid s t (fun x hx => h x (List.mem_cons_of_mem _ hx))]

theorem universalNl_ws (g : Str) : g.all isWs = true → (universalNl g).all isWs = true ∧ (g ≠ [] → universalNl g ≠ []) := by
  induction g using universalNl.induct with
  | case1 => intro _; exact ⟨rfl, fun h => h⟩
  | case2 r ih =>
    intro h
    simp only [List.all_cons, Bool.and_eq_true] at h
    simp [universalNl, (ih h.2.2).1, isWs_nl]
  | case3 r hr ih =>
    intro h
    simp only [List.all_cons, Bool.and_eq_true] at h
    have h2 : r.head? ≠ some '\n' := by
      cases r with
      | nil => simp
      | cons c r => simp only [List.head?_cons, ne_eq, Option.some.injEq]; rintro rfl; exact hr _ rfl
    simp [universalNl_cr h2, (ih h.2).1, isWs_nl]
  | case4 c r _ hc' ih =>
    intro h
    simp only [List.all_cons, Bool.and_eq_true] at h
    simp [universalNl_cons hc', (ih h.2).1, h.1]

theorem universalNl_layP : ∀ (l : List (Str × STok)) (pd : Bool) (tail : Str), okFrom pd l = true →
    (∀ p ∈ l, TokGood p.2) → tail.all isWs = true →
    ∃ l' tail', universalNl (layP l tail) = layP l' tail' ∧ l'.map Prod.snd = l.map Prod.snd ∧ okFrom pd l' = true ∧
      tail'.all isWs = true
  | [], _, tail, _, _, ht => ⟨[], universalNl tail, rfl, rfl, rfl, (universalNl_ws tail ht).1⟩
  | (g, t) :: l, pd, tail, ok, hgood, ht => by
    simp only [okFrom, Bool.and_eq_true] at ok
    obtain ⟨l', tail', e, hm, ok', ht'⟩ := universalNl_layP l (isDelimSTok t) tail ok.2
      (fun p hp => hgood p (List.mem_cons_of_mem _ hp)) ht
    obtain ⟨a, z, htx, hz, hch⟩ := hgood (g, t) List.mem_cons_self
    have hhead : (t.text ++ layP l tail).head? ≠ some '\n' := by
      rw [htx]
      cases a with
      | nil =>
        simp only [List.nil_append, List.singleton_append, List.head?_cons, ne_eq, Option.some.injEq]
        exact ne_nl_of_not_ws hz
      | cons c a =>
        simp only [List.cons_append, List.head?_cons, ne_eq, Option.some.injEq]
        exact (hch c (by rw [htx]; simp)).1
    obtain ⟨hg', hne⟩ := universalNl_ws g ok.1.1
    refine ⟨(universalNl g, t) :: l', tail', ?_, by simp [hm], ?_, ht'⟩
    · simp only [layP, List.append_assoc]
      rw [universalNl_append hhead, universalNl_solid _ _ (fun c hc => (hch c hc).2), e]
    · simp only [okFrom, Bool.and_eq_true, ok', hg', and_true, true_and]
      have := ok.1.2
      simp only [Bool.or_eq_true, Bool.not_eq_true'] at this ⊢
      rcases this with h | h
      · exact Or.inl h
      · exact Or.inr (by simpa using hne (by simpa using h))

/-! ### tokens of a well-formed source document are "good" -/

theorem isWs_cr : isWs '\r' = true := by decide

theorem tokGood_word {w : Str} (hne : w ≠ []) (h : ∀ c ∈ w, isWs c = false) : TokGood (.word w) := by
  refine ⟨w.dropLast, w.getLast hne, (List.dropLast_concat_getLast hne).symm, h _ (List.getLast_mem hne), fun c hc => ?_⟩
  have := h c hc
  constructor
  · rintro rfl; rw [isWs_nl] at this; cases this
  · rintro rfl; rw [isWs_cr] at this; cases this

theorem tokGood_srcWord {w : Str} (h : isSrcWord w = true) : TokGood (.word w) := by
  have hw := (isSrcWord_iff.mp h).1
  simp only [isWordTok, Bool.and_eq_true, Bool.not_eq_true', List.all_eq_true] at hw
  exact tokGood_word (by simpa using hw.1.1) (fun c hc => (hw.1.2 c hc).1)

theorem quote_facts : ∀ q : Char, isQuote q = true → isWs q = false ∧ q ≠ '\n' ∧ q ≠ '\r' := by
  intro q hq
  simp only [isQuote, Bool.or_eq_true, beq_iff_eq] at hq
  rcases hq with rfl | rfl <;> decide

theorem tokGood_quoted {q : Char} {b : Str} (h : isSrcQuoted q b = true) : TokGood (.quoted q b) := by
  simp only [isSrcQuoted, Bool.and_eq_true, Bool.not_eq_true', List.all_eq_true, bne_iff_ne, ne_eq] at h
  obtain ⟨⟨⟨⟨⟨⟨⟨⟨hq, _⟩, hb⟩, _⟩, _⟩, _⟩, _⟩, _⟩, _⟩ := h
  obtain ⟨h1, h2, h3⟩ := quote_facts q hq
  refine ⟨q :: b, q, by simp [STok.text], h1, fun c hc => ?_⟩
  simp only [STok.text, List.mem_cons, List.mem_append, List.not_mem_nil, or_false] at hc
  rcases hc with (rfl | hc) | rfl
  · exact ⟨h2, h3⟩
  · have := (hb c hc).1
    constructor
    · rintro rfl; revert this; decide
    · rintro rfl; revert this; decide
  · exact ⟨h2, h3⟩

theorem tokGood_lit {l : Lit} (h : l.ok = true) : TokGood l.tok := by
  cases l with
  | bare w => exact tokGood_srcWord h
  | quoted q b => exact tokGood_quoted h

theorem tokGood_delims : TokGood (.word ['{']) ∧ TokGood (.word ['}']) ∧ TokGood (.word ['(']) ∧
    TokGood (.word [')']) ∧ TokGood (.word [';']) :=
  ⟨tokGood_word (by simp) (by decide), tokGood_word (by simp) (by decide), tokGood_word (by simp) (by decide),
    tokGood_word (by simp) (by decide), tokGood_word (by simp) (by decide)⟩

mutual
  theorem toksV_good : ∀ (d : Nat) (v : Src), SrcWFV d v = true → ∀ t ∈ srcToksV v, TokGood t
    | d, .lit l, h, t, ht => by
      simp only [SrcWFV, Bool.and_eq_true] at h
      simp only [srcToksV, List.mem_singleton] at ht
      subst ht; exact tokGood_lit h.1
    | d, .dict es, h, t, ht => by
      simp only [SrcWFV] at h
      simp only [srcToksV, List.mem_cons, List.mem_append, List.not_mem_nil, or_false] at ht
      rcases ht with (rfl | ht) | rfl
      · exact tokGood_delims.1
      · exact toksEs_good (d + 1) es h t ht
      · exact tokGood_delims.2.1
    | d, .list xs, h, t, ht => by
      simp only [SrcWFV] at h
      simp only [srcToksV, List.mem_cons, List.mem_append, List.not_mem_nil, or_false] at ht
      rcases ht with (rfl | ht) | rfl
      · exact tokGood_delims.2.2.1
      · exact toksXs_good (d + 1) xs h t ht
      · exact tokGood_delims.2.2.2.1
  theorem toksEs_good : ∀ (d : Nat) (es : SrcEntries), SrcWFEs d es = true → ∀ t ∈ srcToksEs es, TokGood t
    | _, [], _, t, ht => by simp [srcToksEs] at ht
    | d, (k, .lit l) :: es, h, t, ht => by
      simp only [SrcWFEs, SrcWFV, Bool.and_eq_true] at h
      simp only [srcToksEs, List.mem_cons] at ht
      rcases ht with rfl | rfl | rfl | ht
      · exact tokGood_srcWord h.1.1.1
      · exact tokGood_lit h.1.2.1
      · exact tokGood_delims.2.2.2.2
      · exact toksEs_good d es h.2 t ht
    | d, (k, .dict es') :: es, h, t, ht => by
      simp only [SrcWFEs, SrcWFV, Bool.and_eq_true] at h
      simp only [srcToksEs, List.mem_cons, List.mem_append, List.not_mem_nil, or_false] at ht
      rcases ht with ((rfl | rfl | ht) | rfl) | ht
      · exact tokGood_srcWord h.1.1.1
      · exact tokGood_delims.1
      · exact toksEs_good (d + 1) es' h.1.2 t ht
      · exact tokGood_delims.2.1
      · exact toksEs_good d es h.2 t ht
    | d, (k, .list xs) :: es, h, t, ht => by
      simp only [SrcWFEs, SrcWFV, Bool.and_eq_true] at h
      simp only [srcToksEs, List.mem_cons, List.mem_append, List.not_mem_nil, or_false] at ht
      rcases ht with ((rfl | rfl | ht) | rfl | rfl) | ht
      · exact tokGood_srcWord h.1.1.1
      · exact tokGood_delims.2.2.1
      · exact toksXs_good (d + 1) xs h.1.2 t ht
      · exact tokGood_delims.2.2.2.1
      · exact tokGood_delims.2.2.2.2
      · exact toksEs_good d es h.2 t ht
  theorem toksXs_good : ∀ (d : Nat) (xs : List Src), SrcWFXs d xs = true → ∀ t ∈ srcToksXs xs, TokGood t
    | _, [], _, t, ht => by simp [srcToksXs] at ht
    | d, v :: xs, h, t, ht => by
      simp only [SrcWFXs, Bool.and_eq_true] at h
      simp only [srcToksXs, List.mem_append] at ht
      rcases ht with ht | ht
      · exact toksV_good d v h.1 t ht
      · exact toksXs_good d xs h.2 t ht
end

/-! ## the property -/

/-! ### (1) no reordering on the domain -/

/-- (1) the writer's top-level reordering does nothing on the domain -/
theorem hoist_id {es : Entries} (h : DomC01 .native es = true) : hoistPlaceholders es = es := by
  simp only [DomC01, Bool.and_eq_true] at h
  have hk := domEs_keys h.1
  unfold hoistPlaceholders
  refine filter3_id _ _ es ?_ ?_
  · intro e he
    have := hk e he
    split
    · next s hs => rw [hs] at this; exact (domKey_not_ph this).1
    · rfl
  · intro e he
    have := hk e he
    split
    · next s hs => rw [hs] at this; exact (domKey_not_ph this).2
    · rfl

/-! ### (2) how scalars and keys are spelled; the written document is well formed -/

/-- (2a) the text of the written literal is what `format_value` produces — for every scalar, no domain needed -/
theorem written_text (x : Scalar) : (writtenLit .native x).tok.text = formatScalar .native x := writtenLit_text x

/-- (2b) on the domain the written literal is an admissible source literal -/
theorem written_ok {x : Scalar} (h : isDomScalar .native x = true) : (writtenLit .native x).ok = true := by
  cases x with
  | int z => exact isSrcWord_intRepr z
  | float l =>
    have := pyFloatRepr_numChars (pyFloatRepr_bridge h)
    exact isSrcWord_of_numChars this.1 this.2
  | bool b => cases b <;> decide
  | none => decide
  | str s =>
    have h : isDomStr .native s = true := h
    have hd := domStr_no_dollar h
    obtain ⟨_, _, _, _, _, _, _, hboth, hlast⟩ := isDomStr_iff.mp h
    rcases C04.formatString_native_cases hd with ⟨hf, hne, hall, hinc⟩ | ⟨hf, hc⟩ | ⟨hf, _, hc⟩
    · rw [writtenLit_str_bare hf]
      obtain ⟨hq, hcx⟩ := (C04.all_plain_iff s).mp hall
      rcases hlast with h1 | h1 | h1 | h1 | h1
      · exact absurd (by simpa using h1) hne
      · rw [hq] at h1; cases h1
      · rw [hcx] at h1; cases h1
      · exact h1
      · rw [hinc] at h1; cases h1
    · rw [writtenLit_str_sq hf]
      refine domStr_quoted h (by decide) ?_
      rcases hc with rfl | hc | ⟨_, hc⟩
      · rfl
      · cases h1 : s.contains '\'' with
        | false => rfl
        | true => exact absurd ⟨h1, hc⟩ hboth
      · rw [C04.any_isQuote] at hc
        simp only [Bool.or_eq_false_iff] at hc
        exact hc.1
    · rw [writtenLit_str_dq hf]
      exact domStr_quoted h (by decide) hc

mutual
  theorem srcOfV_wf : ∀ (d : Nat) (v : Val), domV .native d v = true → SrcWFV d (srcOfV .native v) = true
    | d, .leaf x, h => by
      simp only [domV, Bool.and_eq_true] at h
      simp only [srcOfV, SrcWFV, Bool.and_eq_true]
      exact ⟨written_ok h.1, h.2⟩
    | d, .dict es, h => by
      simp only [domV, Bool.and_eq_true] at h
      simp only [srcOfV, SrcWFV]
      exact srcOf_wf (d + 1) es h.1
    | d, .list xs, h => by
      simp only [domV] at h
      simp only [srcOfV, SrcWFV]
      exact srcOfXs_wf (d + 1) xs h
  /-- (2c) the written document is a well-formed source document -/
  theorem srcOf_wf : ∀ (d : Nat) (es : Entries), domEs .native d es = true → SrcWFEs d (srcOfEs .native es) = true
    | _, [], _ => by simp [srcOfEs, SrcWFEs]
    | d, (k, v) :: es, h => by
      simp only [domEs, Bool.and_eq_true] at h
      simp only [srcOfEs, SrcWFEs, Bool.and_eq_true]
      exact ⟨⟨⟨domKey_word h.1.1, by rw [domKey_types_back h.1.1]; rfl⟩, srcOfV_wf d v h.1.2⟩, srcOf_wf d es h.2⟩
  theorem srcOfXs_wf : ∀ (d : Nat) (xs : List Val), domXs .native d xs = true → SrcWFXs d (srcOfXs .native xs) = true
    | _, [], _ => by simp [srcOfXs, SrcWFXs]
    | d, v :: xs, h => by
      simp only [domXs, Bool.and_eq_true] at h
      simp only [srcOfXs, SrcWFXs, Bool.and_eq_true]
      exact ⟨srcOfV_wf d v h.1, srcOfXs_wf d xs h.2⟩
end

/-! ### (5) the written document denotes the normalised dict -/

/-- (5) the written document denotes the normalised dict -/
theorem den_written {es : Entries} (h : DomC01 .native es = true) : denSrcEs (srcOfEs .native es) [] = normEs es := by
  simp only [DomC01, Bool.and_eq_true, decide_eq_true_eq] at h
  rw [den_srcOfEs 1 es [] h.1 h.2 (fun _ _ hk => by cases hk)]
  rfl

/-! ### (3) the writer's raw output is an admissible layout of the written document's tokens -/

/-- (3) the raw output of the writer (before trailing-space removal) is an admissible layout of the tokens of the
    written document -/
theorem fmt_is_layout {es : Entries} (h : DomC01 .native es = true) :
    ∃ gaps tail, fmtEntries .native 0 es = spreadS (srcToksEs (srcOfEs .native es)) gaps tail ∧
      GapsOKS (srcToksEs (srcOfEs .native es)) gaps = true ∧ tail.all isWs = true := by
  simp only [DomC01, Bool.and_eq_true] at h
  exact (lays_entries 1 0 es h.1).to_spread

/-! ### (4) trailing-space removal keeps the layout -/

/-- (4) `remove_trailing_spaces` maps an admissible layout of tokens that hold no line break and end in a non-blank
    to an admissible layout of the same tokens (whatever white space the gaps consist of, `\r` included) -/
theorem rts_layout (ts : List STok) (gaps : List Str) (tail : Str) (hgood : ∀ t ∈ ts, TokGood t)
    (hok : GapsOKS ts gaps = true) (htail : tail.all isWs = true) :
    ∃ gaps' tail', removeTrailingSpaces (spreadS ts gaps tail) = spreadS ts gaps' tail' ∧
      GapsOKS ts gaps' = true ∧ tail'.all isWs = true := by
  have hg : ∀ p ∈ pairUp ts gaps, TokGood p.2 := fun p hp =>
    hgood p.2 (by rw [← pairUp_toks ts gaps]; exact List.mem_map_of_mem hp)
  obtain ⟨l1, tail1, e1, m1, ok1, ht1⟩ := universalNl_layP (pairUp ts gaps) true tail (okFrom_of_gapsOKS ts gaps hok) hg htail
  have hg1 : ∀ p ∈ l1, TokGood p.2 := fun p hp =>
    hgood p.2 (by rw [← pairUp_toks ts gaps, ← m1]; exact List.mem_map_of_mem hp)
  obtain ⟨l2, tail2, e2, m2, ok2, ht2⟩ := rts_layP l1 true tail1 ok1 hg1 ht1
  have hts : l2.map Prod.snd = ts := by rw [m2, m1, pairUp_toks]
  refine ⟨l2.map Prod.fst, tail2, ?_, ?_, ht2⟩
  · rw [removeTrailingSpaces_eq, spreadS_pairUp, e1, e2, ← hts, spreadS_of_pairs]
  · rw [← hts]; exact gapsOKS_of_okFrom l2 true ok2

/-- (4, for the writer) the text the native writer produces for a dict of the domain is an admissible layout of the
    tokens of the written document -/
theorem fmtPlain_is_layout {es : Entries} (h : DomC01 .native es = true) :
    ∃ gaps tail, fmtPlain .native es = spreadS (srcToksEs (srcOfEs .native es)) gaps tail ∧
      GapsOKS (srcToksEs (srcOfEs .native es)) gaps = true ∧ tail.all isWs = true := by
  obtain ⟨gaps, tail, e, ok, ht⟩ := fmt_is_layout h
  have hd : domEs .native 1 es = true := by
    simp only [DomC01, Bool.and_eq_true] at h; exact h.1
  rw [show fmtPlain .native es = removeTrailingSpaces (fmtEntries .native 0 (hoistPlaceholders es)) from rfl,
    hoist_id h, e]
  exact rts_layout _ gaps tail (toksEs_good 1 _ (srcOf_wf 1 es hd)) ok ht

/-- everything the reader-side theorems need about the writer, in one statement -/
theorem C01_writer {es : Entries} (h : DomC01 .native es = true) :
    SrcWFEs 1 (srcOfEs .native es) = true ∧
    denSrcEs (srcOfEs .native es) [] = normEs es ∧
    ∃ gaps tail, fmtPlain .native es = spreadS (srcToksEs (srcOfEs .native es)) gaps tail ∧
      GapsOKS (srcToksEs (srcOfEs .native es)) gaps = true ∧ tail.all isWs = true := by
  have hd : domEs .native 1 es = true := by
    simp only [DomC01, Bool.and_eq_true] at h; exact h.1
  exact ⟨srcOf_wf 1 es hd, den_written h, fmtPlain_is_layout h⟩

/-! ### (6) non-vacuity -/

/-- `{'k': 'a;b', 'l': [1, 'x y', {'q': "it's"}], 's': {'t': 2.5, 7: None}, 'e': ''}` -/
def exDict : Entries :=
  [(.str "k".toList, .leaf (.str "a;b".toList)),
   (.str "l".toList, .list [.leaf (.int 1), .leaf (.str "x y".toList), .dict [(.str "q".toList, .leaf (.str "it's".toList))]]),
   (.str "s".toList, .dict [(.str "t".toList, .leaf (.float "2.5".toList)), (.int 7, .leaf .none)]),
   (.str "e".toList, .leaf (.str []))]

theorem exDict_dom : DomC01 .native exDict = true := by decide +kernel

theorem intRepr_1 : intRepr 1 = ['1'] := by
  show intRepr (Int.ofNat 1) = _
  simp [intRepr, natDigits]

theorem intRepr_7 : intRepr 7 = ['7'] := by
  show intRepr (Int.ofNat 7) = _
  simp [intRepr, natDigits]

/-- lines to text (every line ends in `\n`); the expected texts are given line by line because the kernel unfolds a
    long string literal slowly -/
def unlines (ls : List String) : Str := ls.flatMap fun l => l.toList ++ ['\n']

/-- the raw text (before trailing-space removal: the line `1                 'x y'` ends in padding) -/
theorem exDict_raw : fmtEntries .native 0 exDict = unlines
    ["k                             'a;b';",
     "l",
     "(",
     "    1                 'x y'             ",
     "    {",
     "        q                     \"it's\";",
     "    }",
     ");",
     "s",
     "{",
     "    t                         2.5;",
     "    7                         NULL;",
     "}",
     "e                             '';"] := by
  simp only [exDict, fmtEntries, fmtList, fmtItems, formatKey, keyStr, formatScalar, intRepr_1, intRepr_7]
  decide +kernel

theorem exDict_text : fmtPlain .native exDict = unlines
    ["k                             'a;b';",
     "l",
     "(",
     "    1                 'x y'",
     "    {",
     "        q                     \"it's\";",
     "    }",
     ");",
     "s",
     "{",
     "    t                         2.5;",
     "    7                         NULL;",
     "}",
     "e                             '';"] := by
  rw [show fmtPlain .native exDict = removeTrailingSpaces (fmtEntries .native 0 (hoistPlaceholders exDict)) from rfl,
    hoist_id exDict_dom, exDict_raw]
  decide +kernel

/-- the example instantiates the theorems: the writer's text is an admissible layout of a well-formed source
    document that denotes the dict itself (normalisation changes nothing here) -/
theorem exDict_norm : normEs exDict = exDict := by decide +kernel

theorem exDict_writer :
    SrcWFEs 1 (srcOfEs .native exDict) = true ∧
    denSrcEs (srcOfEs .native exDict) [] = exDict ∧
    ∃ gaps tail, fmtPlain .native exDict = spreadS (srcToksEs (srcOfEs .native exDict)) gaps tail ∧
      GapsOKS (srcToksEs (srcOfEs .native exDict)) gaps = true ∧ tail.all isWs = true := by
  have := C01_writer exDict_dom
  rwa [exDict_norm] at this

/-- the tokens of the example document -/
theorem exDict_toks : (srcToksEs (srcOfEs .native exDict)).map STok.text =
    ["k", "'a;b'", ";", "l", "(", "1", "'x y'", "{", "q", "\"it's\"", ";", "}", ")", ";",
     "s", "{", "t", "2.5", ";", "7", "NULL", ";", "}", "e", "''", ";"].map String.toList := by
  simp only [exDict, srcOfEs, srcOfV, srcOfXs, srcToksEs, srcToksV, srcToksXs, List.map_cons, List.map_nil,
    written_text, text_word, keyStr, formatScalar, intRepr_1, intRepr_7, List.cons_append, List.nil_append]
  decide +kernel

/-! ### why the hypotheses are there -/

/-- decidable form of `TokGood` -/
def tokGoodB (t : STok) : Bool :=
  (match t.text.getLast? with | some z => !isWs z | none => false) && t.text.all fun c => c != '\n' && c != '\r'

theorem tokGoodB_iff (t : STok) : tokGoodB t = true ↔ TokGood t := by
  simp only [tokGoodB, TokGood, Bool.and_eq_true, List.all_eq_true, bne_iff_ne, ne_eq]
  constructor
  · rintro ⟨h1, h2⟩
    split at h1
    · next z hz =>
      obtain ⟨a, ha⟩ := List.getLast?_eq_some_iff.mp hz
      exact ⟨a, z, ha, by simpa using h1, h2⟩
    · cases h1
  · rintro ⟨a, z, ha, hz, h2⟩
    refine ⟨?_, h2⟩
    rw [ha, List.getLast?_concat]
    simp [hz]

instance (t : STok) : Decidable (TokGood t) := decidable_of_iff _ (tokGoodB_iff t)

/-- `rts_layout` needs more than "no token holds `\n` or `\r`": a token that ends in a blank is cut when it stands at
    the end of a line (here: of the text).  (No source token does: words hold no blank, quoted strings end in the quote.) -/
theorem rts_layout_needs_nonblank_end :
    ¬ ∀ (ts : List STok) (gaps : List Str) (tail : Str), (∀ t ∈ ts, ∀ c ∈ t.text, c ≠ '\n' ∧ c ≠ '\r') →
      GapsOKS ts gaps = true → tail.all isWs = true →
      ∃ gaps' tail', removeTrailingSpaces (spreadS ts gaps tail) = spreadS ts gaps' tail' ∧
        GapsOKS ts gaps' = true ∧ tail'.all isWs = true := by
  intro h
  obtain ⟨gaps', tail', e, _, _⟩ := h [.word "a ".toList] [[]] [] (by decide) (by decide) (by decide)
  have e0 : removeTrailingSpaces (spreadS [.word "a ".toList] [[]] []) = ['a'] := by decide
  rw [e0] at e
  have := congrArg List.length e
  cases gaps' <;> simp [spreadS, spread, STok.text] at this
  omega

/-- … and it needs "no token holds a line feed": blanks in front of a line feed inside a (quoted) token are removed -/
theorem rts_layout_needs_no_nl :
    ¬ ∀ (ts : List STok) (gaps : List Str) (tail : Str),
      (∀ t ∈ ts, ∃ a z, t.text = a ++ [z] ∧ isWs z = false) →
      GapsOKS ts gaps = true → tail.all isWs = true →
      ∃ gaps' tail', removeTrailingSpaces (spreadS ts gaps tail) = spreadS ts gaps' tail' ∧
        GapsOKS ts gaps' = true ∧ tail'.all isWs = true := by
  intro h
  obtain ⟨gaps', tail', e, _, _⟩ := h [.quoted '\'' "a \nb".toList] [[]] []
    (by intro t ht; simp only [List.mem_singleton] at ht; subst ht; exact ⟨"'a \nb".toList, '\'', by decide, by decide⟩)
    (by decide) (by decide)
  have e0 : removeTrailingSpaces (spreadS [.quoted '\'' "a \nb".toList] [[]] []) = "'a\nb'".toList := by decide
  rw [e0] at e
  have := congrArg List.length e
  cases gaps' <;> simp [spreadS, spread, STok.text] at this
  omega

/-- outside the domain the top-level reordering is not the identity: a key that looks like a block-comment
    placeholder moves to the front -/
theorem hoist_id_needs_dom :
    hoistPlaceholders [(.str "a".toList, .leaf (.int 1)), (.str "BLOCKCOMMENT000001".toList, .leaf (.int 2))] ≠
      [(.str "a".toList, .leaf (.int 1)), (.str "BLOCKCOMMENT000001".toList, .leaf (.int 2))] := by
  decide +kernel

/-- outside the domain the leaf-entry line spells the key by `format_key` (quoted when it holds a blank), which is
    not the word `str(key)`: the writer's line is no layout of the expected tokens -/
theorem fmt_is_layout_needs_dom :
    ¬ ∃ gaps tail, fmtEntries .native 0 [(.str "a b".toList, .leaf (.bool true))] =
        spreadS (srcToksEs (srcOfEs .native [(.str "a b".toList, .leaf (.bool true))])) gaps tail ∧
      GapsOKS (srcToksEs (srcOfEs .native [(.str "a b".toList, .leaf (.bool true))])) gaps = true := by
  rintro ⟨gaps, tail, e, ok⟩
  have e1 : fmtEntries .native 0 [(.str "a b".toList, .leaf (.bool true))] =
      '\'' :: ("a b'".toList ++ spaces 25 ++ "true;\n".toList) := by
    simp only [fmtEntries, formatKey, formatScalar]
    decide
  have e2 : srcToksEs (srcOfEs .native [(.str "a b".toList, .leaf (.bool true))]) =
      [.word "a b".toList, .word "true".toList, .word [';']] := by decide
  rw [e1, e2] at e
  rw [e2] at ok
  match gaps, ok with
  | g :: g' :: gs, ok =>
    simp only [GapsOKS, Bool.and_eq_true] at ok
    have hg := ok.1.1
    cases g with
    | nil => simp [spreadS, spread, STok.text] at e
    | cons c g =>
      simp only [spreadS, spread, List.map_cons, List.cons_append, List.cons.injEq] at e
      simp only [List.all_cons, Bool.and_eq_true] at hg
      rw [← e.1] at hg
      exact absurd hg.1 (by decide)

end DictIO.C01
